/-
C19 — Soil temperature stays within the envelope of its boundary temperatures; the explicit
heat-diffusion scheme never oscillates or overshoots for any admissible bulk density, humus and water
content.

Model: HermesModel/SoilTemp.lean (one call of `Soiltemp`, hermes/soiltemp.go:8-69).  The theorems are
exact-arithmetic statements over ℚ for every number of layers and every number of days; round-off is
measured by the search stage of the check.

Reading of the property.
* "envelope": every `TD[i]` (and `TSOIL[0][i]`) lies in every interval [lo, hi] that contains the
  initial profile, every surface value `TSOIL[1][0]` imposed so far and the base temperature `TBASE`
  (`C19_history_envelope`).  The surface value itself is a convex combination of TMIN, TMAX and
  yesterday's surface value while `sqrt(0.0003·radiat) ≤ 1` (`C19_surface_in_air_range`); beyond, the
  "small radiation overshoot" is exactly `0.69·(TMAX−TMIN)·(sqrt(0.0003·radiat) − 1)`
  (`C19_surface_overshoot`).  `C19_history_envelope_admissible_partial` states both together on inputs only.
* "admissible bulk density" (`AdmLayer`): the five class densities 1.1, 1.3, 1.5, 1.7, 1.85 g/cm³
  (soil.go:307-321) and every measured value `BulkDensity` of the CSV soil format in
  [1.7/3 ≈ 0.567, 2.3] g/cm³.  The property quantifies over "all bulk densities (class or measured
  value)"; the upper limit excludes nothing that is a soil (2.3 g/cm³ leaves a pore space of
  1 − 2.3/2.65 = 13 % by the code's own formula soil.go:341, denser than any compacted till); the
  lower limit is forced by the proof: below 1.7/3 the conductivity formula soiltemp.go:47 is negative
  and the scheme is anti-diffusive.  Such measured densities (0.1 … 0.5 g/cm³) do occur for the peat
  horizons the parameter tables support (textures HN, HH1-HH4 of HYPAR.TRU/PARCAP.TRU), so the
  property FAILS there on the code: `C19_envelope_fails_at_low_density` (finding F18; reproduced on
  the implementation by the search stage, kernel and whole runs).  The theorems that hold are
  therefore stated with the density range as an explicit hypothesis.
* water content "between dryness limit and saturation" and humus: only `0 ≤ WG`, `0 ≤ HUMUS` are
  needed; the exponential factor `exp(−50·(WG/BD)^1.5)` is a named input in (0, 1].
* "never oscillates or overshoots": the update weights `1−2r, r, r` are non-negative exactly for
  `0 ≤ r ≤ 1/2` (`C19_substep_convex`, sharp by `C19_stability_bound_sharp`), the day map is then order
  preserving (`C19_day_monotone`), and `r ≤ 1/2` holds for
  all admissible layers (`C19_r_le_half_partial`; `r ≤ 5/12` for the class densities).
-/
import HermesProofs.SoilTemp
namespace Hermes.SoilTemp

/-- **Sub-step convexity.** If the diffusion number `r = alpha·DT/24/DZ²` of a node lies in [0, 1/2],
its new value lies between the smallest and the largest old value of the node and its two
neighbours (stencil of soiltemp.go:54: one `alpha` per node, no averaging of conductivities). -/
theorem C19_substep_convex (a dt dz2 tm t tp : ℚ)
    (hr0 : 0 ≤ diffNum a dt dz2) (hr1 : diffNum a dt dz2 ≤ 1 / 2) :
    min tm (min t tp) ≤ node a dt dz2 tm t tp ∧ node a dt dz2 tm t tp ≤ max tm (max t tp) := by
  apply node_convex a dt dz2 tm t tp _ _ hr0 hr1
  · exact min_le_left _ _
  · exact le_max_left _ _
  · exact le_trans (min_le_right _ _) (min_le_left _ _)
  · exact le_trans (le_max_left _ _) (le_max_right _ _)
  · exact le_trans (min_le_right _ _) (min_le_right _ _)
  · exact le_trans (le_max_right _ _) (le_max_right _ _)

/-- **The bound 1/2 is sharp, and so is 0**: for every diffusion number outside [0, 1/2] the update
of the profile (0, 1, 0) leaves [0, 1] — below 0 for r > 1/2 (sign change: oscillation), above 1 for
r < 0 (negative conductivity: growth). -/
theorem C19_stability_bound_sharp (a dt dz2 : ℚ) :
    (1 / 2 < diffNum a dt dz2 → node a dt dz2 0 1 0 < 0) ∧
    (diffNum a dt dz2 < 0 → 1 < node a dt dz2 0 1 0) := by
  rw [node_eq]
  constructor <;> intro h <;> linarith

/-- **One sub-step keeps the envelope** (any number of nodes): old profile, today's surface value
and the base temperature inside [lo, hi] ⇒ new profile inside [lo, hi]. -/
theorem C19_substep_envelope (dt dz2 surf tbase lo hi : ℚ) (as ts : List ℚ) (hst : Stable dt dz2 as)
    (hs : lo ≤ surf ∧ surf ≤ hi) (hb : lo ≤ tbase ∧ tbase ≤ hi) (hw : Within lo hi ts) :
    Within lo hi (surf :: (interiorOf dt dz2 as ts ++ [tbase])) :=
  substep_within dt dz2 surf tbase lo hi as ts hst hs.1 hs.2 hb.1 hb.2 hw

/-- **Discrete maximum principle for a whole day** (24 sub-steps, daily mean, any number of layers):
every `TD` value lies in any interval that contains the profile at the start of the day (with
yesterday's surface value, which the first sub-step still reads), today's surface value and TBASE. -/
theorem C19_day_envelope (i : DayIn ℚ) (tsoil : List ℚ) (lo hi : ℚ)
    (hst : Stable i.dt (i.dz * i.dz) (alphas i))
    (hb : lo ≤ i.tbase ∧ i.tbase ≤ hi) (hw : Within lo hi tsoil)
    (hs : lo ≤ (day i tsoil).surf ∧ (day i tsoil).surf ≤ hi) :
    Within lo hi (day i tsoil).td :=
  day_within i tsoil lo hi hst hb.1 hb.2 hw hs.1 hs.2

/-- **Envelope over the whole history** (induction over the days): all layer temperatures of all
days stay within any interval containing the initial profile, every surface value imposed so far and
the base temperature. -/
theorem C19_history_envelope (lo hi : ℚ) (days : List (DayIn ℚ)) (tsoil : List ℚ)
    (hw : Within lo hi tsoil)
    (hd : ∀ d ∈ days, Stable d.dt (d.dz * d.dz) (alphas d) ∧ lo ≤ d.tbase ∧ d.tbase ≤ hi)
    (hs : ∀ s ∈ surfaces days tsoil, lo ≤ s ∧ s ≤ hi) :
    ∀ td ∈ run days tsoil, Within lo hi td :=
  run_within lo hi days tsoil hw hd hs

/-- **Diffusion number of an admissible layer** (DT = 1 d, DZ = 10 cm): `0 ≤ r ≤ 1/2`.  The
exponential factor enters only through `0 < e` (it can only lower the conductivity, since
`11.5 − 5·BD ≥ 0` up to BD = 2.3). -/
theorem C19_r_le_half_partial (l : Layer ℚ) (h : AdmLayer l) :
    0 ≤ diffNum (alpha 1 l) 1 (10 * 10) ∧ diffNum (alpha 1 l) 1 (10 * 10) ≤ 1 / 2 := by
  obtain ⟨a1, a2, a3, a4, a5, _⟩ := h
  exact diffNum_le_half l a1 a2 a3 a4 (le_of_lt a5)

/-- for the five class densities the diffusion number is at most 5/12, whatever the water content -/
theorem C19_r_class_densities (l : Layer ℚ) (h : AdmLayer l) (hc : l.bd ∈ [(1.1 : ℚ), 1.3, 1.5, 1.7, 1.85]) :
    diffNum (alpha 1 l) 1 (10 * 10) ≤ 5 / 12 := by
  obtain ⟨a1, a2, a3, a4, a5, _⟩ := h
  have hb := (diffNum_bound l a1 a2 a3 a4 (le_of_lt a5)).2
  simp only [List.mem_cons, List.mem_nil_iff, or_false] at hc
  rcases hc with h | h | h | h | h <;> rw [h] at hb <;> norm_num at hb ⊢ <;> linarith

/-- **Surface formula**: a convex combination of TMIN, TMAX and yesterday's surface value while the
radiation coefficient `sq = sqrt(0.0003·radiat)` is at most 1 (i.e. `0.0003·radiat ≤ 1`). -/
theorem C19_surface_in_air_range (radiat sq tmin tmax told : ℚ)
    (h0 : 0 ≤ sq) (hsq : sq * sq = 0.0003 * radiat) (hr : 0.0003 * radiat ≤ 1) :
    min tmin (min tmax told) ≤ surface radiat sq tmin tmax told ∧
      surface radiat sq tmin tmax told ≤ max tmin (max tmax told) := by
  apply surface_within radiat sq tmin tmax told _ _ (fun _ => ⟨h0, sq_le_one radiat sq h0 hsq hr⟩)
  · exact min_le_left _ _
  · exact le_max_left _ _
  · exact le_trans (min_le_right _ _) (min_le_left _ _)
  · exact le_trans (le_max_left _ _) (le_max_right _ _)
  · exact le_trans (min_le_right _ _) (min_le_right _ _)
  · exact le_trans (le_max_right _ _) (le_max_right _ _)

/-- **The radiation overshoot**: for `sq ≥ 1` (and TMIN ≤ TMAX) the surface value exceeds the hull of
TMAX and yesterday's value by at most `0.69·(TMAX−TMIN)·(sq−1)`, and never undershoots. -/
theorem C19_surface_overshoot (radiat sq tmin tmax told : ℚ) (h : 833 < radiat) (hsq : 1 ≤ sq)
    (hmm : tmin ≤ tmax) :
    min tmin told ≤ surface radiat sq tmin tmax told ∧
      surface radiat sq tmin tmax told ≤ max tmax told + (1 - 0.31) * ((tmax - tmin) * (sq - 1)) := by
  rw [surface_overshoot_eq radiat sq tmin tmax told h]
  have h1 : min tmin told ≤ tmin := min_le_left _ _
  have h2 : min tmin told ≤ told := min_le_right _ _
  have h3 : tmax ≤ max tmax told := le_max_left _ _
  have h4 : told ≤ max tmax told := le_max_right _ _
  have h5 : 0 ≤ (tmax - tmin) * (sq - 1) := mul_nonneg (by linarith) (by linarith)
  generalize (tmax - tmin) * (sq - 1) = p at h5 ⊢
  generalize min tmin told = m at h1 h2 ⊢
  generalize max tmax told = M at h3 h4 ⊢
  constructor
  · norm_num; linarith
  · norm_num; linarith

/-- **A day of the simulator with admissible layers** (DT = 1, DZ = 10): the maximum principle holds
without any hypothesis on the diffusion numbers. -/
theorem C19_day_envelope_admissible_partial (i : DayIn ℚ) (hadm : AdmDay i) (tsoil : List ℚ) (lo hi : ℚ)
    (hb : lo ≤ i.tbase ∧ i.tbase ≤ hi) (hw : Within lo hi tsoil)
    (hs : lo ≤ (day i tsoil).surf ∧ (day i tsoil).surf ≤ hi) :
    Within lo hi (day i tsoil).td :=
  day_within i tsoil lo hi (admDay_stable i hadm) hb.1 hb.2 hw hs.1 hs.2

/-- **The property on inputs only**: for every run of days with admissible layers and no radiation
overshoot, every layer temperature of every day lies in any interval that contains the initial
profile, the base temperature and the daily air-temperature extremes. -/
theorem C19_history_envelope_admissible_partial (lo hi : ℚ) (days : List (DayIn ℚ)) (tsoil : List ℚ)
    (hne : tsoil ≠ []) (hw : Within lo hi tsoil)
    (hd : ∀ d ∈ days, AdmDay d ∧ AirDay lo hi d) :
    ∀ td ∈ run days tsoil, Within lo hi td :=
  run_within_air lo hi days tsoil hne hw (fun d hdm => ⟨admDay_stable d (hd d hdm).1, (hd d hdm).2⟩)

/-- **No oscillation: the day map is order preserving** (comparison principle).  For the same layers
with diffusion numbers in [0, 1/2]: a start profile, surface value and base temperature that are
nowhere colder give `TD` values that are nowhere colder (`LeL` = pointwise `≤` of equally long lists,
characterised by `leL_nil`, `leL_cons`).  A monotone linear scheme cannot turn a smooth change of
its inputs into sign-alternating responses. -/
theorem C19_day_monotone (i i' : DayIn ℚ) (hl : i'.layers = i.layers) (hdt : i'.dt = i.dt)
    (hdz : i'.dz = i.dz) (hst : Stable i.dt (i.dz * i.dz) (alphas i)) (hb : i.tbase ≤ i'.tbase)
    (ts ts' : List ℚ) (h : LeL ts ts') (hs : (day i ts).surf ≤ (day i' ts').surf) :
    LeL (day i ts).td (day i' ts').td :=
  day_td_mono i i' hl hdt hdz hst hb ts ts' h hs

/-- the surface formula is monotone in TMIN, TMAX and yesterday's surface value while the radiation
coefficient is in [0, 1] -/
theorem C19_surface_monotone (radiat sq tmin tmax told tmin' tmax' told' : ℚ)
    (hsq : 833 < radiat → 0 ≤ sq ∧ sq ≤ 1) (h1 : tmin ≤ tmin') (h2 : tmax ≤ tmax') (h3 : told ≤ told') :
    surface radiat sq tmin tmax told ≤ surface radiat sq tmin' tmax' told' :=
  surface_mono radiat sq tmin tmax told tmin' tmax' told' hsq h1 h2 h3

/-! ### the code violates the property for measured densities below 0.567 g/cm³ (F18) -/

/-- a peat layer with a measured density: BD 0.3 g/cm³, water content 0.5, humus fraction 0.2 -/
def peat : Layer ℚ := { bd := 0.3, wg := 0.5, hum := 0.2, e := 0.001 }

/-- two such layers, no radiation term (LAI ≥ 3), air and base temperature 0 °C -/
def peatDay : DayIn ℚ :=
  { lai := 3, expNegLai := 0.05, rad := 0, eta := 0, temp := 0, tmin := 0, tmax := 0, sq := 0,
    tbase := 0, dt := 1, dz := 10, layers := [peat, peat] }

/-- **The envelope fails for a measured peat density.**  Profile (0, 1, 0) °C, surface value and base
temperature 0 °C: the daily mean of the middle node exceeds 1 °C, the maximum of everything imposed —
the conductivity of soiltemp.go:47 is negative for BD < 0.567 and the scheme amplifies. -/
theorem C19_envelope_fails_at_low_density :
    (day peatDay [0, 1, 0]).surf = 0 ∧ ∃ x ∈ (day peatDay [0, 1, 0]).td, (1 : ℚ) < x := by
  have hr : (109 / 100 : ℚ) ≤ 1 - 2 * diffNum (alpha 1 peat) 1 (10 * 10) := by
    norm_num [diffNum, alpha, heatCond, heatCap, peat]
  obtain ⟨y', s', e, _, b2⟩ := steps_single_growth 1 (10 * 10) (alpha 1 peat) (alpha 1 peat)
    (109 / 100) (by norm_num) hr 24 1 0 (by norm_num)
  have hsurf : surfOf peatDay 0 = 0 := by norm_num [surfOf, surface, radiat, peatDay]
  have hst : daySteps peatDay 0 [0, 1, 0] = ([0, y', 0], [s']) := by
    simp only [daySteps, peatDay, setLast, List.map, List.drop]
    exact e
  refine ⟨by simp only [day]; exact hsurf, s' / 24, ?_, ?_⟩
  · simp only [day, hsurf, hst, tdOf]
    simp
  · rw [lt_div_iff₀ (by norm_num)]
    norm_num at b2 ⊢
    linarith

/-- the peat layer is not admissible (so the theorems above do not apply), only because of its density -/
theorem C19_peat_not_admissible : ¬ AdmLayer peat ∧ 0 ≤ peat.wg ∧ 0 ≤ peat.hum ∧ 0 < peat.e ∧ peat.e ≤ 1 := by
  refine ⟨fun h => ?_, ?_, ?_, ?_, ?_⟩ <;> simp only [peat] at * <;> norm_num at *
  · obtain ⟨h1, _⟩ := h
    norm_num at h1

/-! ### non-vacuity: concrete admissible states -/

/-- a loamy layer of class density 1.5 at 25 vol-% water -/
def loam : Layer ℚ := { bd := 1.5, wg := 0.25, hum := 0.02, e := 0.03 }

example : AdmLayer loam := by unfold AdmLayer loam; norm_num

/-- a summer day with radiation above the threshold (radiat = 1800·(1 − scov) − … > 833) -/
def summerDay : DayIn ℚ :=
  { lai := 0.5, expNegLai := 0.6, rad := 12, eta := 0.2, temp := 18, tmin := 11, tmax := 26, sq := 0.6,
    tbase := 8.7, dt := 1, dz := 10, layers := [loam, loam, { loam with bd := 1.85, wg := 0.3 }] }

example : AdmDay summerDay := by
  refine ⟨rfl, rfl, ?_⟩
  intro l hl
  simp only [summerDay, List.mem_cons, List.mem_nil_iff, or_false] at hl
  rcases hl with h | h | h <;> subst h <;> (unfold AdmLayer loam; norm_num)

example : AirDay 5 30 summerDay := by
  unfold AirDay summerDay; norm_num

example : Within 5 30 [14, 12, 10, 8.7] := by
  intro x hx
  simp only [List.mem_cons, List.mem_nil_iff, or_false] at hx
  rcases hx with h | h | h | h <;> subst h <;> norm_num

example : Stable summerDay.dt (summerDay.dz * summerDay.dz) (alphas summerDay) :=
  admDay_stable summerDay (by
    refine ⟨rfl, rfl, ?_⟩
    intro l hl
    simp only [summerDay, List.mem_cons, List.mem_nil_iff, or_false] at hl
    rcases hl with h | h | h <;> subst h <;> (unfold AdmLayer loam; norm_num))

example : LeL [14, 12, 10, 8.7] [15, 12, 11, 8.7] := by
  refine leL_cons.mpr ⟨by norm_num, leL_cons.mpr ⟨by norm_num, leL_cons.mpr ⟨by norm_num, leL_single (by norm_num)⟩⟩⟩

/-- the hypotheses of `C19_surface_in_air_range` are satisfiable with the radiation branch taken -/
example : (0 : ℚ) ≤ 0.9 ∧ (0.9 : ℚ) * 0.9 = 0.0003 * 2700 ∧ (0.0003 : ℚ) * 2700 ≤ 1 ∧ (833 : ℚ) < 2700 := by
  norm_num

/-- a layer denser than 2.3 g/cm³ whose diffusion number exceeds 1/2 (outside `AdmLayer`): the
hypothesis of `C19_stability_bound_sharp` is met by the code's own formulas -/
example : (1 / 2 : ℚ) < diffNum (alpha 1 ({ bd := 2.5, wg := 0.02, hum := 0, e := 0.9 } : Layer ℚ)) 1 (10 * 10) := by
  norm_num [diffNum, alpha, heatCond, heatCap]

end Hermes.SoilTemp
