package main

// C16 / C10 / C02-C07 input side — the automatic-fertilisation branch of Nitro (hermes/nitro.go:71-229) against
// HermesModel/AutoFert.lean (driver ops autofert.*).
//
//   kernel "autofert.step": the REAL hermes.Nitro, AUTOFERT on, first sub-step, no layers for transport and
//     mineralisation (N = 0, IZM = 0, no tillage / harvest on that day: the way runTillImpl isolates the tillage
//     branch), management events kept in memory (hook VerifCaptureFertilizationEvents), on generated states and
//     automan rows: every trigger kind (stage, sowing day, day of year), boundary days (zeit around SAAT, ZTDG),
//     INTWICK equal to / around the stage, TAG around NDOY and 210, weather at the thresholds 20 / 0.4 / 4;
//     the full new state, the dates written (which applications happened) and the events are compared with
//     `AutoFert.step`;
//   kernel "autofert.run": sequences of consecutive days of one rotation entry on ONE GlobalVarsMain (state
//     carried by the real code), compared with `AutoFert.run` / `fired`;
//   whole generated simulations with AutoFertilization=1: the reader (`autofert.row`: stage columns, time
//     code, fertiliser split against the arrays after Input), and per day the probe state replayed through the
//     isolated real Nitro (kernel "autofert.step" again, on real states) and compared with what the run itself
//     did that day (management event file, DSUMM, NFERTSIM, NDOYk, ZTDG);
//   search: the theorems' predicates of HermesProps/C16Auto.lean on the real code's outputs.

import (
	"fmt"
	"os"
	"path/filepath"
	"strconv"
	"strings"

	"github.com/zalf-rpm/Hermes2Go/hermes"

	"verifharness/proj"
	"verifharness/vh"
)

// ---------------------------------------------------------------- data of one call

type afRow struct {
	Odu     bool       `json:"odu"`
	OrgTime string     `json:"orgtime"`
	OrgDoy  int        `json:"orgdoy"`
	Nsas    float64    `json:"nsas"`
	Nlas    float64    `json:"nlas"`
	Ndir    float64    `json:"ndir"`
	Dgart   string     `json:"dgart"`
	Ndem    [3]float64 `json:"ndem"`
}

type afEntry struct {
	Akf      int   `json:"akf_index"`
	ZtdgPrev int   `json:"ztdg_prev"`
	Cur      afRow `json:"cur"`
	Prev     afRow `json:"prev"`
}

type afState struct {
	Ndoy     [3]int     `json:"ndoy"`
	Ztdg     int        `json:"ztdg"`
	Nfos0    float64    `json:"nfos0"`
	Naos0    float64    `json:"naos0"`
	C10      float64    `json:"c1_0"`
	Dsumm    float64    `json:"dsumm"`
	Nfertsim float64    `json:"nfertsim"`
	Dungart  string     `json:"dungart"`
	Domeng1  float64    `json:"domeng1"`
	Dmeng    [3]float64 `json:"dmeng"`
}

type afDay struct {
	Tag      int        `json:"tag"`
	Intwick  int        `json:"intwick"`
	Wurz     int        `json:"wurz"`
	Saat     int        `json:"saat"`
	C1rest   []float64  `json:"c1_1to8"`
	T        [5]float64 `json:"temp_tag_back"`
	Rain0    float64    `json:"rain_tag"`
	Rain1    float64    `json:"rain_tag_minus1"`
	RainNext float64    `json:"rain_tag_plus1"`
}

type afEvent struct {
	Name   string
	Amount float64
}

// what one call of the real Nitro shows of its applications
type afDayOut struct {
	Panic  string
	OrgAny bool    // ln.DODAT written
	M      [3]bool // ln.DDATk written
	Events []afEvent
}

// name ids of the line protocol
type afNames map[string]int

func (n afNames) id(s string) int {
	if s == "" {
		return 0
	}
	if v, ok := n[s]; ok {
		return v
	}
	n[s] = len(n) + 1
	return n[s]
}

func afOrgCode(s string) int {
	switch s {
	case "H":
		return 1
	case "S":
		return 2
	}
	return 0
}

func (r *afRow) nats(n afNames) string {
	return fmt.Sprintf("%d %d %d %d", b01(r.Odu), afOrgCode(r.OrgTime), r.OrgDoy, n.id(r.Dgart))
}
func (r *afRow) floats() string {
	return vh.FVals(r.Nsas, r.Nlas, r.Ndir, r.Ndem[0], r.Ndem[1], r.Ndem[2])
}
func (e *afEntry) line(n afNames) string {
	return fmt.Sprintf("%d %d %s %s %s %s", e.Akf, e.ZtdgPrev, e.Cur.nats(n), e.Prev.nats(n), e.Cur.floats(), e.Prev.floats())
}
func (s *afState) line(n afNames) string {
	return fmt.Sprintf("%d %d %d %d %d %s", s.Ndoy[0], s.Ndoy[1], s.Ndoy[2], s.Ztdg, n.id(s.Dungart),
		vh.FVals(s.Nfos0, s.Naos0, s.C10, s.Dsumm, s.Nfertsim, s.Domeng1, s.Dmeng[0], s.Dmeng[1], s.Dmeng[2]))
}
func (d *afDay) line() string {
	return fmt.Sprintf("%d %d %d %d %d %s %s", d.Tag, d.Intwick, d.Wurz, d.Saat, len(d.C1rest), vh.FVals(d.C1rest...),
		vh.FVals(d.T[0], d.T[1], d.T[2], d.T[3], d.T[4], d.Rain0, d.Rain1, d.RainNext))
}
func (o *afDayOut) flags() string {
	return fmt.Sprintf("%d %d %d %d", b01(o.OrgAny), b01(o.M[0]), b01(o.M[1]), b01(o.M[2]))
}
func afEventsLine(evs []afEvent, n afNames) string {
	var b strings.Builder
	fmt.Fprintf(&b, "%d", len(evs))
	for _, e := range evs {
		fmt.Fprintf(&b, " %d %s", n.id(e.Name), vh.FHex(e.Amount))
	}
	return b.String()
}

// ---------------------------------------------------------------- the real code, isolated

type afG struct {
	g    hermes.GlobalVarsMain
	l    hermes.NitroSharedVars
	ln   hermes.NitroBBBSharedVars
	out  hermes.CropOutputVars
	sink *hermes.VerifEventSink
	akf  int
}

func afSetRow(g *hermes.GlobalVarsMain, i int, r *afRow) {
	g.ODU[i] = 0
	if r.Odu {
		g.ODU[i] = 1
	}
	g.ORGTIME[i] = r.OrgTime
	g.ORGDOY[i] = r.OrgDoy
	g.NSAS[i], g.NLAS[i], g.NDIR[i] = r.Nsas, r.Nlas, r.Ndir
	g.DGART[i] = r.Dgart
	g.NDEM1[i], g.NDEM2[i], g.NDEM3[i] = r.Ndem[0], r.Ndem[1], r.Ndem[2]
}

// newAfG: a GlobalVarsMain on which Nitro executes nothing but the automatic-fertilisation branch: no layers
// (N = 0, IZM = 0), no tillage date, no harvest date of the current entry.
func newAfG(e *afEntry, s *afState) *afG {
	a := &afG{g: hermes.NewGlobalVarsMain(), akf: e.Akf}
	g := &a.g
	g.Kalender = hermes.KalenderConverter(hermes.DateDElong, ".")
	g.AUTOFERT = true
	g.N, g.IZM, g.FLUSS0 = 0, 0, 0
	g.AKF.SetByIndex(e.Akf)
	g.EINTE[1] = 0
	g.ERNTE[e.Akf] = 0
	afSetRow(g, e.Akf, &e.Cur)
	if e.Akf >= 1 {
		afSetRow(g, e.Akf-1, &e.Prev)
		g.ZTDG[e.Akf-1] = e.ZtdgPrev
	}
	g.NDOY1[e.Akf], g.NDOY2[e.Akf], g.NDOY3[e.Akf] = float64(s.Ndoy[0]), float64(s.Ndoy[1]), float64(s.Ndoy[2])
	g.ZTDG[e.Akf] = s.Ztdg
	g.NFOS[0], g.NAOS[0], g.C1[0] = s.Nfos0, s.Naos0, s.C10
	g.DSUMM, g.NFERTSIM = s.Dsumm, s.Nfertsim
	a.ln.DUNGART, a.ln.DOMENG1 = s.Dungart, s.Domeng1
	a.ln.DMENG1, a.ln.DMENG2, a.ln.DMENG3 = s.Dmeng[0], s.Dmeng[1], s.Dmeng[2]
	a.sink = hermes.VerifCaptureFertilizationEvents(g)
	return a
}

func (a *afG) state() afState {
	g := &a.g
	return afState{Ndoy: [3]int{int(g.NDOY1[a.akf]), int(g.NDOY2[a.akf]), int(g.NDOY3[a.akf])}, Ztdg: g.ZTDG[a.akf],
		Nfos0: g.NFOS[0], Naos0: g.NAOS[0], C10: g.C1[0], Dsumm: g.DSUMM, Nfertsim: g.NFERTSIM,
		Dungart: a.ln.DUNGART, Domeng1: a.ln.DOMENG1, Dmeng: [3]float64{a.ln.DMENG1, a.ln.DMENG2, a.ln.DMENG3}}
}

// day sets what the branch reads of the day and calls the real Nitro (sub-step 1).
func (a *afG) day(zeit int, d *afDay) (o afDayOut) {
	defer func() {
		if r := recover(); r != nil {
			o.Panic = fmt.Sprint(r)
		}
	}()
	g := &a.g
	// every cell the branch has no business reading holds a value far off: a widened loop bound or a shifted
	// index of the weather window shows up as a disagreement
	for i := range g.TEMP {
		g.TEMP[i] = 99
	}
	for i := range g.REGEN {
		g.REGEN[i] = 99
	}
	for i := 9; i < len(g.C1); i++ {
		g.C1[i] = 1000
	}
	g.TAG.SetByIndex(d.Tag - 1)
	for k := 0; k < 5; k++ {
		if idx := d.Tag - 1 - k; idx >= 0 {
			g.TEMP[idx] = d.T[k]
		}
	}
	g.REGEN[d.Tag-1] = d.Rain0
	if d.Tag >= 2 {
		g.REGEN[d.Tag-2] = d.Rain1
	}
	g.REGEN[d.Tag] = d.RainNext
	g.INTWICK.SetByIndex(d.Intwick - 1)
	g.WURZ = d.Wurz
	g.SAAT[a.akf] = d.Saat
	for i, v := range d.C1rest {
		g.C1[1+i] = v
	}
	a.ln.DODAT, a.ln.DDAT1, a.ln.DDAT2, a.ln.DDAT3 = "", "", "", ""
	a.sink.Reset()
	_, err := hermes.Nitro(1, 1, zeit, g, &a.l, &a.ln, nil, &a.out)
	if err != nil {
		o.Panic = "error: " + err.Error()
		return
	}
	o.OrgAny = a.ln.DODAT != ""
	o.M = [3]bool{a.ln.DDAT1 != "", a.ln.DDAT2 != "", a.ln.DDAT3 != ""}
	o.Events = afParseSink(a.sink.String())
	return o
}

// afParseSink: lines `date;fertilization;Fertilizer: X;NH4: 0;` / `…;Ndirect: v;` (nitro.go:40-54: Ndirect is
// dropped when it is 0).
func afParseSink(s string) []afEvent {
	var out []afEvent
	for _, ln := range strings.Split(s, "\n") {
		f := strings.Split(ln, ";")
		if len(f) < 3 || f[1] != "fertilization" {
			continue
		}
		var e afEvent
		for _, kv := range f[2:] {
			switch {
			case strings.HasPrefix(kv, "Fertilizer: "):
				e.Name = strings.TrimPrefix(kv, "Fertilizer: ")
			case strings.HasPrefix(kv, "Ndirect: "):
				e.Amount, _ = strconv.ParseFloat(strings.TrimPrefix(kv, "Ndirect: "), 64)
			}
		}
		out = append(out, e)
	}
	return out
}

// afStepImpl: one isolated call; answer line in the format of `autofert.step`.
func afStepImpl(zeit int, e *afEntry, s *afState, d *afDay, n afNames) (string, afDayOut, afState) {
	a := newAfG(e, s)
	o := a.day(zeit, d)
	if o.Panic != "" {
		return "panic", o, *s
	}
	st := a.state()
	return fmt.Sprintf("ok %s %s %s", st.line(n), o.flags(), afEventsLine(o.Events, n)), o, st
}

func afStepLine(zeit int, e *afEntry, s *afState, d *afDay, n afNames) string {
	return fmt.Sprintf("autofert.step %d %s %s %s", zeit, e.line(n), s.line(n), d.line())
}

// ---------------------------------------------------------------- generators

var afKernelNames = []string{"", "RM", "SG", "RG", "SM", "KAS"}

func afGenRow(r *vh.Rng) afRow {
	row := afRow{Odu: r.Chance(0.6), OrgTime: []string{"H", "S", "0", "H", "S"}[r.Intn(5)], OrgDoy: r.Range(0, 20), Dgart: afKernelNames[1+r.Intn(len(afKernelNames)-1)]}
	amt := func() float64 {
		switch r.Intn(8) {
		case 0:
			return 0
		case 1:
			return float64(r.Range(1, 90))
		}
		return vh.RoundTo(r.Uni(0, 90), 3)
	}
	row.Nsas, row.Nlas, row.Ndir = amt(), amt(), amt()
	if r.Chance(0.06) {
		row.Ndir = -vh.RoundTo(r.Uni(0, 8), 3) // not a value the reader produces from a sane table: exercises the clamp
	}
	for k := range row.Ndem {
		switch r.Intn(6) {
		case 0:
			row.Ndem[k] = 0
		case 1:
			row.Ndem[k] = vh.RoundTo(r.Uni(0, 200), 2)
		default:
			row.Ndem[k] = float64(r.Range(10, 200))
		}
	}
	return row
}

// afGenNdoy: 0 (dose 1: at sowing; doses 2, 3: never for a standing crop), a stage 1..9, a day of the year, >= 365
func afGenNdoy(r *vh.Rng) int {
	switch r.Intn(20) {
	case 0, 1, 2:
		return 0
	case 3, 4, 5, 6, 7, 8, 9:
		return r.Range(1, 9)
	case 10:
		return []int{10, 11, 209, 210, 364}[r.Intn(5)]
	case 11:
		return []int{365, 366, 370, 400}[r.Intn(4)]
	}
	return r.Range(12, 330)
}

func afGenWeather(r *vh.Rng, d *afDay) {
	switch r.Intn(6) {
	case 0:
		d.T = [5]float64{4, 4, 4, 4, 4} // sum exactly 20: not above
	case 1:
		d.T = [5]float64{4, 4, 4, 4, 4.5}
	case 2:
		d.T = [5]float64{3.5, 4, 4, 4, 4}
	default:
		base := r.Uni(-6, 14)
		for k := range d.T {
			d.T[k] = vh.RoundTo(base+r.Uni(-4, 4), 1)
		}
	}
	switch r.Intn(6) {
	case 0:
		d.Rain0, d.Rain1 = 0.2, 0.2 // 0.4: not below
	case 1:
		d.Rain0, d.Rain1 = 0.3, 0.0999
	case 2:
		d.Rain0, d.Rain1 = vh.RoundTo(r.Uni(0, 3), 2), vh.RoundTo(r.Uni(0, 3), 2)
	default:
		d.Rain0, d.Rain1 = 0, vh.RoundTo(r.Uni(0, 0.39), 2)
		if r.Chance(0.5) {
			d.Rain1 = 0
		}
	}
	switch r.Intn(6) {
	case 0:
		d.RainNext = 4
	case 1:
		d.RainNext = 3.99
	case 2:
		d.RainNext = vh.RoundTo(r.Uni(4, 30), 1)
	default:
		d.RainNext = vh.RoundTo(r.Uni(0, 3.9), 2)
		if r.Chance(0.5) {
			d.RainNext = 0
		}
	}
}

func afGenC1(r *vh.Rng, s *afState, d *afDay, ndem [3]float64) {
	d.C1rest = make([]float64, 8)
	hi := []float64{5, 20, 60}[r.Intn(3)]
	for i := range d.C1rest {
		d.C1rest[i] = vh.RoundTo(r.Uni(0, hi), 3)
		if r.Chance(0.03) {
			d.C1rest[i] = -vh.RoundTo(r.Uni(0, 1), 3) // transport undershoot (C07's subject), excluded from the <= demand predicate
		}
	}
	s.C10 = vh.RoundTo(r.Uni(0, hi), 3)
	switch r.Intn(12) {
	case 0:
		s.C10 = 0
	case 1:
		s.C10 = -vh.RoundTo(r.Uni(0, 3), 3)
	case 2:
		// demand exactly met by the top three layers
		if x := ndem[0] - d.C1rest[0] - d.C1rest[1]; x >= 0 {
			s.C10 = x
		}
	}
}

type afStepCase struct {
	Zeit  int     `json:"zeit"`
	Entry afEntry `json:"entry"`
	State afState `json:"state"`
	Day   afDay   `json:"day"`
	How   string  `json:"how"`
}

func afGenStepCase(r *vh.Rng) afStepCase {
	c := afStepCase{Zeit: 30000 + r.Intn(4000), How: "hermes.Nitro(1, 1, zeit, g, …) with AUTOFERT, N = 0, IZM = 0 on the state given (harness/cmd/check/c16_autofert.go newAfG / afG.day)"}
	e, s, d := &c.Entry, &c.State, &c.Day
	e.Cur, e.Prev = afGenRow(r), afGenRow(r)
	e.Akf = r.Range(1, 6)
	switch r.Intn(20) {
	case 0, 1, 2:
		d.Saat = 0
	case 3, 4, 5, 6, 7, 8:
		d.Saat = c.Zeit
	case 9, 10:
		d.Saat = c.Zeit + r.Range(1, 30)
	case 11:
		d.Saat = c.Zeit - 1
	default:
		d.Saat = c.Zeit - r.Range(1, 300)
	}
	if r.Chance(0.07) {
		e.Akf = 0 // the pre-crop: never sown after Input (before the fix of nitro.go:92 SAAT[0] > 0 with ODU[0] = 1 indexed ORGTIME[-1])
		if r.Chance(0.6) {
			d.Saat = 0
		}
	}
	for k := range s.Ndoy {
		s.Ndoy[k] = afGenNdoy(r)
	}
	// stage and day of the year: on / around the configured values
	d.Intwick = r.Range(0, 9)
	if k := r.Intn(4); k < 3 && s.Ndoy[k] < 10 && r.Chance(0.8) {
		d.Intwick = s.Ndoy[k] + []int{0, 0, 0, 1, -1}[r.Intn(5)]
		if d.Intwick < 0 {
			d.Intwick = 0
		}
	}
	d.Tag = r.Range(1, 365)
	if k := r.Intn(4); k < 3 && s.Ndoy[k] >= 10 && r.Chance(0.85) {
		d.Tag = s.Ndoy[k] + []int{0, 0, 1, 1, 2, -1, 30}[r.Intn(7)]
	} else if r.Chance(0.15) {
		d.Tag = []int{208, 209, 210, 211}[r.Intn(4)]
	}
	if d.Tag < 1 {
		d.Tag = 1
	}
	if d.Tag > 366 {
		d.Tag = 366
	}
	d.Wurz = r.Range(0, 12)
	afGenWeather(r, d)
	if r.Chance(0.5) { // favourable weather: the day-of-year dose 1 depends on the other conditions
		d.T = [5]float64{6, 7, 8, 7, 6}
		d.Rain0, d.Rain1, d.RainNext = 0, 0.1, 1
	}
	afGenC1(r, s, d, e.Cur.Ndem)
	s.Ztdg = []int{0, c.Zeit, c.Zeit, d.Saat + e.Cur.OrgDoy, c.Zeit - 1, c.Zeit + 1}[r.Intn(6)]
	if r.Chance(0.3) && d.Saat > 0 && d.Saat+e.Cur.OrgDoy != c.Zeit && r.Chance(0.5) {
		e.Cur.OrgDoy = 0
	}
	e.ZtdgPrev = []int{0, c.Zeit, c.Zeit, c.Zeit, c.Zeit - 1, c.Zeit + 1}[r.Intn(6)]
	if r.Chance(0.5) {
		e.Prev.Odu = true
	}
	s.Nfos0, s.Naos0 = vh.RoundTo(r.Uni(0, 200), 3), vh.RoundTo(r.Uni(0, 300), 3)
	s.Dsumm, s.Nfertsim = vh.RoundTo(r.Uni(0, 300), 3), vh.RoundTo(r.Uni(0, 200), 3)
	s.Dungart = afKernelNames[r.Intn(len(afKernelNames))]
	s.Domeng1 = vh.RoundTo(r.Uni(0, 100), 2)
	for k := range s.Dmeng {
		s.Dmeng[k] = vh.RoundTo(r.Uni(0, 100), 2)
	}
	return c
}

// ---------------------------------------------------------------- predicates on one call of the real code

func afSumTop(k int, c10 float64, rest []float64) float64 {
	s := 0.0
	for i := 0; i < k && i < 1+len(rest); i++ {
		if i == 0 {
			s += c10
		} else {
			s += rest[i-1]
		}
	}
	return s
}

func afAllNonneg(k int, c10 float64, rest []float64) bool {
	for i := 0; i < k && i < 1+len(rest); i++ {
		v := c10
		if i > 0 {
			v = rest[i-1]
		}
		if v < 0 {
			return false
		}
	}
	return true
}

// afJudgeCall evaluates, on the answer of the real code, what C16_autofert_* state about one call.
// ctx: "autofert-kernel" / "autofert-run".
func afJudgeCall(c *vh.Ctx, ctx string, zeit int, e *afEntry, s0 *afState, d *afDay, o *afDayOut, s1 *afState, replay interface{}) {
	c.Eval()
	sown := d.Saat > 0 && zeit >= d.Saat
	// mineral doses: the events behind the organic "H" event, in the order of the dates written
	nDose := b01(o.M[0]) + b01(o.M[1]) + b01(o.M[2])
	hEvent := len(o.Events)-nDose == 1
	if len(o.Events) != nDose && !hEvent {
		c.Violate("search", ctx+":events-vs-applications", fmt.Sprintf("day %d: %d management events for %d mineral doses (dates written: %v, organic: %v)", zeit, len(o.Events), nDose, o.M, o.OrgAny), replay)
		return
	}
	doses := o.Events
	if hEvent {
		doses = doses[1:]
	}
	j := 0
	for k := 0; k < 3; k++ {
		if !o.M[k] {
			continue
		}
		amt := doses[j].Amount
		j++
		kind := "stage"
		if s0.Ndoy[k] >= 10 {
			kind = "day-of-year"
		} else if s0.Ndoy[k] == 0 {
			kind = "sowing-day"
		}
		c.Count(fmt.Sprintf("%s:dose%d:%s", ctx, k+1, kind))
		if amt < 0 {
			c.Violate("search", fmt.Sprintf("%s:dose-negative:dose%d:%s", ctx, k+1, kind), fmt.Sprintf("day %d: automatic N dose %d of %g kg N/ha (demand %g)", zeit, k+1, amt, e.Cur.Ndem[k]), replay)
		}
		layers := 3
		if k > 0 {
			layers = d.Wurz
			if layers > 9 {
				layers = 9
			}
		}
		if e.Cur.Ndem[k] >= 0 && afAllNonneg(layers, s1.C10, d.C1rest) {
			if amt > e.Cur.Ndem[k] {
				c.Violate("search", fmt.Sprintf("%s:dose-above-demand:dose%d:%s", ctx, k+1, kind), fmt.Sprintf("day %d: automatic N dose %d of %g kg N/ha above its configured demand %g (mineral N of the %d layers %g)", zeit, k+1, amt, e.Cur.Ndem[k], layers, afSumTop(layers, s1.C10, d.C1rest)), replay)
			}
		} else {
			c.Count(ctx + ":excluded:negative-layer-or-demand")
		}
		if !sown {
			c.Violate("search", fmt.Sprintf("%s:applied-before-sowing:dose%d", ctx, k+1), fmt.Sprintf("day %d: automatic N dose %d applied while SAAT = %d", zeit, k+1, d.Saat), replay)
		}
	}
	if !sown && (s1.Ndoy != s0.Ndoy || s1.Ztdg != s0.Ztdg || s1.C10 != s0.C10 || s1.Nfertsim != s0.Nfertsim) {
		c.Violate("search", ctx+":state-moved-before-sowing", fmt.Sprintf("day %d, SAAT = %d: NDOY %v -> %v, ZTDG %d -> %d, C1[0] %g -> %g, NFERTSIM %g -> %g", zeit, d.Saat, s0.Ndoy, s1.Ndoy, s0.Ztdg, s1.Ztdg, s0.C10, s1.C10, s0.Nfertsim, s1.Nfertsim), replay)
	}
	// organic "H": exactly on ZTDG of the previous entry, with its amounts
	wantH := e.Akf >= 1 && e.Prev.Odu && e.Prev.OrgTime == "H" && zeit == e.ZtdgPrev
	if hEvent != wantH {
		c.Violate("search", ctx+":organic-H:day", fmt.Sprintf("day %d: organic fertiliser event of the previous entry %v, configured (ODU %v, time code %q, ZTDG %d) %v", zeit, hEvent, e.Prev.Odu, e.Prev.OrgTime, e.ZtdgPrev, wantH), replay)
	} else if hEvent {
		c.Count(ctx + ":organic-H")
		if o.Events[0].Amount != e.Prev.Ndir || o.Events[0].Name != e.Prev.Dgart {
			c.Violate("search", ctx+":organic-H:amount", fmt.Sprintf("day %d: organic fertiliser event %q %g, previous entry has %q NDIR %g", zeit, o.Events[0].Name, o.Events[0].Amount, e.Prev.Dgart, e.Prev.Ndir), replay)
		}
	}
	// what the call books (C16_autofert_booked_amounts): DSUMM rises by the amounts of the events, NFERTSIM by the doses
	evSum, doseSum := 0.0, 0.0
	for _, ev := range o.Events {
		evSum += ev.Amount
	}
	for _, ev := range doses {
		doseSum += ev.Amount
	}
	tol := 1e-9 * (1 + abs64(s0.Dsumm) + abs64(s0.Nfertsim) + abs64(evSum))
	if abs64(s1.Dsumm-s0.Dsumm-evSum) > tol || abs64(s1.Nfertsim-s0.Nfertsim-doseSum) > tol {
		c.Violate("search", ctx+":booked-amounts", fmt.Sprintf("day %d: DSUMM %g -> %g with events summing to %g, NFERTSIM %g -> %g with doses summing to %g", zeit, s0.Dsumm, s1.Dsumm, evSum, s0.Nfertsim, s1.Nfertsim, doseSum), replay)
	}
	// sums never decrease (NDIR of the table split is not negative)
	if s1.Nfertsim < s0.Nfertsim || (e.Prev.Ndir >= 0 && s1.Dsumm < s0.Dsumm) {
		c.Violate("search", ctx+":sum-decreased", fmt.Sprintf("day %d: DSUMM %g -> %g, NFERTSIM %g -> %g", zeit, s0.Dsumm, s1.Dsumm, s0.Nfertsim, s1.Nfertsim), replay)
	}
	// the clamp of the "S" application: C1[0] is not negative afterwards and the clamp only adds
	if s1.C10 != s0.C10 {
		c.Count(ctx + ":organic-S:c1-moved")
		if s1.C10 < 0 || s1.C10 < s0.C10+e.Cur.Ndir {
			c.Violate("search", ctx+":organic-S:clamp", fmt.Sprintf("day %d: C1[0] %g -> %g with NDIR %g", zeit, s0.C10, s1.C10, e.Cur.Ndir), replay)
		}
		if s0.C10+e.Cur.Ndir < 0 {
			c.Count(ctx + ":organic-S:clamped")
		}
	}
}

// ---------------------------------------------------------------- sequences of days of one entry

type afSeqCase struct {
	Zeit0 int     `json:"first_day"`
	Entry afEntry `json:"entry"`
	State afState `json:"state"`
	Days  []afDay `json:"days"`
	Hole  bool    `json:"stage_zero_while_sown"`
	How   string  `json:"how"`
}

func afGenSeqCase(r *vh.Rng, thorough bool) afSeqCase {
	n := r.Range(60, 220)
	if r.Chance(0.3) || thorough {
		n = r.Range(200, 520)
	}
	c := afSeqCase{Zeit0: 30000 + r.Intn(4000), How: "one GlobalVarsMain, hermes.Nitro(1, 1, zeit0+j, …) for the days in turn (harness/cmd/check/c16_autofert.go afSeqImpl)"}
	e, s := &c.Entry, &c.State
	e.Akf = r.Range(1, 5)
	e.Cur, e.Prev = afGenRow(r), afGenRow(r)
	if e.Cur.Ndir < 0 {
		e.Cur.Ndir = -e.Cur.Ndir
	}
	if e.Prev.Ndir < 0 {
		e.Prev.Ndir = -e.Prev.Ndir
	}
	for k := range s.Ndoy {
		s.Ndoy[k] = afGenNdoy(r)
	}
	sowIdx := r.Range(0, 40)
	fixed := r.Chance(0.5)
	switch r.Intn(12) {
	case 0:
		sowIdx = -r.Range(1, 60) // already standing
		fixed = true
	case 1:
		sowIdx = n + 5 // not sown during the sequence
	}
	saat := c.Zeit0 + sowIdx
	tag := r.Range(1, 365)
	if r.Chance(0.4) { // autumn sowing: the entry stands over a turn of the year
		tag = r.Range(240, 330)
	}
	c.Hole = r.Chance(0.06)
	stage, wurz := 0, 0
	yearLen := 365 + r.Intn(2)
	warm := r.Intn(40)
	var dummy afState
	for j := 0; j < n; j++ {
		var d afDay
		d.Tag = tag
		tag++
		if tag > yearLen {
			tag, yearLen = 1, 365+r.Intn(2)
		}
		zeit := c.Zeit0 + j
		if fixed || zeit >= saat {
			d.Saat = saat
			if sowIdx > n {
				d.Saat = 0
			}
		}
		if d.Saat > 0 && zeit >= d.Saat {
			if stage == 0 {
				stage, wurz = 1, 1
			} else if stage < 8 && r.Chance(0.035) {
				stage++
			}
			if wurz < 12 && r.Chance(0.12) {
				wurz++
			}
		}
		d.Intwick, d.Wurz = stage, wurz
		if c.Hole && stage > 0 && r.Chance(0.05) {
			d.Intwick = 0 // a sown entry in stage 0: not a state the day loop produces (PhytoOut sets stage 1 on the sowing day)
		}
		afGenC1(r, &dummy, &d, e.Cur.Ndem)
		afGenWeather(r, &d)
		if warm > 0 {
			warm--
			d.T = [5]float64{6, 7, 8, 7, 6}
			d.Rain0, d.Rain1, d.RainNext = 0, 0.1, 1
		} else if r.Chance(0.03) {
			warm = r.Range(2, 30)
		}
		c.Days = append(c.Days, d)
	}
	afGenC1(r, s, &afDay{}, e.Cur.Ndem)
	if s.C10 < 0 {
		s.C10 = 0
	}
	s.Ztdg = []int{0, 0, c.Zeit0 + r.Intn(n)}[r.Intn(3)]
	e.ZtdgPrev = c.Zeit0 + r.Range(-3, n+3)
	if sd := saat + e.Cur.OrgDoy; e.ZtdgPrev == sd || e.ZtdgPrev == s.Ztdg {
		e.ZtdgPrev = 0 // "H" and "S" on the same day are a subject of the single-call kernel
	}
	s.Nfos0, s.Naos0 = vh.RoundTo(r.Uni(0, 200), 3), vh.RoundTo(r.Uni(0, 300), 3)
	s.Dsumm, s.Nfertsim = vh.RoundTo(r.Uni(0, 300), 3), 0
	s.Dungart = afKernelNames[r.Intn(len(afKernelNames))]
	return c
}

func (c *afSeqCase) line(n afNames) string {
	var b strings.Builder
	fmt.Fprintf(&b, "autofert.run %d %s %s %d", c.Zeit0, c.Entry.line(n), c.State.line(n), len(c.Days))
	for i := range c.Days {
		b.WriteByte(' ')
		b.WriteString(c.Days[i].line())
	}
	return b.String()
}

// afSeqImpl: the real code over the days; answer line in the format of `autofert.run`, and the per-day answers.
func afSeqImpl(c *vh.Ctx, sc *afSeqCase, n afNames, replay interface{}) string {
	a := newAfG(&sc.Entry, &sc.State)
	var evs, days strings.Builder
	nEv, nDays := 0, 0
	var fired [5]int // orgH orgS min1 min2 min3
	init := sc.State.Ndoy
	year := 0
	perYear := map[[2]int]int{}
	for j := range sc.Days {
		zeit := sc.Zeit0 + j
		d := &sc.Days[j]
		if j > 0 && d.Tag == 1 {
			year++
		}
		before := a.state()
		c10 := before.C10
		o := a.day(zeit, d)
		if o.Panic != "" {
			return "panic " + o.Panic
		}
		after := a.state()
		_ = c10
		afJudgeCall(c, "autofert-seq", zeit, &sc.Entry, &before, d, &o, &after, replay)
		nDose := b01(o.M[0]) + b01(o.M[1]) + b01(o.M[2])
		h := len(o.Events)-nDose == 1
		for _, e := range o.Events {
			nEv++
			fmt.Fprintf(&evs, " %d %d %s", zeit, n.id(e.Name), vh.FHex(e.Amount))
		}
		if o.OrgAny || nDose > 0 {
			nDays++
			fmt.Fprintf(&days, " %d %s", zeit, o.flags())
		}
		if h {
			fired[0]++
		}
		if o.OrgAny && !h {
			fired[1]++
		}
		for k := 0; k < 3; k++ {
			if o.M[k] {
				fired[2+k]++
				perYear[[2]int{k, year}]++
			}
		}
	}
	// ---- at most once (C16_autofert_dose1_at_most_once, …_stage_dose_at_most_once, …_doy_dose_once_per_year)
	c.Eval()
	for k := 0; k < 3; k++ {
		kind := "stage"
		if init[k] >= 10 {
			kind = "day-of-year"
		} else if init[k] == 0 {
			kind = "sowing-day"
		}
		switch {
		case k == 0 || init[k] < 10:
			if k > 0 && sc.Hole {
				c.Count("autofert-seq:excluded:stage-zero-while-sown")
				if fired[2+k] > 1 {
					c.Count("autofert-seq:excluded:stage-zero-while-sown:dose-repeated")
				}
				continue
			}
			if fired[2+k] > 1 {
				c.Violate("search", fmt.Sprintf("autofert-seq:dose-repeated:dose%d:%s", k+1, kind), fmt.Sprintf("dose %d (NDOY%d = %d) applied %d times during %d consecutive days of one rotation entry", k+1, k+1, init[k], fired[2+k], len(sc.Days)), replay)
			}
		default:
			for y := 0; y <= year; y++ {
				if perYear[[2]int{k, y}] > 1 {
					c.Violate("search", fmt.Sprintf("autofert-seq:dose-repeated-in-year:dose%d:day-of-year", k+1), fmt.Sprintf("dose %d (day of the year %d) applied %d times in one calendar year", k+1, init[k], perYear[[2]int{k, y}]), replay)
				}
			}
		}
		if fired[2+k] > 0 {
			c.Nontrivial(fmt.Sprintf("seq:dose%d:%s:%d", k+1, kind, fired[2+k]))
		}
	}
	// organic "H" exactly once when its day lies in the sequence
	wantH := 0
	if p := &sc.Entry.Prev; p.Odu && p.OrgTime == "H" && sc.Entry.ZtdgPrev >= sc.Zeit0 && sc.Entry.ZtdgPrev < sc.Zeit0+len(sc.Days) {
		wantH = 1
	}
	if fired[0] != wantH {
		c.Violate("search", "autofert-seq:organic-H:not-exactly-once", fmt.Sprintf("organic fertiliser of the previous entry applied %d times, its day ZTDG = %d lies %d times in the days %d..%d", fired[0], sc.Entry.ZtdgPrev, wantH, sc.Zeit0, sc.Zeit0+len(sc.Days)-1), replay)
	}
	if fired[1] > 1 {
		c.Violate("search", "autofert-seq:organic-S:repeated", fmt.Sprintf("organic fertiliser of the entry applied %d times at sowing + ORGDOY", fired[1]), replay)
	}
	// the organic fertiliser "at sowing": for an entry with time code "S" only (C16_autofert_orgS_only_for_code_S), and
	// exactly once when the sowing day and sowing day + ORGDOY lie in the sequence (C16_autofert_orgS_exactly_once)
	if cur := &sc.Entry.Cur; !cur.Odu || cur.OrgTime != "S" {
		if fired[1] != 0 {
			c.Violate("search", "autofert-seq:organic-S:applied-for-code-"+afCodeClass(cur.OrgTime), fmt.Sprintf("entry with ODU %v and time code %q (previous entry %q): organic fertiliser applied %d times at sowing + ORGDOY", cur.Odu, cur.OrgTime, sc.Entry.Prev.OrgTime, fired[1]), replay)
		}
	} else {
		sow := 0
		for j := range sc.Days {
			if sc.Days[j].Saat == sc.Zeit0+j {
				sow = sc.Zeit0 + j
			}
		}
		if sow > 0 && sow+cur.OrgDoy < sc.Zeit0+len(sc.Days) {
			c.Count("autofert-seq:organic-S:due")
			if fired[1] != 1 {
				c.Violate("search", "autofert-seq:organic-S:lost:predecessor-code-"+afCodeClass(sc.Entry.Prev.OrgTime), fmt.Sprintf("entry with organic fertiliser at sowing + %d days, sown on day %d inside the days %d..%d: applied %d times (time code of the previous entry %q)", cur.OrgDoy, sow, sc.Zeit0, sc.Zeit0+len(sc.Days)-1, fired[1], sc.Entry.Prev.OrgTime), replay)
			}
		}
	}
	st := a.state()
	return fmt.Sprintf("%s %d%s %d%s %d %d %d %d %d", st.line(n), nEv, evs.String(), nDays, days.String(), fired[0], fired[1], fired[2], fired[3], fired[4])
}

// ---------------------------------------------------------------- kernel stage

func c16AutoFertKernels(c *vh.Ctx) {
	names := afNames{}
	for _, s := range afKernelNames {
		names.id(s)
	}
	// ---- single calls
	nStep := c.N(6000, 120000)
	var cases, impl []string
	payload := map[int]interface{}{}
	for k := 0; k < nStep; k++ {
		sc := afGenStepCase(c.Rng)
		line := afStepLine(sc.Zeit, &sc.Entry, &sc.State, &sc.Day, names)
		ans, o, st := afStepImpl(sc.Zeit, &sc.Entry, &sc.State, &sc.Day, names)
		cases = append(cases, line)
		impl = append(impl, ans)
		payload[len(cases)-1] = sc
		if o.Panic != "" {
			c.Violate("search", "autofert-kernel:panic", fmt.Sprintf("Nitro panicked: %s", o.Panic), sc)
			continue
		}
		afJudgeCall(c, "autofert-kernel", sc.Zeit, &sc.Entry, &sc.State, &sc.Day, &o, &st, sc)
		if o.OrgAny || o.M[0] || o.M[1] || o.M[2] {
			c.Nontrivial(fmt.Sprintf("step:%s:%d%d%d", o.flags(), b01(sc.State.Ndoy[0] < 10), b01(sc.State.Ndoy[1] < 10), b01(sc.State.Ndoy[2] < 10)))
		}
	}
	c.Correspond("autofert.step", cases, impl, 1e-9, 1e-12, func(i int) interface{} { return payload[i] })

	// ---- sequences
	nSeq := c.N(260, 5000)
	cases, impl = nil, nil
	payload = map[int]interface{}{}
	for k := 0; k < nSeq; k++ {
		sc := afGenSeqCase(c.Rng, c.Thorough() && k%4 == 0)
		cases = append(cases, sc.line(names))
		impl = append(impl, afSeqImpl(c, &sc, names, sc))
		payload[len(cases)-1] = sc
	}
	c.Correspond("autofert.run", cases, impl, 1e-9, 1e-12, func(i int) interface{} { return payload[i] })
}

// ---------------------------------------------------------------- whole simulations

// afProbeDay: what the probes see of one day (DayStart: before the sub-step loop; AfterNitro of sub-step 1).
type afProbeDay struct {
	Zeit, Akf         int
	Entry             afEntry
	State             afState // without the ln.* fields (not visible to the probes)
	Day               afDay   // Intwick / Wurz from AfterNitro
	Saat              int
	Akf1              int
	Ndoy1             [3]int
	Ztdg1             int
	Dsumm1, Nfertsim1 float64
	Intwick0          int
	Skipped           bool // the skipped-crop branch of the harvest step ran (index + 2)
	SkipName          string
}

type afSnapRow struct {
	Ndoy                [3]float64
	OrgTime, Dgart      string
	OrgDoy              int
	Odu                 float64
	Nsas, Nlas, Ndir    float64
	Ndem                [3]float64
	Saat, Ernte, Ernte2 int
}

func afRowOf(g *hermes.GlobalVarsMain, i int) afRow {
	return afRow{Odu: g.ODU[i] == 1, OrgTime: g.ORGTIME[i], OrgDoy: g.ORGDOY[i], Nsas: g.NSAS[i], Nlas: g.NLAS[i], Ndir: g.NDIR[i],
		Dgart: g.DGART[i], Ndem: [3]float64{g.NDEM1[i], g.NDEM2[i], g.NDEM3[i]}}
}

func afParseMFile(s string) map[string][]afEvent {
	out := map[string][]afEvent{}
	for _, ln := range strings.Split(s, "\n") {
		f := strings.Fields(ln)
		if len(f) < 2 || f[1] != "fertilization" {
			continue
		}
		var e afEvent
		for i := 2; i < len(f); i++ {
			switch f[i] {
			case "Fertilizer:":
				if i+1 < len(f) && !strings.HasSuffix(f[i+1], ":") {
					e.Name = f[i+1]
					i++
				}
			case "Ndirect:":
				if i+1 < len(f) {
					e.Amount, _ = strconv.ParseFloat(f[i+1], 64)
					i++
				}
			case "NH4:":
				i++
			}
		}
		out[f[0]] = append(out[f[0]], e)
	}
	return out
}

func c16AutoFertRuns(c *vh.Ctx) {
	root := filepath.Join(c.Scratch, "afruns")
	os.MkdirAll(root, 0o755)
	table, err := loadFertTable(c.Repo)
	if err != nil {
		c.Violate("search", "harness:fertiliser-table", err.Error(), nil)
		return
	}
	fert := map[string]fertRow{}
	for _, t := range table {
		fert[t.Code] = t
	}
	nRuns := c.N(40, 700)
	var cases, impl []string
	payload := map[int]interface{}{}
	var rowCases, rowImpl []string
	rowPayload := map[int]interface{}{}
	for k := 0; k < nRuns; k++ {
		afRun(c, c.Rng.Fork(), k, root, fert, &cases, &impl, payload, &rowCases, &rowImpl, rowPayload)
	}
	c.Correspond("autofert.step", cases, impl, 1e-9, 1e-12, func(i int) interface{} { return payload[i] })
	c.Correspond("autofert.row", rowCases, rowImpl, 1e-9, 1e-12, func(i int) interface{} { return rowPayload[i] })
}

func afRun(c *vh.Ctx, r *vh.Rng, k int, root string, fert map[string]fertRow, cases, impl *[]string, payload map[int]interface{},
	rowCases, rowImpl *[]string, rowPayload map[int]interface{}) {
	name := fmt.Sprintf("af%d", k)
	p := proj.Gen(r, name, proj.Opt{Years: r.Range(2, 3), MaxLayers: 10})
	cs := c16Prepare(r, p, 8|r.Intn(8), k%4)
	// more organic fertiliser than the rotation stage draws, all time codes next to each other
	for i := range p.Rot {
		p.Rot[i].AutOrg = b01(r.Chance(0.55))
	}
	for i := range cs.Entries {
		a := &cs.Entries[i]
		if r.Chance(0.25) {
			a.OrgDoy = 0
		}
		if r.Chance(0.3) {
			a.NStage1 = []string{"S0", "S1", "S2", "059", "080", "0"}[r.Intn(6)]
		}
		if r.Chance(0.3) {
			a.NStage2 = []string{"S2", "S3", "090", "120", "300"}[r.Intn(5)]
		}
		if r.Chance(0.2) {
			a.NStage3 = []string{"S3", "S4", "S5", "150", "310"}[r.Intn(5)]
		}
		cs.Table[a.Crop] = *a
	}
	replay := map[string]interface{}{"project": p, "automan": cs.Entries, "switches": cs.Sw, "date_format": cs.Format,
		"how": "proj.Project JSON + automan entries: Project.Write, WriteManagementConf, WriteAutoman, proj.Run (harness/cmd/check/c16_autofert.go afRun)"}
	if err := p.Write(root, c.Repo); err != nil {
		c.Violate("search", "harness:write", err.Error(), replay)
		return
	}
	p.WriteManagementConf(root)
	if err := p.WriteAutoman(root, cs.Entries); err != nil {
		c.Violate("search", "harness:write", err.Error(), replay)
		return
	}
	nRot := len(p.Rot)
	var snap []afSnapRow
	var days []afProbeDay
	var cur *afProbeDay
	probes := &hermes.VerifProbes{
		DayStart: func(g *hermes.GlobalVarsMain, w *hermes.WaterSharedVars, n *hermes.NitroSharedVars, cv *hermes.CropSharedVars, zeit int, wdt float64) {
			if snap == nil {
				for i := 0; i < nRot; i++ {
					snap = append(snap, afSnapRow{Ndoy: [3]float64{g.NDOY1[i], g.NDOY2[i], g.NDOY3[i]}, OrgTime: g.ORGTIME[i], Dgart: g.DGART[i], OrgDoy: g.ORGDOY[i],
						Odu: g.ODU[i], Nsas: g.NSAS[i], Nlas: g.NLAS[i], Ndir: g.NDIR[i], Ndem: [3]float64{g.NDEM1[i], g.NDEM2[i], g.NDEM3[i]},
						Saat: g.SAAT[i], Ernte: g.ERNTE[i], Ernte2: g.ERNTE2[i]})
				}
			}
			a := g.AKF.Index
			d := afProbeDay{Zeit: zeit, Akf: a, Saat: g.SAAT[a], Intwick0: int(g.INTWICK.Num)}
			d.Entry = afEntry{Akf: a, Cur: afRowOf(g, a)}
			if a >= 1 {
				d.Entry.Prev = afRowOf(g, a-1)
				d.Entry.ZtdgPrev = g.ZTDG[a-1]
			}
			d.State = afState{Ndoy: [3]int{int(g.NDOY1[a]), int(g.NDOY2[a]), int(g.NDOY3[a])}, Ztdg: g.ZTDG[a], Nfos0: g.NFOS[0], Naos0: g.NAOS[0], C10: g.C1[0],
				Dsumm: g.DSUMM, Nfertsim: g.NFERTSIM}
			t := g.TAG.Index
			d.Day = afDay{Tag: t + 1, Saat: g.SAAT[a], C1rest: append([]float64(nil), g.C1[1:9]...), Rain0: g.REGEN[t], RainNext: g.REGEN[t+1]}
			for j := 0; j < 5; j++ {
				if t-j >= 0 {
					d.Day.T[j] = g.TEMP[t-j]
				}
			}
			if t >= 1 {
				d.Day.Rain1 = g.REGEN[t-1]
			}
			days = append(days, d)
			cur = &days[len(days)-1]
		},
		AfterNitro: func(g *hermes.GlobalVarsMain, w *hermes.WaterSharedVars, n *hermes.NitroSharedVars, zeit, subd int, wdt, steps float64) {
			if subd != 1 || cur == nil {
				return
			}
			a := cur.Akf
			cur.Akf1 = g.AKF.Index
			cur.Day.Intwick, cur.Day.Wurz = int(g.INTWICK.Num), g.WURZ
			cur.Ndoy1 = [3]int{int(g.NDOY1[a]), int(g.NDOY2[a]), int(g.NDOY3[a])}
			cur.Ztdg1 = g.ZTDG[a]
			cur.Dsumm1, cur.Nfertsim1 = g.DSUMM, g.NFERTSIM
			if cur.Akf1 == a+2 {
				cur.Skipped, cur.SkipName = true, g.DGART[a]
			}
		},
	}
	res := proj.Run(root, p, probes)
	os.RemoveAll(filepath.Join(root, "project", p.Name))
	os.RemoveAll(filepath.Join(root, "weather"))
	ex := c16Expect(p, cs)
	premiseAll := true
	for i := 1; i < nRot; i++ {
		premiseAll = premiseAll && ex.Premise[i]
	}
	if (res.Panic != "" || res.Err != nil) && !premiseAll {
		c.Count("autofert-run:failed-outside-premise")
		return
	}
	if res.Panic != "" || res.Err != nil || snap == nil || len(days) == 0 {
		c.Violate("search", "autofert-run:failed:"+cs.Sw, fmt.Sprintf("generated run did not complete: err=%v panic=%q", res.Err, res.Panic), replay)
		return
	}
	c.Count("autofert-run:switches:" + cs.Sw)
	names := afNames{}

	// ---------------------------------------------------------------- the reader
	for i := 0; i < nRot; i++ {
		c.Eval()
		a, ok := cs.Table[p.Rot[i].Crop]
		if !ok {
			continue
		}
		line := a.Line(p.DateFmt >= 2)
		f1, f2, f3 := line[112:115], line[119:122], line[127:130]
		if i == 0 {
			f1, f2, f3 = "0  ", "0  ", "0  " // the pre-crop's stage columns are not read (input.go:546-574)
		}
		odu := p.Rot[i].AutOrg == 1
		t, has := fert[strings.TrimSpace(line[143:146])]
		dgmg, _ := strconv.ParseFloat(strings.TrimSpace(line[149:152]), 64)
		chars := func(s string) string { return fmt.Sprintf("%d %d %d", s[0], s[1], s[2]) }
		oc := line[156]
		sr := snap[i]
		var resid [3]float64 // entry 0: the cells hold what residi wrote (harvest residues of the pre-crop), not the table split
		if i == 0 {
			resid = [3]float64{sr.Nsas, sr.Nlas, sr.Ndir}
		}
		cl := fmt.Sprintf("autofert.row %d %d %s %s %s %d %d %s", b01(i == 0), b01(odu), chars(f1), chars(f2), chars(f3), oc, b01(has),
			vh.FVals(dgmg, t.Ntot, t.Ndir, t.Nfst, t.Nslo, t.NH4, t.Loss, resid[0], resid[1], resid[2]))
		il := fmt.Sprintf("%d %d %d %d %s", int(sr.Ndoy[0]), int(sr.Ndoy[1]), int(sr.Ndoy[2]), afOrgCode(sr.OrgTime), vh.FVals(sr.Nsas, sr.Nlas, sr.Ndir))
		*rowCases = append(*rowCases, cl)
		*rowImpl = append(*rowImpl, il)
		rowPayload[len(*rowCases)-1] = map[string]interface{}{"run": name, "entry": i, "crop": p.Rot[i].Crop, "row": line, "replay": replay}
		if odu && has {
			ndir, _, nsas, nlas := t.split(dgmg, 1)
			want := ndir + nsas + nlas
			got := sr.Ndir + sr.Nsas + sr.Nlas
			cls := "entry"
			if i == 0 {
				cls = "pre-crop"
			}
			c.Count("autofert-run:reader:organic:" + cls)
			if want > 0 && !nearSch(got, want, 1) {
				c.Violate("search", "autofert-run:reader:organic-amounts:"+cls, fmt.Sprintf("rotation entry %d (%s) with automatic organic fertiliser %s, %g units, time code %q: after Input NDIR + NSAS + NLAS = %g kg N/ha, the fertiliser table gives %g", i, p.Rot[i].Crop, sr.Dgart, dgmg, sr.OrgTime, got, want), replay)
			}
		}
	}

	// ---------------------------------------------------------------- the days
	zOf := map[string]int{}
	for _, d := range days {
		zOf[dotted(d.Zeit, cs.Format)] = d.Zeit
	}
	evOf := map[int][]afEvent{}
	for date, evs := range afParseMFile(res.Out.File("M")) {
		z, ok := zOf[date]
		if !ok {
			c.Violate("search", "autofert-run:event-date-outside-run", fmt.Sprintf("fertilisation event dated %s", date), replay)
			continue
		}
		evOf[z] = evs
	}
	dungart, domeng1 := "", 0.0
	type entryStat struct {
		fired   [3]int
		perYear map[[2]int]int
		init    [3]int
		seen    bool
		sApps   int
		hApps   int
		sowDay  int
		lastDay int
		hole    bool
	}
	stats := make([]entryStat, nRot+3)
	prevIntwick := 0
	for di := range days {
		d := &days[di]
		harvestDay := d.Akf1 != d.Akf
		if harvestDay {
			// the stage after PhytoOut is not visible on the day of the harvest (reset by the harvest step)
			d.Day.Intwick, d.Day.Wurz = prevIntwick, 0
			if di > 0 {
				d.Day.Wurz = days[di-1].Day.Wurz
			}
		}
		prevIntwick = d.Day.Intwick
		d.State.Dungart, d.State.Domeng1 = dungart, domeng1
		insitu := evOf[d.Zeit]
		sown := d.Saat > 0 && d.Zeit >= d.Saat
		interesting := len(insitu) > 0 || sown || (d.Entry.Prev.Odu && d.Entry.Prev.OrgTime == "H") || r.Chance(0.05)
		var o afDayOut
		var st afState
		if interesting {
			var ans string
			ans, o, st = afStepImpl(d.Zeit, &d.Entry, &d.State, &d.Day, names)
			if o.Panic != "" {
				c.Violate("search", "autofert-run:replay-panic", fmt.Sprintf("day %d: the isolated Nitro panicked on the probed state: %s", d.Zeit, o.Panic), replay)
				continue
			}
			pl := map[string]interface{}{"run": name, "day": d.Zeit, "entry": d.Entry, "state": d.State, "day_inputs": d.Day, "replay": replay}
			*cases = append(*cases, afStepLine(d.Zeit, &d.Entry, &d.State, &d.Day, names))
			*impl = append(*impl, ans)
			payload[len(*cases)-1] = pl
			// the isolated call against what the run itself did on that day
			same := len(insitu) == len(o.Events)
			for j := 0; same && j < len(insitu); j++ {
				same = insitu[j] == o.Events[j]
			}
			if !harvestDay {
				same = same && st.Ndoy == d.Ndoy1 && st.Ztdg == d.Ztdg1 && st.Dsumm == d.Dsumm1 && st.Nfertsim == d.Nfertsim1
			}
			if !same {
				if harvestDay {
					c.Count("autofert-run:harvest-day-not-replayed (stage of the day not visible)")
				} else {
					c.Violate("correspondence", "autofert-run:isolated-vs-in-situ", fmt.Sprintf("day %d: the run wrote events %v, NDOY %v ZTDG %d DSUMM %g NFERTSIM %g; the isolated Nitro on the probed state %v, NDOY %v ZTDG %d DSUMM %g NFERTSIM %g", d.Zeit, insitu, d.Ndoy1, d.Ztdg1, d.Dsumm1, d.Nfertsim1, o.Events, st.Ndoy, st.Ztdg, st.Dsumm, st.Nfertsim), pl)
				}
			} else {
				afJudgeCall(c, "autofert-run", d.Zeit, &d.Entry, &d.State, &d.Day, &o, &st, pl)
			}
			dungart, domeng1 = st.Dungart, st.Domeng1
		} else if len(insitu) > 0 {
			c.Violate("search", "autofert-run:applied-before-sowing", fmt.Sprintf("day %d: fertilisation events %v while nothing is sown", d.Zeit, insitu), replay)
		}
		if len(insitu) > 0 {
			dungart = insitu[len(insitu)-1].Name
		}
		if harvestDay {
			// nitro.go:336-339, 441: an entry without organic application gets the name "---"; the amount is reset
			if domeng1 == 0 {
				dungart = "---"
			}
			domeng1 = 0
			if d.Skipped && d.Entry.Cur.Odu && d.Entry.Cur.OrgTime == "H" {
				dungart = d.SkipName // nitro.go:471-474
			}
		}
		// ---- amounts of the events themselves (C16: never negative)
		for _, e := range insitu {
			c.Eval()
			if e.Amount < 0 {
				c.Violate("search", "autofert-run:dose-negative", fmt.Sprintf("day %d: automatic N application of %g kg N/ha", d.Zeit, e.Amount), replay)
			}
		}
		if !sown && len(insitu) > 1 {
			c.Violate("search", "autofert-run:applied-before-sowing", fmt.Sprintf("day %d: %d fertilisation events with SAAT = %d", d.Zeit, len(insitu), d.Saat), replay)
		}
		// ---- per rotation entry
		if d.Akf < len(stats) && interesting && !harvestDay {
			s := &stats[d.Akf]
			if !s.seen {
				s.seen, s.init, s.perYear = true, d.State.Ndoy, map[[2]int]int{}
			}
			nDose := b01(o.M[0]) + b01(o.M[1]) + b01(o.M[2])
			h := len(o.Events)-nDose == 1
			if h {
				s.hApps++
			}
			if o.OrgAny && !h {
				s.sApps++
			}
			year := proj.FromZ(d.Zeit).Y
			for k := 0; k < 3; k++ {
				if o.M[k] {
					s.fired[k]++
					s.perYear[[2]int{k, year}]++
				}
			}
			if sown {
				if s.sowDay == 0 {
					s.sowDay = d.Zeit
				}
				s.lastDay = d.Zeit
				if d.Day.Intwick == 0 {
					s.hole = true
					// seen for the reader's placeholder entry behind the last rotation entry only: force-sown at the end of
					// its window, no latest harvest date, PhytoOut never called; its NDOYk and NDEMk are 0, so every dose
					// "fires" with 0 kg N/ha on every day (one empty event each)
					if d.Akf >= nRot {
						c.Count("autofert-run:excluded:stage-zero-while-sown:placeholder-entry-behind-the-rotation")
					} else if !ex.Premise[d.Akf] {
						c.Count("autofert-run:excluded:stage-zero-while-sown:rotation-entry-outside-the-premise")
					} else {
						// the hypothesis HasStage of C16_autofert_stage_dose_at_most_once_partial, confirmed on every run
						c.Violate("search", "autofert-run:sown-rotation-entry-without-stage", fmt.Sprintf("day %d: rotation entry %d (%s) is sown (SAAT %d) and in development stage 0 when Nitro runs", d.Zeit, d.Akf, cropOf(p, d.Akf), d.Saat), replay)
					}
				}
				if d.Saat != s.sowDay && s.sowDay == d.Zeit {
					// first sown day seen later than the sowing day (sown before the first probe day): fine
					s.sowDay = d.Saat
				}
				if d.Saat != s.sowDay {
					c.Violate("search", "autofert-run:excluded:sowing-day-moved", fmt.Sprintf("day %d: SAAT of the current entry %d changed from %d to %d after sowing", d.Zeit, d.Akf, s.sowDay, d.Saat), replay)
				}
			}
		}
	}
	for i := 1; i < nRot && i < len(stats); i++ {
		s := &stats[i]
		if !s.seen {
			continue
		}
		c.Eval()
		for k := 0; k < 3; k++ {
			kind := "stage"
			if s.init[k] >= 10 {
				kind = "day-of-year"
			} else if s.init[k] == 0 {
				kind = "sowing-day"
			}
			if s.fired[k] > 0 {
				c.Nontrivial(fmt.Sprintf("%s/%d/dose%d", name, i, k+1))
				c.Count(fmt.Sprintf("autofert-run:entries-with-dose%d:%s", k+1, kind))
			}
			if k == 0 || s.init[k] < 10 {
				if s.fired[k] > 1 {
					c.Violate("search", fmt.Sprintf("autofert-run:dose-repeated:dose%d:%s", k+1, kind), fmt.Sprintf("rotation entry %d (%s): dose %d (NDOY%d = %d) applied %d times", i, p.Rot[i].Crop, k+1, k+1, s.init[k], s.fired[k]), replay)
				}
			} else {
				for key, n := range s.perYear {
					if key[0] == k && n > 1 {
						c.Violate("search", fmt.Sprintf("autofert-run:dose-repeated-in-year:dose%d:day-of-year", k+1), fmt.Sprintf("rotation entry %d (%s): dose %d (day of the year %d) applied %d times in %d", i, p.Rot[i].Crop, k+1, s.init[k], n, key[1]), replay)
					}
				}
			}
		}
		if s.sApps > 1 {
			c.Violate("search", "autofert-run:organic-S:repeated", fmt.Sprintf("rotation entry %d (%s): organic fertiliser at sowing applied %d times", i, p.Rot[i].Crop, s.sApps), replay)
		}
		// ---- the organic fertiliser of the entry: carried out exactly once (C10's statement under automatic management)
		sr := snap[i]
		if sr.Odu == 1 && s.sowDay > 0 {
			own := sr.OrgTime
			pred := snap[i-1].OrgTime
			standing := s.lastDay - s.sowDay
			c.Count(fmt.Sprintf("autofert-run:organic:entry-code-%s:predecessor-code-%s", own, pred))
			if own == "S" && s.sApps == 0 && standing > sr.OrgDoy+1 {
				c.Violate("search", "autofert-run:organic-S:lost:predecessor-code-"+afCodeClass(pred), fmt.Sprintf("rotation entry %d (%s) has organic fertiliser %s at sowing + %d days (time code S), sown on day %d and standing for %d days: never applied (the time code of the previous entry is %q)", i, p.Rot[i].Crop, sr.Dgart, sr.OrgDoy, s.sowDay, standing, pred), replay)
			}
			if own == "H" && s.sApps > 0 {
				c.Violate("search", "autofert-run:organic-H:also-applied-at-sowing:predecessor-code-S", fmt.Sprintf("rotation entry %d (%s) has organic fertiliser %s after harvest (time code H): applied %d days after sowing as well (the time code of the previous entry is %q)", i, p.Rot[i].Crop, sr.Dgart, sr.OrgDoy, pred), replay)
			}
		}
	}
	if k < 2 {
		c.Sample(map[string]interface{}{"run": name, "switches": cs.Sw, "rotation": p.Rot, "fertilisation_events": len(evOf)})
	}
}

func abs64(x float64) float64 {
	if x < 0 {
		return -x
	}
	return x
}

func afCodeClass(s string) string {
	switch s {
	case "H", "S", "0":
		return s
	case "":
		return "none"
	}
	return "other"
}

// afWitnesses replays the counter-witnesses of the `…_fails_at` / necessity theorems of HermesProps/C16Auto.lean on
// the real Nitro (same numbers as in the theorems). A witness the code no longer reproduces is noted as stale.
func afWitnesses(c *vh.Ctx) {
	type wit struct {
		name  string
		entry afEntry
		state afState
		zeit0 int
		days  []afDay
		want  func(fired [5]int, orgOnDay []bool) bool
		// regression: the property must hold on this input (a former counter-witness); otherwise: a witness of a
		// `_fails_at` theorem, expected to be reproduced
		regression bool
	}
	row0 := afRow{OrgTime: "0"}
	day := func(saat, intwick, tag int) afDay {
		return afDay{Tag: tag, Intwick: intwick, Wurz: 1, Saat: saat, C1rest: make([]float64, 8)}
	}
	r50 := row0
	r50.Ndem[0] = 50
	wits := []wit{
		{name: "C16_autofert_stage_dose_at_most_once_fails_at", entry: afEntry{Akf: 1, Cur: row0, Prev: row0}, zeit0: 100,
			days: []afDay{day(100, 0, 120), day(100, 0, 120), day(100, 0, 120)},
			want: func(f [5]int, _ []bool) bool { return f[3] == 3 }},
		{name: "C16_autofert_dose1_refires_if_sowing_day_moves", entry: afEntry{Akf: 1, Cur: r50, Prev: r50}, state: afState{Ndoy: [3]int{2, 0, 0}}, zeit0: 100,
			days: []afDay{day(90, 2, 120), day(101, 2, 120)},
			want: func(f [5]int, _ []bool) bool { return f[2] == 2 }},
		// inputs that were counter-witnesses before the fix of nitro.go:92, now regression cases (the `example`s behind
		// C16_autofert_orgS_exactly_once in HermesProps/C16Auto.lean)
		{name: "regression:organic-S:lost:predecessor-code-0", regression: true, entry: afEntry{Akf: 1, Cur: afRow{Odu: true, OrgTime: "S", OrgDoy: 5, Nsas: 20, Nlas: 30, Ndir: 10, Dgart: "RM", Ndem: [3]float64{100, 0, 0}}, Prev: row0},
			state: afState{Ndoy: [3]int{400, 400, 400}}, zeit0: 200,
			days: []afDay{day(200, 1, 120), day(200, 1, 121), day(200, 1, 122), day(200, 1, 123), day(200, 1, 124), day(200, 1, 125), day(200, 1, 126)},
			want: func(f [5]int, _ []bool) bool { return f[1] == 1 }},
		{name: "regression:organic-H:also-applied-at-sowing:predecessor-code-S", regression: true, entry: afEntry{Akf: 2, Cur: afRow{Odu: true, OrgTime: "H", Nsas: 20, Nlas: 30, Ndir: 10, Dgart: "RM", Ndem: [3]float64{100, 0, 0}}, Prev: afRow{Odu: true, OrgTime: "S", Dgart: "SG"}},
			state: afState{Ndoy: [3]int{400, 400, 400}}, zeit0: 200,
			days: []afDay{day(200, 1, 120)},
			want: func(f [5]int, org []bool) bool { return f[1] == 0 && !org[0] }},
	}
	for _, w := range wits {
		c.Eval()
		a := newAfG(&w.entry, &w.state)
		var fired [5]int
		var org []bool
		ok := true
		for j := range w.days {
			o := a.day(w.zeit0+j, &w.days[j])
			if o.Panic != "" {
				ok = false
				break
			}
			nDose := b01(o.M[0]) + b01(o.M[1]) + b01(o.M[2])
			h := len(o.Events)-nDose == 1
			if h {
				fired[0]++
			}
			if o.OrgAny && !h {
				fired[1]++
			}
			for k := 0; k < 3; k++ {
				if o.M[k] {
					fired[2+k]++
				}
			}
			org = append(org, o.OrgAny)
		}
		if w.regression {
			if ok && w.want(fired, org) {
				c.Count("autofert-witness:" + w.name + ":holds")
			} else {
				c.Violate("search", "autofert-kernel:"+strings.TrimPrefix(w.name, "regression:"), fmt.Sprintf("former counter-witness of the organic fertiliser at sowing (entry code %q, previous entry %q, ORGDOY %d, %d days from the sowing day): applications at sowing %d, organic application on the days %v", w.entry.Cur.OrgTime, w.entry.Prev.OrgTime, w.entry.Cur.OrgDoy, len(w.days), fired[1], org), map[string]interface{}{"entry": w.entry, "state": w.state, "first_day": w.zeit0, "days": w.days})
			}
			continue
		}
		if ok && w.want(fired, org) {
			c.Count("autofert-witness:reproduced-on-the-real-code:" + w.name)
		} else {
			c.Count("autofert-witness:stale:" + w.name)
			c.Note("the witness of %s is no longer reproduced by the real Nitro (fired %v): the code changed, the theorem describes the model of the old code", w.name, fired)
		}
	}
}

// c16AutoFertStage is called from checkC16.
func c16AutoFertStage(c *vh.Ctx) {
	c.Res.Rule += "; automatic fertilisation: generated single calls and day sequences of the real Nitro (AUTOFERT, isolated) against AutoFert.step / AutoFert.run, whole simulations with AutoFertilization=1 (reader rows, every day with a sown crop replayed through the isolated Nitro and compared with the run's own events and sums), predicates of HermesProps/C16Auto.lean on the real answers"
	c16AutoFertKernels(c)
	afWitnesses(c)
	c16AutoFertRuns(c)
}
