package main

// C07, fertiliser bookkeeping over a run: DSUMM / NH4Sum (applied) and UMS / NH4UMS (dissolved,
// nitrified) against the Lean model HermesModel/FertPool.lean (driver op `fertpool.seq`), whose
// invariant UMS ≤ DSUMM ∧ NH4UMS ≤ NH4Sum is `C07_dissolved_le_applied_invariant`.
//
//   fertPoolKernelStage  sequences of days on the real hermes.Nitro (fertiliser branch + mineral in the
//                        first sub-step, later sub-steps of the same day must not touch the pools),
//                        frozen and warm top layers, dry … saturated; the region the theorem excludes
//                        (WRED ≤ WMIN in a frozen, dry top layer) is run on the real code too and what
//                        it does there is counted, not reported.
//   fertPoolRunStage     the same model fed with the real states of whole simulations (probes):
//                        measurement day → application → mineral, every simulated day in windows.
//
// Signatures:
//   fertpool:dissolved-exceeds-applied:<class> / fertpool:nitrified-exceeds-applied:<class>
//   fertpool:counter-decreases / fertpool:panic / run:fertpool:dissolved-exceeds-applied / run:fertpool:nitrified-exceeds-applied
//   (correspondence stage) fertpool.seq[@run]:changed-in-later-substep, fertpool.seq@run:changed-between-days

import (
	"fmt"
	"math"
	"strings"

	"github.com/zalf-rpm/Hermes2Go/hermes"
	"verifharness/proj"
	"verifharness/vh"
)

type fpEvent struct {
	Kind   int        `json:"kind"` // 0 application, 1 mineral, 2 measurement day
	Ndir   float64    `json:"ndir,omitempty"`
	Nh4n   float64    `json:"nh4n,omitempty"`
	Wred   float64    `json:"wred,omitempty"`
	Td     []float64  `json:"td,omitempty"`
	L      []minLayer `json:"layers,omitempty"`
	Later  int        `json:"later_substeps,omitempty"` // further Nitro calls of the same day (sub-steps 2 …)
	Frozen bool       `json:"frozen_top,omitempty"`
	OrdOk  bool       `json:"frozen_ord,omitempty"` // hypothesis FrozenOrd of the theorem holds for the top layer
}

type fpPool struct{ Dsumm, Nh4sum, Ums, Nh4ums, N2onitsum, Minsum float64 }

type fpCase struct {
	Init  fpPool    `json:"initial"`
	Evs   []fpEvent `json:"events"`
	Class string    `json:"class"`
}

func (e *fpEvent) tokens(sb *strings.Builder) {
	switch e.Kind {
	case 0:
		fmt.Fprintf(sb, " 0 %s", vh.FVals(e.Ndir, e.Nh4n))
	case 1:
		fmt.Fprintf(sb, " 1 %s %d", vh.FVals(e.Wred), len(e.L))
		for _, x := range e.L {
			sb.WriteByte(' ')
			sb.WriteString(vh.FVals(x.TdUp, x.TdLo, x.Kt0, x.Kt1, x.Wg, x.Wnor, x.Wmin, x.Porges, x.W, x.Naos, x.Nfos, x.Minaos, x.Minfos))
		}
	case 2:
		sb.WriteString(" 2")
	}
}

func (c *fpCase) line() string {
	var sb strings.Builder
	fmt.Fprintf(&sb, "fertpool.seq %s %d", vh.FVals(c.Init.Dsumm, c.Init.Nh4sum, c.Init.Ums, c.Init.Nh4ums, c.Init.N2onitsum, c.Init.Minsum), len(c.Evs))
	for i := range c.Evs {
		c.Evs[i].tokens(&sb)
	}
	return sb.String()
}

// frozenOrd: the hypothesis of C07_dissolved_le_applied for the top layer.
func frozenOrd(wred float64, l minLayer) bool {
	if (l.TdLo+l.TdUp)/2 > 0 {
		return true
	}
	if !(l.Wg < wred) {
		return true
	}
	return l.Wmin < wred
}

// genFpLayers draws the mineralisation layers of one day. excluded = steer into the region the theorem
// excludes (frozen, dry top layer, WRED at or below the wilting point).
func genFpLayers(r *vh.Rng, num int, excluded bool) (wred float64, td []float64, ls []minLayer) {
	frozen := r.Chance(0.45) || excluded
	temp := r.Uni(-2, 30)
	if frozen {
		temp = r.Uni(-14, -0.2)
	}
	if r.Chance(0.08) {
		temp = 0
	}
	td = append(td, vh.RoundTo(temp, 2))
	for z := 0; z < num; z++ {
		t := td[z] + r.Uni(-2, 2)
		if z == 0 && r.Chance(0.1) {
			t = -td[0] // mean exactly 0: frozen branch
		}
		td = append(td, vh.RoundTo(t, 2))
		var l minLayer
		l.TdUp, l.TdLo = td[z], td[z+1]
		l.Wmin = vh.RoundTo(r.Uni(0.03, 0.25), 3)
		l.W = vh.RoundTo(l.Wmin+r.Uni(0.05, 0.25), 3)
		l.Wnor = l.W
		if r.Chance(0.3) {
			l.Wnor = vh.RoundTo(l.W-r.Uni(0, 0.04), 3)
		}
		l.Porges = vh.RoundTo(l.W+r.Uni(0.02, 0.15), 3)
		switch r.Intn(8) {
		case 0:
			l.Wg = l.Wnor
		case 1:
			l.Wg = vh.RoundTo(r.Uni(0, l.Wmin), 4) // drier than the wilting point, down to 0
		case 2:
			l.Wg = vh.RoundTo(r.Uni(l.Wnor, l.Porges), 4)
		case 3:
			l.Wg = l.Porges
		case 4:
			l.Wg = vh.RoundTo(l.Porges+r.Uni(0, 0.02), 4) // above the pore volume
		case 5:
			l.Wg = vh.RoundTo(l.W+0.01, 4) // the 0.01 offset of the frozen branch
		default:
			l.Wg = vh.RoundTo(r.Uni(l.Wmin, l.W), 4)
		}
		l.Naos = vh.RoundTo(r.Uni(0, 1500), 2)
		l.Nfos = vh.RoundTo(r.Uni(0, 120), 3)
		l.Minaos = vh.RoundTo(r.Uni(0, 80), 3)
		l.Minfos = vh.RoundTo(r.Uni(0, 80), 3)
		ls = append(ls, l)
	}
	top := &ls[0]
	// WRED as calcWRed computes it: 60 / 66 % of the way from the wilting point to field capacity
	f := 0.6
	if r.Chance(0.5) {
		f = 0.66
	}
	wred = top.Wmin + f*(top.W-top.Wmin)
	switch {
	case excluded:
		wred = vh.RoundTo(top.Wmin*r.Uni(0.62, 1.0), 4) // at or below the wilting point
		top.Wg = vh.RoundTo(r.Uni(0, math.Max(0, 2.5*wred-1.5*top.Wmin)), 4)
		if r.Chance(0.2) {
			wred = top.Wmin // denominator 0
		}
	case r.Chance(0.12):
		top.Wg = wred // exactly at the threshold
	case r.Chance(0.12):
		top.Wg = vh.RoundTo(r.Uni(0, wred), 4) // the WG < WRED formula, also below the wilting point
	}
	return wred, td, ls
}

func genFpCase(r *vh.Rng) fpCase {
	var c fpCase
	c.Class = "ordered"
	if !r.Chance(0.25) {
		c.Init.Dsumm = vh.RoundTo(r.Uni(0, 300), 2)
		c.Init.Ums = vh.RoundTo(c.Init.Dsumm*r.F(), 3)
		if r.Chance(0.2) {
			c.Init.Ums = c.Init.Dsumm
		}
		c.Init.Nh4sum = vh.RoundTo(r.Uni(0, 150), 2)
		c.Init.Nh4ums = vh.RoundTo(c.Init.Nh4sum*r.F(), 3)
		c.Init.N2onitsum = vh.RoundTo(r.Uni(0, 3), 4)
		c.Init.Minsum = vh.RoundTo(r.Uni(0, 150), 3)
	}
	excludedCase := r.Chance(0.12)
	if excludedCase {
		c.Class = "excluded(WRED<=WMIN,frozen,dry)"
	}
	num := r.Range(1, 4)
	days := r.Range(1, 7)
	for d := 0; d < days; d++ {
		if r.Chance(0.45) {
			e := fpEvent{Kind: 0, Ndir: vh.RoundTo(r.Uni(0, 160), 1), Nh4n: 0}
			switch r.Intn(4) {
			case 0:
				e.Nh4n = e.Ndir // all ammonium
			case 1:
				e.Nh4n = vh.RoundTo(e.Ndir*r.F(), 1)
			case 2:
				e.Ndir = 0 // organic dressing without a mineral part
			}
			c.Evs = append(c.Evs, e)
		}
		wred, td, ls := genFpLayers(r, num, excludedCase && r.Chance(0.7))
		e := fpEvent{Kind: 1, Wred: wred, Td: td, L: ls, Later: r.Intn(3)}
		e.Frozen = (ls[0].TdLo+ls[0].TdUp)/2 <= 0
		e.OrdOk = frozenOrd(wred, ls[0])
		c.Evs = append(c.Evs, e)
	}
	return c
}

type fpOut struct {
	Pools []fpPool // after every mineral event
	Later bool     // a later sub-step of a day changed one of the four variables
	Panic string
}

// runFpImpl drives the real hermes.Nitro day by day: N = 0 (no transport layers), the fertiliser
// branch of the first sub-step on application days, `mineral` on the generated layers.
func runFpImpl(c *fpCase) (o fpOut) {
	defer func() {
		if r := recover(); r != nil {
			o.Panic = fmt.Sprint(r)
		}
	}()
	g := hermes.NewGlobalVarsMain()
	var l hermes.NitroSharedVars
	var ln hermes.NitroBBBSharedVars
	var out hermes.CropOutputVars
	g.Kalender = hermes.KalenderConverter(hermes.DateDElong, ".")
	g.N = 0
	g.FLUSS0 = 0
	g.ERNTE[0] = 5
	g.SAAT[0] = 0
	g.DSUMM, g.NH4Sum, g.UMS, g.NH4UMS, g.N2onitsum, g.MINSUM = c.Init.Dsumm, c.Init.Nh4sum, c.Init.Ums, c.Init.Nh4ums, c.Init.N2onitsum, c.Init.Minsum
	zeit := 1000
	nfert := 0
	for i := 0; i < len(c.Evs); i++ {
		e := &c.Evs[i]
		if e.Kind == 0 {
			// the application is executed by the next Nitro call (first sub-step of the day after the event date)
			g.ZTDG[nfert] = zeit - 1
			g.NDIR[nfert] = e.Ndir
			g.NH4N[nfert] = e.Nh4n
			nfert++
			continue
		}
		g.IZM = len(e.L) * 10
		g.WRED = e.Wred
		for z := 0; z <= len(e.L); z++ {
			g.TD[z] = e.Td[z]
		}
		for z, x := range e.L {
			g.WG[0][z], g.WNOR[z], g.WMIN[z], g.PORGES[z], g.W[z] = x.Wg, x.Wnor, x.Wmin, x.Porges, x.W
			g.NAOS[z], g.NFOS[z], g.MINAOS[z], g.MINFOS[z] = x.Naos, x.Nfos, x.Minaos, x.Minfos
		}
		vh.Crumb("fertpool-kernel", c)
		if _, err := hermes.Nitro(1, 1, zeit, &g, &l, &ln, nil, &out); err != nil {
			o.Panic = "error: " + err.Error()
			return
		}
		p := fpPool{g.DSUMM, g.NH4Sum, g.UMS, g.NH4UMS, g.N2onitsum, g.MINSUM}
		o.Pools = append(o.Pools, p)
		for s := 2; s < 2+e.Later; s++ {
			if _, err := hermes.Nitro(1, s, zeit, &g, &l, &ln, nil, &out); err != nil {
				o.Panic = "error: " + err.Error()
				return
			}
			if g.DSUMM != p.Dsumm || g.NH4Sum != p.Nh4sum || g.UMS != p.Ums || g.NH4UMS != p.Nh4ums {
				o.Later = true
			}
		}
		zeit++
	}
	return o
}

func fpLine(pools []fpPool) string {
	var all []float64
	for _, p := range pools {
		all = append(all, p.Dsumm, p.Nh4sum, p.Ums, p.Nh4ums)
	}
	return vh.FVals(all...)
}

// evalFpPools: the invariant after every observed event. ordOk[i] = every mineral event up to the
// i-th observation satisfied the theorem's hypothesis.
func evalFpPools(c *vh.Ctx, prefix, class string, pools []fpPool, ordOk []bool, frozen []bool, payload interface{}) {
	for i, p := range pools {
		c.Eval()
		br := "warm"
		if frozen[i] {
			br = "frozen"
		}
		if !ordOk[i] {
			// outside the theorem's hypotheses: what the real code does there goes into the evidence
			c.Count(prefix + ":excluded-region:evaluated")
			if p.Ums > p.Dsumm+relTol(p.Dsumm) || p.Nh4ums > p.Nh4sum+relTol(p.Nh4sum) || math.IsNaN(p.Ums) || math.IsInf(p.Ums, 0) {
				c.Count(prefix + ":excluded-region:dissolved-exceeds-applied-or-nonfinite")
			}
			return // the invariant may be lost from here on
		}
		if p.Ums > p.Dsumm+relTol(p.Dsumm) {
			c.Violate("search", prefix+":dissolved-exceeds-applied:"+br, fmt.Sprintf("UMS = %.9g exceeds DSUMM = %.9g after mineral (%s top layer, %s)", p.Ums, p.Dsumm, br, class), payload)
		}
		if p.Nh4ums > p.Nh4sum+relTol(p.Nh4sum) {
			c.Violate("search", prefix+":nitrified-exceeds-applied:"+br, fmt.Sprintf("NH4UMS = %.9g exceeds NH4Sum = %.9g after mineral (%s top layer, %s)", p.Nh4ums, p.Nh4sum, br, class), payload)
		}
		if !allFinite(p.Ums, p.Nh4ums, p.Dsumm, p.Nh4sum) {
			c.Violate("search", prefix+":nonfinite:"+br, "non-finite fertiliser counter", payload)
		}
	}
}

func fertPoolKernelStage(c *vh.Ctx, n int) {
	var cases, impl []string
	var kept []fpCase
	for k := 0; k < n; k++ {
		fc := genFpCase(c.Rng)
		o := runFpImpl(&fc)
		c.Count("fertpool:" + fc.Class)
		if o.Panic != "" {
			c.Violate("search", "fertpool:panic", "Nitro (fertiliser branch + mineral) panicked: "+o.Panic, fc)
			continue
		}
		c.Nontrivial(fmt.Sprintf("fp%d", k))
		if o.Later {
			// not a statement of the property: the model has one application and one mineral call per day
			c.Violate("correspondence", "fertpool.seq:changed-in-later-substep", "a sub-step after the first changes DSUMM / NH4Sum / UMS / NH4UMS (the model executes application and dissolution in the first sub-step only)", fc)
		}
		// observations: one per mineral event; the pool before the first event is the initial one
		var ordOk, frozen []bool
		ok := true
		var lastObs fpPool = fc.Init
		j := 0
		for _, e := range fc.Evs {
			if e.Kind != 1 {
				continue
			}
			ok = ok && e.OrdOk
			ordOk = append(ordOk, ok)
			frozen = append(frozen, e.Frozen)
			if e.Frozen {
				c.Count("fertpool:event:frozen-top")
			} else {
				c.Count("fertpool:event:warm-top")
			}
			// counters never decrease in mineral (applications only raise the sums)
			if ok && j < len(o.Pools) && (o.Pools[j].Ums < lastObs.Ums || o.Pools[j].Nh4ums < lastObs.Nh4ums || o.Pools[j].Dsumm < lastObs.Dsumm || o.Pools[j].Nh4sum < lastObs.Nh4sum) {
				c.Violate("search", "fertpool:counter-decreases", "UMS / NH4UMS / DSUMM / NH4Sum decreases over a day without a measurement", fc)
			}
			if j < len(o.Pools) {
				lastObs = o.Pools[j]
			}
			j++
		}
		evalFpPools(c, "fertpool", fc.Class, o.Pools, ordOk, frozen, fc)
		cases = append(cases, fc.line())
		impl = append(impl, fpLine(o.Pools))
		kept = append(kept, fc)
	}
	saved := kept
	c.Correspond("fertpool.seq", cases, impl, 1e-9, 1e-12, func(i int) interface{} { return saved[i] })
}

// ---------------------------------------------------------------- whole runs

type fpDay struct {
	Zeit     int
	Date     string
	Start    fpPool // at the DayStart probe (after a measurement reset of that day)
	Measure  bool   // MZ advanced since the previous day: run.go:500-501 executed
	Fert     *fpEvent
	Min      *fpEvent
	AfterOne fpPool // after Nitro of sub-step 1
	HaveOne  bool
	LaterChg bool
	End      fpPool
	HaveEnd  bool
}

func snapPool(g *hermes.GlobalVarsMain) fpPool {
	return fpPool{g.DSUMM, g.NH4Sum, g.UMS, g.NH4UMS, g.N2onitsum, g.MINSUM}
}

func samePool(a, b fpPool) bool {
	return a.Dsumm == b.Dsumm && a.Nh4sum == b.Nh4sum && a.Ums == b.Ums && a.Nh4ums == b.Nh4ums
}

func fertPoolObserve(c *vh.Ctx, p *proj.Project) (days []*fpDay, res *proj.RunResult, auto bool) {
	root := c.Scratch + "/fp-" + p.Name
	if err := p.Write(root, c.Repo); err != nil {
		return nil, &proj.RunResult{Err: err}, false
	}
	var cur *fpDay
	lastMZ := -1
	probes := &hermes.VerifProbes{
		DayStart: func(g *hermes.GlobalVarsMain, w *hermes.WaterSharedVars, n *hermes.NitroSharedVars, cs *hermes.CropSharedVars, zeit int, wdt float64) {
			cur = &fpDay{Zeit: zeit, Date: g.AKTUELL, Start: snapPool(g)}
			cur.Measure = lastMZ >= 0 && g.MZ != lastMZ
			lastMZ = g.MZ
			if g.AUTOFERT || g.AUTOMAN {
				auto = true
			}
			days = append(days, cur)
		},
		AfterWater: func(g *hermes.GlobalVarsMain, w *hermes.WaterSharedVars, zeit, subd int, wdt, steps float64) {
			if cur == nil || subd != 1 {
				return
			}
			// the inputs of the Nitro call that follows: application due today, layers of mineral
			if !g.AUTOFERT && zeit == g.ZTDG[g.NDG.Index]+1 {
				cur.Fert = &fpEvent{Kind: 0, Ndir: g.NDIR[g.NDG.Index], Nh4n: g.NH4N[g.NDG.Index]}
			}
			num := g.IZM / g.DZ.Index
			e := &fpEvent{Kind: 1, Wred: g.WRED}
			for z := 0; z <= num; z++ {
				e.Td = append(e.Td, g.TD[z])
			}
			for z := 0; z < num; z++ {
				e.L = append(e.L, minLayer{TdUp: g.TD[z], TdLo: g.TD[z+1], Wg: g.WG[0][z], Wnor: g.WNOR[z], Wmin: g.WMIN[z], Porges: g.PORGES[z], W: g.W[z],
					Naos: g.NAOS[z], Nfos: g.NFOS[z], Minaos: g.MINAOS[z], Minfos: g.MINFOS[z]})
			}
			if num > 0 {
				e.Frozen = (e.L[0].TdLo+e.L[0].TdUp)/2 <= 0
				e.OrdOk = frozenOrd(e.Wred, e.L[0])
			} else {
				e.OrdOk = true
			}
			cur.Min = e
		},
		AfterNitro: func(g *hermes.GlobalVarsMain, w *hermes.WaterSharedVars, n *hermes.NitroSharedVars, zeit, subd int, wdt, steps float64) {
			if cur == nil {
				return
			}
			if subd == 1 {
				cur.AfterOne = snapPool(g)
				cur.HaveOne = true
			} else if cur.HaveOne && !samePool(cur.AfterOne, snapPool(g)) {
				cur.LaterChg = true
			}
		},
		DayEnd: func(g *hermes.GlobalVarsMain, w *hermes.WaterSharedVars, n *hermes.NitroSharedVars, cs *hermes.CropSharedVars, zeit int) {
			if cur == nil {
				return
			}
			cur.End = snapPool(g)
			cur.HaveEnd = true
		},
	}
	res = proj.Run(root, p, probes)
	return days, res, auto
}

// fertPoolRunStage: windows of consecutive simulated days of whole runs, each window one
// `fertpool.seq` case whose initial pool is the real pool at the window start and whose events are
// the day's measurement reset, application and mineral call with the real layer states.
func fertPoolRunStage(c *vh.Ctx, runs int) {
	var cases, impl []string
	var kept []interface{}
	const win = 45
	for k := 0; k < runs; k++ {
		r := c.Rng.Fork()
		p := proj.Gen(r, fmt.Sprintf("fp%d", k), proj.Opt{Management: true, MinLayers: 3, Legumes: k%3 == 0, Years: r.Range(1, 3)})
		if k%2 == 0 {
			proj.LateMeasurements(p, r)
		}
		steerNitroProject(p, false)
		days, res, auto := fertPoolObserve(c, p)
		c.Count("run:fertpool-simulations")
		if res.Panic != "" {
			c.Violate("search", panicSignature(res.Panic), "simulation panicked: "+res.Panic, map[string]interface{}{"project": p})
			continue
		}
		if res.Err != nil || auto {
			c.Count("run:fertpool-simulations:skipped")
			continue
		}
		// every day: the property and the frame conditions
		for i, d := range days {
			if !d.HaveEnd || !d.HaveOne || d.Min == nil {
				continue
			}
			c.Eval()
			payload := map[string]interface{}{"project": p, "date": d.Date, "zeit": d.Zeit}
			if d.Min.Frozen {
				c.Count("run:fertpool:frozen-top-day")
			}
			if !d.Min.OrdOk {
				c.Count("run:fertpool:hypothesis-FrozenOrd-fails") // expected: never (WRED lies above the wilting point)
			}
			if d.Fert != nil {
				c.Count("run:fertpool:application-day")
			}
			if d.Measure {
				c.Count("run:fertpool:measurement-day")
			}
			if d.LaterChg || !samePool(d.AfterOne, d.End) {
				c.Violate("correspondence", "fertpool.seq@run:changed-in-later-substep", fmt.Sprintf("%s: DSUMM / NH4Sum / UMS / NH4UMS change after the first sub-step of the day (the model executes application and dissolution in the first sub-step only)", d.Date), payload)
			}
			if i > 0 && days[i-1].HaveEnd && !d.Measure && !samePool(days[i-1].End, d.Start) {
				c.Violate("correspondence", "fertpool.seq@run:changed-between-days", fmt.Sprintf("%s: the fertiliser counters change between the end of the previous day and the sub-step loop although it is no measurement day (no such event in the model)", d.Date), payload)
			}
			if d.End.Ums > d.End.Dsumm+relTol(d.End.Dsumm) {
				c.Violate("search", "run:fertpool:dissolved-exceeds-applied", fmt.Sprintf("%s: UMS = %.9g exceeds DSUMM = %.9g", d.Date, d.End.Ums, d.End.Dsumm), payload)
			}
			if d.End.Nh4ums > d.End.Nh4sum+relTol(d.End.Nh4sum) {
				c.Violate("search", "run:fertpool:nitrified-exceeds-applied", fmt.Sprintf("%s: NH4UMS = %.9g exceeds NH4Sum = %.9g", d.Date, d.End.Nh4ums, d.End.Nh4sum), payload)
			}
		}
		// windows for the correspondence: those with an application, a measurement day or a frozen top
		// layer first, then others up to the budget
		type window struct {
			lo, hi int
			score  int
		}
		var ws []window
		for lo := 1; lo < len(days); lo += win {
			hi := lo + win
			if hi > len(days) {
				hi = len(days)
			}
			w := window{lo: lo, hi: hi}
			for _, d := range days[lo:hi] {
				if d.Fert != nil || d.Measure {
					w.score += 5
				}
				if d.Min != nil && d.Min.Frozen {
					w.score++
				}
			}
			ws = append(ws, w)
		}
		budget := 6
		for pass := 0; pass < 2 && budget > 0; pass++ {
			for _, w := range ws {
				if budget == 0 {
					break
				}
				if (pass == 0) != (w.score > 0) {
					continue
				}
				if pass == 1 && !r.Chance(0.3) {
					continue
				}
				fc := fpCase{Init: days[w.lo-1].End, Class: "run"}
				if !days[w.lo-1].HaveEnd {
					continue
				}
				var pools []fpPool
				complete := true
				for _, d := range days[w.lo:w.hi] {
					if !d.HaveOne || d.Min == nil {
						complete = false
						break
					}
					if d.Measure {
						fc.Evs = append(fc.Evs, fpEvent{Kind: 2})
						pools = append(pools, d.Start)
					}
					if d.Fert != nil {
						fc.Evs = append(fc.Evs, *d.Fert)
					}
					fc.Evs = append(fc.Evs, *d.Min)
					pools = append(pools, d.AfterOne)
				}
				if !complete || len(pools) == 0 {
					continue
				}
				budget--
				c.Nontrivial(fmt.Sprintf("%s:%d", p.Name, w.lo))
				cases = append(cases, fc.line())
				impl = append(impl, fpLine(pools))
				kept = append(kept, map[string]interface{}{"project": p, "first_day": days[w.lo].Date, "days": w.hi - w.lo})
			}
		}
	}
	saved := kept
	c.Correspond("fertpool.seq@run", cases, impl, 1e-9, 1e-12, func(i int) interface{} { return saved[i] })
}
