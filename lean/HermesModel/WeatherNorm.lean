/-
Model of the two in-place normalisation passes of hermes/weather_input.go (`replaceMissingValues`
:608-674, `transformWeatherData` :585-606) *on the per-year arrays the readers filled*, and of the
whole run with them in place, as the code is:

* `normalise` — the passes on a `Store` whose payload is the six entries of a day the passes read or
  write (`Day`): same loop order, same neighbour positions (`prevPos`, `nextPos`), same cell
  functions (`fillMean`, `fillZero`, `regenT`, `parT`, `windFloor`, `corrMonth ∘ corrDoy`) as the
  grid version in HermesModel/Weather.lean; `MaxYearDays` and `JAR` are read from the store; a slot
  never written reads as the zero value. Only the cells `[y][i]`, y < yrz, i < MaxYearDays[y], are
  rewritten; `JAR`, `MaxYearDays` are untouched.
* `runMultiN` — `ReadWeatherCSV` / `ReadWeatherCZ` (read, then both passes over the `yrz` years
  read), then the day loop of `Run` (HermesModel/DayLoop.lean) on the normalised arrays.
* `runPerYearN` — `WetterK` runs both passes on slot 0 after reading a year file (one year:
  no neighbour outside the file), so the day loop sees the year file with normalised lines.

Core Lean only; polymorphic in the arithmetic; executable (driver ops `wxnorm.*`).
-/
import HermesModel.Weather
import HermesModel.DayLoop
namespace Hermes.Weather

section
variable {α : Type} [Add α] [Mul α] [Div α] [LT α] [DecidableLT α] [BEq α]
  [OfNat α 0] [OfNat α 2] [OfNat α 10] [OfScientific α]

/-- `s.X[y][i]` for the six arrays (zero value where nothing was written) -/
def cellAt (s : Store (Day α)) (y i : Nat) : Day α := (s.get y i).getD zeroDay

/-- assignment to `s.X[y][i]` -/
def setCell (s : Store (Day α)) (y i : Nat) (d : Day α) : Store (Day α) :=
  { s with cells := (y, i, d) :: s.cells }

/-- what the body of the inner loop of `replaceMissingValues` leaves in cell (y, index) -/
def fillValue (nv : α) (maxd : List Nat) (yrz : Nat) (s : Store (Day α)) (y index : Nat) : Day α :=
  let c := cellAt s y index
  let c1 : Day α :=
    match prevPos maxd y index, nextPos maxd yrz y index with
    | some (py, pi), some (ny, ni) =>
      let p := cellAt s py pi
      let n := cellAt s ny ni
      { c with tmp := fillMean nv c.tmp p.tmp n.tmp, verd := fillMean nv c.verd p.verd n.verd,
               sund := fillMean nv c.sund p.sund n.sund }
    | _, _ => { c with tmp := fillZero nv c.tmp, verd := fillZero nv c.verd, sund := fillZero nv c.sund }
  { c1 with sund := fillZero nv c1.sund, radi := fillZero nv c1.radi, reg := fillZero nv c1.reg }

def fillCellS (nv : α) (maxd : List Nat) (yrz : Nat) (s : Store (Day α)) (p : Nat × Nat) : Store (Day α) :=
  setCell s p.1 p.2 (fillValue nv maxd yrz s p.1 p.2)

/-- `replaceMissingValues` on the store -/
def replaceMissingS (nv : α) (maxd : List Nat) (yrz : Nat) (s : Store (Day α)) : Store (Day α) :=
  (cellsOf maxd yrz).foldl (fillCellS nv maxd yrz) s

/-- what the body of the inner loop of `transformWeatherData` leaves in cell (y, index) -/
def transformValue (corr : List α) (jar : List Nat) (s : Store (Day α)) (y index : Nat) : Day α :=
  let c := cellAt s y index
  let leap := daysInYear (jar.getD y 0) == 366
  { c with reg := regenT c.reg (corr.getD (corrMonth (corrDoy leap (index + 1))) 0), radi := parT c.radi,
           win := windFloor c.win }

def transformCellS (corr : List α) (jar : List Nat) (s : Store (Day α)) (p : Nat × Nat) : Store (Day α) :=
  setCell s p.1 p.2 (transformValue corr jar s p.1 p.2)

/-- `transformWeatherData` on the store -/
def transformS (corr : List α) (jar maxd : List Nat) (yrz : Nat) (s : Store (Day α)) : Store (Day α) :=
  (cellsOf maxd yrz).foldl (transformCellS corr jar) s

/-- both passes over the first `yrz` year slots, as the readers call them -/
def normalise (nv : α) (corr : List α) (yrz : Nat) (s : Store (Day α)) : Store (Day α) :=
  let maxd := (List.range yrz).map s.maxAt
  let jar := (List.range yrz).map s.jarAt
  transformS corr jar maxd yrz (replaceMissingS nv maxd yrz s)

/-- the lines of one year file as `WetterK` leaves them in slot 0 (both passes with `yrz = 1`) -/
def normLines (nv : α) (corr : List α) (year : Nat) (ls : List (Nat × Day α)) : List (Nat × Day α) :=
  let s := normalise nv corr 1 (readYearFile year {} (some ls)).1
  ls.map fun l => (l.1, cellAt s 0 (l.1 - 1))

end
end Hermes.Weather

namespace Hermes.DayLoop
open Hermes.Weather

section
variable {α : Type} [Add α] [Mul α] [Div α] [LT α] [DecidableLT α] [BEq α]
  [OfNat α 0] [OfNat α 2] [OfNat α 10] [OfScientific α]

/-- Whole run with a multi-year file (layouts 1, 2), normalisation passes included. -/
def runMultiN (nv : α) (corr : List α) (recs : List (Rec (Day α))) (anjahr cap beginn itag ndays : Nat) :
    Option (List (DayOut (Day α))) :=
  match readMulti anjahr cap recs with
  | none => none
  | some ms =>
    match initState (.multi cap) (normalise nv corr ms.yrz ms.store) anjahr beginn itag with
    | none => none
    | some st => runLoop (.multi cap) ndays st

/-- Whole run with one file per year (layout 0), normalisation passes included. -/
def runPerYearN (nv : α) (corr : List α) (files : Nat → Option (List (Nat × Day α))) (anjahr beginn itag ndays : Nat) :
    Option (List (DayOut (Day α))) :=
  runPerYear (fun y => (files y).map (normLines nv corr y)) anjahr beginn itag ndays

/-- `hasVERD` / `hasSUND` of the run's weather store once the year files of `anjahr … year` have been read: `WetterK`
raises a flag when it sees a value that is not the missing-value code and nothing lowers it (weather_input.go:165-171). -/
def seenOptional (nv : α) (files : Nat → Option (List (Nat × Day α))) (anjahr year : Nat) : Bool × Bool :=
  ((List.range (year + 1 - anjahr)).map (· + anjahr)).foldl (fun acc y =>
    match files y with
    | none => acc
    | some ls => (acc.1 || ls.any (fun l => !(l.2.verd == nv)), acc.2 || ls.any (fun l => !(l.2.sund == nv)))) (false, false)

/-- `LoadYear` copies VERD / SUND into the model's day arrays only while the flag is up (weather_input.go:732-737); the
arrays start at zero. -/
def loadOptional (has : Bool × Bool) (d : Day α) : Day α :=
  { d with verd := if has.1 then d.verd else 0, sund := if has.2 then d.sund else 0 }

/-- Layout 0 as the model's day arrays see it: `runPerYearN` with the optional columns gated by the has-column flags. -/
def runPerYearL (nv : α) (corr : List α) (files : Nat → Option (List (Nat × Day α))) (anjahr beginn itag ndays : Nat) :
    Option (List (DayOut (Day α))) :=
  (runPerYearN nv corr files anjahr beginn itag ndays).map fun ds =>
    ds.map fun d => { d with val := d.val.map (loadOptional (seenOptional nv files anjahr (1900 + d.j))) }

end
end Hermes.DayLoop
