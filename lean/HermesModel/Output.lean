/-
Model of the column binding and of the record writer of hermes/output_fmt.go
(LoadHermesOutputConfig 2047-2138, WriteLine 2141-2185, valueByReflection 2187-2210,
OutputLine.Add, writeCSVString, writeHermesString).  Core Lean only, executable.

The model is about *how many fields* reach the file: which columns of a configuration contribute
a formatted text, how many separators are written and whether a record line is written at all.
The formatted texts themselves (fmt.Sprintf) are not modelled; a text is assumed not to contain the
separator / a line break (what the search stage checks on the real files).
-/
namespace Hermes.Output

/-- Go types as far as the binding by reflection distinguishes them (below the top level a struct
is never descended into: `structVal`). -/
inductive Ty
  | string | int | float64 | bool
  | namedInt      -- a defined type of kind int (CropType, DateFormat, GroundWaterFrom, …)
  | basic         -- every other type of a basic kind (bool/int*/uint*/float*/string, named or not)
  | opaque        -- func, chan, map, pointer, interface, …
  | structVal     -- a struct value reached below the top level
  | slice (elem : Ty)
  | array (len : Nat) (elem : Ty)
  deriving DecidableEq, Repr

/-- Type of a top-level field of the bound struct (`v.FieldByName(varName)`). -/
inductive FieldTy
  | missing                                  -- no such field: invalid reflect.Value
  | plain (t : Ty)
  | struct (fields : List (String × Ty))     -- e.g. DualType {Index int, Num float64, Offset int}
  deriving DecidableEq, Repr

/-- `valueRef` of a column after LoadHermesOutputConfig. -/
inductive Ref
  | na               -- binding failed: valueRef = NotAvailableValue (a Go `string`)
  | ptr (t : Ty)     -- `f.Addr().Interface()`: pointer to a variable of type `t`
  deriving DecidableEq, Repr

/-- `f.FieldByName(subName)` on a struct value. -/
def lookup (fields : List (String × Ty)) (sub : String) : Option Ty :=
  match fields.find? (fun p => p.1 == sub) with
  | some p => some p.2
  | none => none

/-- output_fmt.go:2108-2110: a struct field is replaced by its sub-field (`VAR.Sub`); an unknown
(or empty) sub-name gives the invalid value. -/
def descend (ft : FieldTy) (sub : String) : Option Ty :=
  match ft with
  | .missing => none
  | .plain t => some t
  | .struct fs => lookup fs sub

/-- output_fmt.go:2111-2123: one or two array index steps with the bound checks (`goto failed`).
`none` = binding failed. -/
def indexSteps (t : Ty) (i1 i2 : Nat) : Option Ty :=
  match t with
  | .array n e =>
    if i1 ≥ n then none else
    match e with
    | .array m e2 => if i2 ≥ m then none else some e2
    | _ => some e
  | _ => some t

/-- LoadHermesOutputConfig, the per-column part (2096-2135). Fields of `*g` are addressable, so
`CanAddr` holds whenever the value is valid. -/
def bind (ft : FieldTy) (sub : String) (i1 i2 : Nat) : Ref :=
  match descend ft sub with
  | none => .na
  | some t =>
    match indexSteps t i1 i2 with
    | none => .na
    | some t' => .ptr t'

/-- Kinds `valueByReflection` writes as a value (its `switch v.Kind()`). -/
def Ty.isBasic : Ty → Bool
  | .string | .int | .float64 | .bool | .namedInt | .basic => true
  | _ => false

/-- What a column contributes to the line. -/
inductive Cell
  | value     -- the formatted value of the variable
  | na        -- the formatted not-available text
  | panic     -- WriteLine panics (index beyond the length of a `[]float64`)
  deriving DecidableEq, Repr

/-- The type switch of WriteLine and its fallback `valueByReflection`: every column adds exactly
one text. `i1` = VarIndex1, `sliceLen` = run-time length of a bound slice. -/
def cell (r : Ref) (i1 sliceLen : Nat) : Cell :=
  match r with
  | .na => .na                                   -- case string
  | .ptr .string => .value                       -- case *string
  | .ptr .int => .value                          -- case *int
  | .ptr .float64 => .value                      -- case *float64
  | .ptr .bool => .value                         -- case *bool
  | .ptr (.slice .float64) =>                    -- case *[]float64: `val[idx]` without a guard
    if i1 ≥ sliceLen then .panic else .value
  | .ptr (.slice e) =>                           -- default: valueByReflection, slice branch
    if i1 ≥ sliceLen then .na else if e.isBasic then .value else .na
  | .ptr t => if t.isBasic then .value else .na  -- default: valueByReflection

/-- Does the column contribute a text? After the repair of the default clause: always. -/
def emits (_ : Ref) : Bool := true

/-- OutputLine.Add (2248-2253): the counter advances only below `len`. -/
def addField (len counter : Nat) : Nat := if counter < len then counter + 1 else counter

/-- The loop of WriteLine over the columns: final `outLine.counter`. -/
def countLoop (len : Nat) : List Ref → Nat → Nat
  | [], c => c
  | r :: rest, c => countLoop len rest (if emits r then addField len c else c)

/-- `outLine.counter` after the column loop (`len = numDataColumns = number of columns`). -/
def counter (refs : List Ref) : Nat := countLoop refs.length refs 0

inductive Style | fixed | csv
  deriving DecidableEq, Repr

def Style.ofCode : Nat → Style
  | 0 => .fixed      -- hermesOut
  | _ => .csv        -- csvOut

/-- Separators written by writeCSVString (2273-2283): one after slot `i` iff `i < counter − 1`
(Go `int`: with `counter = 0` no slot qualifies). -/
def csvSeparators (len counter : Nat) : Nat :=
  ((List.range len).filter fun i => decide (i + 1 < counter)).length

/-- Is a line break written (2285-2292 / 2360-2367)? -/
def lineBreak (counter : Nat) : Bool := decide (counter > 0)

/-- What one WriteLine call puts into the file: `none` = nothing at all (no record),
`some n` = one record line with `n` fields.
CSV: the `counter` texts joined by `counter − 1` separators, line break iff `counter > 0`.
Fixed width: writeHermesString returns an error *before writing anything* when
`numDataColumns ≠ counter` (run.go ignores the error; cannot happen any more since every column
adds a text); otherwise every column is written padded to its width and followed by one fill
character. -/
def record (style : Style) (refs : List Ref) : Option Nat :=
  let c := counter refs
  match style with
  | .csv => if lineBreak c then some (csvSeparators refs.length c + 1) else none
  | .fixed => if refs.length ≠ c then none else if lineBreak c then some c else none

/-- Length (in runes) of a fixed-width record before the line break: every column takes
`max width (length of its text)` cells plus one fill character (2302-2357). -/
def fixedLineLen : List (Nat × Nat) → Nat
  | [] => 0
  | (width, len) :: rest => (if width > len then width else len) + 1 + fixedLineLen rest

/-- Start cell of every column of a fixed-width record whose texts fit their widths. -/
def fixedStarts : List Nat → Nat → List Nat
  | [], _ => []
  | w :: rest, at_ => at_ :: fixedStarts rest (at_ + w + 1)

/-! ### text form used by the driver -/

def Ty.text : Ty → String
  | .string => "string" | .int => "int" | .float64 => "float64" | .bool => "bool"
  | .namedInt => "named" | .basic => "basic" | .opaque => "opaque" | .structVal => "struct"
  | .slice e => "[]" ++ e.text
  | .array n e => "[" ++ toString n ++ "]" ++ e.text

def Ref.text : Ref → String
  | .na => "na"
  | .ptr t => "*" ++ t.text

/-- Prefix grammar: `string|int|float64|bool|named|opaque|structval`, `slice T`, `array n T`. -/
def parseTy : Nat → List String → Option (Ty × List String)
  | 0, _ => none
  | _ + 1, [] => none
  | fuel + 1, tok :: rest =>
    match tok with
    | "string" => some (.string, rest)
    | "int" => some (.int, rest)
    | "float64" => some (.float64, rest)
    | "bool" => some (.bool, rest)
    | "named" => some (.namedInt, rest)
    | "basic" => some (.basic, rest)
    | "opaque" => some (.opaque, rest)
    | "structval" => some (.structVal, rest)
    | "slice" => match parseTy fuel rest with
      | some (e, r) => some (.slice e, r)
      | none => none
    | "array" => match rest with
      | n :: rest' => match n.toNat?, parseTy fuel rest' with
        | some n, some (e, r) => some (.array n e, r)
        | _, _ => none
      | [] => none
    | _ => none

def parseFields (fuel : Nat) : Nat → List String → Option (List (String × Ty) × List String)
  | 0, r => some ([], r)
  | k + 1, name :: r =>
    match parseTy fuel r with
    | some (t, r') => match parseFields fuel k r' with
      | some (fs, r'') => some ((name, t) :: fs, r'')
      | none => none
    | none => none
  | _ + 1, [] => none

/-- `missing` | `struct k name T …` | `T`. -/
def parseFieldTy (toks : List String) : Option (FieldTy × List String) :=
  match toks with
  | "missing" :: r => some (.missing, r)
  | "struct" :: k :: r => match k.toNat? with
    | some k => match parseFields toks.length k r with
      | some (fs, r') => some (.struct fs, r')
      | none => none
    | none => none
  | _ => match parseTy toks.length toks with
    | some (t, r) => some (.plain t, r)
    | none => none

end Hermes.Output
