import HermesModel.Calendar
import HermesModel.Proto
import HermesModel.Partition
import HermesModel.Generated.Facts
import HermesModel.Num
import HermesModel.Water
