/-
Refinement: the Lean translation of the CURRENT Go source of `Denitr` (HermesModel/Generated/ImpDenitr.lean, regenerated on every
run) removes nitrate from the three top layers and books it exactly as the hand-written model `Mineral.denitr` does — for every
state and every behaviour of the `math` functions.  The moisture and temperature factors are what the source computes
(`1 − exp(−(θrel/0.766)^6)`, `1 − exp(−(T/15.5)^4.6)`).
-/
import HermesProofs.RatInst
import HermesModel.Mineral
import HermesModel.Generated.ImpDenitr
import Mathlib.Tactic.Linarith
import Mathlib.Tactic.Ring
import Mathlib.Tactic.NormNum

namespace Hermes.ImpDenitr
open Hermes.Imp Hermes.Mineral
open Hermes.Generated.Imp.Denitr

theorem rd_wr_nat (l : List ℚ) (i j : Nat) (v : ℚ) (h : i < l.length) :
    rd (wr l (i : Int) v) (j : Int) = if i = j then v else rd l (j : Int) := by
  rw [rd_wr l (i : Int) (j : Int) v (by omega) (by simpa using h)]
  by_cases hij : i = j
  · subst hij; simp
  · have : ¬ ((i : Int) = (j : Int)) := by omega
    simp [hij, this]

/-- one iteration of the removal loop (denit.go:52-59) -/
theorem loop1_step (m : MathFns ℚ) (z : Nat) (t : St ℚ) (hz : z < t.g_C1.length) :
    ∃ C, loop1 m (z : Int) t = { t with g_C1 := C } ∧ C.length = t.g_C1.length ∧
      ∀ j : Nat, rd C (j : Int) =
        if z = j then denitLayer (rd t.g_C1 (z : Int)) (rd t.v_layerFraction (z : Int)) t.v_DENIT else rd t.g_C1 (j : Int) := by
  have h0 : (0.0 : ℚ) = 0 := by norm_num
  unfold loop1
  simp only [h0]
  by_cases hf : 0 < rd t.v_layerFraction (z : Int)
  · simp only [hf, ↓reduceIte]
    have hrd : rd (wr t.g_C1 (z : Int) (rd t.g_C1 (z : Int) - t.v_DENIT * rd t.v_layerFraction (z : Int))) (z : Int)
        = rd t.g_C1 (z : Int) - t.v_DENIT * rd t.v_layerFraction (z : Int) := by
      rw [rd_wr_nat _ z z _ hz]; simp
    by_cases hneg : rd t.g_C1 (z : Int) - t.v_DENIT * rd t.v_layerFraction (z : Int) < 0
    · simp only [hrd, hneg, ↓reduceIte]
      refine ⟨_, rfl, by simp, ?_⟩
      intro j
      rw [rd_wr_nat _ z j _ (by simpa using hz), rd_wr_nat _ z j _ hz]
      by_cases hzj : z = j
      · subst hzj
        simp only [if_true, denitLayer, Nitro.clamp0, hf, hneg]
      · simp [hzj]
    · simp only [hrd, hneg, ↓reduceIte]
      refine ⟨_, rfl, by simp, ?_⟩
      intro j
      rw [rd_wr_nat _ z j _ hz]
      by_cases hzj : z = j
      · subst hzj
        simp only [if_true, denitLayer, Nitro.clamp0, hf, hneg, if_false]
      · simp [hzj]
  · simp only [hf, ↓reduceIte]
    refine ⟨t.g_C1, rfl, rfl, ?_⟩
    intro j
    by_cases hzj : z = j
    · subst hzj; simp [denitLayer, hf]
    · simp [hzj]


/-- the removal loop over the three top layers (denit.go:52-59) -/
theorem loop_spec (m : MathFns ℚ) (t : St ℚ) (h3 : 3 ≤ t.g_C1.length) :
    ∃ C, loopUp noBrk 0 3 (loop1 m) t = { t with g_C1 := C } ∧ C.length = t.g_C1.length ∧
      rd C ((0 : Nat) : Int) = denitLayer (rd t.g_C1 ((0 : Nat) : Int)) (rd t.v_layerFraction ((0 : Nat) : Int)) t.v_DENIT ∧
      rd C ((1 : Nat) : Int) = denitLayer (rd t.g_C1 ((1 : Nat) : Int)) (rd t.v_layerFraction ((1 : Nat) : Int)) t.v_DENIT ∧
      rd C ((2 : Nat) : Int) = denitLayer (rd t.g_C1 ((2 : Nat) : Int)) (rd t.v_layerFraction ((2 : Nat) : Int)) t.v_DENIT ∧
      ∀ j : Nat, 3 ≤ j → rd C (j : Int) = rd t.g_C1 (j : Int) := by
  have hun : loopUp noBrk 0 3 (loop1 m) t
      = loop1 m ((2 : Nat) : Int) (loop1 m ((1 : Nat) : Int) (loop1 m ((0 : Nat) : Int) t)) := rfl
  rw [hun]
  obtain ⟨Ca, ea, la, pa⟩ := loop1_step m 0 t (by omega)
  rw [ea]
  obtain ⟨Cb, eb, lb, pb⟩ := loop1_step m 1 { t with g_C1 := Ca } (by simp only []; omega)
  rw [eb]
  obtain ⟨Cc, ec, lc, pc⟩ := loop1_step m 2 { t with g_C1 := Cb } (by simp only [] at lb ⊢; omega)
  rw [ec]
  simp only [] at pa pb pc la lb lc
  refine ⟨Cc, rfl, by omega, ?_, ?_, ?_, ?_⟩
  · rw [pc 0, pb 0, pa 0]; simp
  · rw [pc 1, pb 1, pa 1]; simp
  · rw [pc 2, pb 2, pa 2]; simp
  · intro j hj
    rw [pc j, pb j, pa j]
    have h0 : ¬ (0 = j) := by omega
    have h1 : ¬ (1 = j) := by omega
    have h2 : ¬ (2 = j) := by omega
    simp [h0, h1, h2]

/-! rewriting forms of `loop_spec` -/

theorem loop_CUM (m : MathFns ℚ) (t : St ℚ) (h3 : 3 ≤ t.g_C1.length) :
    (loopUp noBrk 0 3 (loop1 m) t).g_CUMDENIT = t.g_CUMDENIT := by
  obtain ⟨C, e, _⟩ := loop_spec m t h3; rw [e]

theorem loop_DENIT (m : MathFns ℚ) (t : St ℚ) (h3 : 3 ≤ t.g_C1.length) :
    (loopUp noBrk 0 3 (loop1 m) t).v_DENIT = t.v_DENIT := by
  obtain ⟨C, e, _⟩ := loop_spec m t h3; rw [e]

theorem loop_len (m : MathFns ℚ) (t : St ℚ) (h3 : 3 ≤ t.g_C1.length) :
    (loopUp noBrk 0 3 (loop1 m) t).g_C1.length = t.g_C1.length := by
  obtain ⟨C, e, l, _⟩ := loop_spec m t h3; rw [e]; exact l

theorem loop_C0 (m : MathFns ℚ) (t : St ℚ) (h3 : 3 ≤ t.g_C1.length) :
    rd (loopUp noBrk 0 3 (loop1 m) t).g_C1 0 = denitLayer (rd t.g_C1 0) (rd t.v_layerFraction 0) t.v_DENIT := by
  obtain ⟨C, e, _, p0, _⟩ := loop_spec m t h3; rw [e]; exact p0

theorem loop_C1 (m : MathFns ℚ) (t : St ℚ) (h3 : 3 ≤ t.g_C1.length) :
    rd (loopUp noBrk 0 3 (loop1 m) t).g_C1 1 = denitLayer (rd t.g_C1 1) (rd t.v_layerFraction 1) t.v_DENIT := by
  obtain ⟨C, e, _, _, p1, _⟩ := loop_spec m t h3; rw [e]; exact p1

theorem loop_C2 (m : MathFns ℚ) (t : St ℚ) (h3 : 3 ≤ t.g_C1.length) :
    rd (loopUp noBrk 0 3 (loop1 m) t).g_C1 2 = denitLayer (rd t.g_C1 2) (rd t.v_layerFraction 2) t.v_DENIT := by
  obtain ⟨C, e, _, _, _, p2, _⟩ := loop_spec m t h3; rw [e]; exact p2

theorem loop_Cj (m : MathFns ℚ) (t : St ℚ) (h3 : 3 ≤ t.g_C1.length) (j : Nat) (hj : 3 ≤ j) :
    rd (loopUp noBrk 0 3 (loop1 m) t).g_C1 (j : Int) = rd t.g_C1 (j : Int) := by
  obtain ⟨C, e, _, _, _, _, pj⟩ := loop_spec m t h3; rw [e]; exact pj j hj

theorem rd3_0 (a b c : ℚ) : rd [a, b, c] 0 = a := rfl
theorem rd3_1 (a b c : ℚ) : rd [a, b, c] 1 = b := rfl
theorem rd3_2 (a b c : ℚ) : rd [a, b, c] 2 = c := rfl

/-! ### the factors the source computes -/

def nOf (s : St ℚ) : ℚ := rd s.g_C1 0 + rd s.g_C1 1 + rd s.g_C1 2

def thetasatOf (s : St ℚ) : ℚ :=
  if s.p_thetasatFromPorges = true then (rd s.g_PORGES 0 + rd s.g_PORGES 1 + rd s.g_PORGES 2) / 3 else 24 / 53

def thetarelOf (s : St ℚ) : ℚ := ((rd s.g_WG_1 0 + rd s.g_WG_1 1 + rd s.g_WG_1 2) / 3) / thetasatOf s

def tempOf (s : St ℚ) : ℚ :=
  if (rd s.g_TSOIL_0 0 + rd s.g_TSOIL_0 1 + rd s.g_TSOIL_0 2 + rd s.g_TSOIL_0 3) / 4 < 0 then 0
  else (rd s.g_TSOIL_0 0 + rd s.g_TSOIL_0 1 + rd s.g_TSOIL_0 2 + rd s.g_TSOIL_0 3) / 4

def fthetaOf (m : MathFns ℚ) (s : St ℚ) : ℚ := 1 - m.exp ((-1) * m.pow (thetarelOf s / 0.766) 6)
def ftempOf (m : MathFns ℚ) (s : St ℚ) : ℚ := 1 - m.exp ((-1) * m.pow (tempOf s / 15.5) 4.6)

/-- **Refinement.**  For every state (the nitrate array has at least the three top layers) and every behaviour of the `math`
functions the translated source of `Denitr` leaves in `C1[0..2]` and `CUMDENIT` exactly what `Mineral.denitr` computes with the
moisture and temperature factors of the source; nitrate below 30 cm is untouched. -/
theorem denitr_refines (m : MathFns ℚ) (s : St ℚ) (h3 : 3 ≤ s.g_C1.length) :
    [rd (Generated.Imp.Denitr.run m s).g_C1 0, rd (Generated.Imp.Denitr.run m s).g_C1 1, rd (Generated.Imp.Denitr.run m s).g_C1 2]
        = (denitr (rd s.g_C1 0) (rd s.g_C1 1) (rd s.g_C1 2) (fthetaOf m s) (ftempOf m s) s.g_CUMDENIT).c ∧
      (Generated.Imp.Denitr.run m s).g_CUMDENIT = (denitr (rd s.g_C1 0) (rd s.g_C1 1) (rd s.g_C1 2) (fthetaOf m s) (ftempOf m s) s.g_CUMDENIT).cumdenit ∧
      (∀ j : Nat, 3 ≤ j → rd (Generated.Imp.Denitr.run m s).g_C1 (j : Int) = rd s.g_C1 (j : Int)) ∧
      (Generated.Imp.Denitr.run m s).g_C1.length = s.g_C1.length := by
  have e0 : (0.0 : ℚ) = 0 := by norm_num
  have e1 : (1.0 : ℚ) = 1 := by norm_num
  have e3 : (3.0 : ℚ) = 3 := by norm_num
  have e4 : (4.0 : ℚ) = 4 := by norm_num
  have e6 : (6.0 : ℚ) = 6 := by norm_num
  have e74 : (74.0 : ℚ) = 74 := by norm_num
  have e1274 : (1274.0 : ℚ) = 1274 := by norm_num
  have e1000 : (1000.0 : ℚ) = 1000 := by norm_num
  have e24 : (24.0 : ℚ) / 53.0 = 24 / 53 := by norm_num
  have e889 : (889.0 : ℚ) / 6000.0 = 889 / 6000 := by norm_num
  have em1 : (-1.0 : ℚ) = -1 := by norm_num
  unfold Generated.Imp.Denitr.run
  by_cases hn : 0 < rd s.g_C1 0 + rd s.g_C1 1 + rd s.g_C1 2
  · by_cases ht : (rd s.g_TSOIL_0 0 + rd s.g_TSOIL_0 1 + rd s.g_TSOIL_0 2 + rd s.g_TSOIL_0 3) / 4 < 0 <;>
    by_cases hF : 1 < m.min (889 / 6000 * (rd s.g_C1 0 + rd s.g_C1 1 + rd s.g_C1 2) * 0.667) (0.44 + 0.001005 * (rd s.g_C1 0 + rd s.g_C1 1 + rd s.g_C1 2)) <;>
    cases hb : s.p_thetasatFromPorges <;>
    · simp only [hb, hn, ht, hF, e0, e1, e3, e4, e6, e74, e1274, e1000, e24, e889, em1, ↓reduceIte, Bool.false_eq_true]
      simp only [loop_CUM, loop_DENIT, loop_len, loop_C0, loop_C1, loop_C2, loop_Cj, h3, rd3_0, rd3_1, rd3_2,
        denitr, hn, ↓reduceIte, denitRate, fthetaOf, ftempOf, thetarelOf, thetasatOf, tempOf, hb, ht, pow2, Bool.false_eq_true]
      refine ⟨?_, ?_, ?_, trivial⟩
      · norm_num
      · norm_num
      · intro j hj; refine loop_Cj m _ ?_ j hj; exact h3
  · cases hb : s.p_thetasatFromPorges <;>
    · simp only [hb, hn, e0, e3, e24, ↓reduceIte, Bool.false_eq_true]
      simp only [denitr, hn, ↓reduceIte]
      exact ⟨trivial, trivial, fun _ _ => trivial, trivial⟩

end Hermes.ImpDenitr
