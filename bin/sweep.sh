#!/bin/sh
# usage: bin/sweep.sh <repo-worktree> <tier> <seed> [<seed> ...]
# Unchanged-tree sweep from a COPY / snapshot of /verif (never /verif itself) against a private worktree of /repo:
# every property, given tier, given seeds. Prints one line per run; any VIOLATION is a false alarm or a new finding.
DIR="$(cd "$(dirname "$0")/.." && pwd)"
RW="$1"; TIER="$2"; shift 2
case "$DIR" in /verif) echo "refusing to run in /verif itself"; exit 2;; esac
sed -i "s#=> .*/hermes\$#=> $RW/hermes#" "$DIR/harness/go.mod"
export VERIF_DIR="$DIR" VERIF_REPO="$RW"
( cd "$DIR" && bin/setup.sh >/dev/null 2>&1 ) || { echo "setup failed"; exit 2; }
for seed in "$@"; do
  for c in C01 C02 C03 C04 C05 C06 C07 C08 C09 C10 C11 C12 C13 C14 C15 C16 C17 C18 C19 C20; do
    OUT=$(VERIF_SEED=$seed "$DIR/bin/run_check.sh" $c $TIER 2>&1)
    if echo "$OUT" | grep -q "^VIOLATION"; then echo "ALARM $c $TIER seed=$seed"; echo "$OUT" | grep -E "^VIOLATION|^  \[" | head -6 | cut -c1-400
    else echo "$OUT" | tail -1 | cut -c1-160; fi
  done
done
echo "sweep done"
