/-
Model of `nmove` (hermes/nitro.go:708-853): one call of the convection-dispersion transport routine
as a pure function of the state it reads.  Transcribed from the Go code as it is; every Go loop is
a structural recursion over the layer list; the diffusion coefficients `D` (which contain `exp`)
are inputs.  Polymorphic in the arithmetic (see Num.lean): `Float` in the driver, `ℚ` in the proofs.
-/
import HermesModel.Num
namespace Hermes.Nitro

section
variable {α : Type} [Add α] [Sub α] [Mul α] [Div α] [Neg α] [LT α] [DecidableLT α]
  [OfNat α 0] [OfNat α 2] [OfNat α 100] [OfScientific α]

/-- Go `math.Abs` (also maps −0 to +0) -/
def absG (x : α) : α := if 0 < x then x else 0 - x

/-- `if x < 0 { x = 0 }` -/
def clamp0 (x : α) : α := if x < 0 then 0 else x

def zipWith3 {β : Type} (f : α → α → α → β) : List α → List α → List α → List β
  | a :: as, b :: bs, c :: cs => f a b c :: zipWith3 f as bs cs
  | _, _, _ => []

/-- nitro.go:714-719: uptake is limited to what the layer holds above 0.5 kg N/ha, and to ≥ 0 -/
def clampPe (c1 pe : α) : α :=
  let p := if c1 - 0.5 < pe then c1 - 0.5 else pe
  if p < 0 then 0 else p

/-- nitro.go:722-726 -/
def takeUp (c1 pe : α) : α := if c1 - pe < 0 then 0 else c1 - pe

/-- nitro.go:713-727, first sub-step: per layer (C1 after uptake, PE after the clamp) -/
def uptake : List α → List α → List (α × α)
  | c :: cs, p :: ps => (takeUp c (clampPe c p), clampPe c p) :: uptake cs ps
  | _, _ => []

/-- nitro.go:728-731: concentration in the soil solution after half of the source term -/
def conc (dz wdt : α) (c1 dn wg : α) : α :=
  clamp0 ((c1 + dn * wdt / 2) / (wg * dz * 100))

/-- nitro.go:738 pore water velocity -/
def poreV (q wA wB : α) : α := absG (q / ((wA + wB) * 0.5))

/-- nitro.go:739 dispersion coefficient at the lower boundary of the layer -/
def dbCoef (wdt dv : α) (wgA wgB d v qBot qTop : α) : α :=
  (wgA + wgB) / 2 * (d + dv * v) - 0.5 * wdt * absG qBot + 0.5 * wdt * absG ((qBot + qTop) / 2) * v

/-- nitro.go:735-739 over the layers: inputs D[0..N-1], WG[0][0..N], W[0..N], Q1[0..N];
output (V, DB) per layer -/
def dbGo (wdt dv : α) : List α → List α → List α → List α → List (α × α)
  | d :: ds, wgA :: wgB :: wgs, wA :: wB :: ws, qT :: qB :: qs =>
      (poreV qB wA wB, dbCoef wdt dv wgA wgB d (poreV qB wA wB) qB qT)
        :: dbGo wdt dv ds (wgB :: wgs) (wB :: ws) (qB :: qs)
  | _, _, _, _ => []

/-- nitro.go:740-749: DISP per layer as the difference of the interface fluxes.
`prev` = (DB, concentration) of the layer above; list = (concentration, DB) per remaining layer.
With a single layer the Go code takes the first branch and reads `Carray[2] = 0`. -/
def dispGo (dz2 : α) : Option (α × α) → List (α × α) → List α
  | _, [] => []
  | none, [(c, db)] => [(-db) * (c - 0) / dz2]
  | none, (c, db) :: (c2, db2) :: rest =>
      ((-db) * (c - c2) / dz2) :: dispGo dz2 (some (db, c)) ((c2, db2) :: rest)
  | some (dbp, cp), [(c, _)] => [dbp * (cp - c) / dz2]
  | some (dbp, cp), (c, db) :: (c2, db2) :: rest =>
      (dbp * (cp - c) / dz2 - db * (c - c2) / dz2) :: dispGo dz2 (some (db, c)) ((c2, db2) :: rest)

/-- nitro.go:751-795 for one layer: upstream convection in the four sign cases, `top` = (z == 1),
`drain` = (z == DRAIDEP); cUp / c / cDown = Carray[z-1], Carray[z], Carray[z+1];
qTop / qBot = Q1[z-1], Q1[z].  The drain layer loses `c·QDRAIN` in every sign case. -/
def konvLayer (dz qdrain : α) (top drain : Bool) (cUp c cDown qTop qBot : α) : α :=
  if qBot < 0 then
    if qTop < 0 then
      (if top then
         (if drain then (cDown * qBot + c * qdrain) / dz else cDown * qBot / dz)
       else if drain then (cDown * qBot + c * qdrain - c * qTop) / dz
       else (cDown * qBot - c * qTop) / dz)
    else
      (if drain then (cDown * qBot + c * qdrain - cUp * qTop) / dz
       else (cDown * qBot - cUp * qTop) / dz)
  else
    if qTop < 0 then
      (if top then
         (if drain then (c * qBot + c * qdrain) / dz else c * qBot / dz)
       else if drain then (c * qBot + c * qdrain - c * qTop) / dz
       else (c * qBot - c * qTop) / dz)
    else
      (if drain then (c * qBot + c * qdrain - cUp * qTop) / dz
       else (c * qBot - cUp * qTop) / dz)

/-- nitro.go:751-795 over the layers; list = (Carray[z], Q1[z]) for z, z+1, …; below the last
layer the concentration is `Carray[N+1] = 0`. -/
def konvGo (dz qdrain : α) (draidep : Nat) : Nat → α → α → List (α × α) → List α
  | _, _, _, [] => []
  | z, cUp, qTop, (c, qBot) :: rest =>
      konvLayer dz qdrain (z == 1) (z == draidep) cUp c
          (match rest with | [] => 0 | (c2, _) :: _ => c2) qTop qBot
        :: konvGo dz qdrain draidep (z + 1) c qBot rest

/-- nitro.go:783 -/
def newC (dz : α) (cw disp konv : α) : α := (cw + disp - konv) * dz * 100

/-- nitro.go:805-824: the leaching counter (`OUTSUM`, and `NLEAG` with the same terms);
`deep` = (OUTN < N). -/
def leachAdd (dz : α) (deep : Bool) (acc qOut cOut cBelow dbOut : α) : α :=
  if 0 < qOut then
    if deep then acc + qOut * cOut / dz * 100 * dz + dbOut * (cOut - cBelow) / (dz * dz) * 100 * dz
    else acc + qOut * cOut / dz * 100 * dz
  else
    if deep then acc + qOut * cBelow / dz * 100 * dz + dbOut * (cOut - cBelow) / (dz * dz) * 100 * dz
    else acc

/-- Inputs of one `nmove` call (N = c1.length layers). -/
structure In (α : Type) where
  dz : α
  wdt : α
  dv : α
  first : Bool            -- subd == 1
  fluss0 : α
  q : List α              -- Q1[1..N]
  qdrain : α
  draidep : Nat
  outn : Nat
  wg : List α             -- WG[0][0..N]  (N+1 entries)
  w : List α              -- W[0..N]      (N+1 entries)
  d : List α              -- D[0..N-1] as computed by the Go code (contains exp)
  c1 : List α
  pe : List α
  dn : List α
  stab : α                -- C1stabilityVal
  inSeason : Bool         -- SAAT ≤ zeit ≤ ERNTE2 of the current crop
  afterSow : Bool         -- zeit > SAAT
  schnorr : α
  pesum : α
  aufnasum : α
  outsum : α
  nleag : α
  drainloss : α

structure Out (α : Type) where
  c1 : List α
  pe : List α
  carr : List α           -- Carray[1..N]
  v : List α
  db : List α
  disp : List α
  konv : List α
  ck : List α             -- the pre-clamp values of nitro.go:783
  unstable : Bool
  pesum : α
  aufnasum : α
  outsum : α
  nleag : α
  drainloss : α

/-- nitro.go:710-727: C1 and PE after the uptake block (identity after the first sub-step) -/
def phaseUptake (i : In α) : List (α × α) :=
  if i.first then uptake i.c1 i.pe else i.c1.zip i.pe

def carrOf (i : In α) (c1u : List α) : List α := zipWith3 (conc i.dz i.wdt) c1u i.dn i.wg

def q1Of (i : In α) : List α := (i.fluss0 * i.wdt) :: i.q

/-- Carray[k] for k = 0 … N+1 (zero outside 1 … N) -/
def carrGet (carr : List α) (k : Nat) : α := ((0 : α) :: carr).getD k 0

/-- One call of `nmove`. -/
def step (i : In α) : Out α :=
  let up := phaseUptake i
  let c1u := up.map (·.1)
  let peu := up.map (·.2)
  let carr := carrOf i c1u
  let q1 := q1Of i
  let vdb := dbGo i.wdt i.dv i.d i.wg i.w q1
  let db := vdb.map (·.2)
  let disp := dispGo (i.dz * i.dz) none (carr.zip db)
  let konv := konvGo i.dz i.qdrain i.draidep 1 0 (i.fluss0 * i.wdt) (carr.zip i.q)
  let cw := List.zipWith (· * ·) carr i.wg
  let ck := zipWith3 (newC i.dz) cw disp konv
  let n := i.c1.length
  let qOut := q1.getD i.outn 0
  let cOut := carrGet carr i.outn
  let cBelow := carrGet carr (i.outn + 1)
  let dbOut := db.getD (i.outn - 1) 0
  { c1 := List.zipWith (fun c dn => clamp0 (clamp0 c + dn * i.wdt / 2)) ck i.dn,
    pe := peu, carr := carr, v := vdb.map (·.1), db := db, disp := disp, konv := konv, ck := ck,
    unstable := ck.any (fun x => x < i.stab),
    pesum := (if i.first then
                (let p := sumFrom i.pesum peu
                 if i.inSeason then p + i.schnorr else p)
              else i.pesum),
    aufnasum := if i.first then sumFrom i.aufnasum peu else i.aufnasum,
    outsum := leachAdd i.dz (i.outn < n) i.outsum qOut cOut cBelow dbOut,
    nleag := if i.afterSow then leachAdd i.dz (i.outn < n) i.nleag qOut cOut cBelow dbOut else i.nleag,
    drainloss := i.drainloss + i.qdrain * carrGet carr i.draidep / i.dz * 100 * i.dz }

/-- feed the state written by one call into the inputs of the next sub-step of the same day -/
def feed (j : In α) (o : Out α) : In α :=
  { j with first := false, c1 := o.c1, pe := o.pe, pesum := o.pesum, aufnasum := o.aufnasum,
           outsum := o.outsum, nleag := o.nleag, drainloss := o.drainloss }

/-- a day: the first sub-step with `subd == 1`, then the remaining sub-steps (fluxes, water
contents and coefficients of each sub-step are those of the list entries) -/
def runRest : Out α → List (In α) → Out α
  | o, [] => o
  | o, j :: rest => runRest (step (feed j o)) rest

def runDay (i : In α) (rest : List (In α)) : Out α := runRest (step { i with first := true }) rest

end
end Hermes.Nitro
