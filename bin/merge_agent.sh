#!/bin/sh
# usage: bin/merge_agent.sh <name> [apply]  — list (and with "apply" copy) the files an agent workspace /tmp/vw-<name>
# added or changed relative to /verif, and new hook files of its repo worktree /tmp/rw-<name>.
N="$1"; MODE="$2"
VW=/tmp/vw-$N; RW=/tmp/rw-$N
cd $VW || exit 2
find . -type f \( -path ./lean/.lake -o -path ./harness/bin -o -path ./replays -o -path ./evidence -o -path ./.git \) -prune -o -type f -print | grep -v -E '^./(lean/.lake|harness/bin|replays|evidence|seeded)/|__pycache__|\.build\.lock|lean/(HermesModel|HermesProofs|HermesProps|Driver)\.lean$|lean/Driver/Dispatch.lean|MANIFEST.json|harness/go.mod|harness/go.sum|lean/lake-manifest' | while read f; do
  if [ ! -f /verif/$f ]; then echo "NEW      $f"; [ "$MODE" = apply ] && mkdir -p /verif/$(dirname $f) && cp $f /verif/$f
  elif ! cmp -s $f /verif/$f; then echo "CHANGED  $f"; fi
done
echo "--- repo worktree $RW"
git -C $RW status --short | grep -v "test_data\|^?? src/.*/[a-z_]*$" 
if [ "$MODE" = apply ]; then
  for f in $(git -C $RW status --short | awk '/^\?\? hermes\/verif_/{print $2}'); do cp $RW/$f /repo/$f; echo "copied hook $f"; done
fi
