/-
Refinement of the regenerated translation of `hermes.Water` — part B: the evaporation cascade with its deficit hand-down and its
`break` (water.go:864-897), characterised against the model's `evap` by induction over the remaining layers.
-/
import HermesProofs.ImpWaterA

namespace Hermes.ImpWater
open Hermes.Imp Hermes.Water
open Hermes.ImpSoiltemp (vw vw_length vw_getElem rd_wr_nat getD_of_lt vw_getD)
open Hermes.Generated.Imp.Water

/-! ### the fill loop below the drying front (water.go:889-892) -/

theorem loop6_spec (m : MathFns ℚ) (k1 : Int) (t : St ℚ) (N a : Nat) (hN : t.g_N = (N : Int))
    (lW1 : N ≤ t.v_WATER_1.length) (lQ : N + 1 ≤ t.g_Q1.length) :
    ∃ A Q, loopUp noBrk (a : Int) t.g_N (loop6 m k1) t = { t with v_WATER_1 := A, g_Q1 := Q } ∧
      A.length = t.v_WATER_1.length ∧ Q.length = t.g_Q1.length ∧
      (∀ j : Nat, rd A (j : Int) = if a ≤ j ∧ j < N then rd t.v_WATER_0 (j : Int) else rd t.v_WATER_1 (j : Int)) ∧
      (∀ j : Nat, rd Q (j : Int) = if a + 1 ≤ j ∧ j ≤ N then 0 else rd t.g_Q1 (j : Int)) := by
  rw [show loopUp noBrk (a : Int) t.g_N (loop6 m k1) t = loopUp noBrk (a : Int) (N : Int) (loop6 m k1) t from by rw [hN]]
  have hcnt : ((N : Int) - (a : Int)).toNat = N - a := by omega
  have key := loopUp_noBrk_ind (loop6 m k1)
    (fun k u => ∃ A Q, u = { t with v_WATER_1 := A, g_Q1 := Q } ∧
      A.length = t.v_WATER_1.length ∧ Q.length = t.g_Q1.length ∧
      (∀ j : Nat, rd A (j : Int) = if a ≤ j ∧ j < a + k then rd t.v_WATER_0 (j : Int) else rd t.v_WATER_1 (j : Int)) ∧
      (∀ j : Nat, rd Q (j : Int) = if a + 1 ≤ j ∧ j < a + 1 + k then 0 else rd t.g_Q1 (j : Int)))
    (a : Int) (N : Int) t
    ⟨_, _, rfl, rfl, rfl, by intro j; simp; all_goals (intro h1 h2; omega), by intro j; simp; all_goals (intro h1 h2; omega)⟩
    (by
      intro k hk u ⟨A, Q, hu, hA, hQ, p1, p2⟩
      rw [hcnt] at hk
      subst hu
      have e2 : (a : Int) + (k : Int) = ((a + k : Nat) : Int) := by push_cast; ring
      have e3 : ((a + k : Nat) : Int) + 1 = ((a + k + 1 : Nat) : Int) := by push_cast; ring
      have hk1 : a + k < A.length := by omega
      have hk2 : a + k + 1 < Q.length := by omega
      have h0 : (0.0 : ℚ) = 0 := by norm_num
      refine ⟨wr A ((a + k : Nat) : Int) (rd t.v_WATER_0 ((a + k : Nat) : Int)), wr Q ((a + k + 1 : Nat) : Int) 0, ?_,
        by simp [hA], by simp [hQ], ?_, ?_⟩
      · simp only [loop6, e2, e3, h0]
      · intro j
        rw [rd_wr_nat A (a + k) j _ hk1, p1 j]
        by_cases hj : a + k = j
        · have : a ≤ j ∧ j < a + (k + 1) := by omega
          subst hj; simp [this]
        · simp only [hj, if_false]
          by_cases hj2 : a ≤ j ∧ j < a + k
          · have : a ≤ j ∧ j < a + (k + 1) := by omega
            simp [hj2, this]
          · have : ¬ (a ≤ j ∧ j < a + (k + 1)) := by omega
            simp [hj2, this]
      · intro j
        rw [rd_wr_nat Q (a + k + 1) j _ hk2, p2 j]
        by_cases hj : a + k + 1 = j
        · have : a + 1 ≤ j ∧ j < a + 1 + (k + 1) := by omega
          subst hj; simp [this]
        · simp only [hj, if_false]
          by_cases hj2 : a + 1 ≤ j ∧ j < a + 1 + k
          · have : a + 1 ≤ j ∧ j < a + 1 + (k + 1) := by omega
            simp [hj2, this]
          · have : ¬ (a + 1 ≤ j ∧ j < a + 1 + (k + 1)) := by omega
            simp [hj2, this])
  rw [hcnt] at key
  obtain ⟨A, Q, e, lA, lQ', p1, p2⟩ := key
  refine ⟨A, Q, e, lA, lQ', ?_, ?_⟩
  · intro j
    rw [p1 j]
    by_cases h : a ≤ j ∧ j < N
    · have : a ≤ j ∧ j < a + (N - a) := by omega
      simp [h, this]
    · have : ¬ (a ≤ j ∧ j < a + (N - a)) := by omega
      simp [h, this]
  · intro j
    rw [p2 j]
    by_cases h : a + 1 ≤ j ∧ j ≤ N
    · have : a + 1 ≤ j ∧ j < a + 1 + (N - a) := by omega
      simp [h, this]
    · have : ¬ (a + 1 ≤ j ∧ j < a + 1 + (N - a)) := by omega
      simp [h, this]

/-! ### the model: the deficit handed down may be folded into the next layer's EV -/

theorem evapLayer_fold (dz wdt c wa wmin ev0 : ℚ) :
    evapLayer dz wdt (some c) wa wmin ev0 = evapLayer dz wdt none wa wmin (ev0 + c) := rfl

theorem evap_fold (dz wdt a1 c wa wmin ev0 : ℚ) (rest : List (ℚ × ℚ × ℚ)) :
    evap dz wdt a1 (some c) ((wa, wmin, ev0) :: rest) = evap dz wdt a1 none ((wa, wmin, ev0 + c) :: rest) := by
  unfold evap
  rfl


/-! ### one iteration of the evaporation cascade -/

/-- `x` plus an optional hand-down -/
def addOpt (x : ℚ) : Option ℚ → ℚ
  | some c => x + c
  | none => x

/-- the EV array after the dryness-limit block of layer `i` (water.go:878-882) -/
def evAfter (t : St ℚ) (i : Nat) : List ℚ :=
  if rd t.v_WATER_0 (i : Int) - rd t.l_EV (i : Int) * t.p_wdt < rd t.g_WMIN (i : Int) / 3 * t.g_DZ_Num then
    wr (wr t.l_EV ((i + 1 : Nat) : Int)
        (rd t.l_EV ((i + 1 : Nat) : Int) + (rd t.l_EV (i : Int) - rd t.v_WATER_0 (i : Int) + rd t.g_WMIN (i : Int) / 3 * t.g_DZ_Num)))
      (i : Int) (rd t.v_WATER_0 (i : Int) - rd t.g_WMIN (i : Int) / 3 * t.g_DZ_Num)
  else t.l_EV

/-- the model's view of layer `i` of state `t` -/
def layerE (t : St ℚ) (i : Nat) : ℚ × Option ℚ × ℚ :=
  evapLayer t.g_DZ_Num t.p_wdt none (rd t.v_WATER_0 (i : Int)) (rd t.g_WMIN (i : Int)) (rd t.l_EV (i : Int))

theorem loop5_body (m : MathFns ℚ) (t : St ℚ) (i N : Nat) (hN : t.g_N = (N : Int)) (hi : i < N) (hb : t.brk = false)
    (lW1 : N ≤ t.v_WATER_1.length) (lQ : N + 1 ≤ t.g_Q1.length) (lE : N + 1 ≤ t.l_EV.length) (lL : N ≤ t.l_LIMIT.length) :
    (t.v_a1 < (layerE t i).2.2 →
      ∃ L A Q, loop5 m (i : Int) t = { t with l_LIMIT := L, l_EV := evAfter t i, v_wlost := t.v_a1, v_WATER_1 := A, g_Q1 := Q, brk := true } ∧
        L.length = t.l_LIMIT.length ∧ A.length = t.v_WATER_1.length ∧ Q.length = t.g_Q1.length ∧
        (∀ j : Nat, rd A (j : Int) = if j = i then rd t.v_WATER_0 (i : Int) - t.v_a1
            else if i + 1 ≤ j ∧ j < N then rd t.v_WATER_0 (j : Int) else rd t.v_WATER_1 (j : Int)) ∧
        (∀ j : Nat, rd Q (j : Int) = if i + 1 ≤ j ∧ j ≤ N then 0 else rd t.g_Q1 (j : Int))) ∧
    (¬ t.v_a1 < (layerE t i).2.2 →
      ∃ L, loop5 m (i : Int) t = { t with l_LIMIT := L, l_EV := evAfter t i, v_wlost := (layerE t i).2.2, v_a1 := t.v_a1 - (layerE t i).2.2, g_Q1 := wr t.g_Q1 ((i + 1 : Nat) : Int) (-(t.v_a1 - (layerE t i).2.2)), v_WATER_1 := wr t.v_WATER_1 (i : Int) (rd t.v_WATER_0 (i : Int) - (layerE t i).2.2) } ∧
        L.length = t.l_LIMIT.length) := by
  have h0 : (0.0 : ℚ) = 0 := by norm_num
  have h3 : (3.0 : ℚ) = 3 := by norm_num
  have e1 : (i : Int) + 1 = ((i + 1 : Nat) : Int) := by push_cast; ring
  have lLi : i < t.l_LIMIT.length := by omega
  have lEi : i < t.l_EV.length := by omega
  have lEi1 : i + 1 < t.l_EV.length := by omega
  by_cases hlim : rd t.v_WATER_0 (i : Int) - rd t.l_EV (i : Int) * t.p_wdt < rd t.g_WMIN (i : Int) / 3 * t.g_DZ_Num
  · -- the layer is dried to a third of the wilting point, the rest of the demand moves down
    have hvc : (layerE t i).2.2 = rd t.v_WATER_0 (i : Int) - rd t.g_WMIN (i : Int) / 3 * t.g_DZ_Num := by
      simp only [layerE, evapLayer, hlim, ↓reduceIte]
    have hEv : evAfter t i = wr (wr t.l_EV ((i + 1 : Nat) : Int)
        (rd t.l_EV ((i + 1 : Nat) : Int) + (rd t.l_EV (i : Int) - rd t.v_WATER_0 (i : Int) + rd t.g_WMIN (i : Int) / 3 * t.g_DZ_Num)))
      (i : Int) (rd t.v_WATER_0 (i : Int) - rd t.g_WMIN (i : Int) / 3 * t.g_DZ_Num) := by
      simp only [evAfter, hlim, ↓reduceIte]
    have hL1 : rd (wr t.l_LIMIT (i : Int) (rd t.v_WATER_0 (i : Int) - rd t.l_EV (i : Int) * t.p_wdt)) (i : Int)
        = rd t.v_WATER_0 (i : Int) - rd t.l_EV (i : Int) * t.p_wdt := by rw [rd_wr_nat _ i i _ lLi]; simp
    have hEV1 : rd (wr t.l_EV ((i + 1 : Nat) : Int)
        (rd t.l_EV ((i + 1 : Nat) : Int) + (rd t.l_EV (i : Int) - rd t.v_WATER_0 (i : Int) + rd t.g_WMIN (i : Int) / 3 * t.g_DZ_Num))) (i : Int)
        = rd t.l_EV (i : Int) := by
      rw [rd_wr_nat _ (i + 1) i _ lEi1]; have : ¬ (i + 1 = i) := by omega
      simp [this]
    have hL2 : rd (wr (wr t.l_LIMIT (i : Int) (rd t.v_WATER_0 (i : Int) - rd t.l_EV (i : Int) * t.p_wdt)) (i : Int)
          (rd t.g_WMIN (i : Int) / 3 * t.g_DZ_Num)) (i : Int) = rd t.g_WMIN (i : Int) / 3 * t.g_DZ_Num := by
      rw [rd_wr_nat _ i i _ (by simpa using lLi)]; simp
    constructor
    · intro hlt
      rw [hvc] at hlt
      obtain ⟨A, Q, e6, lA, lQ6, p1, p2⟩ := loop6_spec m (i : Int)
        { t with l_LIMIT := wr (wr t.l_LIMIT (i : Int) (rd t.v_WATER_0 (i : Int) - rd t.l_EV (i : Int) * t.p_wdt)) (i : Int) (rd t.g_WMIN (i : Int) / 3 * t.g_DZ_Num), l_EV := evAfter t i, v_wlost := t.v_a1, v_WATER_1 := wr t.v_WATER_1 (i : Int) (rd t.v_WATER_0 (i : Int) - t.v_a1), g_Q1 := wr t.g_Q1 ((i + 1 : Nat) : Int) 0 }
        N (i + 1) hN (by simp only [length_wr]; exact lW1) (by simp only [length_wr]; exact lQ)
      refine ⟨wr (wr t.l_LIMIT (i : Int) (rd t.v_WATER_0 (i : Int) - rd t.l_EV (i : Int) * t.p_wdt)) (i : Int) (rd t.g_WMIN (i : Int) / 3 * t.g_DZ_Num),
        A, Q, ?_, by simp, by simpa using lA, by simpa using lQ6, ?_, ?_⟩
      · simp only [loop5, h0, h3, e1, hL1, hlim, ↓reduceIte, hEV1, hL2, hlt, hEv]
        rw [hEv] at e6
        rw [e6]
      · intro j
        rw [p1 j]
        simp only []
        by_cases hji : j = i
        · subst hji
          have : ¬ (j + 1 ≤ j ∧ j < N) := by omega
          simp only [this, if_false, if_true]
          rw [rd_wr_nat _ j j _ (by omega)]; simp
        · by_cases h2 : i + 1 ≤ j ∧ j < N
          · simp [hji, h2]
          · simp only [hji, h2, if_false]
            have : ¬ (i = j) := fun h => hji h.symm
            rw [rd_wr_nat _ i j _ (by omega)]; simp [this]
      · intro j
        rw [p2 j]
        simp only []
        by_cases h2 : i + 1 + 1 ≤ j ∧ j ≤ N
        · have : i + 1 ≤ j ∧ j ≤ N := by omega
          simp [h2, this]
        · simp only [h2, if_false]
          by_cases hji : i + 1 = j
          · subst hji
            have : i + 1 ≤ i + 1 ∧ i + 1 ≤ N := by omega
            simp only [this, and_self, if_true]
            rw [rd_wr_nat _ (i + 1) (i + 1) _ (by omega)]; simp
          · have : ¬ (i + 1 ≤ j ∧ j ≤ N) := by omega
            simp only [this, if_false]
            rw [rd_wr_nat _ (i + 1) j _ (by omega)]; simp [hji]
    · intro hlt
      rw [hvc] at hlt
      refine ⟨wr (wr t.l_LIMIT (i : Int) (rd t.v_WATER_0 (i : Int) - rd t.l_EV (i : Int) * t.p_wdt)) (i : Int) (rd t.g_WMIN (i : Int) / 3 * t.g_DZ_Num), ?_, by simp⟩
      simp only [loop5, h0, h3, e1, hL1, hlim, ↓reduceIte, hEV1, hL2, hlt, hEv, hvc, hb, Bool.false_eq_true]
  · -- the layer can give what is asked of it down to the dryness limit
    have hvc : (layerE t i).2.2 = rd t.v_WATER_0 (i : Int) - (rd t.v_WATER_0 (i : Int) - rd t.l_EV (i : Int) * t.p_wdt) := by
      simp only [layerE, evapLayer, hlim, ↓reduceIte]
    have hEv : evAfter t i = t.l_EV := by simp only [evAfter, hlim, ↓reduceIte]
    have hL1 : rd (wr t.l_LIMIT (i : Int) (rd t.v_WATER_0 (i : Int) - rd t.l_EV (i : Int) * t.p_wdt)) (i : Int)
        = rd t.v_WATER_0 (i : Int) - rd t.l_EV (i : Int) * t.p_wdt := by rw [rd_wr_nat _ i i _ lLi]; simp
    constructor
    · intro hlt
      rw [hvc] at hlt
      obtain ⟨A, Q, e6, lA, lQ6, p1, p2⟩ := loop6_spec m (i : Int)
        { t with l_LIMIT := wr t.l_LIMIT (i : Int) (rd t.v_WATER_0 (i : Int) - rd t.l_EV (i : Int) * t.p_wdt), v_wlost := t.v_a1, v_WATER_1 := wr t.v_WATER_1 (i : Int) (rd t.v_WATER_0 (i : Int) - t.v_a1), g_Q1 := wr t.g_Q1 ((i + 1 : Nat) : Int) 0 }
        N (i + 1) hN (by simp only [length_wr]; exact lW1) (by simp only [length_wr]; exact lQ)
      refine ⟨wr t.l_LIMIT (i : Int) (rd t.v_WATER_0 (i : Int) - rd t.l_EV (i : Int) * t.p_wdt),
        A, Q, ?_, by simp, by simpa using lA, by simpa using lQ6, ?_, ?_⟩
      · simp only [loop5, h0, h3, e1, hL1, hlim, ↓reduceIte, hlt, hEv]
        rw [e6]
      · intro j
        rw [p1 j]
        simp only []
        by_cases hji : j = i
        · subst hji
          have : ¬ (j + 1 ≤ j ∧ j < N) := by omega
          simp only [this, if_false, if_true]
          rw [rd_wr_nat _ j j _ (by omega)]; simp
        · by_cases h2 : i + 1 ≤ j ∧ j < N
          · simp [hji, h2]
          · simp only [hji, h2, if_false]
            have : ¬ (i = j) := fun h => hji h.symm
            rw [rd_wr_nat _ i j _ (by omega)]; simp [this]
      · intro j
        rw [p2 j]
        simp only []
        by_cases h2 : i + 1 + 1 ≤ j ∧ j ≤ N
        · have : i + 1 ≤ j ∧ j ≤ N := by omega
          simp [h2, this]
        · simp only [h2, if_false]
          by_cases hji : i + 1 = j
          · subst hji
            have : i + 1 ≤ i + 1 ∧ i + 1 ≤ N := by omega
            simp only [this, and_self, if_true]
            rw [rd_wr_nat _ (i + 1) (i + 1) _ (by omega)]; simp
          · have : ¬ (i + 1 ≤ j ∧ j ≤ N) := by omega
            simp only [this, if_false]
            rw [rd_wr_nat _ (i + 1) j _ (by omega)]; simp [hji]
    · intro hlt
      rw [hvc] at hlt
      refine ⟨wr t.l_LIMIT (i : Int) (rd t.v_WATER_0 (i : Int) - rd t.l_EV (i : Int) * t.p_wdt), ?_, by simp⟩
      simp only [loop5, h0, h3, e1, hL1, hlim, ↓reduceIte, hlt, hEv, hvc, hb, Bool.false_eq_true]


/-! ### the EV array after one iteration, in the model's terms -/

theorem evAfter_length (t : St ℚ) (i : Nat) : (evAfter t i).length = t.l_EV.length := by
  unfold evAfter; split <;> simp

theorem evAfter_self (t : St ℚ) (i : Nat) (h : i + 1 < t.l_EV.length) : rd (evAfter t i) (i : Int) = (layerE t i).1 := by
  unfold evAfter layerE evapLayer
  simp only []
  split
  · rw [rd_wr_nat _ i i _ (by simp; omega)]; simp
  · rfl

theorem evAfter_next (t : St ℚ) (i : Nat) (h : i + 1 < t.l_EV.length) :
    rd (evAfter t i) ((i + 1 : Nat) : Int) = addOpt (rd t.l_EV ((i + 1 : Nat) : Int)) (layerE t i).2.1 := by
  unfold evAfter layerE evapLayer
  simp only []
  split
  · rw [rd_wr_nat _ i (i + 1) _ (by simp; omega)]
    have : ¬ (i = i + 1) := by omega
    simp only [this, if_false]
    rw [rd_wr_nat _ (i + 1) (i + 1) _ h]
    simp [addOpt]
  · simp [addOpt]

theorem evAfter_other (t : St ℚ) (i j : Nat) (h : i + 1 < t.l_EV.length) (h1 : j ≠ i) (h2 : j ≠ i + 1) :
    rd (evAfter t i) (j : Int) = rd t.l_EV (j : Int) := by
  unfold evAfter
  split
  · rw [rd_wr_nat _ i j _ (by simp; omega)]
    have : ¬ (i = j) := fun h => h1 h.symm
    simp only [this, if_false]
    rw [rd_wr_nat _ (i + 1) j _ h]
    have : ¬ (i + 1 = j) := fun h => h2 h.symm
    simp [this]
  · rfl

/-- (WATER0, WMIN, EV) of the layers i, …, N−1 as the state holds them -/
def evRest (t : St ℚ) (i N : Nat) : List (ℚ × ℚ × ℚ) :=
  (List.range (N - i)).map (fun (d : Nat) =>
    (rd t.v_WATER_0 ((i + d : Nat) : Int), rd t.g_WMIN ((i + d : Nat) : Int), rd t.l_EV ((i + d : Nat) : Int)))

theorem evRest_nil (t : St ℚ) (N : Nat) : evRest t N N = [] := by simp [evRest]

theorem evRest_length (t : St ℚ) (i N : Nat) : (evRest t i N).length = N - i := by simp [evRest]

theorem evRest_cons (t : St ℚ) (i N : Nat) (h : i < N) :
    evRest t i N = (rd t.v_WATER_0 (i : Int), rd t.g_WMIN (i : Int), rd t.l_EV (i : Int)) :: evRest t (i + 1) N := by
  unfold evRest
  have e : N - i = (N - (i + 1)) + 1 := by omega
  rw [e, List.range_succ_eq_map, List.map_cons, List.map_map]
  simp only [Nat.add_zero, List.cons.injEq, true_and]
  apply List.map_congr_left
  intro d _
  simp only [Function.comp]
  have : i + (d + 1) = i + 1 + d := by omega
  rw [this]

theorem evRest_getD_fst (t : St ℚ) (i N d : Nat) (h : d < N - i) :
    ((evRest t i N).map (·.1)).getD d 0 = rd t.v_WATER_0 ((i + d : Nat) : Int) := by
  rw [getD_of_lt _ _ (by simpa [evRest] using h)]
  simp [evRest]

theorem evRest_getD_ev (t : St ℚ) (i N d : Nat) (h : d < N - i) :
    ((evRest t i N).map (·.2.2)).getD d 0 = rd t.l_EV ((i + d : Nat) : Int) := by
  rw [getD_of_lt _ _ (by simpa [evRest] using h)]
  simp [evRest]

theorem zeros3_getD (l : List (ℚ × ℚ × ℚ)) (d : Nat) : (l.map (fun _ => (0 : ℚ))).getD d 0 = 0 := by
  by_cases h : d < l.length
  · rw [getD_of_lt _ _ (by simpa using h)]; simp
  · simp [List.getD_eq_getElem?_getD, h]

/-- the remaining layers seen from the state after one iteration: the hand-down is already in `EV[i+1]` -/
theorem evRest_after (t t' : St ℚ) (i N : Nat) (hi : i + 1 < N) (lE : N + 1 ≤ t.l_EV.length)
    (hW0 : t'.v_WATER_0 = t.v_WATER_0) (hWm : t'.g_WMIN = t.g_WMIN) (hEV : t'.l_EV = evAfter t i) :
    evRest t' (i + 1) N = (rd t.v_WATER_0 ((i + 1 : Nat) : Int), rd t.g_WMIN ((i + 1 : Nat) : Int),
        addOpt (rd t.l_EV ((i + 1 : Nat) : Int)) (layerE t i).2.1) :: evRest t (i + 1 + 1) N := by
  rw [evRest_cons t' (i + 1) N hi, hW0, hWm, hEV, evAfter_next t i (by omega)]
  congr 1
  unfold evRest
  apply List.map_congr_left
  intro d _
  rw [hW0, hWm, hEV, evAfter_other t i (i + 1 + 1 + d) (by omega) (by omega) (by omega)]

theorem evap_after (t t' : St ℚ) (i N : Nat) (x : ℚ) (hi : i + 1 < N) (lE : N + 1 ≤ t.l_EV.length)
    (hW0 : t'.v_WATER_0 = t.v_WATER_0) (hWm : t'.g_WMIN = t.g_WMIN) (hEV : t'.l_EV = evAfter t i) :
    evap t.g_DZ_Num t.p_wdt x none (evRest t' (i + 1) N) = evap t.g_DZ_Num t.p_wdt x (layerE t i).2.1 (evRest t (i + 1) N) := by
  rw [evRest_after t t' i N hi lE hW0 hWm hEV, evRest_cons t (i + 1) N hi]
  cases h : (layerE t i).2.1 with
  | none => simp [addOpt]
  | some c => rw [evap_fold]; simp [addOpt]


/-! ### the evaporation cascade (water.go:876-897) -/

theorem evap_loop (m : MathFns ℚ) (N : Nat) : ∀ (n i : Nat) (t : St ℚ), i + n = N → t.g_N = (N : Int) → t.brk = false →
    N ≤ t.v_WATER_1.length → N + 1 ≤ t.g_Q1.length → N + 1 ≤ t.l_EV.length → N ≤ t.l_LIMIT.length →
    ∃ A Q E L a1' wl b, loopUpN (fun s => s.brk) (loop5 m) n (i : Int) t
        = { t with v_WATER_1 := A, g_Q1 := Q, l_EV := E, l_LIMIT := L, v_a1 := a1', v_wlost := wl, brk := b } ∧
      A.length = t.v_WATER_1.length ∧ Q.length = t.g_Q1.length ∧ E.length = t.l_EV.length ∧ L.length = t.l_LIMIT.length ∧
      (∀ j : Nat, rd A (j : Int) = if i ≤ j ∧ j < N then
          (evap t.g_DZ_Num t.p_wdt t.v_a1 none (evRest t i N)).1.getD (j - i) 0 else rd t.v_WATER_1 (j : Int)) ∧
      (∀ j : Nat, rd Q (j : Int) = if i + 1 ≤ j ∧ j ≤ N then
          (evap t.g_DZ_Num t.p_wdt t.v_a1 none (evRest t i N)).2.1.getD (j - (i + 1)) 0 else rd t.g_Q1 (j : Int)) ∧
      (∀ j : Nat, rd E (j : Int) = if i ≤ j ∧ j < N then
          (evap t.g_DZ_Num t.p_wdt t.v_a1 none (evRest t i N)).2.2.1.getD (j - i) 0
        else if j = N then addOpt (rd t.l_EV (N : Int)) (evap t.g_DZ_Num t.p_wdt t.v_a1 none (evRest t i N)).2.2.2
        else rd t.l_EV (j : Int)) := by
  intro n
  induction n with
  | zero =>
    intro i t hin hN hb lW1 lQ lE lL
    have hi : i = N := by omega
    subst hi
    refine ⟨t.v_WATER_1, t.g_Q1, t.l_EV, t.l_LIMIT, t.v_a1, t.v_wlost, t.brk, rfl, rfl, rfl, rfl, rfl, ?_, ?_, ?_⟩
    · intro j
      have : ¬ (i ≤ j ∧ j < i) := by omega
      simp [this]
    · intro j
      have : ¬ (i + 1 ≤ j ∧ j ≤ i) := by omega
      simp [this]
    · intro j
      have : ¬ (i ≤ j ∧ j < i) := by omega
      simp only [this, if_false, evRest_nil, evap, addOpt]
      by_cases hj : j = i
      · subst hj; simp
      · simp [hj]
  | succ n ih =>
    intro i t hin hN hb lW1 lQ lE lL
    have hiN : i < N := by omega
    obtain ⟨hbrk, hcont⟩ := loop5_body m t i N hN hiN hb lW1 lQ lE lL
    have hlay : evapLayer t.g_DZ_Num t.p_wdt none (rd t.v_WATER_0 (i : Int)) (rd t.g_WMIN (i : Int)) (rd t.l_EV (i : Int))
        = layerE t i := rfl
    rw [evRest_cons t i N hiN]
    simp only [loopUpN]
    by_cases hlt : t.v_a1 < (layerE t i).2.2
    · -- the demand is met in this layer: the rest of the profile is untouched, break
      obtain ⟨L, A, Q, e, lL', lA, lQ', p1, p2⟩ := hbrk hlt
      rw [e]
      simp only [↓reduceIte]
      refine ⟨A, Q, evAfter t i, L, t.v_a1, t.v_a1, true, rfl, lA, lQ', evAfter_length t i, lL', ?_, ?_, ?_⟩
      · intro j
        rw [p1 j]
        simp only [evap, hlay, hlt, ↓reduceIte]
        by_cases hji : j = i
        · subst hji
          have : j ≤ j ∧ j < N := by omega
          simp [this]
        · by_cases h2 : i + 1 ≤ j ∧ j < N
          · have h3 : i ≤ j ∧ j < N := by omega
            have hd' : j - i = (j - i - 1) + 1 := by omega
            simp only [hji, h2, h3, and_self, if_true, if_false]
            rw [hd', List.getD_cons_succ, evRest_getD_fst t (i + 1) N (j - i - 1) (by omega)]
            congr 2
            omega
          · have h3 : ¬ (i ≤ j ∧ j < N) := by omega
            simp only [hji, h2, h3, if_false]
      · intro j
        rw [p2 j]
        simp only [evap, hlay, hlt, ↓reduceIte]
        by_cases h2 : i + 1 ≤ j ∧ j ≤ N
        · simp only [h2, and_self, if_true]
          by_cases hji : j = i + 1
          · subst hji; simp
          · have hd' : j - (i + 1) = (j - (i + 1) - 1) + 1 := by omega
            rw [hd', List.getD_cons_succ, zeros3_getD]
        · simp only [h2, if_false]
      · intro j
        simp only [evap, hlay, hlt, ↓reduceIte]
        by_cases h1 : i ≤ j ∧ j < N
        · simp only [h1, and_self, if_true]
          by_cases hji : j = i
          · subst hji
            simp only [Nat.sub_self, List.getD_cons_zero]
            exact evAfter_self t j (by omega)
          · have hd' : j - i = (j - i - 1) + 1 := by omega
            rw [hd', List.getD_cons_succ]
            -- the EV values of the untouched layers: EV[i+1] carries the hand-down
            by_cases hj1 : j = i + 1
            · subst hj1
              have hne : i + 1 < N := h1.2
              rw [evRest_cons t (i + 1) N hne]
              simp only [Nat.add_sub_cancel_left, Nat.sub_self]
              rw [evAfter_next t i (by omega)]
              cases hc : (layerE t i).2.1 with
              | none => simp [addOpt]
              | some c => simp [addOpt]
            · rw [evAfter_other t i j (by omega) hji hj1]
              have hne : i + 1 < N := by omega
              rw [evRest_cons t (i + 1) N hne]
              have hd2 : j - i - 1 = (j - i - 2) + 1 := by omega
              cases hc : (layerE t i).2.1 with
              | none =>
                simp only []
                rw [← evRest_cons t (i + 1) N hne, evRest_getD_ev t (i + 1) N (j - i - 1) (by omega)]
                congr 2
                omega
              | some c =>
                simp only []
                rw [hd2, List.getD_cons_succ, evRest_getD_ev t (i + 1 + 1) N (j - i - 2) (by omega)]
                congr 2
                omega
        · simp only [h1, if_false]
          by_cases hjN : j = N
          · subst hjN
            simp only [if_true]
            by_cases hlast : i + 1 = j
            · -- the last layer: the hand-down went into the slot behind it
              have : evRest t (i + 1) j = [] := by rw [hlast]; exact evRest_nil t j
              rw [this]
              simp only []
              rw [← hlast]
              exact evAfter_next t i (by omega)
            · have hne : i + 1 < j := by omega
              rw [evRest_cons t (i + 1) j hne]
              simp only [addOpt]
              exact evAfter_other t i j (by omega) (by omega) (by omega)
          · simp only [hjN, if_false]
            exact evAfter_other t i j (by omega) (by omega) (by omega)
    · -- the layer gives what it can, the rest of the demand moves down
      obtain ⟨L, e, lL'⟩ := hcont hlt
      rw [e]
      have hstate : ∃ t' : St ℚ, t' = { t with l_LIMIT := L, l_EV := evAfter t i, v_wlost := (layerE t i).2.2, v_a1 := t.v_a1 - (layerE t i).2.2, g_Q1 := wr t.g_Q1 ((i + 1 : Nat) : Int) (-(t.v_a1 - (layerE t i).2.2)), v_WATER_1 := wr t.v_WATER_1 (i : Int) (rd t.v_WATER_0 (i : Int) - (layerE t i).2.2) } := ⟨_, rfl⟩
      obtain ⟨t', ht'⟩ := hstate
      rw [← ht']
      have fb : t'.brk = false := by rw [ht']; exact hb
      simp only [fb, Bool.false_eq_true, ↓reduceIte]
      have e1 : (i : Int) + 1 = ((i + 1 : Nat) : Int) := by push_cast; ring
      rw [e1]
      have fN : t'.g_N = (N : Int) := by rw [ht']; exact hN
      have fW1 : t'.v_WATER_1 = wr t.v_WATER_1 (i : Int) (rd t.v_WATER_0 (i : Int) - (layerE t i).2.2) := by rw [ht']
      have fQ : t'.g_Q1 = wr t.g_Q1 ((i + 1 : Nat) : Int) (-(t.v_a1 - (layerE t i).2.2)) := by rw [ht']
      have fE : t'.l_EV = evAfter t i := by rw [ht']
      have fL : t'.l_LIMIT = L := by rw [ht']
      have fa : t'.v_a1 = t.v_a1 - (layerE t i).2.2 := by rw [ht']
      have fdz : t'.g_DZ_Num = t.g_DZ_Num := by rw [ht']
      have fwdt : t'.p_wdt = t.p_wdt := by rw [ht']
      have fW0 : t'.v_WATER_0 = t.v_WATER_0 := by rw [ht']
      have fWm : t'.g_WMIN = t.g_WMIN := by rw [ht']
      obtain ⟨A, Q, E, L2, a1f, wlf, bf, ef, lA, lQ', lE', lL2, p1, p2, p3⟩ := ih (i + 1) t' (by omega) fN fb
        (by rw [fW1]; simp only [length_wr]; exact lW1) (by rw [fQ]; simp only [length_wr]; exact lQ)
        (by rw [fE, evAfter_length]; exact lE) (by rw [fL, lL']; exact lL)
      rw [ef]
      rw [fW1] at lA p1
      rw [fQ] at lQ' p2
      rw [fE] at lE' p3
      rw [fL] at lL2
      rw [fdz, fwdt, fa] at p1 p2 p3
      have li : i < t.v_WATER_1.length := by omega
      have lq : i + 1 < t.g_Q1.length := by omega
      -- the model's recursion from the state after the iteration
      have hr : i + 1 < N → evap t.g_DZ_Num t.p_wdt (t.v_a1 - (layerE t i).2.2) none (evRest t' (i + 1) N)
          = evap t.g_DZ_Num t.p_wdt (t.v_a1 - (layerE t i).2.2) (layerE t i).2.1 (evRest t (i + 1) N) :=
        fun h => evap_after t t' i N _ h lE fW0 fWm fE
      refine ⟨A, Q, E, L2, a1f, wlf, bf, by rw [ht'], by simpa using lA, by simpa using lQ', by rw [lE', evAfter_length],
        by rw [lL2, lL'], ?_, ?_, ?_⟩
      · intro j
        rw [p1 j]
        simp only [evap, hlay, hlt, ↓reduceIte]
        by_cases hj : i + 1 ≤ j ∧ j < N
        · have hj' : i ≤ j ∧ j < N := by omega
          have hd' : j - i = (j - (i + 1)) + 1 := by omega
          simp only [hj, hj', and_self, if_true]
          rw [hd', List.getD_cons_succ, hr (by omega)]
        · simp only [hj, if_false]
          by_cases hji : i = j
          · subst hji
            have hj' : i ≤ i ∧ i < N := by omega
            simp only [hj', and_self, if_true, Nat.sub_self, List.getD_cons_zero]
            rw [rd_wr_nat _ i i _ li]; simp
          · have hj' : ¬ (i ≤ j ∧ j < N) := by omega
            simp only [hj', if_false]
            rw [rd_wr_nat _ i j _ li]; simp [hji]
      · intro j
        rw [p2 j]
        simp only [evap, hlay, hlt, ↓reduceIte]
        by_cases hj : i + 1 + 1 ≤ j ∧ j ≤ N
        · have hj' : i + 1 ≤ j ∧ j ≤ N := by omega
          have hd' : j - (i + 1) = (j - (i + 1 + 1)) + 1 := by omega
          simp only [hj, hj', and_self, if_true]
          rw [hd', List.getD_cons_succ, hr (by omega)]
        · simp only [hj, if_false]
          by_cases hji : i + 1 = j
          · subst hji
            have hj' : i + 1 ≤ i + 1 ∧ i + 1 ≤ N := by omega
            simp only [hj', and_self, if_true, Nat.sub_self, List.getD_cons_zero]
            rw [rd_wr_nat _ (i + 1) (i + 1) _ lq]; simp
          · have hj' : ¬ (i + 1 ≤ j ∧ j ≤ N) := by omega
            simp only [hj', if_false]
            rw [rd_wr_nat _ (i + 1) j _ lq]; simp [hji]
      · intro j
        rw [p3 j]
        simp only [evap, hlay, hlt, ↓reduceIte]
        by_cases hj : i + 1 ≤ j ∧ j < N
        · have hj' : i ≤ j ∧ j < N := by omega
          have hd' : j - i = (j - (i + 1)) + 1 := by omega
          simp only [hj, hj', and_self, if_true]
          rw [hd', List.getD_cons_succ, hr (by omega)]
        · simp only [hj, if_false]
          by_cases hji : j = i
          · subst hji
            have hj' : j ≤ j ∧ j < N := by omega
            have hjN : ¬ (j = N) := by omega
            simp only [hj', and_self, if_true, Nat.sub_self, List.getD_cons_zero, hjN, if_false]
            exact evAfter_self t j (by omega)
          · have hj' : ¬ (i ≤ j ∧ j < N) := by omega
            simp only [hj', if_false]
            by_cases hjN : j = N
            · subst hjN
              simp only [if_true]
              by_cases hlast : i + 1 = j
              · have hnil : evRest t' (i + 1) j = [] := by rw [hlast]; exact evRest_nil t' j
                have hnil2 : evRest t (i + 1) j = [] := by rw [hlast]; exact evRest_nil t j
                rw [hnil, hnil2]
                simp only [evap, addOpt]
                rw [← hlast]
                exact evAfter_next t i (by omega)
              · rw [hr (by omega), evAfter_other t i j (by omega) (by omega) (by omega)]
            · simp only [hjN, if_false]
              by_cases hj1 : j = i + 1
              · exfalso; omega
              · exact evAfter_other t i j (by omega) hji hj1

end Hermes.ImpWater
