/-
Model of the automatic-fertilisation branch of `Nitro` (hermes/nitro.go:71-229, `else if g.AUTOFERT`,
executed in the first sub-step of every day) and of the pure part of the `automan.txt` reader that
feeds it (hermes/input.go:508-541, 556-569, `dueng` input.go:1550-1567).  Core Lean only, executable,
polymorphic over the arithmetic (driver ops `autofert.*`).

The branch is a state machine per rotation entry:
* organic fertiliser of the PREVIOUS entry at its time code "H": on the day `ZTDG[AKF-1]` (set by the
  harvest step to harvest day + ORGDOY, nitro.go:465-467) — `NFOS[0] += NSAS`, `NAOS[0] += NLAS`,
  `DSUMM += NDIR`, one management event;
* from the sowing day on (`SAAT[AKF] > 0`, `zeit >= SAAT[AKF]`):
  - organic fertiliser of the current entry, taken when `ODU[AKF] == 1` and its time code is "S"
    (`ORGTIME[AKF]`, nitro.go:92 after the fix "organic fertiliser at sowing is keyed by the entry being sown"):
    on the sowing day `ZTDG[AKF] = zeit + ORGDOY[AKF]`, on the day `ZTDG[AKF]` the pools are raised, the mineral
    part goes straight into `C1[0]` (clamped at 0), no management event, `DSUMM` untouched;
  - three mineral doses; dose k is triggered by a development stage (`NDOYk < 10`: `INTWICK == NDOYk`; dose 1
    with `NDOY1 == 0`: on the sowing day) or by a day of the year (`NDOYk >= 10`: doses 2, 3 on `TAG == NDOYk`;
    dose 1 on the first day with `NDOY1 < TAG < 210`, `NDOY1 < 365`, a five-day temperature sum above 20 and
    little rain); the amount is `max(NDEMk − Nmin, 0)` with Nmin of the top 3 layers (dose 1) or of the
    rooted layers up to 9 (doses 2, 3); a stage-triggered dose re-arms with `NDOYk := 0`, the day-of-year
    dose 1 with `NDOY1 := 370`; the day-of-year doses 2, 3 are not re-armed.
`NDOYk`, `INTWICK.Num`, `TAG.Num` are float64 in the code and whole numbers in every table the reader
accepts into them (two- and three-character columns): they are `Nat` here.
-/
import HermesModel.Num
import HermesModel.Rotation
import HermesModel.Schedule
namespace Hermes.AutoFert
open Hermes.Rotation (autoN)

/-- `ORGTIME[i]` (input.go:513,517: one character of the row, "0" without organic fertiliser) -/
inductive OrgTime where
  | other | H | S
  deriving DecidableEq, Repr

inductive Kind where
  | orgH | orgS | min1 | min2 | min3
  deriving DecidableEq, Repr

/-- what the branch reads of one rotation entry (one row of automan.txt after `Input`) -/
structure Row (α : Type) where
  odu : Bool          -- ODU[i] == 1
  orgtime : OrgTime   -- ORGTIME[i]
  orgdoy : Nat        -- ORGDOY[i]
  nsas : α            -- NSAS[i]
  nlas : α            -- NLAS[i]
  ndir : α            -- NDIR[i]
  dgart : Nat         -- DGART[i] (fertiliser name, as an id)
  ndem1 : α
  ndem2 : α
  ndem3 : α

/-- the variables the branch writes -/
structure St (α : Type) where
  ndoy1 : Nat         -- NDOY1[AKF]
  ndoy2 : Nat
  ndoy3 : Nat
  ztdg : Nat          -- ZTDG[AKF]
  nfos0 : α           -- NFOS[0]
  naos0 : α           -- NAOS[0]
  c10 : α             -- C1[0]
  dsumm : α
  nfertsim : α
  dungart : Nat       -- ln.DUNGART
  domeng1 : α         -- ln.DOMENG1
  dmeng1 : α          -- ln.DMENG1
  dmeng2 : α
  dmeng3 : α

/-- what one call reads besides -/
structure In (α : Type) where
  zeit : Nat
  tag : Nat           -- TAG.Num (day of the year)
  intwick : Nat       -- INTWICK.Num (0 = no crop, 1 = sown …)
  wurz : Nat          -- WURZ (rooted layers)
  akf : Nat           -- AKF.Index
  saat : Nat          -- SAAT[AKF]
  ztdgPrev : Nat      -- ZTDG[AKF-1]
  cur : Row α         -- entry AKF
  prev : Row α        -- entry AKF-1
  c1rest : List α     -- C1[1..8]
  t0 : α              -- TEMP[TAG], TEMP[TAG-1] … TEMP[TAG-4]
  t1 : α
  t2 : α
  t3 : α
  t4 : α
  rain0 : α           -- REGEN[TAG]
  rain1 : α           -- REGEN[TAG-1]
  rainNext : α        -- REGEN[TAG+1]

/-- one application: the mineral N (dose, or NDIR of the organic fertiliser), the fast and slow organic N
and the fertiliser name of the event -/
structure App (α : Type) where
  kind : Kind
  amount : α
  fast : α
  slow : α
  name : Nat

/-- the "S" application writes no management event (nitro.go:96-106), every other application one -/
def Kind.hasEvent : Kind → Bool
  | .orgS => false
  | _ => true

section
variable {α : Type} [Add α] [Sub α] [Mul α] [Div α] [Neg α] [LT α] [DecidableLT α]
  [OfNat α 0] [OfNat α 1] [OfScientific α]

def addIf (b : Bool) (x y : α) : α := if b then x + y else x
def opt {β : Type} (b : Bool) (x : β) : List β := if b then [x] else []

/-- nitro.go:74-76 -/
def trigH (i : In α) : Bool :=
  decide (1 ≤ i.akf) && i.prev.odu && decide (i.prev.orgtime = OrgTime.H) && decide (i.zeit = i.ztdgPrev)

/-- nitro.go:90-91 -/
def sown (i : In α) : Bool := decide (0 < i.saat) && decide (i.saat ≤ i.zeit)

/-- nitro.go:92 -/
def condS (i : In α) : Bool := i.cur.odu && decide (i.cur.orgtime = OrgTime.S)

/-- nitro.go:93-95 -/
def ztdgS (i : In α) (ztdg : Nat) : Nat :=
  if condS i && decide (i.zeit = i.saat) then i.zeit + i.cur.orgdoy else ztdg

/-- nitro.go:96 -/
def trigS (i : In α) (ztdg : Nat) : Bool := condS i && decide (i.zeit = ztdgS i ztdg)

/-- nitro.go:102-105 -/
def clamp0 (x : α) : α := if x < 0 then 0 else x
def c10S (i : In α) (fS : Bool) (c10 : α) : α := if fS then clamp0 (c10 + i.cur.ndir) else c10

/-- nitro.go:144-145 -/
def weatherOk (i : In α) : Bool :=
  decide ((20.0 : α) < i.t0 + i.t1 + i.t2 + i.t3 + i.t4) && decide (i.rain0 + i.rain1 < (0.4 : α)) &&
  decide (i.rainNext < (4.0 : α))

/-- nitro.go:109-111, 126, 143 -/
def fire1 (i : In α) (ndoy1 : Nat) : Bool :=
  if ndoy1 < 10 then (if ndoy1 = 0 then decide (i.zeit = i.saat) else decide (i.intwick = ndoy1))
  else decide (ndoy1 < i.tag) && decide (i.tag < 210) && decide (ndoy1 < 365) && weatherOk i

/-- nitro.go:136, 155 (`NDOY1 == 0` on the sowing day stays 0) -/
def rearm1 (n : Nat) : Nat := if n < 10 then 0 else 370

/-- nitro.go:163-164, 180 / 195-196, 212 -/
def fireK (i : In α) (n : Nat) : Bool := if n < 10 then decide (i.intwick = n) else decide (i.tag = n)

/-- nitro.go:174, 206 (no assignment in the day-of-year branch) -/
def rearmK (n : Nat) : Nat := if n < 10 then 0 else n

/-- nitro.go:112-115, 165-168: mineral N of the first `k` layers, summed from 0 downwards -/
def nminTop (k : Nat) (c10 : α) (rest : List α) : α := sumFrom 0 ((c10 :: rest).take k)

/-- is the "S" application made by this call (nitro.go:90-96) -/
def firesS (i : In α) (s : St α) : Bool := sown i && trigS i s.ztdg

/-- `C1[0]` behind the organic part of the call: what the mineral doses are measured against -/
def c10After (i : In α) (s : St α) : α := c10S i (firesS i s) s.c10

/-- nitro.go:112-116, 127-131, 146-150 / 165-169, 181-185 / 197-201, 213-217: the amounts of the three doses -/
def dose1 (i : In α) (s : St α) : α := autoN i.cur.ndem1 (nminTop 3 (c10After i s) i.c1rest)
def dose2 (i : In α) (s : St α) : α := autoN i.cur.ndem2 (nminTop (min i.wurz 9) (c10After i s) i.c1rest)
def dose3 (i : In α) (s : St α) : α := autoN i.cur.ndem3 (nminTop (min i.wurz 9) (c10After i s) i.c1rest)

/-- `ln.DUNGART` behind the organic part of the call: the fertiliser name of the events of the mineral doses -/
def dungAfter (i : In α) (s : St α) : Nat :=
  if firesS i s then i.cur.dgart else if trigH i then i.prev.dgart else s.dungart

/-- One call of the branch in sub-step 1: new state and the applications in the order they are made. -/
def step (i : In α) (s : St α) : St α × List (App α) :=
  let fH := trigH i
  let g := sown i
  let fS := firesS i s
  let f1 := g && fire1 i s.ndoy1
  let f2 := g && fireK i s.ndoy2
  let f3 := g && fireK i s.ndoy3
  ({ ndoy1 := if f1 then rearm1 s.ndoy1 else s.ndoy1
     ndoy2 := if f2 then rearmK s.ndoy2 else s.ndoy2
     ndoy3 := if f3 then rearmK s.ndoy3 else s.ndoy3
     ztdg := if g then ztdgS i s.ztdg else s.ztdg
     nfos0 := addIf fS (addIf fH s.nfos0 i.prev.nsas) i.cur.nsas
     naos0 := addIf fS (addIf fH s.naos0 i.prev.nlas) i.cur.nlas
     c10 := c10After i s
     dsumm := addIf f3 (addIf f2 (addIf f1 (addIf fH s.dsumm i.prev.ndir) (dose1 i s)) (dose2 i s)) (dose3 i s)
     nfertsim := addIf f3 (addIf f2 (addIf f1 s.nfertsim (dose1 i s)) (dose2 i s)) (dose3 i s)
     dungart := dungAfter i s
     domeng1 := if fS then i.cur.nsas + i.cur.nlas + i.cur.ndir
                else if fH then i.prev.nsas + i.prev.nlas + i.prev.ndir else s.domeng1
     dmeng1 := if f1 then dose1 i s else s.dmeng1
     dmeng2 := if f2 then dose2 i s else s.dmeng2
     dmeng3 := if f3 then dose3 i s else s.dmeng3 },
   opt fH ⟨Kind.orgH, i.prev.ndir, i.prev.nsas, i.prev.nlas, i.prev.dgart⟩ ++
   opt fS ⟨Kind.orgS, i.cur.ndir, i.cur.nsas, i.cur.nlas, i.cur.dgart⟩ ++
   opt f1 ⟨Kind.min1, dose1 i s, 0, 0, dungAfter i s⟩ ++ opt f2 ⟨Kind.min2, dose2 i s, 0, 0, dungAfter i s⟩ ++
   opt f3 ⟨Kind.min3, dose3 i s, 0, 0, dungAfter i s⟩)

/-- The days of one rotation entry: the day loop of run.go calls the branch once per day with
`zeit`, `zeit+1`, …; the applications are tagged with their day. -/
def run : Nat → List (In α) → St α → St α × List (Nat × App α)
  | _, [], s => (s, [])
  | zeit, d :: ds, s =>
    let r := step { d with zeit := zeit } s
    let q := run (zeit + 1) ds r.1
    (q.1, r.2.map (fun a => (zeit, a)) ++ q.2)

/-- number of applications of one kind in a run -/
def fired (k : Kind) (out : List (Nat × App α)) : Nat := out.countP (fun x => decide (x.2.kind = k))

/-! ### the reader (pure part) -/

/-- input.go:509-541, 1550-1567: amounts (NSAS, NLAS, NDIR) of the organic fertiliser of a rotation entry — `dueng`
on the amount column (no global factor) and the row of FERTILIZ.TXT (`none`: name not in the table, the cells keep
their zeros); without organic fertiliser (`ODU != 1`) zeros.  For the FIRST entry of the field (the pre-crop) the
reader calls `dueng` with the one-based index (input.go:562), which finds no name there, and `residi`
(input.go:1460-1498, called after the rotation file is read) then writes the harvest residues of the pre-crop into
the same cells: whatever the table says, the cells of entry 0 hold `resid`. -/
def orgAmounts (first odu : Bool) (dgmg : α) (t : Option (Schedule.FertRow α)) (resid : α × α × α) : α × α × α :=
  match first, odu, t with
  | true, _, _ => resid
  | false, true, some row =>
    let s := Schedule.dueng dgmg 1 row
    (s.nsas, s.nlas, s.ndir)
  | false, _, _ => (0, 0, 0)

end

/-- `strings.TrimSpace` + unsigned decimal digits (what `ValAsFloat` yields on the whole-number columns) -/
def parseNatField (cs : List Char) : Option Nat :=
  let t := (cs.dropWhile (· = ' ')).reverse.dropWhile (· = ' ') |>.reverse
  if t.isEmpty then none
  else t.foldl (fun acc c => match acc with
    | some a => if '0' ≤ c ∧ c ≤ '9' then some (a * 10 + (c.toNat - 48)) else none
    | none => none) (some 0)

/-- input.go:525-539: a three-character stage column: "S" + stage number, or a day of the year / "0" -/
def ndoyOfField (cs : List Char) : Option Nat :=
  match cs with
  | 'S' :: r => parseNatField (r.take 2)
  | _ => parseNatField (cs.take 3)

/-- input.go:513,560: the time-code character -/
def orgTimeOfChar (c : Char) : OrgTime := if c = 'H' then .H else if c = 'S' then .S else .other

/-- input.go:510-518, 557-565: the time code of a rotation entry ("0" without organic fertiliser) -/
def orgTimeOfRow (odu : Bool) (c : Char) : OrgTime := if odu then orgTimeOfChar c else .other

end Hermes.AutoFert
