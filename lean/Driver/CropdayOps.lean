import HermesModel.Proto
import HermesModel.CropDay
open Hermes Hermes.Proto

namespace Hermes.Driver

def popNats_Cd : Nat → Toks → Option (List Nat × Toks)
  | 0, r => some ([], r)
  | n + 1, r => do
    let (x, r) ← popNat r
    let (xs, r) ← popNats_Cd n r
    pure (x :: xs, r)

/-- common head of `cropday.radia`, `cropday.radia.args`, `cropday.grow`:
`co2meth temptyp vswellOne  dl dle dlp rdn drc co2konz temp mintmp maxamax rad sund lai lured trrel dryswell dt radsum
parsum pariOld  pow2co ktvmax ktkc ktko t2 t3 cosSC sslae logX logY e8 eC eO teff` -/
def popRadia (toks : Toks) : Option (CropDay.RadiaIn Float × CropDay.RadiaT Float × Toks) := do
  let (co2meth, r) ← popNat toks
  let (temptyp, r) ← popNat r
  let (vs1, r) ← popNat r
  let (sc, r) ← popFloats 19 r
  let (tr, r) ← popFloats 14 r
  match sc, tr with
  | [dl, dle, dlp, rdn, drc, co2konz, temp, mintmp, maxamax, rad, sund, lai, lured, trrel, dryswell, dt, radsum, parsum, pariOld],
    [pow2co, ktvmax, ktkc, ktko, t2, t3, cosSC, sslae, logX, logY, e8, eC, eO, teff] =>
    some ({ dl, dle, dlp, rdn, drc, co2meth, temptyp, co2konz, temp, mintmp, maxamax, rad, sund, lai, lured, trrel, dryswell,
            vswellOne := vs1 == 1, dt, radsum, parsum, pariOld, worg := [], mairt := [], mantOld := [] },
          { pow2co, ktvmax, ktkc, ktko, t2, t3, cosSC, sslae, logX, logY, e8, eC, eO, teff }, r)
  | _, _ => none

/-- `cropday.radia <head> nrkom worg[nrkom] mairt[nrkom] mantOld[nrkom]`
answer: `dle dlp gphot maint mant[nrkom] pari parsum radsum sund` -/
def cropdayRadia (toks : Toks) : Option String := do
  let (ri, rt, r) ← popRadia toks
  let (n, r) ← popNat r
  let (worg, r) ← popFloats n r
  let (mairt, r) ← popFloats n r
  let (mantOld, _) ← popFloats n r
  let o := CropDay.radia { ri with worg, mairt, mantOld } rt
  some (fmtFloats ([o.dle, o.dlp, o.gphot, o.maint] ++ o.mant ++ [o.pari, o.parsum, o.radsum, o.sund]))

/-- `cropday.radia.args <head>` → `argX argY argC argO` (the arguments of the log / exp calls, evaluated with
the transcendental values given so far) -/
def cropdayRadiaArgs (toks : Toks) : Option String := do
  let (ri, rt, _) ← popRadia toks
  some (fmtFloats [CropDay.argX ri rt, CropDay.argY ri rt, CropDay.argC ri rt, CropDay.argO ri rt])

/-- `cropday.nfn ngefkt wrsg  phyllo obmas worg3 org rga tendsum gehminOld gehmaxOld tmin tmax` → `gehmin gehmax` -/
def cropdayNfn (toks : Toks) : Option String := do
  let (ngefkt, r) ← popNat toks
  let (wrsg, r) ← popNat r
  let (v, _) ← popFloats 10 r
  match v with
  | [phyllo, obmas, worg3, org, rga, tendsum, gehminOld, gehmaxOld, tmin, tmax] =>
    let o := CropDay.nfn { ngefkt, wrsg := wrsg == 1, phyllo, obmas, worg3, org, rga, tendsum, gehminOld, gehmaxOld, tmin, tmax }
    some (fmtFloats [o.1, o.2])
  | _ => none

structure GrowOrg where
  mairt : Float
  mantOld : Float
  par : Crop.OrganPar Float
  w : Float
  d : Float
  wd : Float

def popGrowOrgs : Nat → Toks → Option (List GrowOrg × Toks)
  | 0, r => some ([], r)
  | n + 1, r => do
    let (v, r) ← popFloats 9 r
    let (xs, r) ← popGrowOrgs n r
    match v with
    | [mairt, mantOld, proPrev, proCur, deadPrev, deadCur, w, d, wd] =>
      pure ({ mairt, mantOld, par := { mant := 0, proPrev, proCur, deadPrev, deadCur }, w, d, wd } :: xs, r)
    | _ => none

/-- `cropday.grow <head> nrkom lastStage nAbove above[nAbove]  reduk sumI tsumI laifktPrev laifktCur laifkt0 gehalt laimax
pesum aspoo gppsum  (mairt mantOld proPrev proCur deadPrev deadCur worg dgorgOld wdorg)[nrkom]`
answer: `worg'[n] gorg'[n] dgorg'[n] lai' laimax' pesum' aspoo' obmas' gphot maint gppdaily gppsum' respday wdorg'[n]` -/
def cropdayGrow (toks : Toks) : Option String := do
  let (ri, rt, r) ← popRadia toks
  let (n, r) ← popNat r
  let (last, r) ← popNat r
  let (na, r) ← popNat r
  let (above, r) ← popNats_Cd na r
  let (sc, r) ← popFloats 11 r
  let (orgs, _) ← popGrowOrgs n r
  match sc with
  | [reduk, sumI, tsumI, laifktPrev, laifktCur, laifkt0, gehalt, laimax, pesum, aspoo, gppsum] =>
    let ri := { ri with worg := orgs.map (·.w), mairt := orgs.map (·.mairt), mantOld := orgs.map (·.mantOld) }
    let e : Crop.OrganEnv Float := { dt := ri.dt, gtw := 0, maint := 0, reduk, sumI, tsumI, lastStage := last == 1, laifktPrev, laifktCur, laifkt0 }
    let o := CropDay.growDay ri rt e aspoo gppsum gehalt laimax pesum above (orgs.map (fun x => (x.par, x.w, x.d))) (orgs.map (·.wd))
    some (fmtFloats (o.org.worg ++ o.org.gorg ++ o.org.dgorg ++ [o.org.lai, o.org.laimax, o.org.pesum, o.org.aspoo, o.org.obmas,
      o.rad.gphot, o.rad.maint, o.gppdaily, o.gppsum, o.respday] ++ o.wdorg))
  | _ => none

def popPairs_Cd : Nat → Toks → Option (List (Float × Float) × Toks)
  | 0, r => some ([], r)
  | n + 1, r => do
    let (a, r) ← popFloat r
    let (b, r) ← popFloat r
    let (xs, r) ← popPairs_Cd n r
    pure ((a, b) :: xs, r)

def popSoil_Cd : Nat → Toks → Option (List (CropDay.SoilL Float) × Toks)
  | 0, r => some ([], r)
  | n + 1, r => do
    let (v, r) ← popFloats 5 r
    let (xs, r) ← popSoil_Cd n r
    match v with
    | [c1, tp, wg, ad, ewg] => pure ({ c1, tp, wg, ad, ewg } :: xs, r)
    | _ => none

/-- `cropday.uptake beet legum active maxupClass wurz nsoil n  grw dt dz gehmax obmas wumas worg3 wgmax pesum phyllo tendsum
massum diffsum wumasPre obmasPre gehobPre wugehPre  (eq eqm)[wurz]  (c1 tp wg ad ewg)[nsoil]  sq[nsoil]  peOld[n]`
answer: `wudich[wurz] wuant[wurz] wulaen dtgesn pe[n] sumpe nfix massum diffsum wugeh gehob` -/
def cropdayUptake (toks : Toks) : Option String := do
  let (beet, r) ← popNat toks
  let (legum, r) ← popNat r
  let (active, r) ← popNat r
  let (maxupClass, r) ← popNat r
  let (wurz, r) ← popNat r
  let (nsoil, r) ← popNat r
  let (n, r) ← popNat r
  let (sc, r) ← popFloats 17 r
  let (eqs, r) ← popPairs_Cd wurz r
  let (soil, r) ← popSoil_Cd nsoil r
  let (sq, r) ← popFloats nsoil r
  let (peOld, _) ← popFloats n r
  match sc with
  | [grw, dt, dz, gehmax, obmas, wumas, worg3, wgmax, pesum, phyllo, tendsum, massum, diffsum, wumasPre, obmasPre, gehobPre, wugehPre] =>
    let ui : CropDay.UptakeIn Float :=
      { beet := beet == 1, legum := legum == 1, active := active == 1, maxupClass := maxupClass, grw := grw, dt := dt, dz := dz,
        gehmax := gehmax, obmas := obmas, wumas := wumas, worg3 := worg3, wgmax := wgmax, pesum := pesum, phyllo := phyllo,
        tendsum := tendsum, massum := massum, diffsum := diffsum, wumasPre := wumasPre, obmasPre := obmasPre, gehobPre := gehobPre,
        wugehPre := wugehPre, eqs := eqs, soil := soil, sq := sq, peOld := peOld }
    let o := CropDay.uptakeDay ui
    some (fmtFloats (o.wudich ++ o.wuant ++ [o.wulaen, o.dtgesn] ++ o.pe ++ [o.core.sumpe, o.core.nfix, o.core.massum, o.core.diffsum, o.wugeh, o.gehob]))
  | _ => none

def cropdayOps (toks : List String) : String :=
  match toks with
  | "cropday.radia" :: rest => (cropdayRadia rest).getD "bad-op"
  | "cropday.radia.args" :: rest => (cropdayRadiaArgs rest).getD "bad-op"
  | "cropday.nfn" :: rest => (cropdayNfn rest).getD "bad-op"
  | "cropday.grow" :: rest => (cropdayGrow rest).getD "bad-op"
  | "cropday.uptake" :: rest => (cropdayUptake rest).getD "bad-op"
  | _ => "bad-op"

end Hermes.Driver
