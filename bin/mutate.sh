#!/bin/sh
# usage: bin/mutate.sh <patch.diff> <Cxx> [tier]  — apply a patch to /repo, run the check, undo the patch.
# Prints the check's verdict lines; exit 0 if the check flagged the change (VIOLATION), 1 if it did not.
P="$(realpath "$1")"; ID="$2"; TIER="${3:-quick}"
DIR="$(cd "$(dirname "$0")/.." && pwd)"
if ! git -C /repo apply "$P" 2>/dev/null; then
  git -C /repo apply --3way "$P" >/dev/null 2>&1 || { git -C /repo reset -q --hard HEAD; echo "patch does not apply"; exit 2; }
  git -C /repo reset -q
fi
OUT=$("$DIR/bin/run_check.sh" "$ID" "$TIER" 2>&1); RC=$?
git -C /repo reset -q --hard HEAD
echo "$OUT" | grep -E "VIOLATION|^OK|^  \[" | head -6
if echo "$OUT" | grep -q "^VIOLATION"; then echo "DETECTED ($ID)"; exit 0; else echo "MISSED ($ID) rc=$RC"; exit 1; fi
