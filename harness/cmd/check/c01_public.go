package main

// C01, whole-run stage: (1) the day balance from the PUBLIC terms — the records of the daily result
// file written with a verification output configuration (every layer's water content, uptake per
// layer, percolation / capillary / drain counters, rain, irrigation, evaporation, all `%v`) — against
// the storage at the start of the day; evaluated on every day incl. harvest days (with automatic
// harvest the harvest is decided after the first sub-step has taken the day's uptake: the uptake the
// file reports must still be the water the soil lost). (2) generator classes with a groundwater time
// series / sinusoidal groundwater inside the profile and with automatic harvest triggered by ripeness.
//
// Signatures: water-run:public-day-balance:<class>[:harvest-day]   water-run:public-record-missing:<class>

import (
	"fmt"
	"math"
	"strconv"
	"strings"

	"verifharness/proj"
	"verifharness/vh"
)

type pubDay struct {
	Zeit               int
	SStart             float64 // storage at the day-start probe (after a groundwater re-initialisation / measurement overwrite)
	Gwauf              float64 // Σ groundwater uptake · wdt (not a column of the file)
	Dz                 float64
	N, Outn            int
	Nsub               int
	Harvest            bool // the crop index moved on this day
	CropAKF            int
	AutoHarv           bool
	Sick0, Cap0, Drai0 float64 // the three counters at the day-start probe (they restart after the annual output date and on measurement dates)
}

func c01PublicCols(n int) []string {
	cols := []string{"AKTUELL", "REGENdaily", "EffectiveIRRIG", "ETA", "FLUSS0", "SICKER", "CAPSUM", "DRAISUM"}
	for i := 0; i < n; i++ {
		cols = append(cols, fmt.Sprintf("WG[1][%d]", i), fmt.Sprintf("TP[%d]", i))
	}
	return cols
}

// publicBalance evaluates the day balance on the records of the daily file.
func (o *waterRunObserver) publicBalance(res *proj.RunResult) {
	c := o.c
	lines := strings.Split(strings.TrimSpace(res.Out.File("V")), "\n")
	if len(lines) < 1 || lines[0] == "" {
		if len(o.pub) > 0 {
			c.Violate("search", "water-run:public-record-missing:"+o.tag, fmt.Sprintf("the daily result file has %d lines for %d simulated days", len(lines), len(o.pub)), o.p)
		}
		return
	}
	recs := lines
	if len(recs) == len(o.pub)+1 {
		recs = lines[1:] // a header line
	}
	if len(recs) != len(o.pub) {
		c.Count("run:public-balance:record-count-differs")
		c.Note("public balance %s: %d records, %d days; first lines: %q", o.p.Name, len(recs), len(o.pub), lines[:minI(3, len(lines))])
		return
	}
	n := o.p.N()
	parse := func(line string) ([]float64, bool) {
		cells := strings.Split(line, ",")
		if len(cells) < 8+2*n {
			return nil, false
		}
		out := make([]float64, len(cells))
		for i := 1; i < len(cells); i++ {
			f, err := strconv.ParseFloat(strings.TrimSpace(cells[i]), 64)
			if err != nil {
				return nil, false
			}
			out[i] = f
		}
		return out, true
	}
	for i, d := range o.pub {
		cur, ok := parse(recs[i])
		if !ok {
			c.Count("run:public-balance:record-unreadable")
			continue
		}
		if d.Outn != d.N || d.N != n {
			c.Count("run:public-balance:skipped:leaching-depth-not-at-bottom")
			continue
		}
		regen, irr, eta := cur[1], cur[2], cur[3]
		dSick, dCap, dDrai := cur[5]-d.Sick0, cur[6]-d.Cap0, cur[7]-d.Drai0
		sEnd, tp := 0.0, 0.0
		for z := 0; z < n; z++ {
			sEnd += cur[8+2*z] * d.Dz
			tp += cur[9+2*z]
		}
		flux := regen + irr - eta
		want := d.SStart + flux - tp - (dSick+dCap)/10 - d.Gwauf - dDrai/10
		tol := 1e-9 * (1 + math.Abs(d.SStart) + math.Abs(flux) + math.Abs(tp) + math.Abs(cur[5])/10 + math.Abs(cur[6])/10 + math.Abs(cur[7])/10 + math.Abs(d.Gwauf))
		c.Eval()
		c.Count("run:public-balance:days")
		if d.Harvest {
			c.Count("run:public-balance:harvest-days")
			if d.AutoHarv {
				c.Count("run:public-balance:automatic-harvest-days")
			}
			if d.AutoHarv && tp > 0 {
				c.Count("run:public-balance:automatic-harvest-days-with-uptake")
			}
		}
		if r := sEnd - want; !(math.Abs(r) <= tol) {
			sig := "water-run:public-day-balance:" + o.tag
			if d.Harvest {
				sig += ":harvest-day"
			}
			c.Violate("search", sig, fmt.Sprintf("day %d (%d sub-steps): the daily result file says storage %.12g cm at day end; start of day %.12g + rain %.12g + irrigation %.12g - evaporation %.12g - uptake of the layers %.12g - percolation/capillary counters %.12g - groundwater uptake %.12g - drain %.12g = %.12g; residual %.3g cm",
				d.Zeit, d.Nsub, sEnd, d.SStart, regen, irr, eta, tp, (dSick+dCap)/10, d.Gwauf, dDrai/10, want, r), o.p)
		}
	}
}

// c01RipeRows: automan rows whose automatic harvest is triggered by ripeness (wide moisture window, high
// rain limits, latest harvest date late) for the crops of the rotation.
func c01RipeRows(r *vh.Rng, p *proj.Project) []proj.AutoEntry {
	var entries []proj.AutoEntry
	seen := map[string]bool{}
	for _, re := range p.Rot {
		for _, cc := range proj.Crops {
			if cc.Code == re.Crop && !seen[cc.Code] {
				seen[cc.Code] = true
				a := genAutoEntry(r, cc)
				c01Ripe(&a, cc, r.Range(25, 45))
				entries = append(entries, a)
			}
		}
	}
	return entries
}

// c01Class2: the generator classes of the second decade (k%20 >= 10) that replace a repetition of the first.
func c01Class2(r *vh.Rng, k int) (proj.Opt, string, bool) {
	switch k % 20 {
	case 10:
		return proj.Opt{}, "auto-harvest-ripeness", true
	case 15:
		return proj.Opt{Management: true}, "auto-harvest-ripeness-irrigation", true
	case 12:
		return proj.Opt{Drain: true, MinLayers: 4}, "gw-series-drain", true
	case 14:
		return proj.Opt{MinLayers: 4}, "gw-series", true
	case 17:
		return proj.Opt{Drain: r.Chance(0.5), Management: true, MinLayers: 4}, "gw-sinus", true
	}
	return proj.Opt{}, "", false
}

// c01SetupClass2 applies the class after proj.Gen; returns the automan rows to write (nil: none).
func c01SetupClass2(r *vh.Rng, p *proj.Project, tag string) []proj.AutoEntry {
	n := p.N()
	switch tag {
	case "auto-harvest-ripeness", "auto-harvest-ripeness-irrigation":
		p.Cfg["AutoHarvest"] = "1"
		p.Til = nil
		p.Cfg["LeachingDepth"] = fmt.Sprint(n) // the public balance needs the counters at the profile bottom
		return c01Premise(p, c01RipeRows(r, p), false, true)
	case "gw-series", "gw-series-drain":
		// sparse series with unchanged stretches, the table inside the profile most of the time
		p.SetGroundwaterSeries(r, 1, float64(n)+1.5, r.Range(4, 16))
		p.Cfg["LeachingDepth"] = fmt.Sprint(n)
	case "gw-sinus":
		hi := r.Range(1, maxI(1, n-1))
		lo := hi + r.Range(0, 6) // hi == lo: a constant table given through the polygon file
		p.SetGroundwaterPolygon(hi, lo, r.Intn(360))
		p.Cfg["LeachingDepth"] = fmt.Sprint(n)
	}
	return nil
}

// c01Ripe: the row's automatic harvest fires on the first day the crop is ripe: any top-soil moisture, rain
// limits out of reach, latest harvest date `late` days after the typical one.
func c01Ripe(a *proj.AutoEntry, cc proj.CropCal, late int) {
	a.HMoMin, a.HMoMax = 0, 100
	a.RainAv, a.RainAct = 9.9, 9.9
	h2 := proj.Date{Y: 2001, M: cc.HarM, D: cc.HarD}.AddDays(late)
	a.Har2M, a.Har2D = h2.M, h2.D
}

// c01Premise keeps the rows inside the premise of the automatic dates (C16): every sowing date / window
// opens after the latest harvest date of the predecessor and closes before the own latest harvest date.
// Otherwise (e.g. soya with a latest harvest date in November followed by a winter cereal sown in
// October) all rows fall back to the dates of the rotation file ("0000"): the harvest is still triggered
// by ripeness, at the latest on the rotation file's date.
func c01Premise(p *proj.Project, entries []proj.AutoEntry, autoMan, autoHar bool) []proj.AutoEntry {
	table := map[string]proj.AutoEntry{}
	for _, e := range entries {
		table[e.Crop] = e
	}
	ex := c16Expect(p, &c16Case{AutoMan: autoMan, AutoHar: autoHar, Table: table, S0: p.Start().Z()})
	ok := true
	for i := 1; i < len(p.Rot); i++ {
		ok = ok && ex.Premise[i]
	}
	if n := len(p.Rot); n > 1 && autoHar && ex.E2[n-1]+2 > p.End().Z() {
		ok = false // the weather series ends with the run
	}
	if ok {
		return entries
	}
	for i := range entries {
		entries[i].Sow1M, entries[i].Sow1D, entries[i].Sow2M, entries[i].Sow2D = 0, 0, 0, 0
		entries[i].Har2M, entries[i].Har2D = 0, 0
	}
	return entries
}
