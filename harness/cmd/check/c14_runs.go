package main

// C14, whole-run stage: generated projects with observable keys given on the batch line, in
// config.yml, in both (different values) or nowhere; the state the day loop works with is read
// through the day probe on the first simulated day, the end of the simulation from the last probed
// day, the result-file extension from the name of the daily result file.

import (
	"fmt"
	"os"
	"path/filepath"
	"reflect"
	"sort"
	"strconv"
	"strings"

	"github.com/zalf-rpm/Hermes2Go/hermes"
	"verifharness/proj"
	"verifharness/vh"
)

type runKey struct {
	name, kind string
	gen        func(r *vh.Rng, p *proj.Project) string // plain value text (valid on the line and as YAML scalar; texts are quoted in the file)
	defaultOK  bool                                    // the project runs with the documented default of this key
}

type runSnap struct {
	vals    map[string]string // key -> rendered observed value
	layers  int               // soil layers of the profile the run works with
	lastDay int
	ext     string
}

func ffmt(x float64, d int) string { return strconv.FormatFloat(x, 'f', d, 64) }

func runKeys() []runKey {
	sw := func(r *vh.Rng, p *proj.Project) string { return onOffList[r.Intn(len(onOffList))] }
	return []runKey{
		{"LeachingDepth", "int", func(r *vh.Rng, p *proj.Project) string {
			if p.N() < 15 {
				return strconv.Itoa(r.Range(1, 20)) // short profile: also depths below the profile bottom (nothing is counted as leached)
			}
			return strconv.Itoa(r.Range(1, p.N()))
		}, true},
		{"NDeposition", "float", func(r *vh.Rng, p *proj.Project) string {
			if x := r.Uni(-12, 60); x >= 0 {
				return ffmt(x, 1)
			} else if x < -6 {
				return "0" // exactly none
			}
			return "12.37"
		}, true},
		{"Latitude", "float", func(r *vh.Rng, p *proj.Project) string { return ffmt(r.Uni(35, 65), 2) }, true},
		{"Altitude", "float", func(r *vh.Rng, p *proj.Project) string { return strconv.Itoa(r.Range(0, 800)) }, true},
		{"CO2concentration", "float", func(r *vh.Rng, p *proj.Project) string { return ffmt(r.Uni(300, 700), 1) }, true},
		{"KcFactorBareSoil", "float", func(r *vh.Rng, p *proj.Project) string {
			if x := r.Uni(0.2, 1.2); x <= 0.9 {
				return ffmt(x, 2)
			} else {
				return []string{"0", "0.05", "2.0"}[int((x-0.9)*10)%3]
			}
		}, true},
		{"OrganicMatterMineralProportion", "float", func(r *vh.Rng, p *proj.Project) string {
			if x := r.Uni(0.05, 0.38); x <= 0.3 {
				return ffmt(x, 2)
			} else {
				return []string{"0", "1", "0.999"}[int((x-0.3)*100)%3]
			}
		}, true},
		{"AnnualAverageTemperature", "float", func(r *vh.Rng, p *proj.Project) string { return ffmt(r.Uni(5, 12), 1) }, true},
		{"Fertilization", "float", func(r *vh.Rng, p *proj.Project) string {
			if x := r.Range(50, 170); x <= 150 {
				return strconv.Itoa(x)
			} else {
				return []string{"0", "1", "250", "33"}[x%4]
			}
		}, true},
		{"CO2StomataInfluence", "switch", sw, true},
		{"GroundWaterPhase", "int", func(r *vh.Rng, p *proj.Project) string { return strconv.Itoa(r.Range(0, 360)) }, true},
		{"PotMineralisation", "int", func(r *vh.Rng, p *proj.Project) string { return strconv.Itoa(r.Range(0, 2)) }, true},
		{"CO2method", "int", func(r *vh.Rng, p *proj.Project) string { return strconv.Itoa(r.Range(0, 4)) }, true}, // 0 and 4: no CO2 effect
		{"ETpot", "int", func(r *vh.Rng, p *proj.Project) string {
			return strconv.Itoa([]int{2, 3, 4, 2, 3, 4, 0, 6, 5}[r.Intn(9)]) // 0 / 6: no method (ET = 0); 5 with a weather file without ET0 column
		}, true},
		{"ResultFileExt", "text", func(r *vh.Rng, p *proj.Project) string { return []string{"csv", "RES", "out", "txt", "dat", "", ""}[r.Intn(7)] }, true}, // an empty text is a value too: it overrides the lower layer and is then resolved by the result format
		{"EndDate", "text", func(r *vh.Rng, p *proj.Project) string {
			lo, hi := p.Start().Z()+40, p.End().Z()
			if hi < lo {
				hi = lo
			}
			z := r.Range(lo-3, hi)
			if z < lo {
				z = p.Start().Z() + (z - (lo - 3)) // the start day itself, the day after, two days after: a run of one to three days
			}
			return proj.FromZ(z).Fmt(1)
		}, false},
	}
}

func renderText(kind, text string) (string, bool) {
	switch kind {
	case "float":
		f, err := strconv.ParseFloat(text, 64)
		return vh.FHex(f), err == nil
	case "int":
		i, err := strconv.ParseInt(text, 10, 64)
		return fmt.Sprintf("i%d", i), err == nil
	case "switch":
		b, ok := onOff[text]
		if b {
			return "b1", ok
		}
		return "b0", ok
	}
	return "t" + text, true
}

func bstr(b bool) string {
	if b {
		return "b1"
	}
	return "b0"
}

func c14RunOnce(root string, p *proj.Project) (*runSnap, *proj.RunResult) {
	sn := &runSnap{}
	res := proj.Run(root, p, &hermes.VerifProbes{
		DayStart: func(g *hermes.GlobalVarsMain, w *hermes.WaterSharedVars, n *hermes.NitroSharedVars, cr *hermes.CropSharedVars, zeit int, wdt float64) {
			if sn.vals == nil {
				sn.vals = map[string]string{
					"LeachingDepth": fmt.Sprintf("i%d", g.OUTN), "NDeposition": vh.FHex(g.DEPOS), "Latitude": vh.FHex(g.LAT), "Altitude": vh.FHex(g.ALTI),
					"CO2concentration": vh.FHex(g.CO2KONZ), "KcFactorBareSoil": vh.FHex(g.FKB), "OrganicMatterMineralProportion": vh.FHex(g.NAKT),
					"AnnualAverageTemperature": vh.FHex(g.TBASE), "Fertilization": vh.FHex(g.DUNGSZEN), "CO2StomataInfluence": bstr(g.CTRANS),
					"GroundWaterPhase": fmt.Sprintf("i%d", g.GWPhase), "PotMineralisation": fmt.Sprintf("i%d", g.PotMineralisationMethod),
					"CO2method": fmt.Sprintf("i%d", g.CO2METH), "ETpot": fmt.Sprintf("i%d", g.ETMETH),
				}
			}
			sn.lastDay, sn.layers = zeit, g.N
		},
	})
	for name := range res.Out.Files {
		if strings.HasPrefix(name, "V") {
			sn.ext = name[strings.LastIndex(name, ".")+1:]
		}
	}
	return sn, res
}

func c14Runs(c *vh.Ctx, metas []cfgMeta) {
	root := filepath.Join(c.Scratch, "runs")
	keys := runKeys()
	dflt := reflect.ValueOf(documentedConfig()) // the documented defaults (ConfigDoc.lean), not the code under test
	defaultText := func(name string) string {
		f := dflt.FieldByName(name)
		switch f.Kind() {
		case reflect.Float64:
			return strconv.FormatFloat(f.Float(), 'g', -1, 64)
		case reflect.Int:
			return strconv.FormatInt(f.Int(), 10)
		case reflect.Bool:
			if f.Bool() {
				return "1"
			}
			return "0"
		}
		return f.String()
	}
	var mCases []string
	type pending struct {
		p    *proj.Project
		snap *runSnap
	}
	var pend []pending
	nRuns := c.N(16, 150)
	for k := 0; k < nRuns; k++ {
		r := c.Rng.Fork()
		gopt := proj.Opt{Years: 1, NoCrop: r.Chance(0.7), MinLayers: 15}
		if k%4 == 3 {
			gopt.MinLayers, gopt.MaxLayers = 2, 9 // a short profile: the documented default LeachingDepth 15 lies below its bottom
		}
		p := proj.Gen(r, fmt.Sprintf("cfg%d", k), gopt)
		layer := map[string]string{}
		want := map[string]string{} // key -> value text the run must use
		dup := ""
		for _, rk := range keys {
			plain := func(s string) string { return strings.Trim(s, "\"") }
			inFile := func(v string) string {
				if rk.kind == "text" {
					return strconv.Quote(v)
				}
				return v
			}
			switch r.Intn(5) {
			case 0: // line only (the file keeps the project's value)
				v := rk.gen(r, p)
				p.Args = append(p.Args, rk.name+"="+v)
				layer[rk.name], want[rk.name] = "line", v
			case 1: // file only
				v := rk.gen(r, p)
				p.Cfg[rk.name] = inFile(v)
				layer[rk.name], want[rk.name] = "file", v
			case 2: // both, different draws
				v, fv := rk.gen(r, p), rk.gen(r, p)
				p.Cfg[rk.name] = inFile(fv)
				p.Args = append(p.Args, rk.name+"="+v)
				layer[rk.name], want[rk.name] = "line", v
			case 3: // nowhere
				if rk.defaultOK {
					delete(p.Cfg, rk.name)
					layer[rk.name], want[rk.name] = "default", defaultText(rk.name)
				} else {
					layer[rk.name], want[rk.name] = "file", plain(p.Cfg[rk.name])
				}
			default:
				layer[rk.name], want[rk.name] = "file", plain(p.Cfg[rk.name])
			}
		}
		if k%8 == 1 {
			// always present: the empty text on the line over a non-empty text in the file (an empty text is a value; it is then
			// resolved by the result format) — no draw, the other runs are unchanged
			args := p.Args[:0:0]
			for _, a := range p.Args {
				if !strings.HasPrefix(a, "ResultFileExt=") {
					args = append(args, a)
				}
			}
			p.Args = append(args, "ResultFileExt=")
			p.Cfg["ResultFileExt"] = strconv.Quote("dat")
			layer["ResultFileExt"], want["ResultFileExt"] = "line", ""
		}
		// a repeated key (the last one counts; outside the property, compared with the model only)
		if r.Chance(0.3) {
			for i, a := range p.Args {
				if strings.HasPrefix(a, "LeachingDepth=") || strings.HasPrefix(a, "NDeposition=") {
					dup = a[:strings.Index(a, "=")]
					other := "LeachingDepth=" + strconv.Itoa(r.Range(1, p.N()))
					if dup == "NDeposition" {
						other = "NDeposition=" + ffmt(r.Uni(0, 60), 1)
					}
					p.Args = append(p.Args[:i+1], append([]string{other}, p.Args[i+1:]...)...)
					p.Args[i], p.Args[i+1] = p.Args[i+1], p.Args[i] // the additional one first
					break
				}
			}
		}
		// keys that do not exist, tokens that are no pair
		p.Args = append(p.Args, []string{"Foo=1", "leachingdepth=1", "LeachingDepth", "NDEPOSITION=99"}[r.Intn(4)])
		for i := len(p.Args) - 1; i > 0; i-- {
			j := r.Intn(i + 1)
			if dup != "" && (strings.HasPrefix(p.Args[i], dup+"=") || strings.HasPrefix(p.Args[j], dup+"=")) {
				continue // keep the relative order of the repeated key
			}
			p.Args[i], p.Args[j] = p.Args[j], p.Args[i]
		}
		tk := c14TextKeys(p, k)
		if err := p.Write(root, c.Repo); err != nil {
			c.Violate("search", "harness:write", err.Error(), nil)
			continue
		}
		if err := tk.place(root, p); err != nil {
			c.Violate("search", "harness:write", err.Error(), nil)
			continue
		}
		// config.yml in another valid rendering (CRLF, comments, document marker, quoted keys)
		cfgStyle := (k / 2) % 5
		if err := p.WriteConfigStyle(root, cfgStyle); err != nil {
			c.Violate("search", "harness:write", err.Error(), nil)
			continue
		}
		c.Count(fmt.Sprintf("run:config-style:%d", cfgStyle))
		sn, res := c14RunOnce(root, p)
		if tk != nil && (res.Panic != "" || res.Err != nil || sn.vals == nil || sn.layers != p.N()) {
			c.Violate("search", "run:precedence:file-keys:"+tk.Class, fmt.Sprintf("SoilFile / PolygonGridFileName / WeatherFolder / WeatherRootFolder given as %s: the files named by the effective values hold this project (soil of %d layers), decoy files stand under the names of the lower layer; the run works with %d layers, err=%v panic=%q", tk.Class, p.N(), sn.layers, res.Err, res.Panic),
				map[string]interface{}{"project": p, "batch_line": p.BatchArgs(), "config_yml": p.Cfg, "file_keys": tk})
			continue
		}
		if tk != nil {
			c.Count("run:file-keys:" + tk.Class)
		}
		if res.Panic != "" || res.Err != nil || sn.vals == nil {
			c.Count("run:failed")
			c.Note("run %s did not complete: err=%v panic=%q batch line %v layers %v ETpot=%s", p.Name, res.Err, res.Panic, p.BatchArgs(), layer, p.Cfg["ETpot"])
			continue
		}
		c.Count("run:ok")
		pay := func(key string) map[string]interface{} {
			return map[string]interface{}{"project": p, "key": key, "batch_line": p.BatchArgs(), "config_yml": p.Cfg, "layer": layer[key]}
		}
		for _, rk := range keys {
			if rk.name == dup {
				continue
			}
			c.Eval()
			c.Count("run:" + rk.kind + ":" + layer[rk.name])
			c.Nontrivial("run:" + rk.name + ":" + layer[rk.name])
			w, ok := renderText(rk.kind, want[rk.name])
			if rk.name == "Fertilization" { // the run works with the fraction (config.go:114)
				f, _ := strconv.ParseFloat(want[rk.name], 64)
				w = vh.FHex(f / 100)
			}
			if !ok {
				c.Note("run %s: cannot read expectation %q of %s", p.Name, want[rk.name], rk.name)
				continue
			}
			switch rk.name {
			case "ResultFileExt":
				ext := want[rk.name]
				if ext == "" {
					ext = "csv" // ResultFileFormat of the generated projects is 1
				}
				if sn.ext != ext {
					c.Violate("search", "run:precedence:text:"+layer[rk.name], fmt.Sprintf("result files have the extension %q, the %s layer says %q", sn.ext, layer[rk.name], ext), pay(rk.name))
				}
			case "EndDate":
				var d, m, y int
				fmt.Sscanf(want[rk.name], "%2d%2d%4d", &d, &m, &y)
				endZ := proj.Date{Y: y, M: m, D: d}.Z()
				var ad, am int
				fmt.Sscanf(strings.Trim(p.Cfg["AnnualOutputDate"], "\""), "%2d%2d", &ad, &am)
				annZ := proj.Date{Y: y, M: am, D: ad}.Z()
				wantLast := endZ
				if annZ >= endZ {
					wantLast = annZ + 1 // run.go:138-140: the run is extended to the day after the annual output date of the end year
				}
				if sn.lastDay != wantLast {
					c.Violate("search", "run:precedence:text:"+layer[rk.name]+":enddate", fmt.Sprintf("the simulation ends on day %d (%v), the end date of the %s layer is %s (day %d; with the annual output date of that year: %d)", sn.lastDay, proj.FromZ(sn.lastDay), layer[rk.name], want[rk.name], endZ, wantLast), pay(rk.name))
				}
			default:
				if sn.vals[rk.name] != w {
					c.Violate("search", "run:precedence:"+rk.kind+":"+layer[rk.name], fmt.Sprintf("key %s: the day loop works with %s, the %s layer says %s = %s", rk.name, sn.vals[rk.name], layer[rk.name], want[rk.name], w), pay(rk.name))
				}
			}
		}
		// model fed with the real batch line and file
		cs := &cfgCase{Root: root, Tokens: p.BatchArgs()}
		var fk []string
		for kk := range p.Cfg {
			fk = append(fk, kk)
		}
		sort.Strings(fk)
		for _, kk := range fk {
			cs.File = append(cs.File, fileEnt{Key: kk, YAML: p.Cfg[kk]})
		}
		mCases = append(mCases, cs.driverLine())
		pend = append(pend, pending{p, sn})

		// second run: permuted batch line (even k) or further unknown keys (odd k): identical results
		base := res.Out.File("V")
		p2 := *p
		p2.Args = append([]string(nil), p.Args...)
		sig := "run:permutation"
		if k%2 == 0 && dup == "" {
			for i := len(p2.Args) - 1; i > 0; i-- {
				j := r.Intn(i + 1)
				p2.Args[i], p2.Args[j] = p2.Args[j], p2.Args[i]
			}
		} else {
			sig = "run:unknown-key"
			p2.Args = append([]string{"NoSuchKey=5", "enddate=01011990"}, p2.Args...)
			p2.Args = append(p2.Args, "Leachingdepth=1", "ETPOT=1")
		}
		sn2, res2 := c14RunOnce(root, &p2)
		c.Eval()
		c.Count(sig)
		if res2.Panic != "" || res2.Err != nil {
			c.Violate("search", sig+":fails", fmt.Sprintf("the run with the changed batch line fails: err=%v panic=%q", res2.Err, res2.Panic), map[string]interface{}{"project": p, "batch_line": p.BatchArgs(), "changed": p2.BatchArgs()})
		} else if res2.Out.File("V") != base || !reflect.DeepEqual(sn.vals, sn2.vals) || sn.lastDay != sn2.lastDay || sn.ext != sn2.ext {
			what := "a permutation of the batch line changes the results"
			if sig == "run:unknown-key" {
				what = "arguments that name no configuration key change the results"
			}
			c.Violate("search", sig, what, map[string]interface{}{"project": p, "batch_line": p.BatchArgs(), "changed": p2.BatchArgs()})
		}
		if k < 2 {
			c.Sample(map[string]interface{}{"stage": "run", "project": p.Name, "batch_line": p.BatchArgs(), "layers": layer, "last_day": sn.lastDay, "ext": sn.ext})
		}
		c14NoConfigRun(c, root, p, sn, base, k)
	}
	// run-level correspondence: the model's effective configuration for the real batch line and file
	model, err := c.RunDriver(mCases)
	if err != nil {
		c.Violate("correspondence", "config.effective(run):driver", err.Error(), nil)
		return
	}
	for i, line := range model {
		mt := parseRendered(line)
		for name, obs := range pend[i].snap.vals {
			c.Res.CorrCases++
			if name == "Fertilization" {
				if isF, f, ok := vh.ParseTok(mt[name]); ok && isF {
					mt[name] = vh.FHex(f / 100)
				}
			}
			if mt[name] == obs {
				c.Res.CorrBitExact++
				continue
			}
			c.Res.CorrDisagree++
			c.Violate("correspondence", "config.effective(run):disagree", fmt.Sprintf("key %s: the run works with %s, the model says %s", name, obs, mt[name]),
				map[string]interface{}{"kernel": "config.effective(run)", "key": name, "batch_line": pend[i].p.BatchArgs(), "config_yml": pend[i].p.Cfg, "model": line})
		}
		if line == "fatal" {
			c.Violate("correspondence", "config.effective(run):fatal", "the model stops on a configuration the run accepts", map[string]interface{}{"batch_line": pend[i].p.BatchArgs(), "config_yml": pend[i].p.Cfg})
		}
	}
}

// c14NoConfigRun: the project without config.yml (the run writes the default file): every key of the file
// that the batch line does not give is put on the batch line instead, so the effective configuration is the
// same three-layer overlay with an empty file layer; the run must work with the same values and give the
// same daily result. (Enumerations are left out when the file holds the documented default, otherwise the
// case is skipped: the line takes them as numbers only.)
func c14NoConfigRun(c *vh.Ctx, root string, p *proj.Project, sn *runSnap, base string, k int) {
	if k%4 != 1 {
		return
	}
	onLine := map[string]bool{}
	for _, a := range p.Args {
		if i := strings.Index(a, "="); i > 0 {
			onLine[a[:i]] = true
		}
	}
	p3 := *p
	p3.Args = append([]string(nil), p.Args...)
	var fk []string
	for kk := range p.Cfg {
		fk = append(fk, kk)
	}
	sort.Strings(fk)
	for _, kk := range fk {
		v := strings.Trim(p.Cfg[kk], "\"")
		switch kk {
		case "Dateformat":
			if v != "DateDElong" {
				return
			}
			continue
		case "GroundWaterFrom":
			if v != "soilfile" {
				return
			}
			continue
		}
		if onLine[kk] {
			continue
		}
		if v == "" || strings.ContainsAny(v, " \t") {
			return
		}
		p3.Args = append(p3.Args, kk+"="+v)
	}
	if err := p.RemoveConfig(root); err != nil {
		return
	}
	sn3, res3 := c14RunOnce(root, &p3)
	c.Eval()
	c.Count("run:no-config-file")
	pay := map[string]interface{}{"project": p, "batch_line": p.BatchArgs(), "config_yml": p.Cfg, "batch_line_without_config_file": p3.BatchArgs()}
	if res3.Panic != "" || res3.Err != nil || sn3.vals == nil {
		c.Violate("search", "run:no-config-file:fails", fmt.Sprintf("the project without config.yml, all its keys on the batch line, fails: err=%v panic=%q", res3.Err, res3.Panic), pay)
		return
	}
	if res3.Out.File("V") != base || !reflect.DeepEqual(sn.vals, sn3.vals) || sn.lastDay != sn3.lastDay || sn.ext != sn3.ext {
		diff := ""
		for name, v := range sn.vals {
			if sn3.vals[name] != v {
				diff += fmt.Sprintf(" %s: %s vs %s;", name, v, sn3.vals[name])
			}
		}
		c.Violate("search", "run:no-config-file:differs", fmt.Sprintf("the same keys given on the batch line instead of in config.yml (no file: defaults + line) give another run: last day %d vs %d, ext %q vs %q,%s daily file equal: %v", sn.lastDay, sn3.lastDay, sn.ext, sn3.ext, diff, res3.Out.File("V") == base), pay)
	}
}

// ---------------------------------------------------------------- keys that name files

// c14FileKeys: every fourth run gives SoilFile and PolygonGridFileName other values than the generated
// file names (on the line, in the file or in both with different values) and leaves WeatherFolder /
// WeatherRootFolder to their documented defaults ("Weather" under the project root). The project's files
// are stored under the names the effective values give; under the names of the overridden layer stand
// decoys (a soil with one layer more, a polygon file of another field).
type c14FileKeys struct {
	Class              string
	Soil, SoilDecoy    string
	Poly, PolyDecoy    string
	WeatherAtDefault   bool
}

func c14TextKeys(p *proj.Project, k int) *c14FileKeys {
	if k%4 != 2 {
		return nil
	}
	t := &c14FileKeys{Soil: "soil", Poly: "poly"}
	switch (k / 4) % 3 {
	case 0: // file only
		t.Class = "file"
		t.Soil, t.Poly = "bd", "grid"
		p.Cfg["SoilFile"], p.Cfg["PolygonGridFileName"] = t.Soil, t.Poly
		t.SoilDecoy, t.PolyDecoy = "soil", "poly" // the documented defaults
	case 1: // line only, the file keeps the generated names
		t.Class = "line"
		t.Soil, t.Poly = "bd", "grid"
		p.Args = append(p.Args, "SoilFile="+t.Soil, "PolygonGridFileName="+t.Poly)
		t.SoilDecoy, t.PolyDecoy = "soil", "poly"
	case 2: // both, different
		t.Class = "line+file"
		t.Soil, t.Poly = "prof", "plots"
		p.Cfg["SoilFile"], p.Cfg["PolygonGridFileName"] = "bd", "grid"
		p.Args = append(p.Args, "SoilFile="+t.Soil, "PolygonGridFileName="+t.Poly)
		t.SoilDecoy, t.PolyDecoy = "bd", "grid"
	}
	if (k/4)%2 == 0 {
		t.WeatherAtDefault = true
		t.Class += "+weather-default"
		delete(p.Cfg, "WeatherFolder")
		delete(p.Cfg, "WeatherRootFolder")
	}
	return t
}

func (t *c14FileKeys) place(root string, p *proj.Project) error {
	if t == nil {
		return nil
	}
	dir := filepath.Join(root, "project", p.Name)
	soil, err := os.ReadFile(filepath.Join(dir, "soil_"+p.Name+".csv"))
	if err != nil {
		return err
	}
	poly, err := os.ReadFile(filepath.Join(dir, "poly_"+p.Name+".txt"))
	if err != nil {
		return err
	}
	os.Remove(filepath.Join(dir, "soil_"+p.Name+".csv"))
	os.Remove(filepath.Join(dir, "poly_"+p.Name+".txt"))
	// decoys first (the real files overwrite them if the names coincide): the soil with its last horizon one layer deeper / shallower
	sl := strings.Split(strings.TrimRight(string(soil), "\n"), "\n")
	cells := strings.Split(sl[len(sl)-1], ",")
	if len(cells) < 4 {
		return fmt.Errorf("unexpected soil line %q", sl[len(sl)-1])
	}
	if p.N() < 20 {
		cells[3] = fmt.Sprintf("%02d", p.N()+1) // (a profile of 20 layers gets no distinguishable decoy)
	}
	sl[len(sl)-1] = strings.Join(cells, ",")
	if err := os.WriteFile(filepath.Join(dir, t.SoilDecoy+"_"+p.Name+".csv"), []byte(strings.Join(sl, "\n")+"\n"), 0o644); err != nil {
		return err
	}
	decoyPoly := strings.Replace(string(poly), " "+p.Field+" ", " X"+p.Field+" ", 1)
	if err := os.WriteFile(filepath.Join(dir, t.PolyDecoy+"_"+p.Name+".txt"), []byte(decoyPoly), 0o644); err != nil {
		return err
	}
	if err := os.WriteFile(filepath.Join(dir, t.Soil+"_"+p.Name+".csv"), soil, 0o644); err != nil {
		return err
	}
	if err := os.WriteFile(filepath.Join(dir, t.Poly+"_"+p.Name+".txt"), poly, 0o644); err != nil {
		return err
	}
	if t.WeatherAtDefault {
		src := filepath.Join(root, "weather", "gen")
		dst := filepath.Join(root, "Weather")
		if err := os.MkdirAll(dst, 0o755); err != nil {
			return err
		}
		ents, err := os.ReadDir(src)
		if err != nil {
			return err
		}
		for _, e := range ents {
			if strings.HasPrefix(e.Name(), "w"+p.Name+".") {
				if err := os.Rename(filepath.Join(src, e.Name()), filepath.Join(dst, e.Name())); err != nil {
					return err
				}
			}
		}
	}
	return nil
}
