/-
C07, crediting of uptake and fixation, stated about the *translation of the current source* of `nmove`
(hermes/nitro.go → `HermesModel/Generated/Impnmove.lean`, regenerated on every run by translator v2; tied to the
running code additionally by the srcimp correspondence).  No hand-written model stands between these theorems and
the source text: they break when the crediting statement, its guard, or any statement that touches the counters
changes.

* first sub-step: PESUM gains exactly what AUFNASUM gains (the clamped uptake of the layers) plus — only while a
  *sown* crop stands on the field (SAAT > 0, SAAT ≤ day ≤ ERNTE2) — the N fixation of the day;
* later sub-steps: PESUM, AUFNASUM and the uptake array PE are untouched;
* a day of any number of sub-steps credits once.
-/
import HermesProofs.ImpNmoveCredit
import Mathlib.Tactic.Linarith

namespace Hermes.Generated.Imp.nmove
open Hermes.Imp

variable (m : MathFns ℚ)

/-- a sown crop stands on the field: the sowing day of the current rotation entry is set (automatic sowing leaves it 0
until the crop is sown) and the day lies between sowing and the latest harvest date -/
def cropStands (s : St ℚ) : Prop :=
  0 < rd s.g_SAAT s.g_AKF_Index ∧ rd s.g_SAAT s.g_AKF_Index ≤ s.p_zeit ∧ s.p_zeit ≤ rd s.g_ERNTE2 s.g_AKF_Index

instance (s : St ℚ) : Decidable (cropStands s) := by unfold cropStands; infer_instance

/-- the crediting statement of `nmove` (the last statement of the function), as a function of what it reads -/
theorem credit_statement (t : St ℚ) :
    top11 m t = if t.p_subd = 1 ∧ cropStands t then { t with g_PESUM := t.g_PESUM + t.g_SCHNORR } else t := by
  unfold top11 cropStands
  dsimp only
  by_cases h1 : t.p_subd = 1 <;> by_cases h2 : 0 < rd t.g_SAAT t.g_AKF_Index <;>
    by_cases h3 : rd t.g_SAAT t.g_AKF_Index ≤ t.p_zeit <;> by_cases h4 : t.p_zeit ≤ rd t.g_ERNTE2 t.g_AKF_Index <;>
    simp only [h1, h2, h3, h4, and_self, and_true, and_false, ↓reduceIte]

theorem cropStands_before (s : St ℚ) : cropStands (before m s) ↔ cropStands s := by
  have h := before_key m s
  unfold key at h
  simp only [Prod.mk.injEq] at h
  obtain ⟨_, _, h3, h4, h5, h6, _⟩ := h
  unfold cropStands
  rw [h3, h4, h5, h6]

/-- **First sub-step: crop N gains the day's uptake plus — only for a sown crop in its season — the day's fixation.**
For every state: what `nmove` adds to PESUM is what it adds to AUFNASUM, plus SCHNORR exactly when a sown crop stands. -/
theorem C07_source_credit_first_substep (s : St ℚ) (h : s.p_subd = 1) :
    (run m s).g_PESUM - s.g_PESUM
      = ((run m s).g_AUFNASUM - s.g_AUFNASUM) + (if cropStands s then s.g_SCHNORR else 0) := by
  have hk := before_key m s
  unfold key at hk
  simp only [Prod.mk.injEq] at hk
  obtain ⟨k1, k2, _, _, _, _, k7⟩ := hk
  have hs : (before m s).p_subd = 1 := k7.trans h
  rw [run_eq, credit_statement]
  by_cases hc : cropStands s
  · have hc' : cropStands (before m s) := (cropStands_before m s).2 hc
    rw [if_pos ⟨hs, hc'⟩, if_pos hc]
    show (before m s).g_PESUM + (before m s).g_SCHNORR - s.g_PESUM = (before m s).g_AUFNASUM - s.g_AUFNASUM + s.g_SCHNORR
    rw [k2]; linarith
  · have hc' : ¬ cropStands (before m s) := fun x => hc ((cropStands_before m s).1 x)
    rw [if_neg (fun x => hc' x.2), if_neg hc]
    linarith

/-- **No crop, no credit**: with no sown crop on the field (before the sowing day, after the latest harvest day, or while
automatic sowing has not sown the next crop: SAAT = 0) the fixation left over from the last crop day is not credited. -/
theorem C07_source_no_fixation_credit_without_crop (s : St ℚ) (hc : ¬ cropStands s) :
    (run m s).g_PESUM - s.g_PESUM = (run m s).g_AUFNASUM - s.g_AUFNASUM := by
  have hk := before_key m s
  unfold key at hk
  simp only [Prod.mk.injEq] at hk
  obtain ⟨k1, _, _, _, _, _, _⟩ := hk
  have hc' : ¬ cropStands (before m s) := fun x => hc ((cropStands_before m s).1 x)
  rw [run_eq, credit_statement, if_neg (fun x => hc' x.2)]
  linarith

theorem not_sown_not_standing (s : St ℚ) (h : rd s.g_SAAT s.g_AKF_Index = 0) : ¬ cropStands s := by
  unfold cropStands; rw [h]; intro x; exact absurd x.1 (by decide)

/-- **Later sub-steps credit nothing**: PESUM, AUFNASUM and the uptake array are untouched by a call that is not the
first sub-step of the day. -/
theorem C07_source_no_credit_later_substep (s : St ℚ) (h : s.p_subd ≠ 1) :
    (run m s).g_PESUM = s.g_PESUM ∧ (run m s).g_AUFNASUM = s.g_AUFNASUM ∧ (run m s).g_PE = s.g_PE := by
  have hl := before_later m s h
  unfold later at hl
  simp only [Prod.mk.injEq] at hl
  obtain ⟨l1, l2, l3, l4⟩ := hl
  have hs : ¬ ((before m s).p_subd = 1 ∧ cropStands (before m s)) := fun x => h (l4 ▸ x.1)
  rw [run_eq, credit_statement, if_neg hs]
  exact ⟨l1, l2, l3⟩

/-- the later sub-steps of a day: each call starts from whatever state the day loop hands it (`t`), with the counters
and the uptake array as the previous call left them -/
def laterCalls : St ℚ → List (St ℚ) → St ℚ
  | o, [] => o
  | o, t :: ts => laterCalls (run m { t with g_PESUM := o.g_PESUM, g_AUFNASUM := o.g_AUFNASUM, g_PE := o.g_PE }) ts

theorem laterCalls_counters (o : St ℚ) (ts : List (St ℚ)) (h : ∀ t ∈ ts, t.p_subd ≠ 1) :
    (laterCalls m o ts).g_PESUM = o.g_PESUM ∧ (laterCalls m o ts).g_AUFNASUM = o.g_AUFNASUM := by
  induction ts generalizing o with
  | nil => exact ⟨rfl, rfl⟩
  | cons t ts ih =>
    have ht : t.p_subd ≠ 1 := h t (by simp)
    have h1 := C07_source_no_credit_later_substep m { t with g_PESUM := o.g_PESUM, g_AUFNASUM := o.g_AUFNASUM, g_PE := o.g_PE } ht
    have h2 := ih (run m { t with g_PESUM := o.g_PESUM, g_AUFNASUM := o.g_AUFNASUM, g_PE := o.g_PE }) (fun x hx => h x (by simp [hx]))
    unfold laterCalls
    exact ⟨h2.1.trans h1.1, h2.2.trans h1.2.1⟩

/-- **Once per day, for any number of sub-steps**: after the first call and any list of later calls of the day, crop N has
gained the uptake booked in AUFNASUM plus — for a sown crop in its season — the day's fixation, once. -/
theorem C07_source_day_credit (s : St ℚ) (h : s.p_subd = 1) (ts : List (St ℚ)) (hts : ∀ t ∈ ts, t.p_subd ≠ 1) :
    (laterCalls m (run m s) ts).g_PESUM - s.g_PESUM
      = ((laterCalls m (run m s) ts).g_AUFNASUM - s.g_AUFNASUM) + (if cropStands s then s.g_SCHNORR else 0) := by
  obtain ⟨h1, h2⟩ := laterCalls_counters m (run m s) ts hts
  rw [h1, h2]
  exact C07_source_credit_first_substep m s h

/-- premises are satisfiable and the statement is not trivial: a legume harvested, automatic sowing pending (SAAT = 0),
stale fixation 4.44 — nothing is credited; with the crop sown on day 900 it is. -/
def demoState (saat : Int) : St ℚ :=
  { p_wdt := 1, p_subd := 1, p_zeit := 1000, v_Carray := [], g_N := 0, l_D := [], g_AD := [], g_WG_0 := [], g_C1 := [], g_PE := [],
    g_PESUM := 50, g_AUFNASUM := 20, g_DN := [], g_DZ_Num := 10, g_Q1 := [0], g_FLUSS0 := 0, l_V := [], g_W := [], l_DB := [], g_DV := 0,
    l_DISP := [], g_DRAIDEP := 0, l_KONV := [], g_QDRAIN := 0, g_DRAINLOSS := 0, g_C1NotStable := "", g_C1stabilityVal := 0,
    g_C1NotStableErr := "", g_OUTN := 0, g_OUTSUM := 0, g_SAAT := [saat], g_AKF_Index := 0, g_NLEAG := 0, g_ERNTE2 := [1100],
    g_SCHNORR := 444 / 100 }

example : ¬ cropStands (demoState 0) := not_sown_not_standing _ rfl
example : cropStands (demoState 900) := by unfold cropStands demoState rd; decide

end Hermes.Generated.Imp.nmove
