package main

// Shared pieces of the C13 / C18 checks: shipped crop files, state dumps of the real readers,
// an independent tokeniser of the classic crop file (the token record `t` of the Lean model),
// editing of single fields of a classic crop file, and the line encodings of the driver protocol
// (ops cropparam.*, cropoverride.*, formats.*).

import (
	"bufio"
	"fmt"
	"math"
	"os"
	"path/filepath"
	"reflect"
	"sort"
	"strconv"
	"strings"

	"github.com/zalf-rpm/Hermes2Go/hermes"
	"verifharness/vh"
)

// ---------------------------------------------------------------- shipped crop files

func shippedCropFiles(repo string) []string {
	dir := filepath.Join(repo, "examples", "parameter")
	ents, _ := os.ReadDir(dir)
	var out []string
	for _, e := range ents {
		n := e.Name()
		if strings.HasPrefix(n, "PARAM") && !strings.HasSuffix(n, ".yml") {
			out = append(out, filepath.Join(dir, n))
		}
	}
	sort.Strings(out)
	return out
}

// ---------------------------------------------------------------- calling the real readers

type cropEnv struct {
	session *hermes.HermesSession
	logs    chan string
	nlogs   int
}

func newCropEnv() *cropEnv {
	e := &cropEnv{session: hermes.NewHermesSession(), logs: make(chan string, 4096)}
	return e
}
func (e *cropEnv) drain() {
	for {
		select {
		case <-e.logs:
			e.nlogs++
		default:
			return
		}
	}
}

// newG returns a fresh model state; prior != nil pre-loads a crop state; repeat = the crop is the
// same as the previous one and it is at least the third rotation entry (the "keep initial masses"
// condition of a permanent crop, cropparam.go:180,186,329,335).
// pos (optional): 1 = the crop is the second rotation entry and equals the pre-crop entry (NOT a regrowing stand: the condition
// of the readers is "at least the third entry"), 2 = third entry after a different crop.
func (e *cropEnv) newG(prior *hermes.VerifCropState, repeat bool, pos ...int) (*hermes.GlobalVarsMain, *hermes.CropSharedVars) {
	g := hermes.NewGlobalVarsMain()
	g.Session = e.session
	g.DEBUGCHANNEL = e.logs
	l := &hermes.CropSharedVars{}
	if prior != nil {
		hermes.VerifCropLoad(prior, &g, l)
	}
	if repeat {
		g.AKF.SetByIndex(2)
		g.FRUCHT[1] = hermes.SM
		g.FRUCHT[2] = hermes.SM
	} else if len(pos) > 0 && pos[0] == 1 {
		g.AKF.SetByIndex(1)
		g.FRUCHT[0] = hermes.SM
		g.FRUCHT[1] = hermes.SM
	} else if len(pos) > 0 && pos[0] == 2 {
		g.AKF.SetByIndex(2)
		g.FRUCHT[0] = hermes.SM
		g.FRUCHT[1] = hermes.WW
		g.FRUCHT[2] = hermes.SM
	}
	return &g, l
}

func (e *cropEnv) readClassic(path string, prior *hermes.VerifCropState, repeat bool, pos ...int) hermes.VerifCropState {
	g, l := e.newG(prior, repeat, pos...)
	hermes.ReadCropParamClassic(path, l, g)
	e.drain()
	return hermes.VerifCropDump(g, l)
}
func (e *cropEnv) readYml(path string, prior *hermes.VerifCropState, repeat bool, pos ...int) hermes.VerifCropState {
	g, l := e.newG(prior, repeat, pos...)
	hermes.ReadCropParamYml(path, l, g)
	e.drain()
	return hermes.VerifCropDump(g, l)
}

// a prior state in which every field the readers may leave untouched holds a recognisable value
func junkCropState() *hermes.VerifCropState {
	s := &hermes.VerifCropState{RGA: 0.046694, RGB: 0.5294, SubOrgan: 4, GEHOB: 0.031, WUGEH: 0.012, PHYLLO: 812.5, VERNTAGE: 17,
		TROOTSUM: 333, KcIni: 0.7, Tendsum: 1999, MAXAMAX: 47, MINTMP: 2, WUMAXPF: 9, VELOC: 0.004, YIFAK: 0.5,
		TempTyp: 2, NGEFKT: 5, YORGAN: 3, NRKOM: 5, NRENTW: 10, DOUBLE: 100, ASIP: 120, BLUET: 150, REIF: 200, ENDPRO: 7,
		DAUERKULT: true, LEGUM: true, UseBBCH: true, AboveGroundOrgans: []int{2, 3, 4, 5}}
	for i := 0; i < 5; i++ {
		s.WORG[i] = 100 + float64(i)
	}
	for i := 0; i < 10; i++ {
		f := float64(i)
		s.WDORG[i], s.MAIRT[i], s.SUM[i], s.TSUM[i], s.BAS[i], s.VSCHWELL[i], s.DAYL[i], s.DLBAS[i] = 7+f, 0.011+f/1000, 40+f, 300+f, 1+f/10, 10+f, 12+f/10, 6+f/10
		s.DRYSWELL[i], s.LUKRIT[i], s.LAIFKT[i], s.WGMAX[i], s.Kc[i], s.ENDBBCH[i] = 0.5+f/100, 0.04+f/1000, 0.001+f/10000, 0.01+f/1000, 0.9+f/100, 10+f
		s.DEV[i] = 90 + i
		for k := 0; k < 5; k++ {
			s.PRO[i][k] = 0.11 + f/100 + float64(k)/1000
			s.DEAD[i][k] = 0.021 + f/1000 + float64(k)/10000
		}
	}
	return s
}

// diffStates lists the fields (with index) on which two dumps differ; floats bit-wise, NaN = NaN.
func diffStates(a, b interface{}) []string {
	var out []string
	var walk func(name string, x, y reflect.Value)
	walk = func(name string, x, y reflect.Value) {
		switch x.Kind() {
		case reflect.Struct:
			for i := 0; i < x.NumField(); i++ {
				if !x.Type().Field(i).IsExported() {
					continue
				}
				n := x.Type().Field(i).Name
				if name != "" {
					n = name + "." + n
				}
				walk(n, x.Field(i), y.Field(i))
			}
		case reflect.Array:
			for i := 0; i < x.Len(); i++ {
				walk(fmt.Sprintf("%s[%d]", name, i), x.Index(i), y.Index(i))
			}
		case reflect.Slice:
			if x.Len() != y.Len() {
				out = append(out, name+":len")
				return
			}
			for i := 0; i < x.Len(); i++ {
				walk(fmt.Sprintf("%s[%d]", name, i), x.Index(i), y.Index(i))
			}
		case reflect.Float64:
			fx, fy := x.Float(), y.Float()
			if math.Float64bits(fx) != math.Float64bits(fy) && !(math.IsNaN(fx) && math.IsNaN(fy)) && !(fx == 0 && fy == 0) {
				out = append(out, name)
			}
		default:
			if !reflect.DeepEqual(x.Interface(), y.Interface()) {
				out = append(out, name)
			}
		}
	}
	walk("", reflect.ValueOf(a), reflect.ValueOf(b))
	return out
}

// fieldBase strips the index: "PRO[3][1]" -> "PRO".
func fieldBase(f string) string {
	if i := strings.IndexAny(f, "[:"); i >= 0 {
		return f[:i]
	}
	return f
}

func fieldClasses(fs []string) string {
	seen := map[string]bool{}
	var ks []string
	for _, f := range fs {
		b := fieldBase(f)
		if !seen[b] {
			seen[b] = true
			ks = append(ks, b)
		}
	}
	sort.Strings(ks)
	return strings.Join(ks, "+")
}

// ---------------------------------------------------------------- classic file: tokeniser

type stageTok struct {
	HasBBCH                                                           bool
	BBCHVal                                                           float64
	TSUM, BAS, VSCHWELL, DAYL, DLBAS, DRYSWELL, LUKRIT, LAIFKT, WGMAX float64
	PRO, DEAD                                                         [5]float64
	Kc                                                                float64
}

// classicTok is the token record of a classic crop file: what the fixed columns contain after
// number parsing, before any interpretation by a reader.
type classicTok struct {
	MAXAMAX                float64
	TempTyp                int
	MINTMP, WUMAXPF, VELOC float64
	NGEFKT                 int
	HasA, HasB, HasOrg     bool
	A, B                   float64
	Org                    int
	Above                  []int
	YORGAN                 int
	YIFAK, INITB, INITR    float64
	NRKOM                  int
	Dauer, Legum           bool
	WORG, MAIRT            [5]float64
	KcIni                  float64
	NRENTW                 int
	Stages                 []stageTok
}

func readLines(path string) ([]string, error) {
	f, err := os.Open(path)
	if err != nil {
		return nil, err
	}
	defer f.Close()
	var out []string
	sc := bufio.NewScanner(f)
	for sc.Scan() {
		out = append(out, sc.Text())
	}
	return out, sc.Err()
}

func pf(s string) (float64, error) { return strconv.ParseFloat(strings.TrimSpace(s), 64) }
func pi(s string) (int, error) {
	v, err := strconv.ParseInt(strings.TrimSpace(s), 10, 64)
	return int(v), err
}

func tailFmt(line string, from int) string {
	if len(line) < from {
		return ""
	}
	return line[from:]
}

// tokeniseClassic extracts the token record; any unparsable mandatory number is an error.
func tokeniseClassic(lines []string) (t classicTok, err error) {
	defer func() {
		if r := recover(); r != nil {
			err = fmt.Errorf("tokeniser: %v", r)
		}
	}()
	must := func(v float64, e error) float64 {
		if e != nil {
			panic(e)
		}
		return v
	}
	musti := func(v int, e error) int {
		if e != nil {
			panic(e)
		}
		return v
	}
	t.MAXAMAX = must(pf(tailFmt(lines[3], 65)))
	t.TempTyp = musti(pi(tailFmt(lines[4], 65)))
	t.MINTMP = must(pf(tailFmt(lines[5], 65)))
	t.WUMAXPF = must(pf(tailFmt(lines[6], 65)))
	t.VELOC = must(pf(tailFmt(lines[7], 65)))
	t.NGEFKT = musti(pi(tailFmt(lines[8], 65)))
	for _, tok := range strings.Fields(lines[8]) {
		switch {
		case strings.HasPrefix(tok, "a="):
			t.HasA, t.A = true, must(pf(strings.Split(tok, "=")[1]))
		case strings.HasPrefix(tok, "b="):
			t.HasB, t.B = true, must(pf(strings.Split(tok, "=")[1]))
		case strings.HasPrefix(tok, "org="):
			t.HasOrg, t.Org = true, musti(pi(strings.Split(tok, "=")[1][1:]))
		}
	}
	ab := strings.TrimSpace(tailFmt(lines[9], 65))
	for i := 0; i < len(ab); i++ {
		t.Above = append(t.Above, musti(pi(ab[i:i+1])))
	}
	t.YORGAN = musti(pi(lines[10][65:66]))
	t.YIFAK = must(pf(lines[10][66:]))
	t.INITB = must(pf(tailFmt(lines[11], 65)))
	t.INITR = must(pf(tailFmt(lines[12], 65)))
	t.NRKOM = musti(pi(tailFmt(lines[13], 65)))
	r := []rune(lines[15])
	t.Dauer = r[32] == 'D'
	t.Legum = r[40] == 'L'
	slot := func(line string, k int) string { return line[25+8*(k+1) : 30+8*(k+1)] }
	for k := 0; k < 5 && k < t.NRKOM; k++ {
		t.WORG[k] = must(pf(string(r[25+8*(k+1) : 30+8*(k+1)])))
		t.MAIRT[k] = must(pf(slot(lines[16], k)))
	}
	t.KcIni = must(pf(tailFmt(lines[17], 65)))
	t.NRENTW = musti(pi(tailFmt(lines[18], 65)))
	for i := 0; i < t.NRENTW; i++ {
		b := 19 + 13*i
		var s stageTok
		if len(lines[b]) > 65 {
			if v, e := pf(lines[b][65:]); e == nil {
				s.HasBBCH, s.BBCHVal = true, v
			}
		}
		s.TSUM = must(pf(tailFmt(lines[b+1], 65)))
		s.BAS = must(pf(tailFmt(lines[b+2], 65)))
		s.VSCHWELL = must(pf(tailFmt(lines[b+3], 65)))
		s.DAYL = must(pf(tailFmt(lines[b+4], 65)))
		s.DLBAS = must(pf(tailFmt(lines[b+5], 65)))
		s.DRYSWELL = must(pf(tailFmt(lines[b+6], 65)))
		s.LUKRIT = must(pf(tailFmt(lines[b+7], 65)))
		s.LAIFKT = must(pf(tailFmt(lines[b+8], 65)))
		s.WGMAX = must(pf(tailFmt(lines[b+9], 65)))
		for k := 0; k < 5 && k < t.NRKOM; k++ {
			s.PRO[k] = must(pf(slot(lines[b+10], k)))
			s.DEAD[k] = must(pf(slot(lines[b+11], k)))
		}
		s.Kc = must(pf(tailFmt(lines[b+12], 65)))
		t.Stages = append(t.Stages, s)
	}
	return t, nil
}

// ---------------------------------------------------------------- classic file: editing one field

func setTail(line string, from int, text string) string {
	for len(line) < from {
		line += " "
	}
	return line[:from] + text
}

func setSlot(line string, k int, text string) string {
	a, b := 25+8*(k+1), 30+8*(k+1)
	for len(line) < b {
		line += " "
	}
	return line[:a] + text + line[b:]
}

// editClassic applies "parameter := text" to a copy of the lines of a classic crop file.
// stage and part are 1-based (0 = not applicable). The text must fit the column for PRO/DEAD (5 chars).
func editClassic(lines []string, name string, stage, part int, text string) ([]string, error) {
	out := append([]string{}, lines...)
	baseLine := map[string]int{"MAXAMAX": 3, "MINTMP": 5, "WUMAXPF": 6, "VELOC": 7, "INITCONCNBIOM": 11, "INITCONCNROOT": 12}
	stageOff := map[string]int{"TSUM": 1, "BAS": 2, "VSCHWELL": 3, "DAYL": 4, "DLBAS": 5, "DRYSWELL": 6, "LUKRIT": 7, "LAIFKT": 8, "WGMAX": 9, "KC": 12}
	if ln, ok := baseLine[name]; ok {
		out[ln] = setTail(out[ln], 65, " "+text)
		return out, nil
	}
	if name == "YIFAK" {
		out[10] = setTail(out[10], 66, text)
		return out, nil
	}
	if off, ok := stageOff[name]; ok {
		ln := 19 + 13*(stage-1) + off
		if ln >= len(out) {
			return nil, fmt.Errorf("stage %d beyond the file", stage)
		}
		out[ln] = setTail(out[ln], 65, " "+text)
		return out, nil
	}
	if name == "PRO" || name == "DEAD" {
		if len(text) != 5 {
			return nil, fmt.Errorf("value %q does not fit the 5-character column", text)
		}
		off := 10
		if name == "DEAD" {
			off = 11
		}
		ln := 19 + 13*(stage-1) + off
		if ln >= len(out) {
			return nil, fmt.Errorf("stage %d beyond the file", stage)
		}
		out[ln] = setSlot(out[ln], part-1, text)
		return out, nil
	}
	return nil, fmt.Errorf("unknown parameter %s", name)
}

// ---------------------------------------------------------------- protocol encoders

func b2iFmt(b bool) int {
	if b {
		return 1
	}
	return 0
}

func fl(xs []float64) string {
	p := make([]string, len(xs))
	for i, x := range xs {
		p[i] = vh.FHex(x)
	}
	return strings.Join(p, " ")
}

func il(xs []int) string {
	p := make([]string, len(xs))
	for i, x := range xs {
		p[i] = strconv.Itoa(x)
	}
	return strings.Join(p, " ")
}

// stateLine: the full dump in the order documented in lean/Driver/CropparamOps.lean.
func stateLine(s *hermes.VerifCropState) string {
	var b strings.Builder
	b.WriteString(fl([]float64{s.MAXAMAX, s.MINTMP, s.WUMAXPF, s.VELOC, s.RGA, s.RGB, s.YIFAK, s.GEHOB, s.WUGEH, s.PHYLLO, s.VERNTAGE, s.TROOTSUM, s.KcIni, s.Tendsum}))
	b.WriteString(" " + il([]int{s.TempTyp, s.NGEFKT, s.SubOrgan, s.YORGAN, s.NRKOM, s.NRENTW, s.DOUBLE, s.ASIP, s.BLUET, s.REIF, s.ENDPRO, b2iFmt(s.DAUERKULT), b2iFmt(s.LEGUM), b2iFmt(s.UseBBCH)}))
	fmt.Fprintf(&b, " %d", len(s.AboveGroundOrgans))
	if len(s.AboveGroundOrgans) > 0 {
		b.WriteString(" " + il(s.AboveGroundOrgans))
	}
	b.WriteString(" " + fl(s.WORG[:]) + " " + fl(s.WDORG[:]) + " " + fl(s.MAIRT[:]))
	for _, a := range [][10]float64{s.SUM, s.TSUM, s.BAS, s.VSCHWELL, s.DAYL, s.DLBAS, s.DRYSWELL, s.LUKRIT, s.LAIFKT, s.WGMAX, s.Kc, s.ENDBBCH} {
		b.WriteString(" " + fl(a[:]))
	}
	b.WriteString(" " + il(s.DEV[:]))
	for i := 0; i < 10; i++ {
		b.WriteString(" " + fl(s.PRO[i][:]))
	}
	for i := 0; i < 10; i++ {
		b.WriteString(" " + fl(s.DEAD[i][:]))
	}
	return b.String()
}

func classicLine(t *classicTok) string {
	var b strings.Builder
	fmt.Fprintf(&b, "%s %d %s %s %s %d %d %s %d %s %d %d %d", vh.FHex(t.MAXAMAX), t.TempTyp, vh.FHex(t.MINTMP), vh.FHex(t.WUMAXPF), vh.FHex(t.VELOC),
		t.NGEFKT, b2iFmt(t.HasA), vh.FHex(t.A), b2iFmt(t.HasB), vh.FHex(t.B), b2iFmt(t.HasOrg), t.Org, len(t.Above))
	if len(t.Above) > 0 {
		b.WriteString(" " + il(t.Above))
	}
	fmt.Fprintf(&b, " %d %s %s %s %d %d %d %s %s %s %d", t.YORGAN, vh.FHex(t.YIFAK), vh.FHex(t.INITB), vh.FHex(t.INITR), t.NRKOM, b2iFmt(t.Dauer), b2iFmt(t.Legum),
		fl(t.WORG[:]), fl(t.MAIRT[:]), vh.FHex(t.KcIni), t.NRENTW)
	for _, s := range t.Stages {
		fmt.Fprintf(&b, " %d %s %s %s %s %s", b2iFmt(s.HasBBCH), vh.FHex(s.BBCHVal),
			fl([]float64{s.TSUM, s.BAS, s.VSCHWELL, s.DAYL, s.DLBAS, s.DRYSWELL, s.LUKRIT, s.LAIFKT, s.WGMAX}), fl(s.PRO[:]), fl(s.DEAD[:]), vh.FHex(s.Kc))
	}
	return b.String()
}

func ymlLine(y *hermes.CropParam) string {
	var b strings.Builder
	fmt.Fprintf(&b, "%s %d %s %s %s %d %s %s %d %d", vh.FHex(y.MAXAMAX), y.TempTyp, vh.FHex(y.MINTMP), vh.FHex(y.WUMAXPF), vh.FHex(y.VELOC),
		y.NGEFKT, vh.FHex(y.RGA), vh.FHex(y.RGB), y.SubOrgan, len(y.AboveGroundOrgans))
	if len(y.AboveGroundOrgans) > 0 {
		b.WriteString(" " + il(y.AboveGroundOrgans))
	}
	fmt.Fprintf(&b, " %d %s %s %s %d %d %d %s %s %s %d %d", y.YORGAN, vh.FHex(y.YIFAK), vh.FHex(y.INITCONCNBIOM), vh.FHex(y.INITCONCNROOT), y.NRKOM,
		b2iFmt(bool(y.DAUERKULT)), b2iFmt(bool(y.LEGUM)), vh.FList(y.WORG), vh.FList(y.MAIRT), vh.FHex(y.KcIni), y.NRENTW, len(y.CropDevelopmentStages))
	for _, s := range y.CropDevelopmentStages {
		fmt.Fprintf(&b, " %d %s %s %s %s", s.ENDBBCH,
			fl([]float64{s.TSUM, s.BAS, s.VSCHWELL, s.DAYL, s.DLBAS, s.DRYSWELL, s.LUKRIT, s.LAIFKT, s.WGMAX}), vh.FList(s.PRO), vh.FList(s.DEAD), vh.FHex(s.Kc))
	}
	return b.String()
}
