/-
Model of the configuration overlay of a HERMES run (C14):

* `NewDefaultConfig()`                      hermes/config.go:195-243  → `defaults` (table regenerated from the source)
* `yaml.Unmarshal(file, &hconfig)`          hermes/config.go:84-90    → `applyFile`
* the argument map of `Run`                 hermes/run.go:37-43       → `argMap`
* `commandlineOverride(argValues, &hconfig)` hermes/config.go:150-192 → `overrideAll`
* the post-processing of `readConfig`       hermes/config.go:125-143  → `finalize`

A configuration is the list of the fields of `type Config struct` in declaration order with their
current value (`Table`).  Values are typed by the kind reflection sees.  The float type `F` is a
parameter (no arithmetic happens here); `strconv.ParseFloat` and the scalar decoding of the YAML
library are inputs of the model (`pf`, `FileVal`), `strconv.ParseInt(·, 10, 64)` is modelled
exactly.  Core Lean only.
-/
import HermesModel.Generated.ConfigFacts
namespace Hermes.Config

/-- value of one configuration field -/
inductive Val (F : Type) where
  | float (x : F)
  | int (i : Int)
  | text (s : String)
  | switch (b : Bool)
  | other
  deriving Repr, DecidableEq

/-- a configuration: (field name, value) in declaration order -/
abbrev Table (F : Type) := List (String × Val F)

/-- first entry with the key (`reflect.Value.FieldByName`, Go map read) -/
def lookup {β : Type} : List (String × β) → String → Option β
  | [], _ => none
  | (n, x) :: r, k => if n = k then some x else lookup r k

section
variable {F : Type}

/-! ### defaults -/

def ofLit [OfScientific F] [Neg F] : CfgLit → Val F
  | .float neg m e =>
    let x : F := OfScientific.ofScientific m true e
    .float (if neg then -x else x)
  | .int i => .int i
  | .text s => .text s
  | .switch b => .switch b
  | .other => .other

/-- `NewDefaultConfig()` -/
def defaults [OfScientific F] [Neg F] : Table F :=
  Generated.configFields.map fun e => (e.1, ofLit e.2.1)

/-- name of the YAML text codec of a field ("" = plain scalar) -/
def codecOf (k : String) : String :=
  match lookup Generated.configFields k with
  | some e => e.2
  | none => ""

/-- `featureSwitchStrToID[text]` with the comma-ok flag -/
def switchOf (text : String) : Option Bool := lookup Generated.switchSpellings text

/-- `toID[text]` / `dateStrToID[text]`: a missing text gives the zero value -/
def enumOf (codec text : String) : Int :=
  match lookup Generated.configEnums codec with
  | some tbl => (lookup tbl text).getD 0
  | none => 0

/-! ### strconv.ParseInt(s, 10, 64) -/

def digitsVal : List Char → Option Nat
  | [] => none
  | cs => cs.foldl (fun acc c => match acc with
      | some a => if '0' ≤ c ∧ c ≤ '9' then some (a * 10 + (c.toNat - 48)) else none
      | none => none) (some 0)

/-- optional sign, at least one decimal digit, nothing else, value within int64 -/
def parseInt64 (s : String) : Option Int :=
  let cs := s.toList
  let sd : Bool × List Char := match cs with
    | '-' :: r => (true, r)
    | '+' :: r => (false, r)
    | _ => (false, cs)
  match digitsVal sd.2 with
  | none => none
  | some n =>
    let v : Int := if sd.1 then -(n : Int) else (n : Int)
    if -9223372036854775808 ≤ v ∧ v ≤ 9223372036854775807 then some v else none

/-! ### the command-line override (config.go:150-192) -/

/-- one field, one argument text: `none` = the parse error that ends in `log.Fatalf`.
An on/off key with a text outside the spelling table keeps its value (config.go:181-185). -/
def overrideVal (pf : String → Option F) (old : Val F) (text : String) : Option (Val F) :=
  match old with
  | .float _ => (pf text).map .float
  | .int _ => (parseInt64 text).map .int
  | .text _ => some (.text text)
  | .switch b => some (.switch ((switchOf text).getD b))
  | .other => some .other

/-- `f := v.FieldByName(argKey)`; unknown key: nothing happens -/
def overrideKey (pf : String → Option F) : Table F → String → String → Option (Table F)
  | [], _, _ => some []
  | (n, x) :: r, k, v =>
    if n = k then (overrideVal pf x v).map fun y => (n, y) :: r
    else (overrideKey pf r k v).map fun r' => (n, x) :: r'

/-- `for argKey, argVal := range argValues` (in the order of the list; the Go map order is random —
`HermesProofs.Config.overrideAll_perm` shows that the order is irrelevant) -/
def overrideAll (pf : String → Option F) : Table F → List (String × String) → Option (Table F)
  | t, [] => some t
  | t, (k, v) :: m =>
    match overrideKey pf t k v with
    | none => none
    | some t' => overrideAll pf t' m

/-! ### the argument map (run.go:37-43) -/

/-- `argValues[k] = v` -/
def insertArg : List (String × String) → String → String → List (String × String)
  | [], k, v => [(k, v)]
  | (n, x) :: r, k, v => if n = k then (n, v) :: r else (n, x) :: insertArg r k v

/-- fold of key/value pairs into the map: the last value of a key wins -/
def argMapKV (kvs : List (String × String)) : List (String × String) :=
  kvs.foldl (fun m kv => insertArg m kv.1 kv.2) []

/-- the pieces of `strings.Split(token, "=")` (never empty; n separators give n+1 pieces) -/
def splitEq : List Char → List (List Char)
  | [] => [[]]
  | c :: r =>
    match splitEq r with
    | [] => [[c]]
    | p :: ps => if c = '=' then [] :: p :: ps else (c :: p) :: ps

/-- `splitup := strings.Split(token, "="); if len(splitup) == 2` -/
def splitToken (tok : String) : Option (String × String) :=
  match splitEq tok.toList with
  | [k, v] => some (String.ofList k, String.ofList v)
  | _ => none

def argMap (toks : List String) : List (String × String) := argMapKV (toks.filterMap splitToken)

/-! ### the configuration file -/

/-- one `key: scalar` entry of config.yml as the YAML library decodes the scalar into a string, a
float64 and an int (`none` = the library reports a type error, which ends in `log.Fatalf`) -/
structure FileVal (F : Type) where
  str : Option String
  num : Option F
  int : Option Int

/-- decoding into a field that already holds `old`; `codec` selects `UnmarshalYAML` of the
enumeration types; on/off keys: `*s = featureSwitchStrToID[j]` (unknown text gives false) -/
def decodeFile (codec : String) (old : Val F) (fv : FileVal F) : Option (Val F) :=
  match old with
  | .float _ => fv.num.map .float
  | .int _ => if codec = "" then fv.int.map .int else fv.str.map fun s => .int (enumOf codec s)
  | .text _ => fv.str.map .text
  | .switch _ => fv.str.map fun s => .switch ((switchOf s).getD false)
  | .other => some .other

/-- keys of the file that are no fields are ignored; absent keys keep their value -/
def applyFile : Table F → List (String × FileVal F) → Option (Table F)
  | [], _ => some []
  | (n, x) :: r, file =>
    match (match lookup file n with
           | none => some x
           | some fv => decodeFile (codecOf n) x fv), applyFile r file with
    | some y, some r' => some ((n, y) :: r')
    | _, _ => none

/-! ### effective configuration -/

/-- defaults, then the file, then the arguments (as key/value pairs) -/
def effectiveKV (pf : String → Option F) (dflt : Table F) (file : List (String × FileVal F))
    (kvs : List (String × String)) : Option (Table F) :=
  match applyFile dflt file with
  | none => none
  | some t => overrideAll pf t (argMapKV kvs)

/-- the same from the raw tokens of the batch line -/
def effective (pf : String → Option F) (dflt : Table F) (file : List (String × FileVal F))
    (toks : List String) : Option (Table F) :=
  effectiveKV pf dflt file (toks.filterMap splitToken)

/-! ### post-processing in readConfig (config.go:125-143) -/

/-- apply `f` to the text of field `k` -/
def updText (k : String) (f : String → String) : Table F → Table F
  | [] => []
  | (n, x) :: r =>
    if n = k then (n, match x with | .text s => .text (f s) | y => y) :: r
    else (n, x) :: updText k f r

def textOf (t : Table F) (k : String) : String :=
  match lookup t k with
  | some (.text s) => s
  | _ => ""

def intOf (t : Table F) (k : String) : Int :=
  match lookup t k with
  | some (.int i) => i
  | _ => 0

/-- `strings.TrimPrefix(s, ".")` -/
def trimDot (s : String) : String :=
  match s.toList with
  | '.' :: r => String.ofList r
  | _ => s

def finalize (root : String) (t : Table F) : Table F :=
  let t := updText "WeatherFolder" (fun s => if s.isEmpty then "Weather" else s) t
  let t := updText "WeatherRootFolder" (fun s => if s.isEmpty then root else s) t
  let t := updText "WeatherRootFolder"
    (fun s => if s.startsWith "./" || s.startsWith ".\\" then root ++ trimDot s else s) t
  let ext := if intOf t "ResultFileFormat" = 1 then "csv" else "RES"
  updText "ResultFileExt" (fun s => if s.isEmpty then ext else s) t

end
end Hermes.Config
