import HermesModel.Proto
import HermesModel.Water
import HermesModel.Substeps
open Hermes Hermes.Proto

namespace Hermes.Driver

/-- `water.step N first draidep outn  dz wdt fluss0 grw draifak gwauf evTail q0prev  wg[N] tp[N] w[N]
wmin[N] ev[N] nfk[N] caps[21]` -/
def waterStep (full : Bool) (toks : List String) : Option String := do
  let (n, r) ← popNat toks
  let (first, r) ← popNat r
  let (draidep, r) ← popNat r
  let (outn, r) ← popNat r
  let (sc, r) ← popFloats 8 r
  let (wg, r) ← popFloats n r
  let (tp, r) ← popFloats n r
  let (w, r) ← popFloats n r
  let (wmin, r) ← popFloats n r
  let (ev, r) ← popFloats n r
  let (nfk, r) ← popFloats n r
  let (caps, _) ← popFloats 21 r
  match sc with
  | [dz, wdt, fluss0, grw, draifak, gwauf, evTail, q0prev] =>
    let i : Water.In Float := { dz, wdt, first := first == 1, fluss0, wg, tp, w, wmin, ev, evTail, nfk, caps,
                                grw, draidep, draifak, outn, gwauf, q0prev }
    let o := Water.step i
    some (fmtFloats (o.wg1 ++ o.tp ++ o.ev ++ [o.evTail] ++ o.q1 ++
      (if full then [o.qdrain, o.dSicker, o.dCapsum, o.dDraisum, o.dInfilt, o.dTrans] else [o.qdrain])))
  | _ => none

/-- `water.substeps N dz fluss0 regen w[N] wg0[N]` → `wdt steps` -/
def waterSubsteps (toks : List String) : Option String := do
  let (n, r) ← popNat toks
  let (sc, r) ← popFloats 3 r
  let (w, r) ← popFloats n r
  let (wg, _) ← popFloats n r
  match sc with
  | [dz, fluss0, regen] =>
    let o := Water.substeps ({ dz, fluss0, regen, w, wg } : Water.SubIn Float)
    some (fmtFloats [o.1, Conv.ofNat o.2])
  | _ => none

def waterOps (toks : List String) : String :=
  match toks with
  | "water.step" :: rest => (waterStep true rest).getD "bad-op"
  -- the same call without the accumulator increments (inside a run they are only observable as
  -- differences of large running sums, which is checked separately with a magnitude-scaled tolerance)
  | "water.stepr" :: rest => (waterStep false rest).getD "bad-op"
  | "water.substeps" :: rest => (waterSubsteps rest).getD "bad-op"
  | _ => "bad-op"

end Hermes.Driver
