/-
C15, field capacity under a groundwater table, stated about the *translation of the current source* of `setFieldCapacityWithGW`
(hermes/init.go, translator v2; executed against the compiled function by the srcimp stage of C15).
-/
import HermesProofs.ImpSetFC

namespace Hermes.Generated.Imp.setFieldCapacityWithGW
open Hermes.Imp

/-- **Field capacity stays at or below the pore volume, and is never lowered, when the groundwater table is applied** (source level):
for every groundwater level with `int(GRW+1) ≥ 1` and `math.Mod(GRW+1, 1) ∈ [0,1]` (named hypotheses about Go's conversions), any
number of layers inside the arrays, and field capacities that start at or below the pore volumes. -/
theorem C15_source_setfc_bounds (m : MathFns ℚ) (s : St ℚ) (hm : ModOK m s) (hf : FirstOK m s) (hN : s.g_N.toNat ≤ s.g_W.length)
    (hw : ∀ j : Int, rd s.g_W j ≤ rd s.g_PORGES j) (j : Int) :
    rd s.g_W j ≤ rd (run m s).g_W j ∧ rd (run m s).g_W j ≤ rd s.g_PORGES j :=
  run_bounds m s hm hf hN hw j

/-- the wilting point ordering survives: a lower bound of the old field capacity is a lower bound of the new one -/
theorem C15_source_setfc_keeps_lower_bounds (m : MathFns ℚ) (s : St ℚ) (hm : ModOK m s) (hf : FirstOK m s) (hN : s.g_N.toNat ≤ s.g_W.length)
    (hw : ∀ j : Int, rd s.g_W j ≤ rd s.g_PORGES j) (j : Int) (wmin : ℚ) (h : wmin ≤ rd s.g_W j) : wmin ≤ rd (run m s).g_W j :=
  le_trans h (run_bounds m s hm hf hN hw j).1

/-- non-vacuity: table at 1.5 dm in a three-layer profile: layer 2 becomes the mean of its field capacity and pore volume, layer 3
the pore volume -/
def demoMath : MathFns ℚ where
  exp := id
  log := id
  pow := fun x _ => x
  mod := fun _ _ => 1 / 2
  sqrt := id
  sin := id
  cos := id
  tan := id
  asin := id
  acos := id
  atan := id
  abs := id
  max := fun x _ => x
  min := fun x _ => x
  round := id
  floor := id
  ceil := id
  ofInt := fun i => (i : ℚ)
  toInt := fun _ => 2

def demoState : St ℚ := { g_GRW := 3 / 2, g_N := 3, g_W := [3 / 10, 3 / 10, 3 / 10], g_PORGES := [4 / 10, 4 / 10, 4 / 10] }

example : ModOK demoMath demoState ∧ FirstOK demoMath demoState := by
  unfold ModOK FirstOK demoMath; norm_num
example : (run demoMath demoState).g_W = [3 / 10, 7 / 20, 4 / 10] := by
  decide +kernel

end Hermes.Generated.Imp.setFieldCapacityWithGW
