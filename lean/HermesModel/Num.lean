/-
Arithmetic interface of the numeric models.  The kernels of HERMES are written once, over any
type `α` with the usual notation classes (core Lean only), and are

* instantiated at `Float` (IEEE binary64 = Go's float64) in the driver, to be run against the Go
  code by the correspondence check, and
* instantiated at `ℚ` in the proof modules, where the theorems are exact-arithmetic statements.

`Conv α` collects the conversions between numbers and indices (Go's `float64(i)`, `int(x)`,
`math.Round`, `math.Ceil`).  They are opaque to the algebraic theorems.
-/
namespace Hermes

class Conv (α : Type) where
  /-- Go `float64(n)` for a non-negative int -/
  ofNat : Nat → α
  /-- Go `int(math.Round(x))` for x ≥ 0 (half away from zero), clamped at 0 below -/
  roundNat : α → Nat
  /-- Go `int(x)` (truncation) for x ≥ 0, clamped at 0 below -/
  truncNat : α → Nat
  /-- Go `math.Ceil(x)` as a number -/
  ceil : α → α

instance : Conv Float where
  ofNat n := n.toFloat
  roundNat x := if x ≤ 0 then 0 else (Float.round x).toUInt64.toNat
  truncNat x := if x ≤ 0 then 0 else (Float.floor x).toUInt64.toNat
  ceil x := Float.ceil x

section
variable {α : Type}

/-- sum of a list, left to right starting from `z` (the order of the Go loops) -/
def sumFrom [Add α] (z : α) : List α → α
  | [] => z
  | x :: xs => sumFrom (z + x) xs

end
end Hermes
