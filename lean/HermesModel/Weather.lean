/-
Model of the weather input of HERMES (hermes/weather_input.go), as the code is.

Two layers.

* Indexing layer (`Rec`, `Store`, `readMulti`, `readYearFile`, `loadYear`): which record ends up in
  which slot of the per-year arrays.  A data line is abstracted to (calendar year, day of the year,
  payload); the per-year arrays `s.X[yearIdx][dayIdx]`, `s.JAR[yearIdx]`, `s.MaxYearDays[yearIdx]`
  are write logs (newest first; a slot never written reads as the zero value = `none` / `0`).
  `readMulti` is the loop of `ReadWeatherCSV` (weather_input.go:345-437) and of `ReadWeatherCZ`
  (:486-577), which index identically; `readYearFile` is the loop of `WetterK` (:148-172).
* Numeric layer (`replaceMissing`, `transform`, polymorphic in the arithmetic): the in-place passes of
  weather_input.go:585-674 over the first `yrz` year arrays.

Core Lean only; executable (driver ops `weather.*`).
-/
import HermesModel.Num
namespace Hermes.Weather

/-! ### indexing layer -/

/-- One data line: calendar year and day of the year (`time.YearDay()`) of its date, payload.
`Day()==1 && Month()==January` of the Go code is `doy = 1`. -/
structure Rec (π : Type) where
  year : Nat
  doy : Nat
  val : π
  /-- the date token of the line did not parse (`time.Parse` returned an error) -/
  bad : Bool := false
  deriving Repr, DecidableEq

/-- newest-first write log of a two-index array -/
def lookup2 {π : Type} (i j : Nat) : List (Nat × Nat × π) → Option π
  | [] => none
  | (a, b, v) :: r => if a = i ∧ b = j then some v else lookup2 i j r

/-- newest-first write log of an int array (zero-initialised) -/
def lookup1 (i : Nat) : List (Nat × Nat) → Nat
  | [] => 0
  | (a, v) :: r => if a = i then v else lookup1 i r

/-- `WeatherDataShared`: the per-year arrays (one payload per slot), `JAR`, `MaxYearDays`. -/
structure Store (π : Type) where
  cells : List (Nat × Nat × π) := []
  jar : List (Nat × Nat) := []
  maxd : List (Nat × Nat) := []

namespace Store
variable {π : Type}
def get (s : Store π) (i j : Nat) : Option π := lookup2 i j s.cells
def jarAt (s : Store π) (i : Nat) : Nat := lookup1 i s.jar
def maxAt (s : Store π) (i : Nat) : Nat := lookup1 i s.maxd
/-- the writes of one loop body of the multi-year readers (weather_input.go:423-434 / :558-571) -/
def put (s : Store π) (i j : Nat) (v : π) (year T : Nat) : Store π :=
  { cells := (i, j, v) :: s.cells, jar := (i, year) :: s.jar, maxd := (i, T) :: s.maxd }
/-- the writes of one loop body of `WetterK` (weather_input.go:156-171): slot 0 only, JAR untouched -/
def put0 (s : Store π) (j : Nat) (v : π) (T : Nat) : Store π :=
  { s with cells := (0, j, v) :: s.cells, maxd := (0, T) :: s.maxd }
def setJar (s : Store π) (i year : Nat) : Store π := { s with jar := (i, year) :: s.jar }
end Store

/-- `daysInYear` (weather_input.go): `time.Date(year, 12, 31).YearDay()`, Gregorian calendar -/
def daysInYear (y : Nat) : Nat := if y % 4 = 0 ∧ (y % 100 ≠ 0 ∨ y % 400 = 0) then 366 else 365

/-- loop state of `ReadWeatherCSV` / `ReadWeatherCZ` -/
structure MState (π : Type) where
  T : Nat := 0
  yrz : Nat := 0
  first : Bool := true
  store : Store π := {}

inductive StepRes (π : Type) where
  | cont (s : MState π)
  | stop (s : MState π)     -- `break`: more years in the file than were allocated
  | gap                     -- `return` with an error: missing days, or a date that did not parse

/-- (T, yrz) after the first-record fail-safe and the year switch (weather_input.go:408-416). -/
def advance (first : Bool) (T yrz doy : Nat) : Nat × Nat :=
  if first then (doy, 1) else if doy = 1 then (1, yrz + 1) else (T, yrz)

/-- The year switch is taken only directly after 31 December of the previous year: the slot in use
must hold the year before and end on that year's last day. -/
def switchOk {π : Type} (s : MState π) (r : Rec π) : Bool :=
  s.store.jarAt (s.yrz - 1) == r.year - 1 && s.store.maxAt (s.yrz - 1) == daysInYear (r.year - 1)

/-- One pass of the loop body (ReadWeatherCSV; the same statements in ReadWeatherCZ). -/
def multiStep {π : Type} (startyear cap : Nat) (s : MState π) (r : Rec π) : StepRes π :=
  let T := s.T + 1
  if r.bad then .gap                                            -- parse error, reported by anyWeatherError
  else if r.year < startyear then .cont { s with T := T }       -- `continue` (years before the start year)
  else if !s.first && r.doy = 1 && !switchOk s r then .gap      -- 1 January not preceded by a complete year
  else
    let a := advance s.first T s.yrz r.doy
    if r.doy ≠ a.1 then .gap
    else if a.2 > cap then .stop { s with T := a.1, yrz := a.2 - 1, first := false }
    else .cont { T := a.1, yrz := a.2, first := false,
                 store := s.store.put (a.2 - 1) (a.1 - 1) r.val r.year a.1 }

/-- The reading loop. `none` = the reader returned an error ("missing days" / parse error). -/
def readMultiFrom {π : Type} (startyear cap : Nat) : MState π → List (Rec π) → Option (MState π)
  | s, [] => some s
  | s, r :: rs =>
    match multiStep startyear cap s r with
    | .cont s' => readMultiFrom startyear cap s' rs
    | .stop s' => some s'
    | .gap => none

def readMulti {π : Type} (startyear cap : Nat) (recs : List (Rec π)) : Option (MState π) :=
  readMultiFrom startyear cap {} recs

/-- `ReadWeatherCSV`: layout 1 (multi-year file with ISO dates). -/
def readCSV {π : Type} := @readMulti π
/-- `ReadWeatherCZ`: layout 2 (multi-year file with yyyyddd dates); same indexing statements. -/
def readCZ {π : Type} := @readMulti π

inductive YStatus where
  | ok | gap | panic | nofile | empty | beyond
  deriving DecidableEq, Repr

/-- Loop of `WetterK` (weather_input.go:148-172) over the lines (day number T of column 11, payload).
The store is returned in the error case too (the kernel correspondence compares it). -/
def readYearLines {π : Type} (year : Nat) (st : Store π) (tlast : Nat) : List (Nat × π) → Store π × YStatus
  | [] => (st, .ok)
  | (T, v) :: rest =>
    if tlast + 1 ≠ T then (st, .gap)
    else if T > daysInYear year then (st, .beyond)   -- a day number that does not exist in that year
    else readYearLines year (st.put0 (T - 1) v T) T rest

/-- `WetterK` for one year file (`none` = the file cannot be opened: error before `JAR[0] = year`;
no data line = error "no data"). -/
def readYearFile {π : Type} (year : Nat) (st : Store π) : Option (List (Nat × π)) → Store π × YStatus
  | none => (st, .nofile)
  | some [] => (st.setJar 0 year, .empty)
  | some ls => readYearLines year (st.setJar 0 year) 0 ls

/-- The search of `LoadYear` (weather_input.go:692-733) over the `cap` allocated years:
(year index, days) of the first slot whose `JAR` equals the year; `none` = the error
"requested year was not loaded". -/
def findYear {π : Type} (s : Store π) (year : Nat) : List Nat → Option (Nat × Nat)
  | [] => none
  | i :: rest => if s.jarAt i = year then some (i, s.maxAt i) else findYear s year rest

def loadYear {π : Type} (s : Store π) (cap year : Nat) : Option (Nat × Nat) :=
  findYear s year (List.range cap)

/-- The copy loop of `LoadYear`: entries below `days` are overwritten, the rest of the global arrays
(`g.TEMP[…]`, …) keeps what an earlier year left there. -/
def gLoad {π : Type} (g : List (Option π)) (s : Store π) (i days : Nat) : List (Option π) :=
  (List.range 366).map fun t => if t < days then s.get i t else (g.getD t none)

/-! ### numeric layer -/

section
variable {α : Type} [Add α] [Mul α] [Div α] [LT α] [DecidableLT α] [BEq α]
  [OfNat α 0] [OfNat α 2] [OfNat α 10] [OfScientific α]

/-- the entries of one day the two passes read or write -/
structure Day (α : Type) where
  tmp : α
  verd : α
  sund : α
  radi : α
  reg : α
  win : α
  deriving Repr

abbrev Grid (α : Type) := List (List (Day α))

def zeroDay : Day α := ⟨0, 0, 0, 0, 0, 0⟩

def get2 (g : Grid α) (y i : Nat) : Day α := (g.getD y []).getD i zeroDay
def set2 (g : Grid α) (y i : Nat) (d : Day α) : Grid α := g.set y ((g.getD y []).set i d)

/-- neighbour `next` as computed by replaceMissingValues: after the last day of a year, index 0 of
the next loaded year -/
def nextPos (maxd : List Nat) (yrz y index : Nat) : Option (Nat × Nat) :=
  if index + 1 ≥ maxd.getD y 0 then (if y + 1 ≥ yrz then none else some (y + 1, 0))
  else some (y, index + 1)

/-- neighbour `prev` as computed by weather_input.go:614,626-629 -/
def prevPos (maxd : List Nat) (y index : Nat) : Option (Nat × Nat) :=
  if index = 0 then
    (if y > 0 then (if maxd.getD (y - 1) 0 = 0 then none else some (y - 1, maxd.getD (y - 1) 0 - 1)) else none)
  else some (y, index - 1)

/-- one optional value with both neighbours available (weather_input.go:633-649) -/
def fillMean (nv v p n : α) : α := if v == nv && p != nv && n != nv then (p + n) / 2 else v
/-- sentinel → 0 (weather_input.go:651-671) -/
def fillZero (nv v : α) : α := if v == nv then 0 else v

/-- body of the inner loop of `replaceMissingValues` for the cell (y, index) -/
def fillCell (nv : α) (maxd : List Nat) (yrz : Nat) (g : Grid α) (y index : Nat) : Grid α :=
  let c := get2 g y index
  let c1 : Day α :=
    match prevPos maxd y index, nextPos maxd yrz y index with
    | some (py, pi), some (ny, ni) =>
      let p := get2 g py pi
      let n := get2 g ny ni
      { c with tmp := fillMean nv c.tmp p.tmp n.tmp, verd := fillMean nv c.verd p.verd n.verd,
               sund := fillMean nv c.sund p.sund n.sund }
    | _, _ => { c with tmp := fillZero nv c.tmp, verd := fillZero nv c.verd, sund := fillZero nv c.sund }
  set2 g y index { c1 with sund := fillZero nv c1.sund, radi := fillZero nv c1.radi, reg := fillZero nv c1.reg }

/-- the cells in loop order: y = 0 … yrz−1, index = 0 … MaxYearDays[y]−1 -/
def cellsOf (maxd : List Nat) (yrz : Nat) : List (Nat × Nat) :=
  (List.range yrz).flatMap fun y => (List.range (maxd.getD y 0)).map fun i => (y, i)

/-- `replaceMissingValues` (weather_input.go:608-674) -/
def replaceMissing (nv : α) (maxd : List Nat) (yrz : Nat) (g : Grid α) : Grid α :=
  (cellsOf maxd yrz).foldl (fun g c => fillCell nv maxd yrz g c.1 c.2) g

/-- day of the year handed to `getCorrValue`: in a leap year the days after 28 February are shifted
back by one, so that the non-leap boundaries of `getCorrValue` are those of the actual months -/
def corrDoy (leap : Bool) (doy : Nat) : Nat := if leap && doy > 59 then doy - 1 else doy

/-- `getCorrValue` (weather_input.go:180-209): index into the 12 monthly factors by fixed
(non-leap) day-of-year boundaries. -/
def corrMonth (T : Nat) : Nat :=
  if T < 32 then 0 else if T < 60 then 1 else if T < 91 then 2 else if T < 121 then 3
  else if T < 152 then 4 else if T < 182 then 5 else if T < 213 then 6 else if T < 244 then 7
  else if T < 274 then 8 else if T < 305 then 9 else if T < 335 then 10 else 11

/-- precipitation mm → cm times the monthly factor (weather_input.go:594) -/
def regenT (v cor : α) : α := v / 10 * cor
/-- global radiation → PAR (weather_input.go:597) -/
def parT (v : α) : α := v / 2
/-- the wind floor (weather_input.go:600-602) -/
def windFloor (v : α) : α := if v < 0.5 then 0.5 else v

/-- body of the inner loop of `transformWeatherData` for the cell (y, index): precipitation,
radiation and the wind floor of that cell (since the repair "weather loader applies the 0.5 m/s wind
floor to every loaded day" the floor is applied to the cell of the loop index). -/
def transformCell (corr : List α) (jar _maxd : List Nat) (_yrz : Nat) (g : Grid α) (y index : Nat) : Grid α :=
  let c := get2 g y index
  let leap := daysInYear (jar.getD y 0) == 366
  set2 g y index { c with reg := regenT c.reg (corr.getD (corrMonth (corrDoy leap (index + 1))) 0), radi := parT c.radi,
                          win := windFloor c.win }

/-- `transformWeatherData` (weather_input.go:585-606) -/
def transform (corr : List α) (jar maxd : List Nat) (yrz : Nat) (g : Grid α) : Grid α :=
  (cellsOf maxd yrz).foldl (fun g c => transformCell corr jar maxd yrz g c.1 c.2) g

end

end Hermes.Weather
