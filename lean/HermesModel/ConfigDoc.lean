/-
The documented defaults of the configuration keys: a pinned copy of the table a generated
`config.yml` shows (the state of `NewDefaultConfig()`, hermes/config.go:195-243, at the audited
commit; the comments of `type Config struct` name the same values where they name one:
"weather none value, default -99.9", "Ground water phase in days (80= standard)", "result file
extensions (default RES, csv)").  The harness reads this table through the driver op
`config.documented` and replays every entry on the implementation (a run without configuration
file and without arguments must use exactly these values).  Core Lean only.
-/
import HermesModel.ConfigLit
namespace Hermes.Config

def documentedDefaults : List (String × CfgLit) := [
  ("Dateformat", .int (1)),
  ("DivideCentury", .int (0)),
  ("GroundWaterFrom", .int (1)),
  ("ResultFileFormat", .int (0)),
  ("ResultFileExt", .text ""),
  ("OutputIntervall", .int (0)),
  ("ManagementEvents", .int (0)),
  ("InitSelection", .int (3)),
  ("SoilFile", .text "soil"),
  ("SoilFileExtension", .text "txt"),
  ("CropFileFormat", .text "txt"),
  ("CropParameterFormat", .text "txt"),
  ("MeasurementFileFormat", .text "txt"),
  ("PolygonGridFileName", .text "poly"),
  ("WeatherFile", .text "%s.csv"),
  ("WeatherFileFormat", .int (1)),
  ("WeatherFolder", .text "Weather"),
  ("WeatherRootFolder", .text ""),
  ("WeatherNoneValue", .float true 999 1),
  ("WeatherNumHeader", .int (2)),
  ("CorrectionPrecipitation", .switch false),
  ("AnnualAverageTemperature", .float false 87 1),
  ("ETpot", .int (3)),
  ("CO2method", .int (2)),
  ("CO2concentration", .float false 360 0),
  ("CO2StomataInfluence", .switch true),
  ("NDeposition", .float false 20 0),
  ("StartYear", .int (1980)),
  ("EndDate", .text "31122010"),
  ("AnnualOutputDate", .text "3009"),
  ("VirtualDateFertilizerPrediction", .text "--------"),
  ("Latitude", .float false 5252 2),
  ("Altitude", .float false 0 0),
  ("CoastDistance", .float false 300 0),
  ("PTF", .int (0)),
  ("LeachingDepth", .int (15)),
  ("OrganicMatterMineralProportion", .float false 13 2),
  ("KcFactorBareSoil", .float false 4 1),
  ("PotMineralisation", .int (0)),
  ("GroundWaterPhase", .int (80)),
  ("Fertilization", .float false 100 0),
  ("AutoSowingHarvest", .switch true),
  ("AutoFertilization", .switch true),
  ("AutoIrrigation", .switch true),
  ("AutoHarvest", .switch true)
]

end Hermes.Config
