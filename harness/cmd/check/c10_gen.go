package main

// Schedule-file generator of the C10 check: the own schedule (walkDates) with unusual but valid lines
// (amount 0, 0 mm, depth 0), laid out in one of three file shapes — lines of other fields sprinkled at
// random, a chronological merge of several fields' schedules (not grouped by field), or grouped blocks.

import (
	"fmt"
	"sort"
	"strings"

	"verifharness/proj"
	"verifharness/vh"
)

type c10Sched struct {
	FertAll, IrrAll, TilAll []schedEv // file order, all fields
	FertOwn, IrrOwn, TilOwn []schedEv // lines of the simulated field, file order
	Layout                  [3]string
	Style                   int // 0 as proj.Write renders it, 1 tab separated, 2 wide blanks + trailing comment token
}

// layoutLines arranges the own lines (order kept) with lines of two other fields.
// mode 0: random sprinkling (any dates), 1: chronological merge of the fields' schedules (ties in random
// order), 2: grouped by field (block before and block after the own lines).
func layoutLines(r *vh.Rng, mode int, own []schedEv, start, last int, fields [2]string, mk func(z int, field string) schedEv) []schedEv {
	switch mode {
	case 1:
		// the other fields' schedules, sorted by date, merged with the own lines; lines of the same date in random order
		var oth []schedEv
		for _, f := range fields {
			for _, z := range walkDates(r, start, last, 2, false, r.Intn(3), r.Intn(2), r.Range(1, 14), r.Range(2, 30)) {
				oth = append(oth, mk(z, f))
			}
		}
		sort.SliceStable(oth, func(a, b int) bool { return oth[a].Z < oth[b].Z })
		var out []schedEv
		i, j := 0, 0
		for i < len(own) || j < len(oth) {
			switch {
			case j >= len(oth) || (i < len(own) && own[i].Z < oth[j].Z):
				out = append(out, own[i])
				i++
			case i >= len(own) || oth[j].Z < own[i].Z:
				out = append(out, oth[j])
				j++
			case r.Chance(0.5):
				out = append(out, own[i])
				i++
			default:
				out = append(out, oth[j])
				j++
			}
		}
		return out
	case 2:
		var out []schedEv
		for j := r.Intn(4); j > 0; j-- {
			out = append(out, mk(start-60+r.Intn(last-start+120), fields[0]))
		}
		out = append(out, own...)
		for j := r.Intn(4); j > 0; j-- {
			out = append(out, mk(start-60+r.Intn(last-start+120), fields[1]))
		}
		return out
	}
	var out []schedEv
	noise := r.Chance(0.7)
	for _, e := range own {
		for noise && r.Chance(0.3) {
			out = append(out, mk(start-60+r.Intn(last-start+120), fields[r.Intn(2)]))
		}
		out = append(out, e)
	}
	for noise && r.Chance(0.4) {
		out = append(out, mk(start-60+r.Intn(last-start+120), fields[r.Intn(2)]))
	}
	return out
}

// genC10Schedules draws the three schedule files of a run and stores them in the project.
// k < 12 are fixed shapes (Lean counter-witnesses of the known finding, zero lines, chronological merges);
// clean: no schedules of the known-finding classes (used by the session stage, which predicts the
// executions without the probes).
func genC10Schedules(r *vh.Rng, p *proj.Project, k int, table []fertRow, s0, last int, clean bool) *c10Sched {
	iso := func(z int) string { return proj.FromZ(z).String() }
	s := &c10Sched{Style: r.Intn(3)}
	forced := map[string][]int{}
	zero := map[string]map[int]bool{"fert": {}, "irr": {}, "til": {}}
	mode := [3]int{r.Intn(3), r.Intn(3), r.Intn(3)}
	if !clean {
		switch k {
		case 0:
			forced["fert"] = []int{s0}
		case 1:
			forced["fert"] = []int{s0 + 10, s0 + 10, s0 + 11}
		case 2:
			forced["fert"] = []int{s0 + 10, s0 + 10, s0 + 11, s0 + 11, s0 + 20}
		case 3:
			forced["irr"] = []int{s0 - 5, s0 + 5}
		case 4:
			forced["til"] = []int{s0 - 1}
		case 5:
			forced["til"] = []int{s0 + 10, s0 + 10, s0 + 11, s0 + 11, s0 + 20}
		case 6: // a tillage of depth 0 followed by further tillages
			forced["til"] = []int{s0 + 5, s0 + 9, s0 + 15, s0 + 15}
			zero["til"][0] = true
		case 7: // a fertiliser line with amount 0 followed by others
			forced["fert"] = []int{s0 + 4, s0 + 8, s0 + 13}
			zero["fert"][0] = true
		case 8: // an irrigation line with 0 mm followed by others
			forced["irr"] = []int{s0 + 3, s0 + 7, s0 + 12}
			zero["irr"][0] = true
		case 9, 10, 11: // chronological merge of three fields in all three files
			mode = [3]int{1, 1, 1}
		case 12: // a tillage dated exactly on the first simulated day (not "before the start": it is executed), then another one
			forced["til"] = []int{s0, s0 + 6}
		case 13: // an irrigation dated exactly on the first simulated day
			forced["irr"] = []int{s0, s0 + 4}
		case 14: // tillage on the eve of the start (dropped) and on the start day (kept)
			forced["til"] = []int{s0 - 1, s0}
		case 15: // irrigation on the eve of the start (dropped) and on the start day (kept), different concentrations
			forced["irr"] = []int{s0 - 1, s0, s0 + 1}
		}
	}
	pick := func(kind string, gen []int) []int {
		if f, ok := forced[kind]; ok {
			return f
		}
		return gen
	}
	isZero := func(kind string, j int) bool { return zero[kind][j] || (len(forced[kind]) == 0 && r.Chance(0.12)) }
	names := [3]string{"random-noise", "chronological-merge", "grouped"}
	others := [2]string{"OTHER1", p.Field + "x"}

	// ---- fertiliser
	cleanF := clean || r.Chance(0.6)
	for j, z := range c10Pin(r, p, pick("fert", walkDates(r, s0, last, 2, cleanF, r.Intn(4)*r.Intn(2), r.Intn(3), r.Range(0, 24), r.Range(2, 40))), s0, last, len(forced["fert"]) > 0 || clean, true) {
		row := table[(k*5+j*3+r.Intn(2))%len(table)]
		a := 10 + 4*j + r.Intn(4)
		if isZero("fert", j) {
			a = 0
		}
		s.FertOwn = append(s.FertOwn, schedEv{Z: z, Date: iso(z), Own: true, A: a, Kind: row.Code})
	}
	s.FertAll = layoutLines(r, mode[0], s.FertOwn, s0, last, others, func(z int, f string) schedEv {
		return schedEv{Z: z, Date: iso(z), A: r.Range(0, 150), Kind: table[r.Intn(len(table))].Code, Field: f}
	})
	p.Fert = nil
	for _, e := range s.FertAll {
		p.Fert = append(p.Fert, proj.FertEv{Amount: e.A, Kind: e.Kind, Date: proj.FromZ(e.Z), Field: e.Field})
	}
	// ---- irrigation (at most one per day)
	preIrr := 0
	if r.Chance(0.35) {
		preIrr = 1 + r.Intn(2)
	}
	for j, z := range c10Pin(r, p, pick("irr", walkDates(r, s0, last, 1, false, preIrr, r.Intn(3), r.Range(0, 14), r.Range(2, 40))), s0, last, len(forced["irr"]) > 0 || clean, false) {
		a := 3 + 2*j + r.Intn(2)
		if isZero("irr", j) {
			a = 0
		}
		conc := r.Intn(40) * r.Intn(2)
		if k == 15 && !clean {
			conc = 7 + 11*j // the concentrations of the dropped and of the kept lines all differ
		}
		s.IrrOwn = append(s.IrrOwn, schedEv{Z: z, Date: iso(z), Own: true, A: a, B: conc})
	}
	s.IrrAll = layoutLines(r, mode[1], s.IrrOwn, s0, last, [2]string{p.Field + "x", "ZZ9"}, func(z int, f string) schedEv {
		return schedEv{Z: z, Date: iso(z), A: r.Range(0, 60), B: r.Intn(30), Field: f}
	})
	p.Irr = nil
	for _, e := range s.IrrAll {
		p.Irr = append(p.Irr, proj.IrrEv{MM: e.A, Conc: e.B, Date: proj.FromZ(e.Z), Field: e.Field})
	}
	p.Irrigated = true
	// ---- tillage (never between sowing and harvest of a crop: the run would be rejected, nitro.go)
	cleanT := clean || r.Chance(0.6)
	allowed := func(z int) bool {
		for i := 1; i < len(p.Rot); i++ {
			if !(z <= p.Rot[i].Sow.Z() || z > p.Rot[i].Harvest.Z()) {
				return false
			}
		}
		return true
	}
	for j, z := range pick("til", walkDates(r, s0, last, 2, cleanT, r.Intn(3)*r.Intn(2), r.Intn(3), r.Range(0, 16), r.Range(2, 30))) {
		if allowed(z) {
			a := r.Range(3, 44)
			if isZero("til", j) || (len(forced["til"]) == 0 && r.Chance(0.06)) {
				a = 0
			}
			// type 1 mixes the layers, every other type (0, 2, 3 ...) only logs the event
			s.TilOwn = append(s.TilOwn, schedEv{Z: z, Date: iso(z), Own: true, A: a, B: []int{1, 2, 1, 2, 1, 2, 0, 3}[r.Intn(8)]})
		}
	}
	// the slot dates after the same-day shift must stay outside the crops as well
	for changed := true; changed; {
		changed = false
		prev := 0
		for j, e := range s.TilOwn {
			if e.Z < s0 {
				continue
			}
			sd := e.Z
			if prev > 0 && sd <= prev {
				sd = prev + 1
			}
			if !allowed(sd) || !allowed(sd+1) {
				s.TilOwn = append(s.TilOwn[:j:j], s.TilOwn[j+1:]...)
				changed = true
				break
			}
			prev = sd
		}
	}
	s.TilAll = layoutLines(r, mode[2], s.TilOwn, s0, last, [2]string{"ZZ9", "OTHER1"}, func(z int, f string) schedEv {
		return schedEv{Z: z, Date: iso(z), A: r.Range(0, 40), B: r.Range(1, 2), Field: f}
	})
	p.Til = nil
	for _, e := range s.TilAll {
		p.Til = append(p.Til, proj.TilEv{Depth: e.A, Kind: e.B, Date: proj.FromZ(e.Z), Field: e.Field})
	}
	for i := range s.Layout {
		s.Layout[i] = names[mode[i]]
	}
	return s
}

// c10Pin moves single events of a drawn date list onto days on which something else happens in the run:
// sowing and harvest days of the rotation, the day before / of / after the annual output date, the last
// simulated day and the day before it. An event is moved only when the list stays ascending with the
// same multiplicities (no new same-day pair, no new consecutive-day neighbour: the classes of the known
// findings are left to walkDates). Fertiliser lists are not pinned to the start day (known finding).
func c10Pin(r *vh.Rng, p *proj.Project, dates []int, s0, last int, keep, isFert bool) []int {
	if keep || len(dates) == 0 || !r.Chance(0.5) {
		return dates
	}
	var targets []int
	for i := 1; i < len(p.Rot); i++ {
		targets = append(targets, p.Rot[i].Sow.Z(), p.Rot[i].Harvest.Z())
	}
	ann := strings.Trim(p.Cfg["AnnualOutputDate"], "\"")
	if len(ann) == 4 {
		var a, b int
		fmt.Sscanf(ann, "%2d%2d", &a, &b)
		d, m := a, b
		if p.DateFmt >= 2 {
			d, m = b, a
		}
		for y := proj.FromZ(s0).Y; y <= proj.FromZ(last).Y; y++ {
			if m >= 1 && m <= 12 && d >= 1 && d <= 28 {
				z := proj.Date{Y: y, M: m, D: d}.Z()
				targets = append(targets, z-1, z, z+1)
			}
		}
	}
	targets = append(targets, last, last-1)
	if !isFert {
		targets = append(targets, s0)
	}
	out := append([]int(nil), dates...)
	for n := 0; n < 3; n++ {
		t := targets[r.Intn(len(targets))]
		if t < s0 || t > last || (isFert && t <= s0+1) {
			continue
		}
		// the event to move: the first one not before the target, else the last one
		j := len(out) - 1
		for i, z := range out {
			if z >= t {
				j = i
				break
			}
		}
		if out[j] < s0 {
			continue
		}
		lo, hi := s0-1, last+400
		if j > 0 {
			lo = out[j-1]
		}
		if j+1 < len(out) {
			hi = out[j+1]
		}
		if t > lo+1 && t < hi-1 {
			out[j] = t
		}
	}
	return out
}
