package main

// Concurrent-kernel stage: the models are pure functions of their arguments, and the batch dispatcher runs
// the kernels of several simulations at the same time.  The stage re-runs kernel cases whose sequential
// answer is known in `workers` goroutines at once (every goroutine on its own freshly built state) and
// demands the same answer: a kernel that keeps scratch data in package-level variables (or any other state
// shared between runs) gives different answers here, and the property predicates are evaluated on them.

import (
	"fmt"
	"sync"

	"verifharness/vh"
)

// concurrentKernelStage: run(i) executes case i on the real code and returns its canonical answer line;
// want[i] is the sequential answer.  onDiff is called (once per differing case, serialised) with the case
// index and the concurrent answer.
func concurrentKernelStage(c *vh.Ctx, kernel string, want []string, workers, rounds int, run func(i int) string, onDiff func(i int, got string)) {
	if len(want) == 0 {
		return
	}
	type diff struct {
		i   int
		got string
	}
	var mu sync.Mutex
	var diffs []diff
	seen := map[int]bool{}
	var wg sync.WaitGroup
	for w := 0; w < workers; w++ {
		wg.Add(1)
		go func(w int) {
			defer wg.Done()
			defer func() {
				if r := recover(); r != nil {
					mu.Lock()
					diffs = append(diffs, diff{-1, fmt.Sprint("panic: ", r)})
					mu.Unlock()
				}
			}()
			for round := 0; round < rounds; round++ {
				for k := range want {
					i := (k + w*7919) % len(want) // every worker walks the cases in its own order
					got := run(i)
					if got != want[i] {
						mu.Lock()
						if !seen[i] {
							seen[i] = true
							diffs = append(diffs, diff{i, got})
						}
						mu.Unlock()
					}
				}
			}
		}(w)
	}
	wg.Wait()
	c.Count(fmt.Sprintf("%s:concurrent-cases", kernel))
	c.Res.Extra[kernel+"_concurrent"] = map[string]interface{}{"cases": len(want), "workers": workers, "rounds": rounds, "differing": len(diffs)}
	for k, d := range diffs {
		if k >= 5 {
			break
		}
		onDiff(d.i, d.got)
	}
}
