package main

// C14 — configuration precedence: batch line over project configuration over defaults; unknown keys
// ignored; argument order irrelevant.
//
// Correspondence (model HermesModel/Config.lean with the default table regenerated from the source):
//   config.defaults   NewDefaultConfig() bit for bit
//   config.override   commandlineOverride (wrapper VerifCommandlineOverride) on generated argument maps:
//                     every kind, every on/off spelling, unparsable numbers (error ⇔ model "fatal"),
//                     unknown and case-variant keys
//   config.effective  readConfig (wrapper VerifReadConfig) on generated subsets of keys on the line
//                     and/or in config.yml, random order, repeated keys, malformed tokens; cases that end
//                     in log.Fatal are run in a child process (this binary re-executed)
//   run level         whole simulations: the state the day loop works with (probe) against the model fed
//                     with the batch line and the file of the run (covers the real argument map of Run)
// Search (implementation only, independent oracle): effective Config = line > file > default for
// every key, documented defaults, permutation invariance, unknown keys / malformed tokens ignored, the
// run state takes the effective values (g.*), and in whole runs: end of the simulation, leaching
// depth, deposition, … through the day probe, result-file extension, identical results for permuted
// batch lines and with unknown keys added.

import (
	"encoding/hex"
	"encoding/json"
	"fmt"
	"math"
	"os"
	"os/exec"
	"path/filepath"
	"reflect"
	"sort"
	"strconv"
	"strings"

	"github.com/zalf-rpm/Hermes2Go/hermes"
	yaml "gopkg.in/yaml.v3"
	"verifharness/vh"
)

func init() {
	if f := os.Getenv("VERIF_C14_CHILD"); f != "" {
		c14Child(f) // never returns
	}
	register("C14", checkC14)
}

// ---------------------------------------------------------------- child process (log.Fatal cases)

type c14ChildCase struct {
	Config string            `json:"config"`
	Root   string            `json:"root"`
	Args   map[string]string `json:"args"`
}

func c14Child(path string) {
	b, err := os.ReadFile(path)
	if err != nil {
		fmt.Fprintln(os.Stderr, "child: ", err)
		os.Exit(3)
	}
	var cs c14ChildCase
	if err := json.Unmarshal(b, &cs); err != nil {
		fmt.Fprintln(os.Stderr, "child: ", err)
		os.Exit(3)
	}
	s := hermes.NewHermesSession()
	cfg, _ := hermes.VerifReadConfig(s, cs.Config, cs.Root, cs.Args)
	fmt.Println(renderCfg(cfg))
	os.Exit(0)
}

// ---------------------------------------------------------------- reflection over hermes.Config

type cfgMeta struct {
	Name  string
	Kind  string // float | int | text | switch | other
	Codec string // name of the enumeration type of int fields with a text codec in the YAML file
	Idx   int
}

func cfgMetas() []cfgMeta {
	t := reflect.TypeOf(hermes.Config{})
	var out []cfgMeta
	for i := 0; i < t.NumField(); i++ {
		f := t.Field(i)
		k := "other"
		switch f.Type.Kind() {
		case reflect.Float64:
			k = "float"
		case reflect.Int:
			k = "int"
		case reflect.String:
			k = "text"
		case reflect.Bool:
			k = "switch"
		}
		codec := ""
		if k == "int" && f.Type.Name() != "int" {
			codec = f.Type.Name()
		}
		out = append(out, cfgMeta{f.Name, k, codec, i})
	}
	return out
}

// documentedDefaultTokens: key -> rendered documented default (driver op config.documented); filled by checkC14
var documentedDefaultTokens = map[string]string{}

// setRendered stores a rendered token (renderField) into a field of the configuration
func setRendered(f reflect.Value, kind, tok string) {
	if len(tok) < 1 {
		return
	}
	switch kind {
	case "float":
		if isF, x, ok := vh.ParseTok(tok); ok && isF {
			f.SetFloat(x)
		}
	case "int":
		if n, err := strconv.ParseInt(tok[1:], 10, 64); err == nil && tok[0] == 'i' {
			f.SetInt(n)
		}
	case "text":
		if b, err := hex.DecodeString(tok[1:]); err == nil && tok[0] == 't' {
			f.SetString(string(b))
		}
	case "switch":
		f.SetBool(tok == "b1")
	}
}

// documentedConfig: the documented defaults as a Config value (keys without a documented default keep
// NewDefaultConfig()'s value; their absence is reported by stage A0)
func documentedConfig() hermes.Config {
	cfg := hermes.NewDefaultConfig()
	v := reflect.ValueOf(&cfg).Elem()
	for _, m := range cfgMetas() {
		if tok, ok := documentedDefaultTokens[m.Name]; ok {
			setRendered(v.Field(m.Idx), m.Kind, tok)
		}
	}
	return cfg
}

func sHex(s string) string { return "s" + hex.EncodeToString([]byte(s)) }

func renderField(v reflect.Value, kind string) string {
	switch kind {
	case "float":
		return vh.FHex(v.Float())
	case "int":
		return fmt.Sprintf("i%d", v.Int())
	case "text":
		return "t" + hex.EncodeToString([]byte(v.String()))
	case "switch":
		if v.Bool() {
			return "b1"
		}
		return "b0"
	}
	return "o"
}

func renderCfg(c hermes.Config) string {
	v := reflect.ValueOf(c)
	var parts []string
	for _, m := range cfgMetas() {
		parts = append(parts, m.Name, renderField(v.Field(m.Idx), m.Kind))
	}
	return strings.Join(parts, " ")
}

// parseRendered: "name value name value …" -> map
func parseRendered(line string) map[string]string {
	f := strings.Fields(line)
	m := map[string]string{}
	for i := 0; i+1 < len(f); i += 2 {
		m[f[i]] = f[i+1]
	}
	return m
}

// the argument map of Run (hermes/run.go:37-43) — three lines that cannot be called separately;
// the real ones are exercised by the whole-run stage
func argMapOf(tokens []string) map[string]string {
	m := map[string]string{}
	for _, tok := range tokens {
		sp := strings.Split(tok, "=")
		if len(sp) == 2 {
			m[sp[0]] = sp[1]
		}
	}
	return m
}

// ---------------------------------------------------------------- value generators

var onOff = map[string]bool{"1": true, "0": false, "on": true, "off": false, "yes": true, "no": false, "true": true, "false": false}
var onOffList = []string{"1", "0", "on", "off", "yes", "no", "true", "false"}
var enumNames = map[string][]string{
	"DateFormat":      {"DateDEshort", "DateDElong", "DateENshort", "DateENlong"},
	"GroundWaterFrom": {"polygonfile", "soilfile", "gwTimeSeries"},
}

var floatGood = []string{"12.5", "-3", "1e3", "007", "+4.5", ".5", "5.", "0", "-0", "1E-2", "3.14159265358979", "1e-400", "inf", "-Inf", "NaN", "0x1p-2", "360", "52.52", "-99.9"}
var floatBad = []string{"", "abc", "1,5", "1e400", "--1", "1.2.3", " 1", "1 ", "1e", "12.5mm"}
var intGood = []string{"0", "15", "-3", "+7", "007", "9223372036854775807", "-9223372036854775808", "1980", "2"}
var intBad = []string{"", "3.5", "abc", "9223372036854775808", "-9223372036854775809", "1_000", "0x10", " 5", "５", "--5", "+-5", "+", "-", "1e3", "15.0"}
var textVals = []string{"", "csv", "RES", "my file", "a.b", "ä€ü", "%s_x.csv", "./weather/", ".\\w", ".", "./", "Weather", "x y z", "-", "txt", "yml", "31122010", "3009", "--------", "soil", "..", ".x"}
var switchBad = []string{"TRUE", "On", "2", "", "y", " 1", "ja", "10", "OFF"}

func genLineValue(r *vh.Rng, kind string, allowBad bool) string {
	bad := allowBad && r.Chance(0.12)
	switch kind {
	case "float":
		if bad {
			return floatBad[r.Intn(len(floatBad))]
		}
		switch r.Intn(3) {
		case 0:
			return floatGood[r.Intn(len(floatGood))]
		case 1:
			return strconv.FormatFloat(r.Uni(-1000, 1000), 'f', r.Intn(6), 64)
		}
		return strconv.FormatFloat(r.Uni(-1e6, 1e6)*math.Pow(10, float64(r.Range(-8, 8))), 'g', -1, 64)
	case "int":
		if bad {
			return intBad[r.Intn(len(intBad))]
		}
		if r.Chance(0.4) {
			return intGood[r.Intn(len(intGood))]
		}
		return strconv.Itoa(r.Range(-5000, 5000))
	case "text":
		return textVals[r.Intn(len(textVals))]
	case "switch":
		if r.Chance(0.15) {
			return switchBad[r.Intn(len(switchBad))]
		}
		return onOffList[r.Intn(len(onOffList))]
	}
	return "x"
}

// a file entry: the scalar as written and what a reader of the file means by it
type fileEnt struct {
	Key   string `json:"key"`
	YAML  string `json:"yaml"`
	known bool
	kind  string
	f     float64
	i     int64
	s     string
	b     bool
	undef bool // the property does not say what the value means (unknown on/off text, unknown enumeration name)
}

type yamlNum struct {
	text string
	f    float64
	i    int64
}

var yamlFloats = []yamlNum{{"12.5", 12.5, 0}, {"-3", -3, 0}, {"360", 360, 0}, {"1e3", 1000, 0}, {".5", 0.5, 0}, {"+4.5", 4.5, 0}, {"0.13", 0.13, 0}, {"-99.9", -99.9, 0}, {"0", 0, 0}, {"1.0e-2", 0.01, 0}, {"5.", 5, 0}}
var yamlInts = []yamlNum{{"15", 0, 15}, {"-3", 0, -3}, {"0", 0, 0}, {"0o17", 0, 15}, {"0x1F", 0, 31}, {"1_000", 0, 1000}, {"2", 0, 2}, {"1980", 0, 1980}}

func genFileEnt(r *vh.Rng, m cfgMeta) fileEnt {
	e := fileEnt{Key: m.Name, known: true, kind: m.Kind}
	switch m.Kind {
	case "float":
		if r.Chance(0.5) {
			y := yamlFloats[r.Intn(len(yamlFloats))]
			e.YAML, e.f = y.text, y.f
		} else {
			e.f = vh.RoundTo(r.Uni(-500, 500), r.Intn(5))
			if e.f == 0 {
				e.f = 0 // no negative zero: the YAML scalar "-0" is the integer 0
			}
			e.YAML = strconv.FormatFloat(e.f, 'f', -1, 64)
		}
	case "int":
		if m.Codec != "" {
			names := enumNames[m.Codec]
			if r.Chance(0.1) {
				e.YAML, e.undef = "somethingElse", true
			} else {
				k := r.Intn(len(names))
				e.YAML, e.i = names[k], int64(k)
			}
		} else if r.Chance(0.5) {
			y := yamlInts[r.Intn(len(yamlInts))]
			e.YAML, e.i = y.text, y.i
		} else {
			e.i = int64(r.Range(-3000, 3000))
			e.YAML = strconv.FormatInt(e.i, 10)
		}
	case "text":
		e.s = textVals[r.Intn(len(textVals))]
		if e.s != "" && r.Chance(0.3) && isPlainWord(e.s) {
			e.YAML = e.s
		} else {
			e.YAML = strconv.Quote(e.s)
		}
	case "switch":
		if r.Chance(0.12) {
			e.YAML, e.undef = []string{"maybe", "TRUE", "2", "\"\""}[r.Intn(4)], true
		} else {
			sp := onOffList[r.Intn(len(onOffList))]
			e.b = onOff[sp]
			e.YAML = sp
			if r.Chance(0.2) {
				e.YAML = strconv.Quote(sp)
			}
		}
	}
	return e
}

func isPlainWord(s string) bool {
	for _, c := range s {
		if !(c >= 'a' && c <= 'z' || c >= 'A' && c <= 'Z') {
			return false
		}
	}
	switch strings.ToLower(s) {
	case "true", "false", "yes", "no", "on", "off", "null", "y", "n":
		return false
	}
	return s != ""
}

// how the YAML library decodes the scalar (inputs of the model)
func yamlOracle(text string) (str, num, in string) {
	str, num, in = "-", "-", "-"
	var s string
	if yaml.Unmarshal([]byte(text), &s) == nil {
		str = sHex(s)
	}
	var f float64
	if yaml.Unmarshal([]byte(text), &f) == nil {
		num = vh.FHex(f)
	}
	var i int
	if yaml.Unmarshal([]byte(text), &i) == nil {
		in = strconv.Itoa(i)
	}
	return
}

func pfOracle(text string) string {
	f, err := strconv.ParseFloat(text, 64)
	if err != nil {
		return "-"
	}
	return vh.FHex(f)
}

func oracleToks(values []string) (int, string) {
	seen := map[string]bool{}
	var parts []string
	n := 0
	for _, v := range values {
		if seen[v] {
			continue
		}
		seen[v] = true
		parts = append(parts, sHex(v), pfOracle(v))
		n++
	}
	return n, strings.Join(parts, " ")
}

// ---------------------------------------------------------------- a generated case of readConfig

type cfgCase struct {
	Root   string    `json:"root"`
	File   []fileEnt `json:"file"`
	NoFile bool      `json:"no_file"`
	Tokens []string  `json:"tokens"`
}

func (cs *cfgCase) yamlText() string {
	var b strings.Builder
	for _, e := range cs.File {
		fmt.Fprintf(&b, "%s: %s\n", e.Key, e.YAML)
	}
	if len(cs.File) == 0 {
		b.WriteString("# empty\n")
	}
	return b.String()
}

func (cs *cfgCase) driverLine() string {
	var b strings.Builder
	file := cs.File
	if cs.NoFile {
		file = nil
	}
	var vals []string
	for _, v := range argMapOf(cs.Tokens) {
		vals = append(vals, v)
	}
	sort.Strings(vals)
	no, otoks := oracleToks(vals)
	fmt.Fprintf(&b, "config.effective %s %d %d %d", sHex(cs.Root), len(file), len(cs.Tokens), no)
	for _, e := range file {
		s, n, i := yamlOracle(e.YAML)
		fmt.Fprintf(&b, " %s %s %s %s", sHex(e.Key), s, n, i)
	}
	for _, t := range cs.Tokens {
		b.WriteString(" " + sHex(t))
	}
	if no > 0 {
		b.WriteString(" " + otoks)
	}
	return b.String()
}

var dateKeys = map[string]bool{"Dateformat": true, "EndDate": true}

// validEndDate: an 8-digit text that every one of the four date formats reads without failure
// (long: dd mm yyyy; short, 8 characters: [0:2] [3:5] [6:8]), so that a wrong effective date format
// shows up as a wrong value and not as log.Fatal inside the harness process.
func validEndDate(r *vh.Rng, format int64) string {
	d := r.Range(1, 12)
	m := []int{1, 10, 11}[r.Intn(3)]
	y := r.Range(1901, 2099)
	return fmt.Sprintf("%02d%02d%04d", d, m, y)
}

// genCfgCase draws subsets of keys for the file and the line. fatalOK = unparsable numbers allowed.
func genCfgCase(r *vh.Rng, metas []cfgMeta, fatalOK bool) *cfgCase {
	cs := &cfgCase{Root: []string{"/data/root", ".", "./rel", ""}[r.Intn(4)]}
	if r.Chance(0.08) {
		cs.NoFile = true
	}
	pFile, pLine := r.F()*0.6, r.F()*0.5
	if r.Chance(0.1) {
		pFile, pLine = 1, 1
	}
	if !cs.NoFile {
		for _, m := range metas {
			if m.Kind == "other" || !r.Chance(pFile) {
				continue
			}
			e := genFileEnt(r, m)
			if m.Name == "Dateformat" && e.undef {
				e = fileEnt{Key: m.Name, known: true, kind: "int", YAML: "DateENlong", i: 3}
			}
			cs.File = append(cs.File, e)
		}
		for k := 0; k < r.Intn(3); k++ {
			cs.File = append(cs.File, fileEnt{Key: []string{"Foo", "latitude", "Endate", "leachingDepth"}[r.Intn(4)] + strconv.Itoa(k), YAML: "1"})
		}
		for i := len(cs.File) - 1; i > 0; i-- { // arbitrary order in the file
			j := r.Intn(i + 1)
			cs.File[i], cs.File[j] = cs.File[j], cs.File[i]
		}
	}
	for _, m := range metas {
		if m.Kind == "other" || !r.Chance(pLine) {
			continue
		}
		v := genLineValue(r, m.Kind, fatalOK)
		if m.Name == "Dateformat" {
			v = strconv.Itoa(r.Intn(4))
		}
		cs.Tokens = append(cs.Tokens, m.Name+"="+v)
		if r.Chance(0.1) { // the key once more, earlier or later
			cs.Tokens = append(cs.Tokens, m.Name+"="+genLineValue(r, m.Kind, false))
			if m.Name == "Dateformat" {
				cs.Tokens[len(cs.Tokens)-1] = m.Name + "=" + strconv.Itoa(r.Intn(4))
			}
		}
	}
	// keys that do not exist, tokens that are no key=value pair
	for k := 0; k < r.Intn(4); k++ {
		cs.Tokens = append(cs.Tokens, []string{"Foo=1", "latitude=3", "LEACHINGDEPTH=2", "project=p1", "plotNr=1001", "Latitude", "=5", "EndDate=1=2", "SW.MAXAMAX=3", "Latitude =4", " Latitude=4", "", "==", "ETpot=1=", "fcode=x"}[r.Intn(15)])
	}
	for i := len(cs.Tokens) - 1; i > 0; i-- {
		j := r.Intn(i + 1)
		cs.Tokens[i], cs.Tokens[j] = cs.Tokens[j], cs.Tokens[i]
	}
	return cs
}

type expected struct {
	cfg   hermes.Config
	layer map[string]string // key -> line | file | default
	undef map[string]bool   // keys on which the property is silent for this case
	fatal bool              // a number on the line / in the file does not parse
}

// expectation by the property: line > file > default, independent of the Lean model
func expect(cs *cfgCase, metas []cfgMeta) *expected {
	ex := &expected{cfg: hermes.NewDefaultConfig(), layer: map[string]string{}, undef: map[string]bool{}}
	v := reflect.ValueOf(&ex.cfg).Elem()
	// the lowest layer is the DOCUMENTED default (pinned in HermesModel/ConfigDoc.lean, read once through the
	// driver), not whatever NewDefaultConfig() of the code under test returns
	for _, m := range metas {
		if tok, ok := documentedDefaultTokens[m.Name]; ok {
			setRendered(v.Field(m.Idx), m.Kind, tok)
		}
	}
	byName := map[string]cfgMeta{}
	for _, m := range metas {
		byName[m.Name] = m
		ex.layer[m.Name] = "default"
	}
	if !cs.NoFile {
		for _, e := range cs.File {
			m, ok := byName[e.Key]
			if !ok {
				continue
			}
			ex.layer[e.Key] = "file"
			if e.undef {
				ex.undef[e.Key] = true
			}
			f := v.Field(m.Idx)
			switch m.Kind {
			case "float":
				f.SetFloat(e.f)
			case "int":
				f.SetInt(e.i)
			case "text":
				f.SetString(e.s)
			case "switch":
				f.SetBool(e.b)
			}
		}
	}
	for key, text := range argMapOf(cs.Tokens) {
		m, ok := byName[key]
		if !ok {
			continue
		}
		f := v.Field(m.Idx)
		switch m.Kind {
		case "float":
			x, err := strconv.ParseFloat(text, 64)
			if err != nil {
				ex.fatal = true
				continue
			}
			f.SetFloat(x)
		case "int":
			x, err := strconv.ParseInt(text, 10, 64)
			if err != nil {
				ex.fatal = true
				continue
			}
			f.SetInt(x)
		case "text":
			f.SetString(text)
		case "switch":
			b, ok := onOff[text]
			if !ok {
				// an on/off key with a text that is none of the spellings: the property is silent; the
				// code keeps the value of the lower layer (covered by the correspondence with the model)
				ex.undef[key] = true
				continue
			}
			f.SetBool(b)
		default:
			continue
		}
		ex.layer[key] = "line"
		delete(ex.undef, key)
	}
	// documented post-processing: empty weather folder / root folder / result extension
	if ex.cfg.WeatherFolder == "" {
		ex.cfg.WeatherFolder = "Weather"
	}
	if ex.cfg.WeatherRootFolder == "" {
		ex.cfg.WeatherRootFolder = cs.Root
	}
	if strings.HasPrefix(ex.cfg.WeatherRootFolder, "./") || strings.HasPrefix(ex.cfg.WeatherRootFolder, ".\\") {
		ex.cfg.WeatherRootFolder = cs.Root + strings.TrimPrefix(ex.cfg.WeatherRootFolder, ".")
	}
	if ex.cfg.ResultFileExt == "" {
		if ex.cfg.ResultFileFormat == 1 {
			ex.cfg.ResultFileExt = "csv"
		} else {
			ex.cfg.ResultFileExt = "RES"
		}
	}
	if ex.undef["ResultFileFormat"] {
		ex.undef["ResultFileExt"] = true
	}
	return ex
}

// make the end date readable under the effective date format (a date that cannot be read ends in
// log.Fatal / an index panic of DateConverter — outside C14)
func fixDates(r *vh.Rng, cs *cfgCase, metas []cfgMeta) {
	ex := expect(cs, metas)
	format := int64(ex.cfg.Dateformat)
	if ex.undef["Dateformat"] {
		format = 0
	}
	if format < 0 || format > 3 {
		format = 1
	}
	want := validEndDate(r, format)
	// replace every EndDate given anywhere, and give one if the default would not fit
	given := false
	for i := range cs.File {
		if cs.File[i].Key == "EndDate" && !cs.NoFile {
			cs.File[i].s, cs.File[i].YAML = want, strconv.Quote(want)
			given = true
		}
	}
	for i, t := range cs.Tokens {
		if strings.HasPrefix(t, "EndDate=") && strings.Count(t, "=") == 1 {
			cs.Tokens[i] = "EndDate=" + want
			given = true
		}
	}
	if !given && format != 1 {
		cs.Tokens = append(cs.Tokens, "EndDate="+want)
	}
}

func readConfigInProc(cs *cfgCase, path string, tokens []string) (cfg hermes.Config, g *hermes.GlobalVarsMain, panicked string) {
	defer func() {
		if r := recover(); r != nil {
			panicked = fmt.Sprint(r)
		}
	}()
	s := hermes.NewHermesSession()
	defer s.Close()
	vh.Crumb("readConfig", map[string]interface{}{"config_yml": cs.yamlText(), "no_file": cs.NoFile, "batch_line": tokens})
	cfg, g = hermes.VerifReadConfig(s, path, cs.Root, argMapOf(tokens))
	return
}

func sameFloat(a, b float64) bool {
	return math.Float64bits(a) == math.Float64bits(b) || (math.IsNaN(a) && math.IsNaN(b))
}

func fieldEq(a, b reflect.Value, kind string) bool {
	if kind == "float" {
		return sameFloat(a.Float(), b.Float())
	}
	return reflect.DeepEqual(a.Interface(), b.Interface())
}

func cfgEq(a, b hermes.Config, metas []cfgMeta) (bool, string) {
	va, vb := reflect.ValueOf(a), reflect.ValueOf(b)
	for _, m := range metas {
		if !fieldEq(va.Field(m.Idx), vb.Field(m.Idx), m.Kind) {
			return false, m.Name
		}
	}
	return true, ""
}

// ---------------------------------------------------------------- the check

func checkC14(c *vh.Ctx) {
	metas := cfgMetas()
	c.Res.Rule = "kernel: commandlineOverride / readConfig on generated subsets of the " + strconv.Itoa(len(metas)) + " keys on the line and/or in config.yml (all kinds, all on/off spellings, enumeration names, unparsable numbers, repeated keys, unknown and case-variant keys, malformed tokens, random order, permutations, no file); runs: whole simulations with observable keys given on the line / in the file / nowhere; a case is non-trivial when it is a distinct (stage, kind, layer that decides, class of the value)"
	var cases, impl []string
	var descr []interface{}
	add := func(cs, im string, d interface{}) {
		cases = append(cases, cs)
		impl = append(impl, im)
		descr = append(descr, d)
	}
	flush := func(kernel string) {
		d := descr
		c.Correspond(kernel, cases, impl, 0, 0, func(i int) interface{} { return d[i] })
		cases, impl, descr = nil, nil, nil
	}

	// ------------------------------------------------------------ A0: defaults
	add("config.defaults", renderCfg(hermes.NewDefaultConfig()), "NewDefaultConfig()")
	flush("config.defaults")
	if doc, err := c.RunDriver([]string{"config.documented"}); err == nil && len(doc) == 1 {
		want := parseRendered(doc[0])
		for k, v := range want {
			documentedDefaultTokens[k] = v
		}
		// the implementation without file and without arguments
		cs := &cfgCase{Root: "/data/root", NoFile: true}
		cfg, _, pan := readConfigInProc(cs, filepath.Join(c.Scratch, "absent.yml"), nil)
		got := parseRendered(renderCfg(cfg))
		if pan != "" {
			c.Violate("search", "default:panic", "readConfig without file and arguments panics: "+pan, nil)
		}
		for _, m := range metas {
			c.Eval()
			w, ok := want[m.Name]
			if !ok {
				c.Violate("search", "default:undocumented:"+m.Name, "key "+m.Name+" has no documented default (HermesModel/ConfigDoc.lean)", map[string]interface{}{"key": m.Name, "uses": got[m.Name]})
				continue
			}
			g := got[m.Name]
			// post-processing of empty texts is documented separately
			if m.Name == "WeatherRootFolder" && w == "t" {
				w = "t" + hex.EncodeToString([]byte(cs.Root))
			}
			if m.Name == "ResultFileExt" && w == "t" {
				w = "t" + hex.EncodeToString([]byte("RES"))
			}
			if g != w {
				c.Violate("search", "default:"+m.Name, fmt.Sprintf("key %s given nowhere: the run uses %s, the documented default is %s (rendered values)", m.Name, g, w),
					map[string]interface{}{"key": m.Name, "uses": g, "documented": w, "input": "no config.yml, no arguments"})
			}
			c.Nontrivial("default:" + m.Name)
		}
	} else {
		c.Violate("correspondence", "config.documented:driver", fmt.Sprint("cannot read the documented defaults from the model driver: ", err), nil)
	}

	// ------------------------------------------------------------ A1: commandlineOverride on argument maps
	for k := 0; k < c.N(4000, 40000); k++ {
		r := c.Rng
		args := map[string]string{}
		var keys []string
		p := r.F() * 0.5
		for _, m := range metas {
			if m.Kind != "other" && r.Chance(p) {
				args[m.Name] = genLineValue(r, m.Kind, true)
				keys = append(keys, m.Name)
			}
		}
		for j := 0; j < r.Intn(3); j++ {
			uk := []string{"Foo", "latitude", "LEACHINGDEPTH", "", "project", "Latitude ", "x=y"}[r.Intn(7)]
			args[uk] = textVals[r.Intn(len(textVals))]
			keys = append(keys, uk)
		}
		sort.Strings(keys)
		uniq := keys[:0]
		for i, kk := range keys {
			if i == 0 || kk != keys[i-1] {
				uniq = append(uniq, kk)
			}
		}
		keys = uniq
		for i := len(keys) - 1; i > 0; i-- {
			j := r.Intn(i + 1)
			keys[i], keys[j] = keys[j], keys[i]
		}
		var vals []string
		var b strings.Builder
		for _, kk := range keys {
			vals = append(vals, args[kk])
		}
		no, otoks := oracleToks(vals)
		fmt.Fprintf(&b, "config.override %d %d", len(keys), no)
		for _, kk := range keys {
			b.WriteString(" " + sHex(kk) + " " + sHex(args[kk]))
		}
		if no > 0 {
			b.WriteString(" " + otoks)
		}
		cfg := hermes.NewDefaultConfig()
		err := hermes.VerifCommandlineOverride(args, &cfg)
		im := renderCfg(cfg)
		if err != nil {
			im = "fatal"
			c.Count("override:error")
		} else {
			c.Count("override:ok")
		}
		add(b.String(), im, map[string]interface{}{"args": args})
		c.Eval()
		// map order: the same map again (Go ranges over it in another order)
		if err == nil {
			cfg2 := hermes.NewDefaultConfig()
			hermes.VerifCommandlineOverride(args, &cfg2)
			if ok, key := cfgEq(cfg, cfg2, metas); !ok {
				c.Violate("search", "override:map-order", "two calls with the same argument map give different configurations (key "+key+")", map[string]interface{}{"args": args})
			}
		}
	}
	flush("config.override")

	// ------------------------------------------------------------ A1b: several lines of one session on the same configuration file
	c14SessionSequences(c, metas)

	// ------------------------------------------------------------ A2: readConfig in-process
	nFatalWanted := c.N(14, 80)
	var fatalCases []*cfgCase
	for k := 0; k < c.N(6000, 60000); k++ {
		r := c.Rng
		cs := genCfgCase(r, metas, len(fatalCases) < nFatalWanted && r.Chance(0.05))
		fixDates(r, cs, metas)
		ex := expect(cs, metas)
		fileFatal := false
		for _, e := range cs.File {
			s, n, i := yamlOracle(e.YAML)
			if !cs.NoFile && e.known && ((e.kind == "float" && n == "-") || (e.kind == "int" && ((enumOfKey(metas, e.Key) == "" && i == "-") || (enumOfKey(metas, e.Key) != "" && s == "-"))) || ((e.kind == "text" || e.kind == "switch") && s == "-")) {
				fileFatal = true
			}
		}
		if ex.fatal || fileFatal {
			if len(fatalCases) < nFatalWanted {
				fatalCases = append(fatalCases, cs)
			}
			continue
		}
		path := filepath.Join(c.Scratch, "cfg.yml")
		if cs.NoFile {
			path = filepath.Join(c.Scratch, "absent.yml")
		} else if err := os.WriteFile(path, []byte(cs.yamlText()), 0o644); err != nil {
			panic(err)
		}
		cfg, g, pan := readConfigInProc(cs, path, cs.Tokens)
		if pan != "" {
			c.Violate("search", "readconfig:panic", "readConfig panics on a well-formed configuration: "+pan, cs)
			continue
		}
		add(cs.driverLine(), renderCfg(cfg), cs)
		evalCfgProperty(c, "kernel", cs, ex, cfg, metas)
		evalUses(c, cs, cfg, g)
		// permutation of the batch line (distinct keys only)
		am := argMapOf(cs.Tokens)
		wellFormed := 0
		for _, t := range cs.Tokens {
			if len(strings.Split(t, "=")) == 2 {
				wellFormed++
			}
		}
		if wellFormed == len(am) && len(cs.Tokens) > 1 && k%3 == 0 {
			perm := append([]string(nil), cs.Tokens...)
			for i := len(perm) - 1; i > 0; i-- {
				j := r.Intn(i + 1)
				perm[i], perm[j] = perm[j], perm[i]
			}
			cfgP, _, _ := readConfigInProc(cs, path, perm)
			c.Eval()
			c.Count("kernel:permutation")
			if ok, key := cfgEq(cfg, cfgP, metas); !ok {
				c.Violate("search", "permutation:"+key, "a permutation of the batch line changes the effective value of "+key, map[string]interface{}{"case": cs, "permuted": perm})
			}
		}
		// unknown keys and malformed tokens removed
		if k%3 == 1 {
			known := map[string]bool{}
			for _, m := range metas {
				known[m.Name] = true
			}
			var only []string
			for _, t := range cs.Tokens {
				sp := strings.Split(t, "=")
				if len(sp) == 2 && known[sp[0]] {
					only = append(only, t)
				}
			}
			if len(only) < len(cs.Tokens) {
				cfgU, _, _ := readConfigInProc(cs, path, only)
				c.Eval()
				c.Count("kernel:unknown-removed")
				if ok, key := cfgEq(cfg, cfgU, metas); !ok {
					c.Violate("search", "unknown-key:"+key, "arguments that name no configuration key change the effective value of "+key, map[string]interface{}{"case": cs, "without_unknown": only})
				}
			}
		}
		if k < 2 {
			c.Sample(map[string]interface{}{"stage": "kernel", "file": cs.yamlText(), "tokens": cs.Tokens})
		}
	}
	flush("config.effective")

	// ------------------------------------------------------------ A3: cases that end in log.Fatal (child process)
	// hand-made ones first: an enumeration key with its file spelling on the line, a type error in the file
	hand := []*cfgCase{
		{Root: "/r", Tokens: []string{"GroundWaterFrom=gwTimeSeries"}},
		{Root: "/r", Tokens: []string{"Dateformat=DateDElong"}},
		{Root: "/r", Tokens: []string{"LeachingDepth=9.0"}},
		{Root: "/r", Tokens: []string{"Latitude=52,5"}},
		{Root: "/r", File: []fileEnt{{Key: "LeachingDepth", YAML: "deep", known: true, kind: "int"}}},
		{Root: "/r", File: []fileEnt{{Key: "Latitude", YAML: "north", known: true, kind: "float"}}},
		{Root: "/r", Tokens: []string{"LeachingDepth=9", "Latitude=48.5", "AutoIrrigation=off"}}, // control: no failure
	}
	self, _ := os.Executable()
	for n, cs := range append(hand, fatalCases...) {
		path := filepath.Join(c.Scratch, fmt.Sprintf("fatal-%d.yml", n))
		if cs.NoFile {
			path = filepath.Join(c.Scratch, "absent.yml")
		} else {
			os.WriteFile(path, []byte(cs.yamlText()), 0o644)
		}
		cf := filepath.Join(c.Scratch, fmt.Sprintf("fatal-%d.json", n))
		b, _ := json.Marshal(c14ChildCase{Config: path, Root: cs.Root, Args: argMapOf(cs.Tokens)})
		os.WriteFile(cf, b, 0o644)
		cmd := exec.Command(self)
		cmd.Env = append(os.Environ(), "VERIF_C14_CHILD="+cf)
		out, err := cmd.Output()
		im := strings.TrimSpace(string(out))
		if err != nil {
			im = "fatal"
			c.Count("child:fatal")
		} else {
			c.Count("child:ok")
		}
		c.Eval()
		c.Nontrivial(fmt.Sprintf("child:%v:%d", err != nil, minICfg(n, 7)))
		add(cs.driverLine(), im, cs)
	}
	flush("config.effective(child)")
	c.Note("observation (outside the property's three kinds): the enumeration keys Dateformat and GroundWaterFrom are read as integers on the batch line; their file spelling there (e.g. GroundWaterFrom=gwTimeSeries) ends the process with log.Fatal, and an integer in the file (GroundWaterFrom: 2) silently selects polygonfile")
	c.Note("observation: a token with more than one '=' (WeatherFile=a=b.csv) is dropped as a whole (strings.Split … len == 2), so a text value containing '=' cannot be given on the line")

	// ------------------------------------------------------------ B: whole runs
	c14Runs(c, metas)
	c14RunSessions(c) // stage S: lines of one session, own arguments each, echoed through the daily output
	c14BatchLineStage(c) // stage T: the line as read from a batch file by the binary, every white-space separator
}

func enumOfKey(metas []cfgMeta, key string) string {
	for _, m := range metas {
		if m.Name == key {
			return m.Codec
		}
	}
	return ""
}

func valueClass(v reflect.Value, kind string) string {
	switch kind {
	case "float":
		f := v.Float()
		switch {
		case math.IsNaN(f) || math.IsInf(f, 0):
			return "nonfinite"
		case f == 0:
			return "zero"
		case f < 0:
			return "neg"
		}
		return "pos"
	case "int":
		i := v.Int()
		switch {
		case i == 0:
			return "zero"
		case i < 0:
			return "neg"
		}
		return "pos"
	case "text":
		if v.String() == "" {
			return "empty"
		}
		return "text"
	case "switch":
		return fmt.Sprint(v.Bool())
	}
	return "-"
}

// evalCfgProperty: the effective configuration equals line > file > default for every key
func evalCfgProperty(c *vh.Ctx, where string, cs *cfgCase, ex *expected, got hermes.Config, metas []cfgMeta) {
	vg, ve := reflect.ValueOf(got), reflect.ValueOf(ex.cfg)
	for _, m := range metas {
		if m.Kind == "other" {
			continue
		}
		c.Eval()
		if ex.undef[m.Name] {
			c.Count(where + ":undefined-by-property")
			continue
		}
		layer := ex.layer[m.Name]
		kind := m.Kind
		if m.Codec != "" {
			kind = "enum"
		}
		c.Count(where + ":" + kind + ":" + layer)
		c.Nontrivial(where + ":" + kind + ":" + layer + ":" + valueClass(ve.Field(m.Idx), m.Kind))
		if !fieldEq(vg.Field(m.Idx), ve.Field(m.Idx), m.Kind) {
			c.Violate("search", where+":precedence:"+kind+":"+layer,
				fmt.Sprintf("key %s (%s): the run uses %v, but the value of the %s layer is %v", m.Name, kind, vg.Field(m.Idx).Interface(), layer, ve.Field(m.Idx).Interface()),
				map[string]interface{}{"key": m.Name, "case": cs, "file_text": cs.yamlText(), "uses": fmt.Sprint(vg.Field(m.Idx).Interface()), "expected": fmt.Sprint(ve.Field(m.Idx).Interface())})
		}
	}
}

// evalUses: the state of the run takes the effective values
func evalUses(c *vh.Ctx, cs *cfgCase, cfg hermes.Config, g *hermes.GlobalVarsMain) {
	if g == nil {
		return
	}
	_, ende := hermes.DateConverter(cfg.DivideCentury, cfg.Dateformat)(cfg.EndDate)
	chk := func(key string, ok bool, uses, want interface{}) {
		c.Eval()
		if !ok {
			c.Violate("search", "uses:"+key, fmt.Sprintf("the run state holds %v for %s, the effective configuration says %v", uses, key, want), map[string]interface{}{"case": cs, "key": key})
		}
	}
	chk("LeachingDepth", g.OUTN == cfg.LeachingDepth, g.OUTN, cfg.LeachingDepth)
	chk("NDeposition", sameFloat(g.DEPOS, cfg.NDeposition), g.DEPOS, cfg.NDeposition)
	chk("Latitude", sameFloat(g.LAT, cfg.Latitude), g.LAT, cfg.Latitude)
	chk("Altitude", sameFloat(g.ALTI, cfg.Altitude), g.ALTI, cfg.Altitude)
	chk("CO2concentration", sameFloat(g.CO2KONZ, cfg.CO2concentration), g.CO2KONZ, cfg.CO2concentration)
	chk("CO2method", g.CO2METH == cfg.CO2method, g.CO2METH, cfg.CO2method)
	chk("ETpot", g.ETMETH == cfg.ETpot, g.ETMETH, cfg.ETpot)
	chk("CO2StomataInfluence", g.CTRANS == bool(cfg.CO2StomataInfluence), g.CTRANS, cfg.CO2StomataInfluence)
	chk("CorrectionPrecipitation", g.PRECO == bool(cfg.CorrectionPrecipitation), g.PRECO, cfg.CorrectionPrecipitation)
	chk("OrganicMatterMineralProportion", sameFloat(g.NAKT, cfg.OrganicMatterMineralProportion), g.NAKT, cfg.OrganicMatterMineralProportion)
	chk("Fertilization", sameFloat(g.DUNGSZEN, cfg.Fertilization/100), g.DUNGSZEN, cfg.Fertilization/100)
	chk("KcFactorBareSoil", sameFloat(g.FKB, cfg.KcFactorBareSoil), g.FKB, cfg.KcFactorBareSoil)
	chk("AnnualAverageTemperature", sameFloat(g.TBASE, cfg.AnnualAverageTemperature), g.TBASE, cfg.AnnualAverageTemperature)
	chk("AutoSowingHarvest", g.AUTOMAN == bool(cfg.AutoSowingHarvest), g.AUTOMAN, cfg.AutoSowingHarvest)
	chk("AutoFertilization", g.AUTOFERT == bool(cfg.AutoFertilization), g.AUTOFERT, cfg.AutoFertilization)
	chk("AutoIrrigation", g.AUTOIRRI == bool(cfg.AutoIrrigation), g.AUTOIRRI, cfg.AutoIrrigation)
	chk("AutoHarvest", g.AUTOHAR == bool(cfg.AutoHarvest), g.AUTOHAR, cfg.AutoHarvest)
	chk("PTF", g.PTF == cfg.PTF, g.PTF, cfg.PTF)
	chk("GroundWaterPhase", g.GWPhase == cfg.GroundWaterPhase, g.GWPhase, cfg.GroundWaterPhase)
	chk("StartYear", g.ANJAHR == cfg.StartYear, g.ANJAHR, cfg.StartYear)
	chk("InitSelection", g.INIWAHL == cfg.InitSelection, g.INIWAHL, cfg.InitSelection)
	chk("GroundWaterFrom", g.GROUNDWATERFROM == cfg.GroundWaterFrom, g.GROUNDWATERFROM, cfg.GroundWaterFrom)
	chk("Dateformat", g.DATEFORMAT == cfg.Dateformat, g.DATEFORMAT, cfg.Dateformat)
	chk("PotMineralisation", g.PotMineralisationMethod == cfg.PotMineralisation, g.PotMineralisationMethod, cfg.PotMineralisation)
	chk("EndDate", g.ENDE == ende, g.ENDE, ende)
}
