package main

// C14 stage S: several batch lines of ONE session run the same project (same config.yml, same weather file)
// with different key=value sets on the line, sequentially and overlapping in time.  Every line must work with
// line > file > default for ITS OWN arguments: the values the day loop uses are echoed through the daily output
// (CO2KONZ, DEPOS, LAT, ALTI, FKB, TBASE, DUNGSZEN, OUTN are exported state fields).  All three weather layouts are
// used; the day-of-year layout carries no CO2 column, so the concentration comes from the configuration only.

import (
	"fmt"
	"os"
	"path/filepath"
	"strconv"
	"strings"

	"verifharness/proj"
	"verifharness/vh"
)

func c14RunSessions(c *vh.Ctx) {
	root := filepath.Join(c.Scratch, "runsessions")
	os.MkdirAll(root, 0o755)
	type key struct {
		name, col string
		gen       func(r *vh.Rng) string
		scale     float64
	}
	keys := []key{
		{"CO2concentration", "CO2KONZ", func(r *vh.Rng) string { return strconv.Itoa(r.Range(300, 800)) }, 1},
		{"NDeposition", "DEPOS", func(r *vh.Rng) string { return strconv.Itoa(r.Range(0, 60)) }, 1},
		{"Latitude", "LAT", func(r *vh.Rng) string { return ffmt(r.Uni(35, 65), 2) }, 1},
		{"KcFactorBareSoil", "FKB", func(r *vh.Rng) string { return ffmt(r.Uni(0.2, 0.9), 2) }, 1},
		{"AnnualAverageTemperature", "TBASE", func(r *vh.Rng) string { return ffmt(r.Uni(5, 12), 1) }, 1},
		{"Fertilization", "DUNGSZEN", func(r *vh.Rng) string { return strconv.Itoa(r.Range(0, 150)) }, 0.01},
	}
	n := c.N(6, 60)
	for k := 0; k < n; k++ {
		r := c.Rng.Fork()
		p := proj.Gen(r, fmt.Sprintf("cs%d", k), proj.Opt{Years: 1, NoCrop: true, MinLayers: 15})
		p.DailyCols = []string{"AKTUELL"}
		for _, ky := range keys {
			p.DailyCols = append(p.DailyCols, ky.col)
		}
		layout := k % 3
		p.DeriveMeanTemperature()
		p.UseWeatherLayout(layout, false, 0, 2)
		fileVal := map[string]string{}
		for _, ky := range keys {
			if r.Chance(0.7) {
				fileVal[ky.name] = ky.gen(r)
				p.Cfg[ky.name] = fileVal[ky.name]
			} else {
				fileVal[ky.name] = strings.Trim(p.Cfg[ky.name], "\"")
			}
		}
		if err := p.Write(root, c.Repo); err != nil {
			c.Violate("correspondence", "harness:write", err.Error(), nil)
			return
		}
		if err := p.WriteAlt(root); err != nil {
			c.Violate("correspondence", "harness:write", err.Error(), nil)
			return
		}
		nl := r.Range(3, 6)
		var lines [][]string
		var want []map[string]float64
		for i := 0; i < nl; i++ {
			var a []string
			for _, t := range p.BatchArgs() {
				if !strings.HasPrefix(t, "poligonID=") {
					a = append(a, t)
				}
			}
			a = append(a, fmt.Sprintf("poligonID=L%d%s", i, p.Name))
			w := map[string]float64{}
			for _, ky := range keys {
				v := fileVal[ky.name]
				if r.Chance(0.5) {
					v = ky.gen(r)
					a = append(a, ky.name+"="+v)
				}
				f, _ := strconv.ParseFloat(v, 64)
				w[ky.col] = f * ky.scale
			}
			lines = append(lines, a)
			want = append(want, w)
		}
		concurrent := k%2 == 1
		mo, rs := proj.RunSession(root, lines, concurrent)
		replay := map[string]interface{}{"project": p, "weather_layout": layout, "lines_of_the_session": lines, "config_yml": p.Cfg, "concurrent": concurrent,
			"how": "Project.Write + WriteAlt, then proj.RunSession(root, lines, concurrent): all lines in ONE hermes session; the first daily record of each line echoes the values its day loop uses"}
		for i := range lines {
			c.Eval()
			if rs[i].Err != nil || rs[i].Panic != "" {
				c.Count("S:run-failed")
				c.Note("run-session %s line %d failed: %v %s", p.Name, i, rs[i].Err, rs[i].Panic)
				continue
			}
			var rec []string
			for name, buf := range mo.Files {
				if strings.HasPrefix(name, "V") && strings.Contains(name, fmt.Sprintf("L%d%s", i, p.Name)) {
					ls := strings.Split(buf.String(), "\n")
					for _, l := range ls {
						f := strings.Split(l, ",")
						if len(f) == len(p.DailyCols) {
							if _, err := strconv.ParseFloat(strings.TrimSpace(f[1]), 64); err == nil {
								rec = f
								break
							}
						}
					}
				}
			}
			if rec == nil {
				c.Count("S:no-daily-record")
				continue
			}
			c.Nontrivial(fmt.Sprintf("runsession:%d:%d", k, i))
			c.Count(fmt.Sprintf("S:layout%d:concurrent=%v", layout, concurrent))
			for j, ky := range keys {
				got, err := strconv.ParseFloat(strings.TrimSpace(rec[j+1]), 64)
				if err != nil {
					continue
				}
				w := want[i][ky.col]
				if d := got - w; d > 1e-9*(1+w) || d < -1e-9*(1+w) {
					layer := "file"
					for _, t := range lines[i] {
						if strings.HasPrefix(t, ky.name+"=") {
							layer = "line"
						}
					}
					c.Violate("search", "run-session:precedence:"+ky.name+":"+layer, fmt.Sprintf("line %d of %d in one session (weather layout %d): the day loop works with %s = %v, the %s layer of THIS line says %v (another line of the session: %v)", i+1, nl, layout, ky.col, got, layer, w, otherLineWith(want, i, ky.col, got)), replay)
				}
			}
		}
		os.RemoveAll(filepath.Join(root, "project", p.Name))
		os.RemoveAll(filepath.Join(root, "weather"))
		p.Forget()
	}
}

func otherLineWith(want []map[string]float64, self int, col string, got float64) string {
	for i, w := range want {
		if i != self {
			if d := w[col] - got; d < 1e-9 && d > -1e-9 {
				return fmt.Sprintf("line %d has that value", i+1)
			}
		}
	}
	return "none has that value"
}
