/-
Lemmas about the normalisation passes on the per-year arrays (HermesModel/WeatherNorm.lean) for
`C04_weather_of_day_normalised`: each pass rewrites exactly the cells [y][i], y < yrz,
i < MaxYearDays[y], once each, in lexicographic order; the value a cell ends with is a function of
its own raw value, of the *already normalised* previous neighbour and of the *raw* next neighbour
(replaceMissingValues), then of its own value only (transformWeatherData); `JAR` and `MaxYearDays`
are untouched.  Generic in the arithmetic (no algebraic law is used).
-/
import HermesModel.WeatherNorm
import HermesProofs.WeatherRun
set_option linter.unusedSectionVars false
namespace Hermes.Weather

section
variable {α : Type} [Add α] [Mul α] [Div α] [LT α] [DecidableLT α] [BEq α]
  [OfNat α 0] [OfNat α 2] [OfNat α 10] [OfScientific α]

/-! ### cells of a store -/

theorem cellAt_setCell_same (s : Store (Day α)) (y i : Nat) (d : Day α) : cellAt (setCell s y i d) y i = d := by
  simp [cellAt, setCell, Store.get, lookup2]

theorem cellAt_setCell_ne (s : Store (Day α)) (y i y' i' : Nat) (d : Day α) (h : ¬ (y = y' ∧ i = i')) :
    cellAt (setCell s y i d) y' i' = cellAt s y' i' := by
  simp [cellAt, setCell, Store.get, lookup2, h]

theorem maxAt_setCell (s : Store (Day α)) (y i : Nat) (d : Day α) (k : Nat) : (setCell s y i d).maxAt k = s.maxAt k := rfl
theorem jarAt_setCell (s : Store (Day α)) (y i : Nat) (d : Day α) (k : Nat) : (setCell s y i d).jarAt k = s.jarAt k := rfl

/-! ### a loop that assigns one cell per position -/

/-- loop body: assign to the cell of the position a value computed from the current store -/
def assign (F : Store (Day α) → Nat × Nat → Day α) (s : Store (Day α)) (p : Nat × Nat) : Store (Day α) :=
  setCell s p.1 p.2 (F s p)

theorem foldl_assign_frame (F : Store (Day α) → Nat × Nat → Day α) (ps : List (Nat × Nat)) :
    ∀ (s : Store (Day α)) (q : Nat × Nat), q ∉ ps → cellAt (ps.foldl (assign F) s) q.1 q.2 = cellAt s q.1 q.2 := by
  induction ps with
  | nil => intro s q _; rfl
  | cons p rest ih =>
    intro s q hq
    simp only [List.mem_cons, not_or] at hq
    simp only [List.foldl_cons]
    rw [ih _ q hq.2]
    apply cellAt_setCell_ne
    intro h
    exact hq.1 (Prod.ext h.1.symm h.2.symm)

theorem foldl_assign_maxAt (F : Store (Day α) → Nat × Nat → Day α) (ps : List (Nat × Nat)) :
    ∀ (s : Store (Day α)) (k : Nat), (ps.foldl (assign F) s).maxAt k = s.maxAt k ∧ (ps.foldl (assign F) s).jarAt k = s.jarAt k := by
  induction ps with
  | nil => intro s k; exact ⟨rfl, rfl⟩
  | cons p rest ih =>
    intro s k
    simp only [List.foldl_cons]
    obtain ⟨a, b⟩ := ih (assign F s p) k
    exact ⟨a, b⟩

/-- lexicographic order of the loop positions -/
def lexLT (p q : Nat × Nat) : Prop := p.1 < q.1 ∨ (p.1 = q.1 ∧ p.2 < q.2)

theorem lexLT_irrefl (p : Nat × Nat) : ¬ lexLT p p := by unfold lexLT; omega
theorem lexLT_asymm {p q : Nat × Nat} (h : lexLT p q) : ¬ lexLT q p := by unfold lexLT at *; omega

/-- the value a position ends with: computed from the store as it is when the loop reaches it -/
theorem foldl_assign_at (F : Store (Day α) → Nat × Nat → Day α) (pre post : List (Nat × Nat)) (p : Nat × Nat)
    (hs : (pre ++ p :: post).Pairwise lexLT) (s : Store (Day α)) :
    cellAt ((pre ++ p :: post).foldl (assign F) s) p.1 p.2 = F (pre.foldl (assign F) s) p := by
  rw [List.foldl_append, List.foldl_cons]
  have hp : p ∉ post := by
    intro hm
    have := (List.pairwise_append.mp hs).2.1
    exact lexLT_irrefl p ((List.pairwise_cons.mp this).1 p hm)
  rw [foldl_assign_frame F post _ p hp]
  exact cellAt_setCell_same ..

/-! ### the positions of the two passes -/

theorem mem_cellsOf (maxd : List Nat) (yrz : Nat) (p : Nat × Nat) :
    p ∈ cellsOf maxd yrz ↔ p.1 < yrz ∧ p.2 < maxd.getD p.1 0 := by
  unfold cellsOf
  simp only [List.mem_flatMap, List.mem_range, List.mem_map]
  constructor
  · rintro ⟨y, hy, i, hi, rfl⟩; exact ⟨hy, hi⟩
  · rintro ⟨h1, h2⟩; exact ⟨p.1, h1, p.2, h2, rfl⟩

theorem cellsOf_sorted (maxd : List Nat) (yrz : Nat) : (cellsOf maxd yrz).Pairwise lexLT := by
  unfold cellsOf
  rw [List.pairwise_flatMap]
  constructor
  · intro y _
    rw [List.pairwise_map]
    exact List.Pairwise.imp (fun h => Or.inr ⟨rfl, h⟩) List.pairwise_lt_range
  · refine List.Pairwise.imp ?_ List.pairwise_lt_range
    intro a b hab x hx y hy
    simp only [List.mem_map, List.mem_range] at hx hy
    obtain ⟨_, _, rfl⟩ := hx
    obtain ⟨_, _, rfl⟩ := hy
    exact Or.inl hab

/-- decomposition of the loop at a position: everything before is smaller, everything after larger -/
theorem cellsOf_split (maxd : List Nat) (yrz : Nat) (p : Nat × Nat) (hp : p ∈ cellsOf maxd yrz) :
    ∃ pre post, cellsOf maxd yrz = pre ++ p :: post ∧ (pre ++ p :: post).Pairwise lexLT ∧
      (∀ q ∈ pre, lexLT q p) ∧ (∀ q ∈ post, lexLT p q) := by
  obtain ⟨pre, post, e⟩ := List.append_of_mem hp
  have hs := cellsOf_sorted maxd yrz
  rw [e] at hs
  obtain ⟨_, h2, h3⟩ := List.pairwise_append.mp hs
  exact ⟨pre, post, e, hs, fun q hq => h3 q hq p (List.mem_cons_self ..), (List.pairwise_cons.mp h2).1⟩

/-! ### replaceMissingValues -/

/-- the body of the inner loop as a function of the cell and (when both exist) its two neighbours -/
def fillPure (nv : α) (c : Day α) (pn : Option (Day α × Day α)) : Day α :=
  let c1 : Day α :=
    match pn with
    | some (p, n) =>
      { c with tmp := fillMean nv c.tmp p.tmp n.tmp, verd := fillMean nv c.verd p.verd n.verd,
               sund := fillMean nv c.sund p.sund n.sund }
    | none => { c with tmp := fillZero nv c.tmp, verd := fillZero nv c.verd, sund := fillZero nv c.sund }
  { c1 with sund := fillZero nv c1.sund, radi := fillZero nv c1.radi, reg := fillZero nv c1.reg }

/-- the two neighbour cells the code reads, taken from two stores: previous from `sp`, next from `sn` -/
def neighbours (maxd : List Nat) (yrz : Nat) (sp sn : Store (Day α)) (y i : Nat) : Option (Day α × Day α) :=
  match prevPos maxd y i, nextPos maxd yrz y i with
  | some (py, pi), some (ny, ni) => some (cellAt sp py pi, cellAt sn ny ni)
  | _, _ => none

theorem fillValue_eq (nv : α) (maxd : List Nat) (yrz : Nat) (s : Store (Day α)) (y i : Nat) :
    fillValue nv maxd yrz s y i = fillPure nv (cellAt s y i) (neighbours maxd yrz s s y i) := by
  unfold fillValue fillPure neighbours
  cases prevPos maxd y i with
  | none => rfl
  | some pp =>
    cases nextPos maxd yrz y i with
    | none => rfl
    | some np => rfl

theorem prevPos_lt (maxd : List Nat) (yrz y i py pi : Nat) (hy : y < yrz) (h : prevPos maxd y i = some (py, pi)) :
    lexLT (py, pi) (y, i) ∧ (py, pi) ∈ cellsOf maxd yrz ∨ lexLT (py, pi) (y, i) ∧ pi ≥ maxd.getD py 0 := by
  unfold prevPos at h
  by_cases h0 : i = 0
  · rw [if_pos h0] at h
    by_cases hy0 : y > 0
    · rw [if_pos hy0] at h
      by_cases hm : maxd.getD (y - 1) 0 = 0
      · rw [if_pos hm] at h; exact absurd h (by simp)
      · rw [if_neg hm] at h
        simp only [Option.some.injEq, Prod.mk.injEq] at h
        obtain ⟨rfl, rfl⟩ := h
        left
        refine ⟨Or.inl (by show y - 1 < y; omega), (mem_cellsOf ..).mpr ⟨by show y - 1 < yrz; omega, ?_⟩⟩
        show maxd.getD (y - 1) 0 - 1 < maxd.getD (y - 1) 0
        omega
    · rw [if_neg hy0] at h; exact absurd h (by simp)
  · rw [if_neg h0] at h
    simp only [Option.some.injEq, Prod.mk.injEq] at h
    obtain ⟨rfl, rfl⟩ := h
    by_cases hr : i - 1 < maxd.getD y 0
    · left; exact ⟨Or.inr ⟨rfl, by show i - 1 < i; omega⟩, (mem_cellsOf ..).mpr ⟨hy, hr⟩⟩
    · right; exact ⟨Or.inr ⟨rfl, by show i - 1 < i; omega⟩, by show i - 1 ≥ maxd.getD y 0; omega⟩

theorem nextPos_gt (maxd : List Nat) (yrz y i ny ni : Nat) (h : nextPos maxd yrz y i = some (ny, ni)) :
    lexLT (y, i) (ny, ni) := by
  unfold nextPos at h
  by_cases h1 : i + 1 ≥ maxd.getD y 0
  · simp only [h1, if_true] at h
    by_cases h2 : y + 1 ≥ yrz
    · simp [h2] at h
    · simp only [h2, if_false, Option.some.injEq, Prod.mk.injEq] at h
      obtain ⟨rfl, rfl⟩ := h
      exact Or.inl (by show y < y + 1; omega)
  · simp only [h1, if_false, Option.some.injEq, Prod.mk.injEq] at h
    obtain ⟨rfl, rfl⟩ := h
    exact Or.inr ⟨rfl, by show i < i + 1; omega⟩

/-- **`replaceMissingValues`, cell by cell.** A cell of the loop ends with `fillPure` of its raw
value, the *final* value of the previous neighbour and the *raw* value of the next neighbour (the
pass works in place, front to back); every other cell, `JAR` and `MaxYearDays` are untouched. -/
theorem replaceMissingS_cell (nv : α) (maxd : List Nat) (yrz : Nat) (s : Store (Day α)) (y i : Nat) :
    (y < yrz ∧ i < maxd.getD y 0 →
      cellAt (replaceMissingS nv maxd yrz s) y i =
        fillPure nv (cellAt s y i) (neighbours maxd yrz (replaceMissingS nv maxd yrz s) s y i)) ∧
    (¬ (y < yrz ∧ i < maxd.getD y 0) → cellAt (replaceMissingS nv maxd yrz s) y i = cellAt s y i) := by
  have hF : fillCellS nv maxd yrz = assign (fun s p => fillValue nv maxd yrz s p.1 p.2) := rfl
  constructor
  · intro hin
    have hp : (y, i) ∈ cellsOf maxd yrz := (mem_cellsOf ..).mpr hin
    obtain ⟨pre, post, e, hs, hpre, hpost⟩ := cellsOf_split maxd yrz (y, i) hp
    unfold replaceMissingS
    rw [hF, e, foldl_assign_at _ pre post (y, i) hs s]
    simp only
    rw [fillValue_eq]
    -- the cell itself is still raw when the loop reaches it
    have hself : cellAt (pre.foldl (assign fun s p => fillValue nv maxd yrz s p.1 p.2) s) y i = cellAt s y i :=
      foldl_assign_frame _ pre s (y, i) (fun hm => lexLT_irrefl _ (hpre _ hm))
    rw [hself]
    congr 1
    unfold neighbours
    cases hpp : prevPos maxd y i with
    | none => rfl
    | some pp =>
      obtain ⟨py, pi⟩ := pp
      cases hnp : nextPos maxd yrz y i with
      | none => rfl
      | some np =>
        obtain ⟨ny, ni⟩ := np
        simp only
        -- next neighbour: not yet reached
        have hn : (ny, ni) ∉ pre := fun hm => lexLT_asymm (nextPos_gt maxd yrz y i ny ni hnp) (hpre _ hm)
        have e1 := foldl_assign_frame (fun s p => fillValue nv maxd yrz s p.1 p.2) pre s (ny, ni) hn
        -- previous neighbour: final already
        have hpv : (py, pi) ∉ (y, i) :: post := by
          intro hm
          have hlt : lexLT (py, pi) (y, i) := by
            rcases prevPos_lt maxd yrz y i py pi hin.1 hpp with h | h <;> exact h.1
          rcases List.mem_cons.mp hm with h | h
          · rw [h] at hlt; exact lexLT_irrefl _ hlt
          · exact lexLT_asymm hlt (hpost _ h)
        have e2 : cellAt ((pre ++ (y, i) :: post).foldl (assign fun s p => fillValue nv maxd yrz s p.1 p.2) s) py pi
            = cellAt (pre.foldl (assign fun s p => fillValue nv maxd yrz s p.1 p.2) s) py pi := by
          rw [List.foldl_append]
          exact foldl_assign_frame _ _ _ (py, pi) hpv
        simp only at e1 e2
        rw [e1, e2]
  · intro hout
    have hp : (y, i) ∉ cellsOf maxd yrz := fun hm => hout ((mem_cellsOf ..).mp hm)
    unfold replaceMissingS
    rw [hF]
    exact foldl_assign_frame _ _ s (y, i) hp

theorem replaceMissingS_maxAt (nv : α) (maxd : List Nat) (yrz : Nat) (s : Store (Day α)) (k : Nat) :
    (replaceMissingS nv maxd yrz s).maxAt k = s.maxAt k ∧ (replaceMissingS nv maxd yrz s).jarAt k = s.jarAt k :=
  foldl_assign_maxAt (fun s p => fillValue nv maxd yrz s p.1 p.2) _ s k

/-! ### transformWeatherData -/

/-- the body of the inner loop as a function of the cell -/
def transformPure (corr : List α) (leap : Bool) (i : Nat) (c : Day α) : Day α :=
  { c with reg := regenT c.reg (corr.getD (corrMonth (corrDoy leap (i + 1))) 0), radi := parT c.radi,
           win := windFloor c.win }

theorem transformS_cell (corr : List α) (jar maxd : List Nat) (yrz : Nat) (s : Store (Day α)) (y i : Nat) :
    (y < yrz ∧ i < maxd.getD y 0 →
      cellAt (transformS corr jar maxd yrz s) y i =
        transformPure corr (daysInYear (jar.getD y 0) == 366) i (cellAt s y i)) ∧
    (¬ (y < yrz ∧ i < maxd.getD y 0) → cellAt (transformS corr jar maxd yrz s) y i = cellAt s y i) := by
  have hF : transformCellS corr jar = assign (fun s p => transformValue corr jar s p.1 p.2) := rfl
  constructor
  · intro hin
    have hp : (y, i) ∈ cellsOf maxd yrz := (mem_cellsOf ..).mpr hin
    obtain ⟨pre, post, e, hs, hpre, _⟩ := cellsOf_split maxd yrz (y, i) hp
    unfold transformS
    rw [hF, e, foldl_assign_at _ pre post (y, i) hs s]
    have hself : cellAt (pre.foldl (assign fun s p => transformValue corr jar s p.1 p.2) s) y i = cellAt s y i :=
      foldl_assign_frame _ pre s (y, i) (fun hm => lexLT_irrefl _ (hpre _ hm))
    generalize pre.foldl (assign fun s p => transformValue corr jar s p.1 p.2) s = s' at hself ⊢
    show transformValue corr jar s' y i = _
    unfold transformValue transformPure
    rw [hself]
  · intro hout
    have hp : (y, i) ∉ cellsOf maxd yrz := fun hm => hout ((mem_cellsOf ..).mp hm)
    unfold transformS
    rw [hF]
    exact foldl_assign_frame _ _ s (y, i) hp

theorem transformS_maxAt (corr : List α) (jar maxd : List Nat) (yrz : Nat) (s : Store (Day α)) (k : Nat) :
    (transformS corr jar maxd yrz s).maxAt k = s.maxAt k ∧ (transformS corr jar maxd yrz s).jarAt k = s.jarAt k :=
  foldl_assign_maxAt (fun s p => transformValue corr jar s p.1 p.2) _ s k

/-! ### both passes -/

theorem getD_map_range (f : Nat → Nat) (n y : Nat) (h : y < n) : ((List.range n).map f).getD y 0 = f y := by
  simp [List.getD_eq_getElem?_getD, List.getElem?_map, List.getElem?_range h]

theorem normalise_maxAt (nv : α) (corr : List α) (yrz : Nat) (s : Store (Day α)) (k : Nat) :
    (normalise nv corr yrz s).maxAt k = s.maxAt k ∧ (normalise nv corr yrz s).jarAt k = s.jarAt k := by
  unfold normalise
  simp only
  obtain ⟨a, b⟩ := transformS_maxAt corr ((List.range yrz).map s.jarAt) ((List.range yrz).map s.maxAt) yrz
    (replaceMissingS nv ((List.range yrz).map s.maxAt) yrz s) k
  obtain ⟨c, d⟩ := replaceMissingS_maxAt nv ((List.range yrz).map s.maxAt) yrz s k
  exact ⟨a.trans c, b.trans d⟩

/-- the intermediate arrays (after `replaceMissingValues`, before `transformWeatherData`) -/
def filled (nv : α) (yrz : Nat) (s : Store (Day α)) : Store (Day α) :=
  replaceMissingS nv ((List.range yrz).map s.maxAt) yrz s

/-- **Both passes, cell by cell**: for a cell of a year slot in use,
normalised = `transformPure` (leap flag of `JAR[y]`, day of the year i + 1) of the filled cell, and
the filled cell = `fillPure` of the raw cell, the filled previous neighbour, the raw next neighbour. -/
theorem normalise_cell (nv : α) (corr : List α) (yrz : Nat) (s : Store (Day α)) (y i : Nat)
    (hy : y < yrz) (hi : i < s.maxAt y) :
    cellAt (normalise nv corr yrz s) y i =
      transformPure corr (daysInYear (s.jarAt y) == 366) i (cellAt (filled nv yrz s) y i) ∧
    cellAt (filled nv yrz s) y i =
      fillPure nv (cellAt s y i) (neighbours ((List.range yrz).map s.maxAt) yrz (filled nv yrz s) s y i) := by
  have hm : ((List.range yrz).map s.maxAt).getD y 0 = s.maxAt y := getD_map_range _ _ _ hy
  have hj : ((List.range yrz).map s.jarAt).getD y 0 = s.jarAt y := getD_map_range _ _ _ hy
  constructor
  · unfold normalise
    simp only
    have := (transformS_cell corr ((List.range yrz).map s.jarAt) ((List.range yrz).map s.maxAt) yrz
      (replaceMissingS nv ((List.range yrz).map s.maxAt) yrz s) y i).1 ⟨hy, by rw [hm]; exact hi⟩
    rw [this, hj]
    rfl
  · exact (replaceMissingS_cell nv ((List.range yrz).map s.maxAt) yrz s y i).1 ⟨hy, by rw [hm]; exact hi⟩

end
end Hermes.Weather
