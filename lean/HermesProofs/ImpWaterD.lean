/-
Refinement of the regenerated translation of `hermes.Water` — part D: the state the kernel starts from, the model's inputs as the
translation reads them, and the first stages of `run` (uptake → `phaseUptake`, surface flux → `phaseSurface`).
-/
import HermesProofs.ImpWaterC

namespace Hermes.ImpWater
open Hermes.Imp Hermes.Water
open Hermes.ImpSoiltemp (vw vw_length vw_getElem rd_wr_nat getD_of_lt vw_getD)
open Hermes.Generated.Imp.Water

/-! ### the state and the model's inputs -/

/-- what the translation needs from the state: 1 ≤ N ≤ 20 layers, arrays long enough (Go: `[21]float64`), leaching depth inside
the profile -/
structure Pre (s : St ℚ) (N : Nat) : Prop where
  hN : s.g_N = (N : Int)
  pos : 1 ≤ N
  le20 : N ≤ 20
  lWG0 : N + 1 ≤ s.g_WG_0.length
  lWG1 : N + 1 ≤ s.g_WG_1.length
  lTP : N ≤ s.g_TP.length
  lQ : N + 1 ≤ s.g_Q1.length
  lEV : N + 1 ≤ s.l_EV.length
  lLIM : N ≤ s.l_LIMIT.length
  outn0 : 0 ≤ s.g_OUTN
  outnN : s.g_OUTN ≤ (N : Int)

/-- the inputs of the model's `step` as the translation reads them -/
def inOf (s : St ℚ) (N : Nat) : In ℚ :=
  { dz := s.g_DZ_Num, wdt := s.p_wdt, first := decide (s.p_subd = 1), fluss0 := s.g_FLUSS0,
    wg := if s.p_subd = 1 then vw s.g_WG_0 N else vw s.g_WG_1 N,
    tp := vw s.g_TP N, w := vw s.g_W N, wmin := vw s.g_WMIN N, ev := vw s.l_EV N, evTail := rd s.l_EV (N : Int),
    nfk := vw s.l_NFK N, caps := vw s.g_CAPS 21, grw := s.g_GRW, draidep := s.g_DRAIDEP.toNat, draifak := s.g_DRAIFAK,
    outn := s.g_OUTN.toNat, gwauf := s.l_GWAUF, q0prev := rd s.g_Q1 0 }

/-! ### the model's uptake phase, pointwise -/

theorem limitTp_length (dz : ℚ) : ∀ (tp wg wmin : List ℚ),
    (limitTp dz tp wg wmin).length = min tp.length (min wg.length wmin.length) := by
  intro tp
  induction tp with
  | nil => intro wg wmin; simp [limitTp]
  | cons a as ih =>
    intro wg wmin
    cases wg with
    | nil => simp [limitTp]
    | cons b bs =>
      cases wmin with
      | nil => simp [limitTp]
      | cons c cs => simp only [limitTp, List.length_cons, ih]; omega

theorem limitTp_getElem (dz : ℚ) : ∀ (tp wg wmin : List ℚ) (j : Nat) (h : j < (limitTp dz tp wg wmin).length),
    (limitTp dz tp wg wmin)[j] =
      (if (wg.getD j 0 - wmin.getD j 0) * dz < tp.getD j 0 then
        (if wg.getD j 0 < wmin.getD j 0 then 0 else (wg.getD j 0 - wmin.getD j 0) * dz) else tp.getD j 0) := by
  intro tp
  induction tp with
  | nil => intro wg wmin j h; simp [limitTp] at h
  | cons a as ih =>
    intro wg wmin j h
    cases wg with
    | nil => simp [limitTp] at h
    | cons b bs =>
      cases wmin with
      | nil => simp [limitTp] at h
      | cons c cs =>
        cases j with
        | zero => simp [limitTp]
        | succ j =>
          simp only [limitTp, List.getElem_cons_succ, List.getD_cons_succ]
          exact ih bs cs j (by simpa [limitTp] using h)

theorem water0_length (dz wdt : ℚ) : ∀ (wg tp : List ℚ), (water0 dz wdt wg tp).length = min wg.length tp.length := by
  intro wg
  induction wg with
  | nil => intro tp; simp [water0]
  | cons a as ih =>
    intro tp
    cases tp with
    | nil => simp [water0]
    | cons b bs => simp only [water0, List.length_cons, ih]; omega

theorem water0_getElem (dz wdt : ℚ) : ∀ (wg tp : List ℚ) (j : Nat) (h : j < (water0 dz wdt wg tp).length),
    (water0 dz wdt wg tp)[j] = wg.getD j 0 * dz - tp.getD j 0 * wdt := by
  intro wg
  induction wg with
  | nil => intro tp j h; simp [water0] at h
  | cons a as ih =>
    intro tp j h
    cases tp with
    | nil => simp [water0] at h
    | cons b bs =>
      cases j with
      | zero => simp [water0]
      | succ j =>
        simp only [water0, List.getElem_cons_succ, List.getD_cons_succ]
        exact ih bs j (by simpa [water0] using h)

/-! ### stage 1: local arrays, uptake, QDRAIN := 0 (top1-top3) -/

theorem stage1 (m : MathFns ℚ) (s : St ℚ) (N : Nat) (h : Pre s N) :
    ∃ TP W0 G, top3 m (top2 m (top1 m { s with brk := false }))
        = { s with brk := false, v_WATER_0 := W0, v_WATER_1 := List.replicate 21 0, g_TP := TP, g_WG_0 := G, g_QDRAIN := 0 } ∧
      TP.length = s.g_TP.length ∧ W0.length = 21 ∧ G.length = s.g_WG_0.length ∧
      vw TP N = (phaseUptake (inOf s N)).1 ∧ vw W0 N = (phaseUptake (inOf s N)).2 ∧
      (∀ j : Nat, N ≤ j → rd TP (j : Int) = rd s.g_TP (j : Int)) := by
  obtain ⟨hN, hpos, h20, lWG0, lWG1, lTP, lQ, lEV, lLIM, ho0, hoN⟩ := h
  have h0 : (0.0 : ℚ) = 0 := by norm_num
  by_cases hsub : s.p_subd = 1
  · -- first sub-step: uptake limited to the water above the wilting point
    obtain ⟨TP, W0, e, lT, lW, p1, p2⟩ := loop1_spec m
      { s with brk := false, v_WATER_0 := List.replicate 21 0, v_WATER_1 := List.replicate 21 0 } N hN lTP (by simp; omega)
    refine ⟨TP, W0, s.g_WG_0, ?_, by simpa using lT, by simpa using lW, rfl, ?_, ?_, ?_⟩
    · simp only [top1, top2, top3, h0]
      rw [if_pos hsub, e]
    · apply List.ext_getElem
      · simp [phaseUptake, inOf, hsub, limitTp_length]
      · intro j h1 h2
        have hj : j < N := by simpa using h1
        rw [vw_getElem, p1 j]
        simp only [hj, if_true, phaseUptake, inOf, hsub, decide_true, if_true]
        rw [limitTp_getElem, vw_getD _ _ _ hj, vw_getD _ _ _ hj, vw_getD _ _ _ hj]
        rfl
    · apply List.ext_getElem
      · simp [phaseUptake, inOf, hsub, limitTp_length, water0_length]
      · intro j h1 h2
        have hj : j < N := by simpa using h1
        rw [vw_getElem, p2 j]
        simp only [hj, if_true, phaseUptake, inOf, hsub, decide_true, if_true]
        rw [water0_getElem, vw_getD _ _ _ hj, getD_of_lt _ _ (by simp [limitTp_length]; omega), limitTp_getElem,
          vw_getD _ _ _ hj, vw_getD _ _ _ hj, vw_getD _ _ _ hj]
        rfl
    · intro j hj
      rw [p1 j]
      have : ¬ (j < N) := by omega
      simp [this]
  · -- later sub-steps: the profile of the previous sub-step
    obtain ⟨G, W0, e, lG, lW, p1, p2⟩ := loop2_spec m
      { s with brk := false, v_WATER_0 := List.replicate 21 0, v_WATER_1 := List.replicate 21 0 } N hN (by simp only []; omega) (by simp; omega)
    refine ⟨s.g_TP, W0, G, ?_, rfl, by simpa using lW, by simpa using lG, ?_, ?_, fun _ _ => rfl⟩
    · simp only [top1, top2, top3, h0]
      rw [if_neg hsub, e]
    · simp [phaseUptake, inOf, hsub]
    · apply List.ext_getElem
      · simp [phaseUptake, inOf, hsub, water0_length]
      · intro j h1 h2
        have hj : j < N := by simpa using h1
        rw [vw_getElem, p2 j]
        simp only [hj, if_true, phaseUptake, inOf, hsub, decide_false, if_false, Bool.false_eq_true]
        rw [water0_getElem, vw_getD _ _ _ hj, vw_getD _ _ _ hj]


/-! ### lengths of the model's cascades -/

theorem infil_lengths (dz : ℚ) (dd : Nat) (df : ℚ) : ∀ (rest : List (ℚ × ℚ)) (a : ℚ) (k : Nat),
    (infil dz dd df a k rest).1.length = rest.length ∧ (infil dz dd df a k rest).2.1.length = rest.length := by
  intro rest
  induction rest with
  | nil => intro a k; simp [infil]
  | cons x rest ih =>
    intro a k
    obtain ⟨wa, w⟩ := x
    simp only [infil]
    split
    · simp
    · simp only [List.length_cons]
      exact ⟨by rw [(ih _ _).1], by rw [(ih _ _).2]⟩

theorem evap_lengths (dz wdt : ℚ) : ∀ (rest : List (ℚ × ℚ × ℚ)) (a1 : ℚ) (c : Option ℚ),
    (evap dz wdt a1 c rest).1.length = rest.length ∧ (evap dz wdt a1 c rest).2.1.length = rest.length ∧
      (evap dz wdt a1 c rest).2.2.1.length = rest.length := by
  intro rest
  induction rest with
  | nil => intro a1 c; simp [evap]
  | cons x rest ih =>
    intro a1 c
    obtain ⟨wa, wmin, ev0⟩ := x
    simp only [evap]
    split
    · refine ⟨by simp, by simp, ?_⟩
      simp only [List.length_cons]
      cases rest with
      | nil => simp
      | cons y more =>
        obtain ⟨y1, y2, y3⟩ := y
        cases (evapLayer dz wdt c wa wmin ev0).2.1 <;> simp
    · simp only [List.length_cons]
      obtain ⟨h1, h2, h3⟩ := ih (a1 - (evapLayer dz wdt c wa wmin ev0).2.2) (evapLayer dz wdt c wa wmin ev0).2.1
      exact ⟨by rw [h1], by rw [h2], by rw [h3]⟩

theorem overflow_length (dz : ℚ) : ∀ (rest : List (ℚ × ℚ × ℚ)) (c : Option ℚ),
    (overflow dz c rest).1.length = rest.length := by
  intro rest
  induction rest with
  | nil => intro c; simp [overflow]
  | cons x rest ih =>
    intro c
    obtain ⟨wa, w, q⟩ := x
    simp only [overflow]
    split <;> (split <;> simp [ih])

/-! ### the model's input lists from the state -/

theorem infRest_zero (t : St ℚ) (N : Nat) : infRest t 0 N = (vw t.v_WATER_0 N).zip (vw t.g_W N) := by
  apply List.ext_getElem
  · simp [infRest]
  · intro j h1 h2
    simp [infRest, vw]

theorem zip3_length : ∀ (a b c : List ℚ), (zip3 a b c).length = min a.length (min b.length c.length) := by
  intro a
  induction a with
  | nil => intro b c; simp [zip3]
  | cons x xs ih =>
    intro b c
    cases b with
    | nil => simp [zip3]
    | cons y ys =>
      cases c with
      | nil => simp [zip3]
      | cons z zs => simp only [zip3, List.length_cons, ih]; omega

theorem zip3_getElem : ∀ (a b c : List ℚ) (j : Nat) (h : j < (zip3 a b c).length),
    (zip3 a b c)[j] = (a.getD j 0, b.getD j 0, c.getD j 0) := by
  intro a
  induction a with
  | nil => intro b c j h; simp [zip3] at h
  | cons x xs ih =>
    intro b c j h
    cases b with
    | nil => simp [zip3] at h
    | cons y ys =>
      cases c with
      | nil => simp [zip3] at h
      | cons z zs =>
        cases j with
        | zero => simp [zip3]
        | succ j =>
          simp only [zip3, List.getElem_cons_succ, List.getD_cons_succ]
          exact ih ys zs j (by simpa [zip3] using h)

theorem evRest_zero (t : St ℚ) (N : Nat) : evRest t 0 N = zip3 (vw t.v_WATER_0 N) (vw t.g_WMIN N) (vw t.l_EV N) := by
  apply List.ext_getElem
  · simp [evRest, zip3_length]
  · intro j h1 h2
    have hj : j < N := by simpa [evRest] using h1
    rw [zip3_getElem, vw_getD _ _ _ hj, vw_getD _ _ _ hj, vw_getD _ _ _ hj]
    simp [evRest]

/-- what the refinement needs from the `math` functions (true of Go's `math.Abs`, `float64(int)`, `int(math.Round(math.Max(·,1)))`) -/
structure MathOK (m : MathFns ℚ) : Prop where
  abs_neg : ∀ x : ℚ, x < 0 → m.abs x = -x
  ofInt_nat : ∀ n : Nat, m.ofInt (n : Int) = Conv.ofNat n
  round_idx : ∀ g : ℚ, (0.9 : ℚ) < g → m.toInt (m.round (m.max g 1)) = ((Conv.roundNat (if g < 1 then 1 else g) : Nat) : Int)

end Hermes.ImpWater
