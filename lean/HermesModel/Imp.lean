/-
Prelude of the *imperative translation* (DESIGN §4.3, translator v2).

`harness/cmd/extract/imp_translate.go` turns a Go kernel of /repo (assignments to struct fields and array elements,
`if`/`else`, counted `for` loops with `break`, calls of package `math`) into a Lean function `run : St α → St α` over a
generated record `St α` that has one field per variable the kernel touches (`lean/HermesModel/Generated/Imp*.lean`,
regenerated on every run).  This file holds what the generated code needs:

* `rd` / `wr`     — Go's `a[i]` and `a[i] = v` on `List`s (indices are Go `int`s, modelled as `Int`);
* `loopUp` / `loopDown` — Go's `for i := a; i < b; i++ { … }` and `for i := a; i >= b; i-- { … }` as structural recursions over the
  number of iterations, with the `break` flag of the generated state;
* `MathFns α`     — the functions of Go's package `math` the kernels call.  They are a *parameter* of every translated kernel:
  the driver instantiates them with the C library (`Float`), the theorems quantify over them and state what they need
  (`exp > 0`, `sqrt x * sqrt x = x`, …) as named hypotheses.

Faithfulness: the translation follows Go's semantics statement by statement on executions without a run-time panic; an index
outside the list (a Go panic) reads `default` / writes nothing here.  Constant expressions are folded exactly as the Go compiler
does (exact rational value, one rounding) — the translator prints them as one quotient of two integers.
Core Lean only; polymorphic in the arithmetic like the hand-written models.
-/
namespace Hermes.Imp

/-- Go's `math` functions used by the translated kernels, and the conversions between `int` and `float64`. -/
structure MathFns (α : Type) where
  exp : α → α
  log : α → α
  pow : α → α → α
  mod : α → α → α
  sqrt : α → α
  sin : α → α
  cos : α → α
  tan : α → α
  asin : α → α
  acos : α → α
  atan : α → α
  abs : α → α
  max : α → α → α
  min : α → α → α
  round : α → α
  floor : α → α
  ceil : α → α
  /-- Go `float64(i)` -/
  ofInt : Int → α
  /-- Go `int(x)`: truncation towards zero -/
  toInt : α → Int

section
variable {β : Type}

/-- Go `a[i] = v` -/
def wr (l : List β) (i : Int) (v : β) : List β := if i < 0 then l else l.set i.toNat v

@[simp] theorem length_wr (l : List β) (i : Int) (v : β) : (wr l i v).length = l.length := by
  unfold wr; split <;> simp

variable [Inhabited β]

/-- Go `a[i]` -/
def rd (l : List β) (i : Int) : β := if i < 0 then default else l.getD i.toNat default

theorem rd_wr_same (l : List β) (i : Int) (v : β) (h0 : 0 ≤ i) (h1 : i.toNat < l.length) : rd (wr l i v) i = v := by
  unfold rd wr
  have : ¬ i < 0 := by omega
  simp [this, List.getD_eq_getElem?_getD, h1]

theorem rd_wr_ne (l : List β) (i j : Int) (v : β) (h : i ≠ j) : rd (wr l i v) j = rd l j := by
  unfold rd wr
  by_cases hj : j < 0
  · simp [hj]
  · by_cases hi : i < 0
    · simp [hi]
    · have : i.toNat ≠ j.toNat := by omega
      simp [hi, hj, List.getD_eq_getElem?_getD, List.getElem?_set_ne this]

theorem rd_wr (l : List β) (i j : Int) (v : β) (h0 : 0 ≤ i) (h1 : i.toNat < l.length) :
    rd (wr l i v) j = if i = j then v else rd l j := by
  by_cases h : i = j
  · subst h; simp [rd_wr_same l i v h0 h1]
  · simp [h, rd_wr_ne l i j v h]

end

section
variable {σ : Type}

/-- `n` iterations of an upward loop starting at `i`; `brk` is the state's break flag -/
def loopUpN (brk : σ → Bool) (body : Int → σ → σ) : Nat → Int → σ → σ
  | 0, _, s => s
  | n + 1, i, s =>
    let s' := body i s
    if brk s' then s' else loopUpN brk body n (i + 1) s'

/-- Go `for i := a; i < b; i++ { body }` (the body does not assign `i`, `a`, `b`) -/
def loopUp (brk : σ → Bool) (a b : Int) (body : Int → σ → σ) (s : σ) : σ :=
  loopUpN brk body (b - a).toNat a s

/-- `n` iterations of a downward loop starting at `i` -/
def loopDownN (brk : σ → Bool) (body : Int → σ → σ) : Nat → Int → σ → σ
  | 0, _, s => s
  | n + 1, i, s =>
    let s' := body i s
    if brk s' then s' else loopDownN brk body n (i - 1) s'

/-- Go `for i := a; i >= b; i-- { body }` -/
def loopDown (brk : σ → Bool) (a b : Int) (body : Int → σ → σ) (s : σ) : σ :=
  loopDownN brk body (a - b + 1).toNat a s

/-- no `break` in the loop -/
def noBrk : σ → Bool := fun _ => false

/-- Invariant rule for a loop without `break`: `P k` holds after `k` iterations. -/
theorem loopUpN_noBrk_ind (body : Int → σ → σ) (P : Nat → σ → Prop) (n : Nat) (a : Int) (s : σ)
    (h0 : P 0 s) (hstep : ∀ k, k < n → ∀ t, P k t → P (k + 1) (body (a + k) t)) :
    P n (loopUpN noBrk body n a s) := by
  induction n generalizing a s P with
  | zero => simpa [loopUpN] using h0
  | succ n ih =>
    simp only [loopUpN, noBrk]
    have h1 : P 1 (body a s) := by simpa using hstep 0 (by omega) s h0
    have := ih (P := fun k t => P (k + 1) t) (a + 1) (body a s) h1
      (fun k hk t ht => by
        have := hstep (k + 1) (by omega) t ht
        simpa [Int.add_assoc, Int.add_comm 1] using this)
    simpa using this

theorem loopUp_noBrk_ind (body : Int → σ → σ) (P : Nat → σ → Prop) (a b : Int) (s : σ)
    (h0 : P 0 s) (hstep : ∀ k, k < (b - a).toNat → ∀ t, P k t → P (k + 1) (body (a + k) t)) :
    P (b - a).toNat (loopUp noBrk a b body s) :=
  loopUpN_noBrk_ind body P _ a s h0 hstep

/-- Invariant rule for any loop (with or without `break`): what every iteration preserves, the loop preserves. -/
theorem loopUpN_inv (brk : σ → Bool) (body : Int → σ → σ) (P : σ → Prop) (h : ∀ i t, P t → P (body i t)) :
    ∀ (n : Nat) (i : Int) (s : σ), P s → P (loopUpN brk body n i s)
  | 0, _, _, hs => hs
  | n + 1, i, s, hs => by
    simp only [loopUpN]
    split
    · exact h i s hs
    · exact loopUpN_inv brk body P h n (i + 1) _ (h i s hs)

theorem loopUp_inv (brk : σ → Bool) (body : Int → σ → σ) (P : σ → Prop) (h : ∀ i t, P t → P (body i t))
    (a b : Int) (s : σ) (hs : P s) : P (loopUp brk a b body s) :=
  loopUpN_inv brk body P h _ a s hs

theorem loopDownN_inv (brk : σ → Bool) (body : Int → σ → σ) (P : σ → Prop) (h : ∀ i t, P t → P (body i t)) :
    ∀ (n : Nat) (i : Int) (s : σ), P s → P (loopDownN brk body n i s)
  | 0, _, _, hs => hs
  | n + 1, i, s, hs => by
    simp only [loopDownN]
    split
    · exact h i s hs
    · exact loopDownN_inv brk body P h n (i - 1) _ (h i s hs)

theorem loopDown_inv (brk : σ → Bool) (body : Int → σ → σ) (P : σ → Prop) (h : ∀ i t, P t → P (body i t))
    (a b : Int) (s : σ) (hs : P s) : P (loopDown brk a b body s) :=
  loopDownN_inv brk body P h _ a s hs

end
end Hermes.Imp
