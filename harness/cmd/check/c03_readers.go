package main

import (
	"fmt"
	"os"
	"path/filepath"
	"reflect"
	"strings"

	"verifharness/vh"

	"github.com/zalf-rpm/Hermes2Go/hermes"
)

// Input readers that find their columns by header NAME accept several spellings of one quantity (weather: globrad / RAD,
// tmin / TMIN, sunhours / SUNH / sun, verd / VERD …; measurement file: Nm03 / Nmin0-3, W0_3 / Water0-3 …). A file that carries two
// spellings of one quantity (e.g. a station export that has both a measured and a gap-filled radiation column, or a measurement
// sheet converted from the old to the new naming with the old columns left in) must still be read the same way every time:
// "the same project inputs … always produce byte-identical result files" (C03). The stage reads such files repeatedly in one
// process and compares what the reader stored.
//
// Signatures:
//   reader:alias-columns:nondeterministic:weather:<quantity>
//   reader:alias-columns:nondeterministic:measurement:<quantity>
func aliasColumnStage(c *vh.Ctx) {
	reps := c.N(24, 60)
	// ---------------------------------------------------------------- weather CSV
	type wcase struct {
		quantity, a, b string
		get            func(s *hermes.WeatherDataShared) []float64
	}
	wcases := []wcase{
		{"radiation", "globrad", "RAD", func(s *hermes.WeatherDataShared) []float64 { return s.RADI[0][:10] }},
		{"tmin", "tmin", "TMIN", func(s *hermes.WeatherDataShared) []float64 { return s.TMI[0][:10] }},
		{"precipitation", "precip", "PREC", func(s *hermes.WeatherDataShared) []float64 { return s.REG[0][:10] }},
		{"sunshine", "sunhours", "sun", func(s *hermes.WeatherDataShared) []float64 { return s.SUND[0][:10] }},
	}
	dir := filepath.Join(c.Scratch, "aliaswx")
	os.MkdirAll(dir, 0o755)
	defer os.RemoveAll(dir)
	for wi, wc := range wcases {
		// columns: iso-date,tmin,tavg,tmax,precip,globrad,wind,relhumid,sunhours + the second spelling of one of them
		var b strings.Builder
		cols := []string{"iso-date", "tmin", "tavg", "tmax", "precip", "globrad", "wind", "relhumid", "sunhours", wc.b}
		if wi%2 == 1 {
			cols = []string{"iso-date", wc.b, "tmin", "tavg", "tmax", "precip", "globrad", "wind", "relhumid", "sunhours"} // the other spelling first
		}
		b.WriteString(strings.Join(cols, ",") + "\n")
		b.WriteString(strings.Repeat("[],", len(cols)-1) + "[]\n")
		for d := 1; d <= 365; d++ {
			date := proj0Date(1990, d)
			vals := map[string]string{"iso-date": date, "tmin": "2.5", "tavg": "6", "tmax": "9.5", "precip": "1.5", "globrad": "8.25", "wind": "2", "relhumid": "75", "sunhours": "3.5"}
			vals[wc.b] = []string{"11.75", "-3.5", "7.5", "6.25"}[wi] // the second spelling carries another value
			row := make([]string, len(cols))
			for i, cn := range cols {
				row[i] = vals[cn]
			}
			b.WriteString(strings.Join(row, ",") + "\n")
		}
		f := filepath.Join(dir, fmt.Sprintf("w%d.csv", wi))
		if err := os.WriteFile(f, []byte(b.String()), 0o644); err != nil {
			panic(err)
		}
		cfg := hermes.NewDefaultConfig()
		cfg.WeatherNoneValue = -99.9
		cfg.WeatherNumHeader = 2
		var first []float64
		differs := 0
		for k := 0; k < reps; k++ {
			g := hermes.NewGlobalVarsMain()
			g.Session = hermes.NewHermesSession()
			s := hermes.NewWeatherDataShared(1, 360)
			hp := hermes.VerifFilePath("", "", "", dir)
			if err := hermes.ReadWeatherCSV(f, 1990, &g, &s, hp, &cfg); err != nil {
				c.Note("alias-column weather file not read: %v", err)
				break
			}
			got := append([]float64(nil), wc.get(&s)...)
			if first == nil {
				first = got
			} else if !reflect.DeepEqual(first, got) {
				differs++
			}
			c.Eval()
		}
		c.Count("reader:alias-columns:weather:" + wc.quantity)
		if differs > 0 {
			c.Violate("search", "reader:alias-columns:nondeterministic:weather:"+wc.quantity,
				fmt.Sprintf("a weather file whose header has both %q and %q is read differently in %d of %d repetitions of the same call (the column of the quantity is whichever spelling the map iteration of the header table visits last)", wc.a, wc.b, differs, reps-1),
				map[string]interface{}{"header": strings.Join(cols, ","), "file_head": b.String()[:300], "how": "hermes.ReadWeatherCSV on the same file, repeated in one process"})
		}
	}
	// ---------------------------------------------------------------- measurement CSV
	type mcase struct{ quantity, a, b string }
	for mi, mc := range []mcase{{"Nmin0-30", "Nm03", "Nmin0-3"}, {"water0-30", "W0_3", "Water0-3"}, {"plot-id", "Plot_ID", "Id"}} {
		cols := []string{"Plot_ID", "Date", "Nm03", "Nm36", "Nm69", "M", "W0_3", "W3_6", "W6_9"}
		vals := map[string]string{"Plot_ID": "001", "Date": "01101980", "Nm03": "0012", "Nm36": "0008", "Nm69": "0004", "M": "2", "W0_3": "0.300", "W3_6": "0.280", "W6_9": "0.260"}
		cols = append(cols, mc.b)
		vals[mc.b] = []string{"0055", "0.120", "001"}[mi]
		if mi == 2 {
			vals["Plot_ID"] = "ZZZ" // the row belongs to the plot only through one of the two id columns
		}
		row := make([]string, len(cols))
		for i, cn := range cols {
			row[i] = vals[cn]
		}
		content := strings.Join(cols, ",") + "\n" + strings.Join(row, ",") + "\n"
		var first *measDump
		differs := 0
		for k := 0; k < reps; k++ {
			w, wmin, cn0 := make([]float64, 12), make([]float64, 12), make([]float64, 12)
			for i := range w {
				w[i], wmin[i], cn0[i] = 0.3, 0.1, 5
			}
			d, pan := runMeasure(false, content, "001", 12, w, wmin, cn0)
			if pan != "" {
				d = measDump{NMESS: -1}
			}
			if first == nil {
				first = &d
			} else if len(diffStates(*first, d)) > 0 {
				differs++
			}
			c.Eval()
		}
		c.Count("reader:alias-columns:measurement:" + mc.quantity)
		if differs > 0 {
			c.Violate("search", "reader:alias-columns:nondeterministic:measurement:"+mc.quantity,
				fmt.Sprintf("a measurement file whose header has both %q and %q is read differently in %d of %d repetitions of the same call", mc.a, mc.b, differs, reps-1),
				map[string]interface{}{"csv": content, "how": "hermes.ExtractMeasuredDataCSV on the same content, repeated in one process"})
		}
	}
}

// proj0Date: ISO date of day-of-year d (non-leap year arithmetic is enough for 1990)
func proj0Date(y, d int) string {
	ml := []int{31, 28, 31, 30, 31, 30, 31, 31, 30, 31, 30, 31}
	m := 0
	for d > ml[m] {
		d -= ml[m]
		m++
	}
	return fmt.Sprintf("%04d-%02d-%02d", y, m+1, d)
}
