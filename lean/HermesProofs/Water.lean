/-
Lemmas about the water model over ℚ (exact arithmetic): conservation of each phase of `Water`
(infiltration cascade, evaporation cascade, overflow pass, capillary rise).
-/
import HermesProofs.RatInst
import HermesModel.Water
import Mathlib.Tactic.Linarith
import Mathlib.Tactic.Ring
import Mathlib.Tactic.FieldSimp

namespace Hermes.Water

theorem infil_qdrain_zero (dz : ℚ) (dd : ℕ) (df : ℚ) :
    ∀ (l : List (ℚ × ℚ)) (a : ℚ) (k : ℕ), dd < k → (infil dz dd df a k l).2.2 = 0 := by
  intro l
  induction l with
  | nil => intro a k _; simp [infil]
  | cons hd tl ih =>
    intro a k hk
    obtain ⟨wa, w⟩ := hd
    have hne : ¬ k = dd := by omega
    simp only [infil, hne, if_false]
    split
    · rfl
    · exact ih _ _ (by omega)

theorem getLastD_all_zero : ∀ (l : List ℚ) (x : ℚ), (∀ y ∈ l, y = 0) → l ≠ [] → l.getLastD x = 0 := by
  intro l
  induction l with
  | nil => intro x _ h; exact absurd rfl h
  | cons h t ih =>
    intro x hall _
    rw [List.getLastD_cons]
    by_cases ht : t = []
    · subst ht; simpa using hall h (by simp)
    · exact ih h (fun y hy => hall y (List.mem_cons_of_mem _ hy)) ht

theorem getLastD_zeros {β : Type} (l : List β) (x : ℚ) :
    ((0 : ℚ) :: l.map (fun _ => (0 : ℚ))).getLastD x = 0 := by
  apply getLastD_all_zero
  · intro y hy
    rcases List.mem_cons.mp hy with h | h
    · exact h
    · obtain ⟨_, _, rfl⟩ := List.mem_map.mp h; rfl
  · simp

theorem infil_balance (dz : ℚ) (dd : ℕ) (df : ℚ) :
    ∀ (l : List (ℚ × ℚ)) (a : ℚ) (k : ℕ),
      ((infil dz dd df a k l).1).sum + ((infil dz dd df a k l).2.1).getLastD a
        + (infil dz dd df a k l).2.2 = a + (l.map (·.1)).sum := by
  intro l
  induction l with
  | nil => intro a k; simp [infil]
  | cons hd tl ih =>
    intro a k
    obtain ⟨wa, w⟩ := hd
    simp only [infil]
    split
    · rw [getLastD_zeros]; simp; ring
    · by_cases hk : k = dd
      · simp only [hk, if_true]
        have h0 := infil_qdrain_zero dz dd df tl ((1 - df) * (a + wa - w * dz)) (dd + 1) (by omega)
        have := ih ((1 - df) * (a + wa - w * dz)) (dd + 1)
        rw [h0] at this
        simp only [List.sum_cons, List.getLastD_cons, List.map_cons]
        linarith
      · simp only [hk, if_false]
        have := ih (a + wa - w * dz) (k + 1)
        simp only [List.sum_cons, List.getLastD_cons, List.map_cons]
        linarith

/-- evaporation cascade: what leaves the layers is the demand minus the part still unmet at the
bottom (`−Q1[N]`). -/
theorem evap_balance (dz wdt : ℚ) :
    ∀ (l : List (ℚ × ℚ × ℚ)) (a1 : ℚ) (carry : Option ℚ),
      ((evap dz wdt a1 carry l).1).sum + a1 + ((evap dz wdt a1 carry l).2.1).getLastD (-a1)
        = (l.map (·.1)).sum := by
  intro l
  induction l with
  | nil => intro a1 carry; simp [evap]
  | cons hd tl ih =>
    intro a1 carry
    obtain ⟨wa, wmin, ev0⟩ := hd
    simp only [evap]
    generalize evapLayer dz wdt carry wa wmin ev0 = e
    split
    · rw [getLastD_zeros]; simp; ring
    · simp only [List.sum_cons, List.getLastD_cons, List.map_cons]
      have := ih (a1 - e.2.2) e.2.1
      linarith

theorem evap_length (dz wdt : ℚ) :
    ∀ (l : List (ℚ × ℚ × ℚ)) (a1 : ℚ) (carry : Option ℚ),
      ((evap dz wdt a1 carry l).1).length = l.length ∧ ((evap dz wdt a1 carry l).2.1).length = l.length := by
  intro l
  induction l with
  | nil => intro a1 carry; simp [evap]
  | cons hd tl ih =>
    intro a1 carry
    obtain ⟨wa, wmin, ev0⟩ := hd
    simp only [evap]
    generalize evapLayer dz wdt carry wa wmin ev0 = e
    split
    · simp
    · have := ih (a1 - e.2.2) e.2.1
      simp [this.1, this.2]

theorem infil_length (dz : ℚ) (dd : ℕ) (df : ℚ) :
    ∀ (l : List (ℚ × ℚ)) (a : ℚ) (k : ℕ),
      ((infil dz dd df a k l).1).length = l.length ∧ ((infil dz dd df a k l).2.1).length = l.length := by
  intro l
  induction l with
  | nil => intro a k; simp [infil]
  | cons hd tl ih =>
    intro a k
    obtain ⟨wa, w⟩ := hd
    simp only [infil]
    split
    · simp
    · have := ih (if k = dd then (1 - df) * (a + wa - w * dz) else a + wa - w * dz) (k + 1)
      simp [this.1, this.2]

def optVal (c : Option ℚ) : ℚ := match c with | some x => x | none => 0

/-- overflow pass: storage + what is pushed below the profile is conserved, and the flux through
the bottom grows by exactly what is pushed below. -/
theorem overflow_balance (dz : ℚ) :
    ∀ (l : List (ℚ × ℚ × ℚ)) (carry : Option ℚ),
      (((overflow dz carry l).1).map (·.1)).sum + optVal (overflow dz carry l).2
        = (l.map (·.1)).sum + optVal carry := by
  intro l
  induction l with
  | nil => intro carry; simp [overflow]
  | cons hd tl ih =>
    intro carry
    obtain ⟨wa0, w, q⟩ := hd
    cases carry with
    | none =>
      simp only [overflow]
      split
      · have := ih (some (wa0 - w * dz))
        simp only [List.map_cons, List.sum_cons, optVal] at *
        linarith
      · have := ih none
        simp only [List.map_cons, List.sum_cons, optVal] at *
        linarith
    | some c =>
      simp only [overflow]
      split
      · have := ih (some (wa0 + c - w * dz))
        simp only [List.map_cons, List.sum_cons, optVal] at *
        linarith
      · have := ih none
        simp only [List.map_cons, List.sum_cons, optVal] at *
        linarith

theorem overflow_length (dz : ℚ) :
    ∀ (l : List (ℚ × ℚ × ℚ)) (carry : Option ℚ), ((overflow dz carry l).1).length = l.length := by
  intro l
  induction l with
  | nil => intro carry; simp [overflow]
  | cons hd tl ih =>
    intro carry
    obtain ⟨wa0, w, q⟩ := hd
    cases carry <;> simp only [overflow] <;> split <;> simp [ih]

theorem getLastD_irrel {β : Type} : ∀ (l : List β) (x y : β), l ≠ [] → l.getLastD x = l.getLastD y := by
  intro l
  induction l with
  | nil => intro x y h; exact absurd rfl h
  | cons h t _ => intro x y _; rw [List.getLastD_cons, List.getLastD_cons]

/-- the last interface flux after the overflow pass = before + what left through the bottom -/
theorem overflow_last (dz : ℚ) :
    ∀ (l : List (ℚ × ℚ × ℚ)) (carry : Option ℚ) (x : ℚ), l ≠ [] →
      (((overflow dz carry l).1).map (·.2)).getLastD x + 0
        = ((l.map (·.2.2)).getLastD x) + optVal (overflow dz carry l).2 := by
  intro l
  induction l with
  | nil => intro carry x h; exact absurd rfl h
  | cons hd tl ih =>
    intro carry x _
    obtain ⟨wa0, w, q⟩ := hd
    by_cases ht : tl = []
    · subst ht
      cases carry <;> simp only [overflow] <;> split <;> simp [optVal]
    · have hl : ∀ c, (List.map (fun x => x.2) (overflow dz c tl).1) ≠ [] := by
        intro c h
        have := overflow_length dz tl c
        have h2 : (List.map (fun x => x.2) (overflow dz c tl).1).length = 0 := by rw [h]; rfl
        rw [List.length_map, this] at h2
        exact ht (List.length_eq_zero_iff.mp h2)
      cases carry <;> simp only [overflow] <;> split <;>
        simp only [List.map_cons, List.getLastD_cons] <;>
        (rw [getLastD_irrel _ _ q (hl _)]; exact ih _ _ ht)

theorem limitTp_length (dz : ℚ) : ∀ (tp wg wmin : List ℚ) (n : ℕ), tp.length = n → wg.length = n → wmin.length = n →
    (limitTp dz tp wg wmin).length = n := by
  intro tp
  induction tp with
  | nil => intro wg wmin n h _ _; simp [limitTp] at *; omega
  | cons t ts ih =>
    intro wg wmin n h1 h2 h3
    cases wg with
    | nil => simp at h1 h2; omega
    | cons g gs =>
      cases wmin with
      | nil => simp at h1 h3; omega
      | cons m ms =>
        simp only [limitTp, List.length_cons] at *
        have := ih gs ms (n - 1) (by omega) (by omega) (by omega)
        omega

theorem water0_sum (dz wdt : ℚ) : ∀ (wg tp : List ℚ), wg.length = tp.length →
    (water0 dz wdt wg tp).sum = (wg.map (· * dz)).sum - wdt * tp.sum ∧ (water0 dz wdt wg tp).length = wg.length := by
  intro wg
  induction wg with
  | nil => intro tp h; cases tp <;> simp [water0] at *
  | cons g gs ih =>
    intro tp h
    cases tp with
    | nil => simp at h
    | cons t ts =>
      have := ih ts (by simpa using h)
      simp only [water0, List.sum_cons, List.map_cons, List.length_cons]
      constructor
      · rw [this.1]; ring
      · rw [this.2]

theorem zip_map_fst : ∀ (a b : List ℚ), a.length = b.length → ((a.zip b).map (·.1)) = a := by
  intro a b h
  rw [List.map_fst_zip]; omega

theorem zip3_map (a b c : List ℚ) : a.length = b.length → a.length = c.length →
    ((zip3 a b c).map (·.1)) = a ∧ ((zip3 a b c).map (·.2.2)) = c ∧ (zip3 a b c).length = a.length := by
  induction a generalizing b c with
  | nil => intro h1 h2; cases b <;> cases c <;> simp [zip3] at *
  | cons x xs ih =>
    intro h1 h2
    cases b with
    | nil => simp at h1
    | cons y ys =>
      cases c with
      | nil => simp at h2
      | cons z zs =>
        have := ih ys zs (by simpa using h1) (by simpa using h2)
        simp [zip3, this.1, this.2.1, this.2.2]

theorem addAt_sum (c : ℚ) : ∀ (l : List ℚ) (i : ℕ), i < l.length → (addAt i c l).sum = l.sum + c ∧ (addAt i c l).length = l.length := by
  intro l
  induction l with
  | nil => intro i h; simp at h
  | cons x xs ih =>
    intro i h
    cases i with
    | zero => simp [addAt]; ring
    | succ j =>
      have := ih j (by simpa using h)
      simp [addAt, this.1, this.2]; ring

theorem subFrom_last (c : ℚ) : ∀ (l : List ℚ) (i : ℕ) (x : ℚ), i < l.length →
    (subFrom i c l).getLastD x = l.getLastD x - c ∧ (subFrom i c l).length = l.length := by
  intro l
  induction l with
  | nil => intro i x h; simp at h
  | cons y ys ih =>
    intro i x h
    cases i with
    | zero =>
      simp only [subFrom, List.getLastD_cons, List.length_cons]
      cases ys with
      | nil => simp [subFrom]
      | cons z zs =>
        have := ih 0 (y - c) (by simp)
        refine ⟨?_, by rw [this.2]⟩
        rw [this.1, getLastD_irrel (z :: zs) (y - c) y (by simp)]
    | succ j =>
      have := ih j y (by simpa using h)
      simp only [subFrom, List.getLastD_cons, List.length_cons]
      exact ⟨this.1, by rw [this.2]⟩

theorem foldl_max_le (n : ℕ) : ∀ (l : List ℕ) (a : ℕ), a ≤ n → (∀ x ∈ l, x ≤ n) → l.foldl Nat.max a ≤ n := by
  intro l
  induction l with
  | nil => intro a h _; simpa
  | cons x xs ih =>
    intro a ha h
    simp only [List.foldl_cons]
    apply ih
    · exact Nat.max_le.mpr ⟨ha, h x (by simp)⟩
    · intro y hy; exact h y (by simp [hy])

theorem capLayer_le (nfk : List ℚ) : capLayer nfk ≤ nfk.length := by
  unfold capLayer
  apply foldl_max_le
  · omega
  · intro x hx
    simp only [List.mem_map, List.mem_filter] at hx
    obtain ⟨p, ⟨hp, _⟩, rfl⟩ := hx
    have := List.snd_lt_of_mem_zipIdx hp
    omega

theorem capRise_some (dz wdt grw : ℚ) (caps : List ℚ) (k : ℕ) (c : ℚ) : capRise dz wdt grw caps k = some c → 1 ≤ k := by
  unfold capRise
  intro h
  by_cases hk : k = 0
  · simp [hk] at h
  · omega


/-- Well-formed input: every per-layer list has one entry per layer, at least one layer. -/
structure WF (i : In ℚ) (n : ℕ) : Prop where
  pos : 1 ≤ n
  wg : i.wg.length = n
  tp : i.tp.length = n
  w : i.w.length = n
  wmin : i.wmin.length = n
  ev : i.ev.length = n
  nfk : i.nfk.length = n

theorem phaseUptake_spec (i : In ℚ) (n : ℕ) (h : WF i n) :
    (phaseUptake i).1.length = n ∧ (phaseUptake i).2.length = n ∧
    (phaseUptake i).2.sum = (i.wg.map (· * i.dz)).sum - i.wdt * (phaseUptake i).1.sum := by
  have hl : (phaseUptake i).1.length = n := by
    unfold phaseUptake
    by_cases hf : i.first = true
    · simp only [hf, if_true]; exact limitTp_length _ _ _ _ n h.tp h.wg h.wmin
    · simp only [hf]; exact h.tp
  have := water0_sum i.dz i.wdt i.wg (phaseUptake i).1 (by rw [hl, h.wg])
  exact ⟨hl, by unfold phaseUptake at *; rw [this.2, h.wg], by unfold phaseUptake at *; exact this.1⟩

theorem phaseSurface_spec (i : In ℚ) (n : ℕ) (h : WF i n) (wa0 : List ℚ) (hw : wa0.length = n) :
    (phaseSurface i wa0).wa1.length = n ∧ (phaseSurface i wa0).qs.length = n ∧
    (phaseSurface i wa0).wa1.sum + (phaseSurface i wa0).qs.getLastD 0 + (phaseSurface i wa0).qdrain
      = wa0.sum + i.fluss0 * i.wdt := by
  have hpos := h.pos
  unfold phaseSurface
  by_cases h1 : 0 < i.fluss0
  · simp only [h1, if_true]
    have hz : ((wa0.zip i.w).map (·.1)) = wa0 := zip_map_fst _ _ (by rw [hw, h.w])
    have hzl : (wa0.zip i.w).length = n := by simp [hw, h.w]
    have hb := infil_balance i.dz i.draidep i.draifak (wa0.zip i.w) (i.fluss0 * i.wdt) 1
    have hl := infil_length i.dz i.draidep i.draifak (wa0.zip i.w) (i.fluss0 * i.wdt) 1
    rw [hz] at hb
    refine ⟨by rw [hl.1, hzl], by rw [hl.2, hzl], ?_⟩
    rw [getLastD_irrel _ 0 (i.fluss0 * i.wdt) (by intro hh; have := hl.2; rw [hh, hzl] at this; simp at this; omega)]
    linarith
  · simp only [h1, if_false]
    by_cases h2 : i.fluss0 < 0
    · simp only [h2, if_true]
      have hz := zip3_map wa0 i.wmin i.ev (by rw [hw, h.wmin]) (by rw [hw, h.ev])
      have hb := evap_balance i.dz i.wdt (zip3 wa0 i.wmin i.ev) (-i.fluss0 * i.wdt) none
      have hl := evap_length i.dz i.wdt (zip3 wa0 i.wmin i.ev) (-i.fluss0 * i.wdt) none
      rw [hz.1] at hb
      refine ⟨by rw [hl.1, hz.2.2, hw], by rw [hl.2, hz.2.2, hw], ?_⟩
      rw [getLastD_irrel _ 0 (-(-i.fluss0 * i.wdt)) (by intro hh; have := hl.2; rw [hh, hz.2.2, hw] at this; simp at this; omega)]
      linarith
    · simp only [h2, if_false]
      have h0 : i.fluss0 = 0 := le_antisymm (not_lt.mp h1) (not_lt.mp h2)
      refine ⟨hw, by simp [hw], ?_⟩
      have : (wa0.map (fun _ => (0 : ℚ))).getLastD 0 = 0 := by
        cases wa0 with
        | nil => simp
        | cons x xs => exact getLastD_zeros xs 0
      rw [this, h0]; ring

theorem phaseOverflow_spec (i : In ℚ) (n : ℕ) (h : WF i n) (s : Surf ℚ) (h1 : s.wa1.length = n) (h2 : s.qs.length = n) :
    (phaseOverflow i s).1.length = n ∧ (phaseOverflow i s).2.1.length = n ∧
    (phaseOverflow i s).1.sum + (phaseOverflow i s).2.1.getLastD 0 = s.wa1.sum + s.qs.getLastD 0 := by
  have hpos := h.pos
  have hz := zip3_map s.wa1 i.w s.qs (by rw [h1, h.w]) (by rw [h1, h2])
  have hne : zip3 s.wa1 i.w s.qs ≠ [] := by
    intro hh; have := hz.2.2; rw [hh, h1] at this; simp at this; omega
  have hb := overflow_balance i.dz (zip3 s.wa1 i.w s.qs) none
  have hl := overflow_length i.dz (zip3 s.wa1 i.w s.qs) none
  have hq := overflow_last i.dz (zip3 s.wa1 i.w s.qs) none 0 hne
  rw [hz.1] at hb
  rw [hz.2.1] at hq
  unfold phaseOverflow
  refine ⟨by simp [hl, hz.2.2, h1], by simp [hl, hz.2.2, h1], ?_⟩
  simp only [optVal] at hb hq
  linarith

theorem phaseCapillary_spec (i : In ℚ) (n : ℕ) (h : WF i n) (wa2 qs2 : List ℚ) (h1 : wa2.length = n) (h2 : qs2.length = n) :
    (phaseCapillary i wa2 qs2).1.length = n ∧ (phaseCapillary i wa2 qs2).2.length = n ∧
    (phaseCapillary i wa2 qs2).1.sum + (phaseCapillary i wa2 qs2).2.getLastD 0 = wa2.sum + qs2.getLastD 0 := by
  unfold phaseCapillary
  simp only
  cases hc : capRise i.dz i.wdt i.grw i.caps (capLayer i.nfk) with
  | none => exact ⟨h1, h2, rfl⟩
  | some c =>
    have hk := capRise_some _ _ _ _ _ _ hc
    have hle := capLayer_le i.nfk
    rw [h.nfk] at hle
    have ha := addAt_sum c wa2 (capLayer i.nfk - 1) (by omega)
    have hs := subFrom_last c qs2 (capLayer i.nfk - 1) 0 (by omega)
    simp only
    refine ⟨by rw [ha.2, h1], by rw [hs.2, h2], ?_⟩
    rw [ha.1, hs.1]; ring

end Hermes.Water
