/-
PTF4 (Rawls et al. 2003, input.go PTF4; model `SoilParams.ptf4`) over its whole continuous domain:
C_org ∈ [0, 6] %, clay ∈ [5, 90] %, sand ∈ [5, 85] %, clay + sand ≤ 95 % (silt ≥ 5 %).

`0 < WP`, `WP < FC`, `FC < 1` are three polynomial inequalities of degree ≤ 5 in three variables with a
relative margin of about 3 % (minimum FC − WP = 0.0087 at clay 10, sand 85, C_org 0, on the boundary of the
texture triangle).  Each is proved by a verified interval-subdivision certificate:

* the target polynomial is written in *centred form* `p(m) + Σᵢ (xᵢ − mᵢ)·qᵢ(x, m)` with the divided
  differences `qᵢ` computed symbolically (sympy) — the three definitions `ptf4WpC`, `ptf4GapC`, `ptf4FcC`
  below are generated text; that each equals the model's polynomial for every centre `m` is proved by
  `ring` (`ptf4…C_eq`), so nothing about the generator is trusted;
* the same polymorphic definition evaluated at intervals (`Interval.Iv`) encloses its value over a box
  (`iv_mem`); the centred form converges quadratically, so 30–70 boxes suffice where the naive form needed 3 600;
* `Interval.verifyBox` subdivides adaptively; its run is evaluated by the kernel (`decide +kernel`) and
  lifted to all points by `verifyBox_sound`.
-/
import HermesProofs.Interval
import HermesProofs.RatInst
import HermesModel.SoilParams
import Mathlib.Tactic.Ring
import Mathlib.Tactic.NormNum
import Mathlib.Tactic.Linarith

namespace Hermes.SoilParams
open Hermes.Interval

section
variable {α : Type} [Add α] [Sub α] [Mul α] [OfScientific α]

/-- the scaled variables of `ptf4` (input.go: ix, yps, zet), written without a negative literal -/
def ptf4IxC (c : α) : α := 0.430183 * c - 0.837531
def ptf4YpsC (t : α) : α := 0.0661969 * t - 1.40744
def ptf4ZetC (s : α) : α := 0.0393284 * s - 1.51866

/-- centered form of the PTF4 target `Wp` (×100): value at the centre `(mx,my,mz)` plus the three divided differences -/
def ptf4WpC (x y z mx my mz : α) : α :=
  (14.762282307 - 0.394064139876 * mz - 0.191957366282 * mz * mz * mz + 6.52796712942 * my - 1.13807519034 * my * mz - 0.494552402608 * my * mz * mz - 0.294973408708 * my * my * mz - 0.246249774012 * my * my * my + 0.80047338734 * mx - 0.260856114178 * mx * mz - 0.01234437338691425 * mx * mz * mz * mz * mz - 1.64626714758 * mx * my - 0.117972133642 * mx * my * mz + 0.099598790588 * mx * my * my - 0.11576759755 * mx * mx - 0.0192409465534 * mx * mx * mz + 0.093055132522 * mx * mx * my + 0.007569717199 * mx * mx * mx)
  + (x - mx) * (0.80047338734 - 0.11576759755 * mx + 0.007569717199 * mx * mx - 0.260856114178 * z - 0.0192409465534 * z * mx - 0.01234437338691425 * z * z * z * z - 1.64626714758 * y + 0.093055132522 * y * mx - 0.117972133642 * y * z + 0.099598790588 * y * y - 0.11576759755 * x + 0.007569717199 * x * mx - 0.0192409465534 * x * z + 0.093055132522 * x * y + 0.007569717199 * x * x)
  + (y - my) * (6.52796712942 - 0.246249774012 * my * my - 1.64626714758 * mx + 0.099598790588 * mx * my + 0.093055132522 * mx * mx - 1.13807519034 * z - 0.294973408708 * z * my - 0.117972133642 * z * mx - 0.494552402608 * z * z - 0.246249774012 * y * my + 0.099598790588 * y * mx - 0.294973408708 * y * z - 0.246249774012 * y * y)
  + (z - mz) * (0.0 - 0.394064139876 - 0.191957366282 * mz * mz - 1.13807519034 * my - 0.494552402608 * my * mz - 0.294973408708 * my * my - 0.260856114178 * mx - 0.01234437338691425 * mx * mz * mz * mz - 0.117972133642 * mx * my - 0.0192409465534 * mx * mx - 0.191957366282 * z * mz - 0.494552402608 * z * my - 0.01234437338691425 * z * mx * mz * mz - 0.191957366282 * z * z - 0.01234437338691425 * z * z * mx * mz - 0.01234437338691425 * z * z * z * mx)

/-- centered form of the PTF4 target `Gap` (×100): value at the centre `(mx,my,mz)` plus the three divided differences -/
def ptf4GapC (x y z mx my mz : α) : α :=
  (15.4684923286 - 2.921922105724 * mz - 0.415418528 * mz * mz - 0.446567418518 * mz * mz * mz - 3.74158773502 * my + 2.59845976634 * my * mz - 0.762388922192 * my * mz * mz + 2.05224208 * my * my - 0.761444605692 * my * my * mz - 0.382251951588 * my * my * my + 2.21219106466 * mx + 0.260856114178 * mx * mz + 1.6653809872 * mx * mz * mz + 0.01234437338691425 * mx * mz * mz * mz * mz - 0.18157437562 * mx * my + 0.798613440442 * mx * my * mz - 0.099598790588 * mx * my * my - 0.39868558925 * mx * mx - 0.0964104533666 * mx * mx * mz + 0.469331678198 * mx * mx * my + 0.065408301089 * mx * mx * mx)
  + (x - mx) * (2.21219106466 - 0.39868558925 * mx + 0.065408301089 * mx * mx + 0.260856114178 * z - 0.0964104533666 * z * mx + 1.6653809872 * z * z + 0.01234437338691425 * z * z * z * z - 0.18157437562 * y + 0.469331678198 * y * mx + 0.798613440442 * y * z - 0.099598790588 * y * y - 0.39868558925 * x + 0.065408301089 * x * mx - 0.0964104533666 * x * z + 0.469331678198 * x * y + 0.065408301089 * x * x)
  + (y - my) * (0.0 - 3.74158773502 + 2.05224208 * my - 0.382251951588 * my * my - 0.18157437562 * mx - 0.099598790588 * mx * my + 0.469331678198 * mx * mx + 2.59845976634 * z - 0.761444605692 * z * my + 0.798613440442 * z * mx - 0.762388922192 * z * z + 2.05224208 * y - 0.382251951588 * y * my - 0.099598790588 * y * mx - 0.761444605692 * y * z - 0.382251951588 * y * y)
  + (z - mz) * (0.0 - 2.921922105724 - 0.415418528 * mz - 0.446567418518 * mz * mz + 2.59845976634 * my - 0.762388922192 * my * mz - 0.761444605692 * my * my + 0.260856114178 * mx + 1.6653809872 * mx * mz + 0.01234437338691425 * mx * mz * mz * mz + 0.798613440442 * mx * my - 0.0964104533666 * mx * mx - 0.415418528 * z - 0.446567418518 * z * mz - 0.762388922192 * z * my + 1.6653809872 * z * mx + 0.01234437338691425 * z * mx * mz * mz - 0.446567418518 * z * z + 0.01234437338691425 * z * z * mx * mz + 0.01234437338691425 * z * z * z * mx)

/-- centered form of the PTF4 target `Fc` (×100): value at the centre `(mx,my,mz)` plus the three divided differences -/
def ptf4FcC (x y z mx my mz : α) : α :=
  (69.7692253644 + 3.3159862456 * mz + 0.415418528 * mz * mz + 0.6385247848 * mz * mz * mz - 2.7863793944 * my - 1.460384576 * my * mz + 1.2569413248 * my * mz * mz - 2.05224208 * my * my + 1.0564180144 * my * my * mz + 0.6285017256 * my * my * my - 3.012664452 * mx - 1.6653809872 * mx * mz * mz + 1.8278415232 * mx * my - 0.6806413068 * mx * my * mz + 0.5144531868 * mx * mx + 0.11565139992 * mx * mx * mz - 0.56238681072 * mx * mx * my - 0.072978018288 * mx * mx * mx)
  + (x - mx) * (0.0 - 3.012664452 + 0.5144531868 * mx - 0.072978018288 * mx * mx + 0.11565139992 * z * mx - 1.6653809872 * z * z + 1.8278415232 * y - 0.56238681072 * y * mx - 0.6806413068 * y * z + 0.5144531868 * x - 0.072978018288 * x * mx + 0.11565139992 * x * z - 0.56238681072 * x * y - 0.072978018288 * x * x)
  + (y - my) * (0.0 - 2.7863793944 - 2.05224208 * my + 0.6285017256 * my * my + 1.8278415232 * mx - 0.56238681072 * mx * mx - 1.460384576 * z + 1.0564180144 * z * my - 0.6806413068 * z * mx + 1.2569413248 * z * z - 2.05224208 * y + 0.6285017256 * y * my + 1.0564180144 * y * z + 0.6285017256 * y * y)
  + (z - mz) * (3.3159862456 + 0.415418528 * mz + 0.6385247848 * mz * mz - 1.460384576 * my + 1.2569413248 * my * mz + 1.0564180144 * my * my - 1.6653809872 * mx * mz - 0.6806413068 * mx * my + 0.11565139992 * mx * mx + 0.415418528 * z + 0.6385247848 * z * mz + 1.2569413248 * z * my - 1.6653809872 * z * mx + 0.6385247848 * z * z)

end

/-! ### the centred forms are the model's polynomials (for every centre) -/

theorem ptf4WpC_eq (x y z mx my mz : ℚ) :
    ptf4WpC x y z mx my mz = 100 * ptf4WpPoly x (pow2 x) (pow3 x) y (pow2 y) (pow3 y) z (pow2 z) (pow3 z) := by
  unfold ptf4WpC ptf4WpPoly pow2 pow3
  norm_num
  ring

theorem ptf4GapC_eq (x y z mx my mz : ℚ) :
    ptf4GapC x y z mx my mz = 100 * (ptf4FcPoly x (pow2 x) (pow3 x) y (pow2 y) (pow3 y) z (pow2 z) (pow3 z)
      - ptf4WpPoly x (pow2 x) (pow3 x) y (pow2 y) (pow3 y) z (pow2 z) (pow3 z)) := by
  unfold ptf4GapC ptf4FcPoly ptf4WpPoly pow2 pow3
  norm_num
  ring

theorem ptf4FcC_eq (x y z mx my mz : ℚ) :
    ptf4FcC x y z mx my mz = 100 - 100 * ptf4FcPoly x (pow2 x) (pow3 x) y (pow2 y) (pow3 y) z (pow2 z) (pow3 z) := by
  unfold ptf4FcC ptf4FcPoly pow2 pow3
  norm_num
  ring

theorem ptf4_eq (c t s : ℚ) :
    ptf4 c t s = (ptf4FcPoly (ptf4IxC c) (pow2 (ptf4IxC c)) (pow3 (ptf4IxC c)) (ptf4YpsC t) (pow2 (ptf4YpsC t)) (pow3 (ptf4YpsC t))
        (ptf4ZetC s) (pow2 (ptf4ZetC s)) (pow3 (ptf4ZetC s)),
      ptf4WpPoly (ptf4IxC c) (pow2 (ptf4IxC c)) (pow3 (ptf4IxC c)) (ptf4YpsC t) (pow2 (ptf4YpsC t)) (pow3 (ptf4YpsC t))
        (ptf4ZetC s) (pow2 (ptf4ZetC s)) (pow3 (ptf4ZetC s))) := by
  have e1 : (-0.837531 : ℚ) + 0.430183 * c = ptf4IxC c := by unfold ptf4IxC; ring
  have e2 : (-1.40744 : ℚ) + 0.0661969 * t = ptf4YpsC t := by unfold ptf4YpsC; ring
  have e3 : (-1.51866 : ℚ) + 0.0393284 * s = ptf4ZetC s := by unfold ptf4ZetC; ring
  unfold ptf4
  simp only [e1, e2, e3]

/-! ### interval evaluation over a box -/

/-- the syntax trees of the scaled variables and of the three centred forms -/
def ixE : E := ptf4IxC (E.var 0)
def ypsE : E := ptf4YpsC (E.var 0)
def zetE : E := ptf4ZetC (E.var 0)
def wpE : E := ptf4WpC (E.var 0) (E.var 1) (E.var 2) (E.var 3) (E.var 4) (E.var 5)
def gapE : E := ptf4GapC (E.var 0) (E.var 1) (E.var 2) (E.var 3) (E.var 4) (E.var 5)
def fcE : E := ptf4FcC (E.var 0) (E.var 1) (E.var 2) (E.var 3) (E.var 4) (E.var 5)

theorem ixE_eval (ρ : Nat → ℚ) : ixE.eval ρ = ptf4IxC (ρ 0) := rfl
theorem ypsE_eval (ρ : Nat → ℚ) : ypsE.eval ρ = ptf4YpsC (ρ 0) := rfl
theorem zetE_eval (ρ : Nat → ℚ) : zetE.eval ρ = ptf4ZetC (ρ 0) := rfl
theorem wpE_eval (ρ : Nat → ℚ) : wpE.eval ρ = ptf4WpC (ρ 0) (ρ 1) (ρ 2) (ρ 3) (ρ 4) (ρ 5) := rfl
theorem gapE_eval (ρ : Nat → ℚ) : gapE.eval ρ = ptf4GapC (ρ 0) (ρ 1) (ρ 2) (ρ 3) (ρ 4) (ρ 5) := rfl
theorem fcE_eval (ρ : Nat → ℚ) : fcE.eval ρ = ptf4FcC (ρ 0) (ρ 1) (ρ 2) (ρ 3) (ρ 4) (ρ 5) := rfl

/-- the enclosures of the scaled variables over a box -/
def boxX (b : Box) : Iv := ixE.ieval (fun _ => ⟨b.c0, b.c1⟩)
def boxY (b : Box) : Iv := ypsE.ieval (fun _ => ⟨b.t0, b.t1⟩)
def boxZ (b : Box) : Iv := zetE.ieval (fun _ => ⟨b.s0, b.s1⟩)

theorem boxX_mem {b : Box} {cap c t s : ℚ} (h : b.has cap c t s) : (boxX b).mem (ptf4IxC c) :=
  E.ieval_mem (fun _ => c) _ (fun _ => ⟨h.1, h.2.1⟩) ixE
theorem boxY_mem {b : Box} {cap c t s : ℚ} (h : b.has cap c t s) : (boxY b).mem (ptf4YpsC t) :=
  E.ieval_mem (fun _ => t) _ (fun _ => ⟨h.2.2.1, h.2.2.2.1⟩) ypsE
theorem boxZ_mem {b : Box} {cap c t s : ℚ} (h : b.has cap c t s) : (boxZ b).mem (ptf4ZetC s) :=
  E.ieval_mem (fun _ => s) _ (fun _ => ⟨h.2.2.2.2.1, h.2.2.2.2.2.1⟩) zetE

/-- enclosure of a centred form over a box, centre = mid point of the enclosures of the scaled variables -/
def encl (e : E) (b : Box) : Iv :=
  e.ieval (env6 (boxX b) (boxY b) (boxZ b) (Iv.pt (boxX b).mid) (Iv.pt (boxY b).mid) (Iv.pt (boxZ b).mid))

theorem encl_mem (e : E) {b : Box} {cap c t s : ℚ} (h : b.has cap c t s) :
    (encl e b).mem (e.eval (env6 (ptf4IxC c) (ptf4YpsC t) (ptf4ZetC s) (boxX b).mid (boxY b).mid (boxZ b).mid)) :=
  E.ieval_mem _ _ (env6_mem (boxX_mem h) (boxY_mem h) (boxZ_mem h) (mem_pt _) (mem_pt _) (mem_pt _)) e

def loWp (b : Box) : ℚ := (encl wpE b).lo
def loGap (b : Box) : ℚ := (encl gapE b).lo
def loFc (b : Box) : ℚ := (encl fcE b).lo

theorem loWp_le {b : Box} {cap c t s : ℚ} (h : b.has cap c t s) : loWp b ≤ 100 * (ptf4 c t s).2 := by
  have := (encl_mem wpE h).1
  rw [wpE_eval] at this
  simp only [env6] at this
  rw [ptf4WpC_eq] at this
  rw [ptf4_eq]; exact this
theorem loGap_le {b : Box} {cap c t s : ℚ} (h : b.has cap c t s) : loGap b ≤ 100 * ((ptf4 c t s).1 - (ptf4 c t s).2) := by
  have := (encl_mem gapE h).1
  rw [gapE_eval] at this
  simp only [env6] at this
  rw [ptf4GapC_eq] at this
  rw [ptf4_eq]; exact this
theorem loFc_le {b : Box} {cap c t s : ℚ} (h : b.has cap c t s) : loFc b ≤ 100 - 100 * (ptf4 c t s).1 := by
  have := (encl_mem fcE h).1
  rw [fcE_eval] at this
  simp only [env6] at this
  rw [ptf4FcC_eq] at this
  rw [ptf4_eq]; exact this

/-! ### the certificates -/

/-- the whole domain: C_org 0…6 %, clay 5…90 %, sand 5…85 % -/
def ptf4Root : Box := ⟨0, 6, 5, 90, 5, 85⟩

def certWp : Bool := verifyBox (fun b => decide (0 < loWp b)) 95 6 85 80 40 ptf4Root
def certGap : Bool := verifyBox (fun b => decide (0 < loGap b)) 95 6 85 80 40 ptf4Root
def certFc : Bool := verifyBox (fun b => decide (0 < loFc b)) 95 6 85 80 40 ptf4Root

set_option maxRecDepth 100000 in
theorem certWp_true : certWp = true := by decide +kernel
set_option maxRecDepth 100000 in
theorem certGap_true : certGap = true := by decide +kernel
set_option maxRecDepth 100000 in
theorem certFc_true : certFc = true := by decide +kernel

theorem ptf4Root_has {c t s : ℚ} (hc0 : 0 ≤ c) (hc6 : c ≤ 6) (ht : 5 ≤ t) (hs : 5 ≤ s) (hs85 : s ≤ 85)
    (hsum : t + s ≤ 95) : ptf4Root.has 95 c t s :=
  ⟨hc0, hc6, ht, (by show t ≤ 90; linarith), hs, hs85, hsum⟩

/-- PTF4 on its whole continuous domain: 0 < WP < FC < 1. -/
theorem ptf4_ordered (c ton ssand : ℚ) (hc0 : 0 ≤ c) (hc6 : c ≤ 6) (ht : 5 ≤ ton) (hs : 5 ≤ ssand)
    (hs85 : ssand ≤ 85) (hsum : ton + ssand ≤ 95) :
    0 < (ptf4 c ton ssand).2 ∧ (ptf4 c ton ssand).2 < (ptf4 c ton ssand).1 ∧ (ptf4 c ton ssand).1 < 1 := by
  have hb := ptf4Root_has hc0 hc6 ht hs hs85 hsum
  have a := verifyBox_sound (fun b => decide (0 < loWp b)) 95 6 85 80 (fun c t s => 0 < (ptf4 c t s).2)
    (fun b hb c t s h => by have := of_decide_eq_true hb; have := loWp_le h; linarith) 40 ptf4Root certWp_true _ _ _ hb
  have g := verifyBox_sound (fun b => decide (0 < loGap b)) 95 6 85 80 (fun c t s => (ptf4 c t s).2 < (ptf4 c t s).1)
    (fun b hb c t s h => by have := of_decide_eq_true hb; have := loGap_le h; linarith) 40 ptf4Root certGap_true _ _ _ hb
  have f := verifyBox_sound (fun b => decide (0 < loFc b)) 95 6 85 80 (fun c t s => (ptf4 c t s).1 < 1)
    (fun b hb c t s h => by have := of_decide_eq_true hb; have := loFc_le h; linarith) 40 ptf4Root certFc_true _ _ _ hb
  exact ⟨a, g, f⟩

end Hermes.SoilParams
