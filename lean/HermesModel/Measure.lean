/-
Model of the two readers of the measurement (initial value) file at the post-tokenisation layer:
ExtractMeasuredDataTxt (input.go:723-874) and ExtractMeasuredDataCSV (input.go:876-1105).
Only the first record of the selected plot initialises the state: water content of every 10 cm
layer from six depth classes (three ways of reading the number, column M), mineral N per layer
from six depth classes, and the water sum WNZ.  Core Lean only, polymorphic arithmetic.
-/
namespace Hermes.Measure

section
variable {α : Type} [Add α] [Sub α] [Mul α] [Div α] [OfNat α 0] [OfNat α 3] [OfNat α 5]
  [OfNat α 100] [OfNat α 300] [OfScientific α]

/-- depth class of the water value used for layer `zi` (1-based) in the text reader
(input.go:779-828); `none`: the chain of tests assigns nothing. -/
def wClassTxt (zi : Nat) : Option Nat :=
  if zi < 4 then some 0
  else if zi > 3 ∧ zi < 7 then some 1
  else if zi > 6 ∧ zi < 10 then some 2
  else if zi > 9 ∧ zi < 13 then some 3
  else if zi > 12 ∧ zi < 16 then some 4
  else if zi > 15 then some 5
  else none

/-- the same chain in the CSV reader (input.go:1012-1061) -/
def wClassCsv (zi : Nat) : Option Nat :=
  if zi < 4 then some 0
  else if zi > 3 ∧ zi < 7 then some 1
  else if zi > 6 ∧ zi < 10 then some 2
  else if zi > 9 ∧ zi < 13 then some 3
  else if zi > 12 ∧ zi < 16 then some 4
  else if zi > 15 then some 5
  else none

/-- depth class and divisor of the mineral-N value of layer `i` (1-based), text reader
(input.go:846-861) -/
def nClassTxt (i : Nat) : Nat × Nat :=
  if i < 4 then (0, 3)
  else if i > 3 ∧ i < 7 then (1, 3)
  else if i > 6 ∧ i < 10 then (2, 3)
  else if i > 9 ∧ i < 13 then (3, 3)
  else if i > 12 ∧ i < 16 then (4, 3)
  else (5, 5)

/-- CSV reader (input.go:1079-1094) -/
def nClassCsv (i : Nat) : Nat × Nat :=
  if i < 4 then (0, 3)
  else if i > 3 ∧ i < 7 then (1, 3)
  else if i > 6 ∧ i < 10 then (2, 3)
  else if i > 9 ∧ i < 13 then (3, 3)
  else if i > 12 ∧ i < 16 then (4, 3)
  else (5, 5)

/-- factor of reading "2" (weight-% × bulk density) per depth class -/
def factor2 (c : Nat) : α := if c = 0 then 1.4 else if c = 1 then 1.5 else 1.6

/-- water content of one layer: column M = "3" absolute, "2" × factor, otherwise the fraction of
the plant-available water -/
def wgOf (mode c : Nat) (winit : List α) (w wmin : α) : α :=
  let x := winit.getD c 0
  if mode = 3 then x else if mode = 2 then x * factor2 c else wmin + (w - wmin) * x

/-- WG[2][0…N−1] with layer counter `zi`; a layer whose class is `none` keeps the old value `0` -/
def wgRow (cls : Nat → Option Nat) (mode : Nat) (winit : List α) : Nat → List α → List α → List α
  | zi, w :: ws, m :: ms =>
    (match cls zi with
     | some c => wgOf mode c winit w m
     | none => 0) :: wgRow cls mode winit (zi + 1) ws ms
  | _, _, _ => []

def divisor (d : Nat) : α := if d = 3 then 3 else 5

def cnRow (cls : Nat → Nat × Nat) (konz : List α) : Nat → Nat → List α
  | _, 0 => []
  | i, n + 1 => (konz.getD (cls i).1 0 / divisor (cls i).2) :: cnRow cls konz (i + 1) n

def sum9 (l : List α) : α :=
  (List.range 9).foldl (fun acc i => acc + l.getD i 0) 0

/-- WNZ[0] (input.go:831-838) -/
def wnz (mode : Nat) (winit : List α) (row : List α) : α :=
  let a := winit.getD 0 0
  let b := winit.getD 1 0
  let c := winit.getD 2 0
  if mode = 3 then (a + b + c) * 300
  else if mode = 2 then (a * 1.4 + b * 1.5 + c * 1.6) * 300
  else sum9 row * 100

structure Out (α : Type) where
  wg : List α     -- WG[2][0…N]
  cn : List α     -- CN[1][0…N−1]
  wnz : α

/-- tokens of the first record in the text file: the nine mandatory columns and, when the line
has more than nine tokens, the six columns of the deeper classes (input.go:758-775) -/
structure Txt (α : Type) where
  mode : Nat          -- 3, 2, or anything else
  k : List α          -- Nm03 Nm36 Nm69
  w : List α          -- W0_3 W3_6 W6_9
  deep : Option (List α × List α)   -- (NM9-12 NM12-15 NM15-20, W9-12 W12-15 W15-20)

def initOf (clsW : Nat → Option Nat) (clsN : Nat → Nat × Nat) (mode : Nat) (winit konz : List α)
    (w wmin : List α) : Out α :=
  let row := wgRow clsW mode winit 1 w wmin
  let full := row ++ [row.getLastD 0]
  { wg := full, cn := cnRow clsN konz 1 w.length, wnz := wnz mode winit full }

def readTxt (t : Txt α) (w wmin : List α) : Out α :=
  let (kd, wd) := t.deep.getD ([0, 0, 0], [0, 0, 0])
  initOf wClassTxt nClassTxt t.mode (t.w ++ wd) (t.k ++ kd) w wmin

/-- tokens of the first record in the CSV file. The six deeper columns are optional: they are
looked up through the header map and read only when the header names them (input.go:985-1020). -/
structure Csv (α : Type) where
  mode : Nat
  k : List α
  w : List α
  hasDeepHeader : Bool
  deepK : List (Option α)   -- TryValAsFloat of the three deep N tokens (when the header has them)
  deepW : List (Option α)

def Csv.opt (c : Csv α) (toks : List (Option α)) (j : Nat) : α :=
  if c.hasDeepHeader then ((toks.getD j none).getD 0) else 0

def readCsv (c : Csv α) (w wmin : List α) : Out α :=
  initOf wClassCsv nClassCsv c.mode
    (c.w ++ [c.opt c.deepW 0, c.opt c.deepW 1, c.opt c.deepW 2])
    (c.k ++ [c.opt c.deepK 0, c.opt c.deepK 1, c.opt c.deepK 2]) w wmin

/-- the text record with the same content: all six deep columns, or none of them -/
def Csv.toTxt (c : Csv α) : Txt α :=
  { mode := c.mode, k := c.k, w := c.w,
    deep := if c.hasDeepHeader then
      some ([(c.deepK.getD 0 none).getD 0, (c.deepK.getD 1 none).getD 0, (c.deepK.getD 2 none).getD 0],
            [(c.deepW.getD 0 none).getD 0, (c.deepW.getD 1 none).getD 0, (c.deepW.getD 2 none).getD 0])
      else none }

end
end Hermes.Measure
