package main

// C14, whole-run stage: generated projects with observable keys given on the batch line, in
// config.yml, in both (different values) or nowhere; the state the day loop works with is read
// through the day probe on the first simulated day, the end of the simulation from the last probed
// day, the result-file extension from the name of the daily result file.

import (
	"fmt"
	"path/filepath"
	"reflect"
	"sort"
	"strconv"
	"strings"

	"github.com/zalf-rpm/Hermes2Go/hermes"
	"verifharness/proj"
	"verifharness/vh"
)

type runKey struct {
	name, kind string
	gen        func(r *vh.Rng, p *proj.Project) string // plain value text (valid on the line and as YAML scalar; texts are quoted in the file)
	defaultOK  bool                                    // the project runs with the documented default of this key
}

type runSnap struct {
	vals    map[string]string // key -> rendered observed value
	lastDay int
	ext     string
}

func ffmt(x float64, d int) string { return strconv.FormatFloat(x, 'f', d, 64) }

func runKeys() []runKey {
	sw := func(r *vh.Rng, p *proj.Project) string { return onOffList[r.Intn(len(onOffList))] }
	return []runKey{
		{"LeachingDepth", "int", func(r *vh.Rng, p *proj.Project) string { return strconv.Itoa(r.Range(1, p.N())) }, true},
		{"NDeposition", "float", func(r *vh.Rng, p *proj.Project) string { return ffmt(r.Uni(0, 60), 1) }, true},
		{"Latitude", "float", func(r *vh.Rng, p *proj.Project) string { return ffmt(r.Uni(35, 65), 2) }, true},
		{"Altitude", "float", func(r *vh.Rng, p *proj.Project) string { return strconv.Itoa(r.Range(0, 800)) }, true},
		{"CO2concentration", "float", func(r *vh.Rng, p *proj.Project) string { return ffmt(r.Uni(300, 700), 1) }, true},
		{"KcFactorBareSoil", "float", func(r *vh.Rng, p *proj.Project) string { return ffmt(r.Uni(0.2, 0.9), 2) }, true},
		{"OrganicMatterMineralProportion", "float", func(r *vh.Rng, p *proj.Project) string { return ffmt(r.Uni(0.05, 0.3), 2) }, true},
		{"AnnualAverageTemperature", "float", func(r *vh.Rng, p *proj.Project) string { return ffmt(r.Uni(5, 12), 1) }, true},
		{"Fertilization", "float", func(r *vh.Rng, p *proj.Project) string { return strconv.Itoa(r.Range(50, 150)) }, true},
		{"CO2StomataInfluence", "switch", sw, true},
		{"GroundWaterPhase", "int", func(r *vh.Rng, p *proj.Project) string { return strconv.Itoa(r.Range(0, 360)) }, true},
		{"PotMineralisation", "int", func(r *vh.Rng, p *proj.Project) string { return strconv.Itoa(r.Range(0, 2)) }, true},
		{"CO2method", "int", func(r *vh.Rng, p *proj.Project) string { return strconv.Itoa(r.Range(1, 3)) }, true},
		{"ETpot", "int", func(r *vh.Rng, p *proj.Project) string { return strconv.Itoa(r.Range(2, 4)) }, true},
		{"ResultFileExt", "text", func(r *vh.Rng, p *proj.Project) string { return []string{"csv", "RES", "out", "txt", "dat", "", ""}[r.Intn(7)] }, true}, // an empty text is a value too: it overrides the lower layer and is then resolved by the result format
		{"EndDate", "text", func(r *vh.Rng, p *proj.Project) string {
			lo, hi := p.Start().Z()+40, p.End().Z()
			if hi < lo {
				hi = lo
			}
			return proj.FromZ(r.Range(lo, hi)).Fmt(1)
		}, false},
	}
}

func renderText(kind, text string) (string, bool) {
	switch kind {
	case "float":
		f, err := strconv.ParseFloat(text, 64)
		return vh.FHex(f), err == nil
	case "int":
		i, err := strconv.ParseInt(text, 10, 64)
		return fmt.Sprintf("i%d", i), err == nil
	case "switch":
		b, ok := onOff[text]
		if b {
			return "b1", ok
		}
		return "b0", ok
	}
	return "t" + text, true
}

func bstr(b bool) string {
	if b {
		return "b1"
	}
	return "b0"
}

func c14RunOnce(root string, p *proj.Project) (*runSnap, *proj.RunResult) {
	sn := &runSnap{}
	res := proj.Run(root, p, &hermes.VerifProbes{
		DayStart: func(g *hermes.GlobalVarsMain, w *hermes.WaterSharedVars, n *hermes.NitroSharedVars, cr *hermes.CropSharedVars, zeit int, wdt float64) {
			if sn.vals == nil {
				sn.vals = map[string]string{
					"LeachingDepth": fmt.Sprintf("i%d", g.OUTN), "NDeposition": vh.FHex(g.DEPOS), "Latitude": vh.FHex(g.LAT), "Altitude": vh.FHex(g.ALTI),
					"CO2concentration": vh.FHex(g.CO2KONZ), "KcFactorBareSoil": vh.FHex(g.FKB), "OrganicMatterMineralProportion": vh.FHex(g.NAKT),
					"AnnualAverageTemperature": vh.FHex(g.TBASE), "Fertilization": vh.FHex(g.DUNGSZEN), "CO2StomataInfluence": bstr(g.CTRANS),
					"GroundWaterPhase": fmt.Sprintf("i%d", g.GWPhase), "PotMineralisation": fmt.Sprintf("i%d", g.PotMineralisationMethod),
					"CO2method": fmt.Sprintf("i%d", g.CO2METH), "ETpot": fmt.Sprintf("i%d", g.ETMETH),
				}
			}
			sn.lastDay = zeit
		},
	})
	for name := range res.Out.Files {
		if strings.HasPrefix(name, "V") {
			sn.ext = name[strings.LastIndex(name, ".")+1:]
		}
	}
	return sn, res
}

func c14Runs(c *vh.Ctx, metas []cfgMeta) {
	root := filepath.Join(c.Scratch, "runs")
	keys := runKeys()
	dflt := reflect.ValueOf(documentedConfig()) // the documented defaults (ConfigDoc.lean), not the code under test
	defaultText := func(name string) string {
		f := dflt.FieldByName(name)
		switch f.Kind() {
		case reflect.Float64:
			return strconv.FormatFloat(f.Float(), 'g', -1, 64)
		case reflect.Int:
			return strconv.FormatInt(f.Int(), 10)
		case reflect.Bool:
			if f.Bool() {
				return "1"
			}
			return "0"
		}
		return f.String()
	}
	var mCases []string
	type pending struct {
		p    *proj.Project
		snap *runSnap
	}
	var pend []pending
	nRuns := c.N(16, 150)
	for k := 0; k < nRuns; k++ {
		r := c.Rng.Fork()
		p := proj.Gen(r, fmt.Sprintf("cfg%d", k), proj.Opt{Years: 1, NoCrop: r.Chance(0.7), MinLayers: 15})
		layer := map[string]string{}
		want := map[string]string{} // key -> value text the run must use
		dup := ""
		for _, rk := range keys {
			plain := func(s string) string { return strings.Trim(s, "\"") }
			inFile := func(v string) string {
				if rk.kind == "text" {
					return strconv.Quote(v)
				}
				return v
			}
			switch r.Intn(5) {
			case 0: // line only (the file keeps the project's value)
				v := rk.gen(r, p)
				p.Args = append(p.Args, rk.name+"="+v)
				layer[rk.name], want[rk.name] = "line", v
			case 1: // file only
				v := rk.gen(r, p)
				p.Cfg[rk.name] = inFile(v)
				layer[rk.name], want[rk.name] = "file", v
			case 2: // both, different draws
				v, fv := rk.gen(r, p), rk.gen(r, p)
				p.Cfg[rk.name] = inFile(fv)
				p.Args = append(p.Args, rk.name+"="+v)
				layer[rk.name], want[rk.name] = "line", v
			case 3: // nowhere
				if rk.defaultOK {
					delete(p.Cfg, rk.name)
					layer[rk.name], want[rk.name] = "default", defaultText(rk.name)
				} else {
					layer[rk.name], want[rk.name] = "file", plain(p.Cfg[rk.name])
				}
			default:
				layer[rk.name], want[rk.name] = "file", plain(p.Cfg[rk.name])
			}
		}
		// a repeated key (the last one counts; outside the property, compared with the model only)
		if r.Chance(0.3) {
			for i, a := range p.Args {
				if strings.HasPrefix(a, "LeachingDepth=") || strings.HasPrefix(a, "NDeposition=") {
					dup = a[:strings.Index(a, "=")]
					other := "LeachingDepth=" + strconv.Itoa(r.Range(1, p.N()))
					if dup == "NDeposition" {
						other = "NDeposition=" + ffmt(r.Uni(0, 60), 1)
					}
					p.Args = append(p.Args[:i+1], append([]string{other}, p.Args[i+1:]...)...)
					p.Args[i], p.Args[i+1] = p.Args[i+1], p.Args[i] // the additional one first
					break
				}
			}
		}
		// keys that do not exist, tokens that are no pair
		p.Args = append(p.Args, []string{"Foo=1", "leachingdepth=1", "LeachingDepth", "NDEPOSITION=99"}[r.Intn(4)])
		for i := len(p.Args) - 1; i > 0; i-- {
			j := r.Intn(i + 1)
			if dup != "" && (strings.HasPrefix(p.Args[i], dup+"=") || strings.HasPrefix(p.Args[j], dup+"=")) {
				continue // keep the relative order of the repeated key
			}
			p.Args[i], p.Args[j] = p.Args[j], p.Args[i]
		}
		if err := p.Write(root, c.Repo); err != nil {
			c.Violate("search", "harness:write", err.Error(), nil)
			continue
		}
		sn, res := c14RunOnce(root, p)
		if res.Panic != "" || res.Err != nil || sn.vals == nil {
			c.Count("run:failed")
			c.Note("run %s did not complete: err=%v panic=%q batch line %v layers %v ETpot=%s", p.Name, res.Err, res.Panic, p.BatchArgs(), layer, p.Cfg["ETpot"])
			continue
		}
		c.Count("run:ok")
		pay := func(key string) map[string]interface{} {
			return map[string]interface{}{"project": p, "key": key, "batch_line": p.BatchArgs(), "config_yml": p.Cfg, "layer": layer[key]}
		}
		for _, rk := range keys {
			if rk.name == dup {
				continue
			}
			c.Eval()
			c.Count("run:" + rk.kind + ":" + layer[rk.name])
			c.Nontrivial("run:" + rk.name + ":" + layer[rk.name])
			w, ok := renderText(rk.kind, want[rk.name])
			if rk.name == "Fertilization" { // the run works with the fraction (config.go:114)
				f, _ := strconv.ParseFloat(want[rk.name], 64)
				w = vh.FHex(f / 100)
			}
			if !ok {
				c.Note("run %s: cannot read expectation %q of %s", p.Name, want[rk.name], rk.name)
				continue
			}
			switch rk.name {
			case "ResultFileExt":
				ext := want[rk.name]
				if ext == "" {
					ext = "csv" // ResultFileFormat of the generated projects is 1
				}
				if sn.ext != ext {
					c.Violate("search", "run:precedence:text:"+layer[rk.name], fmt.Sprintf("result files have the extension %q, the %s layer says %q", sn.ext, layer[rk.name], ext), pay(rk.name))
				}
			case "EndDate":
				var d, m, y int
				fmt.Sscanf(want[rk.name], "%2d%2d%4d", &d, &m, &y)
				endZ := proj.Date{Y: y, M: m, D: d}.Z()
				var ad, am int
				fmt.Sscanf(strings.Trim(p.Cfg["AnnualOutputDate"], "\""), "%2d%2d", &ad, &am)
				annZ := proj.Date{Y: y, M: am, D: ad}.Z()
				wantLast := endZ
				if annZ >= endZ {
					wantLast = annZ + 1 // run.go:138-140: the run is extended to the day after the annual output date of the end year
				}
				if sn.lastDay != wantLast {
					c.Violate("search", "run:precedence:text:"+layer[rk.name]+":enddate", fmt.Sprintf("the simulation ends on day %d (%v), the end date of the %s layer is %s (day %d; with the annual output date of that year: %d)", sn.lastDay, proj.FromZ(sn.lastDay), layer[rk.name], want[rk.name], endZ, wantLast), pay(rk.name))
				}
			default:
				if sn.vals[rk.name] != w {
					c.Violate("search", "run:precedence:"+rk.kind+":"+layer[rk.name], fmt.Sprintf("key %s: the day loop works with %s, the %s layer says %s = %s", rk.name, sn.vals[rk.name], layer[rk.name], want[rk.name], w), pay(rk.name))
				}
			}
		}
		// model fed with the real batch line and file
		cs := &cfgCase{Root: root, Tokens: p.BatchArgs()}
		var fk []string
		for kk := range p.Cfg {
			fk = append(fk, kk)
		}
		sort.Strings(fk)
		for _, kk := range fk {
			cs.File = append(cs.File, fileEnt{Key: kk, YAML: p.Cfg[kk]})
		}
		mCases = append(mCases, cs.driverLine())
		pend = append(pend, pending{p, sn})

		// second run: permuted batch line (even k) or further unknown keys (odd k): identical results
		base := res.Out.File("V")
		p2 := *p
		p2.Args = append([]string(nil), p.Args...)
		sig := "run:permutation"
		if k%2 == 0 && dup == "" {
			for i := len(p2.Args) - 1; i > 0; i-- {
				j := r.Intn(i + 1)
				p2.Args[i], p2.Args[j] = p2.Args[j], p2.Args[i]
			}
		} else {
			sig = "run:unknown-key"
			p2.Args = append([]string{"NoSuchKey=5", "enddate=01011990"}, p2.Args...)
			p2.Args = append(p2.Args, "Leachingdepth=1", "ETPOT=1")
		}
		sn2, res2 := c14RunOnce(root, &p2)
		c.Eval()
		c.Count(sig)
		if res2.Panic != "" || res2.Err != nil {
			c.Violate("search", sig+":fails", fmt.Sprintf("the run with the changed batch line fails: err=%v panic=%q", res2.Err, res2.Panic), map[string]interface{}{"project": p, "batch_line": p.BatchArgs(), "changed": p2.BatchArgs()})
		} else if res2.Out.File("V") != base || !reflect.DeepEqual(sn.vals, sn2.vals) || sn.lastDay != sn2.lastDay || sn.ext != sn2.ext {
			what := "a permutation of the batch line changes the results"
			if sig == "run:unknown-key" {
				what = "arguments that name no configuration key change the results"
			}
			c.Violate("search", sig, what, map[string]interface{}{"project": p, "batch_line": p.BatchArgs(), "changed": p2.BatchArgs()})
		}
		if k < 2 {
			c.Sample(map[string]interface{}{"stage": "run", "project": p.Name, "batch_line": p.BatchArgs(), "layers": layer, "last_day": sn.lastDay, "ext": sn.ext})
		}
	}
	// run-level correspondence: the model's effective configuration for the real batch line and file
	model, err := c.RunDriver(mCases)
	if err != nil {
		c.Violate("correspondence", "config.effective(run):driver", err.Error(), nil)
		return
	}
	for i, line := range model {
		mt := parseRendered(line)
		for name, obs := range pend[i].snap.vals {
			c.Res.CorrCases++
			if name == "Fertilization" {
				if isF, f, ok := vh.ParseTok(mt[name]); ok && isF {
					mt[name] = vh.FHex(f / 100)
				}
			}
			if mt[name] == obs {
				c.Res.CorrBitExact++
				continue
			}
			c.Res.CorrDisagree++
			c.Violate("correspondence", "config.effective(run):disagree", fmt.Sprintf("key %s: the run works with %s, the model says %s", name, obs, mt[name]),
				map[string]interface{}{"kernel": "config.effective(run)", "key": name, "batch_line": pend[i].p.BatchArgs(), "config_yml": pend[i].p.Cfg, "model": line})
		}
		if line == "fatal" {
			c.Violate("correspondence", "config.effective(run):fatal", "the model stops on a configuration the run accepts", map[string]interface{}{"batch_line": pend[i].p.BatchArgs(), "config_yml": pend[i].p.Cfg})
		}
	}
}
