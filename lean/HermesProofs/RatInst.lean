/-
`Conv ℚ`: the conversion functions of the numeric models over the rationals (exact arithmetic).
-/
import HermesModel.Num
import Mathlib.Algebra.Order.Floor.Defs
import Mathlib.Algebra.Order.Floor.Ring
import Mathlib.Data.Rat.Floor

namespace Hermes

noncomputable instance : Conv ℚ where
  ofNat n := (n : ℚ)
  roundNat x := (⌊x + 1 / 2⌋).toNat
  truncNat x := (⌊x⌋).toNat
  ceil x := (⌈x⌉ : ℤ)

end Hermes
