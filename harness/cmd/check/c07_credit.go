package main

import (
	"fmt"
	"math"

	"verifharness/proj"
	"verifharness/vh"
)

// Crop-side crediting, uptake without a crop, and the fertiliser sums across reset dates (C07).
//
// Signatures:
//   run:cropN-credit:day:more-than-uptake+fixation   ΔPESUM of a crop day exceeds that day's ΔAUFNASUM + ΔNFIXSUM
//   run:cropN-credit:day:less-than-uptake+fixation   ΔPESUM falls short by more than the N handed to the organic pools
//   run:cropN-credit:day:differs                     (no dead roots that day) ΔPESUM ≠ ΔAUFNASUM + ΔNFIXSUM − organic-pool gain
//   run:cropN-credit:day:uptake-of-an-earlier-day-credited-again  PE != 0 in a layer below today's reach of the crop
//   run:no-crop:uptake-booked / run:no-crop:uptake-handed-to-transport / run:no-crop:cropN-changes
//   run:boundary:partial-reset:<pair>                one of (DSUMM,UMS) / (NH4Sum,NH4UMS) changed between two days, the other not zeroed
//   run:boundary:changed:<name>                      a counter changed between day end and the next sub-step loop

func c07CreditDay(c *vh.Ctx, run *nRun, i int, payload func() interface{}) {
	d := run.Days[i]
	s, e := d.Start, d.End
	dP := e.Pesum - s.Pesum
	dU := e.Aufnasum - s.Aufnasum
	dF := e.Nfixsum - s.Nfixsum
	tot := func(x nSnap) float64 { return sum(x.Naos[:]) + sum(x.Nfos[:]) + sum(x.Minaos[:]) + sum(x.Minfos[:]) }
	dI := tot(e) - tot(s) // N handed to the organic pools (dead leaves: taken from PESUM; dead roots, manure: not)
	tol := relTol(s.Pesum, e.Pesum, dU, dF, dI) + 1e-9*math.Abs(tot(s))
	// with automatic harvest the harvest day is decided inside the first sub-step (crop.go:182-204), after the day-start
	// probe: the day on which the crop index moves is the harvest day
	harvestDay := d.HarvestDay || d.Start.AKF != d.End.AKF
	if d.CropDay && harvestDay && len(d.Subs) > 0 && d.Subs[0].SumPE > 0 {
		c.Count("run:harvest-day-with-uptake")
	}
	switch {
	case d.CropDay && !d.SowDay && !harvestDay:
		// Excluded: the sowing day (PhytoOut sets PESUM from the seedling biomass, crop.go:119-123, before
		// the day's uptake is credited) and the harvest day (the harvest block of Nitro subtracts the
		// residues, hands PESUM to the crop record and resets it, nitro.go:317-319 / pinit / :550, before
		// nmove credits that day's uptake to the emptied counter). No other day moves PESUM.
		c.Count("run:crop-day-credit-checked")
		if d.Legume && d.Nfix > 0 {
			c.Count("run:crop-day-credit-checked:fixing-legume")
		}
		if sb := d.Subs; len(sb) > 0 && sb[0].PEBelowReach > 0 {
			// an uptake that PhytoOut did not compute today (it works on the layers above min(root depth, groundwater
			// table)) is an uptake of an earlier day: it is credited a second time
			c.Violate("search", "run:cropN-credit:day:uptake-of-an-earlier-day-credited-again", fmt.Sprintf("%s (%s): the transport routine credits %.9g kg N/ha of uptake from layers below the crop's reach of today (layer %d and deeper: root depth / groundwater table); the crop routine computes no uptake there today, the amounts are those of an earlier day", d.Date, d.Crop, sb[0].PEBelowReach, sb[0].Reach+1), payload())
		}
		what := fmt.Sprintf("%s (%s): crop N (PESUM) changes by %.9g kg N/ha, uptake of the day ΔAUFNASUM = %.9g, fixation of the day ΔNFIXSUM = %.9g, N handed to the organic pools %.9g", d.Date, d.Crop, dP, dU, dF, dI)
		switch {
		case math.IsNaN(dP) || math.IsInf(dP, 0):
			// finiteness is reported by the pool checks
		case dP > dU+dF+tol:
			c.Violate("search", "run:cropN-credit:day:more-than-uptake+fixation", what+": the crop is credited with N it did not take up or fix on this day", payload())
		case dP < dU+dF-math.Max(dI, 0)-tol:
			c.Violate("search", "run:cropN-credit:day:less-than-uptake+fixation", what+": uptake or fixation of the day is not credited to the crop", payload())
		case d.WumasEnd >= d.WumasStart && d.Start.NDG == d.End.NDG && len(run.manureToday(d)) == 0 && math.Abs(dP-(dU+dF-dI)) > tol:
			c.Violate("search", "run:cropN-credit:day:differs", what+": without dead roots and manure the three must balance", payload())
		}
	case !d.CropDay:
		c.Count("run:no-crop-day-checked")
		if d.Start.AKF >= len(run.P.Rot)-1 && d.Start.AKF > 0 {
			c.Count("run:no-crop-day-checked:after-last-harvest")
		}
		if dU != 0 {
			c.Violate("search", "run:no-crop:uptake-booked", fmt.Sprintf("%s: no crop on the field, yet AUFNASUM grows by %.9g kg N/ha", d.Date, dU), payload())
		}
		for _, sb := range d.Subs {
			if sb.MaxAbsPE != 0 {
				c.Violate("search", "run:no-crop:uptake-handed-to-transport", fmt.Sprintf("%s: no crop on the field, yet the transport routine is handed an uptake of up to %.9g kg N/ha per layer (sub-step %d)", d.Date, sb.MaxAbsPE, sb.Subd), payload())
				break
			}
		}
		if dP != 0 && d.Start.AKF == d.End.AKF {
			sig, why := "run:no-crop:cropN-changes", ""
			if a := nitroAutoOf[run.P]; a != nil && a.AutoMan && len(d.Subs) > 0 && d.Subs[0].Schnorr != 0 && math.Abs(dP-d.Subs[0].Schnorr) <= tol {
				// input class of its own: automatic sowing, the next crop not sown yet (SAAT = 0), the harvested crop fixed N on its last day
				sig += ":stale-fixation-before-automatic-sowing"
				why = fmt.Sprintf(" (= the N fixation %.9g of the last day of the harvested legume, credited again on every day until the next crop is sown: nitro.go, `zeit >= SAAT` holds for SAAT = 0)", d.Subs[0].Schnorr)
			}
			c.Violate("search", sig, fmt.Sprintf("%s: no crop on the field and no harvest, yet PESUM changes by %.9g kg N/ha%s", d.Date, dP, why), payload())
		}
	}
	// ---- between yesterday's day end and today's sub-step loop
	if i == 0 || !run.Days[i-1].HaveEnd {
		return
	}
	pe := run.Days[i-1].End
	same := func(name string, a, b float64) {
		if a != b && !(math.IsNaN(a) && math.IsNaN(b)) {
			c.Violate("search", "run:boundary:changed:"+name, fmt.Sprintf("%s: %s changes from %.9g to %.9g between the end of the previous day and the sub-step loop", d.Date, name, a, b), payload())
		}
	}
	same("AUFNASUM", pe.Aufnasum, s.Aufnasum)
	same("NFIXSUM", pe.Nfixsum, s.Nfixsum)
	same("PESUM", pe.Pesum, s.Pesum)
	same("DRAINLOSS", pe.Drainloss, s.Drainloss)
	pair := func(name string, a0, d0, a1, d1 float64) {
		if a0 == a1 && d0 == d1 {
			return
		}
		c.Count("run:reset-of-" + name)
		if a1 != 0 || d1 != 0 {
			c.Violate("search", "run:boundary:partial-reset:"+name, fmt.Sprintf("%s: applied / dissolved sums (%s) go from %.9g / %.9g to %.9g / %.9g between two days: a reset must zero both", d.Date, name, a0, d0, a1, d1), payload())
		}
	}
	pair("DSUMM,UMS", pe.Dsumm, pe.Ums, s.Dsumm, s.Ums)
	pair("NH4Sum,NH4UMS", pe.Nh4sum, pe.Nh4ums, s.Nh4sum, s.Nh4ums)
	if s.MZ != pe.MZ {
		c.Count("run:measurement-day-after-start")
		if pe.Nh4ums > 0 {
			c.Count("run:measurement-day-after-start:with-nitrified-ammonium")
		}
	}
}

// creditRuns: rotations in which stale crop N would show (see proj.CreditRotation), half of them
// with extreme rain (many sub-steps).
func creditRuns(c *vh.Ctx, runs int) {
	for k := 0; k < runs; k++ {
		r := c.Rng.Fork()
		o := proj.Opt{Management: true, MinLayers: 4, NoCrop: true, Years: 1, Extreme: k%2 == 1}
		p := proj.Gen(r, fmt.Sprintf("cr%d", k), o)
		if o.Extreme {
			for i := range p.Soil {
				if p.Soil[i].Stone > 60 {
					p.Soil[i].Stone = r.Range(30, 60) // many sub-steps without the transport blowing up
				}
			}
		}
		proj.CreditRotation(p, r, k)
		steerNitroProject(p, false)
		runAndEval(c, p, "run:credit-simulations", c07Day)
	}
}

// lateMeasureRuns: first measurement 100-260 days after the start, behind ammonium-containing
// dressings, plus further measurement lines.
func lateMeasureRuns(c *vh.Ctx, runs int, eval func(c *vh.Ctx, run *nRun, i int)) {
	for k := 0; k < runs; k++ {
		r := c.Rng.Fork()
		p := proj.Gen(r, fmt.Sprintf("lm%d", k), proj.Opt{Management: true, MinLayers: 3, Legumes: k%2 == 0})
		proj.LateMeasurements(p, r)
		steerNitroProject(p, false)
		runAndEval(c, p, "run:late-measurement-simulations", eval)
	}
}

func runAndEval(c *vh.Ctx, p *proj.Project, bucket string, eval func(c *vh.Ctx, run *nRun, i int)) {
	run := runNitroObserved(c, p)
	c.Count(bucket)
	if run.Res.Panic != "" {
		c.Violate("search", panicSignature(run.Res.Panic), "simulation panicked: "+run.Res.Panic, map[string]interface{}{"project": p})
		return
	}
	if run.Res.Err != nil {
		c.Count(bucket + ":rejected")
		c.Note("%s rejected: %v", p.Name, run.Res.Err)
		return
	}
	for i := range run.Days {
		eval(c, run, i)
	}
}

// risingTableRuns: a groundwater table that swings between a high and a low level over the year (polygon file,
// GH != GL: lowest around 9 July, rising until January) under crops whose roots are below the high level by then —
// the layers the crop reaches shrink from day to day while it still takes up N (the uptake array must not keep
// yesterday's entries for the layers that dropped out).
func risingTableRuns(c *vh.Ctx, runs int) {
	for k := 0; k < runs; k++ {
		r := c.Rng.Fork()
		p := proj.Gen(r, fmt.Sprintf("rt%d", k), proj.Opt{Management: true, MinLayers: 12, Years: 2, Legumes: k%2 == 0})
		p.Cfg["GroundWaterFrom"] = "polygonfile"
		p.GH = r.Range(2, 5)
		p.GL = r.Range(8, 12)
		p.RootDepth = r.Range(10, 12)
		steerNitroProject(p, false)
		runAndEval(c, p, "run:rising-groundwater-simulations", func(c *vh.Ctx, run *nRun, i int) {
			c07Day(c, run, i)
			if d := run.Days[i]; i > 0 && d.CropDay && run.Days[i-1].CropDay && len(d.Subs) > 0 && len(run.Days[i-1].Subs) > 0 &&
				d.Subs[0].Reach < run.Days[i-1].Subs[0].Reach && run.Days[i-1].Subs[0].SumPE > 0 {
				c.Count("run:crop-day-on-which-the-reach-of-the-crop-shrinks")
			}
		})
	}
}
