package main

// C16, session stage: triples of projects in one hermes session — A, B (the same rotation, field and crop
// codes as A with a DIFFERENT automan.txt) and an independent C — sequentially in two orders and
// overlapping. Every line must reproduce its solo result files; for B (second line) the window predicates
// are evaluated on the result files of the session run.

import (
	"fmt"
	"os"
	"path/filepath"
	"strconv"
	"strings"

	"verifharness/proj"
	"verifharness/vh"
)

func c16SessionStage(c *vh.Ctx) {
	root := filepath.Join(c.Scratch, "sessions")
	os.MkdirAll(root, 0o755)
	n := c.N(16, 160)
	for k := 0; k < n; k++ {
		r := c.Rng.Fork()
		swBits := 1 + k%15 // at least one automation switch on: the table is read
		format := k % 4
		a := proj.Gen(r, fmt.Sprintf("a%d", k), proj.Opt{Years: 2, MaxLayers: 8})
		ca := c16Prepare(r, a, swBits, format)
		b, err := cloneProjectSch(a, fmt.Sprintf("b%d", k))
		if err != nil {
			c.Violate("search", "harness:clone", err.Error(), nil)
			return
		}
		// B: same rotation / field / crops, its own automan table (and its own organic-fertiliser flags)
		cb := &c16Case{AutoMan: ca.AutoMan, AutoHar: ca.AutoHar, AutoIrr: ca.AutoIrr, AutoFert: ca.AutoFert, Sw: ca.Sw, Format: ca.Format, S0: ca.S0, Table: map[string]proj.AutoEntry{}}
		for _, cc := range proj.Crops {
			e := genAutoEntry(r, cc)
			cb.Table[cc.Code] = e
			cb.Entries = append(cb.Entries, e)
		}
		cb.Entries = c16LateRows(r, b, cb.Table, cb.Entries)
		cp := proj.Gen(r, fmt.Sprintf("c%d", k), proj.Opt{Years: 2, MaxLayers: 8})
		cc := c16Prepare(r, cp, swBits, format)
		ps := []sessProject{
			{a, func(root string) error { return a.WriteAutoman(root, ca.Entries) }},
			{b, func(root string) error { return b.WriteAutoman(root, cb.Entries) }},
			{cp, func(root string) error { return cp.WriteAutoman(root, cc.Entries) }},
		}
		replay := map[string]interface{}{"switches": ca.Sw, "date_format": format,
			"project_a": a, "automan_a": ca.Entries, "project_b": b, "automan_b": cb.Entries, "project_c": cp, "automan_c": cc.Entries,
			"how": "write the three projects into one root (Project.Write, WriteManagementConf, WriteAutoman), proj.RunSession(root, lines, concurrent) vs one fresh session per line (harness/cmd/check/c16_session.go)"}
		mo := sessionCompare(c, root, ps, [][]int{{0, 1, 2}, {2, 1, 0}}, replay)
		if mo == nil {
			continue
		}
		c.Nontrivial(fmt.Sprintf("session/%d", k))
		c.Count("session:triples:" + ca.Sw)
		c16FilePredicates(c, mo, b, cb, replay)
	}
}

// c16FilePredicates: the C16 predicates that can be read off the management event file and the crop file
// of one line: crops in rotation order, sowing inside the configured window / on the fixed date, harvest
// not after the latest date / on the fixed date, crop records with code and harvest year of their entry.
func c16FilePredicates(c *vh.Ctx, mo *proj.MemOut, p *proj.Project, cs *c16Case, replay map[string]interface{}) {
	ex := c16Expect(p, cs)
	m, _ := sessFile(mo, "M", p)
	cf, _ := sessFile(mo, "C", p)
	zOf := map[string]int{}
	for z := cs.S0; z <= cs.S0+1600; z++ {
		zOf[dotted(z, cs.Format)] = z
	}
	var sow, har []proj.MEvent
	for _, e := range proj.ParseMEvents(m) {
		switch e.Kind {
		case "sowing":
			sow = append(sow, e)
		case "harvest":
			har = append(har, e)
		}
	}
	nRot := len(p.Rot)
	for j, e := range sow {
		i := j + 1
		c.Eval()
		if i >= nRot {
			c.Violate("search", "session-line:sowing:extra", fmt.Sprintf("sowing event %d (%s) beyond the %d rotation entries", j+1, e.Date, nRot-1), replay)
			break
		}
		z := zOf[e.Date]
		if got := strings.TrimSpace(e.Attrs["Crop"]); got != p.Rot[i].Crop {
			c.Violate("search", "session-line:rotation-order", fmt.Sprintf("sowing event %d is crop %q, rotation entry %d is %q", j+1, got, i, p.Rot[i].Crop), replay)
		}
		if !ex.Premise[i] {
			c.Count("session-line:sowing-outside-premise")
			continue
		}
		if ex.S[i] > 0 {
			if z != ex.S[i] {
				c.Violate("search", "session-line:sowing:fixed-date", fmt.Sprintf("entry %d (%s) sown on %s (day %d), fixed date is day %d", i, p.Rot[i].Crop, e.Date, z, ex.S[i]), replay)
			}
		} else if z < ex.S1[i] || z > ex.S2[i] {
			c.Violate("search", "session-line:sowing:outside-window", fmt.Sprintf("entry %d (%s) sown on %s (day %d), the window of THIS project's automan.txt is %d..%d", i, p.Rot[i].Crop, e.Date, z, ex.S1[i], ex.S2[i]), replay)
		}
		c.Count("session-line:sowing-judged")
	}
	for j, e := range har {
		i := j + 1
		c.Eval()
		if i >= nRot {
			break
		}
		z := zOf[e.Date]
		latest := expE2i(ex.E[i], ex.E2[i])
		if !cs.AutoHar {
			if z != ex.E[i] {
				c.Violate("search", "session-line:harvest:fixed-date", fmt.Sprintf("entry %d (%s) harvested on %s (day %d), fixed date is day %d", i, p.Rot[i].Crop, e.Date, z, ex.E[i]), replay)
			}
		} else if z > latest {
			c.Violate("search", "session-line:harvest:after-latest-date", fmt.Sprintf("entry %d (%s) harvested on %s (day %d), latest harvest day of THIS project's automan.txt is %d", i, p.Rot[i].Crop, e.Date, z, latest), replay)
		}
	}
	n := 0
	for _, ln := range strings.Split(strings.TrimSpace(cf), "\n") {
		f := strings.Split(ln, ",")
		if len(f) < 3 {
			continue
		}
		if _, err := strconv.Atoi(strings.TrimSpace(f[2])); err != nil {
			continue
		}
		n++
		if n < nRot && ex.Premise[n] {
			if code, hy := strings.TrimSpace(f[0]), strings.TrimSpace(f[2]); code != p.Rot[n].Crop || hy != strconv.Itoa(p.Rot[n].Harvest.Y) {
				c.Violate("search", "session-line:record:code-or-harvest-year", fmt.Sprintf("crop record %d: crop %q harvest year %s; rotation entry %d is %q with harvest year %d", n, code, hy, n, p.Rot[n].Crop, p.Rot[n].Harvest.Y), replay)
			}
		}
	}
}

var _ = vh.FHex
