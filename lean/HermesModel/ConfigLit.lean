/-
Literal values of the configuration table regenerated from hermes/config.go
(`HermesModel/Generated/ConfigFacts.lean` is written by harness/cmd/extract/config_facts.go and
imports this file).  Core Lean only.
-/
namespace Hermes.Config

/-- A default of `NewDefaultConfig()` as written in the source, tagged with the kind reflection
sees for the field (`reflect.Float64`, `Int`, `String`, `Bool`; anything else is `other` and is
never touched by the command-line override). -/
inductive CfgLit where
  /-- ± mantissa · 10^(−exp10) -/
  | float (neg : Bool) (mantissa : Nat) (exp10 : Nat)
  | int (i : Int)
  | text (s : String)
  | switch (b : Bool)
  | other
  deriving Repr, DecidableEq

end Hermes.Config
