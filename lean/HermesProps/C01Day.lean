/-
C01 — the day balance in the property's own terms.  Combines the model of the evapotranspiration
routine (HermesModel/Evatra.lean: the surface flux FLUSS0 is rain + irrigation − actual evaporation),
the sub-step selection (STEPS·WDT = 1) and the water routine (C01_water_day_balance): for every day
that is split into k equal sub-steps, the change of the stored profile water is

  (rain + irrigation − actual evaporation) − Σ uptake − Σ lower-boundary flux − Σ drain outflow,

whatever k is.
-/
import HermesProps.C01
import HermesModel.Evatra
namespace Hermes.Water

/-- **Surface flux.** The flux the evapotranspiration routine hands to the water routine is the water
reaching the surface (rain + irrigation, `REGEN`) minus the actual evaporation `ETA` — for every state,
weather, ET method value, crop or bare soil. -/
theorem C01_surface_flux_is_rain_minus_evaporation (e : Evatra.In ℚ) :
    (Evatra.partition e).fluss0 = e.regen - (Evatra.partition e).eta := by
  unfold Evatra.partition
  simp only
  split <;> simp only <;> ring

theorem dayRun_length : ∀ (subs : List (In ℚ)) (wg : List ℚ), (dayRun subs wg).length = subs.length := by
  intro subs
  induction subs with
  | nil => intro wg; simp [dayRun]
  | cons i rest ih => intro wg; simp [dayRun, ih]

/-- per-sub-step sinks of the balance: uptake, flux through the lower boundary, drain outflow -/
noncomputable def sinks (w : ℚ) (l : List (Out ℚ × In ℚ)) : ℚ :=
  l.foldr (fun p acc => acc + (w * p.1.tp.sum + p.1.q1.getLastD 0 + p.1.qdrain)) 0

theorem foldr_equal_substeps (F w : ℚ) : ∀ (l : List (Out ℚ × In ℚ)),
    (∀ p ∈ l, p.2.fluss0 = F ∧ p.2.wdt = w) →
    l.foldr (fun p acc => acc + (p.2.fluss0 * p.2.wdt - p.2.wdt * p.1.tp.sum - p.1.q1.getLastD 0 - p.1.qdrain)) 0
      = (l.length : ℚ) * (F * w) - sinks w l := by
  intro l
  induction l with
  | nil => intro _; simp [sinks]
  | cons p rest ih =>
    intro h
    have hp := h p (by simp)
    have hr := ih (fun q hq => h q (by simp [hq]))
    simp only [List.foldr_cons, sinks, List.length_cons] at *
    rw [hr, hp.1, hp.2]
    push_cast
    ring

/-- **Day balance in public terms, for any number of equal sub-steps.** If the day is split into `k`
sub-steps of length `wdt` with `k·wdt = 1` (which `C01_substeps_cover_day` shows the selection always
does), every sub-step sees the surface flux of the day's evapotranspiration call, and the states are
well formed, then the stored water changes by rain + irrigation − actual evaporation − the summed
uptake − the summed flux through the lower boundary − the summed drain outflow. -/
theorem C01_day_balance_in_public_terms (e : Evatra.In ℚ) (n : ℕ) (dz : ℚ) (hdz : dz ≠ 0)
    (k : ℕ) (wdt : ℚ) (hk : (k : ℚ) * wdt = 1)
    (subs : List (In ℚ)) (wg : List ℚ) (hlen : subs.length = k) (hwg : wg.length = n)
    (hwf : ∀ i ∈ subs, ∀ wg', wg'.length = n → WF { i with wg := wg' } n)
    (hsame : ∀ i ∈ subs, i.dz = dz ∧ i.wdt = wdt ∧ i.fluss0 = (Evatra.partition e).fluss0) :
    storage dz (dayFinal subs wg) =
      storage dz wg + (e.regen - (Evatra.partition e).eta) - sinks wdt ((dayRun subs wg).zip subs) := by
  have hb := C01_water_day_balance n dz hdz subs wg hwg hwf (fun i hi => (hsame i hi).1)
  have hz : ∀ p ∈ (dayRun subs wg).zip subs, p.2.fluss0 = (Evatra.partition e).fluss0 ∧ p.2.wdt = wdt := by
    intro p hp
    have := List.of_mem_zip hp
    exact ⟨(hsame p.2 this.2).2.2, (hsame p.2 this.2).2.1⟩
  rw [foldr_equal_substeps _ _ _ hz] at hb
  have hl : ((dayRun subs wg).zip subs).length = k := by
    simp [List.length_zip, dayRun_length, hlen]
  rw [hl] at hb
  rw [hb, C01_surface_flux_is_rain_minus_evaporation]
  have : (k : ℚ) * ((e.regen - (Evatra.partition e).eta) * wdt) = (e.regen - (Evatra.partition e).eta) := by
    calc (k : ℚ) * ((e.regen - (Evatra.partition e).eta) * wdt)
        = (e.regen - (Evatra.partition e).eta) * ((k : ℚ) * wdt) := by ring
      _ = (e.regen - (Evatra.partition e).eta) := by rw [hk]; ring
  linarith

end Hermes.Water

/-! ### non-vacuity: a day of two sub-steps driven by the crop day of the C08 examples -/
namespace Hermes.Water

noncomputable def exampleSub (e : Evatra.In ℚ) : In ℚ :=
  { exampleIn with wdt := 1 / 2, fluss0 := (Evatra.partition e).fluss0 }

example (e : Evatra.In ℚ) :
    ((2 : ℕ) : ℚ) * (1 / 2) = 1 ∧ [exampleSub e, exampleSub e].length = 2 ∧
    (∀ i ∈ [exampleSub e, exampleSub e], ∀ wg', wg'.length = 2 → WF { i with wg := wg' } 2) ∧
    (∀ i ∈ [exampleSub e, exampleSub e], i.dz = 10 ∧ i.wdt = 1 / 2 ∧ i.fluss0 = (Evatra.partition e).fluss0) := by
  refine ⟨by norm_num, rfl, ?_, ?_⟩
  · intro i hi wg' hw
    simp only [List.mem_cons, List.mem_nil_iff, or_false, or_self] at hi
    subst hi
    constructor <;> simp [exampleSub, exampleIn, hw]
  · intro i hi
    simp only [List.mem_cons, List.mem_nil_iff, or_false, or_self] at hi
    subst hi
    simp [exampleSub, exampleIn]

end Hermes.Water
