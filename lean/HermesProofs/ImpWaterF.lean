/-
Refinement of the regenerated translation of `hermes.Water` — part F: the overflow stage (top5 = `phaseOverflow`) and the
capillary-rise stage (top6-top9 = `phaseCapillary`).
-/
import HermesProofs.ImpWaterE

namespace Hermes.ImpWater
open Hermes.Imp Hermes.Water
open Hermes.ImpSoiltemp (vw vw_length vw_getElem rd_wr_nat getD_of_lt vw_getD)
open Hermes.Generated.Imp.Water

theorem ovRest_zero (t : St ℚ) (N : Nat) : ovRest t 0 N = zip3 (vw t.v_WATER_1 N) (vw t.g_W N) (qsOf t.g_Q1 N) := by
  apply List.ext_getElem
  · simp [ovRest, zip3_length]
  · intro j h1 h2
    have hj : j < N := by simpa [ovRest] using h1
    rw [zip3_getElem, vw_getD _ _ _ hj, vw_getD _ _ _ hj, getD_of_lt _ _ (by simpa using hj), qsOf_getElem]
    simp [ovRest]

/-- **Stage 3** (top5): the overflow pass is the model's `phaseOverflow`. -/
theorem stage3 (m : MathFns ℚ) (t : St ℚ) (N : Nat) (hN : t.g_N = (N : Int))
    (lW1 : N + 1 ≤ t.v_WATER_1.length) (lQ : N + 1 ≤ t.g_Q1.length) :
    ∃ A Q, top5 m t = { t with v_WATER_1 := A, g_Q1 := Q } ∧
      A.length = t.v_WATER_1.length ∧ Q.length = t.g_Q1.length ∧
      vw A N = ((overflow t.g_DZ_Num none (zip3 (vw t.v_WATER_1 N) (vw t.g_W N) (qsOf t.g_Q1 N))).1.map (·.1)) ∧
      qsOf Q N = ((overflow t.g_DZ_Num none (zip3 (vw t.v_WATER_1 N) (vw t.g_W N) (qsOf t.g_Q1 N))).1.map (·.2)) ∧
      rd A (N : Int) = addOpt (rd t.v_WATER_1 (N : Int)) (overflow t.g_DZ_Num none (zip3 (vw t.v_WATER_1 N) (vw t.g_W N) (qsOf t.g_Q1 N))).2 ∧
      rd Q 0 = rd t.g_Q1 0 := by
  obtain ⟨A, Q, e, lA, lQ', p1, p2⟩ := overflow_loop m N N 0 t (by omega) hN lW1 lQ
  rw [ovRest_zero] at p1 p2
  have hl := overflow_length t.g_DZ_Num (zip3 (vw t.v_WATER_1 N) (vw t.g_W N) (qsOf t.g_Q1 N)) none
  have hzl : (zip3 (vw t.v_WATER_1 N) (vw t.g_W N) (qsOf t.g_Q1 N)).length = N := by simp [zip3_length]
  refine ⟨A, Q, ?_, lA, lQ', ?_, ?_, ?_, ?_⟩
  · have hl : loopUp noBrk 0 t.g_N (loop8 m) t = loopUpN noBrk (loop8 m) N ((0 : Nat) : Int) t := by
      unfold loopUp
      rw [hN]
      have : ((N : Int) - 0).toNat = N := by omega
      rw [this]
      rfl
    simp only [top5]
    rw [hl]
    exact e
  · apply List.ext_getElem
    · simp [hl, hzl]
    · intro j h1 h2
      have hj : j < N := by simpa using h1
      rw [vw_getElem, p1 j]
      have : 0 ≤ j ∧ j < N := by omega
      simp only [this, and_self, if_true, Nat.sub_zero]
      rw [getD_of_lt _ _ h2]
  · apply List.ext_getElem
    · simp [hl, hzl]
    · intro j h1 h2
      have hj : j < N := by simpa using h1
      rw [qsOf_getElem, p2 (j + 1)]
      have : 0 + 1 ≤ j + 1 ∧ j + 1 ≤ N := by omega
      simp only [this, and_self, if_true]
      have e : j + 1 - (0 + 1) = j := by omega
      rw [e, getD_of_lt _ _ h2]
  · rw [p1 N]
    have : ¬ (0 ≤ N ∧ N < N) := by omega
    simp [this]
  · have := p2 0
    simp only [Nat.cast_zero] at this
    rw [this]
    have hc : ¬ (0 + 1 ≤ 0 ∧ 0 ≤ N) := by omega
    simp [hc]


/-! ### capillary rise: model functions pointwise, the Q1 loop, the rounding of the table index -/

theorem addAt_length (i : Nat) (c : ℚ) : ∀ l : List ℚ, (addAt i c l).length = l.length := by
  induction i with
  | zero => intro l; cases l <;> simp [addAt]
  | succ i ih => intro l; cases l with
    | nil => simp [addAt]
    | cons x xs => simp [addAt, ih]

theorem addAt_getD (c : ℚ) : ∀ (i : Nat) (l : List ℚ) (j : Nat),
    (addAt i c l).getD j 0 = if j = i ∧ j < l.length then l.getD j 0 + c else l.getD j 0 := by
  intro i
  induction i with
  | zero =>
    intro l j
    cases l with
    | nil => simp [addAt]
    | cons x xs =>
      cases j with
      | zero => simp [addAt]
      | succ j => simp [addAt]
  | succ i ih =>
    intro l j
    cases l with
    | nil => simp [addAt]
    | cons x xs =>
      cases j with
      | zero => simp [addAt]
      | succ j =>
        simp only [addAt, List.getD_cons_succ, ih xs j, List.length_cons]
        by_cases h : j = i ∧ j < xs.length
        · have : j + 1 = i + 1 ∧ j + 1 < xs.length + 1 := by omega
          simp [h, this]
        · have : ¬ (j + 1 = i + 1 ∧ j + 1 < xs.length + 1) := by omega
          simp [h, this]

theorem subFrom_length (c : ℚ) : ∀ (i : Nat) (l : List ℚ), (subFrom i c l).length = l.length := by
  intro i l
  induction l generalizing i with
  | nil => cases i <;> simp [subFrom]
  | cons x xs ih => cases i <;> simp [subFrom, ih]

theorem subFrom_getD (c : ℚ) : ∀ (l : List ℚ) (i j : Nat),
    (subFrom i c l).getD j 0 = if i ≤ j ∧ j < l.length then l.getD j 0 - c else l.getD j 0 := by
  intro l
  induction l with
  | nil => intro i j; cases i <;> simp [subFrom]
  | cons x xs ih =>
    intro i j
    cases i with
    | zero =>
      cases j with
      | zero => simp [subFrom]
      | succ j =>
        simp only [subFrom, List.getD_cons_succ, ih 0 j, List.length_cons]
        by_cases h : j < xs.length
        · have : 0 ≤ j + 1 ∧ j + 1 < xs.length + 1 := by omega
          simp [h, this]
        · have : ¬ (0 ≤ j + 1 ∧ j + 1 < xs.length + 1) := by omega
          simp [h, this]
    | succ i =>
      cases j with
      | zero => simp [subFrom]
      | succ j =>
        simp only [subFrom, List.getD_cons_succ, ih i j, List.length_cons]
        by_cases h : i ≤ j ∧ j < xs.length
        · have : i + 1 ≤ j + 1 ∧ j + 1 < xs.length + 1 := by omega
          simp [h, this]
        · have : ¬ (i + 1 ≤ j + 1 ∧ j + 1 < xs.length + 1) := by omega
          simp [h, this]

theorem loop10_spec (m : MathFns ℚ) (t : St ℚ) (N a : Nat) (hN : t.g_N = (N : Int)) (lQ : N + 1 ≤ t.g_Q1.length) :
    ∃ Q, loopUp noBrk (a : Int) (t.g_N + 1) (loop10 m) t = { t with g_Q1 := Q } ∧ Q.length = t.g_Q1.length ∧
      (∀ j : Nat, rd Q (j : Int) = if a ≤ j ∧ j ≤ N then
          rd t.g_Q1 (j : Int) - rd t.g_CAPS t.v_GWDISTindex * t.g_DZ_Num * t.p_wdt else rd t.g_Q1 (j : Int)) := by
  rw [show loopUp noBrk (a : Int) (t.g_N + 1) (loop10 m) t = loopUp noBrk (a : Int) ((N : Int) + 1) (loop10 m) t from by rw [hN]]
  have hcnt : (((N : Int) + 1) - (a : Int)).toNat = N + 1 - a := by omega
  have key := loopUp_noBrk_ind (loop10 m)
    (fun k u => ∃ Q, u = { t with g_Q1 := Q } ∧ Q.length = t.g_Q1.length ∧
      (∀ j : Nat, rd Q (j : Int) = if a ≤ j ∧ j < a + k then
          rd t.g_Q1 (j : Int) - rd t.g_CAPS t.v_GWDISTindex * t.g_DZ_Num * t.p_wdt else rd t.g_Q1 (j : Int)))
    (a : Int) ((N : Int) + 1) t ⟨_, rfl, rfl, by intro j; simp; all_goals (intro h1 h2; omega)⟩
    (by
      intro k hk u ⟨Q, hu, hQ, p⟩
      rw [hcnt] at hk
      subst hu
      have e2 : (a : Int) + (k : Int) = ((a + k : Nat) : Int) := by push_cast; ring
      have hk2 : a + k < Q.length := by omega
      have hQk : rd Q ((a + k : Nat) : Int) = rd t.g_Q1 ((a + k : Nat) : Int) := by
        rw [p (a + k)]; have : ¬ (a ≤ a + k ∧ a + k < a + k) := by omega
        simp [this]
      refine ⟨wr Q ((a + k : Nat) : Int) (rd t.g_Q1 ((a + k : Nat) : Int) - rd t.g_CAPS t.v_GWDISTindex * t.g_DZ_Num * t.p_wdt), ?_, by simp [hQ], ?_⟩
      · simp only [loop10, e2, hQk]
      · intro j
        rw [rd_wr_nat Q (a + k) j _ hk2, p j]
        by_cases hj : a + k = j
        · have : a ≤ j ∧ j < a + (k + 1) := by omega
          subst hj; simp [this]
        · simp only [hj, if_false]
          by_cases hj2 : a ≤ j ∧ j < a + k
          · have : a ≤ j ∧ j < a + (k + 1) := by omega
            simp [hj2, this]
          · have : ¬ (a ≤ j ∧ j < a + (k + 1)) := by omega
            simp [hj2, this])
  rw [hcnt] at key
  obtain ⟨Q, e, lQ', p⟩ := key
  refine ⟨Q, e, lQ', ?_⟩
  intro j
  rw [p j]
  by_cases h : a ≤ j ∧ j ≤ N
  · have : a ≤ j ∧ j < a + (N + 1 - a) := by omega
    simp [h, this]
  · have : ¬ (a ≤ j ∧ j < a + (N + 1 - a)) := by omega
    simp [h, this]

theorem roundNat_bounds (x : ℚ) (h1 : 1 ≤ x) (h2 : x < 21) : 1 ≤ (Conv.roundNat x : Nat) ∧ (Conv.roundNat x : Nat) ≤ 21 := by
  show 1 ≤ (⌊x + 1 / 2⌋).toNat ∧ (⌊x + 1 / 2⌋).toNat ≤ 21
  have a : (1 : Int) ≤ ⌊x + 1 / 2⌋ := Int.le_floor.mpr (by push_cast; linarith)
  have b : ⌊x + 1 / 2⌋ < 22 := Int.floor_lt.mpr (by push_cast; linarith)
  omega

theorem deepest_congr (t t' : St ℚ) (h : t'.l_NFK = t.l_NFK) : ∀ n, deepest t' n = deepest t n := by
  intro n
  induction n with
  | zero => rfl
  | succ k ih => simp only [deepest, h, ih]

end Hermes.ImpWater
