package main

// C11 — runs are isolated, always terminate, and failures are reported per run.
//
// Search on the built hermes2go binary:
//  * every reported-error class of the property (unknown soil id, unknown field id, texture not in
//    the parameter tables, inconsistent texture fractions, gap in the weather data, tillage between
//    sowing and harvest, start year not matching the first harvest) as one failing line, first alone
//    (must terminate, must be listed in the summary of a process that ends normally), then mixed
//    with valid lines at every position and concurrency 1…8: the process terminates within the
//    wall-time limit, every other line's files are byte-identical to its solo run, the summary
//    lists exactly the failing ids, no foreign file is written;
//  * further input-error classes the code reports per run (texture missing in one of the two parameter
//    tables, rotation dates not ascending) and valid but unusual configurations (deep tillage): a
//    class built as valid must complete and is then one more valid line of the mixed batches; any
//    class that ends the process is the violation fatal:<class>;
//  * sessions mixing parameter folders, per-project tables and projects without optional input
//    files (kern_dispatch_session.go): every conflict pair in both orders at concurrency 1 and 2,
//    random mixes; each line compared with its solo run, failures reported per line;
//  * fertiliser prediction (VirtualDateFertilizerPrediction set) at latitudes −60…70, each in a
//    subprocess with a timeout (a hang is the violation langtag:nonterminating:lat<…>).
// Correspondence: dispatch.run (model dispatcher under a random schedule vs the real summary),
// langtag.search (the two day-length search loops on the day-length sequence computed by the real
// CalculateDayLenght) and langtag.table45 (the Lean witness table of the day lengths at 45°).

import (
	"fmt"
	"math"
	"os"
	"path/filepath"
	"regexp"
	"sort"
	"strconv"
	"strings"
	"sync"
	"time"

	"github.com/zalf-rpm/Hermes2Go/hermes"

	"verifharness/proj"
	"verifharness/vh"
)

func init() { register("C11", checkC11) }

type errClass struct {
	Name     string
	Reported bool   // one of the property's reported-error classes
	Listed   bool   // named in the property text itself ("input errors … are reported as an error of that run"): a line of this class that runs without error violates the property
	Observe  bool   // outside the property's class list: the outcome is recorded in the evidence, never a violation
	Expect   string // substring expected in the run's error message
	Build    func(r *vh.Rng, name string) (*proj.Project, []string, func(root string) error)
}

func genWithCrop(r *vh.Rng, name string) *proj.Project {
	for {
		p := genShortProject(r.Fork(), name)
		if len(p.Rot) >= 2 {
			return p
		}
	}
}

func editFile(path string, f func(s string) string) error {
	b, err := os.ReadFile(path)
	if err != nil {
		return err
	}
	return os.WriteFile(path, []byte(f(string(b))), 0o644)
}

func c11Classes() []errClass {
	return []errClass{
		{Name: "unknown-soil-id", Reported: true, Listed: true, Expect: "not found", Build: func(r *vh.Rng, name string) (*proj.Project, []string, func(string) error) {
			p := genWithCrop(r, name)
			if r.Chance(0.5) {
				return p, []string{"soilId=S77"}, nil // soil id given on the batch line
			}
			return p, nil, func(root string) error { // polygon file refers to a soil id the soil file does not have
				return editFile(filepath.Join(root, "project", name, "poly_"+name+".txt"), func(s string) string {
					return strings.Replace(s, " "+p.SoilID+" ", " S77 ", 1)
				})
			}
		}},
		{Name: "unknown-field-id", Reported: true, Listed: true, Expect: "not found", Build: func(r *vh.Rng, name string) (*proj.Project, []string, func(string) error) {
			p := genWithCrop(r, name)
			return p, nil, func(root string) error {
				return editFile(filepath.Join(root, "project", name, "poly_"+name+".txt"), func(s string) string {
					return strings.Replace(s, " "+p.Field+" ", " FNONE ", 1)
				})
			}
		}},
		{Name: "texture-not-in-tables", Reported: true, Listed: true, Expect: "not listed", Build: func(r *vh.Rng, name string) (*proj.Project, []string, func(string) error) {
			p := genWithCrop(r, name)
			p.Soil[r.Intn(len(p.Soil))].Texture = "XQ7"
			return p, nil, nil
		}},
		// ... with a pedotransfer function switched on (the capacities then come from sand / silt / clay, the texture class is
		// still looked up in both tables by Hydro): in config.yml and on the batch line
		{Name: "texture-not-in-tables:ptf-in-config", Reported: true, Listed: true, Expect: "not listed", Build: func(r *vh.Rng, name string) (*proj.Project, []string, func(string) error) {
			p := genWithCrop(r, name)
			p.Soil[r.Intn(len(p.Soil))].Texture = "XQ7"
			for i := range p.Soil {
				p.Soil[i].Sand, p.Soil[i].Silt, p.Soil[i].Clay = 40, 40, 20
			}
			p.Cfg["PTF"] = fmt.Sprint(r.Range(1, 4))
			return p, nil, nil
		}},
		{Name: "texture-not-in-tables:ptf-on-line", Reported: true, Listed: true, Expect: "not listed", Build: func(r *vh.Rng, name string) (*proj.Project, []string, func(string) error) {
			p := genWithCrop(r, name)
			p.Soil[r.Intn(len(p.Soil))].Texture = "XQ7"
			for i := range p.Soil {
				p.Soil[i].Sand, p.Soil[i].Silt, p.Soil[i].Clay = 40, 40, 20
			}
			return p, []string{"PTF=" + fmt.Sprint(r.Range(1, 4))}, nil
		}},
		{Name: "texture-fractions-inconsistent", Reported: true, Listed: true, Expect: "does not sum up", Build: func(r *vh.Rng, name string) (*proj.Project, []string, func(string) error) {
			p := genWithCrop(r, name)
			p.Cfg["PTF"] = fmt.Sprint(r.Range(1, 4))
			h := &p.Soil[r.Intn(len(p.Soil))]
			h.Sand, h.Silt, h.Clay = 50, 40, 40
			return p, nil, nil
		}},
		{Name: "weather-gap", Reported: true, Listed: true, Expect: "missing days", Build: func(r *vh.Rng, name string) (*proj.Project, []string, func(string) error) {
			p := genWithCrop(r, name)
			// drop one day in the second simulated year
			k := 365 + r.Range(40, 300)
			p.Weather = append(append([]proj.WDay{}, p.Weather[:k]...), p.Weather[k+1:]...)
			return p, nil, nil
		}},
		{Name: "tillage-between-sowing-and-harvest", Reported: true, Listed: true, Expect: "tillage date", Build: func(r *vh.Rng, name string) (*proj.Project, []string, func(string) error) {
			p := genWithCrop(r, name)
			ro := p.Rot[1]
			p.Til = []proj.TilEv{{Depth: 20, Kind: 1, Date: proj.FromZ(r.Range(ro.Sow.Z()+3, ro.Harvest.Z()-3))}}
			return p, nil, nil
		}},
		// ... behind a seedbed pass on the day before sowing or on the sowing day
		{Name: "tillage-between-sowing-and-harvest:after-seedbed-pass", Reported: true, Listed: true, Expect: "tillage date", Build: func(r *vh.Rng, name string) (*proj.Project, []string, func(string) error) {
			p := genWithCrop(r, name)
			ro := p.Rot[1]
			p.Til = []proj.TilEv{{Depth: 10, Kind: 1, Date: ro.Sow.AddDays(-r.Intn(2))}, {Depth: 20, Kind: 1, Date: proj.FromZ(r.Range(ro.Sow.Z()+3, ro.Harvest.Z()-3))}}
			return p, nil, nil
		}},
		{Name: "start-year-mismatch", Reported: true, Listed: true, Expect: "start year", Build: func(r *vh.Rng, name string) (*proj.Project, []string, func(string) error) {
			p := genWithCrop(r, name)
			// weather begins one year before the true start so that only the year check can fail
			return p, []string{fmt.Sprintf("StartYear=%d", p.Start().Y+1)}, nil
		}},
		// ---- "soil texture not in the parameter tables", second table: listed in PARCAP.TRU, missing in
		// HYPAR.TRU (ended the whole batch before the repair of input.go:131-135)
		{Name: "texture-not-in-hypar", Reported: true, Expect: "not listed", Build: func(r *vh.Rng, name string) (*proj.Project, []string, func(string) error) {
			p := genWithCrop(r, name)
			for i := range p.Soil {
				p.Soil[i].FC, p.Soil[i].WP, p.Soil[i].PV = 0, 0, 0
			}
			p.Soil[len(p.Soil)-1].Texture = "TS3" // listed in PARCAP.TRU of the folder, removed from its HYPAR.TRU
			return p, []string{"parameter=parameterH"}, nil
		}},
		// ---- input error outside the property's list that the code reports per run since the repair of
		// input.go:396-433 (was a panic)
		{Name: "rotation-dates-not-ascending", Reported: true, Expect: "is not after", Build: func(r *vh.Rng, name string) (*proj.Project, []string, func(string) error) {
			p := genWithCrop(r, name)
			p.Rot[1].Sow = p.Rot[0].Harvest.AddDays(-20) // sowing before the previous harvest
			return p, nil, nil
		}},
		// ---- a valid configuration (tillage deeper than the four 10 cm layers of the fresh-organic-matter
		// arrays, nitro.go:251-265): the run must complete and is then one more valid line of the mixed
		// batches (files must equal its solo run)
		{Name: "deep-tillage", Reported: false, Expect: "", Build: func(r *vh.Rng, name string) (*proj.Project, []string, func(string) error) {
			p := genWithCrop(r, name)
			p.Til = []proj.TilEv{{Depth: r.Range(45, 60), Kind: 1, Date: p.Rot[0].Harvest.AddDays(r.Range(1, 3))}} // before the next sowing (≥ 6 days after the harvest)
			return p, nil, nil
		}},
		// ---- observed only: a malformed number in an input file ends in log.Fatal (helper.go ValAsFloat /
		// ValAsInt). Not one of the property's reported-error classes; recorded in the evidence as the
		// reason why the model keeps the `run l = none` outcome (C11_fatal_line_ends_batch_fails_at).
		{Name: "malformed-number-in-soil-file", Observe: true, Build: func(r *vh.Rng, name string) (*proj.Project, []string, func(string) error) {
			p := genWithCrop(r, name)
			return p, nil, func(root string) error {
				return editFile(filepath.Join(root, "project", name, "soil_"+name+".csv"), func(s string) string {
					lines := strings.Split(s, "\n")
					if len(lines) > 1 {
						f := strings.Split(lines[1], ",")
						if len(f) > 1 {
							f[1] = "1,5x" // C_org
							lines[1] = strings.Join(f, ",")
						}
					}
					return strings.Join(lines, "\n")
				})
			}
		}},
		// ---- "gap in the weather data" in the one-file-per-year layout (WeatherFileFormat 0, WetterK): the file of the
		// SECOND simulated year begins on 1 February, lacks one day in its middle, or does not exist. The complete
		// series in the same layout is a valid line of the mixed batches.
		{Name: "weather-gap-yearfile-start", Reported: true, Listed: true, Expect: "missing days", Build: func(r *vh.Rng, name string) (*proj.Project, []string, func(string) error) {
			p := yearFilesProject(r, name)
			return p, nil, func(root string) error {
				return editYearFile(root, p, p.Start().Y+1, func(data []string) []string { return data[31:] })
			}
		}},
		{Name: "weather-gap-yearfile-inside", Reported: true, Listed: true, Expect: "missing days", Build: func(r *vh.Rng, name string) (*proj.Project, []string, func(string) error) {
			p := yearFilesProject(r, name)
			k := r.Range(1, 360)
			return p, nil, func(root string) error {
				return editYearFile(root, p, p.Start().Y+1, func(data []string) []string { return append(append([]string{}, data[:k]...), data[k+1:]...) })
			}
		}},
		{Name: "weather-yearfile-missing", Reported: true, Listed: true, Expect: "failed to load file", Build: func(r *vh.Rng, name string) (*proj.Project, []string, func(string) error) {
			p := yearFilesProject(r, name)
			return p, nil, func(root string) error {
				return editYearFile(root, p, p.Start().Y+1, func(data []string) []string { return nil })
			}
		}},
		{Name: "weather-yearfiles-complete", Reported: false, Expect: "", Build: func(r *vh.Rng, name string) (*proj.Project, []string, func(string) error) {
			p := yearFilesProject(r, name)
			return p, nil, func(root string) error { return editYearFile(root, p, p.Start().Y+1, nil) }
		}},
	}
}

// yearFilesProject: a project that reads its weather from one file per year (WeatherFileFormat 0) in a folder of
// its own (weather/gy_<name>, written by editYearFile; the shared folder weather/gen keeps the CSV of Project.Write).
func yearFilesProject(r *vh.Rng, name string) *proj.Project {
	p := genWithCrop(r, name)
	p.Cfg["WeatherFileFormat"] = "0"
	p.Cfg["WeatherFile"] = "\"%s.\""
	p.Cfg["WeatherNumHeader"] = "2"
	p.Cfg["WeatherFolder"] = "gy_" + name
	return p
}

// editYearFile writes the year files of the project and rewrites the data lines of one year (nil result: the file
// is removed; nil edit: all files stay complete).
func editYearFile(root string, p *proj.Project, year int, edit func(data []string) []string) error {
	folder := "gy_" + p.Name
	if err := p.WriteWeatherLayoutTo(root, folder, 0); err != nil {
		return err
	}
	if edit == nil {
		return nil
	}
	code := ""
	for _, a := range p.BatchArgs() {
		if strings.HasPrefix(a, "fcode=") {
			code = strings.TrimPrefix(a, "fcode=")
		}
	}
	path := filepath.Join(root, "weather", folder, code+"."+proj.YearExt(year))
	b, err := os.ReadFile(path)
	if err != nil {
		return err
	}
	lines := strings.Split(strings.TrimRight(string(b), "\n"), "\n")
	const nHeader = 2 // WeatherNumHeader of yearFilesProject
	if len(lines) < nHeader+360 {
		return fmt.Errorf("year file %s has only %d lines", path, len(lines))
	}
	data := edit(lines[nHeader:])
	if data == nil {
		return os.Remove(path)
	}
	return os.WriteFile(path, []byte(strings.Join(append(append([]string{}, lines[:nHeader]...), data...), "\n")+"\n"), 0o644)
}

var idPrefixRe = regexp.MustCompile(`\[\d+\] ?`)

var rootRe = regexp.MustCompile(`\S*/root\d+/`)

// stripIDs removes what legitimately differs between the solo run and the batch: the log id of the
// line and the scratch root the project copy lives in.
func stripIDs(s string) string {
	return strings.TrimSpace(rootRe.ReplaceAllString(idPrefixRe.ReplaceAllString(s, ""), "<root>/"))
}

func maxDayLength(lat float64) float64 {
	m := 0.0
	for t := 1; t <= 365; t++ {
		dl, _, _, _, _, _, _ := hermes.CalculateDayLenght(float64(t), lat)
		if dl > m {
			m = dl
		}
	}
	return m
}

func checkC11(c *vh.Ctx) {
	bin, err := c.BuildTool("hermes2go")
	if err != nil {
		c.Violate("correspondence", "build:hermes2go", err.Error(), nil)
		return
	}
	raceBin := ""
	if c.Thorough() {
		raceBin, err = c.BuildTool("hermes2go", "-race")
		if err != nil {
			c.Violate("correspondence", "build:hermes2go-race", err.Error(), nil)
			raceBin = ""
		}
	}
	c.Res.Rule = "for every error class × every position of the failing line among the valid lines × concurrency 1..8 (plus -lines windows in the forms a-b, N and a-end and two failing lines per batch; batch files and command lines in drawn shapes: separators, line ends, empty lines, option order, -workingdir given or implied): process ends normally within the wall-time limit, files of every other line byte-identical (sha256) to its solo run, summary ids == failing ids, printed count == number of summary lines, no foreign file, inputs unchanged; every failing class alone: terminates and is listed; sessions mixing parameter folders / per-project tables / absent optional files in both orders at concurrency 1 and 2 and random mixes: each line succeeds or is reported exactly as alone, files == solo; fertiliser prediction at latitudes -60..70 in a subprocess with timeout; evaluations = (batch, line) pairs + latitude probes + correspondence cases; distinct = (class, position, concurrency) + latitudes"
	batchStyleSeed = c.Seed // shape of every batch file and command line: kern_dispatch_cmdline.go
	checkFatalFacts(c)
	langtagCorrespondence(c)

	// ---------------------------------------------------------------- projects and lines
	nValid := c.N(4, 7)
	nRoots := c.N(8, 8)
	classes := c11Classes()
	var ps []*proj.Project
	var valid []*batchLine
	for i := 0; i < nValid; i++ {
		p := genShortProject(c.Rng.Fork(), fmt.Sprintf("v%d", i))
		ps = append(ps, p)
		valid = append(valid, &batchLine{Key: p.Name, Args: p.BatchArgs(), Class: "valid"})
	}
	var failing []*batchLine
	var edits []func(root string) error
	for i, cl := range classes {
		name := fmt.Sprintf("e%d", i)
		p, extra, edit := cl.Build(c.Rng.Fork(), name)
		ps = append(ps, p)
		failing = append(failing, &batchLine{Key: cl.Name, Args: append(p.BatchArgs(), extra...), Class: cl.Name})
		edits = append(edits, edit)
	}
	hyparWithout := func(file string, b []byte) []byte {
		if file != "HYPAR.TRU" {
			return b
		}
		var out []string
		for _, ln := range strings.Split(string(b), "\n") {
			if strings.HasPrefix(ln, "TS3") {
				continue
			}
			out = append(out, ln)
		}
		return []byte(strings.Join(out, "\n"))
	}
	roots := make([]string, nRoots)
	for i := range roots {
		roots[i] = filepath.Join(c.Scratch, fmt.Sprintf("root%d", i))
		for _, p := range ps {
			if err := p.Write(roots[i], c.Repo); err != nil {
				c.Violate("correspondence", "harness:write-project", err.Error(), nil)
				return
			}
		}
		for _, e := range edits {
			if e != nil {
				if err := e(roots[i]); err != nil {
					c.Violate("correspondence", "harness:edit-project", err.Error(), nil)
					return
				}
			}
		}
		if err := variantParameterFolder(roots[i], c.Repo, "parameterH", hyparWithout); err != nil {
			c.Violate("correspondence", "harness:parameter-folder", err.Error(), nil)
			return
		}
	}
	inputs0 := inputSnapshot(roots[0])

	// ---------------------------------------------------------------- solo runs
	all := append(append([]*batchLine{}, valid...), failing...)
	{
		parts := make([][]*batchLine, nRoots)
		for i, l := range all {
			parts[i%nRoots] = append(parts[i%nRoots], l)
		}
		vh.Parallel(nRoots, nRoots, func(i int) { soloRuns(bin, roots[i], parts[i], 30*time.Second) })
	}
	for _, l := range all {
		if strings.HasPrefix(l.SoloErr, "BADSUMMARY") {
			c.Violate("search", "summary:count:single-line", fmt.Sprintf("a batch of one line ends without a consistent summary (%s): the result of the line was not collected before the summary was printed", l.SoloErr),
				map[string]interface{}{"batch_line": l.Text(), "projects": ps, "how": "hermes2go -module batch -batch <file with this one line> -concurrent 1"})
			return
		}
	}
	for _, l := range valid {
		c.Eval()
		if l.SoloErr != "" {
			c.Violate("correspondence", "harness:valid-line-fails", fmt.Sprintf("generated valid line %q fails alone: %s [%s]", l.Text(), l.SoloErr, l.SoloHow), map[string]interface{}{"projects": ps, "solo_run": l.SoloHow})
			return
		}
	}
	projOf := func(l *batchLine) interface{} {
		for _, p := range ps {
			if strings.HasPrefix(l.Args[0], "project="+p.Name) && l.Args[0] == "project="+p.Name {
				return p
			}
		}
		return nil
	}
	var mixable []*batchLine // failing lines that are reported per run when alone
	var fatal []*batchLine
	for i, l := range failing {
		cl := classes[i]
		c.Eval()
		c.Nontrivial("solo:" + cl.Name)
		payload := map[string]interface{}{"class": cl.Name, "batch_line": l.Text(), "project": projOf(l), "solo_outcome": l.SoloErr,
			"how": "proj.Write the project (plus the class's file edit / parameter folder; the weather-…-yearfile classes: c11.go editYearFile writes one weather file per year into weather/gy_<project>/ with Project.WriteWeatherLayoutTo(root, folder, 0) and removes the first 31 days / one inner day of the file of the second simulated year or deletes that file), run `hermes2go -module batch -batch <file with this one line> -workingdir <root> -concurrent 1`"}
		if cl.Observe {
			outcome := "reported per run: " + l.SoloErr
			switch {
			case l.SoloErr == "TIMEOUT":
				outcome = "does not terminate"
			case strings.HasPrefix(l.SoloErr, "DIED"):
				outcome = "ends the whole process: " + l.SoloErr
			case l.SoloErr == "":
				outcome = "runs without error"
			}
			c.Count("observed:" + cl.Name + ":" + strings.SplitN(outcome, ":", 2)[0])
			c.Note("observed only (outside the property's reported-error classes): class %s %s", cl.Name, outcome)
			continue
		}
		switch {
		case l.SoloErr == "TIMEOUT":
			c.Violate("search", "hang:"+cl.Name, fmt.Sprintf("a single line of class %s does not terminate within 30 s", cl.Name), payload)
		case strings.HasPrefix(l.SoloErr, "DIED"):
			kind := "log.Fatal"
			if strings.Contains(l.SoloStderr, "panic:") {
				kind = "panic"
			}
			fatal = append(fatal, l)
			l.Class = "fatal:" + cl.Name // one signature per input class, whether the run ends in log.Fatal or in a panic
			l.SoloErr = kind + " " + l.SoloErr
			c.Count("solo:" + kind)
		case l.SoloErr == "":
			if cl.Listed {
				// the property names this input error and demands that it fails its run: a line that is accepted silently
				// (and simulated with whatever the readers made of the input) is a failing input of the property
				c.Violate("search", "input-error-not-reported:"+cl.Name, fmt.Sprintf("a line of the input-error class %s (named in the property: such an error must be reported as an error of that run) runs without any error — line %q", cl.Name, l.Text()), payload)
			} else if cl.Reported {
				// the model is expected to report this class as a run error (property text); on the unchanged
				// code it does. The property says nothing about an input error that is not noticed, so this is
				// not a failing input — but the check's reading of the code no longer holds.
				c.Violate("correspondence", "class-not-reported:"+cl.Name, fmt.Sprintf("a line of the reported-error class %s runs without any error — line %q", cl.Name, l.Text()), payload)
			} else {
				// a valid configuration that completes: one more valid line (isolation and identity with its
				// solo run are checked in every mixed batch)
				l.Class = "valid"
				valid = append(valid, l)
				c.Note("class %s completes successfully: used as a valid line of the mixed batches", cl.Name)
			}
			c.Count("solo:succeeds:" + cl.Name)
		default:
			c.Count("solo:reported")
			if cl.Expect != "" && !strings.Contains(l.SoloErr, cl.Expect) {
				c.Note("class %s fails with another message than expected: %s", cl.Name, l.SoloErr)
			}
			mixable = append(mixable, l)
		}
	}

	// ---------------------------------------------------------------- mixed batches
	type mix struct {
		lines      []*batchLine
		failPos    []int
		conc       int
		class      string
		race       bool
		window     [2]int // -lines a-b (0,0 = none)
		windowForm string // "" = a-b, "N" = `-lines <b>` (a = 1), "a-end" = `-lines <a>-end` (b = number of lines)
		out        *batchOutcome
	}
	var mixes []*mix
	insert := func(base []*batchLine, l *batchLine, pos int) []*batchLine {
		out := append([]*batchLine{}, base[:pos]...)
		out = append(out, l)
		return append(out, base[pos:]...)
	}
	for _, l := range mixable {
		for pos := 0; pos <= len(valid); pos++ {
			for conc := 1; conc <= 8; conc++ {
				if !c.Thorough() && (pos+conc+len(mixes))%2 == 1 && conc > 2 && pos != 0 && pos != len(valid) {
					continue // quick tier: every position at conc 1,2; first/last position at every level; half of the rest
				}
				mixes = append(mixes, &mix{lines: insert(valid, l, pos), failPos: []int{pos}, conc: conc, class: l.Class})
			}
		}
	}
	// two failing lines in one batch, with repeated valid lines and -lines windows
	for k := 0; k < c.N(16, 80) && len(mixable) >= 2; k++ {
		r := c.Rng
		a, b := mixable[r.Intn(len(mixable))], mixable[r.Intn(len(mixable))]
		if a == b {
			continue
		}
		ls := append([]*batchLine{}, valid...)
		ls = insert(ls, a, r.Intn(len(ls)+1))
		ls = insert(ls, b, r.Intn(len(ls)+1))
		m := &mix{lines: ls, conc: r.Range(1, 8), class: "two:" + a.Class + "+" + b.Class}
		if r.Chance(0.5) {
			lo := r.Range(1, len(ls))
			hi := r.Range(lo, len(ls))
			m.window = [2]int{lo, hi}
			// the other two forms of the option: `-lines N` (the first N lines), `-lines a-end`
			switch k % 3 {
			case 1:
				m.window, m.windowForm = [2]int{1, hi}, "N"
			case 2:
				m.window, m.windowForm = [2]int{lo, len(ls)}, "a-end"
			}
		}
		for i, l := range ls {
			if l == a || l == b {
				m.failPos = append(m.failPos, i)
			}
		}
		mixes = append(mixes, m)
	}
	if raceBin != "" {
		for i, m := range mixes {
			m.race = i%6 == 0
		}
	}
	// one demonstration batch per fatal class: the failing line first, concurrency 1 and 4
	for _, l := range fatal {
		for _, conc := range []int{1, 4} {
			mixes = append(mixes, &mix{lines: insert(valid, l, len(valid)/2), failPos: []int{len(valid) / 2}, conc: conc, class: l.Class})
		}
	}
	rootFree := make(chan string, nRoots)
	for _, r := range roots {
		rootFree <- r
	}
	t0 := time.Now()
	var mu sync.Mutex
	vh.Parallel(len(mixes), nRoots, func(i int) {
		m := mixes[i]
		root := <-rootFree
		defer func() { rootFree <- root }()
		cleanResults(root)
		var extra []string
		if m.window != [2]int{} {
			extra = []string{"-lines", fmt.Sprintf("%d-%d", m.window[0], m.window[1])}
			switch m.windowForm {
			case "N":
				extra[1] = strconv.Itoa(m.window[1])
			case "a-end":
				extra[1] = fmt.Sprintf("%d-end", m.window[0])
			}
		}
		use, to := bin, 60*time.Second
		var env []string
		if m.race {
			use, to = raceBin, 300*time.Second
		}
		o := runBatch(use, root, m.lines, m.conc, []int{0, 1, 2, 16}[i%4], env, to, fmt.Sprintf("m%d", i), extra...)
		mu.Lock()
		m.out = o
		mu.Unlock()
	})
	c.Res.Extra["mixed_batches"] = len(mixes)
	c.Res.Extra["mixed_wall_s"] = time.Since(t0).Seconds()

	var cases, impl []string
	for _, m := range mixes {
		o := m.out
		c.Count("class:" + m.class)
		countBatchShape(c, o)
		ls := make([]string, len(m.lines))
		for i, l := range m.lines {
			ls[i] = l.Text()
		}
		payload := map[string]interface{}{"class": m.class, "batch_lines": ls, "failing_positions": m.failPos, "concurrent": m.conc, "lines_option": m.window, "lines_option_form": m.windowForm,
			"command": o.Cmd, "batch_file_quoted": strconv.Quote(o.BatchText), "batch_file_shape": o.BatchShape,
			"projects": ps, "stdout_tail": tail(o.Stdout, 1500), "stderr_tail": tail(o.Stderr, 2500),
			"how": "proj.Write every project into one root (plus the class edits, see harness/cmd/check/c11.go c11Classes), batch file with batch_lines, start replay.command (`hermes2go -module batch -batch <file> [-workingdir <root>] -concurrent <n> [-lines a-b | N | a-end]`, options in any order) in the root; compare sha256 of project/*/RESULT/* with the solo run of each line"}
		// the lines selected by the -lines window
		lo, hi := 0, len(m.lines)
		if m.window != [2]int{} {
			lo, hi = m.window[0]-1, m.window[1]
		}
		selected := m.lines[lo:hi]
		skip := map[string]bool{}
		for i, l := range m.lines {
			if i < lo || i >= hi {
				skip[l.Key] = true
			}
		}
		var wantIDs []int
		for _, p := range m.failPos {
			if p >= lo && p < hi {
				wantIDs = append(wantIDs, p)
			}
		}
		for range selected {
			c.Eval()
		}
		c.Nontrivial(fmt.Sprintf("%s|pos%v|c%d|w%v%s", m.class, m.failPos, m.conc, m.window, m.windowForm))
		if m.window != [2]int{} {
			c.Count("lines-option:" + map[string]string{"": "a-b", "N": "N", "a-end": "a-end"}[m.windowForm])
		}
		if strings.Contains(o.Stderr, "DATA RACE") {
			c.Violate("search", "race:"+raceSignature(o.Stderr), "data race reported in a batch with a failing line: "+raceSummary(o.Stderr), payload)
		}
		if o.TimedOut {
			c.Violate("search", "timeout:"+m.class, fmt.Sprintf("batch with a failing line of class %s at position %v, concurrency %d did not terminate within the wall-time limit", m.class, m.failPos, m.conc), payload)
			continue
		}
		if !o.SummaryOK || !o.Finished {
			// process died: which other lines lost their results?
			missing, _, _ := compareWithSolo(o, selected, classKeys(selected, "valid", true))
			payload["lost_result_files_of_other_lines"] = missing
			sig := m.class
			if !strings.HasPrefix(sig, "fatal:") {
				sig = "died:" + sig
			}
			c.Violate("search", sig, fmt.Sprintf("one line of input class %s ends the whole process (%v; %s): no error summary, %d result file(s) of the other lines missing or incomplete", m.class, o.Err, firstLineDsp(o.Stderr), len(missing)), payload)
			continue
		}
		got := append([]int{}, o.ErrIDs...)
		sort.Ints(got)
		if fmt.Sprint(got) != fmt.Sprint(wantIDs) && !(len(got) == 0 && len(wantIDs) == 0) {
			c.Violate("search", "summary:wrong-ids:"+m.class, fmt.Sprintf("error summary lists ids %v, the failing lines are %v (concurrency %d)", got, wantIDs, m.conc), payload)
		}
		if o.Count != len(o.ErrIDs) {
			c.Violate("search", "summary:count", fmt.Sprintf("`Number of errors: %d` but %d error lines printed", o.Count, len(o.ErrIDs)), payload)
		}
		for _, id := range o.ErrIDs {
			if id >= 0 && id < len(m.lines) && m.lines[id].SoloErr != "" && stripIDs(o.ErrMsg[id]) != stripIDs(m.lines[id].SoloErr) {
				c.Violate("search", "summary:wrong-message:"+m.class, fmt.Sprintf("line %d is reported with %q, alone it fails with %q", id, o.ErrMsg[id], m.lines[id].SoloErr), payload)
			}
		}
		missing, differs, foreign := compareWithSolo(o, selected, nil)
		// files of lines outside the window must not exist
		for f := range o.Files {
			for _, l := range m.lines {
				if skip[l.Key] {
					if _, own := l.Solo[f]; own {
						inSel := false
						for _, s := range selected {
							if _, ok := s.Solo[f]; ok {
								inSel = true
							}
						}
						if !inSel {
							foreign = append(foreign, f)
						}
					}
				}
			}
		}
		if len(differs) > 0 {
			payload["differing_files"] = differs
			c.Violate("search", "isolation:differs-from-solo:"+m.class, fmt.Sprintf("%d result file(s) differ from the solo run when a line of class %s fails in the same session, first %s", len(differs), m.class, differs[0]), payload)
		}
		if len(missing) > 0 {
			payload["missing_files"] = missing
			c.Violate("search", "isolation:missing:"+m.class, fmt.Sprintf("%d result file(s) missing, first %s", len(missing), missing[0]), payload)
		}
		if len(foreign) > 0 {
			payload["foreign_files"] = foreign
			c.Violate("search", "isolation:foreign-file:"+m.class, fmt.Sprintf("files written that belong to no executed line, first %s", foreign[0]), payload)
		}
		start, end := 0, 0
		if m.window != [2]int{} {
			start, end = m.window[0]-1, m.window[1]
		}
		cases = append(cases, dispatchCase(c.Rng, len(m.lines), m.conc, start, end, m.failPos))
		ids := make([]string, len(got))
		for i, v := range got {
			ids[i] = strconv.Itoa(v)
		}
		impl = append(impl, fmt.Sprintf("finished %d errors [%s] count %d", len(selected), strings.Join(ids, ","), o.Count))
	}
	for i, root := range roots {
		now := inputSnapshot(root)
		for f, h := range inputs0 {
			if now[f] != h {
				c.Violate("search", "inputs:modified", fmt.Sprintf("input file %s of root %d changed during the runs", f, i), map[string]interface{}{"file": f})
				break
			}
		}
	}
	// ---------------------------------------------------------------- sessions mixing parameter folders,
	// per-project tables and projects without optional files: isolation and per-line reporting
	// (kern_dispatch_session.go; the same scenario generator as C03, other seed stream)
	{
		cs, im := runSessionScenario(c, bin, raceBin, c.N(2, 5), c.N(10, 30))
		cases = append(cases, cs...)
		impl = append(impl, im...)
	}
	saved := cases
	c.Correspond("dispatch.run", cases, impl, 0, 0, func(i int) interface{} { return saved[i] })
	if len(mixes) > 0 {
		m := mixes[0]
		c.Sample(map[string]interface{}{"class": m.class, "failing_positions": m.failPos, "concurrent": m.conc, "summary_ids": m.out.ErrIDs, "count": m.out.Count, "files": len(m.out.Files)})
		m = mixes[len(mixes)/2]
		c.Sample(map[string]interface{}{"class": m.class, "failing_positions": m.failPos, "concurrent": m.conc, "summary_ids": m.out.ErrIDs, "count": m.out.Count, "files": len(m.out.Files)})
	}

	// ---------------------------------------------------------------- fertiliser prediction at any latitude
	lats := []float64{-60, -50, -45, -31, -20, 0, 15, 30, 30.9, 35, 45, 49, 49.2, 52.5, 60, 70}
	if c.Thorough() {
		lats = nil
		for l := -60.0; l <= 70; l += 5 {
			lats = append(lats, l)
		}
		lats = append(lats, 30.5, 31.5, 48.9, 49.3, -48.9, -49.3)
	} else {
		for k := 0; k < 4; k++ {
			lats = append(lats, vh.RoundTo(c.Rng.Uni(-60, 70), 1))
		}
	}
	// a project with a winter cereal and a prediction date in spring of the harvest year
	var pp *proj.Project
	for try := 0; try < 200 && pp == nil; try++ {
		p := genShortProject(c.Rng.Fork(), "pr")
		for i := 1; i < len(p.Rot); i++ {
			if p.Rot[i].Crop == "WW" || p.Rot[i].Crop == "WG" || p.Rot[i].Crop == "WR" {
				d := proj.Date{Y: p.Rot[i].Harvest.Y, M: 3, D: 15}
				if d.Z() > p.Start().Z()+30 && d.Z() < p.End().Z()-30 {
					p.Cfg["VirtualDateFertilizerPrediction"] = "\"" + d.Fmt(1) + "\""
					p.DateFmt = 1
					pp = p
				}
				break
			}
		}
	}
	if pp == nil {
		c.Violate("correspondence", "harness:no-prediction-project", "could not generate a project with a winter cereal", nil)
		return
	}
	type latProbe struct {
		lat  float64
		line *batchLine
		out  *batchOutcome
	}
	probes := make([]*latProbe, len(lats))
	predRoot := filepath.Join(c.Scratch, "predroot")
	if err := pp.Write(predRoot, c.Repo); err != nil {
		c.Violate("correspondence", "harness:write-project", err.Error(), nil)
		return
	}
	for i, lat := range lats {
		a := append([]string{}, pp.BatchArgs()...)
		for k := range a {
			if strings.HasPrefix(a[k], "poligonID=") {
				a[k] = fmt.Sprintf("poligonID=LAT%d", i)
			}
		}
		a = append(a, "Latitude="+strconv.FormatFloat(lat, 'f', -1, 64))
		probes[i] = &latProbe{lat: lat, line: &batchLine{Key: fmt.Sprint("lat", lat), Args: a, Class: "prediction"}}
	}
	hangLimit := 8 * time.Second
	vh.Parallel(len(probes), 16, func(i int) {
		probes[i].out = runBatch(bin, predRoot, []*batchLine{probes[i].line}, 1, 1, nil, hangLimit, fmt.Sprintf("lat%d", i))
	})
	for _, pr := range probes {
		c.Eval()
		c.Nontrivial(fmt.Sprintf("lat:%g", pr.lat))
		mx := maxDayLength(pr.lat)
		payload := map[string]interface{}{"latitude": pr.lat, "max_day_length_h": mx, "batch_line": pr.line.Text(), "project": pp,
			"VirtualDateFertilizerPrediction": pp.Cfg["VirtualDateFertilizerPrediction"], "stderr_tail": tail(pr.out.Stderr, 1500), "stdout_tail": tail(pr.out.Stdout, 800),
			"how": "any project whose config.yml sets VirtualDateFertilizerPrediction to a date before EndDate, with Latitude=<lat>: `hermes2go -module batch -batch <one line>`; LangTag (longday.go) searches the first day longer than 14 h, then the first longer than 16 h"}
		switch {
		case pr.out.TimedOut:
			cls := "lat<49.1"
			if mx <= 14 {
				cls = "lat<30.9"
			}
			if mx > 16 {
				cls = "unexpected"
			}
			c.Count("prediction:hang:" + cls)
			c.Violate("search", "langtag:nonterminating:"+cls, fmt.Sprintf("fertiliser prediction at latitude %g never terminates (killed after %v): the longest day of the model's own formula is %.2f h, the search loop waits for a day longer than %s", pr.lat, hangLimit, mx, map[bool]string{true: "14 h", false: "16 h"}[mx <= 14]), payload)
		case !pr.out.SummaryOK || !pr.out.Finished:
			c.Count("prediction:died")
			c.Violate("search", "prediction:died", fmt.Sprintf("fertiliser prediction at latitude %g kills the process: %v %s", pr.lat, pr.out.Err, lastLine(pr.out.Stderr)), payload)
		default:
			c.Count("prediction:terminates")
			if mx <= 16 {
				c.Count("prediction:terminates:fallback-longest-day")
			}
			if len(pr.out.ErrIDs) > 0 {
				c.Note("prediction at latitude %g ends with a reported error: %s", pr.lat, pr.out.ErrMsg[pr.out.ErrIDs[0]])
			}
		}
	}
	c.Res.Extra["latitudes_probed"] = lats
	c.Res.Extra["observed_only"] = "process-level effects of log.Fatal / panic (the whole batch dies), real timeouts and real interleavings are observed on the built binary, not proved"
	_ = math.Pi
}

// classKeys returns the keys of the lines whose class is (not) the given one.
func classKeys(ls []*batchLine, class string, invert bool) map[string]bool {
	out := map[string]bool{}
	for _, l := range ls {
		if (l.Class == class) != invert {
			out[l.Key] = true
		}
	}
	return out
}

// langtagCorrespondence: `LangTag` on the real day-length function against the model. The day
// lengths computed by hermes.CalculateDayLenght and the thresholds 14 / 16 travel as IEEE bit
// patterns read as natural numbers (order-preserving for non-negative floats), so that every
// comparison of the Go code (`DL > 14`, `DL > 16`, `DL > longest`) is reproduced exactly by the
// model. The real LangTagConverter is called in-process under a watchdog: a call that does not
// return is the violation langtag:nonterminating:… (and ends this stage, the spinning goroutine
// dies with the harness process).
func langtagCorrespondence(c *vh.Ctx) {
	var cases, impl []string
	lt := hermes.LangTagConverter(50, hermes.DateDElong)
	n := c.N(60, 600)
	fixed := []float64{49.0, 49.1, 49.2, 52.52, 60, 66, -50, -49, 45, 30, 31, 0, -20, -45, 70, 89}
	for k := 0; k < n; k++ {
		lat := vh.RoundTo(c.Rng.Uni(-70, 75), 2)
		if k < len(fixed) {
			lat = fixed[k]
		}
		var sb strings.Builder
		fmt.Fprintf(&sb, "langtag.search 365 %d %d", math.Float64bits(14), math.Float64bits(16))
		mx := 0.0
		for t := 1; t <= 365; t++ {
			dl, _, _, _, _, _, _ := hermes.CalculateDayLenght(float64(t), lat)
			if dl > mx {
				mx = dl
			}
			bits := uint64(0)
			if dl > 0 {
				bits = math.Float64bits(dl)
			}
			fmt.Fprintf(&sb, " %d", bits)
		}
		c.Eval()
		type res struct{ tag, p1, p2 int }
		ch := make(chan res, 1)
		go func() {
			tag, p1, p2 := lt(lat, "--------", 1)
			ch <- res{tag, p1, p2}
		}()
		select {
		case r := <-ch:
			// anjahr = 1: P1 = first14 + 20 + 0, P2 = first16 + 0 (longday.go:43-45)
			cases = append(cases, sb.String())
			impl = append(impl, fmt.Sprintf("%d %d %d", r.tag, r.p1-20, r.p2))
			switch {
			case mx <= 14:
				c.Count("langtag:fallback-both")
			case mx <= 16:
				c.Count("langtag:fallback-16h")
			default:
				c.Count("langtag:found")
			}
		case <-time.After(3 * time.Second):
			cls := "lat<49.1"
			if mx <= 14 {
				cls = "lat<30.9"
			}
			if mx > 16 {
				cls = "unexpected"
			}
			c.Violate("search", "langtag:nonterminating:"+cls, fmt.Sprintf("LangTagConverter(…)(%g, …) does not return (3 s; a call takes microseconds): the longest day at this latitude is %.2f h", lat, mx),
				map[string]interface{}{"latitude": lat, "max_day_length_h": mx, "how": "hermes.LangTagConverter(50, hermes.DateDElong)(lat, \"--------\", 1)"})
			k = n // the goroutine spins until the process ends: stop this stage
		}
	}
	saved := cases
	c.Correspond("langtag.search", cases, impl, 0, 0, func(i int) interface{} { return saved[i][:60] })
	// the Lean witness table of the pinned defect (day lengths at 45°, in 1/100 h rounded up) against the real function
	var sb strings.Builder
	for t := 1; t <= 365; t++ {
		dl, _, _, _, _, _, _ := hermes.CalculateDayLenght(float64(t), 45)
		if t > 1 {
			sb.WriteByte(' ')
		}
		sb.WriteString(strconv.Itoa(int(math.Ceil(dl * 100))))
	}
	c.Correspond("langtag.table45", []string{"langtag.table45"}, []string{sb.String()}, 0, 0, nil)
}
