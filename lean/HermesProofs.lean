import HermesProofs.Calendar
import HermesProofs.Partition
import HermesProofs.RatInst
import HermesProofs.Substeps
import HermesProofs.Water
