/-
C07 at harvest — what the harvest branch of `Nitro` (nitro.go:293-569), `resid` (863-948) and `pinit` (951-962)
do to the crop N, the organic pools NFOS / NAOS and the crop state.  Model: HermesModel/Harvest.lean (tied to
the Go code by the correspondence kernels `harvest.resid`, `harvest.pinit`, `harvest.step`, the last one driven
through the real `hermes.Nitro` on generated states and on the states of every harvest day of whole runs).
Exact-arithmetic statements over ℚ.

Reading.  The code never computes "N exported with the yield"; the crop record carries `Nuptake` (crop N at
harvest, incl. fixation), `Nagb` (above-ground part) and `Nresid` (above-ground residues).  The N that leaves the
field is therefore `Nagb − Nresid`; root N is `Nuptake − Nagb`.  The identities below are stated with these
record numbers and the jump of Σ(NFOS + NAOS).
-/
import HermesProofs.Harvest
import HermesModel.Rotation
namespace Hermes.Harvest

/-- jump of Σ(NFOS + NAOS) over the harvest branch -/
def poolGain (i : In ℚ) : ℚ := ((step i).nfos.sum + (step i).naos.sum) - (i.nfos.sum + i.naos.sum)

/-! ### resid -/

/-- **`resid` splits what it returns without remainder, and never returns a negative amount** (every state, every
table row): NSA + NLA = NRESID, NUSA + NULA = the root residues, NDI = 0, and the two clamps make both amounts ≥ 0. -/
theorem C07_resid_split (i : ResidIn ℚ) :
    (resid i).nsa + (resid i).nla = (resid i).nresid ∧ (resid i).nusa + (resid i).nula = (resid i).dgu ∧
    (resid i).ndi = 0 ∧ 0 ≤ (resid i).nresid ∧ 0 ≤ (resid i).dgu := by
  obtain ⟨a, b, c, d⟩ := resid_split i
  obtain ⟨e, f⟩ := resid_dg_nonneg i
  exact ⟨by rw [c]; exact a, b, d, by rw [c]; exact e, f⟩

/-- **Residues of a non-permanent crop in closed form** (`0 ≤ JN ≤ 1`, row of CROP_N.TXT in range): all root N
`PESUM·NWURA` stays; of the above-ground N the by-product share `KOSTRO·NKOPP/(NERNT + KOSTRO·NKOPP)` is residue,
and the fraction `1 − JN` of it stays.  What leaves the field, `Nagb − Nresid`, is the N of the harvested product
plus the removed residues, and is ≥ 0. -/
theorem C07_resid_annual_closed_form (i : ResidIn ℚ) (hk : i.dauerkult = false) (r : RowRange i.pesum i.row)
    (hj0 : 0 ≤ i.jn) (hj1 : i.jn ≤ 1) :
    (resid i).dgu = i.pesum * i.row.nwura ∧ (resid i).nagb + (resid i).dgu = i.pesum ∧
    (resid i).nagb - (resid i).nresid
      = i.pesum * (1 - i.row.nwura) * (i.row.nernt / (i.row.nernt + i.row.kostro * i.row.nkopp))
        + i.jn * (i.pesum * (1 - i.row.nwura) * (i.row.kostro * i.row.nkopp / (i.row.nernt + i.row.kostro * i.row.nkopp))) ∧
    0 ≤ (resid i).nagb - (resid i).nresid := by
  obtain ⟨hu, hm⟩ := resid_annual i hk r hj1
  have hres : (resid i).nresid = (resid i).dgm := rfl
  have hnagb : (resid i).nagb = i.pesum - i.pesum * i.row.nwura := rfl
  have hd : i.row.nernt + i.row.kostro * i.row.nkopp ≠ 0 := ne_of_gt r.den
  have hcl := annualDgm_closed i.jn i.pesum i.row r.den
  have key : (resid i).nagb - (resid i).nresid
      = i.pesum * (1 - i.row.nwura) * (i.row.nernt / (i.row.nernt + i.row.kostro * i.row.nkopp))
        + i.jn * (i.pesum * (1 - i.row.nwura) * (i.row.kostro * i.row.nkopp / (i.row.nernt + i.row.kostro * i.row.nkopp))) := by
    rw [hres, hm, hcl, hnagb]; field_simp; ring
  refine ⟨hu, by rw [hu, hnagb]; ring, key, ?_⟩
  rw [key]
  have h2 : 0 ≤ 1 - i.row.nwura := by linarith [r.w1]
  have h3 : 0 ≤ i.row.nernt / (i.row.nernt + i.row.kostro * i.row.nkopp) := div_nonneg r.ne0 (le_of_lt r.den)
  have h4 : 0 ≤ i.row.kostro * i.row.nkopp / (i.row.nernt + i.row.kostro * i.row.nkopp) :=
    div_nonneg (mul_nonneg r.ks0 r.nk0) (le_of_lt r.den)
  have h5 := mul_nonneg (mul_nonneg r.p0 h2) h3
  have h6 := mul_nonneg hj0 (mul_nonneg (mul_nonneg r.p0 h2) h4)
  linarith

/-- the hypotheses are satisfiable: winter wheat row of the shipped table, 37 % of the residues removed -/
def wwRow : CropNRow ℚ := { kostro := 1, nernt := 1.9, nkopp := 0.5, nwura := 0.1, nfast := 0 }
example : RowRange (180 : ℚ) wwRow := by
  constructor <;> simp [wwRow] <;> norm_num

/-- **The soil never receives more N than the crop holds** (non-permanent crop, `0 ≤ JN ≤ 1` or `JN = 2`): residues
above ground ≤ above-ground N, residues in total ≤ crop N; with `JN = 2` (whole plant stays) they are all of it. -/
theorem C07_resid_le_crop_N (i : ResidIn ℚ) (hk : i.dauerkult = false) (r : RowRange i.pesum i.row)
    (hj : (0 ≤ i.jn ∧ i.jn ≤ 1) ∨ i.jn = 2) :
    (resid i).nresid ≤ (resid i).nagb ∧ (resid i).nresid + (resid i).dgu ≤ i.pesum ∧
    (i.jn = 2 → (resid i).nresid + (resid i).dgu = i.pesum) := by
  rcases hj with ⟨hj0, hj1⟩ | hj2
  · obtain ⟨hu, hs, _, hnn⟩ := C07_resid_annual_closed_form i hk r hj0 hj1
    refine ⟨by linarith, by linarith, ?_⟩
    intro h; linarith
  · obtain ⟨hu, hm⟩ := resid_whole_plant i hj2 r.p0 r.w0 r.w1
    have hres : (resid i).nresid = (resid i).dgm := rfl
    have hnagb : (resid i).nagb = i.pesum - i.pesum * i.row.nwura := rfl
    refine ⟨by rw [hres, hm, hnagb], by rw [hres, hm, hu]; linarith, fun _ => by rw [hres, hm, hu]; ring⟩

/-- **Every row of the shipped CROP_N.TXT** (regenerated from examples/parameter on every run, read with the column
slices of `resid`) **lies in the ranges these theorems assume**: root share and fast share in [0,1], contents ≥ 0,
`NERNT + KOSTRO·NKOPP > 0`. -/
theorem C07_shipped_crop_n_rows_in_range (r : List Nat × List Nat) (hr : r ∈ Hermes.Generated.cropNRows) (p : ℚ) (hp : 0 ≤ p) :
    RowRange p (rowOfHundredths r.2) ∧ 0 ≤ (rowOfHundredths r.2 : CropNRow ℚ).nfast ∧ (rowOfHundredths r.2 : CropNRow ℚ).nfast ≤ 1 :=
  rowOk_range r.2 (List.all_eq_true.mp shippedTableOk r hr) p hp

/-! ### the pools at harvest -/

/-- **Σ(NFOS + NAOS) grows at harvest by exactly the above-ground residue N of the record plus the root residues
times the root shares of the rooted layers** (plus the two organic parts NSAS + NLAS of the dressing applied in the
skipped-crop branch of automatic sowing) — every state, every crop, every `JN`. -/
theorem C07_harvest_pool_gain (i : In ℚ) (A : Arrays i) :
    poolGain i = (step i).res.nresid + (step i).res.dgu * rootShare i + (if skipOf i then i.nsas + i.nlas else 0) := by
  obtain ⟨a, b, c, _, _, _⟩ := residOf_split i
  unfold poolGain
  rw [step_nfos, step_naos, step_res, c]
  by_cases hs : skipOf i = true
  · simp only [hs, if_true]
    rw [addTop_sum _ _ (naosAfterResidues_ne_nil i A), addTop_sum _ _ (nfosAfterResidues_ne_nil i A),
      naosAfterResidues_sum i A, nfosAfterResidues_sum i A]
    rw [← a, ← b]; ring
  · simp only [hs, if_false, Bool.false_eq_true]
    rw [naosAfterResidues_sum i A, nfosAfterResidues_sum i A]
    rw [← a, ← b]; ring

/-- **No pool becomes negative at harvest**: with a fast share in [0,1] and root shares ≥ 0 every cell of NFOS and
NAOS stays ≥ 0 — whatever the crop N, `JN`, the permanent-crop flag and the other table values are (the two clamps
of `resid`). -/
theorem C07_harvest_pools_nonneg (i : In ℚ) (hf0 : 0 ≤ i.r.row.nfast) (hf1 : i.r.row.nfast ≤ 1)
    (hw : ∀ w ∈ i.wuant, 0 ≤ w) (hs : 0 ≤ i.nsas) (hl : 0 ≤ i.nlas)
    (hnf : ∀ y ∈ i.nfos, 0 ≤ y) (hna : ∀ y ∈ i.naos, 0 ≤ y) :
    (∀ y ∈ (step i).nfos, 0 ≤ y) ∧ (∀ y ∈ (step i).naos, 0 ≤ y) := by
  obtain ⟨h1, h2, h3, h4⟩ := residOf_parts_nonneg i hf0 hf1
  have hA : ∀ y ∈ naosAfterResidues i, 0 ≤ y :=
    addRoots_nonneg _ h4 _ _ _ hw (addTop_nonneg _ h2 _ hna)
  have hF : ∀ y ∈ nfosAfterResidues i, 0 ≤ y :=
    addRoots_nonneg _ h3 _ _ _ hw (addTop_nonneg _ h1 _ hnf)
  constructor
  · rw [step_nfos]
    split
    · exact addTop_nonneg _ hs _ hF
    · exact hF
  · rw [step_naos]
    split
    · exact addTop_nonneg _ hl _ hA
    · exact hA

/-- **Every layer holds at least what it held before; layers below the rooted ones (and below the top layer) are
not touched.** -/
theorem C07_harvest_layers_only_gain (i : In ℚ) (hf0 : 0 ≤ i.r.row.nfast) (hf1 : i.r.row.nfast ≤ 1)
    (hw : ∀ w ∈ i.wuant, 0 ≤ w) (hs : 0 ≤ i.nsas) (hl : 0 ≤ i.nlas) (z : ℕ) :
    i.nfos.getD z 0 ≤ (step i).nfos.getD z 0 ∧ i.naos.getD z 0 ≤ (step i).naos.getD z 0 ∧
    (i.crop.wurz ≤ z + 1 → (step i).nfos.getD (z + 1) 0 = i.nfos.getD (z + 1) 0 ∧
                            (step i).naos.getD (z + 1) 0 = i.naos.getD (z + 1) 0) := by
  obtain ⟨h1, h2, h3, h4⟩ := residOf_parts_nonneg i hf0 hf1
  have hA : i.naos.getD z 0 ≤ (naosAfterResidues i).getD z 0 :=
    le_trans (addTop_getD_le _ h2 _ z) (addRoots_getD_le _ h4 _ _ _ z hw)
  have hF : i.nfos.getD z 0 ≤ (nfosAfterResidues i).getD z 0 :=
    le_trans (addTop_getD_le _ h1 _ z) (addRoots_getD_le _ h3 _ _ _ z hw)
  refine ⟨?_, ?_, ?_⟩
  · rw [step_nfos]
    split
    · exact le_trans hF (addTop_getD_le _ hs _ z)
    · exact hF
  · rw [step_naos]
    split
    · exact le_trans hA (addTop_getD_le _ hl _ z)
    · exact hA
  · intro hz
    have hB : (naosAfterResidues i).getD (z + 1) 0 = i.naos.getD (z + 1) 0 := by
      unfold naosAfterResidues
      rw [addRoots_getD_ge _ _ _ _ _ hz, addTop_getD_succ]
    have hG : (nfosAfterResidues i).getD (z + 1) 0 = i.nfos.getD (z + 1) 0 := by
      unfold nfosAfterResidues
      rw [addRoots_getD_ge _ _ _ _ _ hz, addTop_getD_succ]
    constructor
    · rw [step_nfos]
      split
      · rw [addTop_getD_succ]; exact hG
      · exact hG
    · rw [step_naos]
      split
      · rw [addTop_getD_succ]; exact hB
      · exact hB

/-! ### N conservation at harvest -/

/-- the harvested entry is a regular one: not the pre-crop of the start date, no skipped-crop branch -/
def Regular (i : In ℚ) : Prop := i.first = false ∧ skipOf i = false

/-- **The identity the code satisfies at the harvest of a non-permanent crop** (`0 ≤ JN ≤ 1`, table row in range):
the crop N of the record equals  the N that leaves the field (`Nagb − Nresid` ≥ 0)  +  the jump of Σ(NFOS + NAOS)
+  the residual `(Nuptake − Nagb)·(1 − Σ WUANT[0..WURZ))` — the part of the root N for which the root shares
of the rooted layers do not account. -/
theorem C07_harvest_crop_N_balance (i : In ℚ) (A : Arrays i) (reg : Regular i) (hk : i.r.dauerkult = false)
    (r : RowRange i.r.pesum i.r.row) (hj0 : 0 ≤ i.r.jn) (hj1 : i.r.jn ≤ 1) :
    (step i).recv.nuptake
      = ((step i).recv.nagb - (step i).recv.nresid) + poolGain i
        + ((step i).recv.nuptake - (step i).recv.nagb) * (1 - rootShare i) ∧
    0 ≤ (step i).recv.nagb - (step i).recv.nresid := by
  obtain ⟨hu, hs, _, hnn⟩ := C07_resid_annual_closed_form i.r hk r hj0 hj1
  have hres : residOf i = resid i.r := by unfold residOf; rw [reg.1]; rfl
  rw [C07_harvest_pool_gain i A, step_recv_noskip i reg.2, step_res, hres]
  simp only [reg.2, Bool.false_eq_true, if_false]
  refine ⟨?_, hnn⟩
  have hres' : (resid i.r).nresid = (resid i.r).dgm := rfl
  rw [← hs]; ring

/-- **N conservation at harvest (partial)**: when the root shares of the rooted layers sum to one, crop N =
N leaving the field + N added to the organic pools. The hypothesis on the shares cannot be dropped
(`C07_harvest_root_N_lost_fails_at`) and does not hold for the shares `PhytoOut` computes
(Σ = 1 − exp(−Qrez·WURZ·DZ) < 1). -/
theorem C07_harvest_conservation_partial (i : In ℚ) (A : Arrays i) (reg : Regular i) (hk : i.r.dauerkult = false)
    (r : RowRange i.r.pesum i.r.row) (hj0 : 0 ≤ i.r.jn) (hj1 : i.r.jn ≤ 1) (hsum : rootShare i = 1) :
    (step i).recv.nuptake = ((step i).recv.nagb - (step i).recv.nresid) + poolGain i := by
  have h := (C07_harvest_crop_N_balance i A reg hk r hj0 hj1).1
  rw [hsum] at h
  linarith

/-- **`JN = 2` (whole plant stays)**: the pools gain all of the crop N except the root-share gap. -/
theorem C07_harvest_whole_plant (i : In ℚ) (A : Arrays i) (reg : Regular i) (hj : i.r.jn = 2)
    (hp : 0 ≤ i.r.pesum) (w0 : 0 ≤ i.r.row.nwura) (w1 : i.r.row.nwura ≤ 1) :
    poolGain i = i.r.pesum - i.r.pesum * i.r.row.nwura * (1 - rootShare i) := by
  obtain ⟨hu, hm⟩ := resid_whole_plant i.r hj hp w0 w1
  have hres : residOf i = resid i.r := by unfold residOf; rw [reg.1]; rfl
  rw [C07_harvest_pool_gain i A, step_res, hres]
  simp only [reg.2, Bool.false_eq_true, if_false]
  have : (resid i.r).nresid = (resid i.r).dgm := rfl
  rw [this, hm, hu]; ring

/-- a harvest of winter wheat: crop N 200, all residues removed, one rooted layer with root share 0.9 -/
def lossWitness : In ℚ :=
  { first := false,
    r := { dauerkult := false, isAA := false, jn := 1, pesum := 200, obmas := 9000, gehob := 0.02, row := wwRow },
    nagbOld := 0, wuant := 0.9 :: List.replicate 19 0, nfos := List.replicate 21 10, naos := List.replicate 21 100,
    dsumm := 0, yorgan := 4, yifak := 0.85, wugeh := 0.01,
    crop := { pesum := 200, obmas := 9000, wumas := 2000, lai := 3, wurz := 1, worg := [2000, 1000, 3000, 5000, 0], standing := true },
    naltos := 3000, nakt := 0.13, domeng1 := 0, windowPassed := false, automan := false, orgH := false,
    nsas := 0, nlas := 0, ndir := 0, nextPerennialCode := false }

example : Arrays lossWitness ∧ Regular lossWitness ∧ RowRange lossWitness.r.pesum lossWitness.r.row := by
  refine ⟨⟨by simp [lossWitness], by simp [lossWitness], by simp [lossWitness]⟩, ⟨rfl, rfl⟩, ?_⟩
  constructor <;> simp [lossWitness, wwRow] <;> norm_num

/-- the hypothesis `rootShare = 1` of `C07_harvest_conservation_partial` is satisfiable -/
example : rootShare { lossWitness with wuant := 1 :: List.replicate 19 0 } = 1 := by
  simp [rootShare, lossWitness]

/-- **N is lost at harvest when the root shares do not sum to one**: here the crop holds 200 kg N/ha, 180 leave
the field, 20 are root N, the pools gain 18 — 2 kg N/ha reach neither a pool nor the record, and the crop N is
reset to 0. (Replayed on the real `Nitro`: signature `harvest:root-residue-N-lost:root-shares-sum-below-1`.) -/
theorem C07_harvest_root_N_lost_fails_at :
    (step lossWitness).recv.nuptake = 200 ∧ (step lossWitness).recv.nagb - (step lossWitness).recv.nresid = 180 ∧
    poolGain lossWitness = 18 ∧ (step lossWitness).crop.pesum = 0 ∧
    ¬ ((step lossWitness).recv.nuptake
        = ((step lossWitness).recv.nagb - (step lossWitness).recv.nresid) + poolGain lossWitness) := by
  have A : Arrays lossWitness := ⟨by simp [lossWitness], by simp [lossWitness], by simp [lossWitness]⟩
  have hg : poolGain lossWitness = 18 := by
    rw [C07_harvest_pool_gain lossWitness A]
    simp [step, residOf, resid, rawDg, skipOf, rootShare, lossWitness, wwRow, isEq, clamp0]
    norm_num
  have hr : (step lossWitness).recv.nuptake = 200 ∧ (step lossWitness).recv.nagb - (step lossWitness).recv.nresid = 180 := by
    rw [step_recv_noskip lossWitness rfl]
    simp [residOf, resid, rawDg, lossWitness, wwRow, isEq, clamp0]
    norm_num
  have hp : (step lossWitness).crop.pesum = 0 := by
    rw [step_crop]; simp [finalReset, lossWitness]
  refine ⟨hr.1, hr.2, hg, hp, ?_⟩
  rw [hr.1, hr.2, hg]; norm_num

/-! ### crop state after the harvest -/

/-- **After the harvest of a non-permanent crop the crop state is cleared**: crop N, above-ground and root mass,
root depth, every organ mass and the development stage — the next crop's uptake starts from 0. -/
theorem C07_harvest_resets_annual (i : In ℚ) (hk : i.r.dauerkult = false) :
    (step i).crop.pesum = 0 ∧ (step i).crop.obmas = 0 ∧ (step i).crop.wumas = 0 ∧ (step i).crop.wurz = 0 ∧
    (step i).crop.standing = false ∧ (∀ x ∈ (step i).crop.worg, x = 0) := by
  rw [step_crop, hk]
  simp only [afterCut, pinit, Bool.false_and, Bool.false_eq_true, if_false]
  unfold finalReset
  split <;> simp

/-- **The same holds whenever the next rotation entry is not grass / alfalfa**, also after a permanent crop;
the leaf area is cleared as well. -/
theorem C07_harvest_resets_before_other_crop (i : In ℚ) (hn : i.nextPerennialCode = false) :
    (step i).crop.pesum = 0 ∧ (step i).crop.obmas = 0 ∧ (step i).crop.wumas = 0 ∧ (step i).crop.wurz = 0 ∧
    (step i).crop.lai = 0 ∧ (step i).crop.standing = false := by
  rw [step_crop, hn]
  simp [finalReset]

/-- **A cut permanent crop followed by grass / alfalfa keeps crop N**: the part `1 − YIFAK` of the N above the
root N, but at least the floor `820·GEHOB + WORG[0]·WUGEH`. -/
theorem C07_harvest_perennial_keeps (i : In ℚ) (hk : i.r.dauerkult = true) (hn : i.nextPerennialCode = true)
    (hj : i.r.jn = 0 ∨ i.r.jn = 1) :
    (step i).crop.pesum
      = fmax ((i.r.pesum - ((residOf i).nsa + (residOf i).nla + (residOf i).ndi) - i.crop.worg.getD 0 0 * i.wugeh) * (1 - i.yifak))
             (820 * i.r.gehob + i.crop.worg.getD 0 0 * i.wugeh) ∧
    820 * i.r.gehob + i.crop.worg.getD 0 0 * i.wugeh ≤ (step i).crop.pesum := by
  have hjb : (isEq i.r.jn 0 || isEq i.r.jn 1) = true := by
    rcases hj with h | h
    · rw [(isEq_iff _ _).mpr h]; rfl
    · rw [(isEq_iff _ _).mpr h]; simp
  have e : (step i).crop.pesum
      = fmax ((i.r.pesum - ((residOf i).nsa + (residOf i).nla + (residOf i).ndi) - i.crop.worg.getD 0 0 * i.wugeh) * (1 - i.yifak))
             (820 * i.r.gehob + i.crop.worg.getD 0 0 * i.wugeh) := by
    rw [step_crop, hk, hn]
    simp only [afterCut, pinit, finalReset, hjb, Bool.and_self, if_true]
  exact ⟨e, by rw [e]; exact fmax_ge_right _ _⟩

/-- **No N is created at the cut of a permanent crop (partial)**: when, after the above-ground residues, the crop
still holds the floor `820·GEHOB + WORG[0]·WUGEH` plus the root residues handed to the pools, the yield fraction is
≥ 0 and the root residues do not exceed the root N, then crop N afterwards + jump of the pools ≤ crop N before.
The first hypothesis cannot be dropped (`C07_harvest_perennial_floor_creates_N_fails_at`): the floor is applied
whatever the crop holds. -/
theorem C07_harvest_perennial_no_creation_partial (i : In ℚ) (A : Arrays i) (reg : Regular i)
    (hk : i.r.dauerkult = true) (hn : i.nextPerennialCode = true) (hj : i.r.jn = 0 ∨ i.r.jn = 1)
    (hfloor : 820 * i.r.gehob + i.crop.worg.getD 0 0 * i.wugeh + (residOf i).dgu * rootShare i
        ≤ i.r.pesum - (residOf i).nresid)
    (hroot : i.crop.worg.getD 0 0 * i.wugeh ≤ i.r.pesum - (residOf i).nresid)
    (hy0 : 0 ≤ i.yifak)
    (hdead : (residOf i).dgu * rootShare i ≤ i.crop.worg.getD 0 0 * i.wugeh) :
    (step i).crop.pesum + poolGain i ≤ i.r.pesum := by
  obtain ⟨a, b, c, d, _, _⟩ := residOf_split i
  obtain ⟨e, _⟩ := C07_harvest_perennial_keeps i hk hn hj
  have hsum : (residOf i).nsa + (residOf i).nla + (residOf i).ndi = (residOf i).nresid := by rw [d, c]; linarith
  rw [e, hsum, C07_harvest_pool_gain i A, step_res]
  simp only [reg.2, Bool.false_eq_true, if_false]
  have h1 : 0 ≤ i.r.pesum - (residOf i).nresid - i.crop.worg.getD 0 0 * i.wugeh := by linarith
  have h2 : (i.r.pesum - (residOf i).nresid - i.crop.worg.getD 0 0 * i.wugeh) * (1 - i.yifak)
      ≤ i.r.pesum - (residOf i).nresid - i.crop.worg.getD 0 0 * i.wugeh := by nlinarith
  by_cases hlt : (i.r.pesum - (residOf i).nresid - i.crop.worg.getD 0 0 * i.wugeh) * (1 - i.yifak)
      < 820 * i.r.gehob + i.crop.worg.getD 0 0 * i.wugeh
  · rw [fmax_of_lt hlt]; linarith
  · rw [fmax_of_le (not_lt.mp hlt)]; linarith

/-- the hypotheses are satisfiable: a dense grass sward (5000 kg/ha, crop N 140) cut with all residues removed -/
def denseSward : In ℚ :=
  { first := false,
    r := { dauerkult := true, isAA := false, jn := 1, pesum := 140, obmas := 5000, gehob := 0.025,
           row := { kostro := 0, nernt := 0.45, nkopp := 0, nwura := 0.1, nfast := 0 } },
    nagbOld := 0, wuant := 0.6 :: 0.3 :: List.replicate 18 0, nfos := List.replicate 21 10, naos := List.replicate 21 100,
    dsumm := 0, yorgan := 0, yifak := 0.8, wugeh := 0.01,
    crop := { pesum := 140, obmas := 5000, wumas := 1500, lai := 4, wurz := 2, worg := [1500, 3000, 2000, 0, 0], standing := true },
    naltos := 3000, nakt := 0.13, domeng1 := 0, windowPassed := false, automan := false, orgH := false,
    nsas := 0, nlas := 0, ndir := 0, nextPerennialCode := true }

example : Arrays denseSward ∧ Regular denseSward ∧
    820 * denseSward.r.gehob + denseSward.crop.worg.getD 0 0 * denseSward.wugeh + (residOf denseSward).dgu * rootShare denseSward
      ≤ denseSward.r.pesum - (residOf denseSward).nresid ∧
    denseSward.crop.worg.getD 0 0 * denseSward.wugeh ≤ denseSward.r.pesum - (residOf denseSward).nresid ∧
    (residOf denseSward).dgu * rootShare denseSward ≤ denseSward.crop.worg.getD 0 0 * denseSward.wugeh := by
  refine ⟨⟨by simp [denseSward], by simp [denseSward], by simp [denseSward]⟩, ⟨rfl, rfl⟩, ?_, ?_, ?_⟩ <;>
    simp [residOf, resid, rawDg, rootShare, denseSward, isEq, clamp0] <;> norm_num

/-- a thin grass sward (400 kg/ha above ground, crop N 10) cut with all residues removed, grass again afterwards -/
def floorWitness : In ℚ :=
  { first := false,
    r := { dauerkult := true, isAA := false, jn := 1, pesum := 10, obmas := 400, gehob := 0.02,
           row := { kostro := 0, nernt := 0.45, nkopp := 0, nwura := 0.1, nfast := 0 } },
    nagbOld := 0, wuant := 0.6 :: 0.3 :: List.replicate 18 0, nfos := List.replicate 21 10, naos := List.replicate 21 100,
    dsumm := 0, yorgan := 0, yifak := 0.8, wugeh := 0.01,
    crop := { pesum := 10, obmas := 400, wumas := 200, lai := 1, wurz := 2, worg := [200, 300, 100, 0, 0], standing := true },
    naltos := 3000, nakt := 0.13, domeng1 := 0, windowPassed := false, automan := false, orgH := false,
    nsas := 0, nlas := 0, ndir := 0, nextPerennialCode := true }

/-- **The N floor of a cut permanent crop creates N**: 10 kg N/ha before the cut, 0.18 go to the pools, the crop
holds 18.4 afterwards. (Replayed on the real `Nitro`: signature `harvest:permanent-crop:floor-creates-crop-N`.) -/
theorem C07_harvest_perennial_floor_creates_N_fails_at :
    poolGain floorWitness = 0.18 ∧ (step floorWitness).crop.pesum = 18.4 ∧
    ¬ ((step floorWitness).crop.pesum + poolGain floorWitness ≤ floorWitness.r.pesum) := by
  have A : Arrays floorWitness := ⟨by simp [floorWitness], by simp [floorWitness], by simp [floorWitness]⟩
  have hg : poolGain floorWitness = 0.18 := by
    rw [C07_harvest_pool_gain floorWitness A]
    simp [step, residOf, resid, rawDg, skipOf, rootShare, floorWitness, isEq, clamp0]
    norm_num
  have hp : (step floorWitness).crop.pesum = 18.4 := by
    rw [(C07_harvest_perennial_keeps floorWitness rfl rfl (Or.inr rfl)).1]
    simp [residOf, resid, rawDg, floorWitness, isEq, clamp0, fmax]
    norm_num
  refine ⟨hg, hp, ?_⟩
  rw [hg, hp]; simp [floorWitness]; norm_num

/-! ### the crop record -/

/-- **The N fields of the crop record are non-negative** for crop N ≥ 0 and a root share of the crop N ≤ 1 (above-ground residues by the clamp of `resid`). -/
theorem C07_harvest_record_nonneg (i : In ℚ) (reg : Regular i) (hp : 0 ≤ i.r.pesum)
    (w1 : i.r.row.nwura ≤ 1) :
    0 ≤ (step i).recv.nuptake ∧ 0 ≤ (step i).recv.nagb ∧ 0 ≤ (step i).recv.nresid ∧ (step i).recv.nuptake = i.r.pesum ∧
    (step i).recv.nresid = (step i).res.nresid := by
  have hres : residOf i = resid i.r := by unfold residOf; rw [reg.1]; rfl
  rw [step_recv_noskip i reg.2, step_res, hres]
  refine ⟨hp, ?_, (resid_dg_nonneg i.r).1, rfl, rfl⟩
  show 0 ≤ i.r.pesum - i.r.pesum * i.r.row.nwura
  nlinarith

/-! ### the skipped-crop branch of automatic sowing -/

/-- **The skipped-crop branch applies what it books**: the SKIPPED record carries `OrgN = NSAS + NLAS + NDIR` of the
harvested entry, and all three parts reach their pool — NSAS the top cell of NFOS, NLAS the top cell of NAOS, NDIR
the fertiliser sum DSUMM — so that OrgN = (jump of Σ(NFOS + NAOS) beyond the crop residues) + ΔDSUMM; the rotation
index advances by two and one (SKIPPED) record is written. -/
theorem C07_harvest_skipped_books (i : In ℚ) (A : Arrays i) (hs : skipOf i = true) :
    (step i).recv.orgN = i.nsas + i.nlas + i.ndir ∧
    (step i).nfos.getD 0 0 = (nfosAfterResidues i).getD 0 0 + i.nsas ∧
    (step i).naos.getD 0 0 = (naosAfterResidues i).getD 0 0 + i.nlas ∧
    (step i).dsumm = i.dsumm + i.ndir ∧
    (step i).recv.orgN
      = (poolGain i - ((step i).res.nresid + (step i).res.dgu * rootShare i)) + ((step i).dsumm - i.dsumm) ∧
    (step i).akfInc = 2 ∧ (step i).record = true ∧ (step i).recv.nuptake = 0 := by
  obtain ⟨_, _, _, d, _, _⟩ := residOf_split i
  have hg := C07_harvest_pool_gain i A
  have hd : (step i).dsumm = i.dsumm + i.ndir := by rw [step_dsumm, hs, d]; simp
  have ho : (step i).recv.orgN = i.nsas + i.nlas + i.ndir := by rw [step_recv_skip i hs]
  refine ⟨ho, ?_, ?_, hd, ?_, ?_, ?_, ?_⟩
  · rw [step_nfos, hs]; simp only [if_true]
    exact addTop_getD_zero _ _ (nfosAfterResidues_ne_nil i A)
  · rw [step_naos, hs]; simp only [if_true]
    exact addTop_getD_zero _ _ (naosAfterResidues_ne_nil i A)
  · rw [ho, hg, hd, hs]; simp only [if_true]; ring
  · rw [step_akfInc, hs]; rfl
  · rw [step_record, hs]; rfl
  · rw [step_recv_skip i hs]

/-- harvest with automatic sowing, the window of the next entry has passed, slurry after harvest configured -/
def skipWitness : In ℚ :=
  { lossWitness with
    r := { lossWitness.r with pesum := 0, obmas := 0 },
    crop := { lossWitness.crop with pesum := 0, obmas := 0 },
    windowPassed := true, automan := true, orgH := true, nsas := 30, nlas := 50, ndir := 20 }

/-- regression (former witness of the defect repaired by the fix "skipped-crop branch adds the fast organic N of the
dressing to NFOS", signature `harvest:skipped-crop:fast-manure-N-recorded-not-applied`): the record reports 100 kg N/ha
of organic fertiliser, the pools gain 80 (NSAS 30 into NFOS, NLAS 50 into NAOS), DSUMM 20. Before the fix the pools
gained 50 and 30 kg N/ha reached no pool. -/
example :
    Arrays skipWitness ∧ skipOf skipWitness = true ∧
    (step skipWitness).recv.orgN = 100 ∧ poolGain skipWitness = 80 ∧ (step skipWitness).dsumm - skipWitness.dsumm = 20 ∧
    (step skipWitness).recv.orgN = poolGain skipWitness + ((step skipWitness).dsumm - skipWitness.dsumm) := by
  have A : Arrays skipWitness := ⟨by simp [skipWitness, lossWitness], by simp [skipWitness, lossWitness], by simp [skipWitness, lossWitness]⟩
  have hs : skipOf skipWitness = true := rfl
  obtain ⟨h1, _, _, h2, _⟩ := C07_harvest_skipped_books skipWitness A hs
  have hg : poolGain skipWitness = 80 := by
    rw [C07_harvest_pool_gain skipWitness A]
    simp [step, residOf, resid, rawDg, skipOf, rootShare, skipWitness, lossWitness, wwRow, isEq, clamp0]
    norm_num
  have ho : (step skipWitness).recv.orgN = 100 := by rw [h1]; simp [skipWitness]; norm_num
  have hd : (step skipWitness).dsumm - skipWitness.dsumm = 20 := by rw [h2]; simp [skipWitness]
  refine ⟨A, hs, ho, hg, hd, ?_⟩
  rw [ho, hg, hd]; norm_num

/-! ### tie to the rotation model, pinit -/

/-- **The rotation index moves as in the rotation model** (`Rotation.harvest`, C16): by two in the skipped-crop
branch, by one otherwise, and a record is written unless the entry is the pre-crop of the start date. -/
theorem C07_harvest_akf_as_rotation (i : In ℚ) (c : Rotation.Cfg) (zeit : ℕ) (s : Rotation.St)
    (hz : zeit = s.ernte s.akf) (hc : c.automan = i.automan)
    (hw : decide (s.saat2 (s.akf + 1) ≤ zeit) = i.windowPassed) (hf : i.first = decide (s.akf = 0)) :
    (Rotation.harvest c zeit i.orgH s).akf = s.akf + (step i).akfInc ∧
    ((step i).record = true ↔ (Rotation.harvest c zeit i.orgH s).records.length = s.records.length + 1) := by
  rw [step_akfInc, step_record]
  unfold Rotation.harvest skipOf
  rw [if_pos hz, hw, hc, hf]
  by_cases hsk : (i.windowPassed && i.automan && i.orgH) = true
  · simp [hsk]
  · have hsk' : (i.windowPassed && i.automan && i.orgH) = false := by simpa using hsk
    simp only [hsk', Bool.false_eq_true, if_false, Bool.false_or]
    by_cases h0 : s.akf = 0
    · simp [h0]
    · have : 1 ≤ s.akf := Nat.one_le_iff_ne_zero.mpr h0
      simp [h0, this]

/-- **`pinit` clears the state of a non-permanent crop and leaves a permanent crop alone.** -/
theorem C07_pinit_resets (dauerkult : Bool) (s : CropSt ℚ) :
    (dauerkult = false → (pinit dauerkult s).pesum = 0 ∧ (pinit dauerkult s).obmas = 0 ∧ (pinit dauerkult s).wumas = 0 ∧
        (pinit dauerkult s).wurz = 0 ∧ (pinit dauerkult s).standing = false) ∧
    (dauerkult = true → pinit dauerkult s = s) := by
  constructor
  · intro h; subst h; simp [pinit]
  · intro h; subst h; simp [pinit]

end Hermes.Harvest
