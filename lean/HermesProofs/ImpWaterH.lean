/-
Refinement of the regenerated translation of `hermes.Water` — part H: the new water contents and the accumulators (top10-top18),
and the composition of all stages: `run` refines the model's `step`.
-/
import HermesProofs.ImpWaterG

namespace Hermes.ImpWater
open Hermes.Imp Hermes.Water
open Hermes.ImpSoiltemp (vw vw_length vw_getElem rd_wr_nat getD_of_lt vw_getD)
open Hermes.Generated.Imp.Water

/-- the fields the last loop and the accumulator statements leave alone or update in a fixed way -/
def core (u : St ℚ) :=
  (u.g_Q1, u.g_TP, u.l_EV, u.g_QDRAIN, u.g_N, u.g_DZ_Num, u.v_WATER_1, u.g_SICKER, u.g_CAPSUM, u.g_DRAISUM, u.g_INFILT,
    u.g_FLUSS0, u.g_OUTN, u.l_GWAUF, u.p_wdt)

theorem loop11_core (m : MathFns ℚ) (i : Int) (u : St ℚ) :
    core (loop11 m i u) = core u ∧ (loop11 m i u).g_WG_1 = wr u.g_WG_1 (i - 1) (rd u.v_WATER_1 (i - 1) / u.g_DZ_Num) := by
  unfold loop11
  simp only []
  split_ifs <;> exact ⟨rfl, rfl⟩

/-- **Stage 5a** (top10): the new water contents -/
theorem stage5a (m : MathFns ℚ) (t : St ℚ) (N : Nat) (hN : t.g_N = (N : Int)) (lG : N ≤ t.g_WG_1.length) :
    core (top10 m t) = core t ∧ (top10 m t).g_WG_1.length = t.g_WG_1.length ∧
      (∀ j : Nat, rd (top10 m t).g_WG_1 (j : Int) = if j < N then rd t.v_WATER_1 (j : Int) / t.g_DZ_Num else rd t.g_WG_1 (j : Int)) := by
  have hl : top10 m t = loopUp noBrk 1 ((N : Int) + 1) (loop11 m) t := by
    simp only [top10]; rw [hN]
  have hcnt : (((N : Int) + 1) - 1).toNat = N := by omega
  have key := loopUp_noBrk_ind (loop11 m)
    (fun k u => core u = core t ∧ u.g_WG_1.length = t.g_WG_1.length ∧
      (∀ j : Nat, rd u.g_WG_1 (j : Int) = if j < k then rd t.v_WATER_1 (j : Int) / t.g_DZ_Num else rd t.g_WG_1 (j : Int)))
    1 ((N : Int) + 1) t ⟨rfl, rfl, by intro j; simp⟩
    (by
      intro k hk u ⟨hc, hlen, p⟩
      rw [hcnt] at hk
      obtain ⟨c1, c2⟩ := loop11_core m (1 + (k : Int)) u
      have e1 : (1 : Int) + (k : Int) - 1 = (k : Int) := by ring
      rw [e1] at c2
      have hW1 : u.v_WATER_1 = t.v_WATER_1 := by
        have := congrArg (fun x => x.2.2.2.2.2.2.1) hc; exact this
      have hDZ : u.g_DZ_Num = t.g_DZ_Num := by
        have := congrArg (fun x => x.2.2.2.2.2.1) hc; exact this
      refine ⟨c1.trans hc, by rw [c2]; simp [hlen], ?_⟩
      intro j
      rw [c2, rd_wr_nat _ k j _ (by omega), p j, hW1, hDZ]
      by_cases hj : k = j
      · subst hj; simp
      · simp only [hj, if_false]
        by_cases hj2 : j < k
        · have : j < k + 1 := by omega
          simp [hj2, this]
        · have : ¬ j < k + 1 := by omega
          simp [hj2, this])
  rw [hcnt] at key
  rw [hl]
  exact key

/-- **Stage 5b** (top11-top18): the accumulators -/
theorem stage5b (m : MathFns ℚ) (u : St ℚ) :
    let u' := top18 m (top17 m (top16 m (top15 m (top14 m (top13 m (top12 m (top11 m u)))))))
    u'.g_WG_1 = wr u.g_WG_1 u.g_N (rd u.g_WG_1 (u.g_N - 1)) ∧ u'.g_TP = u.g_TP ∧ u'.l_EV = u.l_EV ∧ u'.g_Q1 = u.g_Q1 ∧
      u'.g_QDRAIN = u.g_QDRAIN ∧ u'.g_DRAISUM = u.g_DRAISUM + u.g_QDRAIN * 10 ∧
      u'.g_SICKER = (if 0 < rd u.g_Q1 u.g_OUTN then u.g_SICKER + rd u.g_Q1 u.g_OUTN * 10 else u.g_SICKER) ∧
      u'.g_CAPSUM = (if 0 < rd u.g_Q1 u.g_OUTN then u.g_CAPSUM else u.g_CAPSUM + rd u.g_Q1 u.g_OUTN * 10) - u.l_GWAUF * 10 * u.p_wdt ∧
      u'.g_INFILT = (if 0 < u.g_FLUSS0 then u.g_INFILT + u.g_FLUSS0 * u.p_wdt else u.g_INFILT) := by
  have h0 : (0.0 : ℚ) = 0 := by norm_num
  have h10 : (10.0 : ℚ) = 10 := by norm_num
  by_cases c1 : rd u.g_SAAT u.g_AKF_Index < u.p_zeit <;> by_cases c2 : 0 < rd u.g_Q1 u.g_OUTN <;> by_cases c3 : 0 < u.g_FLUSS0 <;>
    simp only [top11, top12, top13, top14, top15, top16, top17, top18, h0, h10, c1, c2, c3, ↓reduceIte] <;>
    exact ⟨trivial, trivial, trivial, trivial, trivial, trivial, trivial, trivial, trivial⟩


theorem vw_succ_cons (Q : List ℚ) (N : Nat) : vw Q (N + 1) = rd Q 0 :: qsOf Q N := by
  apply List.ext_getElem
  · simp
  · intro j h1 h2
    rw [vw_getElem]
    cases j with
    | zero => simp
    | succ j => simp [qsOf]

theorem core_fields {u t : St ℚ} (h : core u = core t) :
    u.g_Q1 = t.g_Q1 ∧ u.g_TP = t.g_TP ∧ u.l_EV = t.l_EV ∧ u.g_QDRAIN = t.g_QDRAIN ∧ u.g_N = t.g_N ∧ u.g_DZ_Num = t.g_DZ_Num ∧
      u.v_WATER_1 = t.v_WATER_1 ∧ u.g_SICKER = t.g_SICKER ∧ u.g_CAPSUM = t.g_CAPSUM ∧ u.g_DRAISUM = t.g_DRAISUM ∧
      u.g_INFILT = t.g_INFILT ∧ u.g_FLUSS0 = t.g_FLUSS0 ∧ u.g_OUTN = t.g_OUTN ∧ u.l_GWAUF = t.l_GWAUF ∧ u.p_wdt = t.p_wdt := by
  simp only [core, Prod.mk.injEq] at h
  exact h

/-- **Refinement.**  For every state with 1 ≤ N ≤ 20 layers (arrays long enough, leaching depth inside the profile) and `math`
functions that behave like Go's on the few calls `Water` makes (`MathOK`), the translation of the current source of `Water`
leaves in `WG[1]`, `TP`, `EV`, `Q1`, `QDRAIN` and the accumulators exactly what the model's `step` computes from the inputs the
source reads. -/
theorem water_refines (m : MathFns ℚ) (hm : MathOK m) (s : St ℚ) (N : Nat) (h : Pre s N) :
    vw (Generated.Imp.Water.run m s).g_WG_1 N = (step (inOf s N)).wg1 ∧
    vw (Generated.Imp.Water.run m s).g_TP N = (step (inOf s N)).tp ∧
    vw (Generated.Imp.Water.run m s).l_EV N = (step (inOf s N)).ev ∧
    rd (Generated.Imp.Water.run m s).l_EV (N : Int) = (step (inOf s N)).evTail ∧
    vw (Generated.Imp.Water.run m s).g_Q1 (N + 1) = (step (inOf s N)).q1 ∧
    (Generated.Imp.Water.run m s).g_QDRAIN = (step (inOf s N)).qdrain ∧
    (Generated.Imp.Water.run m s).g_DRAISUM = s.g_DRAISUM + (step (inOf s N)).dDraisum ∧
    (Generated.Imp.Water.run m s).g_SICKER = s.g_SICKER + (step (inOf s N)).dSicker ∧
    (Generated.Imp.Water.run m s).g_CAPSUM = s.g_CAPSUM + (step (inOf s N)).dCapsum ∧
    (Generated.Imp.Water.run m s).g_INFILT = s.g_INFILT + (step (inOf s N)).dInfilt := by
  have hP := h
  obtain ⟨hN, hpos, h20, lWG0, lWG1, lTP, lQ, lEV, lLIM, ho0, hoN⟩ := h
  -- stage 1
  obtain ⟨TP, W0, G, e1, lTP', lW0', lG', hu1, hu2, hTPhi⟩ := stage1 m s N hP
  have hst1 : ∃ s1 : St ℚ, s1 = { s with brk := false, v_WATER_0 := W0, v_WATER_1 := List.replicate 21 0, g_TP := TP, g_WG_0 := G, g_QDRAIN := 0 } := ⟨_, rfl⟩
  obtain ⟨s1, hs1⟩ := hst1
  rw [← hs1] at e1
  -- stage 2
  obtain ⟨A2, Q2, E2, L2, qd2, a2, a12, wl2, e2, lA2, lQ2, lE2, lL2, hwa1, hA2N, hq0, hqs, hqd, hev, hevT⟩ :=
    stage2 m hm s1 N (by rw [hs1]; exact hN) hpos (by rw [hs1]) (by rw [hs1])
      (by rw [hs1]; simp; omega) (by rw [hs1]; exact lQ) (by rw [hs1]; exact lEV) (by rw [hs1]; exact lLIM)
  have hst2 : ∃ s2 : St ℚ, s2 = { s1 with v_WATER_1 := A2, g_Q1 := Q2, l_EV := E2, l_LIMIT := L2, g_QDRAIN := qd2, v_a := a2, v_a1 := a12, v_wlost := wl2, brk := false } := ⟨_, rfl⟩
  obtain ⟨s2, hs2⟩ := hst2
  rw [← hs2] at e2
  -- stage 3
  obtain ⟨A3, Q3, e3, lA3, lQ3, hA3, hQ3, hA3N, hQ30⟩ := stage3 m s2 N (by rw [hs2, hs1]; exact hN)
    (by rw [hs2]; simp only []; rw [lA2, hs1]; simp; omega) (by rw [hs2]; simp only []; rw [lQ2, hs1]; exact lQ)
  have hst3 : ∃ s3 : St ℚ, s3 = { s2 with v_WATER_1 := A3, g_Q1 := Q3 } := ⟨_, rfl⟩
  obtain ⟨s3, hs3⟩ := hst3
  rw [← hs3] at e3
  -- stage 4
  obtain ⟨A4, Q4, cl4, gd4, gi4, e4, lA4, lQ4, hcap, hA4N, hQ40⟩ := stage4 m hm s3 N (by rw [hs3, hs2, hs1]; exact hN) hpos
    (by rw [hs3]; simp only []; rw [lA3, hs2]; simp only []; rw [lA2, hs1]; simp; omega)
    (by rw [hs3]; simp only []; rw [lQ3, hs2]; simp only []; rw [lQ2, hs1]; exact lQ)
  have hst4 : ∃ s4 : St ℚ, s4 = { s3 with v_caplay := cl4, v_capdep := 1, v_GWDIST := gd4, v_GWDISTindex := gi4, v_WATER_1 := A4, g_Q1 := Q4 } := ⟨_, rfl⟩
  obtain ⟨s4, hs4⟩ := hst4
  rw [← hs4] at e4
  -- stage 5
  obtain ⟨hc5, lG5, pG5⟩ := stage5a m s4 N (by rw [hs4, hs3, hs2, hs1]; exact hN)
    (by rw [hs4, hs3, hs2, hs1]; simp only []; omega)
  obtain ⟨c_Q1, c_TP, c_EV, c_QD, c_N, c_DZ, c_W1, c_SI, c_CA, c_DR, c_IN, c_FL, c_OU, c_GW, c_WD⟩ := core_fields hc5
  have h5b := stage5b m (top10 m s4)
  simp only [] at h5b
  obtain ⟨b_WG, b_TP, b_EV, b_Q1, b_QD, b_DR, b_SI, b_CA, b_IN⟩ := h5b
  -- the run as the composition of its top-level statements
  have hrun : Generated.Imp.Water.run m s
      = top18 m (top17 m (top16 m (top15 m (top14 m (top13 m (top12 m (top11 m (top10 m s4)))))))) := by
    unfold Generated.Imp.Water.run
    simp only []
    rw [e1, e2, e3, e4]
  rw [hrun]
  -- the model side
  set i := inOf s N with hi
  set u := phaseUptake i with hu
  have hW0s1 : vw s1.v_WATER_0 N = u.2 := by rw [hs1]; exact hu2
  have hsurf : phaseSurface (inOf s1 N) (vw s1.v_WATER_0 N) = phaseSurface i u.2 := by
    rw [hW0s1, hs1]; rfl
  rw [hsurf] at hwa1 hq0 hqs hqd hev hevT
  set S := phaseSurface i u.2 with hS
  have hOV : (vw A3 N, qsOf Q3 N) = ((phaseOverflow i S).1, (phaseOverflow i S).2.1) := by
    have e_w1 : vw s2.v_WATER_1 N = S.wa1 := by rw [hs2]; exact hwa1
    have e_w : vw s2.g_W N = i.w := by rw [hs2, hs1]; rfl
    have e_q : qsOf s2.g_Q1 N = S.qs := by rw [hs2]; exact hqs
    have e_dz : s2.g_DZ_Num = i.dz := by rw [hs2, hs1]; rfl
    rw [e_w1, e_w, e_q, e_dz] at hA3 hQ3
    rw [hA3, hQ3]
    rfl
  have hA3' : vw A3 N = (phaseOverflow i S).1 := (Prod.mk.inj hOV).1
  have hQ3' : qsOf Q3 N = (phaseOverflow i S).2.1 := (Prod.mk.inj hOV).2
  have hNFK3 : s3.l_NFK = s.l_NFK := by rw [hs3, hs2, hs1]
  have hdeep : deepest s3 N = capLayer i.nfk := by
    rw [deepest_congr s s3 hNFK3 N, ← capLayer_eq_deepest s N]
    rfl
  have hrise : riseOf s3 N = capRise i.dz i.wdt i.grw i.caps (capLayer i.nfk) := by
    unfold riseOf
    rw [hdeep, hs3, hs2, hs1]
    rfl
  have hCAP : (vw A4 N, qsOf Q4 N) = phaseCapillary i (phaseOverflow i S).1 (phaseOverflow i S).2.1 := by
    rw [hcap, hrise, hdeep]
    have e_w1 : vw s3.v_WATER_1 N = (phaseOverflow i S).1 := by rw [hs3]; exact hA3'
    have e_q : qsOf s3.g_Q1 N = (phaseOverflow i S).2.1 := by rw [hs3]; exact hQ3'
    rw [e_w1, e_q]
    unfold phaseCapillary
    simp only []
    cases capRise i.dz i.wdt i.grw i.caps (capLayer i.nfk) <;> rfl
  set C := phaseCapillary i (phaseOverflow i S).1 (phaseOverflow i S).2.1 with hC
  have hA4' : vw A4 N = C.1 := (Prod.mk.inj hCAP).1
  have hQ4' : qsOf Q4 N = C.2 := (Prod.mk.inj hCAP).2
  -- the fields of the state after stage 4
  have f_TP : s4.g_TP = TP := by rw [hs4, hs3, hs2, hs1]
  have f_EV : s4.l_EV = E2 := by rw [hs4, hs3, hs2]
  have f_Q1 : s4.g_Q1 = Q4 := by rw [hs4]
  have f_W1 : s4.v_WATER_1 = A4 := by rw [hs4]
  have f_QD : s4.g_QDRAIN = qd2 := by rw [hs4, hs3, hs2]
  have f_DZ : s4.g_DZ_Num = i.dz := by rw [hs4, hs3, hs2, hs1]; rfl
  have f_N : s4.g_N = (N : Int) := by rw [hs4, hs3, hs2, hs1]; exact hN
  have f_SI : s4.g_SICKER = s.g_SICKER := by rw [hs4, hs3, hs2, hs1]
  have f_CA : s4.g_CAPSUM = s.g_CAPSUM := by rw [hs4, hs3, hs2, hs1]
  have f_DR : s4.g_DRAISUM = s.g_DRAISUM := by rw [hs4, hs3, hs2, hs1]
  have f_IN : s4.g_INFILT = s.g_INFILT := by rw [hs4, hs3, hs2, hs1]
  have f_FL : s4.g_FLUSS0 = i.fluss0 := by rw [hs4, hs3, hs2, hs1]; rfl
  have f_OU : s4.g_OUTN = s.g_OUTN := by rw [hs4, hs3, hs2, hs1]
  have f_GW : s4.l_GWAUF = i.gwauf := by rw [hs4, hs3, hs2, hs1]; rfl
  have f_WD : s4.p_wdt = i.wdt := by rw [hs4, hs3, hs2, hs1]; rfl
  have hQ40' : rd Q4 0 = S.qTop := by
    rw [hQ40]
    have : rd s3.g_Q1 0 = rd Q3 0 := by rw [hs3]
    rw [this, hQ30]
    have : rd s2.g_Q1 0 = rd Q2 0 := by rw [hs2]
    rw [this, hq0]
  have hq1 : vw Q4 (N + 1) = S.qTop :: C.2 := by rw [vw_succ_cons, hQ40', hQ4']
  have hstep_q1 : (step i).q1 = S.qTop :: C.2 := rfl
  -- the flux at the leaching depth
  have hout : rd Q4 s.g_OUTN = (S.qTop :: C.2).getD i.outn 0 := by
    have e : s.g_OUTN = ((s.g_OUTN.toNat : Nat) : Int) := by omega
    have hlt : s.g_OUTN.toNat < N + 1 := by omega
    rw [e, ← vw_getD Q4 (N + 1) _ hlt, hq1]
    rfl
  set qOut := (S.qTop :: C.2).getD i.outn 0 with hqOut
  refine ⟨?_, ?_, ?_, ?_, ?_, ?_, ?_, ?_, ?_, ?_⟩
  · -- WG[1]
    rw [b_WG]
    have hwg : (step i).wg1 = C.1.map (· / i.dz) := rfl
    rw [hwg]
    apply List.ext_getElem
    · simp [← hA4']
    · intro j h1 h2
      have hj : j < N := by simpa using h1
      rw [vw_getElem, c_N, f_N, rd_wr_nat _ N j _ (by rw [lG5, hs4, hs3, hs2, hs1]; simp only []; omega)]
      have : ¬ (N = j) := by omega
      simp only [this, if_false]
      rw [pG5 j]
      simp only [hj, if_true, List.getElem_map]
      rw [f_W1, f_DZ]
      have : (C.1)[j]'(by simpa using h2) = rd A4 (j : Int) := by
        have := vw_getElem A4 N j (by simpa using hj)
        rw [← this]
        congr 1
        exact hA4'.symm
      rw [this]
  · rw [b_TP, c_TP, f_TP]; exact hu1
  · rw [b_EV, c_EV, f_EV]; exact hev
  · rw [b_EV, c_EV, f_EV]; exact hevT
  · rw [b_Q1, c_Q1, f_Q1, hstep_q1]; exact hq1
  · rw [b_QD, c_QD, f_QD]; exact hqd
  · rw [b_DR, c_DR, c_QD, f_DR, f_QD, hqd]; rfl
  · rw [b_SI, c_Q1, c_OU, c_SI, f_Q1, f_OU, f_SI, hout]
    have hd : (step i).dSicker = if 0 < qOut then qOut * 10 else 0 := rfl
    rw [hd]
    split <;> simp
  · rw [b_CA, c_Q1, c_OU, c_CA, c_GW, c_WD, f_Q1, f_OU, f_CA, f_GW, f_WD, hout]
    have hd : (step i).dCapsum = (if 0 < qOut then 0 else 0 + qOut * 10) - i.gwauf * 10 * i.wdt := rfl
    rw [hd]
    split <;> ring
  · rw [b_IN, c_FL, c_IN, c_WD, f_FL, f_IN, f_WD]
    have hd : (step i).dInfilt = if 0 < i.fluss0 then i.fluss0 * i.wdt else 0 := rfl
    rw [hd]
    split <;> simp

end Hermes.ImpWater
