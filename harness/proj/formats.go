package proj

// Alternative encodings of the same project content (property C13) and helpers for paired runs
// (C13, C18): fixed-width soil file, CSV rotation, CSV measurement file, the three weather layouts
// with identical numbers, the four date formats, numeric-only output configurations, private
// copies of the parameter folder.

import (
	"fmt"
	"os"
	"path/filepath"
	"strconv"
	"strings"

	"verifharness/vh"
)

// SoilTxt renders the soil profile in the fixed-width layout LoadSoil reads (soil.go:97-194):
// columns 0-2 SID, 4-7 C_org, 9-11 texture, 13-14 lower boundary, 16 density class, 18-19 stones,
// 21-23 C/N, 32-33 root depth, 35-36 horizons, 40-41 FC, 43-44 WP, 46-47 PV, 49-50 sand,
// 52-53 silt, 55-56 clay, 62-63 drain depth, 67-69 drain fraction, 70-71 groundwater.
func (p *Project) SoilTxt() string {
	var b strings.Builder
	b.WriteString("SID Corg Te  lb B St C/N C/S Hy Rd NuHo  FC WP PS S% SI% C% lamda DraiT  Drai% GW LBG\n")
	for i, h := range p.Soil {
		opt := func(v int) string {
			if v == 0 {
				return "  "
			}
			return fmt.Sprintf("%2d", v)
		}
		rd, nh, gw := "  ", "  ", "  "
		if i == 0 {
			rd, nh, gw = fmt.Sprintf("%02d", p.RootDepth), fmt.Sprintf("%02d", len(p.Soil)), fmt.Sprintf("%02d", p.GW)
		}
		line := fmt.Sprintf("%-3s %4.2f %-3s %02d %d %02d %-3s     00 %s %s   %s %s %s %s %s %s 00  %02d   %-3s%s 01",
			p.SoilID, h.Corg, h.Texture, h.Lower, h.LD, h.Stone, "10", rd, nh, opt(h.FC), opt(h.WP), opt(h.PV),
			opt(h.Sand), opt(h.Silt), opt(h.Clay), p.DrainDep, drainFrac(p.DrainPct), gw)
		b.WriteString(line + "\n")
	}
	return b.String()
}

// drainFrac renders the drain fraction DRAIFAK (soil.go:128 reads columns 67-69 raw) in three
// characters: the same decimal number as the CSV writer's "%.2f" of DrainPct/100.
func drainFrac(pct int) string {
	if pct >= 100 {
		return "1.0"
	}
	return fmt.Sprintf(".%02d", pct)
}

// SoilTxtOK reports whether every value of the profile fits the fixed-width columns.
func (p *Project) SoilTxtOK() bool {
	if len(p.SoilID) != 3 || p.RootDepth > 99 || p.GW > 99 || p.DrainDep > 99 || p.DrainPct > 100 || p.DrainPct < 0 {
		return false
	}
	for _, h := range p.Soil {
		if h.Corg >= 10 || h.Corg < 0 || len(h.Texture) > 3 || h.Lower > 99 || h.LD > 9 || h.Stone > 99 || h.Bulk != 0 {
			return false
		}
		for _, v := range []int{h.FC, h.WP, h.PV, h.Sand, h.Silt, h.Clay} {
			if v > 99 || v < 0 {
				return false
			}
		}
	}
	return true
}

// UseSoilTxt switches the project to the fixed-width soil file (call before Write, then WriteAlt).
func (p *Project) UseSoilTxt() { p.Cfg["SoilFileExtension"] = "txt"; p.alt().soilTxt = true }

// RotationCSV renders the rotation as CSV. headerStyle 0: the header of the shipped examples
// ("crp", "harvst": the reader falls back to the default column positions), 1: the names the
// reader recognises ("crop", "harvest").
func (p *Project) RotationCSV(headerStyle int) string {
	var b strings.Builder
	if headerStyle == 0 {
		b.WriteString("Field_ID,crp,sowing,harvst,Rex,yld,autorg,variety,comment\n")
	} else {
		b.WriteString("Field_ID,crop,sowing,harvest,Rex,yld,autorg,variety,comment\n")
	}
	for i, r := range p.Rot {
		sow := strings.Repeat("-", len(r.Harvest.Fmt(p.DateFmt)))
		if i > 0 {
			sow = r.Sow.Fmt(p.DateFmt)
		}
		fmt.Fprintf(&b, "%s,%s,%s,%s,%03d,%03d,%d,%s,\n", p.Field, r.Crop, sow, r.Harvest.Fmt(p.DateFmt), r.Rex, r.Yld, r.AutOrg, r.Variety)
	}
	return b.String()
}

func (p *Project) UseRotationCSV(headerStyle int) {
	p.Cfg["CropFileFormat"] = "csv"
	p.alt().rotCSV = true
	p.alt().rotHeader = headerStyle
}

// MeasureCSV renders the measurement file as CSV. headerStyle 0: old header names in the column
// order of the text file, 1: new header names (Id, Nmin…, Water…) in the order of the shipped
// examples.
func (p *Project) MeasureCSV(headerStyle int) string {
	var b strings.Builder
	if headerStyle == 0 {
		b.WriteString("Plot_ID,Date,Nm03,Nm36,Nm69,M,W0_3,W3_6,W6_9,NM9-12,NM12-15,NM15-20,W9-12,W12-15,W15-20\n")
	} else {
		b.WriteString("Id,Date,Nmin0-3,Nmin3-6,Nmin6-9,Nmin9-12,Nmin12-15,Nmin15-20,M,Water0-3,Water3-6,Water6-9,Water9-12,Water12-15,Water15-20\n")
	}
	for _, m := range p.Meas {
		d := m.Date.Fmt(p.DateFmt)
		if headerStyle == 0 {
			fmt.Fprintf(&b, "ALLE,%s,%04d,%04d,%04d,%s,%.3f,%.3f,%.3f,%04d,%04d,%04d,%.3f,%.3f,%.3f\n",
				d, m.Nmin[0], m.Nmin[1], m.Nmin[2], m.Mode, m.Water[0], m.Water[1], m.Water[2],
				m.Nmin[3], m.Nmin[4], m.Nmin[5], m.Water[3], m.Water[4], m.Water[5])
		} else {
			fmt.Fprintf(&b, "ALLE,%s,%04d,%04d,%04d,%04d,%04d,%04d,%s,%.3f,%.3f,%.3f,%.3f,%.3f,%.3f\n",
				d, m.Nmin[0], m.Nmin[1], m.Nmin[2], m.Nmin[3], m.Nmin[4], m.Nmin[5], m.Mode,
				m.Water[0], m.Water[1], m.Water[2], m.Water[3], m.Water[4], m.Water[5])
		}
	}
	return b.String()
}

func (p *Project) UseMeasureCSV(headerStyle int) {
	p.Cfg["MeasurementFileFormat"] = "csv"
	p.alt().measCSV = true
	p.alt().measHeader = headerStyle
}

// UseWeatherLayout selects one of the three weather layouts with IDENTICAL numbers in all of them
// (radiation in MJ m-2 everywhere; the year-file writer of proj.WriteWeather scales radiation and
// is therefore not used here). heights: write the third header line (station height, wind
// height) in the two layouts that support it (WeatherNumHeader = 3).
func (p *Project) UseWeatherLayout(layout int, heights bool, altitude, windHeight float64) {
	a := p.alt()
	a.weather = true
	a.layout = layout
	a.heights = heights
	a.altitude, a.windHeight = altitude, windHeight
	p.WeatherFmt = layout
	p.Cfg["WeatherFileFormat"] = fmt.Sprint(layout)
	p.Cfg["WeatherNumHeader"] = "2"
	if heights && layout != 2 {
		p.Cfg["WeatherNumHeader"] = "3"
	}
	if layout == 0 {
		p.Cfg["WeatherFile"] = ymlQuote("%s.")
	} else {
		p.Cfg["WeatherFile"] = ymlQuote("%s.csv")
	}
}

// UseYearlyCO2: the weather carries a CO2 concentration that rises from year to year (scenario runs): in the year
// files as the third value of the third header line of each file, in the day-of-year layout as a CO2 column.
// Call after UseWeatherLayout(0, true, ...) or UseWeatherLayout(2, ...).
func (p *Project) UseYearlyCO2() { p.alt().co2PerYear = true }

// YearlyCO2 is the concentration UseYearlyCO2 writes for year y.
func (p *Project) YearlyCO2(y int) float64 { return 350 + 45*float64(y-p.WeatherStart.Y) }

// DeriveMeanTemperature makes the stored mean temperature the float64 value (tmax+tmin)/2, which
// is what the day-of-year layout derives (weather_input.go:521).
func (p *Project) DeriveMeanTemperature() {
	for i := range p.Weather {
		p.Weather[i].Tavg = (p.Weather[i].Tmax + p.Weather[i].Tmin) / 2
	}
}

type altFiles struct {
	soilTxt, rotCSV, measCSV, weather bool
	rotHeader, measHeader, layout     int
	heights                           bool
	co2PerYear                        bool // a CO2 value per year: third header line of every year file / CO2 column of the day-of-year layout
	altitude, windHeight              float64
	numericOnly                       bool
}

var altOf = map[*Project]*altFiles{}

func (p *Project) alt() *altFiles {
	a, ok := altOf[p]
	if !ok {
		a = &altFiles{}
		altOf[p] = a
	}
	return a
}

// Forget drops the side table entry of a project (call when done with it).
func (p *Project) Forget() { delete(altOf, p) }

// NumericOutputs replaces the yearly and crop output configurations written by Write with
// numeric-only ones (no rendered dates), for comparisons across date formats.
func (p *Project) NumericOutputs() { p.alt().numericOnly = true }

// WriteAlt writes the files of the selected alternative encodings; call after Write.
func (p *Project) WriteAlt(root string) error {
	a := p.alt()
	dir := filepath.Join(root, "project", p.Name)
	w := func(name, content string) error { return os.WriteFile(filepath.Join(dir, name), []byte(content), 0o644) }
	if a.soilTxt {
		if err := w("soil_"+p.Name+".txt", p.SoilTxt()); err != nil {
			return err
		}
	}
	if a.rotCSV {
		if err := w("crop_"+p.Name+".csv", p.RotationCSV(a.rotHeader)); err != nil {
			return err
		}
	}
	if a.measCSV {
		if err := w("endit_"+p.Name+".csv", p.MeasureCSV(a.measHeader)); err != nil {
			return err
		}
	}
	if a.numericOnly {
		if err := w("yearlyout_conf.yml", OutputConf([]string{"OUTSUM", "SICKER", "AUFNASUM", "PerY"})); err != nil {
			return err
		}
		if err := w("cropout_conf.yml", OutputConf([]string{"Crop", "HarvestYear", "SowDOY", "EmergDOY", "AnthDOY", "MatDOY", "HarvestDOY", "Yield", "Biomass", "Roots", "LAImax", "Nuptake"})); err != nil {
			return err
		}
	}
	if a.weather {
		return p.writeWeatherSame(root, a)
	}
	return nil
}

func (p *Project) writeWeatherSame(root string, a *altFiles) error {
	return p.writeWeatherSameDir(filepath.Join(root, "weather", "gen"), a)
}

// WriteWeatherLayoutTo writes the weather series with identical numbers in the given layout into
// root/weather/<folder> (for projects that keep several layouts side by side; select one per batch
// line with WeatherFileFormat / WeatherFolder / WeatherFile).
func (p *Project) WriteWeatherLayoutTo(root, folder string, layout int) error {
	return p.writeWeatherSameDir(filepath.Join(root, "weather", folder), &altFiles{weather: true, layout: layout})
}

// WriteAllEncodings adds, next to the files Write produced, the other encoding of every input:
// fixed-width soil, CSV rotation, CSV measurement file, and the weather series as multi-year CSV
// (weather/gen), one file per year (weather/gen0) and day-of-year layout (weather/gen2).
func (p *Project) WriteAllEncodings(root string) error {
	dir := filepath.Join(root, "project", p.Name)
	w := func(name, content string) error { return os.WriteFile(filepath.Join(dir, name), []byte(content), 0o644) }
	if err := w("soil_"+p.Name+".txt", p.SoilTxt()); err != nil {
		return err
	}
	if err := w("crop_"+p.Name+".csv", p.RotationCSV(0)); err != nil {
		return err
	}
	if err := w("endit_"+p.Name+".csv", p.MeasureCSV(1)); err != nil {
		return err
	}
	for layout, folder := range []string{"gen0", "gen", "gen2"} {
		if err := p.WriteWeatherLayoutTo(root, folder, layout); err != nil {
			return err
		}
	}
	return nil
}

// ShiftYears moves every date of the project (rotation, schedules, measurements, groundwater
// series, weather, end date) by dy years; dy must be a multiple of 4 so that leap years stay leap
// years (valid within 1901-2099). Call on a project in the default date format (DElong).
func (p *Project) ShiftYears(dy int) {
	end := p.End()
	sh := func(d *Date) {
		if d.Y != 0 {
			d.Y += dy
		}
	}
	for i := range p.Rot {
		sh(&p.Rot[i].Sow)
		sh(&p.Rot[i].Harvest)
	}
	for i := range p.Fert {
		sh(&p.Fert[i].Date)
	}
	for i := range p.Irr {
		sh(&p.Irr[i].Date)
	}
	for i := range p.Til {
		sh(&p.Til[i].Date)
	}
	for i := range p.Meas {
		sh(&p.Meas[i].Date)
	}
	for i := range p.GWSerie {
		sh(&p.GWSerie[i].Date)
	}
	for i := range p.Weather {
		sh(&p.Weather[i].Date)
	}
	sh(&p.WeatherStart)
	end.Y += dy
	p.SetEnd(end)
}

func (p *Project) writeWeatherSameDir(dir string, a *altFiles) error {
	os.RemoveAll(dir)
	if err := os.MkdirAll(dir, 0o755); err != nil {
		return err
	}
	none := strings.Trim(p.Cfg["WeatherNoneValue"], "\"")
	code := p.fcode()
	hl := fmt.Sprintf("%g;%g;-----\n", a.altitude, a.windHeight)
	switch a.layout {
	case 1:
		var b strings.Builder
		b.WriteString("iso-date,tmin,tavg,tmax,precip,globrad,wind,relhumid\n")
		b.WriteString("[],[°C],[°C],[°C],[mm],[MJ m-2],[m/s],[%]\n")
		if a.heights {
			b.WriteString(hl)
		}
		for _, d := range p.Weather {
			fmt.Fprintf(&b, "%s,%g,%g,%g,%g,%g,%g,%g\n", d.Date, d.Tmin, d.Tavg, d.Tmax, d.Precip, d.Rad, d.Wind, d.RH)
		}
		return os.WriteFile(filepath.Join(dir, code+".csv"), []byte(b.String()), 0o644)
	case 2:
		var b strings.Builder
		if a.co2PerYear {
			b.WriteString("@YYYYJJJ RAD TMAX TMIN RH WIND PREC CO2\n")
			b.WriteString("units\n")
			for _, d := range p.Weather {
				fmt.Fprintf(&b, "%04d%03d %g %g %g %g %g %g %g\n", d.Date.Y, d.Date.DOY(), d.Rad, d.Tmax, d.Tmin, d.RH, d.Wind, d.Precip, p.YearlyCO2(d.Date.Y))
			}
			return os.WriteFile(filepath.Join(dir, code+".csv"), []byte(b.String()), 0o644)
		}
		b.WriteString("@YYYYJJJ RAD TMAX TMIN RH WIND PREC\n")
		b.WriteString("units\n")
		for _, d := range p.Weather {
			fmt.Fprintf(&b, "%04d%03d %g %g %g %g %g %g\n", d.Date.Y, d.Date.DOY(), d.Rad, d.Tmax, d.Tmin, d.RH, d.Wind, d.Precip)
		}
		return os.WriteFile(filepath.Join(dir, code+".csv"), []byte(b.String()), 0o644)
	case 0:
		byYear := map[int][]WDay{}
		for _, d := range p.Weather {
			byYear[d.Date.Y] = append(byYear[d.Date.Y], d)
		}
		for y, days := range byYear {
			var b strings.Builder
			b.WriteString("tavg;tmin;tmax;ET0;relhumid;vapp14;wind;sundu;globrad;precip;jday\n")
			b.WriteString("C_deg;C_deg;C_deg;mm;%;mm_Hg;m/s;hours;MJ m-2;mm;\n")
			if a.heights && a.co2PerYear {
				fmt.Fprintf(&b, "%g;%g;%g\n", a.altitude, a.windHeight, p.YearlyCO2(y))
			} else if a.heights {
				b.WriteString(hl)
			}
			for _, d := range days {
				fmt.Fprintf(&b, "%g;%g;%g;%s;%g;%s;%g;%s;%g;%g;%d\n", d.Tavg, d.Tmin, d.Tmax, none, d.RH, none, d.Wind, none, d.Rad, d.Precip, d.Date.DOY())
			}
			if err := os.WriteFile(filepath.Join(dir, code+"."+YearExt(y)), []byte(b.String()), 0o644); err != nil {
				return err
			}
		}
		return nil
	}
	return fmt.Errorf("unknown weather layout %d", a.layout)
}

// SetDateFormat re-renders every date of the project (rotation, schedules, measurement file,
// end date, annual output date) in one of the four formats 0 DEshort, 1 DElong, 2 ENshort,
// 3 ENlong. Must be called on a project generated with the default format (DElong).
func (p *Project) SetDateFormat(f int) {
	end := p.End()
	ann := strings.Trim(p.Cfg["AnnualOutputDate"], "\"'")
	var ad, am int
	if p.DateFmt == 2 || p.DateFmt == 3 {
		fmt.Sscanf(ann, "%2d%2d", &am, &ad)
	} else {
		fmt.Sscanf(ann, "%2d%2d", &ad, &am)
	}
	p.DateFmt = f
	p.Cfg["EndDate"] = ymlQuote(end.Fmt(f))
	if f == 2 || f == 3 {
		p.Cfg["AnnualOutputDate"] = ymlQuote(fmt.Sprintf("%02d%02d", am, ad))
	} else {
		p.Cfg["AnnualOutputDate"] = ymlQuote(fmt.Sprintf("%02d%02d", ad, am))
	}
}

// CopyParameterFolder replaces the symlink root/parameter by a private copy of the shipped
// parameter folder, so that single crop files can be edited for one run.
func CopyParameterFolder(root, repo string) error {
	dst := filepath.Join(root, "parameter")
	if fi, err := os.Lstat(dst); err == nil {
		if fi.Mode()&os.ModeSymlink != 0 {
			os.Remove(dst)
		} else {
			return nil
		}
	}
	if err := os.MkdirAll(dst, 0o755); err != nil {
		return err
	}
	src := filepath.Join(repo, "examples", "parameter")
	ents, err := os.ReadDir(src)
	if err != nil {
		return err
	}
	for _, e := range ents {
		if e.IsDir() {
			continue
		}
		b, err := os.ReadFile(filepath.Join(src, e.Name()))
		if err != nil {
			return err
		}
		if err := os.WriteFile(filepath.Join(dst, e.Name()), b, 0o644); err != nil {
			return err
		}
	}
	return nil
}

// CopyParameterFolderAs makes a second parameter folder root/<name> (selected per run with the
// batch argument parameter=<name>).
func CopyParameterFolderAs(root, repo, name string) error {
	dst := filepath.Join(root, name)
	if err := os.MkdirAll(dst, 0o755); err != nil {
		return err
	}
	src := filepath.Join(repo, "examples", "parameter")
	ents, err := os.ReadDir(src)
	if err != nil {
		return err
	}
	for _, e := range ents {
		if e.IsDir() {
			continue
		}
		b, err := os.ReadFile(filepath.Join(src, e.Name()))
		if err != nil {
			return err
		}
		if err := os.WriteFile(filepath.Join(dst, e.Name()), b, 0o644); err != nil {
			return err
		}
	}
	return nil
}

// MissingMeanTemperature writes the configured none-value into the mean-temperature column of isolated
// interior days (never two neighbours, never the first or last day of the series): an optional value that
// the readers of the layouts which carry the column replace by the mean of the adjacent days.
func (p *Project) MissingMeanTemperature(r *vh.Rng, days int) []Date {
	none, err := strconv.ParseFloat(strings.Trim(p.Cfg["WeatherNoneValue"], "\""), 64)
	if err != nil || len(p.Weather) < 10 {
		return nil
	}
	var out []Date
	taken := map[int]bool{}
	for k := 0; k < days; k++ {
		i := 2 + r.Intn(len(p.Weather)-4)
		if taken[i-1] || taken[i] || taken[i+1] {
			continue
		}
		if d := p.Weather[i].Date; d.DOY() == 1 || (d.M == 12 && d.D == 31) {
			continue // the adjacent day lies in another year file: what the one-file-per-year layout uses there is not specified
		}
		taken[i] = true
		p.Weather[i].Tavg = none
		out = append(out, p.Weather[i].Date)
	}
	return out
}
