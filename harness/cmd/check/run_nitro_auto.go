package main

// Management and configuration variations of the whole-run generator shared by C02 and C07
// (nitroProject) and the expectations the two day predicates derive from the generated INPUT:
//
//   * configuration values: Fertilization factor {0,1,33,50,75,100,120,250}, PotMineralisation 0/1/2,
//     NDeposition exactly 0 and fractional, OrganicMatterMineralProportion 0 / 0.999 / 1, (C07 runs only:
//     the property C02 is stated for the leaching depth at the profile bottom) LeachingDepth above,
//     below the number of layers and the default 15 on short soils;
//   * irrigation N: concentration 0 in all events, concentrations that differ between events together
//     with events of the field dated before the simulation start (expected N of a day: nitroIrrN, from
//     the schedule the harness writes);
//   * automatic management: AutoFertilization / AutoIrrigation / AutoSowingHarvest / AutoHarvest with a
//     generated automan.txt (genAutoEntry) and `autorg` = 1 in the rotation: organic fertiliser after
//     harvest ("H": fast and slow organic N into the top layer, mineral part into DSUMM) and at sowing
//     ("S": mineral part straight into the nitrate of the top layer). The amounts of one application
//     come from the automan row (code, quantity) and FERTILIZ.TXT (fertRow.split); the days on which
//     an application of rotation entry i can happen are OrgDoy days after its observed sowing / harvest
//     day. The predicates accept exactly one application (or none) on such a day and none elsewhere.
//
// Signatures added (C07): run:auto-manure:after-harvest:amount, run:organic-input:booked-in-later-substep
//            (C02): run:balance:day-inputs (now against the schedule file and the configuration)

import (
	"fmt"
	"math"
	"strconv"

	"verifharness/proj"
	"verifharness/vh"
)

type nitroAuto struct {
	AutoMan, AutoHar, AutoIrr, AutoFert bool
	Sw                                  string
	Entries                             []proj.AutoEntry
	Table                               map[string]proj.AutoEntry
	rows                                map[string]fertRow
}

// nitroAutoOf: the automatic-management set-up of a generated project (nil entry = none). Consulted by
// runNitroObserved (writes automan.txt) and by the day predicates.
var nitroAutoOf = map[*proj.Project]*nitroAuto{}

var nitroFertRows map[string]fertRow

func nitroFertTable(c *vh.Ctx) map[string]fertRow {
	if nitroFertRows == nil {
		nitroFertRows = map[string]fertRow{}
		if t, err := loadFertTable(c.Repo); err == nil {
			for _, r := range t {
				nitroFertRows[r.Code] = r
			}
		} else {
			c.Note("cannot read FERTILIZ.TXT: %v", err)
		}
	}
	return nitroFertRows
}

var nitroFertFactors = []int{0, 1, 33, 50, 75, 100, 120, 250}

// nitroVariant is called at the END of nitroProject (after proj.Gen and steerNitroProject) with the
// project's own forked generator: nothing drawn before it is shifted.
func nitroVariant(c *vh.Ctx, r *vh.Rng, p *proj.Project, k int, legumes bool) {
	n := p.N()
	// ---------------------------------------------------------------- configuration values
	if r.Chance(0.4) {
		p.Cfg["Fertilization"] = strconv.Itoa(nitroFertFactors[r.Intn(len(nitroFertFactors))])
	}
	if r.Chance(0.35) {
		p.Cfg["PotMineralisation"] = strconv.Itoa(r.Range(1, 2))
		if r.Chance(0.5) {
			p.Soil[0].Bulk = vh.RoundTo(r.Uni(0.9, 1.8), 2) // measured bulk density of the top horizon (potmin1)
		}
	}
	switch r.Intn(8) {
	case 0:
		p.Cfg["NDeposition"] = "0"
	case 1:
		p.Cfg["NDeposition"] = "12.37"
	case 2:
		p.Cfg["NDeposition"] = ffmt(r.Uni(0, 3), 3)
	}
	if r.Chance(0.12) {
		p.Cfg["OrganicMatterMineralProportion"] = []string{"0", "1", "0.999", "0.001"}[r.Intn(4)]
	}
	if legumes && r.Chance(0.3) {
		// C07 is stated for every leaching depth (C02 for the profile bottom only)
		switch r.Intn(3) {
		case 0:
			if n > 1 {
				p.Cfg["LeachingDepth"] = strconv.Itoa(r.Range(1, n-1))
			}
		case 1:
			if n < 20 {
				p.Cfg["LeachingDepth"] = strconv.Itoa(r.Range(n+1, 20))
			}
		case 2:
			p.Cfg["LeachingDepth"] = "15" // the shipped default, whatever the profile depth
		}
	}
	// ---------------------------------------------------------------- irrigation N
	switch r.Intn(6) {
	case 0:
		for i := range p.Irr {
			p.Irr[i].Conc = 0
		}
	case 1, 2:
		// events of the field before the start (dropped by the reader) in front of in-period events whose
		// concentrations all differ, some of them 0
		s0 := p.Start()
		var irr []proj.IrrEv
		d := s0.AddDays(-r.Range(3, 40))
		for j := r.Range(1, 3); j > 0 && d.Z() < s0.Z(); j-- {
			irr = append(irr, proj.IrrEv{MM: r.Range(5, 40), Conc: 50 + 7*j, Date: d})
			d = d.AddDays(r.Range(1, 2))
		}
		for _, e := range p.Irr {
			if e.Date.Z() >= s0.Z() {
				irr = append(irr, e)
			}
		}
		if len(irr) > 0 && irr[len(irr)-1].Date.Z() < s0.Z() {
			irr = append(irr, proj.IrrEv{MM: r.Range(5, 40), Conc: 3, Date: s0.AddDays(r.Range(0, 30))})
			irr = append(irr, proj.IrrEv{MM: r.Range(5, 40), Conc: 0, Date: irr[len(irr)-1].Date.AddDays(r.Range(1, 30))})
			irr = append(irr, proj.IrrEv{MM: r.Range(5, 40), Conc: 11, Date: irr[len(irr)-1].Date.AddDays(r.Range(1, 30))})
		}
		for i := range irr {
			if irr[i].Date.Z() >= s0.Z() {
				irr[i].Conc = (3 + 4*i) % 41
				if r.Chance(0.2) {
					irr[i].Conc = 0
				}
			}
		}
		p.Irr = irr
	case 3:
		// two passes of irrigation on one day, N in the water. The model's irrigation cursor is outside the
		// schedules C10 speaks about here (which passes run is not judged); what C02 needs is that the N dissolved
		// in the water that IS applied on a day reaches the soil: all lines carry one concentration, the day's input
		// is concentration x water applied that day (EffectiveIRRIG, observed at the day-start probe)
		s0 := p.Start()
		var irr []proj.IrrEv
		for _, e := range p.Irr {
			if e.Date.Z() >= s0.Z() {
				irr = append(irr, e)
			}
		}
		if len(irr) == 0 {
			irr = append(irr, proj.IrrEv{MM: r.Range(5, 40), Date: s0.AddDays(r.Range(1, 200))})
		}
		conc := r.Range(10, 60)
		j := r.Intn(len(irr))
		irr = append(irr[:j+1], append([]proj.IrrEv{{MM: irr[j].MM + r.Range(3, 25), Date: irr[j].Date, Field: irr[j].Field}}, irr[j+1:]...)...)
		for i := range irr {
			irr[i].Conc = conc
		}
		p.Irr = irr
		p.Irrigated = true
		nitroSameDayIrrConc[p] = conc
	}
	// ---------------------------------------------------------------- tillage types other than 1 / 2 (logged, no mixing)
	if len(p.Til) > 0 && r.Chance(0.2) {
		p.Til[r.Intn(len(p.Til))].Kind = []int{0, 3}[r.Intn(2)]
	}
	// ---------------------------------------------------------------- automatic management
	if k%3 != 1 {
		return
	}
	a := &nitroAuto{AutoFert: r.Chance(0.85), AutoIrr: r.Chance(0.5), AutoMan: r.Chance(0.4), AutoHar: r.Chance(0.3), Table: map[string]proj.AutoEntry{}, rows: nitroFertTable(c)}
	if !a.AutoFert && !a.AutoIrr && !a.AutoMan && !a.AutoHar {
		a.AutoFert = true
	}
	orgMode := []int{0, 1, 1, 2}[r.Intn(4)] // 0 as drawn per crop, 1 every row after harvest, 2 every row at sowing
	for _, cc := range proj.Crops {
		e := genAutoEntry(r, cc)
		switch orgMode {
		case 1:
			e.OrgTime = "H"
		case 2:
			e.OrgTime = "S"
		}
		if e.OrgTime != "H" && e.OrgTime != "S" {
			e.OrgTime = []string{"H", "S"}[r.Intn(2)]
		}
		if r.Chance(0.5) {
			e.OrgDoy = r.Range(1, 4) // soon after the event: the day is more often one of heavy rain of the same spell
		}
		a.Table[cc.Code] = e
		a.Entries = append(a.Entries, e)
	}
	// the premise of the automatic dates (C16): windows open after the latest harvest date of the predecessor;
	// otherwise the fixed dates of the rotation file are used
	if a.AutoMan || a.AutoHar {
		ex := c16Expect(p, &c16Case{AutoMan: a.AutoMan, AutoHar: a.AutoHar, Table: a.Table, S0: p.Start().Z()})
		for i := 1; i < len(p.Rot); i++ {
			if !ex.Premise[i] {
				a.AutoMan, a.AutoHar = false, false
			}
		}
		// the weather must cover a latest harvest date behind the generated end
		if a.AutoHar && len(p.Rot) > 1 {
			if l := ex.E2[len(p.Rot)-1]; l+2 > p.End().Z() {
				a.AutoHar = false
			}
		}
	}
	if a.AutoMan || a.AutoHar {
		p.Til = nil // tillage between moved sowing and harvest dates would reject the run
	}
	if a.AutoIrr {
		p.Irr = nil // the automan table has no N concentration: scheduled and automatic irrigation are not mixed
	}
	if a.AutoFert {
		for i := range p.Rot {
			if r.Chance(0.8) {
				p.Rot[i].AutOrg = 1
			}
		}
		// heavy rain (a day split into sub-steps) on the days on which an application falls with fixed dates
		rain := func(z int) {
			if i := z - p.WeatherStart.Z(); i >= 0 && i < len(p.Weather) && r.Chance(0.6) {
				p.Weather[i].Precip = vh.RoundTo(r.Uni(12, 120), 1)
			}
		}
		for i, e := range p.Rot {
			if e.AutOrg != 1 {
				continue
			}
			row := a.Table[e.Crop]
			if !a.AutoHar || i == 0 {
				rain(e.Harvest.Z() + row.OrgDoy)
			}
			if !a.AutoMan && i > 0 {
				rain(e.Sow.Z() + row.OrgDoy)
			}
		}
	}
	p.Cfg["AutoSowingHarvest"], p.Cfg["AutoHarvest"], p.Cfg["AutoIrrigation"], p.Cfg["AutoFertilization"] = onOffSch(a.AutoMan), onOffSch(a.AutoHar), onOffSch(a.AutoIrr), onOffSch(a.AutoFert)
	a.Sw = fmt.Sprintf("man%s-har%s-irr%s-fert%s", onOffSch(a.AutoMan), onOffSch(a.AutoHar), onOffSch(a.AutoIrr), onOffSch(a.AutoFert))
	nitroAutoOf[p] = a
}

// nitroIrrN: irrigation N expected on the day (kg N/ha), from the schedule file of the project; with
// automatic irrigation the water carries no N (the automan table has no concentration column).
// nitroSameDayIrrConc: projects whose irrigation schedule has two lines on one day; value = the one N
// concentration of all its lines (see nitroVariant).
var nitroSameDayIrrConc = map[*proj.Project]int{}

func nitroIrrN(p *proj.Project, zeit int) float64 {
	if a := nitroAutoOf[p]; a != nil && a.AutoIrr {
		return 0
	}
	n, _, _ := p.IrrigationNOn(zeit)
	if n < 0 {
		n = 0
	}
	return n
}

// manureCand: an automatic organic fertilisation of rotation entry Entry that can happen today.
type manureCand struct {
	Entry            int
	Time             string // "H" OrgDoy days after the harvest, "S" OrgDoy days after the sowing of the entry
	Kind             string
	Amount           int
	Ndir, Nsas, Nlas float64
	Unknown          bool // pre-crop entry: the slot holds the residues of the pre-crop, not the table amounts
}

// autoDays: observed sowing / harvest day per rotation entry (from the probes: the crop index moves on
// the harvest day, SAAT of the current entry equals the day on the sowing day).
func (run *nRun) autoDays() (sow, har map[int]int) {
	if run.sowOf != nil {
		return run.sowOf, run.harOf
	}
	run.sowOf, run.harOf = map[int]int{}, map[int]int{}
	for _, d := range run.Days {
		if d.SowDay {
			if _, ok := run.sowOf[d.Start.AKF]; !ok {
				run.sowOf[d.Start.AKF] = d.Zeit
			}
		}
		if d.HaveEnd && d.End.AKF != d.Start.AKF {
			run.harOf[d.Start.AKF] = d.Zeit
		}
	}
	return run.sowOf, run.harOf
}

// manureToday: the applications of automatic organic fertiliser that can happen on day d, amounts from
// the automan row and FERTILIZ.TXT (no global factor: the factor scales the quantities of the schedule file).
func (run *nRun) manureToday(d *nDay) []manureCand {
	a := nitroAutoOf[run.P]
	if a == nil || !a.AutoFert {
		return nil
	}
	sow, har := run.autoDays()
	var out []manureCand
	for i, e := range run.P.Rot {
		if e.AutOrg != 1 {
			continue
		}
		row, ok := a.Table[e.Crop]
		if !ok {
			continue
		}
		mk := func(time string) manureCand {
			m := manureCand{Entry: i, Time: time, Kind: row.OrgF, Amount: row.OrgAmount}
			if fr, ok := a.rows[row.OrgF]; ok {
				m.Ndir, _, m.Nsas, m.Nlas = fr.split(float64(row.OrgAmount), 1)
			}
			return m
		}
		if i == 0 {
			// pre-crop line: its slot holds the residues of the pre-crop (residi), booked OrgDoy days after the start
			// (the harvest block of the first day re-dates it) or on the day after the start
			s0 := run.P.Start().Z()
			if d.Zeit == s0+1 || d.Zeit == s0+row.OrgDoy {
				m := mk("H")
				m.Unknown = true
				out = append(out, m)
			}
			continue
		}
		if z, ok := har[i]; ok && z+row.OrgDoy == d.Zeit {
			out = append(out, mk("H"))
		}
		if z, ok := sow[i]; ok && z+row.OrgDoy == d.Zeit {
			out = append(out, mk("S"))
		}
	}
	return out
}

func nearAmt(a, b float64, scale ...float64) bool {
	return math.Abs(a-b) <= relTol(append([]float64{a, b}, scale...)...)
}

// c07ManureDay: organic input expected today on a day without crop, harvest and scheduled fertiliser:
// (fast, slow) organic N added to the pools. ok=false: the pools changed by something that is not one
// application of a due automatic fertiliser (reported here).
func c07ManureDay(c *vh.Ctx, run *nRun, d *nDay, dFast, dSlow float64, payload func() interface{}) (addF, addA float64) {
	cands := run.manureToday(d)
	if len(cands) == 0 {
		return 0, 0
	}
	s, e := d.Start, d.End
	dD := e.Dsumm - s.Dsumm
	scale := []float64{sum(s.Nfos[:]), sum(s.Naos[:]), s.Dsumm}
	var h *manureCand
	for i := range cands {
		if cands[i].Time == "H" {
			h = &cands[i]
		}
	}
	if h == nil {
		return 0, 0
	}
	c.Count("run:auto-manure:after-harvest:due-on-day-without-crop")
	if h.Unknown {
		// slot 0 holds the residues of the pre-crop (residi): whatever the pools gain today is that input
		c.Count("run:auto-manure:pre-crop-slot")
		return dFast, dSlow
	}
	if nearAmt(dFast, 0, scale...) && nearAmt(dSlow, 0, scale...) && nearAmt(dD, 0, scale...) {
		c.Count(fmt.Sprintf("run:auto-manure:after-harvest:not-applied:orgtime=%s:orgdoy%s", run.autoRow(h.Entry).OrgTime, doyClass(run.autoRow(h.Entry).OrgDoy)))
		return 0, 0
	}
	if nearAmt(dFast, h.Nsas, scale...) && nearAmt(dSlow, h.Nlas, scale...) && nearAmt(dD, h.Ndir, scale...) {
		c.Count("run:auto-manure:after-harvest:applied-once")
		if len(d.Subs) > 1 {
			c.Count("run:auto-manure:after-harvest:applied-once:multi-substep-day")
		}
		return h.Nsas, h.Nlas
	}
	c.Violate("search", "run:auto-manure:after-harvest:amount", fmt.Sprintf("%s: automatic organic fertiliser after harvest of rotation entry %d (%d x %s: fast %.6g, slow %.6g, mineral %.6g kg N/ha per application) — the pools gain fast %.9g, slow %.9g, DSUMM %.9g on a day of %d sub-step(s): not one application", d.Date, h.Entry, h.Amount, h.Kind, h.Nsas, h.Nlas, h.Ndir, dFast, dSlow, dD, len(d.Subs)), payload())
	return dFast, dSlow
}

func doyClass(n int) string {
	if n == 0 {
		return "=0"
	}
	return ">0"
}

func (run *nRun) autoRow(entry int) proj.AutoEntry {
	if a := nitroAutoOf[run.P]; a != nil && entry < len(run.P.Rot) {
		return a.Table[run.P.Rot[entry].Crop]
	}
	return proj.AutoEntry{}
}

// c02DirectN: mineral N that an automatic organic fertilisation at sowing puts straight into the top
// layer today (nitro.go: no counter books it; the model's day inputs). The residual of the day balance
// must be 0 or exactly one application.
func c02DirectN(c *vh.Ctx, run *nRun, d *nDay, res, tol float64) float64 {
	for _, m := range run.manureToday(d) {
		if m.Time != "S" || m.Ndir <= 0 {
			continue
		}
		c.Count("run:auto-manure:at-sowing:due")
		if math.Abs(res-m.Ndir) <= tol+relTol(m.Ndir) {
			c.Count("run:auto-manure:at-sowing:direct-N-applied-once")
			if len(d.Subs) > 1 {
				c.Count("run:auto-manure:at-sowing:direct-N-applied-once:multi-substep-day")
			}
			return m.Ndir
		}
	}
	return 0
}

// c07LaterSubsteps: organic pools and the applied-fertiliser sums are fed by day events (fertiliser,
// manure, residues, dead plant material, tillage): nothing may change them after the first sub-step.
func c07LaterSubsteps(c *vh.Ctx, d *nDay, payload func() interface{}) {
	for k := 1; k < len(d.Subs); k++ {
		a, b := d.Subs[k-1], d.Subs[k]
		if math.IsNaN(a.OrgTot) || math.IsNaN(b.OrgTot) || math.IsNaN(a.Dsumm) || math.IsNaN(b.Dsumm) {
			return
		}
		if b.OrgTot != a.OrgTot || b.Dsumm != a.Dsumm || b.Nh4sum != a.Nh4sum {
			c.Violate("search", "run:organic-input:booked-in-later-substep", fmt.Sprintf("%s: organic N pools / applied fertiliser change in sub-step %d of %d (organic N %.9g -> %.9g, DSUMM %.9g -> %.9g, NH4Sum %.9g -> %.9g): an input of the day is booked once per sub-step", d.Date, b.Subd, len(d.Subs), a.OrgTot, b.OrgTot, a.Dsumm, b.Dsumm, a.Nh4sum, b.Nh4sum), payload())
			return
		}
	}
}
