/-
C07 — Nitrogen pools stay non-negative and organic/fertiliser bookkeeping is exact.
Models: HermesModel/Mineral.lean (`mineral` nitro.go:576-705, tillage mixing nitro.go:245-288,
denitrification removal), HermesModel/Nitro.lean (`nmove`: uptake and fixation crediting,
nitro.go:730-744, 849-852), HermesModel/FertPool.lean (fertiliser applied / dissolved over a run:
applications, `mineral` calls, measurement days).  Exact-arithmetic statements over ℚ.
-/
import HermesProofs.Nitro
import HermesProofs.Mineral
import HermesProofs.FertPool
namespace Hermes.Mineral
open Hermes.Nitro

/-- **What mineralisation removes from an organic pool is exactly what the mineralised-amount
counter gains**: pool + counter of every layer is unchanged by `mineral`, for both pools, in the
warm and in the frozen branch, for every state. -/
theorem C07_mineral_pool_conserved (top : Bool) (dsumm nh4sum wred : ℚ) (L : Layer ℚ) (a : Acc ℚ) :
    (layer top dsumm nh4sum wred L a).1.naos + (layer top dsumm nh4sum wred L a).1.minaos = L.naos + L.minaos ∧
    (layer top dsumm nh4sum wred L a).1.nfos + (layer top dsumm nh4sum wred L a).1.minfos = L.nfos + L.minfos := by
  unfold layer
  by_cases h : 0 < (L.tdLo + L.tdUp) / 2
  · simp only [h, if_true]; constructor <;> ring
  · simp [h]

/-- **Pools stay non-negative, counters only grow**, when the rate constants are in [0,1]
(numerically: soil temperature below ≈ 60 °C): the moisture factor of the warm branch is in [0,1]
by its clamps. -/
theorem C07_pools_nonneg (top : Bool) (dsumm nh4sum wred : ℚ) (L : Layer ℚ) (a : Acc ℚ)
    (hk0 : 0 ≤ L.kt0) (hk0' : L.kt0 ≤ 1) (hk1 : 0 ≤ L.kt1) (hk1' : L.kt1 ≤ 1)
    (hn : 0 ≤ L.naos) (hf : 0 ≤ L.nfos) :
    0 ≤ (layer top dsumm nh4sum wred L a).1.naos ∧ 0 ≤ (layer top dsumm nh4sum wred L a).1.nfos ∧
    L.minaos ≤ (layer top dsumm nh4sum wred L a).1.minaos ∧ L.minfos ≤ (layer top dsumm nh4sum wred L a).1.minfos := by
  unfold layer
  by_cases h : 0 < (L.tdLo + L.tdUp) / 2
  · simp only [h, if_true]
    obtain ⟨m0, m1⟩ := miredWarm_unit L.wg L.wnor wred L.wmin L.porges
    generalize miredWarm L.wg L.wnor wred L.wmin L.porges = m at m0 m1
    have a1 : 0 ≤ L.kt0 * L.naos * m := by positivity
    have a2 : L.kt0 * L.naos * m ≤ L.naos := by nlinarith [mul_nonneg hk0 hn, mul_nonneg (mul_nonneg hk0 hn) m0]
    have b1 : 0 ≤ L.kt1 * L.nfos * m := by positivity
    have b2 : L.kt1 * L.nfos * m ≤ L.nfos := by nlinarith [mul_nonneg hk1 hf, mul_nonneg (mul_nonneg hk1 hf) m0]
    rw [clamp0_of_nonneg _ (not_lt.mpr a1), clamp0_of_nonneg _ (not_lt.mpr b1)]
    refine ⟨by linarith, by linarith, by linarith, by linarith⟩
  · simp only [h, if_false]
    exact ⟨hn, hf, le_refl _, le_refl _⟩

example : (0 : ℚ) ≤ (1 / 100) ∧ (1 / 100 : ℚ) ≤ 1 := by norm_num

/-- **Dissolved fertiliser never exceeds fertiliser applied — one layer, every temperature.** Both
invariants UMS ≤ DSUMM and NH4UMS ≤ NH4Sum are preserved by the step of `mineral` in any layer, in
the warm branch (moisture factor clamped to [0,1]) and in the frozen branch (mean layer temperature
≤ 0, nitro.go:661-691), and neither counter decreases. The frozen branch has no upper clamp and no
`WG > WMIN` test on its `WG < WRED` formula; what it needs instead is `FrozenOrd`: *if* the top layer
is frozen and drier than WRED, its wilting point lies below WRED — which is what `calcWRed` produces
(WRED = WMIN + 0.6…0.66·(W − WMIN) with WMIN < W, C15). Without it the statement is false
(`C07_dissolved_frozen_order_sharp`). -/
theorem C07_dissolved_le_applied (top : Bool) (dsumm nh4sum wred : ℚ) (L : Layer ℚ) (a : Acc ℚ)
    (hord : top = true → FrozenOrd wred L) (h1 : a.ums ≤ dsumm) (h2 : a.nh4ums ≤ nh4sum) :
    (layer top dsumm nh4sum wred L a).2.ums ≤ dsumm ∧ a.ums ≤ (layer top dsumm nh4sum wred L a).2.ums ∧
    (layer top dsumm nh4sum wred L a).2.nh4ums ≤ nh4sum ∧ a.nh4ums ≤ (layer top dsumm nh4sum wred L a).2.nh4ums :=
  layer_dissolved top dsumm nh4sum wred L a hord h1 h2

/-- The frozen branch alone, with the plain ordering hypothesis WMIN < WRED. -/
theorem C07_dissolved_le_applied_frozen (dsumm nh4sum wred : ℚ) (L : Layer ℚ) (a : Acc ℚ)
    (hfrozen : (L.tdLo + L.tdUp) / 2 ≤ 0) (hord : L.wmin < wred) (h1 : a.ums ≤ dsumm) (h2 : a.nh4ums ≤ nh4sum) :
    (layer true dsumm nh4sum wred L a).2.ums ≤ dsumm ∧ (layer true dsumm nh4sum wred L a).2.nh4ums ≤ nh4sum ∧
    (layer true dsumm nh4sum wred L a).1.dums = 0.4 * miredCold L.wg L.w wred L.wmin L.porges * (dsumm - a.ums) ∧
    miredCold L.wg L.w wred L.wmin L.porges ≤ 1 := by
  obtain ⟨a1, _, a3, _⟩ := layer_dissolved true dsumm nh4sum wred L a (fun _ _ _ => hord) h1 h2
  refine ⟨a1, a3, ?_, (miredCold_unit L.wg L.w wred L.wmin L.porges (fun _ => hord)).2⟩
  have : ¬ 0 < (L.tdLo + L.tdUp) / 2 := not_lt.mpr hfrozen
  simp [layer, this]

/-- **… through one call of `mineral`** (`Mineral.run`: the loop over the mineralisation layers, any
number of layers, every temperature profile). -/
theorem C07_dissolved_le_applied_mineral (dsumm nh4sum wred : ℚ) (ls : List (Layer ℚ)) (a : Acc ℚ)
    (hord : ∀ L ∈ ls.head?, FrozenOrd wred L) (h1 : a.ums ≤ dsumm) (h2 : a.nh4ums ≤ nh4sum) :
    (run dsumm nh4sum wred ls a).2.ums ≤ dsumm ∧ a.ums ≤ (run dsumm nh4sum wred ls a).2.ums ∧
    (run dsumm nh4sum wred ls a).2.nh4ums ≤ nh4sum ∧ a.nh4ums ≤ (run dsumm nh4sum wred ls a).2.nh4ums :=
  go_dissolved dsumm nh4sum wred ls true a (fun _ => hord) h1 h2

/-- **… as an invariant of the run**: over any sequence of fertiliser applications (non-negative
amounts added to DSUMM / NH4Sum), calls of `mineral` (any layers, any temperatures, `FrozenOrd` for the
top layer) and measurement days (DSUMM and UMS reset to 0), starting from a state with
UMS ≤ DSUMM and NH4UMS ≤ NH4Sum (the initial state has all four at 0), both inequalities hold at
the end — hence after every event. -/
theorem C07_dissolved_le_applied_invariant (evs : List (FertPool.Ev ℚ)) (p : FertPool.Pool ℚ)
    (hok : ∀ e ∈ evs, FertPool.EvOk e) (h : FertPool.Inv p) :
    FertPool.Inv (FertPool.runEvs p evs) ∧ ∀ q ∈ FertPool.trace p evs, FertPool.Inv q :=
  ⟨FertPool.runEvs_inv evs p hok h, FertPool.trace_inv evs p hok h⟩

/-- The ordering hypothesis of the frozen branch cannot be dropped: with WRED = 0.19 below the
wilting point 0.20 and a frozen, dry top layer the factor is 20, `mineral` dissolves eight times
what was applied. (No run produces WRED ≤ WMIN[0]: `calcWRed` puts it 60-66 % of the way from the
wilting point to field capacity; the check counts the days on which the hypothesis fails — none.) -/
theorem C07_dissolved_frozen_order_sharp :
    ∃ (L : Layer ℚ) (a : Acc ℚ) (dsumm wred : ℚ), a.ums ≤ dsumm ∧ ¬ FrozenOrd wred L ∧
      dsumm < (layer true dsumm 0 wred L a).2.ums := by
  refine ⟨⟨-1, -1, 0, 0, 0, 3 / 10, 1 / 5, 2 / 5, 3 / 10, 0, 0, 0, 0⟩, ⟨0, 0, 0, 0⟩, 100, 19 / 100, by norm_num, ?_, ?_⟩
  · unfold FrozenOrd; norm_num
  · norm_num [layer, miredCold]

-- the hypotheses are satisfiable: a frozen, dry top layer with WMIN = 0.10 < WRED = 0.22, 30 of 100 kg dissolved
example : FrozenOrd (22 / 100) (⟨-3, -1, 0, 0, 15 / 100, 3 / 10, 1 / 10, 2 / 5, 3 / 10, 0, 0, 0, 0⟩ : Layer ℚ) ∧
    ((30 : ℚ) ≤ 100) := by
  unfold FrozenOrd; norm_num

/-- a year in the life of the four counters: dressing 80 (30 as ammonium), frozen day, warm day,
measurement day, second dressing, warm day -/
def fertYear : List (FertPool.Ev ℚ) :=
  [.fert 80 30,
   .mineral (22 / 100) [⟨-3, -1, 0, 0, 15 / 100, 3 / 10, 1 / 10, 2 / 5, 3 / 10, 900, 40, 0, 0⟩],
   .mineral (22 / 100) [⟨8, 6, 1 / 1000, 1 / 100, 25 / 100, 3 / 10, 1 / 10, 2 / 5, 3 / 10, 900, 40, 0, 0⟩,
                        ⟨6, 5, 1 / 1000, 1 / 100, 25 / 100, 3 / 10, 1 / 10, 2 / 5, 3 / 10, 700, 10, 0, 0⟩],
   .measure, .fert 40 0,
   .mineral (22 / 100) [⟨8, 6, 1 / 1000, 1 / 100, 25 / 100, 3 / 10, 1 / 10, 2 / 5, 3 / 10, 900, 40, 0, 0⟩]]

example : (∀ e ∈ fertYear, FertPool.EvOk e) ∧ FertPool.Inv ⟨0, 0, ⟨0, 0, 0, 0⟩⟩ := by
  refine ⟨?_, by unfold FertPool.Inv; norm_num⟩
  intro e he
  simp only [fertYear, List.mem_cons, List.mem_nil_iff, or_false] at he
  rcases he with rfl | rfl | rfl | rfl | rfl | rfl <;>
    simp [FertPool.EvOk, FrozenOrd] <;> norm_num

/-- **Tillage mixing preserves the profile sums** of every pool for every mixing depth inside the
profile (m ≤ number of layers of the pool arrays, also deeper than the four layers of the
mineralised-amount counters, which are mixed over the layers they have); the clamp of `C1` can
only add. -/
theorem C07_tillage_preserves_sums (m : ℕ) (mix : Bool) (nfos naos minfos minaos c1 : List ℚ)
    (h1 : m ≤ nfos.length) (h2 : m ≤ naos.length) (h3 : m ≤ c1.length) (h4 : minaos.length = minfos.length) :
    (tillage m (m : ℚ) ((min m minfos.length : ℕ) : ℚ) mix nfos naos minfos minaos c1).nfos.sum = nfos.sum ∧
    (tillage m (m : ℚ) ((min m minfos.length : ℕ) : ℚ) mix nfos naos minfos minaos c1).naos.sum = naos.sum ∧
    (tillage m (m : ℚ) ((min m minfos.length : ℕ) : ℚ) mix nfos naos minfos minaos c1).minfos.sum = minfos.sum ∧
    (tillage m (m : ℚ) ((min m minfos.length : ℕ) : ℚ) mix nfos naos minfos minaos c1).minaos.sum = minaos.sum ∧
    c1.sum ≤ (tillage m (m : ℚ) ((min m minfos.length : ℕ) : ℚ) mix nfos naos minfos minaos c1).c1.sum := by
  unfold tillage
  cases mix
  · simp
  · simp only [if_true]
    refine ⟨mix_sum' _ _ h1, mix_sum' _ _ h2, mix_sum' _ _ (Nat.min_le_right _ _), ?_, mix_sum_clamp _ _ h3⟩
    exact mix_sum' _ _ (by rw [h4]; exact Nat.min_le_right _ _)

/-- the input class of the former defect F12: five mixed layers, four counter slots -/
example : (tillage 5 (5 : ℚ) ((min 5 4 : ℕ) : ℚ) true [1, 2, 3, 4, 5, 6] [6, 5, 4, 3, 2, 1] [1, 0, 3, 0] [4, 2, 0, 2]
    [7, 1, 1, 1, 0, 9]).minfos = [1, 1, 1, 1] := by
  simp [tillage, setFirst, sumFrom]; norm_num

end Hermes.Mineral

namespace Hermes.Nitro

/-- **Uptake is credited exactly once per day**, however many sub-steps follow the first: the
uptake counter ends the day at its start value plus the (clamped) uptake of the layers taken in
the first sub-step. -/
theorem C07_uptake_credited_once (i : In ℚ) (rest : List (In ℚ)) :
    (runDay i rest).aufnasum = i.aufnasum + (step { i with first := true }).pe.sum := by
  unfold runDay
  rw [runRest_aufnasum]
  exact (step_first_counters { i with first := true } rfl).1

/-- **Fixation is credited exactly once per day**, however many sub-steps follow the first: the
crop N ends the day at its start value plus the uptake of the layers plus (inside the season) the
day's N fixation. -/
theorem C07_fixation_credited_once (i : In ℚ) (rest : List (In ℚ)) :
    (runDay i rest).pesum = i.pesum + (step { i with first := true }).pe.sum + (if i.inSeason then i.schnorr else 0) := by
  unfold runDay
  rw [runRest_pesum]
  exact (step_first_counters { i with first := true } rfl).2

/-- the input class of the former defect F13: two sub-steps, fixation 1 kg N/ha -/
def fixWitness : In ℚ :=
  { dz := 10, wdt := 1 / 2, dv := 0, first := true, fluss0 := 0, q := [0, 0], qdrain := 0, draidep := 0, outn := 2,
    wg := [1 / 5, 1 / 5, 1 / 5], w := [3 / 10, 3 / 10, 3 / 10], d := [0, 0], c1 := [10, 10], pe := [0, 0], dn := [0, 0],
    stab := -3 / 2, inSeason := true, afterSow := true, schnorr := 1, pesum := 50, aufnasum := 0, outsum := 0,
    nleag := 0, drainloss := 0 }

example : (runDay fixWitness [fixWitness, fixWitness]).pesum
    = 50 + (step { fixWitness with first := true }).pe.sum + 1 := by
  rw [C07_fixation_credited_once]; simp [fixWitness]

end Hermes.Nitro
