package main

// C18 — a crop-parameter override on the batch line equals the same edit in the crop parameter
// file; an out-of-range override is rejected as a whole.
// Correspondence: ParseCropOverwrites + OverwriteCropParameters (and the range validation) vs the
// Lean model (ops cropoverride.*) on every shipped crop file x every overridable parameter x
// stage x organ x valid and invalid values.
// Search: (a) state level — read + override vs read of the edited file, complete state dumps;
// (b) paired whole runs — override on the batch line vs edited copy of the crop file in a private
// parameter folder, and out-of-range override vs no override, result files byte-compared.

import (
	"fmt"
	"os"
	"path/filepath"
	"sort"
	"strings"

	"github.com/zalf-rpm/Hermes2Go/hermes"
	"verifharness/proj"
	"verifharness/vh"
)

func init() { register("C18", checkC18) }

type owParam struct {
	Name   string
	Kind   int     // 0 base, 1 per stage, 2 per stage and organ
	Lo, Hi float64 // valid range
	LoOpen bool    // lower bound excluded
	HiOpen bool    // upper bound excluded
	HiInf  bool    // no upper bound
	Typ    [2]float64
}

// ranges as coded in crop_calibration.go:188-302
var owParams = []owParam{
	{Name: "MAXAMAX", Kind: 0, Lo: 0, Hi: 100, LoOpen: true, Typ: [2]float64{20, 90}},
	{Name: "MINTMP", Kind: 0, Lo: -30, Hi: 50, LoOpen: true, HiOpen: true, Typ: [2]float64{0, 8}},
	{Name: "WUMAXPF", Kind: 0, Lo: 0, Hi: 20, LoOpen: true, Typ: [2]float64{4, 18}},
	{Name: "VELOC", Kind: 0, Lo: 0, Hi: 1, LoOpen: true, Typ: [2]float64{0.2, 1}},
	{Name: "YIFAK", Kind: 0, Lo: 0, Hi: 1, Typ: [2]float64{0.5, 0.95}},
	{Name: "INITCONCNBIOM", Kind: 0, Lo: 0, Hi: 100, Typ: [2]float64{2, 8}},
	{Name: "INITCONCNROOT", Kind: 0, Lo: 0, Hi: 100, Typ: [2]float64{0.5, 3}},
	{Name: "TSUM", Kind: 1, Lo: 0, Hi: 10000, Typ: [2]float64{60, 700}},
	{Name: "BAS", Kind: 1, Lo: -10, Hi: 40, Typ: [2]float64{0, 9}},
	{Name: "VSCHWELL", Kind: 1, Lo: 0, Hi: 100, Typ: [2]float64{0, 50}},
	{Name: "DAYL", Kind: 1, Lo: -24, Hi: 24, Typ: [2]float64{0, 20}},
	{Name: "DLBAS", Kind: 1, Lo: -24, Hi: 24, Typ: [2]float64{0, 8}},
	{Name: "DRYSWELL", Kind: 1, Lo: 0, Hi: 1, Typ: [2]float64{0.3, 1}},
	{Name: "LUKRIT", Kind: 1, Lo: 0, Hi: 1, Typ: [2]float64{0.02, 0.1}},
	{Name: "LAIFKT", Kind: 1, Lo: 0, Hi: 100, Typ: [2]float64{0.0005, 0.003}},
	{Name: "WGMAX", Kind: 1, Lo: 0, Hi: 100, Typ: [2]float64{0.005, 0.03}},
	{Name: "KC", Kind: 1, Lo: 0, LoOpen: true, HiInf: true, Typ: [2]float64{0.3, 1.3}},
	{Name: "PRO", Kind: 2, Lo: 0, Hi: 1, Typ: [2]float64{0, 1}},
	{Name: "DEAD", Kind: 2, Lo: 0, Hi: 1, Typ: [2]float64{0, 0.06}},
}

func owIndex(name string) int {
	for i, p := range owParams {
		if p.Name == name {
			return i
		}
	}
	return -1
}

func (p owParam) key(stage, part int) string {
	switch p.Kind {
	case 1:
		return fmt.Sprintf("c_%s_%d", p.Name, stage)
	case 2:
		return fmt.Sprintf("c_%s_%d_%d", p.Name, stage, part)
	}
	return "c_" + p.Name
}

// text of a value that both the batch line and the crop file can carry (5 characters for the
// fixed-width PRO / DEAD columns)
func (p owParam) text(v float64) string {
	if p.Kind == 2 {
		return fmt.Sprintf("%5.3f", v)
	}
	return fmt.Sprintf("%g", v)
}

func (p owParam) validValue(r *vh.Rng) float64 {
	switch r.Intn(6) {
	case 0:
		if !p.LoOpen {
			return p.Lo
		}
	case 1:
		if !p.HiOpen && !p.HiInf {
			return p.Hi
		}
	}
	dec := 3
	if p.Typ[1] < 0.01 {
		dec = 5
	}
	v := vh.RoundTo(r.Uni(p.Typ[0], p.Typ[1]), dec)
	if p.Kind == 2 {
		v = vh.RoundTo(v, 3)
	}
	if p.LoOpen && v <= p.Lo {
		v = p.Typ[1]
	}
	return v
}

// invalidValue: a value outside the coded range (the excluded bounds themselves included)
func (p owParam) invalidValue(r *vh.Rng) float64 {
	var cands []float64
	cands = append(cands, p.Lo-vh.RoundTo(r.Uni(0.001, 5), 3))
	if p.LoOpen {
		cands = append(cands, p.Lo)
	}
	if !p.HiInf {
		cands = append(cands, p.Hi+vh.RoundTo(r.Uni(0.001, 5), 3))
		if p.HiOpen {
			cands = append(cands, p.Hi)
		}
	}
	// parameters that are divided when they are stored: a value that is out of range as written but
	// would be in range after the division (VELOC/200, concentrations/100)
	switch p.Name {
	case "VELOC":
		cands = append(cands, vh.RoundTo(r.Uni(1.001, 200), 3), vh.RoundTo(r.Uni(1.001, 200), 3))
	case "INITCONCNBIOM", "INITCONCNROOT":
		cands = append(cands, vh.RoundTo(r.Uni(100.001, 10000), 3), vh.RoundTo(r.Uni(100.001, 10000), 3))
	}
	return cands[r.Intn(len(cands))]
}

type owEntry struct {
	P           owParam
	Stage, Part int
	V           float64
	Text        string
}

func (e owEntry) String() string { return e.P.key(e.Stage, e.Part) + "=" + e.Text }

// applyOverrideReal: read the classic file, then parse + apply the override exactly as Run does
// (run.go:77-81, crop.go:82-91).
func applyOverrideReal(env *cropEnv, file, cropFileArg string, entries []owEntry, prior *hermes.VerifCropState, repeat bool) (after hermes.VerifCropState, before hermes.VerifCropState, perr error) {
	g, l := env.newG(prior, repeat)
	hermes.ReadCropParamClassic(file, l, g)
	before = hermes.VerifCropDump(g, l)
	args := map[string]string{"CropFile": cropFileArg}
	for _, e := range entries {
		args[e.P.key(e.Stage, e.Part)] = e.Text
	}
	ow, err := hermes.ParseCropOverwrites(args)
	if err != nil {
		return before, before, err
	}
	ow.OverwriteCropParameters(file, g, l)
	env.drain()
	return hermes.VerifCropDump(g, l), before, nil
}

func entriesLine(es []owEntry) string {
	var b strings.Builder
	fmt.Fprintf(&b, "%d", len(es))
	for _, e := range es {
		fmt.Fprintf(&b, " %d %d %d %s", owIndex(e.P.Name), e.Stage, e.Part, vh.FHex(e.V))
	}
	return b.String()
}

func checkC18(c *vh.Ctx) {
	c.Res.Rule = "state level: every shipped classic crop file x every overridable parameter (7 base, 10 per-stage x every stage, 2 per-organ x every stage x every organ) x valid values (incl. closed bounds) and out-of-range values (incl. excluded bounds), alone and mixed with valid entries: read+override vs read of the edited file, complete state dumps; model correspondence on the same cases; paired whole runs per annual crop x parameter (quick: sample, thorough: every kind x stage x organ): override on the batch line vs edited private copy of the crop file, out-of-range override vs no override, byte comparison of V/Y/C/M; file match: rotations of crops whose parameter file names are prefixes / extensions of one another (WR+WRA+WRC, SOY + variety files, classic and .yml) and permanent crops regrown in consecutive entries, override for exactly one file vs edited copy of exactly that file, names matching no file vs no override; out-of-range values that would be in range after the read-time division (VELOC/200, concentrations/100); session sequences: lines without / with different overrides in one session vs their solo runs; non-trivial = distinct (file, parameter, stage, organ, value class)"
	c18State(c)
	c18Runs(c)
	c18FileMatch(c)
	c18Session(c)
}

func c18State(c *vh.Ctx) {
	env := newCropEnv()
	editDir := filepath.Join(c.Scratch, "edited")
	os.MkdirAll(editDir, 0o755)
	var acases, aimpl, vcases, vimpl []string
	var adesc, vdesc []interface{}
	nEdit := 0
	files := shippedCropFiles(c.Repo)
	perInstance := c.N(1, 4)
	for _, file := range files {
		base := filepath.Base(file)
		lines, err := readLines(file)
		if err != nil {
			continue
		}
		tok, err := tokeniseClassic(lines)
		if err != nil {
			c.Violate("search", "cropfile:"+base+":tokeniser", err.Error(), nil)
			continue
		}
		type inst struct {
			p           owParam
			stage, part int
		}
		var insts []inst
		for _, p := range owParams {
			switch p.Kind {
			case 0:
				insts = append(insts, inst{p, 0, 0})
			case 1:
				for s := 1; s <= tok.NRENTW && s <= 9; s++ {
					insts = append(insts, inst{p, s, 0})
				}
			case 2:
				for s := 1; s <= tok.NRENTW && s <= 9; s++ {
					for o := 1; o <= tok.NRKOM; o++ {
						insts = append(insts, inst{p, s, o})
					}
				}
			}
		}
		repeatModes := []bool{false}
		if tok.Dauer {
			repeatModes = []bool{false, true}
		}
		for _, in := range insts {
			for rep := 0; rep < perInstance; rep++ {
				for _, repeat := range repeatModes {
					var prior *hermes.VerifCropState
					if repeat {
						prior = junkCropState()
					}
					// ---- valid value: override == edit
					v := in.p.validValue(c.Rng)
					e := owEntry{in.p, in.stage, in.part, v, in.p.text(v)}
					replay := map[string]interface{}{"crop_file": file, "override": "CropFile=" + base + " " + e.String(), "permanent_crop_repeat": repeat,
						"how": "ReadCropParamClassic(file) + ParseCropOverwrites + OverwriteCropParameters vs ReadCropParamClassic(file with the same value written into the column), hermes.VerifCropDump"}
					a, before, perr := applyOverrideReal(env, file, base, []owEntry{e}, prior, repeat)
					c.Eval()
					c.Nontrivial(fmt.Sprintf("%s/%s/%d/%d/valid%d/%v", base, in.p.Name, in.stage, in.part, rep, repeat))
					c.Count("override:valid:kind" + fmt.Sprint(in.p.Kind))
					if perr != nil {
						c.Violate("search", "override:"+in.p.Name+":valid-rejected-by-parser", fmt.Sprintf("%s rejected by ParseCropOverwrites: %v", e, perr), replay)
						continue
					}
					el, eerr := editClassic(lines, in.p.Name, in.stage, in.part, e.Text)
					if eerr != nil {
						panic(eerr)
					}
					nEdit++
					ep := filepath.Join(editDir, fmt.Sprintf("e%d", nEdit), base)
					os.MkdirAll(filepath.Dir(ep), 0o755)
					os.WriteFile(ep, []byte(strings.Join(el, "\n")+"\n"), 0o644)
					b := env.readClassic(ep, prior, repeat)
					os.RemoveAll(filepath.Dir(ep))
					if d := diffStates(a, b); len(d) > 0 {
						sig := "override:" + in.p.Name + ":state:field=" + fieldClasses(d)
						if in.p.Name == "TSUM" && fieldClasses(d) == "Tendsum" {
							sig = "override:TSUM:derived-sum-stale"
						}
						c.Violate("search", sig, fmt.Sprintf("%s on %s leaves a state different from reading the edited file: %s (override run: Tendsum=%v, edited file: Tendsum=%v)", e, base, strings.Join(d, " "), a.Tendsum, b.Tendsum), replay)
					}
					if len(diffStates(a, before)) == 0 && len(diffStates(b, before)) != 0 {
						c.Violate("search", "override:"+in.p.Name+":valid-not-applied", fmt.Sprintf("%s on %s was not applied", e, base), replay)
					}
					acases = append(acases, fmt.Sprintf("cropoverride.apply 1 %d %s %s", b2iFmt(repeat), stateLine(&before), entriesLine([]owEntry{e})))
					aimpl = append(aimpl, stateLine(&a))
					adesc = append(adesc, replay)

					// ---- out-of-range value, alone or together with valid entries: nothing applied
					iv := in.p.invalidValue(c.Rng)
					bad := owEntry{in.p, in.stage, in.part, iv, fmt.Sprintf("%g", iv)}
					set := []owEntry{bad}
					if c.Rng.Chance(0.6) {
						for k := 0; k < c.Rng.Range(1, 3); k++ {
							op := owParams[c.Rng.Intn(len(owParams))]
							if op.Name == in.p.Name {
								continue
							}
							st, pa := 0, 0
							if op.Kind >= 1 {
								st = c.Rng.Range(1, minI(tok.NRENTW, 9))
							}
							if op.Kind == 2 {
								pa = c.Rng.Range(1, tok.NRKOM)
							}
							ov := op.validValue(c.Rng)
							set = append(set, owEntry{op, st, pa, ov, op.text(ov)})
						}
					}
					// distinct keys only (the batch line is folded into a map)
					seen := map[string]bool{}
					var uniq []owEntry
					for _, x := range set {
						if !seen[x.P.key(x.Stage, x.Part)] {
							seen[x.P.key(x.Stage, x.Part)] = true
							uniq = append(uniq, x)
						}
					}
					set = uniq
					var strs []string
					for _, x := range set {
						strs = append(strs, x.String())
					}
					sort.Strings(strs)
					replay2 := map[string]interface{}{"crop_file": file, "override": "CropFile=" + base + " " + strings.Join(strs, " "), "out_of_range": bad.String()}
					a2, before2, perr2 := applyOverrideReal(env, file, base, set, prior, repeat)
					c.Eval()
					c.Nontrivial(fmt.Sprintf("%s/%s/%d/%d/invalid%d/%v", base, in.p.Name, in.stage, in.part, rep, repeat))
					c.Count(fmt.Sprintf("override:invalid:kind%d:entries=%d", in.p.Kind, len(set)))
					if perr2 != nil {
						c.Count("override:invalid:rejected-by-parser")
						continue
					}
					if d := diffStates(a2, before2); len(d) > 0 {
						cls := "alone"
						if len(set) > 1 {
							cls = "with-valid-entries"
						}
						c.Violate("search", "override:"+in.p.Name+":out-of-range-applied:"+cls, fmt.Sprintf("out-of-range %s on %s changed the state: %s", bad, base, strings.Join(d, " ")), replay2)
					}
					acases = append(acases, fmt.Sprintf("cropoverride.apply 1 %d %s %s", b2iFmt(repeat), stateLine(&before2), entriesLine(set)))
					aimpl = append(aimpl, stateLine(&a2))
					adesc = append(adesc, replay2)
					// validation verdict
					args := map[string]string{"CropFile": base}
					for _, x := range set {
						args[x.P.key(x.Stage, x.Part)] = x.Text
					}
					if ow, err := hermes.ParseCropOverwrites(args); err == nil {
						ok, _ := ow.VerifIsValidCropOverwrite(tok.NRKOM, tok.NRENTW)
						vcases = append(vcases, fmt.Sprintf("cropoverride.valid %d %d %s", tok.NRKOM, tok.NRENTW, entriesLine(set)))
						vimpl = append(vimpl, fmt.Sprint(b2iFmt(ok)))
						vdesc = append(vdesc, replay2)
						ok1, _ := (func() (bool, error) {
							ow1, _ := hermes.ParseCropOverwrites(map[string]string{"CropFile": base, e.P.key(e.Stage, e.Part): e.Text})
							return ow1.VerifIsValidCropOverwrite(tok.NRKOM, tok.NRENTW)
						})()
						vcases = append(vcases, fmt.Sprintf("cropoverride.valid %d %d %s", tok.NRKOM, tok.NRENTW, entriesLine([]owEntry{e})))
						vimpl = append(vimpl, fmt.Sprint(b2iFmt(ok1)))
						vdesc = append(vdesc, replay)
					}
				}
			}
		}
		// stage / organ index beyond the file: rejected as a whole
		if tok.NRENTW < 9 {
			p := owParams[owIndex("BAS")]
			set := []owEntry{{p, tok.NRENTW + 1, 0, 5, "5"}, {owParams[0], 0, 0, 55, "55"}}
			a, before, perr := applyOverrideReal(env, file, base, set, nil, false)
			c.Eval()
			if perr == nil {
				if d := diffStates(a, before); len(d) > 0 {
					c.Violate("search", "override:stage-index-beyond-file:applied", fmt.Sprintf("override of stage %d of %s (file has %d stages) changed the state: %s", tok.NRENTW+1, base, tok.NRENTW, strings.Join(d, " ")),
						map[string]interface{}{"crop_file": file, "override": "CropFile=" + base + " c_BAS_" + fmt.Sprint(tok.NRENTW+1) + "=5 c_MAXAMAX=55"})
				}
				acases = append(acases, fmt.Sprintf("cropoverride.apply 1 0 %s %s", stateLine(&before), entriesLine(set)))
				aimpl = append(aimpl, stateLine(&a))
				adesc = append(adesc, map[string]interface{}{"crop_file": file, "stage_beyond": tok.NRENTW + 1})
			}
		}
		// other crop file named on the batch line: nothing applied
		{
			set := []owEntry{{owParams[0], 0, 0, 55, "55"}}
			a, before, _ := applyOverrideReal(env, file, "PARAM.other", set, nil, false)
			c.Eval()
			if d := diffStates(a, before); len(d) > 0 {
				c.Violate("search", "override:other-file:applied", "override for another crop file changed the state of "+base, map[string]interface{}{"crop_file": file})
			}
			acases = append(acases, fmt.Sprintf("cropoverride.apply 0 0 %s %s", stateLine(&before), entriesLine(set)))
			aimpl = append(aimpl, stateLine(&a))
			adesc = append(adesc, map[string]interface{}{"crop_file": file, "override_for": "PARAM.other"})
		}
	}
	c.Sample(map[string]interface{}{"crop_files": len(files), "state_level_cases": len(acases)})
	c.Correspond("cropoverride.apply", acases, aimpl, 1e-9, 1e-12, func(i int) interface{} { return adesc[i] })
	c.Correspond("cropoverride.valid", vcases, vimpl, 0, 0, func(i int) interface{} { return vdesc[i] })
}

// editYml writes "parameter := v" into the YAML crop record.
func editYml(y *hermes.CropParam, name string, stage, part int, v float64) error {
	switch name {
	case "MAXAMAX":
		y.MAXAMAX = v
	case "MINTMP":
		y.MINTMP = v
	case "WUMAXPF":
		y.WUMAXPF = v
	case "VELOC":
		y.VELOC = v
	case "YIFAK":
		y.YIFAK = v
	case "INITCONCNBIOM":
		y.INITCONCNBIOM = v
	case "INITCONCNROOT":
		y.INITCONCNROOT = v
	default:
		if stage < 1 || stage > len(y.CropDevelopmentStages) {
			return fmt.Errorf("stage %d beyond the YAML file", stage)
		}
		st := &y.CropDevelopmentStages[stage-1]
		switch name {
		case "TSUM":
			st.TSUM = v
		case "BAS":
			st.BAS = v
		case "VSCHWELL":
			st.VSCHWELL = v
		case "DAYL":
			st.DAYL = v
		case "DLBAS":
			st.DLBAS = v
		case "DRYSWELL":
			st.DRYSWELL = v
		case "LUKRIT":
			st.LUKRIT = v
		case "LAIFKT":
			st.LAIFKT = v
		case "WGMAX":
			st.WGMAX = v
		case "KC":
			st.Kc = v
		case "PRO":
			st.PRO[part-1] = v
		case "DEAD":
			st.DEAD[part-1] = v
		default:
			return fmt.Errorf("unknown parameter %s", name)
		}
	}
	return nil
}

// ---------------------------------------------------------------- paired whole runs

var c18DailyCols = []string{"TEMPdaily", "ETA", "SICKER", "LAI", "OBMAS", "WUMAS", "WORG[0]", "WORG[1]", "WORG[2]", "WORG[3]", "GEHOB", "WUGEH", "AUFNASUM", "PESUM",
	"FKC", "WURZ", "PHYLLO", "C1[0]", "C1[2]", "WG[0][0]", "WG[0][3]", "OUTSUM", "REDUK", "TRREL"}

// cropProject: pre-crop harvested at the start date, then one season of the given crop.
func cropProject(seed uint64, name string, cc proj.CropCal) *proj.Project {
	p := proj.Gen(vh.NewRng(seed), name, proj.Opt{Years: 3, NoCrop: true, MinLayers: 6, Management: true})
	start := p.Start()
	sow := proj.Date{Y: start.Y, M: cc.SowM, D: cc.SowD}
	for sow.Z() <= start.Z()+5 {
		sow.Y++
	}
	hy := sow.Y
	if cc.Winter {
		hy++
	}
	har := proj.Date{Y: hy, M: cc.HarM, D: cc.HarD}
	p.Rot = append(p.Rot[:1], proj.RotEntry{Crop: cc.Code, Sow: sow, Harvest: har, Rex: 50})
	p.Til = nil
	p.DailyCols = c18DailyCols
	p.Cfg["NDeposition"] = "20"
	// every CO2 response method (a derived crop constant may be used by one of them only) at a CO2 level where it matters
	p.Cfg["CO2method"] = fmt.Sprint(1 + int(seed%3))
	p.Cfg["CO2concentration"] = []string{"360", "550", "720"}[int((seed/3)%3)]
	return p
}

func c18Runs(c *vh.Ctx) {
	runs := 0
	crops := proj.Crops
	perCrop := c.N(5, 0)
	for ci, cc := range crops {
		file := filepath.Join(c.Repo, "examples", "parameter", "PARAM."+cc.Code)
		lines, err := readLines(file)
		if err != nil {
			c.Note("no classic file for crop %s", cc.Code)
			continue
		}
		tok, err := tokeniseClassic(lines)
		if err != nil {
			continue
		}
		seed := c.Rng.U64()
		mk := func() *proj.Project { return cropProject(seed, fmt.Sprintf("o%d", ci), cc) }
		root := func(tag string) string { return filepath.Join(c.Scratch, fmt.Sprintf("ow%d_%s", ci, tag)) }
		base := runProject(c, root("base"), mk(), nil)
		runs++
		if base.Err != "" || base.Panic != "" {
			c.Note("base project for crop %s fails: %s %s", cc.Code, base.Err, base.Panic)
			continue
		}
		if !strings.Contains(base.C, cc.Code) {
			c.Count("run:crop-not-harvested:" + cc.Code)
		}
		type inst struct {
			p           owParam
			stage, part int
		}
		var insts []inst
		for _, p := range owParams {
			switch p.Kind {
			case 0:
				insts = append(insts, inst{p, 0, 0})
			case 1:
				for s := 1; s <= tok.NRENTW && s <= 9; s++ {
					insts = append(insts, inst{p, s, 0})
				}
			case 2:
				for s := 1; s <= tok.NRENTW && s <= 9; s++ {
					for o := 1; o <= tok.NRKOM; o++ {
						insts = append(insts, inst{p, s, o})
					}
				}
			}
		}
		var chosen []inst
		if perCrop == 0 {
			chosen = insts
		} else {
			// always one TSUM stage (derived total temperature sum), then a random sample over the kinds
			for _, in := range insts {
				if in.p.Name == "TSUM" && in.stage == minI(3, tok.NRENTW) {
					chosen = append(chosen, in)
				}
				if in.p.Name == "MAXAMAX" { // feeds derived photosynthesis constants
					chosen = append(chosen, in)
				}
			}
			for k := 0; k < perCrop; k++ {
				chosen = append(chosen, insts[c.Rng.Intn(len(insts))])
			}
		}
		for ii, in := range chosen {
			v := in.p.validValue(c.Rng)
			if in.p.Name == "TSUM" {
				v = vh.RoundTo(tok.Stages[in.stage-1].TSUM*c.Rng.Uni(1.3, 1.8), 0)
			}
			e := owEntry{in.p, in.stage, in.part, v, in.p.text(v)}
			el, eerr := editClassic(lines, in.p.Name, in.stage, in.part, e.Text)
			if eerr != nil {
				panic(eerr)
			}
			replay := map[string]interface{}{"crop": cc.Code, "generator_seed": seed, "batch_line_extra": "CropFile=PARAM." + cc.Code + " " + e.String(),
				"edited_file_line": "parameter " + in.p.Name + fmt.Sprintf(" stage %d organ %d := %s in a private copy of PARAM.%s (batch argument parameter=par_edit)", in.stage, in.part, e.Text, cc.Code),
				"how":              "cropProject(seed, name, crop): proj.Gen(Opt{Years:3,NoCrop:true,MinLayers:6,Management:true}) + one season of the crop; run A with the override arguments, run B with parameter=par_edit"}
			po := mk()
			po.Args = append(po.Args, "CropFile=PARAM."+cc.Code, e.P.key(e.Stage, e.Part)+"="+e.Text)
			ro := runProject(c, root(fmt.Sprintf("ov%d", ii)), po, nil)
			pe := mk()
			pe.Args = append(pe.Args, "parameter=par_edit")
			re := runProject(c, root(fmt.Sprintf("ed%d", ii)), pe, func(rt string) error {
				if err := proj.CopyParameterFolderAs(rt, c.Repo, "par_edit"); err != nil {
					return err
				}
				return os.WriteFile(filepath.Join(rt, "par_edit", "PARAM."+cc.Code), []byte(strings.Join(el, "\n")+"\n"), 0o644)
			})
			runs += 2
			c.Eval()
			c.Nontrivial(fmt.Sprintf("run/%s/%s/%d/%d", cc.Code, in.p.Name, in.stage, in.part))
			c.Count("run:override-vs-edit:kind" + fmt.Sprint(in.p.Kind))
			if ro.V != base.V || ro.C != base.C {
				c.Count("run:override-changes-results")
			}
			sig := "override:" + in.p.Name + ":run"
			compareRuns(c, sig, fmt.Sprintf("crop %s: %s on the batch line vs the same value edited into the crop file", cc.Code, e), ro, re, "VYCM", replay)

			// the same pair with YAML crop parameters: override for PARAM.<crop>.yml vs edited YAML file
			if c.Thorough() || ii < 3 {
				py := mk()
				py.Cfg["CropParameterFormat"] = "yml"
				py.Args = append(py.Args, "CropFile=PARAM."+cc.Code+".yml", e.P.key(e.Stage, e.Part)+"="+e.Text)
				ry := runProject(c, root(fmt.Sprintf("yo%d", ii)), py, nil)
				pz := mk()
				pz.Cfg["CropParameterFormat"] = "yml"
				pz.Args = append(pz.Args, "parameter=par_edit")
				rz := runProject(c, root(fmt.Sprintf("ye%d", ii)), pz, func(rt string) error {
					if err := proj.CopyParameterFolderAs(rt, c.Repo, "par_edit"); err != nil {
						return err
					}
					f := filepath.Join(rt, "par_edit", "PARAM."+cc.Code+".yml")
					y, err := hermes.ReadCropParamFromFile(f)
					if err != nil {
						return err
					}
					if err := editYml(&y, in.p.Name, in.stage, in.part, v); err != nil {
						return err
					}
					return hermes.WriteCropParam(f, y)
				})
				runs += 2
				c.Eval()
				c.Nontrivial(fmt.Sprintf("run-yml/%s/%s/%d/%d", cc.Code, in.p.Name, in.stage, in.part))
				c.Count("run:override-vs-edit:yml:kind" + fmt.Sprint(in.p.Kind))
				rpy := map[string]interface{}{"crop": cc.Code, "generator_seed": seed, "config": "CropParameterFormat: yml", "batch_line_extra": "CropFile=PARAM." + cc.Code + ".yml " + e.String(),
					"edited_file": fmt.Sprintf("%s stage %d organ %d := %s in a private copy of PARAM.%s.yml (parameter=par_edit)", in.p.Name, in.stage, in.part, e.Text, cc.Code)}
				compareRuns(c, "override:"+in.p.Name+":run-yml", fmt.Sprintf("crop %s (YAML parameters): %s on the batch line vs the same value edited into the YAML file", cc.Code, e), ry, rz, "VYCM", rpy)
			}

			// out-of-range value (with a valid companion): identical to the run without overrides
			if ii%2 == 0 {
				iv := in.p.invalidValue(c.Rng)
				pi := mk()
				pi.Args = append(pi.Args, "CropFile=PARAM."+cc.Code, in.p.key(in.stage, in.part)+"="+fmt.Sprintf("%g", iv))
				if in.p.Name != "MAXAMAX" {
					pi.Args = append(pi.Args, "c_MAXAMAX=33")
				} else {
					pi.Args = append(pi.Args, "c_MINTMP=6")
				}
				ri := runProject(c, root(fmt.Sprintf("iv%d", ii)), pi, nil)
				runs++
				c.Eval()
				c.Nontrivial(fmt.Sprintf("run/%s/%s/%d/%d/invalid", cc.Code, in.p.Name, in.stage, in.part))
				rp := map[string]interface{}{"crop": cc.Code, "generator_seed": seed, "batch_line_extra": strings.Join(pi.Args, " ")}
				compareRuns(c, "override:"+in.p.Name+":out-of-range:run", fmt.Sprintf("crop %s: out-of-range %s=%g (+ a valid entry) vs no override", cc.Code, in.p.key(in.stage, in.part), iv), base, ri, "VYCM", rp)
			}
		}
		if ci == 0 {
			c.Sample(map[string]interface{}{"kind": "whole-run pair", "crop": cc.Code, "daily_records": strings.Count(base.V, "\n")})
		}
	}
	c.Res.Extra["whole_runs"] = runs
}
