/-
C15 — Soil hydraulic parameters are physically ordered for every parameter source.

Model: HermesModel/SoilParams.lean (hermes/input.go:192-290, 1107-1144, 1184-1408, init.go:90-109,
run.go:359-409), HYPAR.TRU / PARCAP.TRU from HermesModel/Generated/HyparFacts.lean (regenerated from
the repository on every run).  All statements are exact-arithmetic (ℚ) statements about the model.

Reading of the property.  "Ordered" for a layer: 0 < WMIN < W ≤ PORGES < 1.  "Below the groundwater
table": the layer lies entirely below it (its upper edge `i` dm, 0-based index `i`, is ≥ the level).
"The parameters the simulation actually uses": the state the day loop works with after the daily
groundwater update (`dayState`).

What the unchanged code does NOT satisfy is stated as `…_fails_at` theorems (each witness is replayed
on the implementation by harness/cmd/check/c15.go).  F7 (WRED from fractions at two call sites) and F15
(WRED of the table route without the stone factor) were repaired in the repository; the model follows
the repaired code and `C15_wred_between_*` hold for every call site:
  F17  the organic-matter correction of `Hydro` lifts FC above PS on the 846 cells listed in
       `fcGtPsFrom`;                                    `C15_table_fc_gt_ps_fails_at`
  F16  the pedotransfer routes never compare their FC with the pore volume of the soil file;
                                                        `C15_ptf_fc_gt_ps_fails_at`
  F8   the state before the first groundwater change is built differently;
                                                        `C15_first_state_differs_fails_at`
-/
import HermesProofs.SoilParamsGw
import HermesProofs.SoilParamsPtf
import HermesProofs.Ptf4Cert
import HermesProofs.SourceTie
namespace Hermes.SoilParams

/-! ### explicit values -/

/-- Explicit values of the soil file (percent) with 0 < WP < FC ≤ PS < 100 give an ordered layer. -/
theorem C15_explicit_ordered (fka wp gpv : ℚ) (h0 : 0 < wp) (h1 : wp < fka) (h2 : fka ≤ gpv) (h3 : gpv < 100) :
    Ordered (explicitLayer fka wp gpv) := explicitLayer_ordered fka wp gpv h0 h1 h2 h3

example : Ordered (explicitLayer 30 12 42) := C15_explicit_ordered 30 12 42 (by norm_num) (by norm_num) (by norm_num) (by norm_num)

/-! ### pedotransfer functions 2 and 3 (linear) -/

/-- PTF2 (Batjes pF 2.5): 0 < WP < FC < 1 on the whole domain clay ≥ 5, silt ≥ 5, sand = 100 − clay − silt ≥ 5,
C_org 0…6.  (The bound sand ≤ 85 is not needed.) -/
theorem C15_ptf2_ordered (c ton sluf : ℚ) (hc0 : 0 ≤ c) (hc6 : c ≤ 6) (ht : 5 ≤ ton) (hs : 5 ≤ sluf)
    (hsand : 5 ≤ 100 - ton - sluf) :
    0 < (ptf2 c ton sluf).2 ∧ (ptf2 c ton sluf).2 < (ptf2 c ton sluf).1 ∧ (ptf2 c ton sluf).1 < 1 :=
  ptf2_ordered c ton sluf hc0 hc6 ht hs (by linarith)

/-- PTF3 (Batjes pF 1.7): the same. -/
theorem C15_ptf3_ordered (c ton sluf : ℚ) (hc0 : 0 ≤ c) (hc6 : c ≤ 6) (ht : 5 ≤ ton) (hs : 5 ≤ sluf)
    (hsand : 5 ≤ 100 - ton - sluf) :
    0 < (ptf3 c ton sluf).2 ∧ (ptf3 c ton sluf).2 < (ptf3 c ton sluf).1 ∧ (ptf3 c ton sluf).1 < 1 :=
  ptf3_ordered c ton sluf hc0 hc6 ht hs (by linarith)

example : 0 < (ptf2 (1.5 : ℚ) 20 40).2 ∧ (ptf2 (1.5 : ℚ) 20 40).2 < (ptf2 (1.5 : ℚ) 20 40).1 ∧ (ptf2 (1.5 : ℚ) 20 40).1 < 1 :=
  C15_ptf2_ordered 1.5 20 40 (by norm_num) (by norm_num) (by norm_num) (by norm_num) (by norm_num)

/-- On the pedotransfer routes the pore volume is still the one of the soil file: the layer is ordered
exactly when the function's own ordering holds and its FC does not exceed that pore volume. -/
theorem C15_ptf_fc_le_ps_iff (k : Nat) (h : Horizon ℚ) :
    Ordered (ptfLayer k h) ↔
      (0 < (ptf k h.corg h.clay h.silt h.sand).2 ∧ (ptf k h.corg h.clay h.silt h.sand).2 < (ptf k h.corg h.clay h.silt h.sand).1 ∧
       (ptf k h.corg h.clay h.silt h.sand).1 ≤ h.gpv / 100 ∧ h.gpv < 100) := by
  unfold Ordered ptfLayer
  norm_num
  intro _ _ _
  constructor <;> intro hh <;> linarith

/-- F16, witness: PTF2, clay 50 %, silt 45 %, sand 5 %, C_org 0, explicit values FC 30 ≤ PS 35 in the
soil file: field capacity 0.367 > pore volume 0.35. -/
theorem C15_ptf_fc_gt_ps_fails_at :
    ¬ Ordered (ptfLayer 2 witnessF16) := by
  unfold Ordered ptfLayer ptf ptf2 witnessF16
  norm_num

/-! ### the texture table: the whole regenerated table -/

theorem lookupRow_mem (codes vals : List Nat) : ∀ rows : List (List Nat × List Nat),
    lookupRow codes rows = some vals → (codes, vals) ∈ rows := by
  intro rows
  induction rows with
  | nil => intro h; simp [lookupRow] at h
  | cons r t ih =>
    intro h
    obtain ⟨n, v⟩ := r
    simp only [lookupRow] at h
    split at h
    · rename_i hn
      simp at h; subst h; subst hn; exact List.mem_cons_self
    · exact List.mem_cons_of_mem _ (ih h)

/-- Texture route, the whole table: for every texture present in both tables, every density class
1-5, every C_org, every groundwater level and every stone fraction in [0,1) the layer `Hydro` and the
assignment produce is ordered — except on the listed cells (`fcGtPs`, finding F17), where only
FC ≤ PS fails.  `partial`: the exception list is not empty on the unchanged code. -/
theorem C15_table_ordered_partial (codes vals : List Nat) (hrow : lookupRow codes Generated.hyparRows = some vals)
    (hvalid : codes ∈ Generated.parcapTextures) (ld : Nat) (hld : 1 ≤ ld ∧ ld ≤ 5) (c g s : ℚ)
    (hs0 : 0 ≤ s) (hs1 : s < 1) (hnot : fcGtPs codes ld (corgBr c) (gwBr g) = false) :
    Ordered (tableLayer (hydro codes ld c g) s) := by
  have hm := lookupRow_mem codes vals _ hrow
  obtain ⟨h1, h2, h3, _, _, h6, _⟩ := cell_facts (codes, vals) hm hvalid ld hld c g
  unfold hydro
  rw [hrow]
  exact tableLayer_ordered _ s ⟨h1, h2, h6 hnot, h3⟩ hs0 hs1

/-- F17: on every listed cell the corrected field capacity exceeds the pore volume, for every stone
fraction below 1 (the other three relations still hold there). -/
theorem C15_table_fc_gt_ps_fails_at (codes vals : List Nat) (hrow : lookupRow codes Generated.hyparRows = some vals)
    (hvalid : codes ∈ Generated.parcapTextures) (ld : Nat) (hld : 1 ≤ ld ∧ ld ≤ 5) (c g s : ℚ)
    (hs1 : s < 1) (hlisted : fcGtPs codes ld (corgBr c) (gwBr g) = true) :
    (tableLayer (hydro codes ld c g) s).porges < (tableLayer (hydro codes ld c g) s).w := by
  have hm := lookupRow_mem codes vals _ hrow
  obtain ⟨_, _, _, _, _, _, h7⟩ := cell_facts (codes, vals) hm hvalid ld hld c g
  unfold hydro
  rw [hrow]
  exact tableLayer_fc_gt_ps _ s (h7 hlisted) hs1

/-- the exception list is not empty: ULS, density class 1, C_org 5.3 %, groundwater at 99 dm -/
example : fcGtPs [85, 76, 83] 1 (corgBr 5.3) (gwBr 99) = true := by
  have h1 : corgBr 5.3 = 6 := by unfold corgBr; norm_num
  have h2 : gwBr 99 = 5 := by unfold gwBr; norm_num
  rw [h1, h2]; decide
/-- and it is not everything: the same texture with 1 % C_org is ordered -/
example : fcGtPs [85, 76, 83] 1 (corgBr 1) (gwBr 99) = false := by
  have h1 : corgBr 1 = 1 := by unfold corgBr; norm_num
  have h2 : gwBr 99 = 5 := by unfold gwBr; norm_num
  rw [h1, h2]; decide
example : lookupRow [85, 76, 83] Generated.hyparRows = some [39, 33, 30, 26, 22, 20, 48, 40, 34, 11] ∧
    [85, 76, 83] ∈ Generated.parcapTextures := by decide

/-! ### the reduced-mineralisation threshold -/

/-- Fed percent values of one layer with WP < FC, the helper returns a fraction strictly between
that layer's wilting point and field capacity. -/
theorem C15_wred_between (sand : Bool) (wp fc : ℚ) (h : wp < fc) :
    wp / 100 < calcWRed sand wp fc ∧ calcWRed sand wp fc < fc / 100 := calcWRed_between sand wp fc h

/-- call site input.go:216 (explicit route) -/
theorem C15_wred_between_explicit (h : Horizon ℚ) (grw : ℚ) (hl : h.lower ≠ 0) (hf : 0 < h.fka) (hw : h.wp < h.fka) :
    (explicitLayer h.fka h.wp h.gpv).wmin < wredInput 0 h grw ∧ wredInput 0 h grw < (explicitLayer h.fka h.wp h.gpv).w := by
  have hf' : (0.0 : ℚ) < h.fka := by norm_num; exact hf
  unfold wredInput explicitLayer
  simp only [hl, if_false, if_true, hf']
  have := calcWRed_between (isSand h.codes) h.wp h.fka hw
  norm_num
  exact this

/-- call site input.go:267-268 (pedotransfer routes): between the WP and the FC the function returned -/
theorem C15_wred_between_ptf (k : Nat) (hk : k ≠ 0) (h : Horizon ℚ) (grw : ℚ) (hl : h.lower ≠ 0)
    (hw : (ptfLayer k h).wmin < (ptfLayer k h).w) :
    (ptfLayer k h).wmin < wredInput k h grw ∧ wredInput k h grw < (ptfLayer k h).w := by
  unfold wredInput
  simp only [hl, hk, if_false]
  exact calcWRed_of_percent (isSand h.codes) _ _ hw

/-- call site input.go:1204-1207 (`Hydro`, texture-table route, also after a groundwater change): on
every cell of the table and for every stone fraction below 1, WRED lies strictly between the wilting
point and the corrected field capacity of the layer. -/
theorem C15_table_wred_between (codes vals : List Nat) (hrow : lookupRow codes Generated.hyparRows = some vals)
    (hvalid : codes ∈ Generated.parcapTextures) (ld : Nat) (hld : 1 ≤ ld ∧ ld ≤ 5) (c g s : ℚ) (hs1 : s < 1) :
    (tableLayer (hydro codes ld c g) s).wmin < hydroWRed codes (hydro codes ld c g) s ∧
    hydroWRed codes (hydro codes ld c g) s < (tableLayer (hydro codes ld c g) s).w := by
  have hm := lookupRow_mem codes vals _ hrow
  obtain ⟨_, _, _, h4, h5, _, _⟩ := cell_facts (codes, vals) hm hvalid ld hld c g
  unfold hydro
  rw [hrow]
  exact table_wred_between_cell codes _ s h4 h5 hs1

/-- call site run.go:399-400 (backups restored after a groundwater change) and all of the above together:
in the state the day loop works with — before the first groundwater change and after any change, on
every route — WRED lies strictly between WMIN[0] and W[0], provided the top horizon's layer has
WMIN < W ≤ PORGES and (input-time call sites) the threshold set by `Input` lies between them, which
the three theorems above give per route. -/
theorem C15_wred_between_day (k : Nat) (h : Horizon ℚ) (t : List (Horizon ℚ)) (n : Nat) (gw grwInit grw : ℚ)
    (changed : Bool)
    (hlen : ∀ f : Horizon ℚ → Layer ℚ, (expand f 0 (h :: t)).length = n) (hl : 0 < h.lower)
    (hg0 : 0 ≤ grwInit) (hg : 0 ≤ grw)
    (hL : (horizonLayer k h gw).1.wmin < (horizonLayer k h gw).1.w ∧
          (horizonLayer k h gw).1.w ≤ (horizonLayer k h gw).1.porges)
    (hIn : (horizonLayer k h gw).1.wmin < wredInput k h gw ∧ wredInput k h gw < (horizonLayer k h gw).1.w)
    (hTab : k = 0 →
      (tableLayer (hydro h.codes h.ld h.corg grw) h.stein).wmin < hydroWRed h.codes (hydro h.codes h.ld h.corg grw) h.stein ∧
      hydroWRed h.codes (hydro h.codes h.ld h.corg grw) h.stein < (tableLayer (hydro h.codes h.ld h.corg grw) h.stein).w ∧
      (tableLayer (hydro h.codes h.ld h.corg grw) h.stein).w ≤ (tableLayer (hydro h.codes h.ld h.corg grw) h.stein).porges) :
    ∃ y, (dayState k (h :: t) n gw grwInit changed grw).cur[0]? = some y ∧
      y.wmin < (dayState k (h :: t) n gw grwInit changed grw).wred ∧
      (dayState k (h :: t) n gw grwInit changed grw).wred < y.w :=
  dayState_wred_between k h t n gw grwInit grw changed hlen hl hg0 hg hL hIn hTab

/-- the hypotheses are satisfiable: the six-layer witness soil with explicit values -/
example : (horizonLayer 0 witnessF8 5).1.wmin < wredInput 0 witnessF8 5 ∧ wredInput 0 witnessF8 5 < (horizonLayer 0 witnessF8 5).1.w := by
  unfold horizonLayer wredInput calcWRed explicitLayer isSand witnessF8
  norm_num
example : calcWRed false (25 : ℚ) 54 = 4414 / 10000 := by unfold calcWRed; norm_num

/-! ### groundwater -/

/-- Below the groundwater table field capacity equals pore volume: in the state the day loop works
with, before the first change (level `grwInit`) and after a change (level `grw`), every layer whose
upper edge is at or below the table has W = PORGES. -/
theorem C15_below_table_fc_eq_ps (k : Nat) (hs : List (Horizon ℚ)) (n : Nat) (gw grwInit grw : ℚ) (changed : Bool)
    (hg0 : 0 ≤ grwInit) (hg : 0 ≤ grw) (i : Nat) (y : Layer ℚ)
    (hy : (dayState k hs n gw grwInit changed grw).cur[i]? = some y)
    (hbelow : (if changed then grw else grwInit) ≤ (i : ℚ)) : y.w = y.porges :=
  dayState_below_table k hs n gw grwInit grw changed hg0 hg i y hy hbelow

/-- The saturated-zone rules never destroy the ordering: if the layers the routes assign are ordered
(at input time, and on the table route at today's level), every layer of the state the day loop works
with is ordered. -/
theorem C15_day_layers_ordered (k : Nat) (hs : List (Horizon ℚ)) (n : Nat) (gw grwInit grw : ℚ) (changed : Bool)
    (hlen : ∀ f : Horizon ℚ → Layer ℚ, (expand f 0 hs).length = n)
    (hg0 : 0 ≤ grwInit) (hg : 0 ≤ grw)
    (hIn : ∀ h ∈ hs, Ordered (horizonLayer k h gw).1)
    (hTab : k = 0 → ∀ h ∈ hs, Ordered (tableLayer (hydro h.codes h.ld h.corg grw) h.stein)) :
    ∀ y ∈ (dayState k hs n gw grwInit changed grw).cur, Ordered y :=
  dayState_ordered k hs n gw grwInit grw changed hlen hg0 hg hIn hTab

/-- After every groundwater change the parameters (all four per layer, and WRED) are a function of
(backups, static soil data, level) only: two arbitrary histories of changes that end at the same level
`g` give the same parameters.  Hence a table that is back at an earlier level has restored every
layer's parameters — provided a change happened before the earlier visit too (see the next theorem). -/
theorem C15_gw_params_function_of_level (k : Nat) (hs : List (Horizon ℚ)) (n : Nat) (hne : hs ≠ []) (hn : 0 < n)
    (hlen : ∀ f : Horizon ℚ → Layer ℚ, (expand f 0 hs).length = n) (gw grwInit : ℚ)
    (gs1 gs2 : List ℚ) (g : ℚ) :
    ((gs1 ++ [g]).foldl (gwStep k hs n) (initState (inputState k hs gw gw n) grwInit)).cur =
      ((gs2 ++ [g]).foldl (gwStep k hs n) (initState (inputState k hs gw gw n) grwInit)).cur ∧
    ((gs1 ++ [g]).foldl (gwStep k hs n) (initState (inputState k hs gw gw n) grwInit)).wred =
      ((gs2 ++ [g]).foldl (gwStep k hs n) (initState (inputState k hs gw gw n) grwInit)).wred := by
  have hst := inputState_static k hs gw grwInit n hlen
  obtain ⟨a1, b1⟩ := gw_history k hs n hne hn hlen _ gs1 _ hst g
  obtain ⟨a2, b2⟩ := gw_history k hs n hne hn hlen _ gs2 _ hst g
  exact ⟨a1.trans a2.symm, b1.trans b2.symm⟩

/-- F8, witness: six layers, explicit values, groundwater at 5 dm when the soil is read and at the
start (time series with a flat start).  Before the first change layer 5 is saturated (input.go:284-290
starts at round(GW) = 5); after the table has moved and come back to 5 dm it is not (init.go:90-98
starts at int(GRW+1) = 6): same level, different parameters. -/
theorem C15_first_state_differs_fails_at :
    ((dayState 0 [witnessF8] 6 5 5 false 5).cur.map (·.w)) = [3/10, 3/10, 3/10, 3/10, 21/50, 21/50] ∧
    ((dayState 0 [witnessF8] 6 5 5 true 5).cur.map (·.w)) = [3/10, 3/10, 3/10, 3/10, 3/10, 21/50] := by
  decide +kernel

/-- the hypotheses of the groundwater theorems are satisfiable: the witness soil has six layers -/
example : ∀ f : Horizon ℚ → Layer ℚ, (expand f 0 [witnessF8]).length = 6 := by
  intro f; simp [expand, witnessF8]
example : ∀ h ∈ [witnessF8], Ordered (horizonLayer 0 h 5).1 := by
  intro h hh
  simp at hh; subst hh
  unfold horizonLayer witnessF8
  norm_num
  exact C15_explicit_ordered 30 12 42 (by norm_num) (by norm_num) (by norm_num) (by norm_num)

/-! ### pedotransfer functions 1 (multilinear) and 4 (cubic) -/

/-- PTF1 (Toth 2015) on its whole continuous domain — clay ≥ 5, silt ≥ 5, sand = 100 − clay − silt ≥ 5,
C_org 0…6 (the bound sand ≤ 85 is not needed): 0 < WP < FC < 1; in fact WP ≥ 0.04, FC − WP ≥ 0.002
(the minimum 0.00211 is at clay 58.2, silt 36.8, C_org 0), FC ≤ 0.7.  Proved by affinity in
u = 1/(C_org+1) and in silt, then on the edges of the texture triangle (HermesProofs/SoilParamsPtf.lean). -/
theorem C15_ptf1_ordered (c ton sluf : ℚ) (hc0 : 0 ≤ c) (hc6 : c ≤ 6) (ht : 5 ≤ ton) (hs : 5 ≤ sluf)
    (hsand : 5 ≤ 100 - ton - sluf) :
    0 < (ptf1 c ton sluf).2 ∧ (ptf1 c ton sluf).2 < (ptf1 c ton sluf).1 ∧ (ptf1 c ton sluf).1 < 1 := by
  obtain ⟨a, b, d⟩ := ptf1_bounds c ton sluf hc0 hc6 ht hs (by linarith)
  exact ⟨by linarith, by linarith, by linarith⟩

example : 0 < (ptf1 (0 : ℚ) 58 37).2 ∧ (ptf1 (0 : ℚ) 58 37).2 < (ptf1 (0 : ℚ) 58 37).1 ∧ (ptf1 (0 : ℚ) 58 37).1 < 1 :=
  C15_ptf1_ordered 0 58 37 (by norm_num) (by norm_num) (by norm_num) (by norm_num) (by norm_num)

/-- PTF4 (Rawls et al. 2003; a polynomial of degree 5 in three variables, transcribed with the `*` of
input.go PTF4 where the published regression has `+`) on its whole CONTINUOUS domain — C_org 0…6 %,
clay 5…90 %, sand 5…85 %, silt = 100 − clay − sand ≥ 5 %: 0 < WP < FC < 1.  Proved by a verified
interval-subdivision certificate (HermesProofs/Ptf4Cert.lean: centred forms tied to the model's polynomials
by `ring`, interval soundness proved once for reflected expressions, the adaptive subdivision run evaluated
by the kernel).  The minimum of FC − WP is 0.0087 at clay 10, sand 85, C_org 0. -/
theorem C15_ptf4_ordered (c ton ssand : ℚ) (hc0 : 0 ≤ c) (hc6 : c ≤ 6) (ht : 5 ≤ ton) (hs : 5 ≤ ssand)
    (hs85 : ssand ≤ 85) (hsilt : 5 ≤ 100 - ton - ssand) :
    0 < (ptf4 c ton ssand).2 ∧ (ptf4 c ton ssand).2 < (ptf4 c ton ssand).1 ∧ (ptf4 c ton ssand).1 < 1 :=
  ptf4_ordered c ton ssand hc0 hc6 ht hs hs85 (by linarith)

example : 0 < (ptf4 (0 : ℚ) 10 85).2 ∧ (ptf4 (0 : ℚ) 10 85).2 < (ptf4 (0 : ℚ) 10 85).1 ∧ (ptf4 (0 : ℚ) 10 85).1 < 1 :=
  C15_ptf4_ordered 0 10 85 (by norm_num) (by norm_num) (by norm_num) (by norm_num) (by norm_num) (by norm_num)


/-! ### the same four statements about the Go SOURCE of the pedotransfer functions

`Generated.Src.PTF1 … PTF4` are regenerated from hermes/input.go on every run by the translator
(harness/cmd/extract/translate_facts.go); `SourceTie.ptf*_eq_source` proves that the hand-written model equals the
translation.  So these theorems are re-checked against what the code says now. -/

theorem C15_ptf1_source_ordered (c ton sluf : ℚ) (hc0 : 0 ≤ c) (hc6 : c ≤ 6) (ht : 5 ≤ ton) (hs : 5 ≤ sluf)
    (hsand : 5 ≤ 100 - ton - sluf) :
    0 < (Generated.Src.PTF1 c ton sluf).2 ∧ (Generated.Src.PTF1 c ton sluf).2 < (Generated.Src.PTF1 c ton sluf).1 ∧
      (Generated.Src.PTF1 c ton sluf).1 < 1 := by
  rw [← SourceTie.ptf1_eq_source]; exact C15_ptf1_ordered c ton sluf hc0 hc6 ht hs hsand

theorem C15_ptf2_source_ordered (c ton sluf : ℚ) (hc0 : 0 ≤ c) (hc6 : c ≤ 6) (ht : 5 ≤ ton) (hs : 5 ≤ sluf)
    (hsand : 5 ≤ 100 - ton - sluf) :
    0 < (Generated.Src.PTF2 c ton sluf).2 ∧ (Generated.Src.PTF2 c ton sluf).2 < (Generated.Src.PTF2 c ton sluf).1 ∧
      (Generated.Src.PTF2 c ton sluf).1 < 1 := by
  rw [← SourceTie.ptf2_eq_source]; exact C15_ptf2_ordered c ton sluf hc0 hc6 ht hs hsand

theorem C15_ptf3_source_ordered (c ton sluf : ℚ) (hc0 : 0 ≤ c) (hc6 : c ≤ 6) (ht : 5 ≤ ton) (hs : 5 ≤ sluf)
    (hsand : 5 ≤ 100 - ton - sluf) :
    0 < (Generated.Src.PTF3 c ton sluf).2 ∧ (Generated.Src.PTF3 c ton sluf).2 < (Generated.Src.PTF3 c ton sluf).1 ∧
      (Generated.Src.PTF3 c ton sluf).1 < 1 := by
  rw [← SourceTie.ptf3_eq_source]; exact C15_ptf3_ordered c ton sluf hc0 hc6 ht hs hsand

theorem C15_ptf4_source_ordered (c ton ssand : ℚ) (hc0 : 0 ≤ c) (hc6 : c ≤ 6) (ht : 5 ≤ ton) (hs : 5 ≤ ssand)
    (hs85 : ssand ≤ 85) (hsilt : 5 ≤ 100 - ton - ssand) :
    0 < (Generated.Src.PTF4 c ton ssand).2 ∧ (Generated.Src.PTF4 c ton ssand).2 < (Generated.Src.PTF4 c ton ssand).1 ∧
      (Generated.Src.PTF4 c ton ssand).1 < 1 := by
  rw [← SourceTie.ptf4_eq_source]; exact C15_ptf4_ordered c ton ssand hc0 hc6 ht hs hs85 hsilt

example : 0 < (Generated.Src.PTF4 (0 : ℚ) 10 85).2 :=
  (C15_ptf4_source_ordered 0 10 85 (by norm_num) (by norm_num) (by norm_num) (by norm_num) (by norm_num) (by norm_num)).1

end Hermes.SoilParams
