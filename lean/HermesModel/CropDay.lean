/-
Model of the parts of a crop day of `PhytoOut` (hermes/crop.go) that HermesModel/Crop.lean takes as inputs:

* `radia` (crop.go:767-979): light interception, photosynthesis and maintenance respiration after
  Penning de Vries — DLE, GPHOT, MAINT, the maintenance shares MANT, PARi and the sunshine clamp.  Every
  transcendental value (`pow`, `exp`, `log`, `sin`, `cos`) is an input (`RadiaT`), computed on the Go side;
  the arguments of the `log`/`exp` calls that depend on computed values are exposed (`argX`, `argY`, `argC`,
  `argO`) so that the Go side can evaluate the functions at exactly the model's arguments.
* the N-content functions GEHMIN / GEHMAX (crop.go:317-419), nine variants, `exp`/`pow` values as inputs.
* the assimilate bookkeeping (crop.go:212-227, 451-505): GTW = GPHOT + ASPOO, GPPdaily, GPPsum, RespDay,
  dead organ mass WDORG, composed with `Crop.organs` (`growDay`).
* root length density, daily N demand DTGESN with its caps, potential uptake by mass flow (MASS) and
  diffusion (DIFF) and the distribution of the uptake over the rooted layers producing PE[i], SUMPE and
  the N fixation NFIX (crop.go:542-546, 557-562, 608-740), composed with the N-concentration update of
  `Crop` (741-763) (`uptakeDay`).

Not modelled: the regrowth of permanent crops (522-541), the fertiliser-demand prognosis
`SimulateFertilizationAfterPrognose` (crop.go:701, only active for zeit > PROGNOS), the dead-root N
(WUMM) credited to the organic pools (563-568, 658-661).  Polymorphic in the arithmetic (see Num.lean).
Line numbers refer to crop.go before the three lines of the DIFF floor were inserted after line 696 (add 3 below it).
-/
import HermesModel.Num
import HermesModel.Crop
namespace Hermes.CropDay
open Hermes.Crop

section
variable {α : Type} [Add α] [Sub α] [Mul α] [Div α] [Neg α] [LT α] [DecidableLT α] [LE α] [DecidableLE α]
  [OfNat α 0] [OfNat α 1] [OfScientific α] [Conv α]

/-- Go `x == 0` (no NaN) with the order only -/
def isZero (x : α) : Bool := !(decide (x < 0)) && !(decide (0 < x))
/-- Go `x == 1` (no NaN) -/
def isOne (x : α) : Bool := !(decide (x < 1)) && !(decide (1 < x))

/-- `math.Pi` -/
def pi : α := 3.141592653589793

/-! ### radia (crop.go:767-979) -/

/-- the transcendental values `radia` uses, in the order of the code -/
structure RadiaT (α : Type) where
  pow2co : α   -- math.Pow(2, (TEMP-10)/10)                                  crop.go:788
  ktvmax : α   -- math.Exp(68800·((TEMP+273)-298)/(298·(TEMP+273)·8.314))    792
  ktkc : α     -- the same with 65800                                       793
  ktko : α     -- the same with 1400                                        794
  t2 : α       -- math.Pow(TEMP, 2)                                          801, 802
  t3 : α       -- math.Pow(TEMP, 3)
  cosSC : α    -- math.Cos(2·π·TAG/365)                                      837
  sslae : α    -- math.Sin((90+DEC-LAT)·π/180)                               875
  logX : α     -- math.Log(argX)                                             876
  logY : α     -- math.Log(argY)                                             878
  e8 : α       -- math.Exp(-.8·LAI)                                          881, 898
  eC : α       -- math.Exp(argC) = exp(-MAPHC/MIPHC)                         894
  eO : α       -- math.Exp(argO) = exp(-MAPHO/MIPHO)                         910
  teff : α     -- math.Pow(2, .1·TEMP - 2.5)                                 959

structure RadiaIn (α : Type) where
  dl : α        -- astronomical day length, effective and photoperiodic day length, RDN, DRC of CalculateDayLenght
  dle : α
  dlp : α
  rdn : α
  drc : α
  co2meth : Nat
  temptyp : Nat   -- 1 = C3
  co2konz : α
  temp : α
  mintmp : α
  maxamax : α
  rad : α
  sund : α
  lai : α
  lured : α
  trrel : α
  dryswell : α    -- DRYSWELL[INTWICK]
  vswellOne : Bool  -- crop ∈ {SM, K, WR, SG, WW, WG}
  dt : α
  radsum : α
  parsum : α
  pariOld : α
  worg : List α
  mairt : List α
  mantOld : List α

/-- crop.go:813-826: temperature response of AMAX, C3 crops -/
def amaxC3 (mx t mintmp : α) : α :=
  if t < mintmp then 0
  else if t < 10.0 then mx * t / 10.0 * 0.4
  else if t < 15.0 then mx * (0.4 + (t - 10.0) / 5.0 * 0.5)
  else if t < 25.0 then mx * (0.9 + (t - 15.0) / 10.0 * 0.1)
  else if t < 35.0 then mx * (1 - (t - 25.0) / 10.0)
  else 0

/-- crop.go:847-865: temperature response of AMAX, C4 crops -/
def amaxC4 (mx t mintmp : α) : α :=
  if t < mintmp then 0
  else if t < 9.0 then mx * t / 10.0 * 0.0555
  else if t < 16.0 then mx * (0.05 + (t - 9.0) / 7.0 * 0.75)
  else if t < 18.0 then mx * (0.8 + (t - 16.0) * 0.07)
  else if t < 20.0 then mx * (0.94 + (t - 18.0) * 0.03)
  else if 20.0 ≤ t ∧ t ≤ 30.0 then mx
  else if t < 36.0 then mx * (1 - (t - 30.0) * 0.0083)
  else if t < 42.0 then mx * (1 - (t - 36.0) * 0.0065)
  else 0

/-- crop.go:790-808 (CO2METH 3, Long 1991 / Mitchell 1995): (cocomp, amax) -/
def amaxLong (i : RadiaIn α) (t : RadiaT α) : α × α :=
  let fakamax := i.maxamax / 34.695
  let vcmax := 98.0 * fakamax * t.ktvmax
  let mkc := 460.0 * t.ktkc
  let mko := 210.0 * t.ktko
  let oi := 210.0 + (0.047 - 0.0013087 * i.temp + 0.000025603 * t.t2 - 0.00000021441 * t.t3) / 0.026934
  let ci := i.co2konz * 0.7 * (1.674 - 0.061294 * i.temp + 0.0011688 * t.t2 - 0.0000088741 * t.t3) / 0.73547
  let cocomp := 0.5 * 0.21 * vcmax * oi / (vcmax * mko)
  let a := (ci - cocomp) * vcmax / (ci + mkc * (1 + oi / mko)) * 1.656
  (cocomp, if i.temp < i.mintmp then 0 else a)

/-- crop.go:787-808: CO2 compensation point -/
def cocompOf (i : RadiaIn α) (t : RadiaT α) : α :=
  if i.co2meth = 1 then 17.5 * t.pow2co else if i.co2meth = 3 then (amaxLong i t).1 else 0

/-- crop.go:782-811: light use efficiency EFF -/
def effOf (i : RadiaIn α) (t : RadiaT α) : α :=
  if i.co2meth = 1 then (i.co2konz - cocompOf i t) / (i.co2konz + 2.0 * cocompOf i t) * 0.5 else 0.5

/-- crop.go:831-843 (CO2METH 2): CO2 factor of AMAX -/
def kco2 (i : RadiaIn α) (t : RadiaT α) : α :=
  let kc : α × α :=
    if 0 < i.rad then (220.0 + 0.158 * i.rad * 20.0, 80.0 - 0.0036 * i.rad * 20.0)
    else
      let sc := 1367.0 * (1 + 0.033 * t.cosSC)
      let ext := sc * i.rdn / 10000.0
      let glob := ext * (0.19 + 0.55 * i.sund / i.dl)
      (220.0 + 0.158 * glob, 80.0 - 0.0036 * glob)
  ((i.co2konz - kc.2) / (kc.1 + i.co2konz - kc.2)) / ((350.0 - kc.2) / (kc.1 + 350.0 - kc.2))

/-- crop.go:812-866: AMAX before the floor -/
def amaxRaw (i : RadiaIn α) (t : RadiaT α) : α :=
  if i.temptyp = 1 then
    let a0 := if i.co2meth = 3 then (amaxLong i t).2 else amaxC3 i.maxamax i.temp i.mintmp
    if i.co2meth = 1 then a0 * (i.co2konz - cocompOf i t) / (350.0 - cocompOf i t)
    else if i.co2meth = 2 then a0 * kco2 i t
    else a0
  else amaxC4 i.maxamax i.temp i.mintmp

/-- crop.go:867-869: AMAX has the floor 0.1 -/
def amaxOf (i : RadiaIn α) (t : RadiaT α) : α :=
  let a := amaxRaw i t
  if a < 0.1 then 0.1 else a

/-- crop.go:870-872: DLE = 0.1 when it is 0 on a day with DL > 0 -/
def dleOf (i : RadiaIn α) : α := if isZero i.dle ∧ 0 < i.dl then 0.1 else i.dle

/-- crop.go:873-874: EFFE = (1 − REFLC)·EFF -/
def effe (i : RadiaIn α) (t : RadiaT α) : α := (1 - 0.08) * effOf i t

/-- arguments of the two `math.Log` calls (crop.go:876, 878) -/
def argX (i : RadiaIn α) (t : RadiaT α) : α :=
  1 + 0.45 * i.drc / (dleOf i * 3600.0) * effe i t / (t.sslae * amaxOf i t)
def argY (i : RadiaIn α) (t : RadiaT α) : α :=
  1 + 0.55 * i.drc / (dleOf i * 3600.0) * effe i t / ((5.0 - t.sslae) * amaxOf i t)

/-- crop.go:877-880: PHCH (clear sky, closed canopy) -/
def phch (i : RadiaIn α) (t : RadiaT α) : α :=
  let p1 := t.sslae * amaxOf i t * dleOf i * t.logX / (1 + t.logX)
  let p2 := (5.0 - t.sslae) * amaxOf i t * dleOf i * t.logY / (1 + t.logY)
  0.95 * (p1 + p2) + 20.5

def phc3 (i : RadiaIn α) (t : RadiaT α) : α := phch i t * (1 - t.e8)
def phc4 (i : RadiaIn α) (t : RadiaT α) : α := i.dl * i.lai * amaxOf i t

/-- crop.go:883-890, 899-906: (min, max) of two numbers, `a < b` deciding -/
def minMax (a b : α) : α × α := if a < b then (a, b) else (b, a)
/-- crop.go:891-893, 907-909 -/
def miFix (m : α) : α := if isZero m then 0.000001 else m

/-- `-MA/MI` -/
def negDiv (ma mi : α) : α := -ma / mi

/-- argument of `math.Exp` in PHCL (crop.go:894) -/
def argC (i : RadiaIn α) (t : RadiaT α) : α :=
  negDiv (minMax (phc3 i t) (phc4 i t)).2 (miFix (minMax (phc3 i t) (phc4 i t)).1)
def phcl (i : RadiaIn α) (t : RadiaT α) : α :=
  miFix (minMax (phc3 i t) (phc4 i t)).1 * (1 - t.eC)

/-- crop.go:895-897 (overcast sky) -/
def zOf (i : RadiaIn α) (t : RadiaT α) : α :=
  0.2 * i.drc / (dleOf i * 3600.0) * effe i t / (5.0 * amaxOf i t)
def phoh (i : RadiaIn α) (t : RadiaT α) : α :=
  0.9935 * (5.0 * amaxOf i t * dleOf i * zOf i t / (1 + zOf i t)) + 1.1
def pho3 (i : RadiaIn α) (t : RadiaT α) : α := phoh i t * (1 - t.e8)
/-- argument of `math.Exp` in PHOL (crop.go:910) -/
def argO (i : RadiaIn α) (t : RadiaT α) : α :=
  negDiv (minMax (pho3 i t) (phc4 i t)).2 (miFix (minMax (pho3 i t) (phc4 i t)).1)
def phol (i : RadiaIn α) (t : RadiaT α) : α :=
  miFix (minMax (pho3 i t) (phc4 i t)).1 * (1 - t.eO)

/-- crop.go:911-918 -/
def dgac (i : RadiaIn α) (t : RadiaT α) : α := if i.lai - 5.0 < 0 then phcl i t else phch i t
def dgao (i : RadiaIn α) (t : RadiaT α) : α := if i.lai - 5.0 < 0 then phol i t else phoh i t

/-- crop.go:922-924: sunshine hours are cut at DLE -/
def sundClamp (i : RadiaIn α) : α := if dleOf i < i.sund then dleOf i else i.sund

/-- crop.go:929-935: overcast fraction, clamped to [0,1] -/
def fov (i : RadiaIn α) : α := clamp01 ((i.drc - 1000000.0 * i.rad * 1) / (0.8 * i.drc))

/-- crop.go:919-937: daily gross assimilation DTGA (kg CO2/ha/d) -/
def dtga (i : RadiaIn α) (t : RadiaT α) : α :=
  if isZero i.rad then
    let s := sundClamp i
    s / dleOf i * dgac i t + (1 - s / dleOf i) * dgao i t
  else
    fov i * dgao i t + (1 - fov i) * dgac i t

/-- crop.go:944-953 -/
def vswell (i : RadiaIn α) : α :=
  if isOne i.lured then i.dryswell else if i.vswellOne then 1 else 0.8

/-- crop.go:943-956: GPHOT before the maintenance test -/
def gphot0 (i : RadiaIn α) (t : RadiaT α) : α :=
  let g := dtga i t * 30.0 / 44.0
  if i.trrel < vswell i then g * i.trrel else g

/-- crop.go:960-965 -/
def mainorg (i : RadiaIn α) : List α := List.zipWith (· * ·) i.worg i.mairt
def maints (i : RadiaIn α) : α := sumFrom 0 (mainorg i)
/-- crop.go:966-968 -/
def mant (i : RadiaIn α) : List α := (mainorg i).map (· / maints i)

/-- crop.go:970-974 -/
def maint0 (i : RadiaIn α) (t : RadiaT α) : α :=
  if gphot0 i t < maints i * t.teff then gphot0 i t else maints i * t.teff

structure RadiaOut (α : Type) where
  dle : α
  dlp : α
  gphot : α
  maint : α
  mant : List α
  pari : α
  parsum : α
  radsum : α
  sund : α

/-- `radia` (crop.go:767-979). On a day without daylight (DL ≤ 0) nothing is changed and GPHOT = MAINT = 0. -/
def radia (i : RadiaIn α) (t : RadiaT α) : RadiaOut α :=
  if i.dl ≤ 0 then
    { dle := i.dle, dlp := i.dlp, gphot := 0, maint := 0, mant := i.mantOld, pari := i.pariOld, parsum := i.parsum,
      radsum := i.radsum, sund := i.sund }
  else
    let m := maint0 i t
    let pari := dtga i t / amaxOf i t * effe i t
    { dle := dleOf i, dlp := i.dlp, gphot := if i.temp < i.mintmp then m else gphot0 i t, maint := m, mant := mant i,
      pari := pari, parsum := i.parsum + pari,
      radsum := if isZero i.rad then i.radsum else i.radsum + i.rad * i.dt * 1,
      sund := if isZero i.rad then sundClamp i else i.sund }

/-! ### N-content functions (crop.go:317-419) -/

structure NfnIn (α : Type) where
  ngefkt : Nat
  wrsg : Bool      -- crop ∈ {WR, SG}
  phyllo : α
  obmas : α
  worg3 : α        -- WORG[3]
  org : α          -- WORG[SubOrgan-1] or 0
  rga : α
  tendsum : α
  gehminOld : α
  gehmaxOld : α
  tmin : α         -- the value of exp / pow in the GEHMIN formula of the branch taken
  tmax : α         -- the same for GEHMAX

/-- (GEHMIN, GEHMAX) -/
def nfn (i : NfnIn α) : α × α :=
  if i.ngefkt = 1 then
    if i.phyllo < 200.0 then (0.0415, 0.06)
    else if i.wrsg then (5.1 * i.tmin / 100.0, 8.0 * i.tmax / 100.0)
    else (5.5 * i.tmin / 100.0, 8.1 * i.tmax / 100.0)
  else if i.ngefkt = 2 then
    (if i.phyllo < 263.0 then 0.035 else 0.035 - 0.024645 * ((1 - i.tmin) * (1 - i.tmin)),
     if i.phyllo < 142.0 then 0.049 else 0.049 - 0.037883841 * ((1 - i.tmax) * (1 - i.tmax)))
  else if i.ngefkt = 3 then
    if i.obmas < 1000.0 then (0.045, 0.06) else (0.045 * i.tmin, 0.06 * i.tmax)
  else if i.ngefkt = 4 then
    if i.obmas + i.worg3 < 1000.0 then (0.045, 0.06) else (0.0135 + 0.0403 * i.tmin, 0.0285 + 0.0403 * i.tmax)
  else if i.ngefkt = 5 then
    if i.obmas + i.org < 1100.0 then (i.rga, 0.06) else (i.rga * i.tmin, 0.06 * i.tmax)
  else if i.ngefkt = 6 then
    if i.phyllo < 400.0 then (0.0415, 0.06) else (5.5 * i.tmin / 100.0, 8.1 * i.tmax / 100.0)
  else if i.ngefkt = 7 then
    if i.obmas < 1000.0 then (0.0448, 0.0615) else (0.0448 * i.tmin, 0.0615 * i.tmax)
  else if i.ngefkt = 8 then
    if i.phyllo < 200.0 * i.tendsum / 1260.0 then (0.0415, 0.06)
    else if i.wrsg then (5.1 * i.tmin / 100.0, 8.0 * i.tmax / 100.0)
    else (5.5 * i.tmin / 100.0, 8.1 * i.tmax / 100.0)
  else if i.ngefkt = 9 then
    if i.obmas + i.worg3 < 1000.0 then (0.045, 0.06) else (0.0135 + 0.0403 * i.tmin, 0.0285 + 0.0403 * i.tmax)
  else (i.gehminOld, i.gehmaxOld)

/-! ### assimilate bookkeeping of the day (crop.go:212-227, 451-505) -/

/-- crop.go:461: respiration of one organ (growth 30 % + maintenance), in kg C/ha -/
def respOrgan (e : OrganEnv α) (p : OrganPar α) : α :=
  (e.gtw * 0.3 * (p.proPrev + (p.proCur - p.proPrev) * e.sumI / e.tsumI) * e.reduk - (e.maint * p.mant * 0.3) + e.maint * p.mant)
    * 12.0 / 30.0 / 10.0 * e.dt

/-- crop.go:499-502: dead mass of an organ; kept below the living mass -/
def wdorgUpd (dt w wd d : α) : α :=
  let x := wd + d * dt
  if w - x ≤ 0 then w - 0.001 else x

def wdorgList (dt : α) : List α → List α → List α → List α
  | w :: ws, wd :: wds, d :: ds => wdorgUpd dt w wd d :: wdorgList dt ws wds ds
  | _, _, _ => []

/-- the shares MANT of `radia` go into the organ parameters -/
def withMant : List (OrganPar α × α × α) → List α → List (OrganPar α × α × α)
  | (p, w, d) :: rest, m :: ms => ({ p with mant := m }, w, d) :: withMant rest ms
  | rest, [] => rest
  | [], _ => []

structure GrowOut (α : Type) where
  rad : RadiaOut α
  org : OrgOut α
  gtw : α
  gppdaily : α
  gppsum : α
  respday : α
  wdorg : List α

/-- One day of growth of an emerged crop (crop.go:206-227, 451-517): LAI floor, `radia`, GTW = GPHOT + ASPOO,
GPP bookkeeping, the organ loop of `Crop.organs` with MAINT and MANT of `radia`, RespDay, WDORG.
`ri.lai` is the LAI before the call (the floor is applied here); `e.gtw`, `e.maint` and the `mant` fields of
`orgs` are ignored (they are produced here). -/
def growDay (ri : RadiaIn α) (rt : RadiaT α) (e : OrganEnv α) (aspoo gppsum gehalt laimax0 pesum0 : α) (above : List Nat)
    (orgs : List (OrganPar α × α × α)) (wdorg : List α) : GrowOut α :=
  let r := radia { ri with lai := laiFloor ri.lai } rt
  let gtw := r.gphot + aspoo
  let e1 : OrganEnv α := { e with gtw := gtw, maint := r.maint }
  let orgs1 := withMant orgs r.mant
  let o := organs e1 gehalt ri.lai laimax0 pesum0 above orgs1
  let gpp := r.gphot * 12.0 / 30.0 / 10.0
  { rad := r, org := o, gtw := gtw, gppdaily := gpp, gppsum := gppsum + gpp,
    respday := sumFrom 0 (orgs1.map (fun x => respOrgan e1 x.1)),
    wdorg := wdorgList e.dt o.worg wdorg o.dgorg }

/-! ### root length density (crop.go:608-657) -/

/-- crop.go:611-620: root radius of layer `i` (1-based); the constant of the fallback is folded by the Go
compiler: (.020 − 19·.001)/2 = 0.0005 -/
def wradOf (beet : Bool) (i : Nat) : α :=
  if beet then 0.01
  else
    let r : α := 0.020 - Conv.ofNat i * 0.001
    if r ≤ 0 then 0.0005 else r

/-- crop.go:633: root fresh mass down to the lower boundary of a layer, `eq` = exp(−Qrez·depth) -/
def rfw (wumas eq : α) : α := wumas * (1 - eq) / 100000.0 * 100.0 / 7.0

/-- crop.go:629-651: (WUDICH, WUANT) of the rooted layers; `eqs` = (exp(−Qrez·Tiefe), exp(−Qrez·(Tiefe−DZ))) per layer -/
def rootLayers (beet : Bool) (wumas dz : α) : Nat → α → List (α × α) → List (α × α)
  | _, _, [] => []
  | i, prev, (e, em) :: rest =>
    let f := rfw wumas e
    let w : α := wradOf beet i
    let den := if 1 < i then fabs (f - prev) / (w * w * pi) / dz else fabs f / (w * w * pi) / dz
    let ant := if 1 < i then (1 - e) - (1 - em) else 1 - e
    (den, ant) :: rootLayers beet wumas dz (i + 1) f rest

/-- crop.go:653-657: total root length -/
def wulaenOf (dz : α) (wudich : List α) : α := sumFrom 0 (wudich.map (· * dz))

/-! ### N demand (crop.go:542-546, 557-562, 662-687) -/

/-- crop.go:663-681: maximum uptake rate per cm root; classes: 0 = ORH, WRA, SE, LET, WCA, ONI, CEL, GAR, CAR, PMK;
1 = SM; 2 = ZR; 3 = all others -/
def maxup (cls : Nat) (phyllo tendsum : α) : α :=
  if cls = 0 then 0.09145 - 0.015725 * (phyllo / 1300.0)
  else if cls = 1 then 0.074 - 0.01 * (phyllo / tendsum)
  else if cls = 2 then 0.05645 - 0.01 * (phyllo / tendsum)
  else 0.03145 - 0.015725 * (phyllo / 1300.0)

/-- crop.go:542-546: difference to the maximum N content (0 while the crop has not emerged) -/
def demandRaw (beet active : Bool) (gehmax obmas wumas worg3 wgmax pesum dt : α) : α :=
  if active then
    if beet then (gehmax * obmas + (wumas + worg3) * wgmax - pesum) * dt
    else (gehmax * obmas + wumas * wgmax - pesum) * dt
  else 0

/-- crop.go:557-562: at most 6 kg N/ha/d, not negative -/
def demandClamp (dt d : α) : α :=
  let d1 := if 6.0 * dt < d then 6.0 * dt else d
  if d1 < 0 then 0 else d1

/-- crop.go:683-687: cap by root length × maximum uptake rate (not for legumes) -/
def demandCap (legum : Bool) (wulaen mx dt d : α) : α :=
  if wulaen * mx * dt < d ∧ legum = false then wulaen * mx * dt else d

/-! ### potential uptake and its distribution (crop.go:688-740) -/

/-- a rooted layer -/
structure ULayer (α : Type) where
  c1 : α       -- mineral N (kg N/ha)
  tp : α       -- water uptake (cm/d)
  wg : α       -- water content
  ad : α       -- diffusion factor of the texture
  wrad : α     -- root radius
  wudich : α   -- root length density
  ewg : α      -- math.Exp(WG·10)
  sq : α       -- math.Sqrt(π·WUDICH)

/-- crop.go:693: N arriving with the transpiration stream -/
def massOf (dt dz : α) (l : ULayer α) : α := l.tp * (l.c1 / (l.wg * dz)) * dt
/-- crop.go:695 -/
def dCoef (l : ULayer α) : α := 2.14 * (l.ad * l.ewg) / l.wg
/-- crop.go:696: N arriving by diffusion before the floor; negative when the concentration of the soil solution is
below 0.000014 -/
def diffRaw (dt : α) (l : ULayer α) : α :=
  (dCoef l * l.wg * 2.0 * pi * l.wrad * (l.c1 / 1000.0 / l.wg - 0.000014) * l.sq) * l.wudich * 1000.0 * dt

/-- crop.go:696-699: DIFF has the floor 0 (a layer without mineral N does not lower the diffusion supply SUMDIFF of
the others — the repair of the C09 finding `sum-exceeds-demand:negative-diffusion-term`) -/
def diffOf (dt : α) (l : ULayer α) : α :=
  let d := diffRaw dt l
  if d < 0 then 0 else d

/-- crop.go:690-703: (C1, MASS, DIFF) per rooted layer; computed for the first ten layers only, 0 below
(the arrays are zero-initialised at every call). `idx` is the 0-based index of the head. -/
def massDiff (dt dz : α) : Nat → List (ULayer α) → List (α × α × α)
  | _, [] => []
  | idx, l :: ls =>
    (if idx + 1 < 11 then (l.c1, massOf dt dz l, diffOf dt l) else (l.c1, 0, 0)) :: massDiff dt dz (idx + 1) ls

/-- TRNSUM, SUMDIFF: the code accumulates the first ten layers; the entries below are 0 (x + 0 = x) -/
def trnsumOf (md : List (α × α × α)) : α := sumFrom 0 (md.map (·.2.1))
def sumdiffOf (md : List (α × α × α)) : α := sumFrom 0 (md.map (·.2.2))

/-- crop.go:708-716: share of a layer before the limits -/
def pePre (dtgesn trnsum sumdiff : α) (m : α × α × α) : α :=
  if dtgesn ≤ trnsum then dtgesn * m.2.1 / trnsum
  else if dtgesn - trnsum < sumdiff then m.2.1 + (dtgesn - trnsum) * m.2.2 / sumdiff
  else m.2.1 + m.2.2

/-- crop.go:719-724: not more than the mineral N of the layer above 0.75 kg N/ha, not negative -/
def peClamp (c1 pe : α) : α :=
  let p := if c1 - 0.75 < pe then c1 - 0.75 else pe
  if p < 0 then 0 else p

/-- crop.go:707-727 -/
def peOne (dtgesn trnsum sumdiff : α) (m : α × α × α) : α :=
  if 0 < dtgesn then peClamp m.1 (pePre dtgesn trnsum sumdiff m) else 0

/-- crop.go:730-738: N fixation of legumes covers what the soil did not deliver, at most 74 % of the demand -/
def nfixOf (legum : Bool) (dtgesn sumpe : α) : α :=
  if legum then (if 0.74 * dtgesn < dtgesn - sumpe then 0.74 * dtgesn else dtgesn - sumpe) else 0

structure UptakeCore (α : Type) where
  pe : List α       -- PE of the rooted layers
  sumpe : α
  nfix : α
  trnsum : α
  sumdiff : α
  massum : α
  diffsum : α

/-- crop.go:688-740 for the rooted layers `ls` (index 0 … int(min(WURZ, GRW)) − 1) -/
def uptakeCore (legum : Bool) (dt dz dtgesn massum diffsum : α) (ls : List (ULayer α)) : UptakeCore α :=
  let md := massDiff dt dz 0 ls
  let trn := trnsumOf md
  let sd := sumdiffOf md
  let pe := md.map (peOne dtgesn trn sd)
  let sumpe := sumFrom 0 pe
  { pe := pe, sumpe := sumpe, nfix := nfixOf legum dtgesn sumpe, trnsum := trn, sumdiff := sd,
    massum := if 0 < dtgesn then sumFrom massum (md.map (·.2.1)) else massum,
    diffsum := if 0 < dtgesn then sumFrom diffsum (md.map (·.2.2)) else diffsum }

/-- soil state of a layer as `PhytoOut` reads it -/
structure SoilL (α : Type) where
  c1 : α
  tp : α
  wg : α
  ad : α
  ewg : α

def mkLayers (beet : Bool) : Nat → List (SoilL α) → List (α × α) → List α → List (ULayer α)
  | i, s :: ss, (den, _) :: rs, q :: qs =>
    { c1 := s.c1, tp := s.tp, wg := s.wg, ad := s.ad, wrad := wradOf beet i, wudich := den, ewg := s.ewg, sq := q }
      :: mkLayers beet (i + 1) ss rs qs
  | _, _, _, _ => []

structure UptakeIn (α : Type) where
  beet : Bool
  legum : Bool
  active : Bool       -- the crop has emerged (SUM[0] ≥ TSUM[0])
  maxupClass : Nat
  grw : α
  dt : α
  dz : α
  gehmax : α
  obmas : α           -- after the organ update
  wumas : α
  worg3 : α
  wgmax : α           -- WGMAX[INTWICK]
  pesum : α           -- after the deduction for dead leaves / stems
  phyllo : α
  tendsum : α
  massum : α
  diffsum : α
  wumasPre : α        -- WUMAS, OBMAS, GEHOB, WUGEH before the call
  obmasPre : α
  gehobPre : α
  wugehPre : α
  eqs : List (α × α)  -- per rooted layer 1 … WURZ
  soil : List (SoilL α)   -- layers 1 … int(min(WURZ, GRW))
  sq : List α
  peOld : List α      -- PE[0 … N−1] before the call

structure UptakeOut (α : Type) where
  wudich : List α
  wuant : List α
  wulaen : α
  dtgesn : α
  core : UptakeCore α
  pe : List α        -- PE[0 … N−1] after the call
  wugeh : α
  gehob : α

/-- number of layers the uptake loops run over: int(min(WURZ, GRW)) (crop.go:689-690, 705-706) -/
def uptakeLayers (wurz : Nat) (grw : α) : Nat := Conv.truncNat (fmin (Conv.ofNat wurz : α) grw)

/-- The N part of one call of PhytoOut (crop.go:542-546, 557-562, 608-763; annual crop). -/
def uptakeDay (i : UptakeIn α) : UptakeOut α :=
  let rl := rootLayers i.beet i.wumas i.dz 1 0 i.eqs
  let wudich := rl.map (·.1)
  let wulaen := wulaenOf i.dz wudich
  let d0 := demandRaw i.beet i.active i.gehmax i.obmas i.wumas i.worg3 i.wgmax i.pesum i.dt
  let d1 := demandClamp i.dt d0
  let d2 := demandCap i.legum wulaen (maxup i.maxupClass i.phyllo i.tendsum) i.dt d1
  let m := uptakeLayers i.eqs.length i.grw
  let ls := mkLayers i.beet 1 (i.soil.take m) rl i.sq
  let c := uptakeCore i.legum i.dt i.dz d2 i.massum i.diffsum ls
  let wumalt : α := if i.active then i.wumasPre else 0
  let obalt0 : α := if i.active then i.obmasPre else 0
  let gehalt : α := if i.active then i.gehobPre else 0
  let conc : α × α :=
    if i.beet then
      let obalt := if i.active then i.obmasPre + i.worg3 else 0
      let w := wugehBeet wumalt i.wumas obalt i.obmas i.worg3 i.wugehPre c.sumpe i.wgmax
      let gh := gehobBeet i.pesum c.sumpe i.wumas w i.obmas i.worg3
      (wugehBeetFinal i.pesum c.sumpe i.wumas w i.obmas i.worg3 obalt gehalt gh, gh)
    else
      let w := wugehUpdate wumalt i.wumas obalt0 i.obmas i.wugehPre c.sumpe c.nfix i.wgmax
      (w, gehobUpdate i.pesum c.sumpe c.nfix i.wumas w i.obmas)
  { wudich := wudich, wuant := rl.map (·.2), wulaen := wulaen, dtgesn := d2, core := c,
    pe := c.pe ++ i.peOld.drop c.pe.length, wugeh := conc.1, gehob := conc.2 }

end
end Hermes.CropDay
