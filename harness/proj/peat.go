package proj

import "verifharness/vh"

// PeatTextures: the organic (bog / fen) textures present in both HYPAR.TRU and PARCAP.TRU. A profile
// whose first horizon has one of them is a "marsh land soil" for HERMES: run.go calls Denitmo
// instead of Denitr.
var PeatTextures = []string{"HN", "HH1", "HH2", "HH3", "HH4"}

// MakePeat turns the generated soil of p into a peat profile: organic textures in every horizon
// (table route for the hydraulic parameters: explicit capacities and stones removed), high organic
// carbon in the topsoil. The profile needs at least nine layers, because Denitmo reads the three
// 30 cm blocks down to 90 cm; MakePeat reports false (and leaves p alone) when it is shallower.
func MakePeat(p *Project, r *vh.Rng) bool {
	if p.N() < 9 {
		return false
	}
	for i := range p.Soil {
		h := &p.Soil[i]
		h.Texture = PeatTextures[r.Intn(len(PeatTextures))]
		h.FC, h.WP, h.PV = 0, 0, 0
		h.Stone = 0
		h.Bulk = 0
		h.Corg = vh.RoundTo(r.Uni(8, 30)/float64(i+1), 2)
	}
	p.Cfg["PTF"] = "0"
	return true
}
