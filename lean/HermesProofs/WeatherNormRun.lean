/-
The whole run with the normalisation passes in place (lemmas for `C04_weather_of_day_normalised…` in
HermesProps/C04.lean): the day loop on the normalised per-year arrays consumes, on every simulated
day, the normalised cell of the record of the calendar date of ZEIT.
-/
import HermesProofs.WeatherNorm
import HermesProofs.RatInst
set_option linter.unusedSectionVars false
namespace Hermes.Weather
open Hermes.Calendar Hermes.DayLoop

/-! ### the year slots in use -/

theorem lookup2_some_mem {π : Type} (i j : Nat) (v : π) : ∀ (l : List (Nat × Nat × π)), lookup2 i j l = some v → (i, j, v) ∈ l := by
  intro l
  induction l with
  | nil => intro h; simp [lookup2] at h
  | cons c rest ih =>
    obtain ⟨a, b, w⟩ := c
    intro h
    simp only [lookup2] at h
    by_cases hc : a = i ∧ b = j
    · rw [if_pos hc] at h
      simp only [Option.some.injEq] at h
      obtain ⟨rfl, rfl⟩ := hc
      subst h
      exact List.mem_cons_self ..
    · rw [if_neg hc] at h
      exact List.mem_cons_of_mem _ (ih h)

/-- loop invariant of the multi-year readers: every cell written lies in a year slot below `yrz` -/
def SlotsInv {π : Type} (cap : Nat) (s : MState π) : Prop :=
  (∀ c ∈ s.store.cells, c.1 < s.yrz) ∧ (s.first = true → s.store.cells = []) ∧
  (s.first = false → 1 ≤ s.yrz ∧ s.yrz ≤ cap)

theorem multiStep_slots {π : Type} (sy cap : Nat) (s : MState π) (r : Rec π) (hinv : SlotsInv cap s) :
    (∀ s', multiStep sy cap s r = .cont s' → SlotsInv cap s') ∧
    (∀ s', multiStep sy cap s r = .stop s' → ∀ c ∈ s'.store.cells, c.1 < s'.yrz) := by
  obtain ⟨h1, h2, h3⟩ := hinv
  unfold multiStep
  simp only
  by_cases hb : r.bad = true
  · rw [if_pos hb]; exact ⟨fun _ h => by simp at h, fun _ h => by simp at h⟩
  rw [if_neg hb]
  by_cases hs : r.year < sy
  · rw [if_pos hs]
    refine ⟨fun s' h => ?_, fun _ h => by simp at h⟩
    simp only [StepRes.cont.injEq] at h
    subst h
    exact ⟨h1, h2, h3⟩
  rw [if_neg hs]
  by_cases hsw : (!s.first && decide (r.doy = 1) && !switchOk s r) = true
  · rw [if_pos hsw]; exact ⟨fun _ h => by simp at h, fun _ h => by simp at h⟩
  rw [if_neg hsw]
  by_cases hd : r.doy ≠ (advance s.first (s.T + 1) s.yrz r.doy).1
  · rw [if_pos hd]; exact ⟨fun _ h => by simp at h, fun _ h => by simp at h⟩
  rw [if_neg hd]
  -- the year slot chosen for this record
  have ha : 1 ≤ (advance s.first (s.T + 1) s.yrz r.doy).2 ∧
      (∀ c ∈ s.store.cells, c.1 < (advance s.first (s.T + 1) s.yrz r.doy).2) ∧
      (∀ c ∈ s.store.cells, c.1 < (advance s.first (s.T + 1) s.yrz r.doy).2 - 1 ∨ (advance s.first (s.T + 1) s.yrz r.doy).2 ≤ cap) := by
    unfold advance
    cases hf : s.first
    · obtain ⟨a, b⟩ := h3 hf
      by_cases h1d : r.doy = 1
      · simp only [h1d, if_true, Bool.false_eq_true, if_false]
        refine ⟨by omega, fun c hc => by have := h1 c hc; omega, fun c hc => by have := h1 c hc; left; omega⟩
      · simp only [h1d, if_false, Bool.false_eq_true]
        refine ⟨a, h1, fun c hc => Or.inr b⟩
    · simp only [if_true]
      rw [h2 hf]
      exact ⟨by omega, by simp, by simp⟩
  generalize advance s.first (s.T + 1) s.yrz r.doy = a at ha
  obtain ⟨a1, a2, a3⟩ := ha
  by_cases hcap : a.2 > cap
  · rw [if_pos hcap]
    refine ⟨fun _ h => by simp at h, fun s' h => ?_⟩
    simp only [StepRes.stop.injEq] at h
    subst h
    intro c hc
    show c.1 < a.2 - 1
    rcases a3 c hc with h | h
    · exact h
    · omega
  · rw [if_neg hcap]
    refine ⟨fun s' h => ?_, fun _ h => by simp at h⟩
    simp only [StepRes.cont.injEq] at h
    subst h
    refine ⟨?_, fun hf => by simp at hf, fun _ => ⟨a1, by show a.2 ≤ cap; omega⟩⟩
    intro c hc
    simp only [Store.put, List.mem_cons] at hc
    rcases hc with rfl | hc
    · show a.2 - 1 < a.2; omega
    · exact a2 c hc

theorem readMultiFrom_slots {π : Type} (sy cap : Nat) (recs : List (Rec π)) :
    ∀ (s ms : MState π), SlotsInv cap s → readMultiFrom sy cap s recs = some ms → ∀ c ∈ ms.store.cells, c.1 < ms.yrz := by
  induction recs with
  | nil =>
    intro s ms hinv h
    simp only [readMultiFrom, Option.some.injEq] at h
    subst h; exact hinv.1
  | cons r rest ih =>
    intro s ms hinv h
    obtain ⟨hc, hst⟩ := multiStep_slots sy cap s r hinv
    simp only [readMultiFrom] at h
    cases hm : multiStep sy cap s r with
    | cont s' => rw [hm] at h; exact ih s' ms (hc s' hm) h
    | stop s' =>
      rw [hm] at h
      simp only [Option.some.injEq] at h
      subst h; exact hst _ hm
    | gap => rw [hm] at h; simp at h

theorem readMulti_slots {π : Type} (sy cap : Nat) (recs : List (Rec π)) (ms : MState π)
    (h : readMulti sy cap recs = some ms) (i j : Nat) (v : π) (hg : ms.store.get i j = some v) : i < ms.yrz := by
  have := readMultiFrom_slots sy cap recs {} ms ⟨by simp, by simp, by simp⟩ h (i, j, v) (lookup2_some_mem i j v _ hg)
  exact this

section
variable {α : Type} [Add α] [Mul α] [Div α] [LT α] [DecidableLT α] [BEq α]
  [OfNat α 0] [OfNat α 2] [OfNat α 10] [OfScientific α]

/-! ### written cells stay written -/

theorem get_setCell_isSome (s : Store (Day α)) (y i y' i' : Nat) (d : Day α) (h : (s.get y' i').isSome) :
    ((setCell s y i d).get y' i').isSome := by
  simp only [setCell, Store.get, lookup2]
  split
  · rfl
  · exact h

theorem foldl_assign_isSome (F : Store (Day α) → Nat × Nat → Day α) (ps : List (Nat × Nat)) :
    ∀ (s : Store (Day α)) (y i : Nat), (s.get y i).isSome → ((ps.foldl (assign F) s).get y i).isSome := by
  induction ps with
  | nil => intro s y i h; exact h
  | cons p rest ih =>
    intro s y i h
    simp only [List.foldl_cons]
    exact ih _ y i (get_setCell_isSome s p.1 p.2 y i _ h)

theorem normalise_isSome (nv : α) (corr : List α) (yrz : Nat) (s : Store (Day α)) (y i : Nat) (h : (s.get y i).isSome) :
    ((normalise nv corr yrz s).get y i).isSome := by
  unfold normalise transformS replaceMissingS
  simp only
  exact foldl_assign_isSome _ _ _ y i (foldl_assign_isSome _ _ _ y i h)

theorem get_of_isSome (s : Store (Day α)) (y i : Nat) (h : (s.get y i).isSome) : s.get y i = some (cellAt s y i) := by
  unfold cellAt
  cases hg : s.get y i with
  | none => rw [hg] at h; simp at h
  | some v => rfl

/-- the normalised value of a cell from the raw value and the two neighbour cells the code reads -/
def normPure (nv : α) (corr : List α) (leap : Bool) (i : Nat) (c : Day α) (pn : Option (Day α × Day α)) : Day α :=
  transformPure corr leap i (fillPure nv c pn)

/-- the parts of the normalised value that do not depend on the neighbours -/
theorem normPure_local (nv : α) (corr : List α) (leap : Bool) (i : Nat) (c : Day α) (pn : Option (Day α × Day α)) :
    (normPure nv corr leap i c pn).reg = regenT (fillZero nv c.reg) (corr.getD (corrMonth (corrDoy leap (i + 1))) 0) ∧
    (normPure nv corr leap i c pn).radi = parT (fillZero nv c.radi) ∧
    (normPure nv corr leap i c pn).win = windFloor c.win := by
  cases pn <;> exact ⟨rfl, rfl, rfl⟩

end

/-- a value that is present is consumed unchanged (exact arithmetic) -/
theorem normPure_present (nv : ℚ) (corr : List ℚ) (leap : Bool) (i : Nat) (c : Day ℚ) (pn : Option (Day ℚ × Day ℚ)) :
    (c.tmp ≠ nv → (normPure nv corr leap i c pn).tmp = c.tmp) ∧
    (c.verd ≠ nv → (normPure nv corr leap i c pn).verd = c.verd) ∧
    (c.sund ≠ nv → (normPure nv corr leap i c pn).sund = c.sund) := by
  cases pn with
  | none =>
    refine ⟨fun h => ?_, fun h => ?_, fun h => ?_⟩ <;> simp [normPure, transformPure, fillPure, fillZero, h]
  | some x =>
    obtain ⟨p, n⟩ := x
    refine ⟨fun h => ?_, fun h => ?_, fun h => ?_⟩ <;> simp [normPure, transformPure, fillPure, fillMean, fillZero, h]

/-- a missing value with both neighbours present becomes their mean (temperature and saturation
deficit; sunshine likewise unless the mean is itself the missing-value code) -/
theorem normPure_mean (nv : ℚ) (corr : List ℚ) (leap : Bool) (i : Nat) (c p n : Day ℚ) :
    (c.tmp = nv → p.tmp ≠ nv → n.tmp ≠ nv → (normPure nv corr leap i c (some (p, n))).tmp = (p.tmp + n.tmp) / 2) ∧
    (c.verd = nv → p.verd ≠ nv → n.verd ≠ nv → (normPure nv corr leap i c (some (p, n))).verd = (p.verd + n.verd) / 2) ∧
    (c.sund = nv → p.sund ≠ nv → n.sund ≠ nv → (p.sund + n.sund) / 2 ≠ nv →
      (normPure nv corr leap i c (some (p, n))).sund = (p.sund + n.sund) / 2) := by
  refine ⟨fun h1 h2 h3 => ?_, fun h1 h2 h3 => ?_, fun h1 h2 h3 h4 => ?_⟩ <;>
    simp [normPure, transformPure, fillPure, fillMean, fillZero, h1, h2, h3]
  exact fun h => absurd h h4

/-! ### the whole run, multi-year layouts -/

theorem runMultiN_weather_of_day (nv : ℚ) (corr : List ℚ) (recs : List (Rec (Day ℚ))) (anjahr cap smon stg ndays : Nat)
    (hv : ∀ r ∈ recs, ValidRec r) (hg : GapFree recs)
    (hstart : ValidDate (anjahr - 1900) smon stg) (hn : 0 < ndays)
    (hend : masdat (anjahr - 1900) smon stg + ndays ≤ 72685)
    (hcov : ∀ k, k < ndays → ∃ r, RecordOfDay recs (masdat (anjahr - 1900) smon stg + k) r ∧ r.year < anjahr + cap) :
    ∃ days, runMultiN nv corr recs anjahr cap (masdat (anjahr - 1900) smon stg) (ztdat (anjahr - 1900) smon stg) ndays = some days ∧
      days.map (·.zeit) = List.range' (masdat (anjahr - 1900) smon stg) ndays ∧
      ∀ d ∈ days, ∃ r mon tg pn, RecordOfDay recs d.zeit r ∧ kalenderDate d.zeit = some (r.year, mon, tg) ∧
        r.year = 1900 + d.j ∧ r.doy = d.tagNum ∧
        d.val = some (normPure nv corr (daysInYear r.year == 366) (r.doy - 1) r.val pn) ∧
        corrMonth (corrDoy (daysInYear r.year == 366) (r.doy - 1 + 1)) = mon - 1 := by
  have hd0 := isDay_of_date hstart
  obtain ⟨r0, hr0, hr0y, _⟩ := covered_record recs anjahr cap _ _ ndays hd0 hcov 0 hn (anjahr - 1900) _ (by simpa using hd0)
  have hj0 : 1900 + (anjahr - 1900) = anjahr := by have := hstart.1; omega
  have hfy : firstYear anjahr recs = anjahr := firstYear_eq anjahr recs hg ⟨r0, hr0.1, by omega⟩
  obtain ⟨ms, hread, hA⟩ := readMulti_aligned anjahr cap recs hv hg
  rw [hfy] at hA
  have hAl : AlignedStore recs anjahr cap ms.store := hA
  have hJ : JarMax recs anjahr cap (normalise nv corr ms.yrz ms.store) := by
    intro r hr h1 h2
    obtain ⟨a, b, q, hq, c, e⟩ := hAl.jarMax r hr h1 h2
    obtain ⟨m1, j1⟩ := normalise_maxAt nv corr ms.yrz ms.store (r.year - anjahr)
    exact ⟨by rw [j1]; exact a, by rw [m1]; exact b, q, hq, c, by rw [m1]; exact e⟩
  obtain ⟨st, days, hinit, hrun, hz, hall⟩ := multi_loop_on_store recs anjahr cap smon stg ndays _ hv hg hstart hn hend hcov hJ
  refine ⟨days, by simp only [runMultiN, hread, hinit]; exact hrun, hz, ?_⟩
  intro d hd
  obtain ⟨r, hr, e1, e2, c1, c2, hval⟩ := hall d hd
  obtain ⟨hget, hjar, hmax, _⟩ := hAl r hr.1 c1 c2
  have hvr := hv r hr.1
  have hy : r.year - anjahr < ms.yrz := readMulti_slots anjahr cap recs ms hread _ _ _ hget
  have hi : r.doy - 1 < ms.store.maxAt (r.year - anjahr) := by have := hvr.2.1; omega
  obtain ⟨n1, n2⟩ := normalise_cell nv corr ms.yrz ms.store (r.year - anjahr) (r.doy - 1) hy hi
  have hsome := normalise_isSome nv corr ms.yrz ms.store (r.year - anjahr) (r.doy - 1) (by rw [hget]; rfl)
  have hraw : cellAt ms.store (r.year - anjahr) (r.doy - 1) = r.val := by unfold cellAt; rw [hget]; rfl
  have hr' := hr
  obtain ⟨_, mon, tg, hk, hzt⟩ := hr'
  refine ⟨r, mon, tg, neighbours ((List.range ms.yrz).map ms.store.maxAt) ms.yrz (filled nv ms.yrz ms.store) ms.store
    (r.year - anjahr) (r.doy - 1), hr, hk, e1, e2, ?_, ?_⟩
  · rw [hval, get_of_isSome _ _ _ hsome, n1, n2, hraw, hjar]
    rfl
  · -- the monthly factor is that of the month of the calendar date
    have hd1 : 1 ≤ r.doy := hvr.2.1
    have e3 : r.doy - 1 + 1 = r.doy := by omega
    rw [e3]
    have hz1 : 1 ≤ d.zeit ∧ d.zeit ≤ 72684 := by
      have hm : d.zeit ∈ days.map (·.zeit) := List.mem_map_of_mem hd
      rw [hz, List.mem_range'_1] at hm
      have := hd0.2.2.2.2
      have := masdat_jan1 (anjahr - 1900)
      have := hd0.2.2.1
      omega
    obtain ⟨hvd, _, _⟩ := kalender_inv hz1.1 hz1.2 hk
    have := preco_month (r.year - 1900) mon tg hvd
    have e4 : 1900 + (r.year - 1900) = r.year := by have h1 := hvd.1; clear * - h1; omega
    rw [e4, hzt] at this
    exact this

/-! ### the whole run, one file per year -/

theorem numberFrom_map_fst {π ρ : Type} (f : Nat × π → ρ) : ∀ (vs : List π) (T : Nat),
    (numberFrom T vs).map (fun l => (l.1, f l)) = numberFrom T (((numberFrom T vs).map (fun l => (l.1, f l))).map (·.2)) := by
  intro vs
  induction vs with
  | nil => intro T; rfl
  | cons v rest ih =>
    intro T
    simp only [numberFrom, List.map_cons]
    rw [← ih (T + 1)]

theorem numberFrom_length {π : Type} : ∀ (vs : List π) (T : Nat), (numberFrom T vs).length = vs.length := by
  intro vs
  induction vs with
  | nil => intro T; rfl
  | cons v rest ih => intro T; simp [numberFrom, ih]

theorem numberFrom_getElem {π : Type} : ∀ (vs : List π) (T k : Nat) (h : k < (numberFrom T vs).length),
    (numberFrom T vs)[k] = (T + k, vs[k]'(by rw [numberFrom_length] at h; exact h)) := by
  intro vs
  induction vs with
  | nil => intro T k h; simp [numberFrom] at h
  | cons v rest ih =>
    intro T k h
    cases k with
    | zero => simp [numberFrom]
    | succ k' =>
      simp only [numberFrom, List.getElem_cons_succ]
      rw [ih (T + 1) k' (by simpa [numberFrom] using h)]
      simp; omega

/-- the payloads of a year file after `WetterK`'s two passes -/
def normVals (nv : ℚ) (corr : List ℚ) (year : Nat) (vs : List (Day ℚ)) : List (Day ℚ) :=
  (normLines nv corr year (numberFrom 1 vs)).map (·.2)

theorem normLines_numberFrom (nv : ℚ) (corr : List ℚ) (year : Nat) (vs : List (Day ℚ)) :
    normLines nv corr year (numberFrom 1 vs) = numberFrom 1 (normVals nv corr year vs) := by
  unfold normVals normLines
  exact numberFrom_map_fst _ vs 1

theorem normVals_length (nv : ℚ) (corr : List ℚ) (year : Nat) (vs : List (Day ℚ)) :
    (normVals nv corr year vs).length = vs.length := by
  unfold normVals normLines
  simp [numberFrom_length]

theorem normVals_getElem (nv : ℚ) (corr : List ℚ) (year : Nat) (vs : List (Day ℚ)) (hne : vs ≠ [])
    (hn : vs.length ≤ daysInYear year) (k : Nat) (hk : k < vs.length) :
    ∃ pn, (normVals nv corr year vs)[k]'(by rw [normVals_length]; exact hk) =
      normPure nv corr (daysInYear year == 366) k vs[k] pn := by
  obtain ⟨_, b, c, d⟩ := readYearFile_aligned year ({} : Store (Day ℚ)) vs hne hn
  have c' := c hne
  have hcell := normalise_cell nv corr 1 (readYearFile year ({} : Store (Day ℚ)) (some (numberFrom 1 vs))).1 0 k (by omega)
    (by rw [c']; exact hk)
  obtain ⟨n1, n2⟩ := hcell
  refine ⟨neighbours (List.map (readYearFile year ({} : Store (Day ℚ)) (some (numberFrom 1 vs))).1.maxAt (List.range 1)) 1
        (filled nv 1 (readYearFile year ({} : Store (Day ℚ)) (some (numberFrom 1 vs))).1)
        (readYearFile year ({} : Store (Day ℚ)) (some (numberFrom 1 vs))).1 0 k, ?_⟩
  have hraw : cellAt (readYearFile year ({} : Store (Day ℚ)) (some (numberFrom 1 vs))).1 0 k = vs[k] := by
    unfold cellAt; rw [d k hk]; rfl
  unfold normVals normLines
  simp only [List.getElem_map]
  rw [numberFrom_getElem vs 1 k (by rw [numberFrom_length]; exact hk)]
  simp only
  have e : 1 + k - 1 = k := by omega
  rw [e, n1, n2, hraw, b]
  rfl

/-- **One file per year, whole run, normalisation included.** -/
theorem runPerYearN_weather_of_day (nv : ℚ) (corr : List ℚ) (files : Nat → Option (List (Nat × Day ℚ)))
    (vals : Nat → List (Day ℚ)) (anjahr smon stg ndays yL monL tgL : Nat)
    (hstart : ValidDate (anjahr - 1900) smon stg) (hn : 0 < ndays)
    (hend : masdat (anjahr - 1900) smon stg + ndays ≤ 72685)
    (hlast : kalenderDate (masdat (anjahr - 1900) smon stg + (ndays - 1)) = some (yL, monL, tgL))
    (hfiles : ∀ y, anjahr ≤ y → y ≤ yL → files y = some (numberFrom 1 (vals y)) ∧ (vals y).length ≤ daysInYear y)
    (hfull : ∀ y, anjahr ≤ y → y < yL → (vals y).length = daysInYear y)
    (hreach : ztdat (yL - 1900) monL tgL ≤ (vals yL).length) :
    ∃ days, runPerYearN nv corr files anjahr (masdat (anjahr - 1900) smon stg) (ztdat (anjahr - 1900) smon stg) ndays = some days ∧
      days.map (·.zeit) = List.range' (masdat (anjahr - 1900) smon stg) ndays ∧
      ∀ d ∈ days, ∃ mon tg pn, kalenderDate d.zeit = some (1900 + d.j, mon, tg) ∧ ztdat d.j mon tg = d.tagNum ∧
        ∃ h : d.tagNum - 1 < (vals (1900 + d.j)).length,
          d.val = some (normPure nv corr (daysInYear (1900 + d.j) == 366) (d.tagNum - 1) (vals (1900 + d.j))[d.tagNum - 1] pn) ∧
          corrMonth (corrDoy (daysInYear (1900 + d.j) == 366) (d.tagNum - 1 + 1)) = mon - 1 := by
  -- the year files as the day loop sees them
  have hcovRaw := yearfiles_covered files vals anjahr smon stg ndays yL monL tgL hstart hn hend hlast hfiles hfull hreach
  have hcovN : ∀ k, k < ndays → ∃ y mon tg, kalenderDate (masdat (anjahr - 1900) smon stg + k) = some (y, mon, tg) ∧
      (fun y => (files y).map (normLines nv corr y)) y = some (numberFrom 1 ((fun y => normVals nv corr y (vals y)) y)) ∧
      ((fun y => normVals nv corr y (vals y)) y).length ≤ daysInYear y ∧
      ztdat (y - 1900) mon tg ≤ ((fun y => normVals nv corr y (vals y)) y).length := by
    intro k hk
    obtain ⟨y, mon, tg, a, b, c, e⟩ := hcovRaw k hk
    refine ⟨y, mon, tg, a, ?_, ?_, ?_⟩
    · simp only [b, Option.map_some]
      rw [normLines_numberFrom]
    · simp only [normVals_length]; exact c
    · simp only [normVals_length]; exact e
  obtain ⟨days, hrun, hz, hall⟩ := runPerYear_weather_of_day (fun y => (files y).map (normLines nv corr y))
    (fun y => normVals nv corr y (vals y)) anjahr smon stg ndays hstart hn hend hcovN
  refine ⟨days, hrun, hz, ?_⟩
  intro d hd
  obtain ⟨mon, tg, hk, hzt, hlt, hval⟩ := hall d hd
  have hlt' : d.tagNum - 1 < (vals (1900 + d.j)).length := by
    have := hlt; simp only [normVals_length] at this; exact this
  -- the year is one of the covered years: its file is within the year's length
  have hm : d.zeit ∈ days.map (·.zeit) := List.mem_map_of_mem hd
  rw [hz, List.mem_range'_1] at hm
  obtain ⟨k, hkk, e⟩ : ∃ k, k < ndays ∧ d.zeit = masdat (anjahr - 1900) smon stg + k := ⟨d.zeit - masdat (anjahr - 1900) smon stg, by omega, by omega⟩
  obtain ⟨y, mon', tg', a, _, c, _⟩ := hcovRaw k hkk
  rw [← e, hk] at a
  simp only [Option.some.injEq, Prod.mk.injEq] at a
  obtain ⟨ey, em, et⟩ := a
  subst em; subst et
  rw [← ey] at c
  have hne : vals (1900 + d.j) ≠ [] := by intro h; rw [h] at hlt'; simp at hlt'
  obtain ⟨pn, hpn⟩ := normVals_getElem nv corr (1900 + d.j) (vals (1900 + d.j)) hne c (d.tagNum - 1) hlt'
  refine ⟨mon, tg, pn, hk, hzt, hlt', ?_, ?_⟩
  · rw [hval, hpn]
  · have hd0 := isDay_of_date hstart
    have hz1 : 1 ≤ d.zeit ∧ d.zeit ≤ 72684 := by
      have := hd0.2.2.2.2
      have := masdat_jan1 (anjahr - 1900)
      have := hd0.2.2.1
      omega
    obtain ⟨hvd, _, _⟩ := kalender_inv hz1.1 hz1.2 hk
    have e0 : 1900 + d.j - 1900 = d.j := by clear * -; omega
    rw [e0] at hvd
    have := preco_month d.j mon tg hvd
    rw [hzt] at this
    have h1 : 1 ≤ d.tagNum := by
      have := (isDay_of_date hvd).2.2.1
      rw [hzt] at this; exact this
    have e3 : d.tagNum - 1 + 1 = d.tagNum := by clear * - h1; omega
    rw [e3]; exact this

end Hermes.Weather
