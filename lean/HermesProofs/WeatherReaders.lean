/-
Alignment of the weather readers (lemmas for HermesProps/C04.lean): a gap-free series of dates ends
up in the slots [year − first year][day of year − 1]. Core Lean only.
-/
import HermesModel.Weather
import HermesProofs.Weather
namespace Hermes.Weather

variable {π : Type}

/-! ### what "gap-free series" means -/

/-- `b` is the calendar day after `a` (Gregorian calendar) -/
def nextDayB (a b : Rec π) : Bool :=
  (b.year == a.year && b.doy == a.doy + 1) || (b.year == a.year + 1 && b.doy == 1 && a.doy == daysInYear a.year)

def gapFreeB : List (Rec π) → Bool
  | a :: b :: rest => nextDayB a b && gapFreeB (b :: rest)
  | _ => true

/-- consecutive calendar days -/
def GapFree (recs : List (Rec π)) : Prop := gapFreeB recs = true
instance (recs : List (Rec π)) : Decidable (GapFree recs) := by unfold GapFree; infer_instance

/-- the date of the line parsed and its day of the year lies in its year -/
def ValidRec (r : Rec π) : Prop := r.bad = false ∧ 1 ≤ r.doy ∧ r.doy ≤ daysInYear r.year
instance (r : Rec π) : Decidable (ValidRec r) := by unfold ValidRec; infer_instance

/-- year of the first record that is not skipped (slot 0 of the arrays) -/
def firstYear (startyear : Nat) : List (Rec π) → Nat
  | [] => startyear
  | r :: rs => if r.year < startyear then firstYear startyear rs else r.year

theorem nextDayB_cases (a b : Rec π) (h : nextDayB a b = true) :
    (b.year = a.year ∧ b.doy = a.doy + 1) ∨ (b.year = a.year + 1 ∧ b.doy = 1 ∧ a.doy = daysInYear a.year) := by
  simp [nextDayB] at h
  rcases h with ⟨h1, h2⟩ | ⟨⟨h1, h2⟩, h3⟩
  · exact Or.inl ⟨h1, h2⟩
  · exact Or.inr ⟨h1, h2, h3⟩

/-- every later record of a gap-free series has a later date -/
theorem gapFree_later (l : Rec π) (rest : List (Rec π)) (h : gapFreeB (l :: rest) = true) :
    ∀ q ∈ rest, q.year > l.year ∨ (q.year = l.year ∧ q.doy > l.doy) := by
  induction rest generalizing l with
  | nil => intro q hq; simp at hq
  | cons r rest' ih =>
    simp only [gapFreeB, Bool.and_eq_true] at h
    obtain ⟨hn, hg⟩ := h
    have hc := nextDayB_cases l r hn
    intro q hq
    rcases List.mem_cons.mp hq with rfl | hq'
    · rcases hc with ⟨a, b⟩ | ⟨a, b, _⟩ <;> omega
    · have := ih r hg q hq'
      rcases hc with ⟨a, b⟩ | ⟨a, b, _⟩ <;> omega

/-! ### write-log lemmas -/

theorem get_put_same (s : Store π) (i j : Nat) (v : π) (y T : Nat) : (s.put i j v y T).get i j = some v := by
  simp [Store.put, Store.get, lookup2]

theorem get_put_ne (s : Store π) (i j i' j' : Nat) (v : π) (y T : Nat) (h : ¬ (i = i' ∧ j = j')) :
    (s.put i j v y T).get i' j' = s.get i' j' := by
  simp [Store.put, Store.get, lookup2, h]

theorem jarAt_put_same (s : Store π) (i j : Nat) (v : π) (y T : Nat) : (s.put i j v y T).jarAt i = y := by
  simp [Store.put, Store.jarAt, lookup1]

theorem jarAt_put_ne (s : Store π) (i j i' : Nat) (v : π) (y T : Nat) (h : ¬ i = i') :
    (s.put i j v y T).jarAt i' = s.jarAt i' := by
  simp [Store.put, Store.jarAt, lookup1, h]

theorem maxAt_put_same (s : Store π) (i j : Nat) (v : π) (y T : Nat) : (s.put i j v y T).maxAt i = T := by
  simp [Store.put, Store.maxAt, lookup1]

theorem maxAt_put_ne (s : Store π) (i j i' : Nat) (v : π) (y T : Nat) (h : ¬ i = i') :
    (s.put i j v y T).maxAt i' = s.maxAt i' := by
  simp [Store.put, Store.maxAt, lookup1, h]

/-! ### the multi-year readers -/

theorem multiStep_same (sy cap : Nat) (s : MState π) (r : Rec π) (hb : r.bad = false) (hns : ¬ r.year < sy) (hf : s.first = false)
    (hne1 : ¬ r.doy = 1) (hd : r.doy = s.T + 1) (hc : s.yrz ≤ cap) :
    multiStep sy cap s r = .cont { T := s.T + 1, yrz := s.yrz, first := false, store := s.store.put (s.yrz - 1) (s.T + 1 - 1) r.val r.year (s.T + 1) } := by
  have h2 : ¬ cap < s.yrz := by omega
  have h3 : ¬ s.T = 0 := by omega
  have h4 : ¬ s.T + 1 = 1 := by omega
  simp [multiStep, advance, hb, hns, hf, hd, h2, h3, h4]

theorem multiStep_newyear (sy cap : Nat) (s : MState π) (r : Rec π) (hb : r.bad = false) (hns : ¬ r.year < sy) (hf : s.first = false)
    (hd : r.doy = 1) (hsw : switchOk s r = true) (hc : ¬ s.yrz + 1 > cap) :
    multiStep sy cap s r = .cont { T := 1, yrz := s.yrz + 1, first := false, store := s.store.put (s.yrz + 1 - 1) (1 - 1) r.val r.year 1 } := by
  simp [multiStep, advance, hb, hns, hf, hd, hc, hsw]

theorem multiStep_newyear_stop (sy cap : Nat) (s : MState π) (r : Rec π) (hb : r.bad = false) (hns : ¬ r.year < sy) (hf : s.first = false)
    (hd : r.doy = 1) (hsw : switchOk s r = true) (hc : s.yrz + 1 > cap) :
    ∃ s', multiStep sy cap s r = .stop s' ∧ s'.store = s.store := by
  refine ⟨{ s with T := 1, yrz := s.yrz + 1 - 1, first := false }, ?_, rfl⟩
  simp [multiStep, advance, hb, hns, hf, hd, hc, hsw]

/-- a 1 January that does not follow a complete previous year is the reader's error -/
theorem multiStep_bad_switch (sy cap : Nat) (s : MState π) (r : Rec π) (hb : r.bad = false) (hns : ¬ r.year < sy) (hf : s.first = false)
    (hd : r.doy = 1) (hsw : switchOk s r = false) : multiStep sy cap s r = .gap := by
  simp [multiStep, hb, hns, hf, hd, hsw]

theorem multiStep_first (sy cap : Nat) (s : MState π) (r : Rec π) (hb : r.bad = false) (hns : ¬ r.year < sy) (hf : s.first = true)
    (hc : ¬ 1 > cap) :
    multiStep sy cap s r = .cont { T := r.doy, yrz := 1, first := false, store := s.store.put (1 - 1) (r.doy - 1) r.val r.year r.doy } := by
  simp [multiStep, advance, hb, hns, hf, hc]

theorem multiStep_first_stop (sy cap : Nat) (s : MState π) (r : Rec π) (hb : r.bad = false) (hns : ¬ r.year < sy) (hf : s.first = true)
    (hc : 1 > cap) :
    ∃ s', multiStep sy cap s r = .stop s' ∧ s'.store = s.store := by
  refine ⟨{ s with T := r.doy, yrz := 1 - 1, first := false }, ?_, rfl⟩
  simp [multiStep, advance, hb, hns, hf, hc]

/-- a line whose date did not parse is the reader's error, in every state -/
theorem multiStep_bad_date (sy cap : Nat) (s : MState π) (r : Rec π) (hb : r.bad = true) : multiStep sy cap s r = .gap := by
  simp [multiStep, hb]

theorem multiStep_skip (sy cap : Nat) (s : MState π) (r : Rec π) (hb : r.bad = false) (hs : r.year < sy) :
    multiStep sy cap s r = .cont { s with T := s.T + 1 } := by
  simp [multiStep, hb, hs]

/-- what `aligned_from` establishes about the loop run from state `s` (last stored record `l`) -/
def AlignedFrom (sy cap y0 : Nat) (l : Rec π) (s : MState π) (rest : List (Rec π)) : Prop :=
  ∃ ms, readMultiFrom sy cap s rest = some ms ∧
    (∀ r ∈ rest, r.year < y0 + cap →
      ms.store.get (r.year - y0) (r.doy - 1) = some r.val ∧ ms.store.jarAt (r.year - y0) = r.year ∧
      r.doy ≤ ms.store.maxAt (r.year - y0) ∧
      ∃ q ∈ rest, q.year = r.year ∧ ms.store.maxAt (r.year - y0) = q.doy) ∧
    (∀ i j, (i < l.year - y0 ∨ (i = l.year - y0 ∧ j ≤ l.doy - 1)) → ms.store.get i j = s.store.get i j) ∧
    (∀ i, i ≤ l.year - y0 → ms.store.jarAt i = s.store.jarAt i) ∧
    (∀ i, ms.store.maxAt i = s.store.maxAt i ∨
      ∃ q ∈ rest, y0 ≤ q.year ∧ q.year - y0 = i ∧ ms.store.maxAt i = q.doy)

/-- the loop from a state that has just stored the record `l` -/
theorem aligned_from (sy cap y0 : Nat) (rest : List (Rec π)) :
    ∀ (l : Rec π) (s : MState π), s.first = false → s.T = l.doy → s.yrz = l.year - y0 + 1 → y0 ≤ l.year →
      sy ≤ y0 → s.yrz ≤ cap → 1 ≤ l.doy → s.store.jarAt (l.year - y0) = l.year →
      s.store.maxAt (l.year - y0) = l.doy →
      gapFreeB (l :: rest) = true → (∀ r ∈ rest, 1 ≤ r.doy) → (∀ r ∈ rest, r.bad = false) →
      AlignedFrom sy cap y0 l s rest := by
  induction rest with
  | nil =>
    intro l s _ _ _ _ _ _ _ _ _ _ _ _
    exact ⟨s, rfl, by simp, fun _ _ _ => rfl, fun _ _ => rfl, fun _ => Or.inl rfl⟩
  | cons r rest' ih =>
    intro l s hf hT hyrz hy0 hsy hcap hl1 hjar hmax hgf hpos hnb
    have hlater := gapFree_later l (r :: rest') hgf
    simp only [gapFreeB, Bool.and_eq_true] at hgf
    obtain ⟨hn, hg'⟩ := hgf
    have hc := nextDayB_cases l r hn
    have hr1 : 1 ≤ r.doy := hpos r (List.mem_cons_self ..)
    have hpos' : ∀ q ∈ rest', 1 ≤ q.doy := fun q hq => hpos q (List.mem_cons_of_mem _ hq)
    have hnb' : ∀ q ∈ rest', q.bad = false := fun q hq => hnb q (List.mem_cons_of_mem _ hq)
    have hrb : r.bad = false := hnb r (List.mem_cons_self ..)
    have hlater' := gapFree_later r rest' hg'
    have hnskip : ¬ r.year < sy := by rcases hc with ⟨a, _⟩ | ⟨a, _, _⟩ <;> omega
    -- the state after storing r, in both cases: index ri, slot r.doy - 1
    have key : ∀ (s' : MState π), multiStep sy cap s r = .cont s' → s'.first = false → s'.T = r.doy →
        s'.yrz = r.year - y0 + 1 → s'.yrz ≤ cap →
        s'.store = s.store.put (r.year - y0) (r.doy - 1) r.val r.year r.doy →
        (l.year - y0 < r.year - y0 ∨ (l.year - y0 = r.year - y0 ∧ l.doy - 1 < r.doy - 1)) →
        (l.year - y0 = r.year - y0 → l.year = r.year) → AlignedFrom sy cap y0 l s (r :: rest') := by
      intro s' hstep hf' hT' hyrz' hcap' hst hlt hsame
      unfold AlignedFrom
      obtain ⟨ms, hread, hA, hB, hC, hD⟩ := ih r s' hf' hT' hyrz' (by omega) hsy hcap' hr1
        (by rw [hst]; exact jarAt_put_same ..) (by rw [hst]; exact maxAt_put_same ..) hg' hpos' hnb'
      refine ⟨ms, by simp [readMultiFrom, hstep, hread], ?_, ?_, ?_, ?_⟩
      · intro q hq hqc
        rcases List.mem_cons.mp hq with hqe | hq'
        · rw [hqe]
          refine ⟨?_, ?_, ?_, ?_⟩
          · rw [hB _ _ (Or.inr ⟨rfl, Nat.le_refl _⟩), hst]; exact get_put_same ..
          · rw [hC _ (Nat.le_refl _), hst]; exact jarAt_put_same ..
          · rcases hD (r.year - y0) with h | ⟨q', hq'm, hq'y, hq'i, hq'v⟩
            · rw [h, hst, maxAt_put_same]; omega
            · rw [hq'v]
              have := hlater' q' hq'm
              omega
          · rcases hD (r.year - y0) with h | ⟨q', hq'm, hq'y, hq'i, hq'v⟩
            · exact ⟨r, List.mem_cons_self .., rfl, by rw [h, hst, maxAt_put_same]⟩
            · exact ⟨q', List.mem_cons_of_mem _ hq'm, by omega, hq'v⟩
        · obtain ⟨a1, a2, a3, q', hq'm, a4, a5⟩ := hA q hq' hqc
          exact ⟨a1, a2, a3, q', List.mem_cons_of_mem _ hq'm, a4, a5⟩
      · intro i j hij
        have hij' : i < r.year - y0 ∨ (i = r.year - y0 ∧ j ≤ r.doy - 1) := by omega
        rw [hB i j hij', hst]
        apply get_put_ne
        omega
      · intro i hi
        rw [hC i (by omega), hst]
        by_cases he : r.year - y0 = i
        · subst he; rw [jarAt_put_same]
          have : l.year = r.year := hsame (by omega)
          rw [← this]; exact hjar.symm
        · exact jarAt_put_ne _ _ _ _ _ _ _ he
      · intro i
        rcases hD i with h | ⟨q', hq'm, hq'y, hq'i, hq'v⟩
        · by_cases he : r.year - y0 = i
          · right
            refine ⟨r, List.mem_cons_self .., by omega, he, ?_⟩
            rw [h, hst, ← he, maxAt_put_same]
          · left; rw [h, hst]; exact maxAt_put_ne _ _ _ _ _ _ _ he
        · exact Or.inr ⟨q', List.mem_cons_of_mem _ hq'm, hq'y, hq'i, hq'v⟩
    rcases hc with ⟨hyr, hdoy⟩ | ⟨hyr, hdoy, hlast⟩
    · -- next day of the same year
      have hstep := multiStep_same sy cap s r hrb hnskip hf (by omega) (by omega) hcap
      refine key _ hstep rfl (by show s.T + 1 = r.doy; omega) (by show s.yrz = r.year - y0 + 1; omega)
        (by show s.yrz ≤ cap; exact hcap) ?_ (by omega) (fun _ => hyr.symm)
      show s.store.put (s.yrz - 1) (s.T + 1 - 1) r.val r.year (s.T + 1) = _
      have e1 : s.yrz - 1 = r.year - y0 := by omega
      have e2 : s.T + 1 - 1 = r.doy - 1 := by omega
      have e3 : s.T + 1 = r.doy := by omega
      rw [e1, e2, e3]
    · -- 1 January of the next year: the slot in use holds the complete previous year
      have hsw : switchOk s r = true := by
        have e1 : s.yrz - 1 = l.year - y0 := by omega
        have e2 : r.year - 1 = l.year := by omega
        simp [switchOk, e1, e2, hjar, hmax, hlast]
      by_cases hover : s.yrz + 1 > cap
      · -- more years in the file than allocated: `break`
        obtain ⟨s', hstep, hst⟩ := multiStep_newyear_stop sy cap s r hrb hnskip hf hdoy hsw hover
        refine ⟨s', by simp [readMultiFrom, hstep], ?_, fun _ _ _ => by rw [hst], fun _ _ => by rw [hst],
          fun _ => Or.inl (by rw [hst])⟩
        intro q hq hqc
        exfalso
        have hqy : r.year ≤ q.year := by
          rcases List.mem_cons.mp hq with hqe | hq'
          · rw [hqe]; exact Nat.le_refl _
          · have := hlater' q hq'; omega
        omega
      · have hstep := multiStep_newyear sy cap s r hrb hnskip hf hdoy hsw hover
        refine key _ hstep rfl (by show 1 = r.doy; omega) (by show s.yrz + 1 = r.year - y0 + 1; omega)
          (by show s.yrz + 1 ≤ cap; omega) ?_ (by omega) (fun h => by omega)
        show s.store.put (s.yrz + 1 - 1) (1 - 1) r.val r.year 1 = _
        have e1 : s.yrz + 1 - 1 = r.year - y0 := by omega
        have e2 : 1 - 1 = r.doy - 1 := by omega
        have e3 : 1 = r.doy := by omega
        rw [e1, e2, ← e3]

/-- the loop from a state that has not stored anything yet (`first`), any T -/
theorem aligned_first (sy cap : Nat) (recs : List (Rec π)) :
    ∀ (s : MState π), s.first = true → (∀ r ∈ recs, 1 ≤ r.doy) → (∀ r ∈ recs, r.bad = false) → gapFreeB recs = true →
      ∃ ms, readMultiFrom sy cap s recs = some ms ∧
        ∀ r ∈ recs, sy ≤ r.year → r.year < firstYear sy recs + cap →
          ms.store.get (r.year - firstYear sy recs) (r.doy - 1) = some r.val ∧
          ms.store.jarAt (r.year - firstYear sy recs) = r.year ∧
          r.doy ≤ ms.store.maxAt (r.year - firstYear sy recs) ∧
          ∃ q ∈ recs, q.year = r.year ∧ ms.store.maxAt (r.year - firstYear sy recs) = q.doy := by
  induction recs with
  | nil => intro s _ _ _ _; exact ⟨s, rfl, by simp⟩
  | cons f rest ih =>
    intro s hf hpos hnb hgf
    have hf1 : 1 ≤ f.doy := hpos f (List.mem_cons_self ..)
    have hpos' : ∀ q ∈ rest, 1 ≤ q.doy := fun q hq => hpos q (List.mem_cons_of_mem _ hq)
    have hnb' : ∀ q ∈ rest, q.bad = false := fun q hq => hnb q (List.mem_cons_of_mem _ hq)
    have hfb : f.bad = false := hnb f (List.mem_cons_self ..)
    have hgf' : gapFreeB rest = true := by
      cases rest with
      | nil => rfl
      | cons b rest' => simp only [gapFreeB, Bool.and_eq_true] at hgf; exact hgf.2
    by_cases hskip : f.year < sy
    · -- a record of a year before the start year: `continue`
      have hstep := multiStep_skip sy cap s f hfb hskip
      obtain ⟨ms, hread, hA⟩ := ih { s with T := s.T + 1 } hf hpos' hnb' hgf'
      refine ⟨ms, by simp [readMultiFrom, hstep, hread], ?_⟩
      intro r hr hry hrc
      simp only [firstYear, hskip, if_true] at hrc ⊢
      rcases List.mem_cons.mp hr with hre | hr'
      · rw [hre] at hry; omega
      · obtain ⟨a, b, c, q, hq, d⟩ := hA r hr' hry hrc
        exact ⟨a, b, c, q, List.mem_cons_of_mem _ hq, d⟩
    · -- the first record that is kept
      have hfy : firstYear sy (f :: rest) = f.year := by simp [firstYear, hskip]
      rw [hfy]
      by_cases hover : 1 > cap
      · obtain ⟨s', hstep, _⟩ := multiStep_first_stop sy cap s f hfb hskip hf hover
        refine ⟨s', by simp [readMultiFrom, hstep], ?_⟩
        intro r hr hry hrc
        exfalso
        rcases List.mem_cons.mp hr with hre | hr'
        · rw [hre] at hrc; omega
        · have := gapFree_later f rest hgf r hr'
          omega
      · have hstep := multiStep_first sy cap s f hfb hskip hf hover
        obtain ⟨ms, hread, hA, hB, hC, hD⟩ := aligned_from sy cap f.year rest f
          { T := f.doy, yrz := 1, first := false, store := s.store.put (1 - 1) (f.doy - 1) f.val f.year f.doy }
          rfl rfl (by show 1 = f.year - f.year + 1; omega) (Nat.le_refl _)
          (by omega) (by show 1 ≤ cap; omega) hf1
          (by show (s.store.put (1 - 1) (f.doy - 1) f.val f.year f.doy).jarAt (f.year - f.year) = f.year
              simp only [Nat.sub_self]; exact jarAt_put_same ..)
          (by show (s.store.put (1 - 1) (f.doy - 1) f.val f.year f.doy).maxAt (f.year - f.year) = f.doy
              simp only [Nat.sub_self]; exact maxAt_put_same ..) hgf hpos' hnb'
        refine ⟨ms, by simp [readMultiFrom, hstep, hread], ?_⟩
        intro r hr hry hrc
        rcases List.mem_cons.mp hr with hre | hr'
        · rw [hre]
          rw [Nat.sub_self]
          have hB0 := hB 0 (f.doy - 1) (Or.inr ⟨by omega, Nat.le_refl _⟩)
          have hC0 := hC 0 (by omega)
          refine ⟨?_, ?_, ?_, ?_⟩
          · rw [hB0]; exact get_put_same ..
          · rw [hC0]; exact jarAt_put_same ..
          · rcases hD 0 with h | ⟨q', hq'm, hq'y, hq'i, hq'v⟩
            · rw [h]; show f.doy ≤ (s.store.put 0 (f.doy - 1) f.val f.year f.doy).maxAt 0
              rw [maxAt_put_same]; omega
            · rw [hq'v]
              have := gapFree_later f rest hgf q' hq'm
              omega
          · rcases hD 0 with h | ⟨q', hq'm, hq'y, hq'i, hq'v⟩
            · refine ⟨f, List.mem_cons_self .., rfl, ?_⟩
              rw [h]; exact maxAt_put_same ..
            · exact ⟨q', List.mem_cons_of_mem _ hq'm, by omega, hq'v⟩
        · obtain ⟨a1, a2, a3, q', hq'm, a4, a5⟩ := hA r hr' hrc
          exact ⟨a1, a2, a3, q', List.mem_cons_of_mem _ hq'm, a4, a5⟩

theorem readMulti_aligned (startyear cap : Nat) (recs : List (Rec π))
    (hv : ∀ r ∈ recs, ValidRec r) (hg : GapFree recs) :
    ∃ ms, readMulti startyear cap recs = some ms ∧
      ∀ r ∈ recs, startyear ≤ r.year → r.year < firstYear startyear recs + cap →
        ms.store.get (r.year - firstYear startyear recs) (r.doy - 1) = some r.val ∧
        ms.store.jarAt (r.year - firstYear startyear recs) = r.year ∧
        r.doy ≤ ms.store.maxAt (r.year - firstYear startyear recs) ∧
        ∃ q ∈ recs, q.year = r.year ∧ ms.store.maxAt (r.year - firstYear startyear recs) = q.doy :=
  aligned_first startyear cap recs {} rfl (fun r hr => (hv r hr).2.1) (fun r hr => (hv r hr).1) hg

/-! ### the year-file reader -/

/-- lines numbered T, T+1, … -/
def numberFrom (T : Nat) : List π → List (Nat × π)
  | [] => []
  | v :: vs => (T, v) :: numberFrom (T + 1) vs

theorem get_put0_same (s : Store π) (j : Nat) (v : π) (T : Nat) : (s.put0 j v T).get 0 j = some v := by
  simp [Store.put0, Store.get, lookup2]
theorem get_put0_ne (s : Store π) (j j' : Nat) (v : π) (T : Nat) (h : ¬ j = j') : (s.put0 j v T).get 0 j' = s.get 0 j' := by
  simp [Store.put0, Store.get, lookup2, h]
theorem jarAt_put0 (s : Store π) (j : Nat) (v : π) (T i : Nat) : (s.put0 j v T).jarAt i = s.jarAt i := by
  simp [Store.put0, Store.jarAt]
theorem maxAt_put0 (s : Store π) (j : Nat) (v : π) (T : Nat) : (s.put0 j v T).maxAt 0 = T := by
  simp [Store.put0, Store.maxAt, lookup1]

theorem readYearLines_aligned (year : Nat) (vals : List π) :
    ∀ (st : Store π) (tlast : Nat), tlast + vals.length ≤ daysInYear year →
      (readYearLines year st tlast (numberFrom (tlast + 1) vals)).2 = YStatus.ok ∧
      (∀ i, (readYearLines year st tlast (numberFrom (tlast + 1) vals)).1.jarAt i = st.jarAt i) ∧
      (vals ≠ [] → (readYearLines year st tlast (numberFrom (tlast + 1) vals)).1.maxAt 0 = tlast + vals.length) ∧
      (∀ j, j < tlast → (readYearLines year st tlast (numberFrom (tlast + 1) vals)).1.get 0 j = st.get 0 j) ∧
      ∀ k (hk : k < vals.length), (readYearLines year st tlast (numberFrom (tlast + 1) vals)).1.get 0 (tlast + k) = some vals[k] := by
  induction vals with
  | nil => intro st tlast _; simp [numberFrom, readYearLines]
  | cons v vs ih =>
    intro st tlast hlen
    simp only [List.length_cons] at hlen
    have h2 : ¬ tlast + 1 > daysInYear year := by omega
    have e : readYearLines year st tlast (numberFrom (tlast + 1) (v :: vs)) =
        readYearLines year (st.put0 (tlast + 1 - 1) v (tlast + 1)) (tlast + 1) (numberFrom (tlast + 1 + 1) vs) := by
      simp [numberFrom, readYearLines, h2]
    rw [e]
    obtain ⟨a, b, c, d, f⟩ := ih (st.put0 (tlast + 1 - 1) v (tlast + 1)) (tlast + 1) (by omega)
    refine ⟨a, ?_, ?_, ?_, ?_⟩
    · intro i; rw [b i]; exact jarAt_put0 ..
    · intro _
      by_cases hvs : vs = []
      · subst hvs; simp [numberFrom, readYearLines]; exact maxAt_put0 ..
      · rw [c hvs]; simp only [List.length_cons]; omega
    · intro j hj
      rw [d j (by omega)]
      apply get_put0_ne; omega
    · intro k hk
      cases k with
      | zero =>
        simp only [Nat.add_zero, List.getElem_cons_zero]
        rw [d tlast (by omega)]
        have : tlast + 1 - 1 = tlast := by omega
        rw [this]; exact get_put0_same ..
      | succ k' =>
        simp only [List.length_cons] at hk
        have := f k' (by omega)
        simp only [List.getElem_cons_succ]
        have e2 : tlast + (k' + 1) = tlast + 1 + k' := by omega
        rw [e2]; exact this

theorem readYearFile_aligned (year : Nat) (st : Store π) (vals : List π) (hne : vals ≠ []) (hn : vals.length ≤ daysInYear year) :
    (readYearFile year st (some (numberFrom 1 vals))).2 = YStatus.ok ∧
    (readYearFile year st (some (numberFrom 1 vals))).1.jarAt 0 = year ∧
    (vals ≠ [] → (readYearFile year st (some (numberFrom 1 vals))).1.maxAt 0 = vals.length) ∧
    ∀ k (hk : k < vals.length), (readYearFile year st (some (numberFrom 1 vals))).1.get 0 k = some vals[k] := by
  obtain ⟨a, b, c, _, f⟩ := readYearLines_aligned year vals (st.setJar 0 year) 0 (by omega)
  simp only [Nat.zero_add] at a b c f
  have e : readYearFile year st (some (numberFrom 1 vals)) = readYearLines year (st.setJar 0 year) 0 (numberFrom 1 vals) := by
    cases vals with
    | nil => exact absurd rfl hne
    | cons v vs => simp [numberFrom, readYearFile]
  rw [e]
  refine ⟨a, ?_, ?_, f⟩
  · rw [b 0]; simp [Store.setJar, Store.jarAt, lookup1]
  · intro h; exact c h

/-! ### LoadYear -/

theorem findYear_some (s : Store π) (year : Nat) (l : List Nat) (i d : Nat)
    (h : findYear s year l = some (i, d)) : i ∈ l ∧ s.jarAt i = year ∧ d = s.maxAt i := by
  induction l with
  | nil => simp [findYear] at h
  | cons a rest ih =>
    simp only [findYear] at h
    by_cases he : s.jarAt a = year
    · simp [he] at h; obtain ⟨rfl, rfl⟩ := h; exact ⟨List.mem_cons_self .., he, rfl⟩
    · simp [he] at h; obtain ⟨m, j, e⟩ := ih h; exact ⟨List.mem_cons_of_mem _ m, j, e⟩

theorem findYear_none_iff (s : Store π) (year : Nat) (l : List Nat) :
    findYear s year l = none ↔ ∀ i ∈ l, s.jarAt i ≠ year := by
  induction l with
  | nil => simp [findYear]
  | cons a rest ih =>
    simp only [findYear]
    by_cases he : s.jarAt a = year
    · simp [he]
    · simp [he, ih]

theorem loadYear_some (s : Store π) (cap year i d : Nat) (h : loadYear s cap year = some (i, d)) :
    i < cap ∧ s.jarAt i = year ∧ d = s.maxAt i := by
  obtain ⟨m, j, e⟩ := findYear_some s year _ i d h
  exact ⟨List.mem_range.mp m, j, e⟩

theorem loadYear_none_iff (s : Store π) (cap year : Nat) :
    loadYear s cap year = none ↔ ∀ i, i < cap → s.jarAt i ≠ year := by
  unfold loadYear
  rw [findYear_none_iff]
  constructor
  · intro h i hi; exact h i (List.mem_range.mpr hi)
  · intro h i hi; exact h i (List.mem_range.mp hi)

end Hermes.Weather
