import Driver.Dispatch
