import HermesModel.Proto
import HermesModel.Output
import HermesModel.RecordLoop
open Hermes Hermes.Proto

namespace Hermes.Driver

/-- Splits a token list at the `;` tokens. -/
def outSplitSemi : List String → List String → List (List String)
  | [], cur => [cur.reverse]
  | t :: rest, cur => if t == ";" then cur.reverse :: outSplitSemi rest [] else outSplitSemi rest (t :: cur)

/-- One column: `i1 i2 sliceLen sub|- <field type tokens>`. -/
def outParseCol (toks : List String) : Option (Output.Ref × Nat × Nat) :=
  match toks with
  | i1 :: i2 :: sl :: sub :: ty =>
    match i1.toNat?, i2.toNat?, sl.toNat?, Output.parseFieldTy ty with
    | some i1, some i2, some sl, some (ft, []) =>
      some (Output.bind ft (if sub == "-" then "" else sub) i1 i2, i1, sl)
    | _, _, _, _ => none
  | _ => none

def outNatList (xs : List Nat) : String :=
  toString xs.length ++ (xs.foldl (fun acc x => acc ++ " " ++ toString x) "")

def outParseNats (toks : List String) : Option (List Nat) :=
  toks.foldr (fun t acc => match t.toNat?, acc with
    | some n, some l => some (n :: l)
    | _, _ => none) (some [])

def outputOps (toks : List String) : String :=
  match toks with
  -- output.line style col ; col ; …   →  refs=… counter=… rec=…
  | "output.line" :: style :: rest =>
    match style.toNat? with
    | none => "bad-op"
    | some st =>
      let cols := (outSplitSemi rest []).map outParseCol
      if cols.any Option.isNone then "bad-op" else
      let cs := cols.filterMap id
      let refs := cs.map (·.1)
      let cells := cs.map fun (r, i1, sl) => Output.cell r i1 sl
      let pan := cells.any (· == Output.Cell.panic)
      let rec_ := if pan then "panic" else
        match Output.record (Output.Style.ofCode st) refs with
        | none => "none"
        | some n => toString n
      let cellText := fun (c : Output.Cell) => match c with
        | .value => "v" | .na => "n" | .panic => "p"
      "refs=" ++ ",".intercalate (refs.map Output.Ref.text)
        ++ " cells=" ++ (if pan then "-" else ",".intercalate (cells.map cellText))
        ++ " counter=" ++ (if pan then "-" else toString (Output.counter refs)) ++ " rec=" ++ rec_
  -- output.fixedlen n w1 l1 … wn ln → length of the fixed-width record, column starts
  | "output.fixedlen" :: rest =>
    match outParseNats rest with
    | some (n :: xs) =>
      if xs.length ≠ 2 * n then "bad-op" else
      let rec pairs : List Nat → List (Nat × Nat)
        | a :: b :: r => (a, b) :: pairs r
        | _ => []
      let ps := pairs xs
      toString (Output.fixedLineLen ps) ++ " " ++ outNatList (Output.fixedStarts (ps.map (·.1)) 0)
    | _ => "bad-op"
  -- output.loop sy sm sd ey em ed am ad k nh h0 … → setup and the three record streams
  | "output.loop" :: rest =>
    match outParseNats rest with
    | some (sy :: sm :: sd :: ey :: em :: ed :: am :: ad :: k :: nh :: hs) =>
      if hs.length ≠ nh then "bad-op" else
      let s := RecordLoop.setup sy sm sd ey em ed am ad
      let (d, y, c) := RecordLoop.records sy sm sd ey em ed am ad k hs
      "b " ++ toString s.beginn ++ " e " ++ toString s.ende
        ++ " d " ++ outNatList d ++ " y " ++ outNatList y
        ++ " c " ++ outNatList (c.foldr (fun p acc => p.1 :: p.2 :: acc) [])
    | _ => "bad-op"
  | _ => "bad-op"

end Hermes.Driver
