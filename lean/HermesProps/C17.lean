/-
C17 — Cluster partitioning executes every batch line exactly once.
Model: HermesModel/Partition.lean (calchermesbatch.go:47-89 and hermes_main.go:99-131,202-209).
-/
import HermesProofs.Partition
namespace Hermes.Partition

/-- The printed ranges are contiguous, disjoint, non-empty and cover line 1 … `lines`
(`Chain 0 l lines`: the first range starts at 1, each next one starts right after the previous
ends, the last ends at `lines`) — for every line count and node count. -/
theorem C17_ranges_contiguous_disjoint_cover (lines nodes : Nat) (hn : 1 ≤ nodes) :
    Chain 0 (ranges lines nodes) lines := by
  unfold ranges
  by_cases h : lines / nodes = 0
  · simp only [h, if_true]
    have := singles_chain lines 0
    rw [Nat.zero_add, ← List.range_eq_range'] at this
    exact this
  · simp only [h, if_false]
    have hs : 1 ≤ lines / nodes := Nat.pos_of_ne_zero h
    have hr : lines % nodes < nodes := Nat.mod_lt _ (by omega)
    have := slices_chain (lines / nodes) (lines % nodes) nodes hs hr nodes 1 0 (by omega)
    have e : 0 + nodes * (lines / nodes) + (lines % nodes + 1 - 1) = lines := by
      have := Nat.div_add_mod lines nodes
      omega
    rw [e] at this
    exact this

/-- The number of ranges equals the job-array size the calculator reports. -/
theorem C17_ranges_length_eq_size (lines nodes : Nat) (_hn : 1 ≤ nodes) :
    (ranges lines nodes).length = size lines nodes := by
  unfold ranges size
  by_cases h : lines / nodes = 0
  · simp [h]
  · simp only [h, if_false]
    exact slices_length _ _ nodes nodes 1 0 (by omega)

/-- Handing every printed range to the simulator's `-lines a-b` option executes, taken together
and in order, every batch line index 0 … lines−1 exactly once. -/
theorem C17_selected_union_exactly_once (lines nodes : Nat) (hn : 1 ≤ nodes) :
    (ranges lines nodes).flatMap (fun r => selected r.1 r.2 lines) = List.range lines := by
  have h := chain_selected lines (C17_ranges_contiguous_disjoint_cover lines nodes hn) (Nat.le_refl _)
  rw [h, Nat.sub_zero, List.range_eq_range']

/-- Every range handed over is well-formed for the option parser (first ≤ last, last ≥ 1). -/
theorem C17_ranges_wellformed (lines nodes : Nat) (hn : 1 ≤ nodes) :
    ∀ r ∈ ranges lines nodes, 1 ≤ r.1 ∧ r.1 ≤ r.2 ∧ r.2 ≤ lines := by
  have key : ∀ {s e : Nat} {l : List (Nat × Nat)}, Chain s l e → ∀ r ∈ l, s + 1 ≤ r.1 ∧ r.1 ≤ r.2 ∧ r.2 ≤ e := by
    intro s e l h
    induction h with
    | nil s => intro r hr; cases hr
    | cons s hi rest e h1 hc ih =>
      intro r hr
      have := hc.le
      rcases List.mem_cons.mp hr with rfl | hr
      · exact ⟨Nat.le_refl _, h1, this⟩
      · have := ih r hr; omega
  intro r hr
  have := key (C17_ranges_contiguous_disjoint_cover lines nodes hn) r hr
  omega

/-- Regression witness (F5): at the pinned commit the `lines < nodes` branch printed nothing while
reporting a job-array size of `lines`. -/
theorem C17_pinned_fewer_lines_than_nodes_fails_at :
    rangesPinned 3 4 = [] ∧ size 3 4 = 3 := by decide

/-! ### non-vacuity -/
example : ranges 10 3 = [(1, 4), (5, 7), (8, 10)] := by decide
example : ranges 3 4 = [(1, 1), (2, 2), (3, 3)] := by decide
example : selected 5 7 10 = [4, 5, 6] := by decide

end Hermes.Partition
