/-
Helper lemmas for the output model (HermesModel/Output.lean, HermesModel/RecordLoop.lean), used by
HermesProps/C05.lean.
-/
import HermesModel.Output
import HermesModel.RecordLoop
import HermesProofs.Calendar

namespace Hermes.Output

/-- The counter guard of OutputLine.Add never bites: there are never more texts than columns. -/
theorem countLoop_eq (len : Nat) : ∀ (refs : List Ref) (c : Nat), c + refs.length ≤ len →
    countLoop len refs c = c + refs.countP emits
  | [], c, _ => by simp [countLoop]
  | r :: rest, c, h => by
    simp only [List.length_cons] at h
    by_cases he : emits r = true
    · have hc : c < len := by omega
      simp only [countLoop, he, addField, hc, if_true, List.countP_cons_of_pos]
      rw [countLoop_eq len rest (c + 1) (by omega)]; omega
    · simp only [countLoop, he, List.countP_cons_of_neg, Bool.false_eq_true, if_false, not_false_eq_true]
      exact countLoop_eq len rest c (by omega)

theorem counter_eq (refs : List Ref) : counter refs = refs.countP emits := by
  unfold counter
  rw [countLoop_eq refs.length refs 0 (by omega)]; omega

theorem counter_le (refs : List Ref) : counter refs ≤ refs.length := by
  rw [counter_eq]; exact List.countP_le_length

theorem sepFilter_length (c : Nat) : ∀ len : Nat,
    ((List.range len).filter fun i => decide (i + 1 < c)).length = min len (c - 1)
  | 0 => by simp
  | n + 1 => by
    rw [List.range_succ, List.filter_append, List.length_append, sepFilter_length c n]
    by_cases h : n + 1 < c
    · simp [h]; omega
    · simp [h]; omega

theorem csvSeparators_eq (len c : Nat) (h : c ≤ len) : csvSeparators len c = c - 1 := by
  unfold csvSeparators
  rw [sepFilter_length]; omega

theorem record_csv (refs : List Ref) :
    record .csv refs = if refs.countP emits > 0 then some (refs.countP emits) else none := by
  have hle := counter_le refs
  simp only [record, lineBreak, csvSeparators_eq _ _ hle]
  rw [counter_eq] at *
  by_cases h : refs.countP emits > 0
  · simp [h]; omega
  · simp [h]

theorem record_fixed (refs : List Ref) :
    record .fixed refs =
      if refs.countP emits = refs.length ∧ refs.length > 0 then some refs.length else none := by
  simp only [record, lineBreak]
  rw [counter_eq]
  by_cases h : refs.countP emits = refs.length
  · by_cases h2 : refs.length > 0
    · simp [h, h2]
    · simp [h, h2]
  · have : refs.length ≠ refs.countP emits := fun e => h e.symm
    simp [h, this]

theorem slice_not_basic (e x : Ty) (hx : x.isBasic = true) : ¬ Ty.slice e = x := by
  intro he; subst he; simp [Ty.isBasic] at hx

end Hermes.Output
