/-
Model of the adaptive sub-step selection of the day loop (hermes/run.go:494-524 and 576-581):
the time-step class from the surface flux, the refinement from the rain that exceeds the cumulated
free storage of the layers, `WDT = 1/ceil(ZSR)`, `STEPS = round(DT/WDT)`.
Polymorphic in the arithmetic (Num.lean): executed with `Float` by the driver against the probe
stream of real runs, reasoned about over ℚ.
-/
import HermesModel.Num
namespace Hermes.Water

section
variable {α : Type} [Add α] [Sub α] [Mul α] [Div α] [Neg α] [LT α] [DecidableLT α]
  [OfNat α 0] [OfNat α 1] [OfNat α 3] [OfNat α 5] [OfNat α 10] [OfNat α 15] [OfScientific α] [Conv α]

structure SubIn (α : Type) where
  dz : α
  fluss0 : α
  regen : α          -- REGEN[TAG] (rain + irrigation, cm)
  w : List α         -- field capacity per layer
  wg : List α        -- WG[0] per layer

def absv (x : α) : α := if x < 0 then -x else x
def maxv (a b : α) : α := if a < b then b else a

/-- run.go:497-508 -/
def tsFactor (pri : α) : α :=
  if ¬ (5 < pri) then 1 else if ¬ (10 < pri) then 0.5 else if ¬ (15 < pri) then 0.25 else 0.125

/-- run.go:511-524 (the two loops fused; same operation order): cumulated free storage FSCSUM and
the refinement of ZSR. Arguments: running FSCS, running ZSR, layers (W, WG0). -/
def zsrLayers (dz regen : α) : α → α → List (α × α) → α
  | _, zsr, [] => zsr
  | fscs, zsr, (w, wg) :: rest =>
    let fscs' := fscs + (w - wg) * dz
    let zsr' := if w * dz / 3 < regen - fscs' then maxv zsr ((regen - fscs') / (w * dz / 3)) else zsr
    zsrLayers dz regen fscs' zsr' rest

def zsrOf (i : SubIn α) : α :=
  zsrLayers i.dz i.regen 0 (1 / tsFactor (absv (i.fluss0 * i.dz))) (i.w.zip i.wg)

/-- run.go:525, 576-581 with DT = 1: (WDT, STEPS). -/
def substeps (i : SubIn α) : α × Nat :=
  let wdt := 1 / Conv.ceil (zsrOf i)
  if wdt < 1 then (wdt, Conv.roundNat (1 / wdt)) else (1, 1)

end
end Hermes.Water
