/-
C07, crediting of uptake and fixation, stated about the *translation of the current source* of `nmove`
(hermes/nitro.go → `HermesModel/Generated/Impnmove.lean`, regenerated on every run by translator v2; tied to the
running code additionally by the srcimp correspondence).  No hand-written model stands between these theorems and
the source text: they break when the crediting statement, its guard, or any statement that touches the counters
changes.

* first sub-step: PESUM gains exactly what AUFNASUM gains (the clamped uptake of the layers) plus — only while a
  *sown* crop stands on the field (SAAT > 0, SAAT ≤ day ≤ ERNTE2) — the N fixation of the day;
* later sub-steps: PESUM, AUFNASUM and the uptake array PE are untouched;
* a day of any number of sub-steps credits once;
* the mineral N of every layer of the profile is ≥ 0 after the call (`C07_source_nmove_mineral_n_nonneg`);
* in the first sub-step the uptake of every layer is cut to [0, what the layer holds above 0.5 kg N/ha] (`C07_source_nmove_uptake_bounds`).

And about the translation of `mineral` (same file of the source, same translator):

* what the first-order decay takes from an organic pool of a layer is exactly what the mineralised-amount counter of that
  layer gains — for both pools, warm and frozen branch, any number of layers (`C07_source_mineral_pool_conserved`);
* on warm layers the dissolved fertiliser sum and the nitrified ammonium sum grow and stay at or below the sums applied
  (`C07_source_mineral_dissolved_le_applied_warm`; the frozen branch is covered by the hand model's theorem only);
* with rate constants in [0,1] the organic pools stay ≥ 0 and the mineralised-amount counters never decrease, warm and frozen
  branch, any number of layers (`C07_source_mineral_pools_nonneg`).
-/
import HermesProofs.ImpNmoveCredit
import HermesProofs.ImpNmoveNonneg
import HermesProofs.ImpNmoveUptake
import HermesProofs.ImpMineralPools
import HermesProofs.ImpMineralDissolved
import HermesProofs.ImpMineralNonneg
import Mathlib.Tactic.Linarith
import Mathlib.Tactic.IntervalCases
import Mathlib.Tactic.NormNum

namespace Hermes.Generated.Imp.nmove
open Hermes.Imp

variable (m : MathFns ℚ)

/-- a sown crop stands on the field: the sowing day of the current rotation entry is set (automatic sowing leaves it 0
until the crop is sown) and the day lies between sowing and the latest harvest date -/
def cropStands (s : St ℚ) : Prop :=
  0 < rd s.g_SAAT s.g_AKF_Index ∧ rd s.g_SAAT s.g_AKF_Index ≤ s.p_zeit ∧ s.p_zeit ≤ rd s.g_ERNTE2 s.g_AKF_Index

instance (s : St ℚ) : Decidable (cropStands s) := by unfold cropStands; infer_instance

/-- the crediting statement of `nmove` (the last statement of the function), as a function of what it reads -/
theorem credit_statement (t : St ℚ) :
    top11 m t = if t.p_subd = 1 ∧ cropStands t then { t with g_PESUM := t.g_PESUM + t.g_SCHNORR } else t := by
  unfold top11 cropStands
  dsimp only
  by_cases h1 : t.p_subd = 1 <;> by_cases h2 : 0 < rd t.g_SAAT t.g_AKF_Index <;>
    by_cases h3 : rd t.g_SAAT t.g_AKF_Index ≤ t.p_zeit <;> by_cases h4 : t.p_zeit ≤ rd t.g_ERNTE2 t.g_AKF_Index <;>
    simp only [h1, h2, h3, h4, and_self, and_true, and_false, ↓reduceIte]

theorem cropStands_before (s : St ℚ) : cropStands (before m s) ↔ cropStands s := by
  have h := before_key m s
  unfold key at h
  simp only [Prod.mk.injEq] at h
  obtain ⟨_, _, h3, h4, h5, h6, _⟩ := h
  unfold cropStands
  rw [h3, h4, h5, h6]

/-- **First sub-step: crop N gains the day's uptake plus — only for a sown crop in its season — the day's fixation.**
For every state: what `nmove` adds to PESUM is what it adds to AUFNASUM, plus SCHNORR exactly when a sown crop stands. -/
theorem C07_source_credit_first_substep (s : St ℚ) (h : s.p_subd = 1) :
    (run m s).g_PESUM - s.g_PESUM
      = ((run m s).g_AUFNASUM - s.g_AUFNASUM) + (if cropStands s then s.g_SCHNORR else 0) := by
  have hk := before_key m s
  unfold key at hk
  simp only [Prod.mk.injEq] at hk
  obtain ⟨k1, k2, _, _, _, _, k7⟩ := hk
  have hs : (before m s).p_subd = 1 := k7.trans h
  rw [run_eq, credit_statement]
  by_cases hc : cropStands s
  · have hc' : cropStands (before m s) := (cropStands_before m s).2 hc
    rw [if_pos ⟨hs, hc'⟩, if_pos hc]
    show (before m s).g_PESUM + (before m s).g_SCHNORR - s.g_PESUM = (before m s).g_AUFNASUM - s.g_AUFNASUM + s.g_SCHNORR
    rw [k2]; linarith
  · have hc' : ¬ cropStands (before m s) := fun x => hc ((cropStands_before m s).1 x)
    rw [if_neg (fun x => hc' x.2), if_neg hc]
    linarith

/-- **No crop, no credit**: with no sown crop on the field (before the sowing day, after the latest harvest day, or while
automatic sowing has not sown the next crop: SAAT = 0) the fixation left over from the last crop day is not credited. -/
theorem C07_source_no_fixation_credit_without_crop (s : St ℚ) (hc : ¬ cropStands s) :
    (run m s).g_PESUM - s.g_PESUM = (run m s).g_AUFNASUM - s.g_AUFNASUM := by
  have hk := before_key m s
  unfold key at hk
  simp only [Prod.mk.injEq] at hk
  obtain ⟨k1, _, _, _, _, _, _⟩ := hk
  have hc' : ¬ cropStands (before m s) := fun x => hc ((cropStands_before m s).1 x)
  rw [run_eq, credit_statement, if_neg (fun x => hc' x.2)]
  linarith

theorem not_sown_not_standing (s : St ℚ) (h : rd s.g_SAAT s.g_AKF_Index = 0) : ¬ cropStands s := by
  unfold cropStands; rw [h]; intro x; exact absurd x.1 (by decide)

/-- **Later sub-steps credit nothing**: PESUM, AUFNASUM and the uptake array are untouched by a call that is not the
first sub-step of the day. -/
theorem C07_source_no_credit_later_substep (s : St ℚ) (h : s.p_subd ≠ 1) :
    (run m s).g_PESUM = s.g_PESUM ∧ (run m s).g_AUFNASUM = s.g_AUFNASUM ∧ (run m s).g_PE = s.g_PE := by
  have hl := before_later m s h
  unfold later at hl
  simp only [Prod.mk.injEq] at hl
  obtain ⟨l1, l2, l3, l4⟩ := hl
  have hs : ¬ ((before m s).p_subd = 1 ∧ cropStands (before m s)) := fun x => h (l4 ▸ x.1)
  rw [run_eq, credit_statement, if_neg hs]
  exact ⟨l1, l2, l3⟩

/-- the later sub-steps of a day: each call starts from whatever state the day loop hands it (`t`), with the counters
and the uptake array as the previous call left them -/
def laterCalls : St ℚ → List (St ℚ) → St ℚ
  | o, [] => o
  | o, t :: ts => laterCalls (run m { t with g_PESUM := o.g_PESUM, g_AUFNASUM := o.g_AUFNASUM, g_PE := o.g_PE }) ts

theorem laterCalls_counters (o : St ℚ) (ts : List (St ℚ)) (h : ∀ t ∈ ts, t.p_subd ≠ 1) :
    (laterCalls m o ts).g_PESUM = o.g_PESUM ∧ (laterCalls m o ts).g_AUFNASUM = o.g_AUFNASUM := by
  induction ts generalizing o with
  | nil => exact ⟨rfl, rfl⟩
  | cons t ts ih =>
    have ht : t.p_subd ≠ 1 := h t (by simp)
    have h1 := C07_source_no_credit_later_substep m { t with g_PESUM := o.g_PESUM, g_AUFNASUM := o.g_AUFNASUM, g_PE := o.g_PE } ht
    have h2 := ih (run m { t with g_PESUM := o.g_PESUM, g_AUFNASUM := o.g_AUFNASUM, g_PE := o.g_PE }) (fun x hx => h x (by simp [hx]))
    unfold laterCalls
    exact ⟨h2.1.trans h1.1, h2.2.trans h1.2.1⟩

/-- **Once per day, for any number of sub-steps**: after the first call and any list of later calls of the day, crop N has
gained the uptake booked in AUFNASUM plus — for a sown crop in its season — the day's fixation, once. -/
theorem C07_source_day_credit (s : St ℚ) (h : s.p_subd = 1) (ts : List (St ℚ)) (hts : ∀ t ∈ ts, t.p_subd ≠ 1) :
    (laterCalls m (run m s) ts).g_PESUM - s.g_PESUM
      = ((laterCalls m (run m s) ts).g_AUFNASUM - s.g_AUFNASUM) + (if cropStands s then s.g_SCHNORR else 0) := by
  obtain ⟨h1, h2⟩ := laterCalls_counters m (run m s) ts hts
  rw [h1, h2]
  exact C07_source_credit_first_substep m s h

/-- **Mineral N per layer is never negative after the transport step** (source level): for every state — any fluxes, uptake and
source terms, stable or not — and any number of layers inside the array, every layer of the profile ends ≥ 0. -/
theorem C07_source_nmove_mineral_n_nonneg (s : St ℚ) (hN : s.g_N.toNat ≤ s.g_C1.length) (j : Int) (h0 : 0 ≤ j) (h1 : j < s.g_N) :
    0 ≤ rd (run m s).g_C1 j :=
  run_C1_nonneg m s hN j h0 h1

/-- **The uptake credited in the first sub-step is never negative and never more than the layer holds above 0.5 kg N/ha** (source
level): whatever the crop routine handed over, for every state and any number of layers inside the array. -/
theorem C07_source_nmove_uptake_bounds (s : St ℚ) (hs : s.p_subd = 1) (hN : s.g_N.toNat ≤ s.g_PE.length) (j : Int) (h0 : 0 ≤ j)
    (h1 : j < s.g_N) : 0 ≤ rd (run m s).g_PE j ∧ (rd (run m s).g_PE j ≤ rd s.g_C1 j - 0.5 ∨ rd (run m s).g_PE j = 0) :=
  run_uptake_bounds m s hs hN j h0 h1

/-- premises are satisfiable and the statement is not trivial: a legume harvested, automatic sowing pending (SAAT = 0),
stale fixation 4.44 — nothing is credited; with the crop sown on day 900 it is. -/
def demoState (saat : Int) : St ℚ :=
  { p_wdt := 1, p_subd := 1, p_zeit := 1000, v_Carray := [], g_N := 0, l_D := [], g_AD := [], g_WG_0 := [], g_C1 := [], g_PE := [],
    g_PESUM := 50, g_AUFNASUM := 20, g_DN := [], g_DZ_Num := 10, g_Q1 := [0], g_FLUSS0 := 0, l_V := [], g_W := [], l_DB := [], g_DV := 0,
    l_DISP := [], g_DRAIDEP := 0, l_KONV := [], g_QDRAIN := 0, g_DRAINLOSS := 0, g_C1NotStable := "", g_C1stabilityVal := 0,
    g_C1NotStableErr := "", g_OUTN := 0, g_OUTSUM := 0, g_SAAT := [saat], g_AKF_Index := 0, g_NLEAG := 0, g_ERNTE2 := [1100],
    g_SCHNORR := 444 / 100 }

example : ¬ cropStands (demoState 0) := not_sown_not_standing _ rfl
example : cropStands (demoState 900) := by unfold cropStands demoState rd; decide

end Hermes.Generated.Imp.nmove

namespace Hermes.Generated.Imp.mineral
open Hermes.Imp

/-- **Mineralisation moves N from the pool to its counter, nothing is lost or created** (source level): for every state in
which the layers `mineral` works on lie inside the pool arrays, every layer `j` (inside or outside the worked range) and both
organic pools, pool + mineralised-amount counter after the call equals pool + counter before it. -/
theorem C07_source_mineral_pool_conserved (m : MathFns ℚ) (s : St ℚ) (h : InRange s) (j : Int) :
    rd (run m s).g_NAOS j + rd (run m s).g_MINAOS j = rd s.g_NAOS j + rd s.g_MINAOS j ∧
    rd (run m s).g_NFOS j + rd (run m s).g_MINFOS j = rd s.g_NFOS j + rd s.g_MINFOS j :=
  ⟨(run_pool m s h).2.2.2.2.1 j, (run_pool m s h).2.2.2.2.2 j⟩

/-- the arrays keep their lengths (no layer appears or disappears) -/
theorem C07_source_mineral_pool_lengths (m : MathFns ℚ) (s : St ℚ) (h : InRange s) :
    (run m s).g_NAOS.length = s.g_NAOS.length ∧ (run m s).g_MINAOS.length = s.g_MINAOS.length ∧
    (run m s).g_NFOS.length = s.g_NFOS.length ∧ (run m s).g_MINFOS.length = s.g_MINFOS.length :=
  ⟨(run_pool m s h).1, (run_pool m s h).2.1, (run_pool m s h).2.2.1, (run_pool m s h).2.2.2.1⟩

/-- **Dissolved fertiliser never exceeds fertiliser applied** (source level, warm layers): if every layer `mineral` works on is
warm and the two sums start in order, then after the call the applied sums are unchanged, the dissolved / nitrified sums have
not decreased, and they are still at or below the applied sums. Partial with respect to the property: the frozen branch of the
top layer (no upper clamp of the moisture factor) is excluded by `WarmInRange`; the hand model's `C07_dissolved_le_applied`
covers it under its hypothesis `FrozenOrd`. -/
theorem C07_source_mineral_dissolved_le_applied_warm (m : MathFns ℚ) (s : St ℚ) (h : WarmInRange s)
    (h1 : s.g_UMS ≤ s.g_DSUMM) (h2 : s.g_NH4UMS ≤ s.g_NH4Sum) :
    ((run m s).g_DSUMM = s.g_DSUMM ∧ s.g_UMS ≤ (run m s).g_UMS ∧ (run m s).g_UMS ≤ (run m s).g_DSUMM) ∧
    ((run m s).g_NH4Sum = s.g_NH4Sum ∧ s.g_NH4UMS ≤ (run m s).g_NH4UMS ∧ (run m s).g_NH4UMS ≤ (run m s).g_NH4Sum) := by
  obtain ⟨a1, a2, a3⟩ := Ums.run_dissolved m s h h1
  obtain ⟨b1, b2, b3⟩ := Nh4.run_dissolved m s h h2
  exact ⟨⟨a1, a2, by rw [a1]; exact a3⟩, ⟨b1, b2, by rw [b1]; exact b3⟩⟩

/-- `WarmInRange` is satisfiable: three layers of 10 cm, soil temperature 10 °C at every node -/
example (s : St ℚ) (h1 : s.g_IZM = 30) (h2 : s.g_DZ_Index = 10) (h3 : s.l_DUMS.length = 21) (h4 : s.l_DNH4UMS.length = 21)
    (h5 : s.g_TD = List.replicate 22 10) : WarmInRange s := by
  unfold WarmInRange
  rw [h1, h2, h3, h4, h5]
  refine ⟨by decide, by decide, by decide, ?_⟩
  intro k hk
  have hk3 : k < 3 := hk
  interval_cases k <;> norm_num [rd]

/-- the two first-order rate constants of the worked layers lie in [0,1] (`k = A·exp(−E/(T + 273.16))`: a hypothesis about
`math.Exp`; numerically true below about 60 °C soil temperature, which the search checks on the Go side) -/
def RatesInUnit (m : MathFns ℚ) (s : St ℚ) : Prop :=
  ∀ k : Nat, k < (Int.tdiv s.g_IZM s.g_DZ_Index).toNat →
    (0 ≤ 4000000000.0 * m.exp ((-8400.0) / ((rd s.g_TD (1 + (k : Int)) + rd s.g_TD (1 + (k : Int) - 1)) / 2.0 + 273.16)) ∧
     4000000000.0 * m.exp ((-8400.0) / ((rd s.g_TD (1 + (k : Int)) + rd s.g_TD (1 + (k : Int) - 1)) / 2.0 + 273.16)) ≤ 1) ∧
    (0 ≤ 5600000000000.0 * m.exp ((-9800.0) / ((rd s.g_TD (1 + (k : Int)) + rd s.g_TD (1 + (k : Int) - 1)) / 2.0 + 273.16)) ∧
     5600000000000.0 * m.exp ((-9800.0) / ((rd s.g_TD (1 + (k : Int)) + rd s.g_TD (1 + (k : Int) - 1)) / 2.0 + 273.16)) ≤ 1)

/-- **Organic pools stay non-negative and the mineralised-amount counters only grow** (source level, warm and frozen branch, any
number of layers): for non-negative pools, rate constants in [0,1] and worked layers inside the arrays, every layer of both pools
is ≥ 0 after the call and no counter entry is smaller than before. -/
theorem C07_source_mineral_pools_nonneg (m : MathFns ℚ) (s : St ℚ) (h : InRange s) (h4 : (Int.tdiv s.g_IZM s.g_DZ_Index).toNat ≤ 4)
    (hk : RatesInUnit m s) (hA : ∀ j : Int, 0 ≤ rd s.g_NAOS j) (hF : ∀ j : Int, 0 ≤ rd s.g_NFOS j) (j : Int) :
    0 ≤ rd (run m s).g_NAOS j ∧ 0 ≤ rd (run m s).g_NFOS j ∧
    rd s.g_MINAOS j ≤ rd (run m s).g_MINAOS j ∧ rd s.g_MINFOS j ≤ rd (run m s).g_MINFOS j := by
  obtain ⟨a1, a2⟩ := PoolA.run_nonneg m s h h4 (fun k hk' => (hk k hk').1) hA
  obtain ⟨f1, f2⟩ := PoolF.run_nonneg m s h h4 (fun k hk' => (hk k hk').2) hF
  exact ⟨a1 j, f1 j, a2 j, f2 j⟩

/-- a `math` package whose exponential returns 10⁻¹³ (the order of magnitude of the rate constants at 10 °C) -/
def demoMath : MathFns ℚ where
  exp := fun _ => 1 / 10000000000000
  log := id
  pow := fun x _ => x
  mod := fun x _ => x
  sqrt := id
  sin := id
  cos := id
  tan := id
  asin := id
  acos := id
  atan := id
  abs := id
  max := fun x _ => x
  min := fun x _ => x
  round := id
  floor := id
  ceil := id
  ofInt := fun i => (i : ℚ)
  toInt := fun _ => 0

/-- `RatesInUnit` is satisfiable -/
example (s : St ℚ) : RatesInUnit demoMath s := by
  intro k _; norm_num [demoMath]

/-- the hypothesis is satisfiable: the shipped layout (IZM = 30 cm, DZ = 10 cm: three layers, four counter slots) -/
example (s : St ℚ) (h1 : s.g_IZM = 30) (h2 : s.g_DZ_Index = 10) (h3 : s.g_NAOS.length = 21) (h4 : s.g_NFOS.length = 21)
    (h5 : s.g_MINAOS.length = 4) (h6 : s.g_MINFOS.length = 4) : InRange s := by
  unfold InRange; rw [h1, h2, h3, h4, h5, h6]; decide

end Hermes.Generated.Imp.mineral
