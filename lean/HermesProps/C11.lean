/-
C11 — Runs are isolated, always terminate, and failures are reported per run.

Models: HermesModel/Dispatch.lean (dispatcher, result protocol of run.go:765-785, day loop header of
run.go:306/751), HermesModel/LangTag.lean (day-length searches of longday.go).

Proved: every execution of the dispatcher is finite (at most 4·n+1 transitions for n selected
lines) and every maximal one ends with each selected line finished exactly once, with the result of
*its own* line; the error summary is exactly the failed lines and the printed count equals the number
of printed error lines (for a non-empty selection); the repaired `LangTag` returns for EVERY
day-length sequence after inspecting at most 2·365 days, with the same result as the pinned loops
wherever those terminated within a year; the day loop terminates whenever `g.ENDE` stays bounded.

Regression witnesses of repaired defects (`C11_pinned_…_fails_at`): at the pinned commit the search
for a day longer than 16 h never ended for the day lengths of latitude 45° (F6).
Still reachable, stated on a concrete witness: a run that ends in log.Fatal/panic (modelled as
`run l = none`) ends the whole batch before the other lines are finished
(`C11_fatal_line_ends_batch_fails_at`) — after the repairs of the texture, rotation-date and
deep-tillage classes this remains reachable only through the log.Fatal sites for malformed numbers /
missing required files, which are outside the property's list of reported-error classes (observed
by the C11 check, class malformed-number-in-soil-file).
Process-level effects of log.Fatal / panic, real time-outs and real interleavings are observed only.
-/
import HermesProofs.Dispatch
import HermesProofs.Readers

namespace Hermes.Dispatch

variable {Line Result : Type}

/-- `dispatch_terminates_exactly_once` (termination half): every execution from the initial state
has at most 4·|sel|+1 transitions — whatever the lines do, fatal or not. -/
theorem C11_dispatch_every_execution_finite (M : Cfg Line Result) (sel : List (Nat × Line))
    (n : Nat) (s : State Line Result) (he : Exec M (init sel) n s) : n ≤ 4 * sel.length + 1 := by
  have := exec_bound he
  rw [measure_init] at this
  omega

/-- There is no infinite execution. -/
theorem C11_dispatch_no_infinite_execution (M : Cfg Line Result) (sel : List (Nat × Line)) :
    ¬ ∃ f : Nat → State Line Result, f 0 = init sel ∧ ∀ k, Step M (f k) (f (k + 1)) := by
  rintro ⟨f, h0, hstep⟩
  have hex : ∀ k i, Exec M (f i) k (f (i + k)) := by
    intro k
    induction k with
    | zero => intro i; exact Exec.refl _
    | succ k ih =>
      intro i
      have := Exec.step (hstep i) (ih (i + 1))
      have e : i + 1 + k = i + (k + 1) := by omega
      rw [e] at this; exact this
  have := hex (4 * sel.length + 2) 0
  rw [h0] at this
  have := C11_dispatch_every_execution_finite M sel _ _ this
  omega

/-- `dispatch_terminates_exactly_once` (exactly-once half): a maximal execution ends in the final
state, every selected id occurs among the finished results exactly as often as among the selected
lines (once, for `selectLines`), and each finished result is the run of its own line. -/
theorem C11_dispatch_terminates_exactly_once (M : Cfg Line Result) (sel : List (Nat × Line))
    (hc : 1 ≤ M.conc) (hok : NoFatal M sel) (n : Nat) (s : State Line Result)
    (he : Exec M (init sel) n s) (hst : Stuck M s) :
    Final s ∧ List.Perm (s.finished.map Prod.fst) (sel.map Prod.fst) ∧
      ∀ p ∈ s.finished, ∃ l, (p.1, l) ∈ sel ∧ M.run l = some p.2 := by
  have hinv := exec_inv hok he (inv_init M sel)
  have hf := stuck_final hc hok hinv hst
  have hp := final_finished hinv hf
  refine ⟨hf, ?_, ?_⟩
  · have := hp.map Prod.fst
    simpa [List.map_map, Function.comp_def, finTag, lineTag] using this
  · intro p hpm
    have : finTag p ∈ sel.map (lineTag M) := (hp.mem_iff).mp (List.mem_map.mpr ⟨p, hpm, rfl⟩)
    obtain ⟨q, hq, hqe⟩ := List.mem_map.mp this
    refine ⟨q.2, ?_, ?_⟩
    · have : q.1 = p.1 := by simpa [lineTag, finTag] using congrArg Prod.fst hqe
      rw [← this]; exact hq
    · simpa [lineTag, finTag] using congrArg Prod.snd hqe

/-- The ids produced by the line selection are pairwise distinct, so "as often as selected" is
"exactly once". -/
theorem C11_selected_ids_distinct (startLine endLine : Nat) (lines : List Line) :
    ((selectLines startLine endLine lines).map Prod.fst).Nodup := by
  unfold selectLines
  have h : ((List.zip (List.range lines.length) lines).map Prod.fst).Nodup := by
    rw [List.map_fst_zip (by simp)]
    exact List.nodup_range
  exact (List.Sublist.map _ List.filter_sublist).nodup h

/-- `error_summary_exact`: at the end of a maximal execution over a non-empty selection the printed
summary consists of exactly the failed results in order of arrival, they are — as a multiset — the
failed selected lines, and the number printed after "Number of errors:" is the number of printed
error lines. -/
theorem C11_error_summary_exact (M : Cfg Line Result) (sel : List (Nat × Line)) (hne : sel ≠ [])
    (hc : 1 ≤ M.conc) (hok : NoFatal M sel) (n : Nat) (s : State Line Result)
    (he : Exec M (init sel) n s) (hst : Stuck M s) :
    s.summaryResult = some (s.finished.filter fun p => M.failed p.2) ∧
    List.Perm ((s.finished.filter fun p => M.failed p.2).map finTag)
      ((sel.map (lineTag M)).filter fun t => match t.2 with | some r => M.failed r | none => false) ∧
    printedCount s = ((s.finished.filter fun p => M.failed p.2).length : Int) := by
  have hinv := exec_inv hok he (inv_init M sel)
  have hf := stuck_final hc hok hinv hst
  have hp := final_finished hinv hf
  have hfin : s.finished ≠ [] := by
    intro h0
    rw [h0] at hp
    have := hp.length_eq
    simp at this
    exact hne (List.length_eq_zero_iff.mp this.symm)
  have hs : s.summaryResult = some (s.finished.filter fun p => M.failed p.2) := by
    rw [hinv.sres, hinv.summ]
    cases hfe : s.finished with
    | nil => exact absurd hfe hfin
    | cons a l => simp
  refine ⟨hs, ?_, ?_⟩
  · have := hp.filter (fun t => match t.2 with | some r => M.failed r | none => false)
    rw [List.filter_map] at this
    exact this
  · simp [printedCount, printedLines, hs]

/-- With an empty selection (`-lines` beyond the end of the batch file) nothing is ever received
and the program prints "Number of errors: -1" without a summary header (hermes_main.go:244-250). -/
theorem C11_empty_selection_prints_minus_one :
    printedCount (init ([] : List (Nat × Line)) : State Line Result) = -1 := by
  simp [printedCount, printedLines, init]

/-! non-vacuity: three lines, the middle one fails, concurrency 2 — complete executions exist, the
summary is the failed line, the printed count is 1 -/
example : NoFatal exCfg [(0, 10), (1, 11), (2, 12)] := by intro p _; exact ⟨_, rfl⟩
example : (runSchedule exCfg (init [(0, 10), (1, 11), (2, 12)]) (List.replicate 14 0)).summaryResult
    = some [(1, false)] := by decide
example : printedCount (runSchedule exCfg (init [(0, 10), (1, 11), (2, 12)]) [0, 0, 2, 1, 1, 1, 0, 0, 0, 0, 0, 0, 0]) = 1 := by
  decide
example : successors exCfg (runSchedule exCfg (init [(0, 10), (1, 11), (2, 12)]) (List.replicate 14 0)) = [] := by
  decide

/-! ### F9: a run that ends in log.Fatal / panic ends the batch -/

/-- Witness: the batch `[ok, fatal, ok]` has a maximal execution (the only one at concurrency 1)
that is stuck — the process is gone — with only the first line finished: the third line never
runs, no summary exists for the fatal line. -/
theorem C11_fatal_line_ends_batch_fails_at :
    let s := runSchedule fatalCfg (init [(0, 1), (1, 99), (2, 3)]) (List.replicate 8 0)
    s.dead = true ∧ successors fatalCfg s = [] ∧ s.finished = [(0, true)] ∧
      s.pending = [(2, 3)] ∧ ¬ Final s := by
  refine ⟨by decide, by decide, by decide, by decide, ?_⟩
  intro h
  have : (runSchedule fatalCfg (init [(0, 1), (1, 99), (2, 3)]) (List.replicate 8 0)).pending = [(2, 3)] := by decide
  rw [h.1] at this
  cases this

end Hermes.Dispatch

namespace Hermes.LangTag

variable {α : Type} [LT α] [DecidableLT α]

/-- `langtag_terminates`: for EVERY day-length sequence (no periodicity, no latitude restriction)
the repaired `LangTag` returns — the model is a total function whose two searches inspect at most
365 days each — with P1 among the days 1…365, P2 among the 365 days after P1, TAG = P2. -/
theorem C11_langtag_terminates (dl : Nat → α) (thr14 thr16 zero : α) :
    ∃ p1 p2, langTag dl thr14 thr16 zero = (p2, p1, p2) ∧
      1 ≤ p1 ∧ p1 ≤ 365 ∧ p1 < p2 ∧ p2 ≤ p1 + 365 := by
  refine ⟨firstDayLongerThan dl thr14 zero 0, firstDayLongerThan dl thr16 zero (firstDayLongerThan dl thr14 zero 0), rfl, ?_⟩
  have h1 := firstDayLongerThan_range dl thr14 zero 0
  have h2 := firstDayLongerThan_range dl thr16 zero (firstDayLongerThan dl thr14 zero 0)
  omega

/-- Each search looks only at the 365 days after its start. -/
theorem C11_langtag_search_bounded (dl : Nat → α) (thr zero : α) (frm : Nat) :
    frm < firstDayLongerThan dl thr zero frm ∧ firstDayLongerThan dl thr zero frm ≤ frm + 365 :=
  firstDayLongerThan_range dl thr zero frm

/-- The repair changes no result: whenever the pinned, unbounded loop finds a day within one year,
the bounded search returns that same day (the first day after `frm` above the threshold). -/
theorem C11_langtag_agrees_with_pinned (dl : Nat → α) (thr zero : α) (frm r : Nat)
    (h : searchPinned dl thr 365 frm = some r) :
    firstDayLongerThan dl thr zero frm = r ∧ frm < r ∧ thr < dl r ∧
      ∀ t, frm < t → t < r → ¬ thr < dl t := by
  obtain ⟨h1, _, h3, h4⟩ := searchPinned_some 365 frm r h
  exact ⟨scan_eq_pinned 365 frm r zero (frm + 1) h, h1, h3, h4⟩

/-- If no day of the window exceeds the threshold the search still returns (a day of the window
that does not exceed it: the longest day seen). -/
theorem C11_langtag_fallback (dl : Nat → α) (thr zero : α) (frm : Nat)
    (h : ∀ t, frm < t → t ≤ frm + 365 → ¬ thr < dl t) :
    ¬ thr < dl (firstDayLongerThan dl thr zero frm) := by
  unfold firstDayLongerThan
  exact scan_fallback 365 (frm + 1) zero (frm + 1)
    (fun t a b => h t (by omega) (by omega)) (h (frm + 1) (by omega) (by omega))

/-- Characterisation of the pinned loop (kept: it is what made the repair necessary): it terminates
iff some later day has a day length above the threshold. -/
theorem C11_pinned_langtag_terminates_iff (dl : Nat → α) (thr : α) (tag : Nat) :
    (∃ fuel r, searchPinned dl thr fuel tag = some r) ↔ ∃ t, tag < t ∧ thr < dl t :=
  searchPinned_terminates_iff dl thr tag

/-- … for a day-length function of period `P` (days numbered from 1) iff some day of one period
exceeds the threshold; then `P` iterations suffice (why one year is a complete bound). -/
theorem C11_pinned_langtag_periodic_terminates_iff (dl : Nat → α) (thr : α) (P : Nat) (hP : 0 < P)
    (hper : ∀ t, 1 ≤ t → dl (t + P) = dl t) (tag : Nat) :
    ((∃ fuel r, searchPinned dl thr fuel tag = some r) ↔ ∃ t, 1 ≤ t ∧ t ≤ P ∧ thr < dl t) ∧
    (searchPinned dl thr P tag = none → ∀ fuel, searchPinned dl thr fuel tag = none) := by
  refine ⟨(searchPinned_terminates_iff dl thr tag).trans (periodic_exists_iff hP hper tag), ?_⟩
  intro hnone fuel
  rw [searchPinned_none]
  intro t h1 _ hlt
  have hwin := (searchPinned_none P tag).mp hnone
  obtain ⟨t', ht1, ht2, ht3⟩ := (periodic_exists_iff hP hper 0).mp ⟨t, by omega, hlt⟩
  have hmod := Nat.mod_lt (tag + P - t') hP
  let u := t' + ((tag + P - t') / P) * P
  have hu1 : tag < u := by
    have := Nat.div_add_mod (tag + P - t') P
    have hc : P * ((tag + P - t') / P) = ((tag + P - t') / P) * P := Nat.mul_comm _ _
    show tag < t' + ((tag + P - t') / P) * P
    omega
  have hu2 : u ≤ tag + P := by
    have := Nat.div_mul_le_self (tag + P - t') P
    show t' + ((tag + P - t') / P) * P ≤ tag + P
    omega
  have hdl : dl u = dl t' := periodic_shift hper t' _ ht1
  exact hwin u hu1 hu2 (by rw [hdl]; exact ht3)

set_option maxRecDepth 20000 in
/-- the periodicity hypothesis is satisfiable: the list-given day-length function of the model
driver (one period, days numbered from 1) has it -/
example : ∀ t, 1 ≤ t → periodic dl45 0 (t + 365) = periodic dl45 0 t := by
  intro t h1
  have := periodic_period dl45 0 t h1
  rwa [show dl45.length = 365 by decide] at this

set_option maxRecDepth 20000 in
/-- Regression witness (F6): at the pinned commit, with the day lengths the real
`CalculateDayLenght` yields at latitude 45° (table `dl45`, ⌈100·DL⌉, longest day 15.43 h), no fuel
made `LangTag` return: the second loop waited for a day longer than 16 h for ever. -/
theorem C11_pinned_langtag_nonterminating_lat45_fails_at :
    ∀ fuel, langTagPinned (periodic dl45 0) 1400 1600 fuel = none := by
  intro fuel
  have hall : ∀ t, ¬ 1600 < periodic dl45 0 t := by
    intro t
    have hlen : dl45.length = 365 := by decide
    have hb : dl45.all (fun x => decide (x ≤ 1600)) = true := by decide
    have hlt : (t - 1) % dl45.length < dl45.length := Nat.mod_lt _ (by rw [hlen]; omega)
    unfold periodic
    rw [List.getD_eq_getElem?_getD, List.getElem?_eq_getElem hlt]
    have := List.all_eq_true.mp hb _ (List.getElem_mem hlt)
    simp at this ⊢
    exact this
  unfold langTagPinned
  cases h1 : searchPinned (periodic dl45 0) 1400 fuel 0 with
  | none => rfl
  | some p1 =>
    simp only
    have : searchPinned (periodic dl45 0) 1600 fuel p1 = none := by
      rw [searchPinned_none]; intro t _ _; exact hall t
    rw [this]

set_option maxRecDepth 20000 in
/-- … the repaired code returns on the same table: P1 = day 120 (first day longer than 14 h), P2 =
the longest day of the following year of the table. -/
theorem C11_langtag_lat45_returns :
    langTag (periodic dl45 0) 1400 1600 0 = (170, 120, 170) := by decide

end Hermes.LangTag

namespace Hermes.RunLoop

variable {σ ε : Type}

/-- `run_loop_terminates`: the day loop of run.go:306-755 ends after at most `B + 2`
iterations when `ZEIT` advances by `DT ≥ 1` and every value the body assigns to `g.ENDE` is at most
`B` — whatever else the body does to the state (wrong year bookkeeping included) and whether or
not it returns an error. -/
theorem C11_run_loop_terminates (body : σ → Nat → Nat → Except ε (σ × Nat)) (dt B : Nat) (hdt : 1 ≤ dt)
    (hB : ∀ s z e s' e', body s z e = .ok (s', e') → e' ≤ B)
    (beginn ende : Nat) (s : σ) (he : ende ≤ B) :
    loop body dt (B + 2) beginn ende s ≠ none :=
  loop_terminates body dt B hdt hB (B + 2) beginn ende s he (by omega)

/-! non-vacuity: a three-day run whose body moves ENDE once -/
example : loop (σ := Nat) (ε := String) (fun s z e => .ok (s + z, if z = 11 then 12 else e)) 1 5 10 14 0 = some (.ok 33) := by
  rfl

end Hermes.RunLoop

namespace Hermes.Readers

/-- The schedule readers of input.go (irrigation, tillage, fertiliser, rotation: an outer loop over the
lines and an inner `for ok` loop over the lines of the run's field, both driven by `NextLineInut`)
terminate on every file: every iteration consumes a line, `|lines| + 3` iterations of each loop are
never used up — whatever the lines contain (other fields, blank lines, a missing `end`). -/
theorem C11_schedule_reader_terminates (pkt : Nat) (lines : List Line) :
    readSchedule pkt (lines.length + 3) lines ≠ none := by
  unfold readSchedule
  apply outer_terminates
  have := nextLine_length lines
  omega

/-! non-vacuity: two events of field 7 between lines of other fields; the blank line ends the reading
(the outer loop's `valid` is false), so the event after it is not read — the code's behaviour -/
example : readSchedule 7 9 [some ⟨3, 1⟩, some ⟨7, 2⟩, some ⟨7, 3⟩, some ⟨8, 4⟩, none, some ⟨7, 5⟩]
    = some [⟨7, 2⟩, ⟨7, 3⟩] := by decide

end Hermes.Readers
