import HermesProps.AuditCmd
import HermesProps.C01
import HermesProps.C12
import HermesProps.C17
