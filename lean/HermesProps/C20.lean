/-
C20 — the groundwater level follows the supplied series.
Property theorems only; the model (a transcription of hermes/soil.go:734-765, run.go:361,
input.go:68-73) is in HermesModel/GroundWater.lean, helper lemmas in HermesProofs/GroundWater.lean.
Series theorems: exact arithmetic (ℚ) where a value is computed, any arithmetic where a stored
value is returned.  Sinusoid: ℝ with Mathlib's `Real.sin`.
-/
import HermesProofs.GroundWater
namespace Hermes.GroundWater

/-! ### time series -/

/-- On a date of the series the level is the series value of that date (any arithmetic). -/
theorem C20_gw_exact_hit {α : Type} [Add α] [Sub α] [Mul α] [Div α] [OfNat α 0] [Conv α]
    (s : List (Nat × α)) (hs : Ascending s) (d : Nat) (v : α) (hm : (d, v) ∈ s) :
    getLevel s d = some v := by
  simp [getLevel, mapGet_of_mem s hs d v hm]

/-- Between two consecutive dates of a strictly ascending series of day numbers the level is the
linear interpolation of the two neighbours — for every gap length and every position of the pair
in the series — hence it lies between the two values. -/
theorem C20_gw_interpolates (pre post : List (Nat × ℚ)) (p n : Nat) (vp vn : ℚ) (date : Nat)
    (hs : Ascending (pre ++ (p, vp) :: (n, vn) :: post))
    (hpos : PositiveDays (pre ++ (p, vp) :: (n, vn) :: post))
    (h1 : p < date) (h2 : date < n) :
    getLevel (pre ++ (p, vp) :: (n, vn) :: post) date
        = some (vp + (vn - vp) * (((date : ℚ) - p) / ((n : ℚ) - p))) ∧
      min vp vn ≤ vp + (vn - vp) * (((date : ℚ) - p) / ((n : ℚ) - p)) ∧
      vp + (vn - vp) * (((date : ℚ) - p) / ((n : ℚ) - p)) ≤ max vp vn := by
  have hb := interpolate_between p n date vp vn h1 h2
  rw [interpolate_eq p n date vp vn h1 h2] at hb
  refine ⟨?_, hb⟩
  rw [← interpolate_eq p n date vp vn h1 h2]
  set s := pre ++ (p, vp) :: (n, vn) :: post with hsdef
  have hdays : days s = (days pre ++ [p]) ++ n :: days post := by simp [hsdef, days]
  have hasc : ((days pre ++ [p]) ++ n :: days post).Pairwise (· < ·) := by
    rw [← hdays]; exact hs
  rw [List.pairwise_append] at hasc
  obtain ⟨hpreP, hpostP, hcross⟩ := hasc
  rw [List.pairwise_append] at hpreP
  have hpre_lt : ∀ d ∈ days pre ++ [p], d < date := by
    intro d hd
    rcases List.mem_append.mp hd with h | h
    · have := hpreP.2.2 d h p (List.mem_singleton.mpr rfl); omega
    · have := List.mem_singleton.mp h; omega
  have hpost_gt : ∀ d ∈ n :: days post, date < d := by
    intro d hd
    rcases List.mem_cons.mp hd with h | h
    · omega
    · rw [List.pairwise_cons] at hpostP
      have := hpostP.1 d h; omega
  have hnot : date ∉ days s := by
    rw [hdays]
    intro hmem
    rcases List.mem_append.mp hmem with h | h
    · exact Nat.lt_irrefl _ (hpre_lt date h)
    · exact Nat.lt_irrefl _ (hpost_gt date h)
  have hmp : mapGet s p = some vp := mapGet_of_mem s hs p vp (by simp [hsdef])
  have hmn : mapGet s n = some vn := mapGet_of_mem s hs n vn (by simp [hsdef])
  have hnb : neighbours date (days s) 0 = (p, n) := by
    rw [hdays, neighbours_append_lt date _ _ 0 hpre_lt, neighbours_gt date n _ _ h2]
    simp [List.getLastD_eq_getLast?]
  have hp0 : p ≠ 0 := by
    have := hpos p (by rw [hdays]; simp); omega
  have hn0 : n ≠ 0 := by omega
  have hnb' : neighbours date (List.map (fun x => x.1) s) 0 = (p, n) := hnb
  simp [getLevel, mapGet_none s date hnot, hnb', hp0, hn0, hmp, hmn]

/-- Before the first date of the series the level is the first value; after the last date it is
the last value (the nearest given value). -/
theorem C20_gw_clamps_outside {α : Type} [Add α] [Sub α] [Mul α] [Div α] [OfNat α 0] [Conv α] :
    (∀ (d0 : Nat) (v0 : α) (rest : List (Nat × α)) (date : Nat),
        Ascending ((d0, v0) :: rest) → date < d0 → getLevel ((d0, v0) :: rest) date = some v0) ∧
    (∀ (pre : List (Nat × α)) (dl : Nat) (vl : α) (date : Nat),
        Ascending (pre ++ [(dl, vl)]) → PositiveDays (pre ++ [(dl, vl)]) → dl < date →
        getLevel (pre ++ [(dl, vl)]) date = some vl) := by
  constructor
  · intro d0 v0 rest date hs hlt
    have hasc : (d0 :: days rest).Pairwise (· < ·) := by simpa [Ascending, days] using hs
    rw [List.pairwise_cons] at hasc
    have hnot : date ∉ days ((d0, v0) :: rest) := by
      simp only [days, List.map_cons, List.mem_cons, not_or]
      refine ⟨by omega, fun hm => ?_⟩
      have := hasc.1 date (by simpa [days] using hm); omega
    have hm0 : mapGet ((d0, v0) :: rest) d0 = some v0 :=
      mapGet_of_mem _ hs d0 v0 (List.mem_cons_self ..)
    have hnb : neighbours date (d0 :: List.map (fun x => x.1) rest) 0 = (0, d0) :=
      neighbours_gt date d0 (List.map (fun x => x.1) rest) 0 hlt
    have hd0 : d0 ≠ 0 := by omega
    simp [getLevel, mapGet_none _ date hnot, hnb, hd0, hm0]
  · intro pre dl vl date hs hpos hlt
    set s := pre ++ [(dl, vl)] with hsdef
    have hdays : days s = (days pre ++ [dl]) ++ [] := by simp [hsdef, days]
    have hasc : (days pre ++ [dl]).Pairwise (· < ·) := by
      have : days s = days pre ++ [dl] := by simp [hsdef, days]
      rw [← this]; exact hs
    rw [List.pairwise_append] at hasc
    have hpre_lt : ∀ d ∈ days pre ++ [dl], d < date := by
      intro d hd
      rcases List.mem_append.mp hd with h | h
      · have := hasc.2.2 d h dl (List.mem_singleton.mpr rfl); omega
      · have := List.mem_singleton.mp h; omega
    have hnot : date ∉ days s := by
      rw [hdays, List.append_nil]
      intro hmem; exact Nat.lt_irrefl _ (hpre_lt date hmem)
    have hml : mapGet s dl = some vl := mapGet_of_mem s hs dl vl (by simp [hsdef])
    have hnb : neighbours date (List.map (fun x => x.1) s) 0 = (dl, 0) := by
      show neighbours date (days s) 0 = (dl, 0)
      rw [hdays, neighbours_append_lt date _ _ 0 hpre_lt]
      simp [neighbours, List.getLastD_eq_getLast?]
    have hl0 : dl ≠ 0 := by
      have := hpos dl (by rw [hdays]; simp); omega
    simp [getLevel, mapGet_none s date hnot, hnb, hl0, hml]

/-- The interpolated level is monotone in each of the two neighbour values. -/
theorem C20_gw_interpolation_monotone (p n date : Nat) (vp vp' vn vn' : ℚ) (h1 : p < date)
    (h2 : date < n) (hp : vp ≤ vp') (hn : vn ≤ vn') :
    interpolate p n date vp vn ≤ interpolate p n date vp' vn' :=
  le_trans (interpolate_mono_prev p n date vp vp' vn h1 h2 hp)
    (interpolate_mono_next p n date vp' vn vn' h1 h2 hn)

/-- The interpolation is continuous with the records: evaluated at the two neighbour dates the
formula gives the neighbours' values, which is what the exact hit returns there. -/
theorem C20_gw_interpolation_meets_records (p n : Nat) (vp vn : ℚ) (h : p < n) :
    interpolate p n p vp vn = vp ∧ interpolate p n n vp vn = vn :=
  interpolate_at_ends p n vp vn h

/-- With an empty series every query is the error of soil.go:754 (a run stops with it). -/
theorem C20_gw_empty_series_is_error {α : Type} [Add α] [Sub α] [Mul α] [Div α] [OfNat α 0] [Conv α]
    (date : Nat) : getLevel ([] : List (Nat × α)) date = none := by
  simp [getLevel, mapGet, neighbours]

/-- The hypothesis "dates are day numbers ≥ 1" of the two theorems above is needed: the code uses
0 for "no neighbour", so a record dated 0 is not seen as the earlier neighbour. -/
theorem C20_gw_sentinel_needs_positive_days :
    getLevel [((0 : Nat), (1 : ℚ)), (10, 3)] 5 = some 3 ∧ getLevel [((0 : Nat), (1 : ℚ))] 5 = none := by
  constructor <;> simp [getLevel, mapGet, neighbours]

/-! ### minimum / maximum levels of the polygon file -/

/-- The mean is (H+L)/2, and for every argument of the sine the level GW − AMPL·sin(·) stays in the
interval between the two given levels, whichever of them is the larger one. -/
theorem C20_gw_sinus_in_interval (grhi grlo : Int) (x : ℝ) :
    (gwMean grhi grlo : ℝ) = ((grhi : ℝ) + grlo) / 2 ∧
    min (grhi : ℝ) grlo ≤ sinusLevel (gwMean grhi grlo) (gwAmpl grhi grlo) (Real.sin x) ∧
    sinusLevel (gwMean grhi grlo) (gwAmpl grhi grlo) (Real.sin x) ≤ max (grhi : ℝ) grlo := by
  have hm : (gwMean grhi grlo : ℝ) = ((grhi : ℝ) + grlo) / 2 := by
    show ((grlo + grhi : Int) : ℝ) / 2 = _
    push_cast; ring
  have ha : (gwAmpl grhi grlo : ℝ) = ((grlo : ℝ) - grhi) / 2 := by
    show ((grlo - grhi : Int) : ℝ) / 2 = _
    push_cast; ring
  refine ⟨hm, ?_⟩
  have s1 := Real.sin_le_one x
  have s2 := Real.neg_one_le_sin x
  unfold sinusLevel
  rw [hm, ha]
  generalize Real.sin x = sv at s1 s2
  rcases le_total (grhi : ℝ) grlo with h | h
  · rw [min_eq_left h, max_eq_right h]
    constructor <;> nlinarith
  · rw [min_eq_right h, max_eq_left h]
    constructor <;> nlinarith

/-- The level of day `tag` with phase shift `phase` (run.go:361). -/
noncomputable def levelOfDay (grhi grlo : Int) (tag : ℝ) (phase : Int) : ℝ :=
  sinusLevel (gwMean grhi grlo) (gwAmpl grhi grlo) (Real.sin (sinArg tag phase Real.pi))

/-- Phase: the argument of the sine is (day + phase)·π/180, so the oscillation has a period of 360
days, a phase shift of `phase` days moves it by that many days, the level passes through the mean
where day + phase is a multiple of 180, reaches the first level of the polygon file (GH) where
day + phase ≡ 90 and the second one (GL) where day + phase ≡ 270 (mod 360). -/
theorem C20_gw_sinus_phase (grhi grlo : Int) (tag : ℝ) (phase : Int) :
    sinArg tag phase Real.pi = (tag + phase) * Real.pi / 180 ∧
    levelOfDay grhi grlo tag phase = levelOfDay grhi grlo (tag + phase) 0 ∧
    levelOfDay grhi grlo (tag + 360) phase = levelOfDay grhi grlo tag phase ∧
    (∀ k : Int, tag + phase = 180 * k → levelOfDay grhi grlo tag phase = ((grhi : ℝ) + grlo) / 2) ∧
    (∀ k : Int, tag + phase = 90 + 360 * k → levelOfDay grhi grlo tag phase = grhi) ∧
    (∀ k : Int, tag + phase = 270 + 360 * k → levelOfDay grhi grlo tag phase = grlo) := by
  have harg : ∀ (t : ℝ) (ph : Int), sinArg t ph Real.pi = (t + ph) * Real.pi / 180 := fun _ _ => rfl
  have hm : (gwMean grhi grlo : ℝ) = ((grhi : ℝ) + grlo) / 2 := by
    show ((grlo + grhi : Int) : ℝ) / 2 = _
    push_cast; ring
  have ha : (gwAmpl grhi grlo : ℝ) = ((grlo : ℝ) - grhi) / 2 := by
    show ((grlo - grhi : Int) : ℝ) / 2 = _
    push_cast; ring
  refine ⟨harg tag phase, ?_, ?_, ?_, ?_, ?_⟩
  · unfold levelOfDay
    rw [harg, harg]; push_cast; ring_nf
  · unfold levelOfDay
    rw [harg, harg]
    have : (tag + 360 + phase) * Real.pi / 180 = (tag + phase) * Real.pi / 180 + 2 * Real.pi := by ring
    rw [this, Real.sin_add_two_pi]
  · intro k hk
    unfold levelOfDay sinusLevel
    rw [harg, hk, hm]
    have : (180 * (k : ℝ)) * Real.pi / 180 = k * Real.pi := by ring
    rw [this, Real.sin_int_mul_pi]; ring
  · intro k hk
    unfold levelOfDay sinusLevel
    rw [harg, hk, hm, ha]
    have : (90 + 360 * (k : ℝ)) * Real.pi / 180 = Real.pi / 2 + k * (2 * Real.pi) := by ring
    rw [this, Real.sin_add_int_mul_two_pi, Real.sin_pi_div_two]; ring
  · intro k hk
    unfold levelOfDay sinusLevel
    rw [harg, hk, hm, ha]
    have : (270 + 360 * (k : ℝ)) * Real.pi / 180 = -(Real.pi / 2) + (k + 1 : Int) * (2 * Real.pi) := by
      push_cast; ring
    rw [this, Real.sin_add_int_mul_two_pi, Real.sin_neg, Real.sin_pi_div_two]; ring

/-! ### non-vacuity: the hypotheses are met by concrete series -/

example : Ascending [((3 : Nat), (2 : ℚ)), (10, 4), (40, 1)] ∧
    PositiveDays [((3 : Nat), (2 : ℚ)), (10, 4), (40, 1)] := by
  constructor
  · simp [Ascending, days]
  · intro d hd; simp [days] at hd; omega

example : getLevel [((3 : Nat), (2 : ℚ)), (10, 4), (40, 1)] 20 = some 3 := by
  simp [getLevel, mapGet, neighbours, interpolate, Conv.ofNat]; norm_num

example : getLevel [((3 : Nat), (2 : ℚ)), (10, 4), (40, 1)] 1 = some 2 ∧
    getLevel [((3 : Nat), (2 : ℚ)), (10, 4), (40, 1)] 99 = some 1 := by
  constructor <;> simp [getLevel, mapGet, neighbours]

end Hermes.GroundWater
