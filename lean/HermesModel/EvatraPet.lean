/-
Model of the potential-evapotranspiration part of `Evatra` (hermes/water.go:36-61, 100-302,
304-475: month selection of the Haude factor, method dispatch, the five methods for a day under
a crop and for bare soil, the crop coefficient), of `stomat` (water.go:667-802, canopy resistance
with the CO2 response) and of `CalculateDayLenght` / `Limit` (hermes/solar.go:13-53), i.e. the
map  (weather of the day, site, crop state, configuration) → raw potential ET `VERDU[TAG]`
that the partition part (HermesModel/Evatra.lean: floor at zero, daily cap, split, …) starts from,
together with the other state the code writes on the way (`ET0`, `RSTOM`, `SATDEF`, the wind of the
day converted to 2 m and floored at 0.5 m/s, the sunshine hours clamped by `stomat`, `FKC` set to the
bare-soil coefficient, `RADSUM`).

Every call of a transcendental function of Go's `math` package (`Sin`, `Cos`, `Tan`, `Asin`, `Acos`,
`Exp`, `Log`, `Sqrt`, `Pow`) is a *site*: its value is supplied from outside in `Tr` (the harness
evaluates Go's own function on the argument the model asks for, `sites`), everything between the
sites is transcribed operation by operation in the order Go evaluates it, so that the `Float`
instantiation is compared bit for bit with the real code.  Constant sub-expressions which the Go
compiler folds exactly (`2*math.Pi/365`, `24.*60./math.Pi*8.20`, `0.5*1300.`, `-.8*1.44`,
`10*3600*24*44`, `8.*math.Pi/180.`) are written as the folded literal.
Polymorphic in the arithmetic (see Num.lean); core Lean only.
-/
import HermesModel.Num
import HermesModel.Evatra
namespace Hermes.EvatraPet

section
variable {α : Type} [Add α] [Sub α] [Mul α] [Div α] [Neg α] [LT α] [DecidableLT α] [LE α] [DecidableLE α]
  [OfNat α 0] [OfNat α 1] [OfNat α 3] [OfNat α 4] [OfScientific α] [Conv α]

/-- Values of the transcendental calls of one day (one field per call site). -/
structure Tr (α : Type) where
  -- CalculateDayLenght (solar.go)
  sDec : α      -- sin(2π/365·tag − 1.39)
  sinDec : α    -- sin(DEC·π/180)
  sinLat : α    -- sin(lat·π/180)
  cosDec : α
  cosLat : α
  asDL : α      -- asin(Limit(SINLD/COSLD, 1, −1))
  sin8 : α      -- sin(8π/180)
  asDLE : α     -- asin(Limit((−sin8 + SINLD)/COSLD, 1, −1))
  cosYear : α   -- cos(2π·tag/365)
  tanLat : α
  tanDec : α
  sha : α       -- acos(Limit(−tan(lat)·tan(DEC), 1, −1))
  sinSha : α    -- sin(SHA)
  pw2 : α       -- pow(Limit(SINLD/COSLD, 1, −1), 2)
  sq : α        -- sqrt(1 − pw2)
  eDrc : α      -- exp(−.14/(RDN/(DL·3600)))
  -- Penman-Monteith / Priestley-Taylor (water.go)
  pAtm : α      -- pow((293 − 0.0065·ALTI)/293, 5.26)
  eTmax : α     -- exp(17.27·TMAX/(237.3 + TMAX))
  eTmin : α     -- exp(17.27·TMIN/(237.3 + TMIN))
  eTminPT : α   -- exp(17.27·TMIN/(TMIN + 237.3))      (Priestley-Taylor's own call)
  eT : α        -- exp(17.27·TEMP/(TEMP + 237.3))
  pT2 : α       -- pow(TEMP + 237.3, 2)
  p4min : α     -- pow(TMIN + 273.16, 4)
  p4max : α     -- pow(TMAX + 273.16, 4)
  sqVap : α     -- sqrt(Vapres), Penman-Monteith
  sqVapPT : α   -- sqrt(Vapres), Priestley-Taylor
  logW : α      -- log(67.8·WINDHI − 5.42)
  -- stomat
  p2T : α       -- pow(2, (TEMP − 10)/10)
  cosTag : α    -- cos(2π·TAG/365)
  sSsl : α      -- sin((90 + DEC − LAT)·π/180)
  logX : α
  logY : α
  eGrass : α    -- exp(−.8·1.44)
  eC : α        -- exp(−MAPHC/MIPHC)
  eO : α        -- exp(−MAPHO/MIPHO)

/-- What the potential-ET part of one `Evatra` call reads. -/
structure PIn (α : Type) where
  meth : Nat        -- ETMETH
  crop : Bool       -- the vegetation condition of water.go:132-133
  tagN : Nat        -- TAG.Num (day of the year, 1-based)
  ctrans : Bool     -- CTRANS
  co2meth : Nat     -- CO2METH
  verd : α          -- VERD[TAG]
  temp : α
  tmin : α
  tmax : α
  rad : α
  sund : α
  rh : α
  wind : α
  etnull : α
  lat : α
  alti : α
  windhi : α
  kcoa : α
  fkc : α
  fkb : α
  co2 : α           -- CO2KONZ
  mintmp : α
  alph : α
  satbeta : α
  dt : α            -- DT.Num
  et0Prev : α       -- ET0, RSTOM, SATDEF, RADSUM before the call (kept on some paths)
  rstomPrev : α
  satdefPrev : α
  radsumPrev : α
  fkf : List α      -- FKF[0..11]
  fku : List α      -- FKU[0..11]

/-- What it leaves behind. `verdu0` is VERDU[TAG] before the floor at zero and the cap. -/
structure Res (α : Type) where
  verdu0 : α
  et0 : α
  rstom : α
  satdef : α
  wind : α
  sund : α
  fkc : α
  radsum : α

/-! ### solar.go -/

/-- solar.go:46-53 `Limit(val, upper, lower)` -/
def limit (v up lo : α) : α := if up < v then up else if v < lo then lo else v

def pi : α := (3.141592653589793 : α)

/-- results of `CalculateDayLenght` that `Evatra` and `stomat` use (DLP is computed and dropped) -/
structure Sol (α : Type) where
  dl : α
  dle : α
  ext : α
  rdn : α
  drc : α
  dec : α
  sinld : α
  cosld : α
  rdnRaw : α   -- the RDN expression (assigned only when DL > 0)

def tagF (i : PIn α) : α := Conv.ofNat i.tagN

/-- solar.go:13-43 -/
def dayLength (t : Tr α) : Sol α :=
  let dec := (0.409 : α) * t.sDec * (180.0 : α) / pi
  let sinld := t.sinDec * t.sinLat
  let cosld := t.cosDec * t.cosLat
  let dl := (12.0 : α) * (pi + (2.0 : α) * t.asDL) / pi
  let dle := (12.0 : α) * (pi + (2.0 : α) * t.asDLE) / pi
  let sc := (3758.6031360582 : α) * (1 + (0.033 : α) * t.cosYear)
  let ext := sc * (t.sha * sinld + cosld * t.sinSha) / (100.0 : α)
  let rdnRaw := (3600.0 : α) * (sinld * dl + (7.639437268410976 : α) * cosld * t.sq)
  if 0 < dl then
    { dl, dle, ext, rdn := rdnRaw, drc := (650.0 : α) * rdnRaw * t.eDrc, dec, sinld, cosld, rdnRaw }
  else
    { dl, dle, ext, rdn := 0, drc := 0, dec, sinld, cosld, rdnRaw }

/-! ### pieces shared by the radiation methods -/

def albedo : α := (0.23 : α)
def bolz : α := (0.0000000049 : α)

/-- global radiation from sunshine hours (water.go:145-149, 186-190, 265-269, …) -/
def globSun (dl ext sund : α) : α :=
  if 0 < dl then ext * ((0.19 : α) + (0.55 : α) * sund / dl) else ext * (0.19 : α)

def clip1 (x : α) : α := if 1 < x then 1 else x

/-- the long-wave term of the net radiation -/
def longwave (p4min p4max ratio sqv : α) : α :=
  bolz * (p4min + p4max) / (2.0 : α) * ((1.35 : α) * ratio - (0.35 : α)) * ((0.34 : α) - (0.14 : α) * sqv)

/-- RS0 (clear-sky radiation) -/
def rs0 (alti ext : α) : α := ((0.75 : α) + (0.00002 : α) * alti) * ext

/-- net radiation, radiation given; `guarded`: the bare-soil Penman branch tests RS0 > 0 first
(water.go:432-439), the other five places divide unguarded (179, 258, 358). -/
def radnRad (guarded : Bool) (rad r0 p4min p4max sqv : α) : α :=
  let ratio := if guarded then (if 0 < r0 then clip1 (rad * (2.0 : α) / r0) else 1)
               else clip1 (rad * (2.0 : α) / r0)
  (1 - albedo) * rad * (2.0 : α) - longwave p4min p4max ratio sqv

/-- net radiation from sunshine hours -/
def radnSun (glob r0 p4min p4max sqv : α) : α :=
  let ratio := clip1 (if 0 < r0 then glob / r0 else 1)
  (1 - albedo) * glob - longwave p4min p4max ratio sqv

def radn (guarded : Bool) (rad sund : α) (s : Sol α) (r0 p4min p4max sqv : α) : α :=
  if 0 < rad then radnRad guarded rad r0 p4min p4max sqv
  else radnSun (globSun s.dl s.ext sund) r0 p4min p4max sqv

/-- slope of the saturation vapour pressure curve -/
def deltsat (eT pT2 : α) : α := ((4098.0 : α) * ((0.6108 : α) * eT)) / pT2

def psych (pAtm : α) : α := (0.000665 : α) * ((101.3 : α) * pAtm)

def floor0 (x : α) : α := if x < 0 then 0 else x

/-! ### the Haude month (water.go:36-61) -/

def fkm (tag : Nat) : Nat :=
  if 212 < tag ∧ tag < 244 then 8
  else if 243 < tag ∧ tag < 274 then 9
  else if 273 < tag ∧ tag < 305 then 10
  else if 304 < tag ∧ tag < 335 then 11
  else if 334 < tag then 12
  else if tag < 32 then 1
  else if 31 < tag ∧ tag < 60 then 2
  else if 59 < tag ∧ tag < 91 then 3
  else if 90 < tag ∧ tag < 121 then 4
  else if 120 < tag ∧ tag < 152 then 5
  else if 151 < tag ∧ tag < 182 then 6
  else 7

def monthFactor (xs : List α) (tag : Nat) : α := xs.getD (fkm tag - 1) 0

/-! ### method 2, Turc-Wendling -/

/-- the three denominators of the Turc-Wendling branches -/
def turcDen (temp : α) : α := (150.0 : α) * (temp + (123.0 : α))
def turcDenSunCrop (temp : α) : α := (150.0 : α) * (temp - 1 + (123.0 : α))

/-- water.go:139-151 (crop) and 320-334 (bare; `fkc` is then FKB). The sunshine branch under a
crop divides by 150·(TEMP − 1 + 123), the other three by 150·(TEMP + 123). -/
def turc (crop : Bool) (rad sund temp kcoa fkc : α) (s : Sol α) : α :=
  if 0 < rad then
    (rad * (200.0 : α) + (93.0 : α) * kcoa) * (temp + (22.0 : α)) / turcDen temp * fkc * (0.1 : α)
  else
    let glob := globSun s.dl (s.ext * (100.0 : α)) sund
    (glob + (93.0 : α) * kcoa) * (temp + (22.0 : α)) / (if crop then turcDenSunCrop temp else turcDen temp) * fkc * (0.1 : α)

/-! ### method 4, Priestley-Taylor -/

/-- water.go:165-204 (crop: divided by Δ + γ, times 1.26) and 350-384 (bare: neither). -/
def priestleyEt0 (crop : Bool) (i : PIn α) (t : Tr α) (s : Sol α) : α :=
  let r0 := rs0 i.alti s.ext
  let d := deltsat t.eT t.pT2
  let rn := radn false i.rad i.sund s r0 t.p4min t.p4max t.sqVapPT
  floor0 (if crop then ((0.408 : α) * d * rn) / (d + psych t.pAtm) * (1.26 : α) else (0.408 : α) * d * rn)

/-! ### stomat (water.go:667-802) -/

/-- temperature response of the light-saturated assimilation (water.go:693-707) -/
def amaxT (temp mintmp : α) : α :=
  if temp < mintmp then 0
  else if temp < (10.0 : α) then (30.0 : α) * temp / (10.0 : α) * (0.4 : α)
  else if temp < (15.0 : α) then (30.0 : α) * ((0.4 : α) + (temp - (10.0 : α)) / (5.0 : α) * (0.5 : α))
  else if temp < (25.0 : α) then (30.0 : α) * ((0.9 : α) + (temp - (15.0 : α)) / (10.0 : α) * (0.1 : α))
  else if temp < (35.0 : α) then (30.0 : α) * (1 - (temp - (25.0 : α)) / (10.0 : α))
  else 0

/-- EFF (water.go:687-692). The CO2 compensation point is local to this block. -/
def stoEff (co2meth : Nat) (co2 p2T : α) : α :=
  if co2meth = 1 then
    let cocomp := (17.5 : α) * p2T
    (co2 - cocomp) / (co2 + (2.0 : α) * cocomp) * (0.5 : α)
  else (0.5 : α)

/-- global radiation used by the CO2 response of method 2 (water.go:713-727): (KCo1, coco) -/
def stoKco (i : PIn α) (t : Tr α) (s : Sol α) : α × α :=
  if 0 < i.rad then
    ((220.0 : α) + (0.158 : α) * i.rad * (20.0 : α), (80.0 : α) - (0.0036 : α) * i.rad * (20.0 : α))
  else
    let sc := (1367.0 : α) * (1 + (0.033 : α) * t.cosTag)
    let ext := sc * s.rdn / (10000.0 : α)
    let glob := globSun s.dl ext i.sund
    ((220.0 : α) + (0.158 : α) * glob, (80.0 : α) - (0.0036 : α) * glob)

def kco2 (co2 kco1 coco : α) : α :=
  ((co2 - coco) / (kco1 + co2 - coco)) / (((350.0 : α) - coco) / (kco1 + (350.0 : α) - coco))

/-- AMAX after the CO2 response and the floor at 0.1 (water.go:708-734). In the first CO2 method
the outer variable `COcomp` is still 0 (the assignment of 687-688 declares a new one), so the
factor is (CO2KONZ − 0)/(350 − 0). -/
def stoAmax (i : PIn α) (t : Tr α) (s : Sol α) : α :=
  let a0 := amaxT i.temp i.mintmp
  let a1 := if i.co2meth = 1 then a0 * (i.co2 - 0) / ((350.0 : α) - 0)
            else if i.co2meth = 2 then a0 * kco2 i.co2 (stoKco i t s).1 (stoKco i t s).2
            else a0
  if a1 < (0.1 : α) then (0.1 : α) else a1

/-- min/max pair and the light-use closure  MI·(1 − exp(−MA/MI))  (water.go:752-761, 767-776) -/
def satur (p3 p4 e : α) : α := (if p3 < p4 then p3 else p4) * (1 - e)
def saturArg (p3 p4 : α) : α := -(if p3 < p4 then p4 else p3) / (if p3 < p4 then p3 else p4)

structure Photo (α : Type) where
  effe : α
  amax : α
  xArg : α
  yArg : α
  phc3 : α
  phc4 : α
  pho3 : α
  z : α

/-- water.go:738-766 up to the two saturation closures -/
def photo (i : PIn α) (t : Tr α) (s : Sol α) : Photo α :=
  let dro := (0.2 : α) * s.drc
  let effe := (1 - (0.08 : α)) * stoEff i.co2meth i.co2 t.p2T
  let amax := stoAmax i t s
  let ssl := t.sSsl
  let xArg := 1 + (0.45 : α) * s.drc / (s.dle * (3600.0 : α)) * effe / (ssl * amax)
  let phch1 := ssl * amax * s.dle * t.logX / (1 + t.logX)
  let yArg := 1 + (0.55 : α) * s.drc / (s.dle * (3600.0 : α)) * effe / (((5.0 : α) - ssl) * amax)
  let phch2 := ((5.0 : α) - ssl) * amax * s.dle * t.logY / (1 + t.logY)
  let phch := (0.95 : α) * (phch1 + phch2) + (20.5 : α)
  let phc3 := phch * (1 - t.eGrass)
  let phc4 := s.dl * (1.44 : α) * amax
  let z := dro / (s.dle * (3600.0 : α)) * effe / ((5.0 : α) * amax)
  let phoh1 := (5.0 : α) * amax * s.dle * z / (1 + z)
  let phoh := (0.9935 : α) * phoh1 + (1.1 : α)
  let pho3 := phoh * (1 - t.eGrass)
  { effe, amax, xArg, yArg, phc3, phc4, pho3, z }

/-- daily gross assimilation: sunshine weighting (781-785) or the overcast fraction (786-797).
Result (DTGA, SUND after the clamp, RADSUM). -/
def dtga (i : PIn α) (s : Sol α) (dgac dgao : α) : α × α × α :=
  if i.rad ≤ 0 ∧ 0 ≤ i.rad then
    let sund := if s.dle < i.sund then s.dle else i.sund
    (sund / s.dle * dgac + (1 - sund / s.dle) * dgao, sund, i.radsumPrev)
  else
    let fov0 := (s.drc - (1000000.0 : α) * i.rad * 1) / ((0.8 : α) * s.drc)
    let fov1 := if 1 < fov0 then 1 else fov0
    let fov := if fov1 < 0 then 0 else fov1
    (fov * dgao + (1 - fov) * dgac, i.sund, i.radsumPrev + i.rad * i.dt * 1)

/-- water.go:799-801 -/
def rstomOf (alph co2 satdef satbeta dtg : α) : α :=
  let agross := dtg / (38016000.0 : α) * (22414.0 : α)
  1 / (alph * agross / (co2 * (1 + satdef / satbeta)))

/-- `stomat`: (RSTOM, SUND, RADSUM) after the call. `rstom0` is the value set by the caller (100). -/
def stomat (i : PIn α) (t : Tr α) (s : Sol α) (satdef rstom0 : α) : α × α × α :=
  if s.dle ≤ 0 then (rstom0, i.sund, i.radsumPrev)
  else
    let p := photo i t s
    let dgac := satur p.phc3 p.phc4 t.eC
    let dgao := satur p.pho3 p.phc4 t.eO
    let d := dtga i s dgac dgao
    (rstomOf i.alph i.co2 satdef i.satbeta d.1, d.2.1, d.2.2)

/-! ### method 3, Penman-Monteith -/

/-- the denominator of the Penman-Monteith formula -/
def penmanDen (d ps rsurf wind : α) : α := d + ps * (1 + (rsurf / (208.0 : α)) * wind)

/-- wind converted to 2 m (when the measuring height is not 2 m) and floored at 0.5 m/s -/
def wind2m (wind windhi logW : α) : α :=
  let w := if windhi < (2.0 : α) ∨ (2.0 : α) < windhi then wind * ((4.87 : α) / logW) else wind
  if w < (0.5 : α) then (0.5 : α) else w

def satP (eTmin eTmax : α) : α := ((0.6108 : α) * eTmin + (0.6108 : α) * eTmax) / (2.0 : α)

/-- the pieces of the Penman-Monteith formula -/
structure Pm (α : Type) where
  satdef : α
  wind : α
  rsurf : α    -- the surface resistance that enters the formula
  num : α
  den : α

/-- water.go:223-285 (crop) and 403-458 (bare), given what `stomat` left: `st` = (RSTOM, SUND, RADSUM).
Under a crop without the CO2 influence on the stomata the formula uses RSTOM0/1.44 = 100/1.44,
otherwise RSTOM/1.44. -/
def penmanParts (crop : Bool) (i : PIn α) (t : Tr α) (s : Sol α) (st : α × α × α) : Pm α :=
  let r0 := rs0 i.alti s.ext
  let ps := psych t.pAtm
  let sp := satP t.eTmin t.eTmax
  let satdef := sp * (1 - i.rh / (100.0 : α))
  let d := deltsat t.eT t.pT2
  let wind := wind2m i.wind i.windhi t.logW
  let rsurf0 := (100.0 : α) / (1.44 : α)
  let rsurf := st.1 / (1.44 : α)
  let rn := radn (!crop) i.rad st.2.1 s r0 t.p4min t.p4max t.sqVap
  let num := ((0.408 : α) * d * rn) + (ps * ((900.0 : α) / (i.temp + (273.0 : α))) * wind * satdef)
  let ru := if crop ∧ !i.ctrans then rsurf0 else rsurf
  { satdef, wind, rsurf := ru, num, den := penmanDen d ps ru wind }

/-- SATDEF as `stomat` reads it (water.go:237) -/
def satdefOf (i : PIn α) (t : Tr α) : α := satP t.eTmin t.eTmax * (1 - i.rh / (100.0 : α))

/-- (RSTOM, SUND, RADSUM) when the formula is evaluated: `stomat` runs under a crop only
(water.go:242); on bare soil RSTOM is set to 100 (398). -/
def stomatOf (crop : Bool) (i : PIn α) (t : Tr α) (s : Sol α) : α × α × α :=
  if crop then stomat i t s (satdefOf i t) (100.0 : α) else ((100.0 : α), i.sund, i.radsumPrev)

/-- water.go:218-289 (crop) and 398-462 (bare). -/
def penman (crop : Bool) (i : PIn α) (t : Tr α) (s : Sol α) : Res α :=
  let st := stomatOf crop i t s
  let p := penmanParts crop i t s st
  let et0 := floor0 (p.num / p.den)
  let fkc := if crop then i.fkc else i.fkb
  { verdu0 := et0 * fkc * (0.1 : α), et0, rstom := st.1, satdef := p.satdef, wind := p.wind, sund := st.2.1, fkc,
    radsum := st.2.2 }

/-! ### dispatch (water.go:132-290 under a crop, 303-463 on bare soil) -/

/-- the state left untouched by a method -/
def keep (i : PIn α) (verdu0 fkc : α) : Res α :=
  { verdu0, et0 := i.et0Prev, rstom := i.rstomPrev, satdef := i.satdefPrev, wind := i.wind, sund := i.sund,
    fkc, radsum := i.radsumPrev }

/-- VERDU[TAG] of the chosen method before the floor and the cap, and the state written on the way.
On bare soil methods 2-5 first set FKC to the bare-soil coefficient FKB; an unknown method number
leaves VERDU[TAG] at 0. -/
def petRaw (i : PIn α) (t : Tr α) : Res α :=
  let s := dayLength t
  if i.crop then
    if i.meth = 1 then keep i (i.verd * monthFactor i.fkf i.tagN * (0.1 : α)) i.fkc
    else if i.meth = 2 then keep i (turc true i.rad i.sund i.temp i.kcoa i.fkc s) i.fkc
    else if i.meth = 5 then keep i (i.etnull * i.fkc * (0.1 : α)) i.fkc
    else if i.meth = 4 then
      let e := priestleyEt0 true i t s
      { keep i (e * i.fkc * (0.1 : α)) i.fkc with et0 := e }
    else if i.meth = 3 then penman true i t s
    else keep i 0 i.fkc
  else
    if i.meth = 1 then keep i (i.verd * monthFactor i.fku i.tagN * (0.1 : α)) i.fkc
    else if i.meth = 2 then keep i (turc false i.rad i.sund i.temp i.kcoa i.fkb s) i.fkb
    else if i.meth = 5 then keep i (i.etnull * i.fkb * (0.1 : α)) i.fkb
    else if i.meth = 4 then
      let e := priestleyEt0 false i t s
      { keep i (e * i.fkb * (0.1 : α)) i.fkb with et0 := e }
    else if i.meth = 3 then penman false i t s
    else keep i 0 i.fkc

/-- potential ET of the day as the rest of the model uses it: floored at zero, capped at 0.65 cm
under a crop and 0.6 cm on bare soil (water.go:291-298, 464-470; `Evatra.capSplit`). -/
def verdunst (i : PIn α) (t : Tr α) (elai : α) : α :=
  (Evatra.capSplit i.crop (petRaw i t).verdu0 elai).1

/-! ### the arguments of the transcendental calls -/

def deg (x : α) : α := x * pi / (180.0 : α)

/-- The argument of every site, in the order of the fields of `Tr`, with the name of the function
(`pow2`, `pow4`, `pow5.26`: `math.Pow(x, 2 | 4 | 5.26)`; `2pow`: `math.Pow(2, x)`). -/
def sites (i : PIn α) (t : Tr α) : List (String × α) :=
  let s := dayLength t
  let tag : α := tagF i
  let lim := limit (s.sinld / s.cosld) 1 (-1)
  let sp := satP t.eTmin t.eTmax
  let p := photo i t s
  [ ("sin", (0.01721420632103996 : α) * tag - (1.39 : α)),
    ("sin", deg s.dec), ("sin", deg i.lat), ("cos", deg s.dec), ("cos", deg i.lat),
    ("asin", lim),
    ("sin", (0.13962634015954636 : α)),
    ("asin", limit ((-t.sin8 + s.sinld) / s.cosld) 1 (-1)),
    ("cos", (6.283185307179586 : α) * tag / (365.0 : α)),
    ("tan", deg i.lat), ("tan", deg s.dec),
    ("acos", limit (-t.tanLat * t.tanDec) 1 (-1)),
    ("sin", t.sha),
    ("pow2", lim),
    ("sqrt", 1 - t.pw2),
    ("exp", -(0.14 : α) / (s.rdnRaw / (s.dl * (3600.0 : α)))),
    ("pow5.26", ((293.0 : α) - ((0.0065 : α) * i.alti)) / (293.0 : α)),
    ("exp", ((17.27 : α) * i.tmax) / ((237.3 : α) + i.tmax)),
    ("exp", ((17.27 : α) * i.tmin) / ((237.3 : α) + i.tmin)),
    ("exp", (17.27 : α) * i.tmin / (i.tmin + (237.3 : α))),
    ("exp", ((17.27 : α) * i.temp) / (i.temp + (237.3 : α))),
    ("pow2", i.temp + (237.3 : α)),
    ("pow4", i.tmin + (273.16 : α)),
    ("pow4", i.tmax + (273.16 : α)),
    ("sqrt", sp * i.rh / (100.0 : α)),
    ("sqrt", (0.6108 : α) * t.eTminPT),
    ("log", (67.8 : α) * i.windhi - (5.42 : α)),
    ("2pow", (i.temp - (10.0 : α)) / (10.0 : α)),
    ("cos", (6.283185307179586 : α) * tag / (365.0 : α)),
    ("sin", ((90.0 : α) + s.dec - i.lat) * pi / (180.0 : α)),
    ("log", p.xArg),
    ("log", p.yArg),
    ("exp", (-1.152 : α)),
    ("exp", saturArg p.phc3 p.phc4),
    ("exp", saturArg p.pho3 p.phc4) ]

def Tr.ofList : List α → Tr α
  | a0 :: a1 :: a2 :: a3 :: a4 :: a5 :: a6 :: a7 :: a8 :: a9 :: a10 :: a11 ::
    a12 :: a13 :: a14 :: a15 :: a16 :: a17 :: a18 :: a19 :: a20 :: a21 :: a22 :: a23 ::
    a24 :: a25 :: a26 :: a27 :: a28 :: a29 :: a30 :: a31 :: a32 :: a33 :: a34 :: [] =>
    { sDec := a0, sinDec := a1, sinLat := a2, cosDec := a3, cosLat := a4, asDL := a5, sin8 := a6, asDLE := a7,
      cosYear := a8, tanLat := a9, tanDec := a10, sha := a11, sinSha := a12, pw2 := a13, sq := a14, eDrc := a15,
      pAtm := a16, eTmax := a17, eTmin := a18, eTminPT := a19, eT := a20, pT2 := a21, p4min := a22, p4max := a23,
      sqVap := a24, sqVapPT := a25, logW := a26, p2T := a27, cosTag := a28, sSsl := a29, logX := a30, logY := a31,
      eGrass := a32, eC := a33, eO := a34 }
  | _ =>
    { sDec := 0, sinDec := 0, sinLat := 0, cosDec := 0, cosLat := 0, asDL := 0, sin8 := 0, asDLE := 0,
      cosYear := 0, tanLat := 0, tanDec := 0, sha := 0, sinSha := 0, pw2 := 0, sq := 0, eDrc := 0,
      pAtm := 0, eTmax := 0, eTmin := 0, eTminPT := 0, eT := 0, pT2 := 0, p4min := 0, p4max := 0,
      sqVap := 0, sqVapPT := 0, logW := 0, p2T := 0, cosTag := 0, sSsl := 0, logX := 0, logY := 0,
      eGrass := 0, eC := 0, eO := 0 }

def nSites : Nat := 35

/-! ### composition with the partition part -/

/-- What the partition part needs beyond the potential ET (the fields of `Evatra.In` other than
`verdu0`, with LAI and PROP instead of the two exponential coefficients). -/
structure FIn (α : Type) where
  p : PIn α
  part : Evatra.In α    -- `crop`, `verdu0`, `elai`, `expc` of this record are ignored
  lai : α
  prop : α

/-- arguments of the exponential coefficients of the partition part: exp(−.5·LAI) (water.go:300)
and exp(−PROP·.1·((i+1)·10 − DZ/2)) per layer (water.go:493) -/
def elaiArg (lai : α) : α := -(0.5 : α) * lai
def expcArgs (prop dz : α) (n : Nat) : List α :=
  (List.range n).map fun k => -prop * (0.1 : α) * (Conv.ofNat ((k + 1) * 10) - dz / (2.0 : α))

/-- the whole of `Evatra`: potential ET of the chosen method handed to the partition -/
def full (f : FIn α) (t : Tr α) (elai : α) (expc : List α) : Res α × Evatra.Out α :=
  let r := petRaw f.p t
  (r, Evatra.partition { f.part with crop := f.p.crop, verdu0 := r.verdu0, elai := elai, expc := expc })

end
end Hermes.EvatraPet
