/-
C04 — every simulated day is driven by the weather record of exactly that date; uncovered days,
gaps and missing year files end the run with an error.

Property theorems only. Models: HermesModel/Weather.lean (readers, LoadYear, normalisation passes of
hermes/weather_input.go), HermesModel/DayLoop.lean (first load, day counter, year roll-over and
reload of hermes/run.go), HermesModel/WeatherNorm.lean (the two normalisation passes in place on the
arrays the readers filled, and the whole run with them), HermesModel/Calendar.lean (C12). Lemmas:
HermesProofs/Weather.lean, WeatherReaders.lean, WeatherRun.lean (composition over a whole run),
WeatherNorm.lean, WeatherNormRun.lean (the passes cell by cell, the normalised run).

Reading of the property: `tagNum` = TAG.Index + 1 is the day of the year whose slot is consumed,
`1900 + j` the year whose arrays are loaded. "Driven by the record of that date" = the slot consumed
on day ZEIT holds the record whose (year, day of year) is the calendar date of ZEIT. A run "ends
with an error" = the model of `Run` returns `none`.

The models follow the code after the repairs `fix: Run returns the errors of LoadYear/WetterK`,
`fix: … neighbour of 31 December`, `fix: weather years must be complete`, `fix: precipitation factor
of the month in leap years`. What is still violated is stated as `…_fails_at` (concrete witness,
replayed on the implementation by the harness) next to the `…_partial` statement that does hold.
-/
import HermesProofs.Weather
import HermesProofs.WeatherReaders
import HermesProofs.WeatherRun
import HermesProofs.WeatherNormRun
namespace Hermes.Weather
open Hermes.Calendar Hermes.DayLoop

/-! ### day counter and calendar -/

/-- **Lock-step.** For every run that ends without error, if no loaded year is longer than its
calendar year, then on every simulated day the calendar date of ZEIT (C12's `kalenderDate`) is day
`TAG.Index + 1` of year `1900 + J`: the slot consumed is the slot of that date. Any number of days,
any start day, leap years and year changes included. (That a year is not *shorter* than needed is
not a hypothesis: the run leaves a year only when its weather reaches 31 December.) -/
theorem C04_dayloop_calendar_lockstep {π : Type} (src : Source π) (n : Nat) (st : DState π)
    (days : List (DayOut π)) (hrun : runDays src n st = some days) (h0 : LockPre st)
    (hb : ∀ d ∈ days, d.jtag ≤ diy d.j ∧ d.j ≤ 199) (d : DayOut π) (hd : d ∈ days) :
    ∃ mon tg, ValidDate d.j mon tg ∧ kalenderDate d.zeit = some (d.j + 1900, mon, tg) ∧
      ztdat d.j mon tg = d.tagNum := by
  obtain ⟨hz, h1, h2, h3⟩ := lockstep_run src n st days hrun h0 hb d hd
  obtain ⟨mon, tg, hv, hzt, hm⟩ := date_of_doy d.j d.tagNum h3 (hb d hd).2 h1 h2
  refine ⟨mon, tg, hv, ?_, hzt⟩
  have e : masdat d.j mon tg = d.zeit := by omega
  rw [← e]
  obtain ⟨a, b, c, d', e', f⟩ := hv
  exact kalender_masdat_core d.j mon tg a b c d' e' f

/-- The state `Run` enters the loop with satisfies the hypothesis of the lock-step theorem when the
start day number is day `ITAG` of the start year. -/
theorem C04_init_in_step {π : Type} (src : Source π) (store : Store π) (anjahr beginn itag : Nat)
    (st : DState π) (hs : initState src store anjahr beginn itag = some st)
    (hy : 1901 ≤ anjahr) (hy2 : anjahr ≤ 2099) (hi : 1 ≤ itag) (hi2 : itag ≤ diy (anjahr - 1900))
    (hb : beginn + 1 = masdat (anjahr - 1900) 1 1 + itag) (hl : st.jtag ≤ diy (anjahr - 1900)) :
    LockPre st := by
  unfold initState at hs
  simp only at hs
  split at hs
  · simp at hs
  · rename_i st1 hr
    simp only [Option.some.injEq] at hs
    obtain ⟨a, _, c⟩ := reload_some hr
    subst hs
    simp only at a c hl
    unfold LockPre
    simp only
    rw [a, c]
    omega

/-- **Start year and first simulated day.** The arrays loaded before the loop are those of
`StartYear` (`J = StartYear − 1900`); the first statement of the first pass ends the run when the
calendar year of the first simulated day is another year — the weather of `StartYear` is never
consumed under the dates of another year. -/
theorem C04_start_year_mismatch_is_error {π : Type} (src : Source π) (n : Nat) (st : DState π)
    (y m d : Nat) (hk : kalenderDate st.zeit = some (y, m, d)) (hne : y ≠ 1900 + st.j) :
    runLoop src (n + 1) st = none := by
  simp [runLoop, startYearOk, hk, hne]

/-- The same for the whole run, both kinds of layout: `StartYear` ≠ year of the start day ⇒ error. -/
theorem C04_start_year_mismatch_ends_run {π : Type} (recs : List (Rec π))
    (files : Nat → Option (List (Nat × π))) (anjahr cap beginn itag n y m d : Nat)
    (hk : kalenderDate beginn = some (y, m, d)) (hy : 1900 ≤ anjahr) (hne : y ≠ anjahr) :
    runMulti recs anjahr cap beginn itag (n + 1) = none ∧ runPerYear files anjahr beginn itag (n + 1) = none := by
  have hne' : y ≠ 1900 + (anjahr - 1900) := by omega
  constructor
  · unfold runMulti
    split
    · rfl
    · split
      · rfl
      · rename_i st hs
        obtain ⟨a, b⟩ := initState_fields hs
        exact C04_start_year_mismatch_is_error _ n st y m d (by rw [a]; exact hk) (by rw [b]; exact hne')
  · unfold runPerYear
    split
    · rfl
    · rename_i st hs
      obtain ⟨a, b⟩ := initState_fields hs
      exact C04_start_year_mismatch_is_error _ n st y m d (by rw [a]; exact hk) (by rw [b]; exact hne')

/-- One pass that returns no error never loses a day: ZEIT is untouched by the weather bookkeeping
and the counters move to the next slot, or to slot 1 of the next year — the latter only when the
loaded weather reaches the last day of the calendar year. -/
theorem C04_day_counter_step {π : Type} (src : Source π) (st st' : DState π)
    (h : advanceDay src st = some st') :
    st'.zeit = st.zeit ∧
    ((st.tagNum + 1 > st.jtag ∧ ¬ st.jtag < daysInYear (1900 + st.j) ∧ st'.j = st.j + 1 ∧ st'.tagNum = 1) ∨
     (¬ st.tagNum + 1 > st.jtag ∧ st'.j = st.j ∧ st'.tagNum = st.tagNum + 1)) :=
  advanceDay_some h

/-! ### readers -/

/-- **Alignment, multi-year layouts** (`ReadWeatherCSV`, layout 1): for a gap-free series of dates —
any first day, possibly starting before the start year, possibly running beyond the allocated
years — the reader returns no error and the record of date (y, doy), y from the start year on and
within the allocated years, is in slot `[y − y₀][doy − 1]`, `JAR[y − y₀] = y` and `MaxYearDays` of
that year is the largest day of the year read for it (y₀ = year of the first record kept). -/
theorem C04_reader_alignment_csv {π : Type} (startyear cap : Nat) (recs : List (Rec π))
    (hv : ∀ r ∈ recs, ValidRec r) (hg : GapFree recs) :
    ∃ ms, readCSV startyear cap recs = some ms ∧
      ∀ r ∈ recs, startyear ≤ r.year → r.year < firstYear startyear recs + cap →
        ms.store.get (r.year - firstYear startyear recs) (r.doy - 1) = some r.val ∧
        ms.store.jarAt (r.year - firstYear startyear recs) = r.year ∧
        r.doy ≤ ms.store.maxAt (r.year - firstYear startyear recs) ∧
        ∃ q ∈ recs, q.year = r.year ∧ ms.store.maxAt (r.year - firstYear startyear recs) = q.doy :=
  readMulti_aligned startyear cap recs hv hg

/-- **Alignment, layout 2** (`ReadWeatherCZ`): the same statements index the arrays. -/
theorem C04_reader_alignment_cz {π : Type} (startyear cap : Nat) (recs : List (Rec π))
    (hv : ∀ r ∈ recs, ValidRec r) (hg : GapFree recs) :
    ∃ ms, readCZ startyear cap recs = some ms ∧
      ∀ r ∈ recs, startyear ≤ r.year → r.year < firstYear startyear recs + cap →
        ms.store.get (r.year - firstYear startyear recs) (r.doy - 1) = some r.val ∧
        ms.store.jarAt (r.year - firstYear startyear recs) = r.year ∧
        r.doy ≤ ms.store.maxAt (r.year - firstYear startyear recs) ∧
        ∃ q ∈ recs, q.year = r.year ∧ ms.store.maxAt (r.year - firstYear startyear recs) = q.doy :=
  readMulti_aligned startyear cap recs hv hg

/-- **Alignment, layout 0** (`WetterK`): a year file with the lines of days 1 … n (1 ≤ n ≤ days of that year) is
read without error, line T is in slot `[0][T − 1]`, `JAR[0]` is the year and `MaxYearDays[0] = n`. -/
theorem C04_reader_alignment_yearfile {π : Type} (year : Nat) (st : Store π) (vals : List π)
    (hne : vals ≠ []) (hn : vals.length ≤ daysInYear year) :
    (readYearFile year st (some (numberFrom 1 vals))).2 = YStatus.ok ∧
    (readYearFile year st (some (numberFrom 1 vals))).1.jarAt 0 = year ∧
    (vals ≠ [] → (readYearFile year st (some (numberFrom 1 vals))).1.maxAt 0 = vals.length) ∧
    ∀ k (hk : k < vals.length), (readYearFile year st (some (numberFrom 1 vals))).1.get 0 k = some vals[k] :=
  readYearFile_aligned year st vals hne hn

/-- **Gap detection inside a year, multi-year layouts**: after a record of day T, a record from the
start year on that is neither day T + 1 nor a 1 January makes the reader return its error. -/
theorem C04_reader_rejects_gap {π : Type} (startyear cap : Nat) (s : MState π) (hs : s.first = false)
    (r : Rec π) (rest : List (Rec π)) (hy : startyear ≤ r.year) (h1 : r.doy ≠ 1) (hg : r.doy ≠ s.T + 1) :
    readMultiFrom startyear cap s (r :: rest) = none := by
  have : ¬ r.year < startyear := by omega
  cases hb : r.bad
  · simp [readMultiFrom, multiStep, advance, hb, hs, this, h1, hg]
  · simp [readMultiFrom, multiStep_bad_date startyear cap s r hb]

/-- **A date that does not parse is an error**: a line whose date token `time.Parse` rejects makes
the multi-year readers return an error — in every state, before or after the start year; it is
never skipped, and no later line can take its place. -/
theorem C04_unparsable_date_is_error {π : Type} (startyear cap : Nat) (s : MState π) (r : Rec π)
    (rest : List (Rec π)) (hb : r.bad = true) : readMultiFrom startyear cap s (r :: rest) = none := by
  simp [readMultiFrom, multiStep_bad_date startyear cap s r hb]

/-- **Gap detection at the year switch, multi-year layouts**: a 1 January is accepted only directly
after 31 December of the year before — if the year slot in use holds year `ly` up to day `ld`, a
1 January of any year but `ly + 1`, or after a last day `ld` that is not the last day of `ly`, makes
the reader return its error (missing days before a 1 January, a missing year, a repeated
1 January). -/
theorem C04_reader_rejects_gap_before_jan1 {π : Type} (startyear cap : Nat) (s : MState π)
    (hs : s.first = false) (r : Rec π) (rest : List (Rec π)) (hy : startyear ≤ r.year) (hy1 : 1 ≤ r.year)
    (h1 : r.doy = 1) (ly ld : Nat) (hj : s.store.jarAt (s.yrz - 1) = ly) (hm : s.store.maxAt (s.yrz - 1) = ld)
    (hbad : r.year ≠ ly + 1 ∨ ld ≠ daysInYear ly) :
    readMultiFrom startyear cap s (r :: rest) = none := by
  have hns : ¬ r.year < startyear := by omega
  have hsw : switchOk s r = false := by
    unfold switchOk
    rw [hj, hm]
    rcases hbad with h | h
    · have : ¬ ly = r.year - 1 := by omega
      simp [this]
    · by_cases e : ly = r.year - 1
      · subst e; simp [h]
      · simp [e]
  cases hb : r.bad
  · simp [readMultiFrom, multiStep_bad_switch startyear cap s r hb hns hs h1 hsw]
  · simp [readMultiFrom, multiStep_bad_date startyear cap s r hb]

/-- **Gap detection, layout 0**: a line whose day number is not the previous one plus one (in
particular a file that does not start with day 1) stops `WetterK` with its error … -/
theorem C04_yearfile_rejects_gap {π : Type} (year : Nat) (st : Store π) (tlast T : Nat) (v : π)
    (rest : List (Nat × π)) (hg : T ≠ tlast + 1) :
    (readYearLines year st tlast ((T, v) :: rest)).2 = YStatus.gap := by
  have : ¬ tlast + 1 = T := fun h => hg h.symm
  simp [readYearLines, this]

/-- **A day number beyond the end of the year is an error** (layout 0): a line numbered 366 in the
file of a 365-day year (or 367 in any year) stops `WetterK` with an error; `MaxYearDays` — hence
`JTAG` — never exceeds the length of the calendar year. -/
theorem C04_yearfile_rejects_day_beyond_year_end {π : Type} (year : Nat) (st : Store π) (tlast T : Nat)
    (v : π) (rest : List (Nat × π)) (hc : T = tlast + 1) (hb : T > daysInYear year) :
    (readYearLines year st tlast ((T, v) :: rest)).2 = YStatus.beyond := by
  simp [readYearLines, hc.symm, hb]

/-- … and so does a year file without a data line. -/
theorem C04_yearfile_rejects_empty {π : Type} (year : Nat) (st : Store π) :
    (readYearFile year st (some ([] : List (Nat × π)))).2 = YStatus.empty := rfl

/-- `LoadYear` finds exactly the slot of the requested year … -/
theorem C04_loadYear_finds_year {π : Type} (s : Store π) (cap year i d : Nat)
    (h : loadYear s cap year = some (i, d)) : i < cap ∧ s.jarAt i = year ∧ d = s.maxAt i :=
  loadYear_some s cap year i d h

/-- … and returns its error exactly when no allocated slot holds that year. -/
theorem C04_loadYear_error_iff_not_loaded {π : Type} (s : Store π) (cap year : Nat) :
    loadYear s cap year = none ↔ ∀ i, i < cap → s.jarAt i ≠ year :=
  loadYear_none_iff s cap year

/-- **Weather of one load.** After a successful `LoadYear` for year `1900 + J` the slot consumed for
day-of-year t + 1 (t below the loaded year length) holds what the readers stored in slot `[i][t]` of
the year slot whose `JAR` is exactly `1900 + J`, and `JTAG` is that year's `MaxYearDays`. (One link
of the chain that `C04_weather_of_day` composes over a whole run.) -/
theorem C04_weather_of_load {π : Type} (st : DState π) (cap i days t : Nat)
    (h : loadYear st.store cap (1900 + st.j) = some (i, days)) (ht : t < days) (ht2 : t < 366) :
    ∃ st', applyLoad st cap = some st' ∧ st'.g.getD t none = st.store.get i t ∧
      st.store.jarAt i = 1900 + st.j ∧ st'.jtag = days ∧ days = st.store.maxAt i := by
  obtain ⟨_, hj, hd⟩ := loadYear_some st.store cap (1900 + st.j) i days h
  refine ⟨{ st with jtag := days, g := gLoad st.g st.store i days }, by simp [applyLoad, h], ?_, hj, rfl, hd⟩
  simp [gLoad, List.getD_eq_getElem?_getD, ht, ht2]

/-- **Weather of the day, whole run, multi-year layouts** (`ReadWeatherCSV`, `ReadWeatherCZ`: the same
indexing statements, `readMulti`). For every series of lines with parsed, existing dates that are
consecutive calendar days (any first day — also before the start year — any last day, any number
of years beyond the allocated ones), every start date `smon`/`stg` of the start year `anjahr`
(`BEGINN` and `ITAG` are its day number and day of the year, as `DateConverter` returns them), and
every number of simulated days up to 31 December 2099: if the series has the line of the first and
the line of the last simulated day and the year of the last day is inside the `cap` allocated
years, then the run — readers, first `LoadYear`, and `ndays` passes of the day loop with the reload
at every year change — returns no error, the simulated days are `BEGINN`, `BEGINN + 1`, … and on
each of them the slot `TAG.Index` of the day arrays holds the payload of **the** line whose date is
`KalenderDate(ZEIT)` (unique: no other line of the series has that date), with
`1900 + J`/`TAG.Index + 1` the year and day of the year of that date. Induction over the days,
across year changes and leap years.

Hypotheses that remain, each necessary for the code as it is: gap-free valid dates (else the
readers return an error: `C04_reader_rejects_gap…`), the first and last day covered (an uncovered
first day inside the start year is *not* refused: `C04_uncovered_start_same_year_fails_at`; an
uncovered later day ends the run: `C04_short_year_is_error`, `C04_missing_year_is_error`),
`StartYear` = year of the start date (else `C04_start_year_mismatch_ends_run`), dates within
1901 … 2099 (the range of the calendar model, C12). Here the payload is abstract (what the reader
puts into the slot); `C04_weather_of_day_normalised` is the same statement with the two in-place
normalisation passes between reading and loading in place. -/
theorem C04_weather_of_day {π : Type} (recs : List (Rec π)) (anjahr cap smon stg ndays : Nat) (r0 rL : Rec π)
    (hv : ∀ r ∈ recs, ValidRec r) (hg : GapFree recs)
    (hstart : ValidDate (anjahr - 1900) smon stg) (hn : 0 < ndays)
    (hend : masdat (anjahr - 1900) smon stg + ndays ≤ 72685)
    (h0 : RecordOfDay recs (masdat (anjahr - 1900) smon stg) r0)
    (hL : RecordOfDay recs (masdat (anjahr - 1900) smon stg + (ndays - 1)) rL) (hcap : rL.year < anjahr + cap) :
    ∃ days, runMulti recs anjahr cap (masdat (anjahr - 1900) smon stg) (ztdat (anjahr - 1900) smon stg) ndays = some days ∧
      days.map (·.zeit) = List.range' (masdat (anjahr - 1900) smon stg) ndays ∧
      ∀ d ∈ days, ∃ r, RecordOfDay recs d.zeit r ∧ d.val = some r.val ∧ r.year = 1900 + d.j ∧ r.doy = d.tagNum ∧
        ∀ r', RecordOfDay recs d.zeit r' → r' = r := by
  have hb1 : 1 ≤ masdat (anjahr - 1900) smon stg := by
    have hd0 := isDay_of_date hstart
    have := hd0.2.2.2.2; have := masdat_jan1 (anjahr - 1900); have := hd0.2.2.1; omega
  have hcov := covered_of_endpoints recs hv hg _ ndays hb1 hn hend r0 rL h0 hL
  obtain ⟨days, hrun, hz, hall⟩ := runMulti_weather_of_day recs anjahr cap smon stg ndays hv hg hstart hn hend
    (fun k hk => by obtain ⟨r, hr, hy⟩ := hcov k hk; exact ⟨r, hr, by omega⟩)
  refine ⟨days, hrun, hz, ?_⟩
  intro d hd
  obtain ⟨r, hr, a, b, c⟩ := hall d hd
  exact ⟨r, hr, a, b, c, fun r' hr' => recordOfDay_unique hg hr hr'⟩

/-- **Weather of the day, whole run, one file per year** (`WetterK`, layout 0). Every year from the
start year to the year of the last simulated day has a year file whose lines are numbered 1, 2, …, n
(n ≤ days of that year; `vals y` are their payloads), the years before the last one are complete and
the last one reaches the last simulated day. Then the run — `WetterK` + `LoadYear` before the loop
and again at every year change — returns no error, the simulated days are `BEGINN`, `BEGINN + 1`, …
and each of them consumes line number `ztDat(KalenderDate(ZEIT))` of the file of the year of
`KalenderDate(ZEIT)`. Every start date, every number of days up to 31 December 2099. -/
theorem C04_weather_of_day_yearfiles {π : Type} (files : Nat → Option (List (Nat × π))) (vals : Nat → List π)
    (anjahr smon stg ndays yL monL tgL : Nat)
    (hstart : ValidDate (anjahr - 1900) smon stg) (hn : 0 < ndays)
    (hend : masdat (anjahr - 1900) smon stg + ndays ≤ 72685)
    (hlast : kalenderDate (masdat (anjahr - 1900) smon stg + (ndays - 1)) = some (yL, monL, tgL))
    (hfiles : ∀ y, anjahr ≤ y → y ≤ yL → files y = some (numberFrom 1 (vals y)) ∧ (vals y).length ≤ daysInYear y)
    (hfull : ∀ y, anjahr ≤ y → y < yL → (vals y).length = daysInYear y)
    (hreach : ztdat (yL - 1900) monL tgL ≤ (vals yL).length) :
    ∃ days, runPerYear files anjahr (masdat (anjahr - 1900) smon stg) (ztdat (anjahr - 1900) smon stg) ndays = some days ∧
      days.map (·.zeit) = List.range' (masdat (anjahr - 1900) smon stg) ndays ∧
      ∀ d ∈ days, ∃ mon tg, kalenderDate d.zeit = some (1900 + d.j, mon, tg) ∧ ztdat d.j mon tg = d.tagNum ∧
        ∃ h : d.tagNum - 1 < (vals (1900 + d.j)).length, d.val = some (vals (1900 + d.j))[d.tagNum - 1] :=
  runPerYear_weather_of_day files vals anjahr smon stg ndays hstart hn hend
    (yearfiles_covered files vals anjahr smon stg ndays yL monL tgL hstart hn hend hlast hfiles hfull hreach)

/-- **The two in-place passes, cell by cell** (`replaceMissingValues`, then `transformWeatherData`,
over the `yrz` year slots read). A cell `[y][i]` of a year slot in use ends with
`transformPure` (leap flag of `JAR[y]`, day of the year `i + 1`) of the *filled* cell, and the filled
cell is `fillPure` of the raw cell, of the **filled** previous neighbour and of the **raw** next
neighbour (the first pass runs front to back in place); the neighbours are the cells at `prevPos` /
`nextPos` (`C04_neighbours_mid_year`, `C04_prev_neighbour_year_start`,
`C04_neighbour_mean_at_year_end`); `JAR` and `MaxYearDays` are untouched. No cell is moved: the
normalised value stays in the slot of its date. -/
theorem C04_normalise_cell (nv : ℚ) (corr : List ℚ) (yrz : Nat) (s : Store (Day ℚ)) (y i : Nat)
    (hy : y < yrz) (hi : i < s.maxAt y) :
    cellAt (normalise nv corr yrz s) y i =
      normPure nv corr (daysInYear (s.jarAt y) == 366) i (cellAt s y i)
        (neighbours ((List.range yrz).map s.maxAt) yrz (filled nv yrz s) s y i) ∧
    (∀ k, (normalise nv corr yrz s).maxAt k = s.maxAt k ∧ (normalise nv corr yrz s).jarAt k = s.jarAt k) := by
  obtain ⟨n1, n2⟩ := normalise_cell nv corr yrz s y i hy hi
  exact ⟨by rw [n1, n2]; rfl, normalise_maxAt nv corr yrz s⟩

/-- **Normalisation only**: whatever the neighbours, the normalised value of a record `c` on day of
the year `i + 1` has precipitation = (missing → 0, else value) / 10 · factor of `corrMonth`, PAR =
(missing → 0, else global radiation) / 2, wind = max(wind, 0.5); temperature, saturation deficit and
sunshine duration that are present are consumed unchanged; a missing one with both neighbours
present becomes their mean. -/
theorem C04_normalisation_only (nv : ℚ) (corr : List ℚ) (leap : Bool) (i : Nat) (c : Day ℚ) (pn : Option (Day ℚ × Day ℚ)) :
    (normPure nv corr leap i c pn).reg = (if c.reg = nv then 0 else c.reg) / 10 * corr.getD (corrMonth (corrDoy leap (i + 1))) 0 ∧
    (normPure nv corr leap i c pn).radi = (if c.radi = nv then 0 else c.radi) / 2 ∧
    (normPure nv corr leap i c pn).win = (if c.win < 0.5 then 0.5 else c.win) ∧
    (c.tmp ≠ nv → (normPure nv corr leap i c pn).tmp = c.tmp) ∧
    (c.verd ≠ nv → (normPure nv corr leap i c pn).verd = c.verd) ∧
    (c.sund ≠ nv → (normPure nv corr leap i c pn).sund = c.sund) ∧
    (∀ p n, pn = some (p, n) → c.tmp = nv → p.tmp ≠ nv → n.tmp ≠ nv → (normPure nv corr leap i c pn).tmp = (p.tmp + n.tmp) / 2) ∧
    (∀ p n, pn = some (p, n) → c.verd = nv → p.verd ≠ nv → n.verd ≠ nv → (normPure nv corr leap i c pn).verd = (p.verd + n.verd) / 2) := by
  obtain ⟨a1, a2, a3⟩ := normPure_local nv corr leap i c pn
  obtain ⟨b1, b2, b3⟩ := normPure_present nv corr leap i c pn
  refine ⟨?_, ?_, ?_, b1, b2, b3, ?_, ?_⟩
  · rw [a1]; simp [regenT, fillZero]
  · rw [a2]; simp [parT, fillZero]
  · rw [a3]; rfl
  · intro p n e; subst e; exact (normPure_mean nv corr leap i c p n).1
  · intro p n e; subst e; exact (normPure_mean nv corr leap i c p n).2.1

/-- **Weather of the day = the normalised record of its date — whole run, multi-year layouts.**
Same quantifiers and hypotheses as `C04_weather_of_day`, with the two normalisation passes between
reading and loading in place (`runMultiN`): the run returns no error, and on every simulated day
the slot `TAG.Index` holds `normPure` of **the** line whose date is `KalenderDate(ZEIT)` — i.e.
(`C04_normalisation_only`) its precipitation / 10 times the factor **of the month of that date**
(leap years included), half its global radiation, its wind floored at 0.5 m/s, its temperature,
saturation deficit and sunshine duration where present, and otherwise the value the first pass
derives from the neighbour cells `pn`. -/
theorem C04_weather_of_day_normalised (nv : ℚ) (corr : List ℚ) (recs : List (Rec (Day ℚ)))
    (anjahr cap smon stg ndays : Nat) (r0 rL : Rec (Day ℚ))
    (hv : ∀ r ∈ recs, ValidRec r) (hg : GapFree recs)
    (hstart : ValidDate (anjahr - 1900) smon stg) (hn : 0 < ndays)
    (hend : masdat (anjahr - 1900) smon stg + ndays ≤ 72685)
    (h0 : RecordOfDay recs (masdat (anjahr - 1900) smon stg) r0)
    (hL : RecordOfDay recs (masdat (anjahr - 1900) smon stg + (ndays - 1)) rL) (hcap : rL.year < anjahr + cap) :
    ∃ days, runMultiN nv corr recs anjahr cap (masdat (anjahr - 1900) smon stg) (ztdat (anjahr - 1900) smon stg) ndays = some days ∧
      days.map (·.zeit) = List.range' (masdat (anjahr - 1900) smon stg) ndays ∧
      ∀ d ∈ days, ∃ r mon tg pn, RecordOfDay recs d.zeit r ∧ (∀ r', RecordOfDay recs d.zeit r' → r' = r) ∧
        kalenderDate d.zeit = some (r.year, mon, tg) ∧ r.year = 1900 + d.j ∧ r.doy = d.tagNum ∧
        d.val = some (normPure nv corr (daysInYear r.year == 366) (r.doy - 1) r.val pn) ∧
        (normPure nv corr (daysInYear r.year == 366) (r.doy - 1) r.val pn).reg =
          (if r.val.reg = nv then 0 else r.val.reg) / 10 * corr.getD (mon - 1) 0 := by
  have hb1 : 1 ≤ masdat (anjahr - 1900) smon stg := by
    have hd0 := isDay_of_date hstart
    have := hd0.2.2.2.2; have := masdat_jan1 (anjahr - 1900); have := hd0.2.2.1; omega
  have hcov := covered_of_endpoints recs hv hg _ ndays hb1 hn hend r0 rL h0 hL
  obtain ⟨days, hrun, hz, hall⟩ := runMultiN_weather_of_day nv corr recs anjahr cap smon stg ndays hv hg hstart hn hend
    (fun k hk => by obtain ⟨r, hr, hy⟩ := hcov k hk; exact ⟨r, hr, by omega⟩)
  refine ⟨days, hrun, hz, ?_⟩
  intro d hd
  obtain ⟨r, mon, tg, pn, hr, hk, e1, e2, hval, hmon⟩ := hall d hd
  refine ⟨r, mon, tg, pn, hr, fun r' hr' => recordOfDay_unique hg hr hr', hk, e1, e2, hval, ?_⟩
  rw [(C04_normalisation_only nv corr _ _ r.val pn).1, hmon]

/-- **… one file per year** (`WetterK` runs both passes on the year just read): same hypotheses as
`C04_weather_of_day_yearfiles`; every simulated day consumes `normPure` of line number
`ztDat(KalenderDate(ZEIT))` of the file of that year, with the precipitation factor of the month of
the date. -/
theorem C04_weather_of_day_normalised_yearfiles (nv : ℚ) (corr : List ℚ) (files : Nat → Option (List (Nat × Day ℚ)))
    (vals : Nat → List (Day ℚ)) (anjahr smon stg ndays yL monL tgL : Nat)
    (hstart : ValidDate (anjahr - 1900) smon stg) (hn : 0 < ndays)
    (hend : masdat (anjahr - 1900) smon stg + ndays ≤ 72685)
    (hlast : kalenderDate (masdat (anjahr - 1900) smon stg + (ndays - 1)) = some (yL, monL, tgL))
    (hfiles : ∀ y, anjahr ≤ y → y ≤ yL → files y = some (numberFrom 1 (vals y)) ∧ (vals y).length ≤ daysInYear y)
    (hfull : ∀ y, anjahr ≤ y → y < yL → (vals y).length = daysInYear y)
    (hreach : ztdat (yL - 1900) monL tgL ≤ (vals yL).length) :
    ∃ days, runPerYearN nv corr files anjahr (masdat (anjahr - 1900) smon stg) (ztdat (anjahr - 1900) smon stg) ndays = some days ∧
      days.map (·.zeit) = List.range' (masdat (anjahr - 1900) smon stg) ndays ∧
      ∀ d ∈ days, ∃ mon tg pn, kalenderDate d.zeit = some (1900 + d.j, mon, tg) ∧ ztdat d.j mon tg = d.tagNum ∧
        ∃ h : d.tagNum - 1 < (vals (1900 + d.j)).length,
          d.val = some (normPure nv corr (daysInYear (1900 + d.j) == 366) (d.tagNum - 1) (vals (1900 + d.j))[d.tagNum - 1] pn) ∧
          corrMonth (corrDoy (daysInYear (1900 + d.j) == 366) (d.tagNum - 1 + 1)) = mon - 1 :=
  runPerYearN_weather_of_day nv corr files vals anjahr smon stg ndays yL monL tgL hstart hn hend hlast hfiles hfull hreach

/-- The same for the multi-year layouts with the covering stated day by day (what the proof of
`C04_weather_of_day` reduces to): every simulated day has its line in the series. -/
theorem C04_weather_of_day_daywise {π : Type} (recs : List (Rec π)) (anjahr cap smon stg ndays : Nat)
    (hv : ∀ r ∈ recs, ValidRec r) (hg : GapFree recs)
    (hstart : ValidDate (anjahr - 1900) smon stg) (hn : 0 < ndays)
    (hend : masdat (anjahr - 1900) smon stg + ndays ≤ 72685)
    (hcov : ∀ k, k < ndays → ∃ r, RecordOfDay recs (masdat (anjahr - 1900) smon stg + k) r ∧ r.year < anjahr + cap) :
    ∃ days, runMulti recs anjahr cap (masdat (anjahr - 1900) smon stg) (ztdat (anjahr - 1900) smon stg) ndays = some days ∧
      days.map (·.zeit) = List.range' (masdat (anjahr - 1900) smon stg) ndays ∧
      ∀ d ∈ days, ∃ r, RecordOfDay recs d.zeit r ∧ d.val = some r.val ∧ r.year = 1900 + d.j ∧ r.doy = d.tagNum :=
  runMulti_weather_of_day recs anjahr cap smon stg ndays hv hg hstart hn hend hcov

/-- Slots at or above the loaded year length keep what an earlier year left there (the copy loop of
`LoadYear` stops at `MaxYearDays`); a run never consumes them: it ends at the latest when the day
counter would pass `JTAG` of an incomplete year (`C04_short_year_is_error`). -/
theorem C04_load_keeps_tail {π : Type} (st : DState π) (cap i days t : Nat)
    (h : loadYear st.store cap (1900 + st.j) = some (i, days)) (ht : days ≤ t) (ht2 : t < 366) :
    ∃ st', applyLoad st cap = some st' ∧ st'.g.getD t none = st.g.getD t none := by
  have : ¬ t < days := by omega
  refine ⟨{ st with jtag := days, g := gLoad st.g st.store i days }, by simp [applyLoad, h], ?_⟩
  simp [gLoad, List.getD_eq_getElem?_getD, this, ht2]

/-! ### the error paths -/

/-- **A year that was not loaded ends the run** (multi-year layouts): when the day counter leaves a
year and no slot holds the next one, the run returns an error — whatever else the state is. -/
theorem C04_missing_year_is_error {π : Type} (cap n : Nat) (st : DState π)
    (hroll : st.tagNum + 1 > st.jtag)
    (hmiss : loadYear st.store cap (1900 + (st.j + 1)) = none) :
    runDays (.multi cap) (n + 1) st = none := by
  simp only [runDays, advanceDay, hroll, if_true]
  by_cases h : st.jtag < daysInYear (1900 + st.j)
  · simp [h]
  · simp [h, reload, applyLoad, hmiss]

/-- The same at the start of the run: the start year must have been loaded. -/
theorem C04_missing_start_year_is_error {π : Type} (recs : List (Rec π)) (anjahr cap beginn itag ndays : Nat)
    (ms : MState π) (hr : readMulti anjahr cap recs = some ms)
    (hmiss : loadYear ms.store cap (1900 + (anjahr - 1900)) = none) :
    runMulti recs anjahr cap beginn itag ndays = none := by
  simp [runMulti, hr, initState, reload, applyLoad, hmiss]

/-- **A missing year file ends the run** (layout 0) … -/
theorem C04_missing_year_file_is_error {π : Type} (files : Nat → Option (List (Nat × π))) (n : Nat)
    (st : DState π) (hroll : st.tagNum + 1 > st.jtag) (hf : files (1900 + (st.j + 1)) = none) :
    runDays (.perYear files) (n + 1) st = none := by
  simp only [runDays, advanceDay, hroll, if_true]
  by_cases h : st.jtag < daysInYear (1900 + st.j)
  · simp [h]
  · simp [h, reload, hf, readYearFile]

/-- … and so does every year file `WetterK` rejects (gap, first line not day 1, no data line). -/
theorem C04_defective_year_file_is_error {π : Type} (files : Nat → Option (List (Nat × π)))
    (st : DState π) (h : (readYearFile (1900 + st.j) st.store (files (1900 + st.j))).2 ≠ YStatus.ok) :
    reload (.perYear files) st = none := by
  simp [reload, h]

/-- **A year that ends early ends the run**: the day counter never passes the last loaded day of a
year whose weather stops before 31 December (short last year, series ending before the end date,
days missing before a 1 January in a year file). -/
theorem C04_short_year_is_error {π : Type} (src : Source π) (n : Nat) (st : DState π)
    (hroll : st.tagNum + 1 > st.jtag) (hshort : st.jtag < daysInYear (1900 + st.j)) :
    runDays src (n + 1) st = none := by
  simp [runDays, advanceDay, hroll, hshort]

/-- **A leap year that lacks only its last day is an error — at both places that decide "year
complete".** The day counts are exact (366, not "at least 365"): (1) a multi-year reader whose year
slot in use holds a leap year up to day 365 returns its error at the following 1 January; (2) the
day loop, standing on day 365 of a leap year whose loaded weather has 365 days, ends the run instead
of entering the next year one day early. Concrete instance: 2000. -/
theorem C04_leap_year_short_by_one_is_error {π : Type} :
    (∀ (startyear cap : Nat) (s : MState π) (r : Rec π) (rest : List (Rec π)) (ly : Nat),
      s.first = false → startyear ≤ r.year → 1 ≤ r.year → r.doy = 1 → daysInYear ly = 366 →
      s.store.jarAt (s.yrz - 1) = ly → s.store.maxAt (s.yrz - 1) = 365 →
      readMultiFrom startyear cap s (r :: rest) = none) ∧
    (∀ (src : Source π) (n : Nat) (st : DState π),
      daysInYear (1900 + st.j) = 366 → st.jtag = 365 → st.tagNum = 365 → runDays src (n + 1) st = none) ∧
    daysInYear 2000 = 366 := by
  refine ⟨?_, ?_, by decide⟩
  · intro startyear cap s r rest ly hs hy hy1 h1 hl hj hm
    exact C04_reader_rejects_gap_before_jan1 startyear cap s hs r rest hy hy1 h1 ly 365 hj hm
      (Or.inr (by omega))
  · intro src n st hl hj ht
    exact C04_short_year_is_error src n st (by omega) (by omega)

/-- **Still violated: the series starts after the first simulated day, inside the start year**
(multi-year layouts). The first-record fail-safe puts the first record into the slot of its own
date and nothing checks the slots before it. Witness: the file starts on 3 January 1981, the run
on 1 January 1981: no error, 1 and 2 January consume never-written slots (zero values). -/
theorem C04_uncovered_start_same_year_fails_at :
    ∃ days, runMulti [⟨1981, 3, 1, false⟩, ⟨1981, 4, 2, false⟩, ⟨1981, 5, 3, false⟩] 1981 1 (masdat 81 1 1) 1 3 = some days ∧
      days.map (fun d => (d.zeit - masdat 81 1 1, d.j, d.tagNum, d.val)) =
        [(0, 81, 1, none), (1, 81, 2, none), (2, 81, 3, some 1)] := by
  refine ⟨_, rfl, ?_⟩; decide

/-- What holds in that situation: every record that *is* in the file sits in the slot of its date
(`C04_reader_alignment_csv` does not need the first record to be 1 January), so from the first
covered day on the run is driven by the right records; only the days before it are not refused. -/
theorem C04_uncovered_start_same_year_partial {π : Type} (startyear cap : Nat) (f : Rec π)
    (rest : List (Rec π)) (hv : ∀ r ∈ f :: rest, ValidRec r) (hg : GapFree (f :: rest))
    (hf : startyear ≤ f.year) (hc : 1 ≤ cap) :
    ∃ ms, readCSV startyear cap (f :: rest) = some ms ∧ ms.store.get 0 (f.doy - 1) = some f.val := by
  obtain ⟨ms, hr, hA⟩ := readMulti_aligned startyear cap (f :: rest) hv hg
  have hfy : firstYear startyear (f :: rest) = f.year := by
    have : ¬ f.year < startyear := by omega
    simp [firstYear, this]
  have := hA f (List.mem_cons_self ..) hf (by rw [hfy]; omega)
  rw [hfy, Nat.sub_self] at this
  exact ⟨ms, hr, this.1⟩

/-! ### normalisation -/

/-- Monthly precipitation factor: the factor applied on a date is the factor of the month of that
date, in leap years too (29 February gets February's factor, 31 December December's). -/
theorem C04_preco_month (yr mon tg : Nat) (h : ValidDate yr mon tg) :
    corrMonth (corrDoy (daysInYear (1900 + yr) == 366) (ztdat yr mon tg)) = mon - 1 :=
  preco_month yr mon tg h

/-- Neighbours used for a missing optional value, inside a year: the adjacent days. -/
theorem C04_neighbours_mid_year (maxd : List Nat) (yrz y index : Nat) (h0 : 0 < index)
    (h1 : index + 1 < maxd.getD y 0) :
    prevPos maxd y index = some (y, index - 1) ∧ nextPos maxd yrz y index = some (y, index + 1) := by
  have : ¬ index = 0 := by omega
  have h2 : ¬ index + 1 ≥ maxd.getD y 0 := by omega
  constructor
  · unfold prevPos; rw [if_neg this]
  · unfold nextPos; rw [if_neg h2]

/-- Previous neighbour of 1 January: 31 December of the previous loaded year. -/
theorem C04_prev_neighbour_year_start (maxd : List Nat) (y : Nat) (hy : 0 < y) (hp : 0 < maxd.getD (y - 1) 0) :
    prevPos maxd y 0 = some (y - 1, maxd.getD (y - 1) 0 - 1) := by
  have : ¬ maxd.getD (y - 1) 0 = 0 := by omega
  unfold prevPos; rw [if_pos rfl, if_pos hy, if_neg this]

/-- Next neighbour of the last day of a year: 1 January (index 0) of the next loaded year. -/
theorem C04_neighbour_mean_at_year_end (maxd : List Nat) (yrz y index : Nat)
    (hlast : index + 1 ≥ maxd.getD y 0) (hnext : y + 1 < yrz) :
    nextPos maxd yrz y index = some (y + 1, 0) := by
  have : ¬ y + 1 ≥ yrz := by omega
  unfold nextPos; rw [if_pos hlast, if_neg this]

/-- Partial for one file per year (layout 0) and for the last loaded year: the day after the last
day is not in the arrays that are filled, there is no next neighbour and the missing value of the
last day becomes 0, not a mean (what is missing: the adjacent day lives in another file). -/
theorem C04_year_end_neighbour_last_year_partial (maxd : List Nat) (yrz y index : Nat)
    (hlast : index + 1 ≥ maxd.getD y 0) (hnext : y + 1 ≥ yrz) : nextPos maxd yrz y index = none := by
  unfold nextPos; rw [if_pos hlast, if_pos hnext]

/-- A present value is never changed and an isolated missing one becomes the mean of the two
neighbour values handed in (exact arithmetic). -/
theorem C04_fill_mean (nv v p n : Int) :
    (v ≠ nv → fillMean nv v p n = v) ∧ (v = nv → p ≠ nv → n ≠ nv → fillMean nv v p n = (p + n) / 2) := by
  constructor
  · intro h; simp [fillMean, h]
  · intro h hp hn; simp [fillMean, h, hp, hn]

/-! ### non-vacuity and the former counter-witnesses -/

-- the lock-step hypotheses are met by a state in mid-January 1981 …
example : LockPre ({ zeit := masdat 81 1 1 + 10, tagNum := 10, j := 81, jtag := 365, g := [], store := {} } : DState Nat) := by
  unfold LockPre; decide
-- … and a successful run exists (three days in January without a year change)
example : (runDays (.multi 0) 3 ({ zeit := masdat 81 1 1 + 10, tagNum := 10, j := 81, jtag := 365, g := [], store := {} } : DState Nat)).map
    (fun ds => ds.map (fun d => (d.j, d.tagNum, d.jtag))) = some [(81, 11, 365), (81, 12, 365), (81, 13, 365)] := by decide
-- StartYear 1980, first simulated day 1 January 1981, weather of both years present: error
example : kalenderDate (masdat 81 1 1) = some (1981, 1, 1) := by decide
example : (runMulti ([⟨1980, 366, 1, false⟩, ⟨1981, 1, 2, false⟩, ⟨1981, 2, 3, false⟩] : List (Rec Nat)) 1980 2 (masdat 81 1 1) 1 2).isNone = true := by decide
-- a gap-free series across a year end that starts before the start year
example : GapFree ([⟨1980, 366, 1, false⟩, ⟨1981, 1, 2, false⟩, ⟨1981, 2, 3, false⟩] : List (Rec Nat)) ∧
    ∀ r ∈ ([⟨1980, 366, 1, false⟩, ⟨1981, 1, 2, false⟩, ⟨1981, 2, 3, false⟩] : List (Rec Nat)), ValidRec r := by decide
example : firstYear 1981 ([⟨1980, 366, 1, false⟩, ⟨1981, 1, 2, false⟩, ⟨1981, 2, 3, false⟩] : List (Rec Nat)) = 1981 := by decide
-- a gap inside a year is rejected
example : (readCSV 1981 1 ([⟨1981, 1, 1, false⟩, ⟨1981, 3, 2, false⟩] : List (Rec Nat))).isNone = true := by decide
-- a line whose date did not parse between 1 and 3 January: error (it used to be skipped and 3 January accepted)
example : (readCSV 1981 1 ([⟨1981, 1, 1, false⟩, ⟨1, 1, 2, true⟩, ⟨1981, 3, 3, false⟩] : List (Rec Nat))).isNone = true := by decide
-- a line numbered 366 in the year file of 1981: error
example : (readYearFile 1981 ({} : Store Nat) (some (numberFrom 365 [7, 8]))).2 = YStatus.gap := by decide
example : (readYearLines 1981 ({} : Store Nat) 364 (numberFrom 365 [7, 8])).2 = YStatus.beyond := by decide
-- 2000 without its 31 December: 30 December 2000 (day 365) followed by 1 January 2001 is rejected,
-- and so is a run standing on day 365 of 2000 with JTAG = 365
example : (readCSV 2000 2 ([⟨2000, 364, 1, false⟩, ⟨2000, 365, 2, false⟩, ⟨2001, 1, 3, false⟩] : List (Rec Nat))).isNone = true := by decide
example : (runDays (.multi 0) 1 ({ zeit := masdat 100 12 30, tagNum := 365, j := 100, jtag := 365, g := [], store := {} } : DState Nat)).isNone = true := by decide
-- former witness F3b: 30 December followed by 1 January is rejected now
example : (readCSV 1981 2 ([⟨1981, 363, 1, false⟩, ⟨1981, 364, 2, false⟩, ⟨1982, 1, 3, false⟩, ⟨1982, 2, 4, false⟩] : List (Rec Nat))).isNone = true := by decide
-- former witness F3: file 1–3 January 1981, run 1–5 January 1981 ends with an error, in every layout
example : (runMulti ([⟨1981, 1, 1, false⟩, ⟨1981, 2, 2, false⟩, ⟨1981, 3, 3, false⟩] : List (Rec Nat)) 1981 1 (masdat 81 1 1) 1 5).isNone = true := by decide
example : (runPerYear (fun y => if y = 1981 then some [(1, 1), (2, 2), (3, 3)] else none) 1981 (masdat 81 1 1) 1 5).isNone = true := by decide
-- former witness: the file starts a year after the run does
example : (runMulti ([⟨1982, 1, 1, false⟩, ⟨1982, 2, 2, false⟩, ⟨1982, 3, 3, false⟩] : List (Rec Nat)) 1981 2 (masdat 81 1 1) 1 2).isNone = true := by decide
-- former witness F4: sunshine missing on the last day of the first loaded year (2 days); adjacent
-- days 2 and 4: the mean 3 is used
example : ((replaceMissing (α := Int) (-99) [2, 3] 2
      [[⟨0, 0, 2, 0, 0, 0⟩, ⟨0, 0, -99, 0, 0, 0⟩], [⟨0, 0, 4, 0, 0, 0⟩, ⟨0, 0, 10, 0, 0, 0⟩, ⟨0, 0, 1, 0, 0, 0⟩]]).map
    (fun row => row.map (·.sund))) = [[2, 3], [4, 10, 1]] := by decide
-- former witness F19: 29 February 2000 gets February's factor (index 1), 31 March 2000 March's
example : corrMonth (corrDoy true (ztdat 100 2 29)) = 1 ∧ corrMonth (corrDoy true (ztdat 100 3 31)) = 2 := by decide

/-! ### non-vacuity of `C04_weather_of_day`: a series across the leap year 2000 that starts before the start year -/

/-- 30 December 1999 … 2 January 2001 (370 lines), payload = line number -/
def leapSeries : List (Rec Nat) :=
  (List.range 370).map fun i =>
    if i < 2 then ⟨1999, 364 + i, i + 1, false⟩ else if i < 368 then ⟨2000, i - 1, i + 1, false⟩ else ⟨2001, i - 367, i + 1, false⟩

-- the hypotheses of `C04_weather_of_day` hold for StartYear 2000, start date 1 January 2000, 368 days (to 2 January 2001), 2 year slots
example : (∀ r ∈ leapSeries, ValidRec r) ∧ GapFree leapSeries := by decide +kernel
example : ValidDate (2000 - 1900) 1 1 ∧ masdat (2000 - 1900) 1 1 + 368 ≤ 72685 := by unfold ValidDate; decide
example : RecordOfDay leapSeries (masdat (2000 - 1900) 1 1) ⟨2000, 1, 3, false⟩ :=
  ⟨by decide +kernel, 1, 1, by decide, by decide⟩
example : RecordOfDay leapSeries (masdat (2000 - 1900) 1 1 + (368 - 1)) ⟨2001, 2, 370, false⟩ :=
  ⟨by decide +kernel, 1, 2, by decide, by decide⟩
-- … and the run it speaks about, evaluated: 28/29 February, 1 March, 31 December 2000, 1/2 January 2001 consume lines 61, 62, 63, 368, 369, 370
example : (runMulti leapSeries 2000 2 (masdat 100 1 1) 1 368).map
    (fun ds => [58, 59, 60, 365, 366, 367].map fun k => (ds.getD k ⟨0, 0, 0, 0, none⟩).val) =
    some [some 61, some 62, some 63, some 368, some 369, some 370] := by decide +kernel
-- layout 0: the year files of 2000 (366 lines) and 2001 (2 lines), run 31 December 2000 … 2 January 2001
example : ∀ y, 2000 ≤ y → y ≤ 2001 →
    (fun y => if y = 2000 then some (numberFrom 1 (List.range 366)) else if y = 2001 then some (numberFrom 1 [7, 8]) else none) y
      = some (numberFrom 1 ((fun y => if y = 2000 then List.range 366 else [7, 8]) y)) ∧
    ((fun y => if y = 2000 then List.range 366 else [7, 8]) y).length ≤ daysInYear y := by
  intro y h1 h2
  have : y = 2000 ∨ y = 2001 := by omega
  rcases this with rfl | rfl <;> decide +kernel
example : kalenderDate (masdat (2000 - 1900) 12 31 + (3 - 1)) = some (2001, 1, 2) ∧ ztdat (2001 - 1900) 1 2 ≤ ([7, 8] : List Nat).length := by decide

/-! ### non-vacuity of `C04_weather_of_day_normalised`: 31 December 1999 … 2 January 2000 with missing values -/

/-- payload (tmp, verd, sund, radi, reg, win); −99.9 = missing -/
def wxD : List (Rec (Day ℚ)) :=
  [⟨1999, 365, ⟨1, -99.9, 3, 10, 4, 0.2⟩, false⟩, ⟨2000, 1, ⟨2, 5, -99.9, 12, 8, 3⟩, false⟩,
   ⟨2000, 2, ⟨-99.9, 6, 4, -99.9, 0, 1⟩, false⟩]

example : (∀ r ∈ wxD, ValidRec r) ∧ GapFree wxD := by decide
example : RecordOfDay wxD (masdat (2000 - 1900) 1 1) ⟨2000, 1, ⟨2, 5, -99.9, 12, 8, 3⟩, false⟩ ∧
    RecordOfDay wxD (masdat (2000 - 1900) 1 1 + (2 - 1)) ⟨2000, 2, ⟨-99.9, 6, 4, -99.9, 0, 1⟩, false⟩ :=
  ⟨⟨by simp [wxD], 1, 1, by decide, by decide⟩, ⟨by simp [wxD], 1, 2, by decide, by decide⟩⟩
-- what 1 January 2000 consumes: 8 mm · January's factor 1.1 / 10, PAR 6, wind 3, temperature 2, saturation deficit 5
example : (normPure (-99.9 : ℚ) [1.1, 1, 1, 1, 1, 1, 1, 1, 1, 1, 1, 1] true 0 ⟨2, 5, -99.9, 12, 8, 3⟩ none).reg = 0.88 ∧
    (normPure (-99.9 : ℚ) [1.1, 1, 1, 1, 1, 1, 1, 1, 1, 1, 1, 1] true 0 ⟨2, 5, -99.9, 12, 8, 3⟩ none).radi = 6 := by
  constructor <;> norm_num [normPure, transformPure, fillPure, fillZero, regenT, parT, corrMonth, corrDoy]

/-! ### layout 0: the optional columns as the model's day arrays see them (has-column flags of the run's weather store) -/

/-- **An optional value that drives a day is the value of that date's record or zero** (layout 0): the gated run differs
from `runPerYearN` (for which `C04_weather_of_day_normalised` says whose record a day sees) only in `verd` / `sund`, and there
only by replacing the value by 0 — never by the value of another day. The flags are those of the files read so far
(`seenOptional`): once a file had a value the column is copied in every later year (also a year whose file has none). -/
theorem C04_optional_columns_of_the_date_or_zero (nv : ℚ) (corr : List ℚ) (files : Nat → Option (List (Nat × Day ℚ)))
    (anjahr beginn itag ndays : Nat) (ds : List (DayOut (Day ℚ))) (h : runPerYearL nv corr files anjahr beginn itag ndays = some ds) :
    ∃ ds0, runPerYearN nv corr files anjahr beginn itag ndays = some ds0 ∧ ds.length = ds0.length ∧
      ∀ i (hi : i < ds.length) (hi0 : i < ds0.length), (ds[i]).zeit = (ds0[i]).zeit ∧ (ds[i]).tagNum = (ds0[i]).tagNum ∧ (ds[i]).j = (ds0[i]).j ∧
        ∀ v, (ds[i]).val = some v → ∃ v0, (ds0[i]).val = some v0 ∧ v.tmp = v0.tmp ∧ v.radi = v0.radi ∧ v.reg = v0.reg ∧ v.win = v0.win ∧
          (v.verd = v0.verd ∨ v.verd = 0) ∧ (v.sund = v0.sund ∨ v.sund = 0) := by
  unfold runPerYearL at h
  cases h0 : runPerYearN nv corr files anjahr beginn itag ndays with
  | none => rw [h0] at h; simp at h
  | some ds0 =>
    rw [h0] at h
    simp only [Option.map_some, Option.some.injEq] at h
    subst h
    refine ⟨ds0, rfl, by simp, ?_⟩
    intro i hi hi0
    simp only [List.getElem_map]
    refine ⟨trivial, trivial, trivial, ?_⟩
    intro v hv
    cases hv0 : (ds0[i]).val with
    | none => rw [hv0] at hv; simp at hv
    | some v0 =>
      rw [hv0] at hv
      simp only [Option.map_some, Option.some.injEq] at hv
      subst hv
      refine ⟨v0, rfl, rfl, rfl, rfl, rfl, ?_, ?_⟩
      · unfold loadOptional; dsimp only; split <;> simp
      · unfold loadOptional; dsimp only; split <;> simp

/-- a flag, once up, stays up: a later year without a value of the column is still copied -/
theorem C04_optional_flag_sticky (nv : ℚ) (files : Nat → Option (List (Nat × Day ℚ))) (anjahr y : Nat) (hy : anjahr ≤ y) :
    ((seenOptional nv files anjahr y).1 = true → (seenOptional nv files anjahr (y + 1)).1 = true) ∧
    ((seenOptional nv files anjahr y).2 = true → (seenOptional nv files anjahr (y + 1)).2 = true) := by
  unfold seenOptional
  have hr : y + 1 + 1 - anjahr = (y + 1 - anjahr) + 1 := by omega
  rw [hr, List.range_succ, List.map_append, List.foldl_append]
  simp only [List.map_cons, List.map_nil, List.foldl_cons, List.foldl_nil]
  split
  · exact ⟨id, id⟩
  · exact ⟨fun h => by simp [h], fun h => by simp [h]⟩

end Hermes.Weather
