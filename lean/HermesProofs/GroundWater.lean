/-
Lemmas about the groundwater model (C20): the map read and the neighbour search on strictly
ascending series, the interpolation formula over ℚ, the sinusoid over ℝ.
-/
import HermesModel.GroundWater
import HermesProofs.RatInst
import Mathlib.Tactic.Linarith
import Mathlib.Tactic.Ring
import Mathlib.Tactic.FieldSimp
import Mathlib.Tactic.Positivity
import Mathlib.Analysis.SpecialFunctions.Trigonometric.Basic

namespace Hermes.GroundWater

noncomputable instance : IntConv ℝ where
  ofInt i := (i : ℝ)

instance : IntConv ℚ where
  ofInt i := (i : ℚ)

section series
variable {α : Type}

/-- the day numbers of the records, in file order (`GWTimestamps`) -/
def days (s : List (Nat × α)) : List Nat := s.map (·.1)

/-- strictly ascending dates -/
def Ascending (s : List (Nat × α)) : Prop := (days s).Pairwise (· < ·)

/-- every date is a day number (≥ 1) -/
def PositiveDays (s : List (Nat × α)) : Prop := ∀ d ∈ days s, 0 < d

theorem mapGet_none (s : List (Nat × α)) (date : Nat) (h : date ∉ days s) : mapGet s date = none := by
  induction s with
  | nil => rfl
  | cons e r ih =>
    obtain ⟨d, v⟩ := e
    simp only [days, List.map_cons, List.mem_cons, not_or] at h
    have hr : mapGet r date = none := ih (by simpa [days] using h.2)
    have hd : ¬ d = date := fun e => h.1 e.symm
    simp [mapGet, hr, hd]

theorem mapGet_of_mem (s : List (Nat × α)) (hs : Ascending s) (d : Nat) (v : α) (hm : (d, v) ∈ s) :
    mapGet s d = some v := by
  induction s with
  | nil => cases hm
  | cons e r ih =>
    obtain ⟨d0, v0⟩ := e
    have hs' : (d0 :: days r).Pairwise (· < ·) := by simpa [Ascending, days] using hs
    rw [List.pairwise_cons] at hs'
    rcases List.mem_cons.mp hm with h | h
    · injection h with h1 h2
      subst h1; subst h2
      have hn : d ∉ days r := fun hmem => Nat.lt_irrefl _ (hs'.1 d hmem)
      simp [mapGet, mapGet_none r d hn]
    · have := ih hs'.2 h
      simp [mapGet, this]

theorem neighbours_append_lt (date : Nat) (pre post : List Nat) (prev : Nat)
    (h : ∀ d ∈ pre, d < date) :
    neighbours date (pre ++ post) prev = neighbours date post (pre.getLastD prev) := by
  induction pre generalizing prev with
  | nil => rfl
  | cons d ds ih =>
    have hd : d < date := h d (List.mem_cons_self ..)
    have := ih d (fun x hx => h x (List.mem_cons_of_mem _ hx))
    simp only [List.cons_append, neighbours, hd, if_true, this]
    cases ds <;> simp [List.getLastD]

theorem neighbours_gt (date n : Nat) (post : List Nat) (prev : Nat) (h : date < n) :
    neighbours date (n :: post) prev = (prev, n) := by
  have : ¬ n < date := by omega
  simp [neighbours, this, h]

end series

/-! ### the interpolation formula over ℚ -/

theorem interpolate_eq (p n date : Nat) (vp vn : ℚ) (h1 : p < date) (h2 : date < n) :
    interpolate p n date vp vn = vp + (vn - vp) * (((date : ℚ) - p) / ((n : ℚ) - p)) := by
  have hnp : ((n - p : ℕ) : ℚ) = (n : ℚ) - p := Nat.cast_sub (by omega)
  have hdp : ((date - p : ℕ) : ℚ) = (date : ℚ) - p := Nat.cast_sub (by omega)
  have hpos : (0 : ℚ) < (n : ℚ) - p := by
    have : (p : ℚ) < n := by exact_mod_cast (by omega : p < n)
    linarith
  unfold interpolate
  show (vn - vp) / ((n - p : ℕ) : ℚ) * ((date - p : ℕ) : ℚ) + vp = _
  rw [hnp, hdp]
  field_simp
  ring

/-- at the two records the interpolation formula gives the records' values -/
theorem interpolate_at_ends (p n : Nat) (vp vn : ℚ) (h : p < n) :
    interpolate p n p vp vn = vp ∧ interpolate p n n vp vn = vn := by
  have hnp : ((n - p : ℕ) : ℚ) = (n : ℚ) - p := Nat.cast_sub (by omega)
  have hpos : (n : ℚ) - p ≠ 0 := by
    have : (p : ℚ) < n := by exact_mod_cast h
    intro e; linarith
  constructor
  · show (vn - vp) / ((n - p : ℕ) : ℚ) * ((p - p : ℕ) : ℚ) + vp = vp
    simp
  · show (vn - vp) / ((n - p : ℕ) : ℚ) * ((n - p : ℕ) : ℚ) + vp = vn
    rw [hnp]; field_simp; ring

/-- the weight of the later neighbour lies strictly between 0 and 1 -/
theorem weight_bounds (p n date : Nat) (h1 : p < date) (h2 : date < n) :
    0 < ((date : ℚ) - p) / ((n : ℚ) - p) ∧ ((date : ℚ) - p) / ((n : ℚ) - p) < 1 := by
  have a : (p : ℚ) < date := by exact_mod_cast h1
  have b : (date : ℚ) < n := by exact_mod_cast h2
  have hpos : (0 : ℚ) < (n : ℚ) - p := by linarith
  constructor
  · apply div_pos <;> linarith
  · rw [div_lt_one hpos]; linarith

theorem interpolate_between (p n date : Nat) (vp vn : ℚ) (h1 : p < date) (h2 : date < n) :
    min vp vn ≤ interpolate p n date vp vn ∧ interpolate p n date vp vn ≤ max vp vn := by
  rw [interpolate_eq p n date vp vn h1 h2]
  obtain ⟨w0, w1⟩ := weight_bounds p n date h1 h2
  generalize ((date : ℚ) - p) / ((n : ℚ) - p) = w at w0 w1
  rcases le_total vp vn with h | h
  · rw [min_eq_left h, max_eq_right h]
    constructor <;> nlinarith
  · rw [min_eq_right h, max_eq_left h]
    constructor <;> nlinarith

theorem interpolate_mono_next (p n date : Nat) (vp vn vn' : ℚ) (h1 : p < date) (h2 : date < n)
    (h : vn ≤ vn') : interpolate p n date vp vn ≤ interpolate p n date vp vn' := by
  rw [interpolate_eq p n date vp vn h1 h2, interpolate_eq p n date vp vn' h1 h2]
  obtain ⟨w0, w1⟩ := weight_bounds p n date h1 h2
  generalize ((date : ℚ) - p) / ((n : ℚ) - p) = w at w0 w1
  nlinarith

theorem interpolate_mono_prev (p n date : Nat) (vp vp' vn : ℚ) (h1 : p < date) (h2 : date < n)
    (h : vp ≤ vp') : interpolate p n date vp vn ≤ interpolate p n date vp' vn := by
  rw [interpolate_eq p n date vp vn h1 h2, interpolate_eq p n date vp' vn h1 h2]
  obtain ⟨w0, w1⟩ := weight_bounds p n date h1 h2
  generalize ((date : ℚ) - p) / ((n : ℚ) - p) = w at w0 w1
  nlinarith

end Hermes.GroundWater
