/-
C09 — crop state stays valid: the photosynthesis / respiration numbers, the assimilate pool, the N-content
functions and the daily N uptake of `PhytoOut` (hermes/crop.go), which HermesProps/C09.lean takes as
hypotheses.  Model: HermesModel/CropDay.lean (`radia`, `nfn`, `growDay`, `uptakeDay`), tied to the real `radia` /
`PhytoOut` by the correspondence stage "cropday" of the C09 check.  Exact-arithmetic statements over ℚ.
The transcendental functions are inputs of the model; what the theorems assume of them is their range on the
argument the model hands to them (log ≥ 0 on [1,∞), exp ∈ (0,1] on (−∞,0], 0 < sin ≤ 1 for the solar elevation
at noon, 2^x > 0) — the theorems prove that the arguments lie in those domains (`C09_radia_log_args_ge_one`,
`C09_radia_exp_args_nonpos`).
-/
import HermesProofs.CropDay
namespace Hermes.CropDay
open Hermes.Crop

/-! ### radia: photosynthesis and maintenance -/

/-- AMAX never falls below its floor 0.1 — whatever the temperature function, the CO2 method and the
transcendental values give (crop.go:867-869). -/
theorem C09_radia_amax_floor (i : RadiaIn ℚ) (t : RadiaT ℚ) : 0.1 ≤ amaxOf i t := amaxOf_ge i t

/-- On a day with daylight both `math.Log` calls of `radia` get an argument ≥ 1 (so X, Y ≥ 0). -/
theorem C09_radia_log_args_ge_one (i : RadiaIn ℚ) (t : RadiaT ℚ) (r : RadiaRange i t) (hdl : 0 < i.dl) :
    1 ≤ argX i t ∧ 1 ≤ argY i t := ⟨argX_ge_one i t r hdl, argY_ge_one i t r hdl⟩

/-- … and both `math.Exp(-MA/MI)` calls get an argument ≤ 0 (so the factors 1 − exp(…) lie in [0,1)). -/
theorem C09_radia_exp_args_nonpos (i : RadiaIn ℚ) (t : RadiaT ℚ) (r : RadiaRange i t) (hdl : 0 < i.dl) :
    argC i t ≤ 0 ∧ argO i t ≤ 0 := ⟨argC_nonpos i t r hdl, argO_nonpos i t r hdl⟩

/-- **0 ≤ MAINT ≤ GPHOT** for every day length (incl. no daylight), latitude, temperature (below MINTMP, in
every segment of the C3 / C4 temperature functions), CO2 method, radiation or sunshine input, LAI ≥ 0, any number
of organs: the hypotheses of `C09_aspoo_nonneg_partial` (0 ≤ GPHOT) and the finiteness side conditions are
input-range facts (`RadiaRange`). -/
theorem C09_radia_gphot_maint_nonneg (i : RadiaIn ℚ) (t : RadiaT ℚ) (r : RadiaRange i t) :
    0 ≤ (radia i t).maint ∧ (radia i t).maint ≤ (radia i t).gphot ∧ 0 ≤ (radia i t).gphot := by
  have h := radia_signs i t r
  exact ⟨h.1, h.2, le_trans h.1 h.2⟩

/-- the effective day length used (and returned) on a day with daylight is positive: no division by 0 -/
theorem C09_radia_dle_pos (i : RadiaIn ℚ) (t : RadiaT ℚ) (hdl : 0 < i.dl) (hdle : 0 ≤ i.dle) : 0 < (radia i t).dle := by
  simp only [radia, if_neg (not_le.mpr hdl)]
  exact dleOf_pos i hdl hdle

/-- on a day evaluated from sunshine hours (RAD = 0) the sunshine hours are cut at DLE -/
theorem C09_radia_sund_le_dle (i : RadiaIn ℚ) (t : RadiaT ℚ) (hdl : 0 < i.dl) (hrad : i.rad = 0) :
    (radia i t).sund ≤ (radia i t).dle := by
  simp only [radia, if_neg (not_le.mpr hdl), (isZero_iff i.rad).mpr hrad, if_true, sundClamp]
  split_ifs with h
  · exact le_refl _
  · exact not_lt.mp h

/-- **Maintenance shares.** With MAINTS > 0 every share MANT[i] lies in [0,1] and the shares sum to 1. -/
theorem C09_radia_mant_unit (i : RadiaIn ℚ) (hw : ∀ w ∈ i.worg, (0 : ℚ) ≤ w) (hm : ∀ m ∈ i.mairt, (0 : ℚ) ≤ m) (hs : 0 < maints i) :
    (∀ x ∈ mant i, 0 ≤ x ∧ x ≤ 1) ∧ (mant i).sum = 1 := mant_props i hw hm hs

/-- MAINTS > 0 as soon as the first organ (the root) has mass and a maintenance rate — the hypothesis
"MAINTS > 0" is reduced to a parameter fact (MAIRT[0] > 0) and `C09_organs_low_pos`. -/
theorem C09_maints_pos (i : RadiaIn ℚ) (hw : ∀ w ∈ i.worg, (0 : ℚ) ≤ w) (hm : ∀ m ∈ i.mairt, (0 : ℚ) ≤ m)
    (h0 : 0 < i.worg.getD 0 0) (h1 : 0 < i.mairt.getD 0 0) : 0 < maints i := by
  have hnn := zipMul_nonneg _ _ hw hm
  simp only [maints, mainorg, sumFrom_eq, zero_add] at hnn ⊢
  cases hwl : i.worg with
  | nil => simp [hwl] at h0
  | cons w0 ws =>
    cases hml : i.mairt with
    | nil => simp [hml] at h1
    | cons m0 ms =>
      rw [hwl, hml] at hnn
      simp only [hwl, hml, List.getD_cons_zero] at h0 h1
      simp only [List.zipWith_cons_cons, List.sum_cons]
      have hrest : 0 ≤ (List.zipWith (· * ·) ws ms).sum :=
        List.sum_nonneg (fun x hx => hnn x (by simp [hx]))
      have : 0 < w0 * m0 := mul_pos h0 h1
      linarith

/-- the organs 1–3 (root, leaf, stem) are strictly positive after every update (floor 0.1, crop.go:463-469) -/
theorem C09_organs_low_pos (e : OrganEnv ℚ) (gehalt lai0 laimax0 pesum0 : ℚ) (above : List ℕ)
    (orgs : List (OrganPar ℚ × ℚ × ℚ)) (k : ℕ) (hk : k < 3) (hlen : k < orgs.length) :
    0 < (organs e gehalt lai0 laimax0 pesum0 above orgs).worg.getD k 0 := by
  have h := organLoop_lowPos e gehalt orgs 0
    { worg := [], gorg := [], dgorg := [], lai := laiFloor lai0, laimax := laimax0, pesum := pesum0 } ⟨rfl, by simp⟩
  simp only [organs]
  exact h.2 k hk (by rw [h.1]; omega)

/-! ### N-content functions -/

/-- **GEHMIN, GEHMAX > 0** for the nine coded variants, given the values of exp / pow lie in (0,1] (exp of a
non-positive argument; variants 3, 5, 7 only need > 0) and RGA > 0 (variant 5). -/
theorem C09_nfn_pos (i : NfnIn ℚ) (h1 : 1 ≤ i.ngefkt) (h9 : i.ngefkt ≤ 9) (htmin : 0 < i.tmin ∧ i.tmin ≤ 1)
    (htmax : 0 < i.tmax ∧ i.tmax ≤ 1) (hrga : 0 < i.rga) : 0 < (nfn i).1 ∧ 0 < (nfn i).2 := by
  obtain ⟨a0, a1⟩ := htmin
  obtain ⟨b0, b1⟩ := htmax
  have hsq1 : (1 - i.tmin) * (1 - i.tmin) ≤ 1 := by nlinarith
  have hsq2 : (1 - i.tmax) * (1 - i.tmax) ≤ 1 := by nlinarith
  have hk : i.ngefkt = 1 ∨ i.ngefkt = 2 ∨ i.ngefkt = 3 ∨ i.ngefkt = 4 ∨ i.ngefkt = 5 ∨ i.ngefkt = 6 ∨ i.ngefkt = 7 ∨
      i.ngefkt = 8 ∨ i.ngefkt = 9 := by omega
  rcases hk with h | h | h | h | h | h | h | h | h <;> simp only [nfn, h] <;> norm_num <;>
    (split_ifs <;> (constructor <;> first | positivity | nlinarith))

/-- GEHMIN ≤ GEHMAX in the variants whose two formulas share the transcendental value (3, 4, 7, 9) -/
theorem C09_nfn_ordered (i : NfnIn ℚ) (hk : i.ngefkt = 3 ∨ i.ngefkt = 4 ∨ i.ngefkt = 7 ∨ i.ngefkt = 9)
    (ht : i.tmin = i.tmax) (h0 : 0 ≤ i.tmin) : (nfn i).1 ≤ (nfn i).2 := by
  obtain ⟨ngefkt, wrsg, phyllo, obmas, worg3, org, rga, tendsum, gehminOld, gehmaxOld, tmin, tmax⟩ := i
  simp only at hk ht h0
  subst ht
  rcases hk with h | h | h | h <;> subst h <;> simp only [nfn] <;> norm_num <;> (split_ifs <;> nlinarith)

/-! ### assimilate pool and bookkeeping of the day -/

/-- **The assimilate pool, GTW and the daily GPP are never negative** — `C09_aspoo_nonneg_partial` without the
hypothesis 0 ≤ GPHOT: it follows from the input ranges of `radia`. -/
theorem C09_aspoo_nonneg (ri : RadiaIn ℚ) (rt : RadiaT ℚ) (e : OrganEnv ℚ) (aspoo gppsum gehalt laimax0 pesum0 : ℚ) (above : List ℕ)
    (orgs : List (OrganPar ℚ × ℚ × ℚ)) (wdorg : List ℚ) (r : RadiaRange { ri with lai := laiFloor ri.lai } rt)
    (ha : 0 ≤ aspoo) (hr : e.reduk ≤ 1) :
    0 ≤ (growDay ri rt e aspoo gppsum gehalt laimax0 pesum0 above orgs wdorg).gtw ∧
    0 ≤ (growDay ri rt e aspoo gppsum gehalt laimax0 pesum0 above orgs wdorg).org.aspoo ∧
    0 ≤ (growDay ri rt e aspoo gppsum gehalt laimax0 pesum0 above orgs wdorg).gppdaily := by
  have h := (C09_radia_gphot_maint_nonneg _ rt r).2.2
  simp only [growDay, organs]
  have h1 : 0 ≤ 1 - e.reduk := by linarith
  refine ⟨by linarith, ?_, by positivity⟩
  have : 0 ≤ (radia { ri with lai := laiFloor ri.lai } rt).gphot + aspoo := by linarith
  positivity

/-- **Growth bookkeeping of the organ loop.** While the stage's temperature sum is not exceeded, with partitioning
coefficients that sum to 1 at both ends of the stage (checked at read time, cropparam.go `CheckPROSum`) and maintenance
shares that sum to 1 (`C09_radia_mant_unit`): the organ growth rates add up to 70 % of (GTW·REDUK − MAINT) — the other
30 % are growth respiration — and what N stress holds back goes to the pool: ASPOO' + GTW·REDUK = GTW. For every number
of organs, every state. -/
theorem C09_growth_balance (e : OrganEnv ℚ) (gehalt lai0 laimax0 pesum0 : ℚ) (above : List ℕ)
    (orgs : List (OrganPar ℚ × ℚ × ℚ)) (hstage : ¬ 1 < e.sumI / e.tsumI)
    (hp0 : (orgs.map (·.1.proPrev)).sum = 1) (hp1 : (orgs.map (·.1.proCur)).sum = 1) (hm : (orgs.map (·.1.mant)).sum = 1) :
    (organs e gehalt lai0 laimax0 pesum0 above orgs).gorg.sum = 0.7 * (e.gtw * e.reduk - e.maint) ∧
    (organs e gehalt lai0 laimax0 pesum0 above orgs).aspoo + e.gtw * e.reduk = e.gtw := by
  constructor
  · simp only [organs]
    rw [organLoop_gorg, List.nil_append, sum_rates e hstage, hp0, hp1, hm]
    ring
  · simp only [organs]; ring

/-- **The day's assimilate is fully accounted for**: new pool + maintenance + growth (incl. the 30 % growth respiration)
= GPHOT + old pool, with GPHOT, MAINT and the shares MANT produced by `radia` inside the model. -/
theorem C09_day_assimilate_balance (ri : RadiaIn ℚ) (rt : RadiaT ℚ) (e : OrganEnv ℚ) (aspoo gppsum gehalt laimax0 pesum0 : ℚ) (above : List ℕ)
    (orgs : List (OrganPar ℚ × ℚ × ℚ)) (wdorg : List ℚ) (hstage : ¬ 1 < e.sumI / e.tsumI)
    (hp0 : (orgs.map (·.1.proPrev)).sum = 1) (hp1 : (orgs.map (·.1.proCur)).sum = 1)
    (hlen : (radia { ri with lai := laiFloor ri.lai } rt).mant.length = orgs.length)
    (hm : (radia { ri with lai := laiFloor ri.lai } rt).mant.sum = 1) :
    (growDay ri rt e aspoo gppsum gehalt laimax0 pesum0 above orgs wdorg).org.aspoo
      + (growDay ri rt e aspoo gppsum gehalt laimax0 pesum0 above orgs wdorg).rad.maint
      + (growDay ri rt e aspoo gppsum gehalt laimax0 pesum0 above orgs wdorg).org.gorg.sum / 0.7
      = (growDay ri rt e aspoo gppsum gehalt laimax0 pesum0 above orgs wdorg).rad.gphot + aspoo := by
  simp only [growDay]
  set r := radia { ri with lai := laiFloor ri.lai } rt
  have hb := C09_growth_balance { e with gtw := r.gphot + aspoo, maint := r.maint } gehalt ri.lai laimax0 pesum0 above (withMant orgs r.mant)
    hstage (by rw [(withMant_pro orgs r.mant).1]; exact hp0) (by rw [(withMant_pro orgs r.mant).2]; exact hp1)
    (by rw [withMant_mant orgs r.mant hlen]; exact hm)
  obtain ⟨h1, h2⟩ := hb
  simp only at h1 h2
  rw [h1]
  have h3 : (0.7 : ℚ) * ((r.gphot + aspoo) * e.reduk - r.maint) / 0.7 = (r.gphot + aspoo) * e.reduk - r.maint := by
    field_simp
  rw [h3]
  linarith

/-- the dead mass of an organ stays strictly below its living mass (crop.go:499-502), for every organ and state -/
theorem C09_wdorg_below_worg (dt w wd d : ℚ) : wdorgUpd dt w wd d < w := wdorgUpd_lt dt w wd d

/-! ### N demand -/

/-- **Demand cap.** 0 ≤ demand after the clamp ≤ 6·DT, and the final demand DTGESN (after the root-length cap) is
at most the clamped one. -/
theorem C09_demand_bounds (i : UptakeIn ℚ) (hdt : 0 ≤ i.dt) :
    (uptakeDay i).dtgesn ≤ 6.0 * i.dt ∧
    (uptakeDay i).dtgesn ≤ max (demandRaw i.beet i.active i.gehmax i.obmas i.wumas i.worg3 i.wgmax i.pesum i.dt) 0 := by
  have h := demandClamp_range i.dt (demandRaw i.beet i.active i.gehmax i.obmas i.wumas i.worg3 i.wgmax i.pesum i.dt) hdt
  have hc := demandCap_le i.legum (wulaenOf i.dz ((rootLayers i.beet i.wumas i.dz 1 0 i.eqs).map (·.1)))
    (maxup i.maxupClass i.phyllo i.tendsum) i.dt (demandClamp i.dt (demandRaw i.beet i.active i.gehmax i.obmas i.wumas i.worg3 i.wgmax i.pesum i.dt))
  simp only [uptakeDay]
  exact ⟨le_trans hc h.2.1, le_trans hc h.2.2⟩

/-! ### N uptake of the rooted layers -/

/-- **Every PE[i] of a rooted layer is ≥ 0 and at most the mineral N the code leaves available,
max(0, C1[i] − 0.75)** — for every number of layers, every state, demand, transpiration and diffusion number
(no hypothesis). The i-th PE belongs to the i-th soil layer. -/
theorem C09_pe_bounds (i : UptakeIn ℚ) :
    List.Forall₂ (fun p (s : SoilL ℚ) => 0 ≤ p ∧ p ≤ max 0 (s.c1 - 0.75)) (uptakeDay i).core.pe
      (i.soil.take (uptakeDay i).core.pe.length) := by
  simp only [uptakeDay]
  set m := uptakeLayers i.eqs.length i.grw
  set rl := rootLayers i.beet i.wumas i.dz 1 0 i.eqs
  set ls := mkLayers i.beet 1 (i.soil.take m) rl i.sq with hls
  set d2 := demandCap i.legum (wulaenOf i.dz (rl.map (·.1))) (maxup i.maxupClass i.phyllo i.tendsum) i.dt
    (demandClamp i.dt (demandRaw i.beet i.active i.gehmax i.obmas i.wumas i.worg3 i.wgmax i.pesum i.dt))
  have hlen : (uptakeCore i.legum i.dt i.dz d2 i.massum i.diffsum ls).pe.length = ls.length := uptakeCore_pe_length _ _ _ _ _ _ _
  rw [hlen]
  have h1 : List.Forall₂ (fun p (l : ULayer ℚ) => 0 ≤ p ∧ p ≤ max 0 (l.c1 - 0.75))
      (uptakeCore i.legum i.dt i.dz d2 i.massum i.diffsum ls).pe ls := by
    simp only [uptakeCore]
    exact pe_forall₂ _ _ _ _ _ ls 0
  have h2 := mkLayers_c1 i.beet (i.soil.take m) 1 rl i.sq
  rw [← hls] at h2
  have hle : ls.length ≤ (i.soil.take m).length := mkLayers_length_le _ _ _ _ _
  have htake : (i.soil.take m).take ls.length = i.soil.take ls.length := by
    rw [List.take_take]; congr 1
    have : (i.soil.take m).length ≤ m := by simp
    omega
  rw [htake] at h2
  -- compose the two relations
  have : ∀ (ps : List ℚ) (ls : List (ULayer ℚ)) (ss : List (SoilL ℚ)),
      List.Forall₂ (fun p (l : ULayer ℚ) => 0 ≤ p ∧ p ≤ max 0 (l.c1 - 0.75)) ps ls →
      List.Forall₂ (fun (l : ULayer ℚ) (s : SoilL ℚ) => l.c1 = s.c1) ls ss →
      List.Forall₂ (fun p (s : SoilL ℚ) => 0 ≤ p ∧ p ≤ max 0 (s.c1 - 0.75)) ps ss := by
    intro ps ls ss hp
    induction hp generalizing ss with
    | nil => intro h; cases h; exact List.Forall₂.nil
    | cons hab _ ih =>
      intro h
      cases h with
      | cons hc hrest => exact List.Forall₂.cons (by rw [← hc]; exact hab) (ih _ hrest)
  exact this _ _ _ h1 h2

/-- every entry of PE after the call is ≥ 0 when the entries before the call were (the day loop zeroes PE) -/
theorem C09_pe_nonneg (i : UptakeIn ℚ) (hold : ∀ p ∈ i.peOld, (0 : ℚ) ≤ p) : ∀ p ∈ (uptakeDay i).pe, 0 ≤ p := by
  intro p hp
  simp only [uptakeDay] at hp
  rcases List.mem_append.mp hp with h | h
  · simp only [uptakeCore, List.mem_map] at h
    obtain ⟨m, _, rfl⟩ := h
    exact peOne_nonneg _ _ _ _
  · exact hold p (List.mem_of_mem_drop h)

/-- the number of layers that receive an uptake is at most int(min(WURZ, GRW)): the rooted layers above the groundwater -/
theorem C09_pe_rooted_count (i : UptakeIn ℚ) : (uptakeDay i).core.pe.length ≤ uptakeLayers i.eqs.length i.grw := by
  simp only [uptakeDay]
  rw [uptakeCore_pe_length]
  have h := mkLayers_length_le i.beet (i.soil.take (uptakeLayers i.eqs.length i.grw)) 1 (rootLayers i.beet i.wumas i.dz 1 0 i.eqs) i.sq
  have : (i.soil.take (uptakeLayers i.eqs.length i.grw)).length ≤ uptakeLayers i.eqs.length i.grw := by simp
  omega

/-- **Outside the rooted layers PE is not touched**: for every index j ≥ int(min(WURZ, GRW)) the entry after the call is
the entry before the call … -/
theorem C09_pe_outside_rooted_unchanged (i : UptakeIn ℚ) (j : ℕ) (hj : uptakeLayers i.eqs.length i.grw ≤ j) :
    (uptakeDay i).pe.getD j 0 = i.peOld.getD j 0 := by
  have hlen := C09_pe_rooted_count i
  have hpe : (uptakeDay i).pe = (uptakeDay i).core.pe ++ i.peOld.drop (uptakeDay i).core.pe.length := by simp only [uptakeDay]
  rw [hpe]
  have hk : (uptakeDay i).core.pe.length ≤ j := le_trans hlen hj
  simp only [List.getD_eq_getElem?_getD, List.getElem?_append_right hk, List.getElem?_drop]
  congr 2
  omega

/-- … so it is 0 there, because the day loop hands over PE = 0 (run.go:655-657). -/
theorem C09_pe_outside_rooted_zero (i : UptakeIn ℚ) (hold : ∀ p ∈ i.peOld, p = (0 : ℚ)) (j : ℕ)
    (hj : uptakeLayers i.eqs.length i.grw ≤ j) : (uptakeDay i).pe.getD j 0 = 0 := by
  rw [C09_pe_outside_rooted_unchanged i j hj]
  by_cases h : j < i.peOld.length
  · rw [List.getD_eq_getElem?_getD, List.getElem?_eq_getElem h]; exact hold _ (List.getElem_mem h)
  · rw [List.getD_eq_getElem?_getD, List.getElem?_eq_none (not_lt.mp h)]; rfl

/-- the summed uptake is never negative -/
theorem C09_sumpe_nonneg (i : UptakeIn ℚ) : 0 ≤ (uptakeDay i).core.sumpe := by
  simp only [uptakeDay]; exact uptakeCore_sumpe_nonneg _ _ _ _ _ _ _

/-- **Σ PE ≤ the day's demand max(DTGESN, 0)** for every number of layers, every demand, every root distribution and
every value of the transcendental inputs, on a valid soil state: water uptake ≥ 0, mineral N ≥ 0 and water content > 0 in
every soil layer handed to the routine. (The mass-flow terms are then ≥ 0; the diffusion terms are ≥ 0 by their floor —
before the repair of crop.go:696 a layer below the concentration 0.000014 made the sum exceed the demand.) -/
theorem C09_sumpe_le_demand (i : UptakeIn ℚ) (hdt : 0 ≤ i.dt) (hdz : 0 < i.dz)
    (hs : ∀ s ∈ i.soil, 0 ≤ s.tp ∧ 0 ≤ s.c1 ∧ 0 < s.wg) : (uptakeDay i).core.sumpe ≤ max (uptakeDay i).dtgesn 0 := by
  simp only [uptakeDay]
  apply uptakeCore_sum_le _ _ _ _ _ _ _ hdt hdz
  apply mkLayers_ok
  intro s hs'
  exact hs s (List.mem_of_mem_take hs')

/-- the diffusion term of a rooted layer is never negative (crop.go:696-699), whatever the state -/
theorem C09_diff_nonneg (dt : ℚ) (l : ULayer ℚ) : 0 ≤ diffOf dt l := diffOf_nonneg dt l

/-- root length density is never negative -/
theorem C09_wudich_nonneg (i : UptakeIn ℚ) (hdz : 0 < i.dz) : ∀ w ∈ (uptakeDay i).wudich, (0 : ℚ) ≤ w := by
  intro w hw
  simp only [uptakeDay, List.mem_map] at hw
  obtain ⟨x, hx, rfl⟩ := hw
  exact rootLayers_nonneg i.beet i.wumas i.dz hdz i.eqs 1 0 x hx

/-- the state on which the unrepaired code exceeded the demand: two rooted layers, no transpiration, the upper one rich in
mineral N, the lower one without (its raw diffusion term is negative), demand 3/1000 -/
def failLower : ULayer ℚ := { c1 := 0, tp := 0, wg := 1/5, ad := 1/500, wrad := 1/100, wudich := 1, ewg := 7, sq := 2 }
def failLayers : List (ULayer ℚ) :=
  [{ c1 := 50, tp := 0, wg := 1/5, ad := 1/500, wrad := 1/100, wudich := 1, ewg := 7, sq := 2 }, failLower]

/-- regression: with the floor on DIFF the upper layer receives exactly the demand, the lower one nothing, and a
legume fixes nothing (the unrepaired code gave SUMPE > 3/1000 and NFIX < 0 here). Replayed on the real PhytoOut by
the check (`c09DayWitness`). -/
example : diffRaw 1 failLower < 0 ∧ (∀ l ∈ failLayers, LayerOk l) ∧
    (uptakeCore true 1 10 (3/1000) 0 0 failLayers).sumpe = 3/1000 ∧
    (uptakeCore true 1 10 (3/1000) 0 0 failLayers).nfix = 0 := by
  refine ⟨?_, ?_, ?_, ?_⟩
  · simp only [failLower, diffRaw, dCoef, pi]; norm_num
  · intro l hl
    simp only [failLayers, failLower, List.mem_cons, List.mem_nil_iff, or_false] at hl
    rcases hl with h | h <;> rw [h] <;> constructor <;> norm_num
  · simp only [uptakeCore, failLayers, failLower, massDiff, trnsumOf, sumdiffOf, sumFrom, List.map, peOne, pePre, peClamp, massOf, diffOf, diffRaw, dCoef, pi]
    norm_num
  · simp only [uptakeCore, failLayers, failLower, massDiff, trnsumOf, sumdiffOf, sumFrom, List.map, peOne, pePre, peClamp, massOf, diffOf, diffRaw, dCoef, nfixOf, pi]
    norm_num

/-- **N fixation lies in [0, 0.74·max(DTGESN, 0)]** on a valid soil state (it is 0 for a crop that is not a legume). -/
theorem C09_nfix_range (i : UptakeIn ℚ) (hdt : 0 ≤ i.dt) (hdz : 0 < i.dz)
    (hs : ∀ s ∈ i.soil, 0 ≤ s.tp ∧ 0 ≤ s.c1 ∧ 0 < s.wg) :
    0 ≤ (uptakeDay i).core.nfix ∧ (uptakeDay i).core.nfix ≤ 0.74 * max (uptakeDay i).dtgesn 0 := by
  have hsum := C09_sumpe_le_demand i hdt hdz hs
  have h0 := C09_sumpe_nonneg i
  have hn : (uptakeDay i).core.nfix = nfixOf i.legum (uptakeDay i).dtgesn (uptakeDay i).core.sumpe := by
    simp only [uptakeDay, uptakeCore]
  rw [hn]
  by_cases hd : 0 ≤ (uptakeDay i).dtgesn
  · rw [max_eq_left hd] at hsum ⊢
    exact nfixOf_range i.legum _ _ hd hsum
  · -- negative demand: only possible through the root-length cap, which is not applied to legumes
    have hd' : (uptakeDay i).dtgesn < 0 := not_le.mp hd
    rw [max_eq_right (le_of_lt hd')] at hsum ⊢
    have hl : i.legum = false := by
      by_contra hl
      have hl : i.legum = true := by simpa using hl
      have h := (demandClamp_range i.dt (demandRaw i.beet i.active i.gehmax i.obmas i.wumas i.worg3 i.wgmax i.pesum i.dt) hdt).1
      have hc : (uptakeDay i).dtgesn = demandClamp i.dt (demandRaw i.beet i.active i.gehmax i.obmas i.wumas i.worg3 i.wgmax i.pesum i.dt) := by
        simp only [uptakeDay, demandCap, hl]; simp
      linarith
    simp only [nfixOf, hl]
    norm_num

/-- **Crop N after the uptake does not exceed the maximum N content**: PESUM + SUMPE ≤ max(PESUM, GEHMAX·OBMAS +
WUMAS·WGMAX) (for ZR / K the storage organ counts to the root term), 0 ≤ DT ≤ 1, valid soil state. -/
theorem C09_cropN_le_max (i : UptakeIn ℚ) (hdt : 0 ≤ i.dt) (hdt1 : i.dt ≤ 1) (hdz : 0 < i.dz)
    (hs : ∀ s ∈ i.soil, 0 ≤ s.tp ∧ 0 ≤ s.c1 ∧ 0 < s.wg) :
    i.pesum + (uptakeDay i).core.sumpe ≤
      max i.pesum (if i.beet then i.gehmax * i.obmas + (i.wumas + i.worg3) * i.wgmax else i.gehmax * i.obmas + i.wumas * i.wgmax) := by
  have hsum := C09_sumpe_le_demand i hdt hdz hs
  have h := (C09_demand_bounds i hdt).2
  set target := (if i.beet then i.gehmax * i.obmas + (i.wumas + i.worg3) * i.wgmax else i.gehmax * i.obmas + i.wumas * i.wgmax) with ht
  have hraw : demandRaw i.beet i.active i.gehmax i.obmas i.wumas i.worg3 i.wgmax i.pesum i.dt ≤ max ((target - i.pesum) * i.dt) 0 := by
    simp only [demandRaw]
    split_ifs with ha hb
    · rw [ht, if_pos hb]; exact le_max_left _ _
    · rw [ht, if_neg hb]; exact le_max_left _ _
    · exact le_max_right _ _
  have h2 : max (uptakeDay i).dtgesn 0 ≤ max ((target - i.pesum) * i.dt) 0 :=
    max_le (le_trans h (max_le hraw (le_max_right _ _))) (le_max_right _ _)
  have h3 : max ((target - i.pesum) * i.dt) 0 ≤ max (target - i.pesum) 0 := by
    apply max_le _ (le_max_right _ _)
    by_cases hp : 0 ≤ target - i.pesum
    · exact le_trans (by nlinarith) (le_max_left _ _)
    · exact le_trans (by nlinarith [not_le.mp hp]) (le_max_right _ _)
  have h4 : (uptakeDay i).core.sumpe ≤ max (target - i.pesum) 0 := le_trans hsum (le_trans h2 h3)
  rcases max_cases (target - i.pesum) 0 with ⟨hm, _⟩ | ⟨hm, _⟩
  · rw [hm] at h4; exact le_trans (by linarith) (le_max_right _ _)
  · rw [hm] at h4; exact le_trans (by linarith) (le_max_left _ _)

/-! ### non-vacuity -/

/-- a C4 crop at 25 °C, CO2 method 2, on a day with 14 h daylight: the hypotheses `RadiaRange` are satisfiable (the
consequents of the function-range hypotheses hold for the values chosen) -/
def exRadiaIn : RadiaIn ℚ :=
  { dl := 14, dle := 12, dlp := 15, rdn := 40000, drc := 20000000, co2meth := 2, temptyp := 2, co2konz := 360, temp := 25,
    mintmp := 6, maxamax := 50, rad := 8, sund := 0, lai := 2, lured := 1, trrel := 1, dryswell := 0.8, vswellOne := true,
    dt := 1, radsum := 0, parsum := 0, pariOld := 0, worg := [400, 600, 300], mairt := [0.01, 0.03, 0.015], mantOld := [0, 0, 0] }
def exRadiaT : RadiaT ℚ :=
  { pow2co := 3, ktvmax := 1, ktkc := 1, ktko := 1, t2 := 625, t3 := 15625, cosSC := 1/2, sslae := 4/5, logX := 1, logY := 1/2,
    e8 := 1/5, eC := 1/10, eO := 1/10, teff := 1 }

example : RadiaRange exRadiaIn exRadiaT where
  dle := by norm_num [exRadiaIn]
  drc := by norm_num [exRadiaIn]
  lai := by norm_num [exRadiaIn]
  sund := by norm_num [exRadiaIn]
  trrel := by norm_num [exRadiaIn]
  worg := by intro w hw; simp [exRadiaIn] at hw; rcases hw with h | h | h <;> rw [h] <;> norm_num
  mairt := by intro w hw; simp [exRadiaIn] at hw; rcases hw with h | h | h <;> rw [h] <;> norm_num
  co2 := by intro h; simp [exRadiaIn] at h
  sslae := by norm_num [exRadiaT]
  logX := by intro _; norm_num [exRadiaT]
  logY := by intro _; norm_num [exRadiaT]
  e8 := by intro _; norm_num [exRadiaT]
  eC := by intro _; norm_num [exRadiaT]
  eO := by intro _; norm_num [exRadiaT]
  teff := by norm_num [exRadiaT]

/-- … and on it the photosynthesis is really positive and larger than the maintenance (not the 0 = 0 case) -/
example : 0 < (radia exRadiaIn exRadiaT).maint ∧ (radia exRadiaIn exRadiaT).maint < (radia exRadiaIn exRadiaT).gphot := by
  simp only [radia, exRadiaIn, exRadiaT, maint0, gphot0, vswell, isOne, isZero, dtga, fov, clamp01, dgac, dgao, phcl, phol, phch, phoh, phc3, phc4,
    pho3, minMax, miFix, zOf, effe, effOf, amaxOf, amaxRaw, amaxC4, dleOf, maints, mainorg, sumFrom, List.zipWith]
  norm_num

/-- the partial sum theorem is not vacuous: a state with N in every layer, demand 3/1000, uptake > 0 -/
def okLayers : List (ULayer ℚ) :=
  [{ c1 := 50, tp := 1/100, wg := 1/5, ad := 1/500, wrad := 1/100, wudich := 1, ewg := 7, sq := 2 },
   { c1 := 20, tp := 1/100, wg := 1/5, ad := 1/500, wrad := 1/100, wudich := 1, ewg := 7, sq := 2 }]
example : (∀ l ∈ okLayers, LayerOk l) ∧ (uptakeCore false 1 10 (3/1000) 0 0 okLayers).sumpe = 3/1000 := by
  constructor
  · intro l hl
    simp only [okLayers, List.mem_cons, List.mem_nil_iff, or_false] at hl
    rcases hl with h | h <;> rw [h] <;> constructor <;> norm_num
  · simp only [uptakeCore, okLayers, massDiff, trnsumOf, sumdiffOf, sumFrom, List.map, peOne, pePre, peClamp, massOf, diffOf, diffRaw, dCoef, pi]
    norm_num

/-- the hypotheses of the growth balance are satisfiable (two organs, mid-stage) -/
example : ¬ (1 : ℚ) < 100 / 200 ∧ (([0.6, 0.4] : List ℚ).sum = 1) ∧ (([0.25, 0.75] : List ℚ).sum = 1) := by norm_num

/-- the N-content functions: variant 1 late in the season with exp values 1/4 -/
def exNfn : NfnIn ℚ :=
  { ngefkt := 1, wrsg := false, phyllo := 900, obmas := 5000, worg3 := 0, org := 0, rga := 0.045, tendsum := 1400,
    gehminOld := 0, gehmaxOld := 0, tmin := 1/4, tmax := 1/4 }
example : nfn exNfn = ((5.5 * (1/4) / 100.0 : ℚ), (8.1 * (1/4) / 100.0 : ℚ)) := by
  simp [nfn, exNfn]; norm_num

end Hermes.CropDay
