/- Termination of the schedule reader loops (HermesModel/Readers.lean). Core Lean only. -/
import HermesModel.Readers
namespace Hermes.Readers

theorem nextLine_length (l : List Line) : (nextLine l).2.length ≤ l.length := by
  cases l <;> simp [nextLine]

theorem nextLine_length_lt (l : List Line) (h : l ≠ []) : (nextLine l).2.length < l.length := by
  cases l with
  | nil => exact absurd rfl h
  | cons x r => simp [nextLine]

theorem inner_terminates (pkt : Nat) :
    ∀ fuel cur rest acc, rest.length + 1 < fuel →
      ∃ c r a, inner pkt fuel cur rest acc = some (c, r, a) ∧ r.length ≤ rest.length := by
  intro fuel
  induction fuel with
  | zero => intro cur rest acc h; omega
  | succ f ih =>
    intro cur rest acc h
    cases cur with
    | none => exact ⟨none, rest, acc, rfl, Nat.le_refl _⟩
    | some r =>
      simp only [inner]
      by_cases hid : r.id = pkt
      · simp only [hid, if_true]
        cases rest with
        | nil =>
          -- end of file: the next line is invalid, the loop ends with one more step
          cases f with
          | zero => omega
          | succ f' => exact ⟨none, [], acc ++ [r], by simp [nextLine, inner], Nat.le_refl _⟩
        | cons x rest' =>
          obtain ⟨c, r', a, he, hl⟩ := ih x rest' (acc ++ [r]) (by simp at h; omega)
          exact ⟨c, r', a, by simpa [nextLine] using he, by simp; omega⟩
      · simp only [hid, if_false]
        exact ⟨some r, rest, acc, rfl, Nat.le_refl _⟩

theorem outer_terminates (pkt : Nat) :
    ∀ fuel cur rest acc, rest.length + 2 < fuel → outer pkt fuel cur rest acc ≠ none := by
  intro fuel
  induction fuel with
  | zero => intro cur rest acc h; omega
  | succ f ih =>
    intro cur rest acc h
    cases cur with
    | none => simp [outer]
    | some r =>
      simp only [outer]
      obtain ⟨c, r', a, he, hl⟩ := inner_terminates pkt f (some r) rest acc (by omega)
      rw [he]
      simp only
      cases r' with
      | nil =>
        cases f with
        | zero => omega
        | succ f' => simp [nextLine, outer]
      | cons x r'' =>
        apply ih
        simp [nextLine] at hl ⊢
        omega

end Hermes.Readers
