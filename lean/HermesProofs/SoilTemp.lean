/-
Lemmas about the soil-temperature model over ℚ (exact arithmetic): the explicit sub-step is a
convex combination of the three neighbouring old values when the diffusion number lies in [0, 1/2];
consequently the sub-step, the 24-sub-step day with its daily mean and any run of days map profiles
inside an interval [lo, hi] (containing the surface values and the base temperature) to profiles
inside the same interval — a discrete maximum principle for lists of arbitrary length.
The diffusion number is in [0, 1/2] for the admissible ranges of density, humus and water content.
-/
import HermesProofs.RatInst
import HermesModel.SoilTemp
import Mathlib.Tactic.Linarith
import Mathlib.Tactic.Ring
import Mathlib.Tactic.FieldSimp
import Mathlib.Tactic.NormNum
import Mathlib.Tactic.Positivity

namespace Hermes.SoilTemp

/-- every entry of the list lies in [lo, hi] -/
def Within (lo hi : ℚ) (l : List ℚ) : Prop := ∀ x ∈ l, lo ≤ x ∧ x ≤ hi

/-- every entry of the list lies in [k·lo, k·hi] (sums of k values from [lo, hi]) -/
def SumsIn (k : ℕ) (lo hi : ℚ) (l : List ℚ) : Prop := ∀ x ∈ l, (k : ℚ) * lo ≤ x ∧ x ≤ (k : ℚ) * hi

/-- the diffusion numbers of all the given alphas lie in [0, 1/2] -/
def Stable (dt dz2 : ℚ) (as : List ℚ) : Prop :=
  ∀ a ∈ as, 0 ≤ diffNum a dt dz2 ∧ diffNum a dt dz2 ≤ 1 / 2

theorem within_nil (lo hi : ℚ) : Within lo hi [] := by intro x hx; simp at hx

theorem within_cons {lo hi x : ℚ} {l : List ℚ} (hx1 : lo ≤ x) (hx2 : x ≤ hi) (hl : Within lo hi l) :
    Within lo hi (x :: l) := by
  intro y hy
  rcases List.mem_cons.mp hy with h | h
  · subst h; exact ⟨hx1, hx2⟩
  · exact hl y h

theorem within_tail {lo hi x : ℚ} {l : List ℚ} (h : Within lo hi (x :: l)) : Within lo hi l :=
  fun y hy => h y (List.mem_cons_of_mem _ hy)

theorem within_head {lo hi x : ℚ} {l : List ℚ} (h : Within lo hi (x :: l)) : lo ≤ x ∧ x ≤ hi :=
  h x (by simp)

theorem within_append {lo hi : ℚ} {l m : List ℚ} (hl : Within lo hi l) (hm : Within lo hi m) :
    Within lo hi (l ++ m) := by
  intro y hy
  rcases List.mem_append.mp hy with h | h
  · exact hl y h
  · exact hm y h

theorem within_mono {lo hi lo' hi' : ℚ} {l : List ℚ} (h : Within lo hi l) (h1 : lo' ≤ lo) (h2 : hi ≤ hi') :
    Within lo' hi' l := fun x hx => ⟨le_trans h1 (h x hx).1, le_trans (h x hx).2 h2⟩

/-- the new node value as a weighted mean with weights `1 − 2r, r, r` -/
theorem node_eq (a dt dz2 tm t tp : ℚ) :
    node a dt dz2 tm t tp
      = (1 - 2 * diffNum a dt dz2) * t + diffNum a dt dz2 * tp + diffNum a dt dz2 * tm := by
  unfold node diffNum; ring

/-- **Convexity of one node update**: with 0 ≤ r ≤ 1/2 the new value lies between the smallest and
the largest of the three old neighbour values. -/
theorem node_convex (a dt dz2 tm t tp lo hi : ℚ)
    (hr0 : 0 ≤ diffNum a dt dz2) (hr1 : diffNum a dt dz2 ≤ 1 / 2)
    (h1 : lo ≤ tm) (h2 : tm ≤ hi) (h3 : lo ≤ t) (h4 : t ≤ hi) (h5 : lo ≤ tp) (h6 : tp ≤ hi) :
    lo ≤ node a dt dz2 tm t tp ∧ node a dt dz2 tm t tp ≤ hi := by
  rw [node_eq]
  generalize diffNum a dt dz2 = r at *
  have hw : 0 ≤ 1 - 2 * r := by linarith
  constructor
  · nlinarith [mul_nonneg hw (sub_nonneg.mpr h3), mul_nonneg hr0 (sub_nonneg.mpr h5),
      mul_nonneg hr0 (sub_nonneg.mpr h1)]
  · nlinarith [mul_nonneg hw (sub_nonneg.mpr h4), mul_nonneg hr0 (sub_nonneg.mpr h6),
      mul_nonneg hr0 (sub_nonneg.mpr h2)]

/-- the loop over the interior nodes keeps every value inside [lo, hi] -/
theorem interior_within (dt dz2 lo hi : ℚ) :
    ∀ (ts : List ℚ) (tm : ℚ) (as : List ℚ), Stable dt dz2 as → lo ≤ tm → tm ≤ hi →
      Within lo hi ts → Within lo hi (interior dt dz2 tm ts as) := by
  intro ts
  induction ts with
  | nil => intro tm as _ _ _ _; simp [interior]; exact within_nil lo hi
  | cons t rest ih =>
    intro tm as hst h1 h2 hw
    cases rest with
    | nil => simp [interior]; exact within_nil lo hi
    | cons tp rest' =>
      cases as with
      | nil => simp [interior]; exact within_nil lo hi
      | cons a as' =>
        simp only [interior]
        have ht := within_head hw
        have htp := within_head (within_tail hw)
        have ha := hst a (by simp)
        have hn := node_convex a dt dz2 tm t tp lo hi ha.1 ha.2 h1 h2 ht.1 ht.2 htp.1 htp.2
        apply within_cons hn.1 hn.2
        exact ih t as' (fun b hb => hst b (List.mem_cons_of_mem _ hb)) ht.1 ht.2 (within_tail hw)

theorem interiorOf_within (dt dz2 lo hi : ℚ) (as ts : List ℚ) (hst : Stable dt dz2 as)
    (hw : Within lo hi ts) : Within lo hi (interiorOf dt dz2 as ts) := by
  cases ts with
  | nil => simp [interiorOf]; exact within_nil lo hi
  | cons t0 rest =>
    simp only [interiorOf]
    exact interior_within dt dz2 lo hi rest t0 as hst (within_head hw).1 (within_head hw).2 (within_tail hw)

theorem addTo_sums (lo hi : ℚ) (k : ℕ) :
    ∀ (ss vs : List ℚ), SumsIn k lo hi ss → Within lo hi vs → SumsIn (k + 1) lo hi (addTo ss vs) := by
  intro ss
  induction ss with
  | nil => intro vs _ _ x hx; simp [addTo] at hx
  | cons s ss' ih =>
    intro vs hs hv
    cases vs with
    | nil => intro x hx; simp [addTo] at hx
    | cons v vs' =>
      intro x hx
      simp only [addTo] at hx
      rcases List.mem_cons.mp hx with h | h
      · subst h
        have h1 := hs s (by simp)
        have h2 := hv v (by simp)
        push_cast
        constructor <;> nlinarith [h1.1, h1.2, h2.1, h2.2]
      · exact ih vs' (fun y hy => hs y (List.mem_cons_of_mem _ hy))
          (fun y hy => hv y (List.mem_cons_of_mem _ hy)) x h

/-- **One sub-step** (soiltemp.go:52-60): the new profile lies in [lo, hi] when the old one, the
surface value and the base temperature do. -/
theorem substep_within (dt dz2 surf tbase lo hi : ℚ) (as ts : List ℚ) (hst : Stable dt dz2 as)
    (hs1 : lo ≤ surf) (hs2 : surf ≤ hi) (hb1 : lo ≤ tbase) (hb2 : tbase ≤ hi) (hw : Within lo hi ts) :
    Within lo hi (surf :: (interiorOf dt dz2 as ts ++ [tbase])) := by
  apply within_cons hs1 hs2
  apply within_append (interiorOf_within dt dz2 lo hi as ts hst hw)
  exact within_cons hb1 hb2 (within_nil lo hi)

/-- any number of sub-steps: profile inside [lo, hi], sums of k more values inside [(n+k)·lo, (n+k)·hi] -/
theorem steps_within (dt dz2 surf tbase lo hi : ℚ) (as : List ℚ) (hst : Stable dt dz2 as)
    (hs1 : lo ≤ surf) (hs2 : surf ≤ hi) (hb1 : lo ≤ tbase) (hb2 : tbase ≤ hi) :
    ∀ (k n : ℕ) (ts sums : List ℚ), Within lo hi ts → SumsIn n lo hi sums →
      Within lo hi (steps dt dz2 surf tbase as k ts sums).1 ∧
      SumsIn (n + k) lo hi (steps dt dz2 surf tbase as k ts sums).2 := by
  intro k
  induction k with
  | zero => intro n ts sums hw hs; simpa [steps] using ⟨hw, hs⟩
  | succ k ih =>
    intro n ts sums hw hs
    simp only [steps]
    have h1 := substep_within dt dz2 surf tbase lo hi as ts hst hs1 hs2 hb1 hb2 hw
    have h2 := addTo_sums lo hi n sums (interiorOf dt dz2 as ts) hs (interiorOf_within dt dz2 lo hi as ts hst hw)
    have := ih (n + 1) _ _ h1 h2
    have e : n + 1 + k = n + (k + 1) := by omega
    rw [e] at this
    exact this

theorem setLast_within (lo hi b : ℚ) (hb1 : lo ≤ b) (hb2 : b ≤ hi) :
    ∀ ts : List ℚ, Within lo hi ts → Within lo hi (setLast b ts) := by
  intro ts
  induction ts with
  | nil => intro h; simpa [setLast] using h
  | cons x rest ih =>
    intro h
    cases rest with
    | nil => simp only [setLast]; exact within_cons hb1 hb2 (within_nil lo hi)
    | cons y r =>
      simp only [setLast]
      exact within_cons (within_head h).1 (within_head h).2 (ih (within_tail h))

theorem sumsIn_zero_map {β : Type} (lo hi : ℚ) (l : List β) :
    SumsIn 0 lo hi (l.map (fun _ => (0 : ℚ))) := by
  intro x hx
  obtain ⟨_, _, rfl⟩ := List.mem_map.mp hx
  simp

/-- the daily means `TD[0..N]` lie in [lo, hi] -/
theorem tdOf_within (lo hi surf tbase : ℚ) (sums : List ℚ) (hs1 : lo ≤ surf) (hs2 : surf ≤ hi)
    (hb1 : lo ≤ tbase) (hb2 : tbase ≤ hi) (h : SumsIn 24 lo hi sums) :
    Within lo hi (tdOf surf tbase sums) := by
  unfold tdOf
  apply within_cons hs1 hs2
  apply within_append
  · intro x hx
    obtain ⟨s, hs, rfl⟩ := List.mem_map.mp hx
    have := h s hs
    push_cast at this
    constructor
    · rw [le_div_iff₀ (by norm_num)]; linarith [this.1]
    · rw [div_le_iff₀ (by norm_num)]; linarith [this.2]
  · exact within_cons hb1 hb2 (within_nil lo hi)

/-- the alphas of a day -/
def alphas (i : DayIn ℚ) : List ℚ := i.layers.map (alpha i.dt)

/-- **Maximum principle for a whole day**, for any number of layers: if the diffusion numbers of
all layers lie in [0, 1/2], every `TD` value of the day lies in any interval that contains the
profile at the start of the day (including yesterday's surface value `TSOIL[0][0]`), today's
surface value and the base temperature. -/
theorem day_within (i : DayIn ℚ) (tsoil : List ℚ) (lo hi : ℚ)
    (hst : Stable i.dt (i.dz * i.dz) (alphas i))
    (hb1 : lo ≤ i.tbase) (hb2 : i.tbase ≤ hi) (hw : Within lo hi tsoil)
    (hs1 : lo ≤ (day i tsoil).surf) (hs2 : (day i tsoil).surf ≤ hi) :
    Within lo hi (day i tsoil).td := by
  simp only [day] at hs1 hs2 ⊢
  apply tdOf_within lo hi _ _ _ hs1 hs2 hb1 hb2
  unfold daySteps
  have h := steps_within i.dt (i.dz * i.dz) _ i.tbase lo hi (i.layers.map (alpha i.dt)) hst hs1 hs2 hb1 hb2
    24 0 (setLast i.tbase tsoil) ((i.layers.drop 1).map (fun _ => (0 : ℚ)))
    (setLast_within lo hi i.tbase hb1 hb2 tsoil hw) (sumsIn_zero_map lo hi _)
  simpa using h.2

/-- the profile after the 24 sub-steps (hour 24, before the mean is fed back) lies in [lo, hi] too -/
theorem daySteps_within (i : DayIn ℚ) (tsoil : List ℚ) (surf lo hi : ℚ)
    (hst : Stable i.dt (i.dz * i.dz) (alphas i))
    (hb1 : lo ≤ i.tbase) (hb2 : i.tbase ≤ hi) (hw : Within lo hi tsoil)
    (hs1 : lo ≤ surf) (hs2 : surf ≤ hi) :
    Within lo hi (daySteps i surf tsoil).1 := by
  unfold daySteps
  exact (steps_within i.dt (i.dz * i.dz) surf i.tbase lo hi (i.layers.map (alpha i.dt)) hst hs1 hs2 hb1 hb2
    24 0 (setLast i.tbase tsoil) ((i.layers.drop 1).map (fun _ => (0 : ℚ)))
    (setLast_within lo hi i.tbase hb1 hb2 tsoil hw) (sumsIn_zero_map lo hi _)).1

/-- the profile fed back to the next day is the `TD` profile -/
theorem day_tsoil_eq_td (i : DayIn ℚ) (tsoil : List ℚ) : (day i tsoil).tsoil = (day i tsoil).td := rfl

theorem day_td_head (i : DayIn ℚ) (tsoil : List ℚ) :
    ∃ rest, (day i tsoil).td = (day i tsoil).surf :: rest := by
  simp only [day, tdOf]; exact ⟨_, rfl⟩

/-- **Maximum principle for a run of days** (induction over the days): every `TD` profile lies in
any interval containing the initial profile, every surface value imposed during the run and the base
temperatures. -/
theorem run_within (lo hi : ℚ) :
    ∀ (days : List (DayIn ℚ)) (tsoil : List ℚ), Within lo hi tsoil →
      (∀ d ∈ days, Stable d.dt (d.dz * d.dz) (alphas d) ∧ lo ≤ d.tbase ∧ d.tbase ≤ hi) →
      (∀ s ∈ surfaces days tsoil, lo ≤ s ∧ s ≤ hi) →
      ∀ td ∈ run days tsoil, Within lo hi td := by
  intro days
  induction days with
  | nil => intro tsoil _ _ _ td htd; simp [run] at htd
  | cons i rest ih =>
    intro tsoil hw hd hs td htd
    have hi' := hd i (by simp)
    have hsurf := hs (day i tsoil).surf (by simp [surfaces])
    have h1 := day_within i tsoil lo hi hi'.1 hi'.2.1 hi'.2.2 hw hsurf.1 hsurf.2
    simp only [run, day_tsoil_eq_td] at htd
    rcases List.mem_cons.mp htd with h | h
    · subst h; exact h1
    · exact ih (day i tsoil).td h1 (fun d hdm => hd d (List.mem_cons_of_mem _ hdm))
        (fun s hsm => hs s (by simp only [surfaces, day_tsoil_eq_td]; exact List.mem_cons_of_mem _ hsm)) td h

/-! ### the surface formula -/

/-- soiltemp.go:41-45 is a convex combination of TMIN, TMAX and yesterday's surface value as long
as the radiation coefficient `sq = sqrt(0.0003·radiat)` is at most 1. -/
theorem surface_within (radiat sq tmin tmax told lo hi : ℚ)
    (hsq : 833 < radiat → 0 ≤ sq ∧ sq ≤ 1)
    (h1 : lo ≤ tmin) (h2 : tmin ≤ hi) (h3 : lo ≤ tmax) (h4 : tmax ≤ hi) (h5 : lo ≤ told) (h6 : told ≤ hi) :
    lo ≤ surface radiat sq tmin tmax told ∧ surface radiat sq tmin tmax told ≤ hi := by
  unfold surface
  split
  · rename_i h
    obtain ⟨q0, q1⟩ := hsq h
    have hq : 0 ≤ 1 - sq := by linarith
    constructor
    · nlinarith [mul_nonneg hq (sub_nonneg.mpr h1), mul_nonneg q0 (sub_nonneg.mpr h3)]
    · nlinarith [mul_nonneg hq (sub_nonneg.mpr h2), mul_nonneg q0 (sub_nonneg.mpr h4)]
  · constructor
    · rw [le_div_iff₀ (by norm_num)]; linarith
    · rw [div_le_iff₀ (by norm_num)]; linarith

/-- the radiation coefficient is at most 1 exactly while `0.0003·radiat ≤ 1` -/
theorem sq_le_one (radiat sq : ℚ) (h0 : 0 ≤ sq) (hsq : sq * sq = 0.0003 * radiat) (hr : 0.0003 * radiat ≤ 1) :
    sq ≤ 1 := by
  by_contra h
  have h' : 1 < sq := not_le.mp h
  nlinarith

/-- beyond that, the overshoot over the weighted mean of TMAX and yesterday's value is exactly
`0.69·(TMAX − TMIN)·(sq − 1)` -/
theorem surface_overshoot_eq (radiat sq tmin tmax told : ℚ) (h : 833 < radiat) :
    surface radiat sq tmin tmax told
      = (1 - 0.31) * tmax + 0.31 * told + (1 - 0.31) * ((tmax - tmin) * (sq - 1)) := by
  unfold surface
  rw [if_pos h]; ring

/-! ### the diffusion number for admissible layers -/

theorem heatCap_lower (wg bd hum : ℚ) (hwg : 0 ≤ wg) (hh : 0 ≤ hum) (hbd : bd ≤ 2.65) :
    0.18 * 4.189 * bd ≤ heatCap wg bd hum := by
  unfold heatCap
  norm_num at hbd ⊢
  nlinarith

theorem heatCond_nonneg (bd e : ℚ) (h1 : 1.7 ≤ 3 * bd) (h2 : bd ≤ 2.3) (he : 0 ≤ e) :
    0 ≤ heatCond bd e 1 := by
  unfold heatCond
  have hD : (0 : ℚ) < 1.0 + (11.5 - 5.0 * bd) * e := by
    have : 0 ≤ (11.5 - 5.0 * bd) * e := mul_nonneg (by norm_num at h2 ⊢; linarith) he
    norm_num at this ⊢; linarith
  have hA : (0 : ℚ) ≤ (3 * bd - 1.7) * 0.001 := by norm_num at h1 ⊢; linarith
  positivity

/-- **The diffusion number of an admissible layer lies in [0, 1/2]** (DT = 1 d, DZ = 10 cm):
density between 1.7/3 ≈ 0.567 and 2.3 g/cm³, water content and humus fraction non-negative, the
exponential factor non-negative (it is in (0, 1]).  The bound actually proved is the sharper
`r ≤ 3/5 − 17/(50·BD)` (0.416 at the densest class 1.85, 0.452 at 2.3). -/
theorem diffNum_bound (l : Layer ℚ) (h1 : 1.7 ≤ 3 * l.bd) (h2 : l.bd ≤ 2.3) (hwg : 0 ≤ l.wg)
    (hh : 0 ≤ l.hum) (he : 0 ≤ l.e) :
    0 ≤ diffNum (alpha 1 l) 1 (10 * 10) ∧ diffNum (alpha 1 l) 1 (10 * 10) ≤ 3 / 5 - 17 / (50 * l.bd) := by
  have hbd : (0 : ℚ) < l.bd := by norm_num at h1; linarith
  have hC := heatCap_lower l.wg l.bd l.hum hwg hh (by norm_num at h2 ⊢; linarith)
  have hCpos : 0 < heatCap l.wg l.bd l.hum := by
    have : (0 : ℚ) < 0.18 * 4.189 * l.bd := by positivity
    linarith
  have hN := heatCond_nonneg l.bd l.e h1 h2 he
  have hD : (1 : ℚ) ≤ 1.0 + (11.5 - 5.0 * l.bd) * l.e := by
    have : 0 ≤ (11.5 - 5.0 * l.bd) * l.e := mul_nonneg (by norm_num at h2 ⊢; linarith) he
    norm_num at this ⊢; linarith
  have hA : (0 : ℚ) ≤ (3 * l.bd - 1.7) * 0.001 := by norm_num at h1 ⊢; linarith
  unfold diffNum alpha
  constructor
  · positivity
  · -- cond ≤ (3bd − 1.7)·0.001·86400·4.189 because the denominator is ≥ 1
    have hcond : heatCond l.bd l.e 1 ≤ (3 * l.bd - 1.7) * 0.001 * 86400 * 4.189 := by
      unfold heatCond
      have : (3 * l.bd - 1.7) * 0.001 / (1.0 + (11.5 - 5.0 * l.bd) * l.e) ≤ (3 * l.bd - 1.7) * 0.001 :=
        div_le_self hA hD
      nlinarith
    have hq : heatCond l.bd l.e 1 / heatCap l.wg l.bd l.hum
        ≤ ((3 * l.bd - 1.7) * 0.001 * 86400 * 4.189) / (0.18 * 4.189 * l.bd) := by
      apply div_le_div₀ _ hcond (by positivity) hC
      norm_num at h1 ⊢; nlinarith
    have hrw : ((3 * l.bd - 1.7) * 0.001 * 86400 * 4.189) / (0.18 * 4.189 * l.bd) * 1 / 24 / (10 * 10)
        = 3 / 5 - 17 / (50 * l.bd) := by
      field_simp
      ring
    rw [← hrw]
    have : heatCond l.bd l.e 1 / heatCap l.wg l.bd l.hum * 1 / 24 / (10 * 10)
        = heatCond l.bd l.e 1 / heatCap l.wg l.bd l.hum * (1 / 2400) := by ring
    rw [this]
    have : (3 * l.bd - 1.7) * 0.001 * 86400 * 4.189 / (0.18 * 4.189 * l.bd) * 1 / 24 / (10 * 10)
        = (3 * l.bd - 1.7) * 0.001 * 86400 * 4.189 / (0.18 * 4.189 * l.bd) * (1 / 2400) := by ring
    rw [this]
    exact mul_le_mul_of_nonneg_right hq (by norm_num)

theorem diffNum_le_half (l : Layer ℚ) (h1 : 1.7 ≤ 3 * l.bd) (h2 : l.bd ≤ 2.3) (hwg : 0 ≤ l.wg)
    (hh : 0 ≤ l.hum) (he : 0 ≤ l.e) :
    0 ≤ diffNum (alpha 1 l) 1 (10 * 10) ∧ diffNum (alpha 1 l) 1 (10 * 10) ≤ 1 / 2 := by
  have hbd : (0 : ℚ) < l.bd := by norm_num at h1; linarith
  obtain ⟨a, b⟩ := diffNum_bound l h1 h2 hwg hh he
  refine ⟨a, le_trans b ?_⟩
  have : (17 : ℚ) / (50 * l.bd) ≥ 17 / (50 * 2.3) := by
    apply div_le_div_of_nonneg_left (by norm_num) (by positivity)
    norm_num at h2 ⊢; linarith
  norm_num at this ⊢
  linarith

/-! ### admissible days and runs -/

/-- A layer is admissible when its bulk density is a class density (1.1 … 1.85) or a measured value
in [1.7/3, 2.3] g/cm³ (every mineral soil; see HermesProps/C19.lean for the justification), water
content and humus fraction are non-negative and the supplied exponential factor is in (0, 1]. -/
def AdmLayer (l : Layer ℚ) : Prop :=
  1.7 ≤ 3 * l.bd ∧ l.bd ≤ 2.3 ∧ 0 ≤ l.wg ∧ 0 ≤ l.hum ∧ 0 < l.e ∧ l.e ≤ 1

/-- a day as the simulator runs it: DT = 1, DZ = 10, every layer admissible -/
def AdmDay (i : DayIn ℚ) : Prop := i.dt = 1 ∧ i.dz = 10 ∧ ∀ l ∈ i.layers, AdmLayer l

theorem admDay_stable (i : DayIn ℚ) (h : AdmDay i) : Stable i.dt (i.dz * i.dz) (alphas i) := by
  obtain ⟨h1, h2, h3⟩ := h
  intro a ha
  unfold alphas at ha
  obtain ⟨l, hl, rfl⟩ := List.mem_map.mp ha
  obtain ⟨a1, a2, a3, a4, a5, _⟩ := h3 l hl
  rw [h1, h2]
  exact diffNum_le_half l a1 a2 a3 a4 (le_of_lt a5)

/-- the surface value of a day lies in [lo, hi] when TMIN, TMAX and yesterday's surface value do
and the radiation coefficient is at most 1 -/
theorem day_surf_within (i : DayIn ℚ) (t : ℚ) (rest : List ℚ) (lo hi : ℚ)
    (hsq : 833 < radiat i.lai i.expNegLai i.rad i.eta i.temp → 0 ≤ i.sq ∧ i.sq ≤ 1)
    (h1 : lo ≤ i.tmin) (h2 : i.tmin ≤ hi) (h3 : lo ≤ i.tmax) (h4 : i.tmax ≤ hi) (h5 : lo ≤ t) (h6 : t ≤ hi) :
    lo ≤ (day i (t :: rest)).surf ∧ (day i (t :: rest)).surf ≤ hi := by
  simp only [day, surfOf]
  exact surface_within _ _ _ _ _ lo hi hsq h1 h2 h3 h4 h5 h6

/-- what a day without radiation overshoot must satisfy relative to the interval [lo, hi] -/
def AirDay (lo hi : ℚ) (i : DayIn ℚ) : Prop :=
  lo ≤ i.tbase ∧ i.tbase ≤ hi ∧ lo ≤ i.tmin ∧ i.tmin ≤ hi ∧ lo ≤ i.tmax ∧ i.tmax ≤ hi ∧
  (833 < radiat i.lai i.expNegLai i.rad i.eta i.temp → 0 ≤ i.sq ∧ i.sq ≤ 1)

/-- **Run of days, stated on the inputs only**: with stable layers and no radiation overshoot every
`TD` value of every day lies in any interval containing the initial profile, the base temperature and
the air-temperature extremes of the days so far. -/
theorem run_within_air (lo hi : ℚ) :
    ∀ (days : List (DayIn ℚ)) (tsoil : List ℚ), tsoil ≠ [] → Within lo hi tsoil →
      (∀ d ∈ days, Stable d.dt (d.dz * d.dz) (alphas d) ∧ AirDay lo hi d) →
      ∀ td ∈ run days tsoil, Within lo hi td := by
  intro days
  induction days with
  | nil => intro tsoil _ _ _ td htd; simp [run] at htd
  | cons i rest ih =>
    intro tsoil hne hw hd td htd
    obtain ⟨hst, b1, b2, m1, m2, x1, x2, hsq⟩ := hd i (by simp)
    cases tsoil with
    | nil => exact absurd rfl hne
    | cons t ts =>
      have ht := within_head hw
      have hsurf := day_surf_within i t ts lo hi hsq m1 m2 x1 x2 ht.1 ht.2
      have h1 := day_within i (t :: ts) lo hi hst b1 b2 hw hsurf.1 hsurf.2
      simp only [run, day_tsoil_eq_td] at htd
      rcases List.mem_cons.mp htd with h | h
      · subst h; exact h1
      · obtain ⟨r, hr⟩ := day_td_head i (t :: ts)
        exact ih (day i (t :: ts)).td (by rw [hr]; simp) h1
          (fun d hdm => hd d (List.mem_cons_of_mem _ hdm)) td h

/-! ### instability outside the range: closed form for one computed node between zero boundaries -/

/-- With surface value and base temperature 0 and a single computed node, `k` sub-steps multiply the
node by `(1 − 2r)^k`; with `r < 0` (negative conductivity) or `r > 1` the node grows in magnitude.
Here: for `1 − 2r ≥ q > 1` and a positive start value the node and the accumulated sum grow. -/
theorem steps_single_growth (dt dz2 a a' : ℚ) (q : ℚ) (hq : 1 ≤ q)
    (hr : q ≤ 1 - 2 * diffNum a dt dz2) :
    ∀ (k : ℕ) (y s : ℚ), 0 ≤ y →
      ∃ y' s', steps dt dz2 0 0 [a, a'] k [0, y, 0] [s] = ([0, y', 0], [s']) ∧
        q ^ k * y ≤ y' ∧ s + (k : ℚ) * (q * y) ≤ s' := by
  intro k
  induction k with
  | zero => intro y s _; exact ⟨y, s, by simp [steps], by simp, by simp⟩
  | succ k ih =>
    intro y s hy
    have hnode : node a dt dz2 0 y 0 = (1 - 2 * diffNum a dt dz2) * y := by
      rw [node_eq]; ring
    have hy1 : q * y ≤ node a dt dz2 0 y 0 := by
      rw [hnode]; exact mul_le_mul_of_nonneg_right hr hy
    have hy1' : 0 ≤ node a dt dz2 0 y 0 := le_trans (by positivity) hy1
    obtain ⟨y', s', e, b1, b2⟩ := ih (node a dt dz2 0 y 0) (s + node a dt dz2 0 y 0) hy1'
    refine ⟨y', s', ?_, ?_, ?_⟩
    · simp only [steps, interiorOf, interior, addTo, List.cons_append, List.nil_append]
      exact e
    · have : q ^ (k + 1) * y = q ^ k * (q * y) := by ring
      rw [this]
      exact le_trans (mul_le_mul_of_nonneg_left hy1 (by positivity)) b1
    · have hqy : q * y ≤ q * node a dt dz2 0 y 0 := by
        apply mul_le_mul_of_nonneg_left _ (by linarith)
        nlinarith
      push_cast
      nlinarith

/-! ### monotonicity (comparison principle): the scheme is order preserving, hence cannot create
oscillations — a warmer start, surface or base never gives a colder result anywhere -/

/-- pointwise `≤` of two lists of the same length -/
def LeL : List ℚ → List ℚ → Prop
  | [], [] => True
  | x :: xs, y :: ys => x ≤ y ∧ LeL xs ys
  | _, _ => False

theorem leL_cons {x y : ℚ} {xs ys : List ℚ} : LeL (x :: xs) (y :: ys) ↔ x ≤ y ∧ LeL xs ys := Iff.rfl

theorem node_mono (a dt dz2 tm t tp tm' t' tp' : ℚ)
    (hr0 : 0 ≤ diffNum a dt dz2) (hr1 : diffNum a dt dz2 ≤ 1 / 2)
    (h1 : tm ≤ tm') (h2 : t ≤ t') (h3 : tp ≤ tp') :
    node a dt dz2 tm t tp ≤ node a dt dz2 tm' t' tp' := by
  rw [node_eq, node_eq]
  generalize diffNum a dt dz2 = r at *
  have hw : 0 ≤ 1 - 2 * r := by linarith
  nlinarith [mul_nonneg hw (sub_nonneg.mpr h2), mul_nonneg hr0 (sub_nonneg.mpr h3),
    mul_nonneg hr0 (sub_nonneg.mpr h1)]

theorem interior_mono (dt dz2 : ℚ) :
    ∀ (ts ts' : List ℚ) (tm tm' : ℚ) (as : List ℚ), Stable dt dz2 as → tm ≤ tm' → LeL ts ts' →
      LeL (interior dt dz2 tm ts as) (interior dt dz2 tm' ts' as) := by
  intro ts
  induction ts with
  | nil =>
    intro ts' tm tm' as _ _ h
    cases ts' with
    | nil => simp [interior, LeL]
    | cons _ _ => simp [LeL] at h
  | cons t rest ih =>
    intro ts' tm tm' as hst hm h
    cases ts' with
    | nil => simp [LeL] at h
    | cons t' rest' =>
      obtain ⟨ht, hrest⟩ := h
      cases rest with
      | nil =>
        cases rest' with
        | nil => simp [interior, LeL]
        | cons _ _ => simp [LeL] at hrest
      | cons tp r =>
        cases rest' with
        | nil => simp [LeL] at hrest
        | cons tp' r' =>
          cases as with
          | nil => simp [interior, LeL]
          | cons a as' =>
            simp only [interior, LeL]
            have ha := hst a (by simp)
            exact ⟨node_mono a dt dz2 tm t tp tm' t' tp' ha.1 ha.2 hm ht hrest.1,
              ih (tp' :: r') t t' as' (fun b hb => hst b (List.mem_cons_of_mem _ hb)) ht hrest⟩

theorem interiorOf_mono (dt dz2 : ℚ) (as ts ts' : List ℚ) (hst : Stable dt dz2 as) (h : LeL ts ts') :
    LeL (interiorOf dt dz2 as ts) (interiorOf dt dz2 as ts') := by
  cases ts with
  | nil =>
    cases ts' with
    | nil => simp [interiorOf, LeL]
    | cons _ _ => simp [LeL] at h
  | cons t rest =>
    cases ts' with
    | nil => simp [LeL] at h
    | cons t' rest' =>
      simp only [interiorOf]
      exact interior_mono dt dz2 rest rest' t t' as hst h.1 h.2

theorem leL_append : ∀ (a a' b b' : List ℚ), LeL a a' → LeL b b' → LeL (a ++ b) (a' ++ b') := by
  intro a
  induction a with
  | nil =>
    intro a' b b' h hb
    cases a' with
    | nil => simpa using hb
    | cons _ _ => simp [LeL] at h
  | cons x xs ih =>
    intro a' b b' h hb
    cases a' with
    | nil => simp [LeL] at h
    | cons y ys => exact ⟨h.1, ih ys b b' h.2 hb⟩

theorem addTo_mono : ∀ (s s' v v' : List ℚ), LeL s s' → LeL v v' → LeL (addTo s v) (addTo s' v') := by
  intro s
  induction s with
  | nil =>
    intro s' v v' h _
    cases s' with
    | nil => simp [addTo, LeL]
    | cons _ _ => simp [LeL] at h
  | cons x xs ih =>
    intro s' v v' h hv
    cases s' with
    | nil => simp [LeL] at h
    | cons x' xs' =>
      cases v with
      | nil =>
        cases v' with
        | nil => simp [addTo, LeL]
        | cons _ _ => simp [LeL] at hv
      | cons y ys =>
        cases v' with
        | nil => simp [LeL] at hv
        | cons y' ys' =>
          simp only [addTo, LeL]
          exact ⟨add_le_add h.1 hv.1, ih xs' ys ys' h.2 hv.2⟩

theorem setLast_mono (b b' : ℚ) (hb : b ≤ b') :
    ∀ (ts ts' : List ℚ), LeL ts ts' → LeL (setLast b ts) (setLast b' ts') := by
  intro ts
  induction ts with
  | nil =>
    intro ts' h
    cases ts' with
    | nil => simp [setLast, LeL]
    | cons _ _ => simp [LeL] at h
  | cons x rest ih =>
    intro ts' h
    cases ts' with
    | nil => simp [LeL] at h
    | cons x' rest' =>
      cases rest with
      | nil =>
        cases rest' with
        | nil => simp only [setLast, LeL]; exact ⟨hb, trivial⟩
        | cons _ _ => simp [LeL] at h
      | cons y r =>
        cases rest' with
        | nil => simp [LeL] at h
        | cons y' r' =>
          simp only [setLast]
          exact ⟨h.1, ih (y' :: r') h.2⟩

theorem leL_map_div (c : ℚ) (hc : 0 < c) :
    ∀ (s s' : List ℚ), LeL s s' → LeL (s.map (fun x => x / c)) (s'.map (fun x => x / c)) := by
  intro s
  induction s with
  | nil =>
    intro s' h
    cases s' with
    | nil => simp [LeL]
    | cons _ _ => simp [LeL] at h
  | cons x xs ih =>
    intro s' h
    cases s' with
    | nil => simp [LeL] at h
    | cons y ys =>
      simp only [List.map, LeL]
      exact ⟨div_le_div_of_nonneg_right h.1 (le_of_lt hc), ih ys h.2⟩

theorem leL_refl : ∀ l : List ℚ, LeL l l := by
  intro l
  induction l with
  | nil => trivial
  | cons x xs ih => exact ⟨le_refl x, ih⟩

theorem leL_nil : LeL [] [] := trivial

theorem leL_single {x y : ℚ} (h : x ≤ y) : LeL [x] [y] := ⟨h, trivial⟩

-- from here on `LeL` is used through `leL_cons` / `leL_nil` / `leL_append` only; keeping it opaque
-- stops the elaborator from unfolding the 24 sub-steps when it looks at `LeL (steps … 24 …) …`
attribute [irreducible] LeL

theorem steps_mono (dt dz2 surf surf' tbase tbase' : ℚ) (as : List ℚ) (hst : Stable dt dz2 as)
    (hs : surf ≤ surf') (hb : tbase ≤ tbase') :
    ∀ (k : ℕ) (ts ts' sums sums' : List ℚ), LeL ts ts' → LeL sums sums' →
      LeL (steps dt dz2 surf tbase as k ts sums).1 (steps dt dz2 surf' tbase' as k ts' sums').1 ∧
      LeL (steps dt dz2 surf tbase as k ts sums).2 (steps dt dz2 surf' tbase' as k ts' sums').2 := by
  intro k
  induction k with
  | zero => intro ts ts' sums sums' h1 h2; exact ⟨h1, h2⟩
  | succ k ih =>
    intro ts ts' sums sums' h1 h2
    simp only [steps]
    have hi := interiorOf_mono dt dz2 as ts ts' hst h1
    apply ih
    · exact leL_cons.mpr ⟨hs, leL_append _ _ _ _ hi (leL_single hb)⟩
    · exact addTo_mono _ _ _ _ h2 hi

theorem day_td_eq (i : DayIn ℚ) (ts : List ℚ) :
    (day i ts).td = tdOf (day i ts).surf i.tbase (daySteps i (day i ts).surf ts).2 := rfl

theorem daySteps_mono (i i' : DayIn ℚ) (hl : i'.layers = i.layers) (hdt : i'.dt = i.dt) (hdz : i'.dz = i.dz)
    (hst : Stable i.dt (i.dz * i.dz) (alphas i)) (hb : i.tbase ≤ i'.tbase) (sf sf' : ℚ) (hs : sf ≤ sf')
    (ts ts' : List ℚ) (h : LeL ts ts') :
    LeL (daySteps i sf ts).2 (daySteps i' sf' ts').2 := by
  unfold daySteps
  rw [hl, hdt, hdz]
  exact (steps_mono i.dt (i.dz * i.dz) sf sf' i.tbase i'.tbase (i.layers.map (alpha i.dt)) hst hs hb 24
      _ _ _ _ (setLast_mono _ _ hb ts ts' h) (leL_refl _)).2

/-- **Comparison principle for a day**: same layers, warmer (or equal) start profile, surface value
and base temperature ⇒ every `TD` value is warmer or equal. -/
theorem day_td_mono (i i' : DayIn ℚ) (hl : i'.layers = i.layers) (hdt : i'.dt = i.dt) (hdz : i'.dz = i.dz)
    (hst : Stable i.dt (i.dz * i.dz) (alphas i)) (hb : i.tbase ≤ i'.tbase)
    (ts ts' : List ℚ) (h : LeL ts ts') (hs : (day i ts).surf ≤ (day i' ts').surf) :
    LeL (day i ts).td (day i' ts').td := by
  rw [day_td_eq, day_td_eq]
  generalize (day i ts).surf = sf at hs ⊢
  generalize (day i' ts').surf = sf' at hs ⊢
  have hsteps := daySteps_mono i i' hl hdt hdz hst hb sf sf' hs ts ts' h
  generalize (daySteps i sf ts).2 = s1 at hsteps ⊢
  generalize (daySteps i' sf' ts').2 = s2 at hsteps ⊢
  unfold tdOf
  refine leL_cons.mpr ⟨hs, ?_⟩
  apply leL_append
  · exact leL_map_div 24 (by norm_num) s1 s2 hsteps
  · exact leL_single hb

/-- the surface formula is monotone in TMIN, TMAX and yesterday's value while `0 ≤ sq ≤ 1` -/
theorem surface_mono (radiat sq tmin tmax told tmin' tmax' told' : ℚ)
    (hsq : 833 < radiat → 0 ≤ sq ∧ sq ≤ 1) (h1 : tmin ≤ tmin') (h2 : tmax ≤ tmax') (h3 : told ≤ told') :
    surface radiat sq tmin tmax told ≤ surface radiat sq tmin' tmax' told' := by
  unfold surface
  split
  · rename_i h
    obtain ⟨q0, q1⟩ := hsq h
    have hq : 0 ≤ 1 - sq := by linarith
    nlinarith [mul_nonneg hq (sub_nonneg.mpr h1), mul_nonneg q0 (sub_nonneg.mpr h2)]
  · apply div_le_div_of_nonneg_right _ (by norm_num)
    linarith

end Hermes.SoilTemp
