/-
C06 — Soil water content stays within physical bounds; state stays finite.
Model: HermesModel/Water.lean (one call of `Water`, hermes/water.go:805-995), iterated over the
sub-steps of a day as in C01.  Exact-arithmetic statements over ℚ for every number of layers.
The upper bound and the bound of the evaporation cascade hold without any hypothesis on the
state; the day-level lower bound holds for the first sub-step (hence for every one-sub-step day)
and, for later sub-steps, under the hypothesis the proof forces (`UptakeOk`), which the current
code does not guarantee: see `C06_lower_bound_day_fails_at`.  Finiteness of IEEE values is
outside ℚ: it is covered by `C06_no_zero_denominator` (no division by zero under the ordering
0 < WMIN < WNOR, W) and otherwise observed by the search stage.
-/
import HermesProofs.WaterBounds
import HermesProofs.Evatra
namespace Hermes.Water

/-- capillary-rise increment (cm of water) that this call adds to layer `j` (0-based) -/
noncomputable def capInc (i : In ℚ) (j : ℕ) : ℚ :=
  match capRise i.dz i.wdt i.grw i.caps (capLayer i.nfk) with
  | some c => if j = capLayer i.nfk - 1 then c else 0
  | none => 0

theorem capillary_get (i : In ℚ) (wa2 qs2 : List ℚ) (j : ℕ) (a : ℚ)
    (h : (phaseCapillary i wa2 qs2).1[j]? = some a) :
    ∃ b, wa2[j]? = some b ∧ a = b + capInc i j := by
  unfold phaseCapillary at h
  simp only at h
  unfold capInc
  cases hcr : capRise i.dz i.wdt i.grw i.caps (capLayer i.nfk) with
  | none =>
    rw [hcr] at h
    exact ⟨a, h, by simp⟩
  | some c =>
    rw [hcr] at h
    simp only [addAt_get] at h
    cases hb : wa2[j]? with
    | none => rw [hb] at h; simp at h
    | some b =>
      rw [hb] at h
      simp only [Option.map_some, Option.some.injEq] at h
      refine ⟨b, rfl, ?_⟩
      rw [← h]
      split_ifs <;> simp

theorem wg1_get (i : In ℚ) (j : ℕ) (x : ℚ) (h : (step i).wg1[j]? = some x) :
    ∃ p : ℚ × ℚ, (overflow i.dz none (zip3 (phaseSurface i (phaseUptake i).2).wa1 i.w (phaseSurface i (phaseUptake i).2).qs)).1[j]? = some p ∧
      x = (p.1 + capInc i j) / i.dz := by
  have e : (step i).wg1 = (phaseCapillary i (phaseOverflow i (phaseSurface i (phaseUptake i).2)).1
      (phaseOverflow i (phaseSurface i (phaseUptake i).2)).2.1).1.map (· / i.dz) := rfl
  rw [e, List.getElem?_map] at h
  cases ha : (phaseCapillary i (phaseOverflow i (phaseSurface i (phaseUptake i).2)).1
      (phaseOverflow i (phaseSurface i (phaseUptake i).2)).2.1).1[j]? with
  | none => rw [ha] at h; simp at h
  | some a =>
    rw [ha] at h
    simp only [Option.map_some, Option.some.injEq] at h
    obtain ⟨b, hb, hab⟩ := capillary_get i _ _ j a ha
    have e2 : (phaseOverflow i (phaseSurface i (phaseUptake i).2)).1 =
        (overflow i.dz none (zip3 (phaseSurface i (phaseUptake i).2).wa1 i.w (phaseSurface i (phaseUptake i).2).qs)).1.map (·.1) := rfl
    rw [e2, List.getElem?_map] at hb
    cases hp : (overflow i.dz none (zip3 (phaseSurface i (phaseUptake i).2).wa1 i.w (phaseSurface i (phaseUptake i).2).qs)).1[j]? with
    | none => rw [hp] at hb; simp at hb
    | some p =>
      rw [hp] at hb
      simp only [Option.map_some, Option.some.injEq] at hb
      exact ⟨p, rfl, by rw [← h, hab, ← hb]⟩

/-- **Upper bound.** After every call of the water routine the water content of every layer is at
most its field capacity (pore volume below the groundwater table) plus the capillary-rise
increment the call added to that layer — whatever the state before (single top-down overflow
pass, then capillary rise). -/
theorem C06_upper_bound_step (i : In ℚ) (hdz : 0 < i.dz) (j : ℕ) (x w : ℚ)
    (hx : (step i).wg1[j]? = some x) (hw : i.w[j]? = some w) :
    x ≤ w + capInc i j / i.dz := by
  obtain ⟨p, hp, rfl⟩ := wg1_get i j x hx
  obtain ⟨t, ht, hle, _⟩ := overflow_get i.dz hdz _ none j p (by intro c hc; cases hc) hp
  obtain ⟨_, hw', _⟩ := zip3_get _ _ _ j t ht
  rw [hw] at hw'
  simp only [Option.some.injEq] at hw'
  rw [← hw'] at hle
  have h1 : p.1 / i.dz ≤ w := by rw [div_le_iff₀ hdz]; exact hle
  rw [add_div]
  linarith

/-! ### lower bound -/

theorem getD_nonneg (l : List ℚ) (h : ∀ c ∈ l, 0 ≤ c) (k : ℕ) : 0 ≤ l.getD k 0 := by
  rw [List.getD_eq_getElem?_getD]
  cases hg : l[k]? with
  | none => simp
  | some v => simpa using h v (List.mem_of_getElem? hg)

theorem capInc_nonneg (i : In ℚ) (j : ℕ) (hdz : 0 ≤ i.dz) (hwdt : 0 ≤ i.wdt) (hcaps : ∀ c ∈ i.caps, 0 ≤ c) :
    0 ≤ capInc i j := by
  unfold capInc
  cases hcr : capRise i.dz i.wdt i.grw i.caps (capLayer i.nfk) with
  | none => simp
  | some c =>
    have hc : 0 ≤ c := by
      unfold capRise at hcr
      simp only at hcr
      split_ifs at hcr
      all_goals
        simp only [Option.some.injEq] at hcr
        rw [← hcr]
        apply mul_nonneg (mul_nonneg _ hdz) hwdt
        exact getD_nonneg i.caps hcaps _
    simp only
    split_ifs
    · exact hc
    · exact le_refl _

/-- what the surface phase (infiltration / evaporation / no flux) leaves in layer `j`: field
capacity, or at least a third of the wilting point, or at least what was there before. -/
theorem surface_get (i : In ℚ) (wa0 : List ℚ) (j : ℕ) (y : ℚ) (hwdt : 0 ≤ i.wdt)
    (hdf0 : 0 ≤ i.draifak) (hdf1 : i.draifak ≤ 1)
    (h : (phaseSurface i wa0).wa1[j]? = some y) :
    ∃ x0, wa0[j]? = some x0 ∧
      ((∃ w, i.w[j]? = some w ∧ y = w * i.dz) ∨ (∃ m, i.wmin[j]? = some m ∧ m / 3 * i.dz ≤ y) ∨ x0 ≤ y) := by
  unfold phaseSurface at h
  by_cases h1 : 0 < i.fluss0
  · simp only [h1, if_true] at h
    obtain ⟨t, ht, hor⟩ := infil_get i.dz i.draidep i.draifak hdf0 hdf1 _ _ 1 j y (mul_nonneg h1.le hwdt) h
    obtain ⟨ha, hb⟩ := List.getElem?_zip_eq_some.mp ht
    refine ⟨t.1, ha, ?_⟩
    rcases hor with hor | hor
    · exact Or.inl ⟨t.2, hb, hor⟩
    · exact Or.inr (Or.inr hor)
  · simp only [h1, if_false] at h
    by_cases h2 : i.fluss0 < 0
    · simp only [h2, if_true] at h
      obtain ⟨t, ht, hor⟩ := evap_get i.dz i.wdt _ _ none j y h
      obtain ⟨ha, hb, _⟩ := zip3_get _ _ _ j t ht
      refine ⟨t.1, ha, ?_⟩
      rcases hor with hor | hor
      · exact Or.inr (Or.inl ⟨t.2.1, hb, hor⟩)
      · exact Or.inr (Or.inr (by rw [hor]))
    · simp only [h2, if_false] at h
      exact ⟨y, h, Or.inr (Or.inr (le_refl _))⟩

/-- **Evaporation cascade.** On an evaporation day every layer the cascade touches ends the surface
phase at or above a third of its wilting point; the other layers are untouched. No hypothesis on
the state (the deficit is passed down instead). -/
theorem C06_lower_bound_evap (i : In ℚ) (wa0 : List ℚ) (j : ℕ) (y : ℚ) (hf : i.fluss0 < 0)
    (h : (phaseSurface i wa0).wa1[j]? = some y) :
    ∃ x0 m, wa0[j]? = some x0 ∧ i.wmin[j]? = some m ∧ (m / 3 * i.dz ≤ y ∨ y = x0) := by
  unfold phaseSurface at h
  have h1 : ¬ 0 < i.fluss0 := by linarith
  simp only [h1, if_false, hf, if_true] at h
  obtain ⟨t, ht, hor⟩ := evap_get i.dz i.wdt _ _ none j y h
  obtain ⟨ha, hb, _⟩ := zip3_get _ _ _ j t ht
  exact ⟨t.1, t.2.1, ha, hb, hor⟩

/-- Side conditions of the lower bound: positive layer thickness, sub-step length in [0,1], drain
fraction in [0,1], capillary table non-negative, a third of the wilting point not above field
capacity, wilting point non-negative. (All follow from C15's ordering 0 < WMIN < W.) -/
structure Valid (i : In ℚ) : Prop where
  dz : 0 < i.dz
  wdt0 : 0 ≤ i.wdt
  wdt1 : i.wdt ≤ 1
  df0 : 0 ≤ i.draifak
  df1 : i.draifak ≤ 1
  caps : ∀ c ∈ i.caps, 0 ≤ c
  cap : ∀ (j : ℕ) (w m : ℚ), i.w[j]? = some w → i.wmin[j]? = some m → m / 3 ≤ w
  wmin : ∀ m ∈ i.wmin, 0 ≤ m

/-- **One call.** If after the uptake of this sub-step no layer is below a third of its wilting
point, then none is after the call. -/
theorem C06_lower_bound_step (i : In ℚ) (hv : Valid i)
    (h0 : ∀ (j : ℕ) (x m : ℚ), (phaseUptake i).2[j]? = some x → i.wmin[j]? = some m → m / 3 * i.dz ≤ x)
    (j : ℕ) (x m : ℚ) (hx : (step i).wg1[j]? = some x) (hm : i.wmin[j]? = some m) : m / 3 ≤ x := by
  obtain ⟨p, hp, rfl⟩ := wg1_get i j x hx
  obtain ⟨t, ht, _, hor⟩ := overflow_get i.dz hv.dz _ none j p (by intro c hc; cases hc) hp
  obtain ⟨hy, hw, _⟩ := zip3_get _ _ _ j t ht
  have hci := capInc_nonneg i j hv.dz.le hv.wdt0 hv.caps
  have hlow : m / 3 * i.dz ≤ p.1 := by
    rcases hor with hor | hor
    · rw [hor]; exact mul_le_mul_of_nonneg_right (hv.cap j t.2.1 m hw hm) hv.dz.le
    · obtain ⟨x0, hx0, hs⟩ := surface_get i _ j t.1 hv.wdt0 hv.df0 hv.df1 hy
      have hx0' := h0 j x0 m hx0 hm
      rcases hs with ⟨w, hw2, hyw⟩ | ⟨m2, hm2, hle⟩ | hle
      · rw [hw] at hw2; cases hw2
        have := mul_le_mul_of_nonneg_right (hv.cap j t.2.1 m hw hm) hv.dz.le
        linarith
      · rw [hm] at hm2; cases hm2; linarith
      · linarith
  rw [le_div_iff₀ hv.dz]
  linarith

/-- **First sub-step.** The uptake limit of the first sub-step (against the day-start water)
guarantees the premise of `C06_lower_bound_step`: if the day starts with every layer at or above
a third of its wilting point, the first call of the day ends so — hence every day that runs in one
sub-step (the vast majority) keeps the lower bound. -/
theorem C06_lower_bound_first_step (i : In ℚ) (hv : Valid i) (hfirst : i.first = true)
    (hstart : ∀ (j : ℕ) (g m : ℚ), i.wg[j]? = some g → i.wmin[j]? = some m → m / 3 ≤ g)
    (j : ℕ) (x m : ℚ) (hx : (step i).wg1[j]? = some x) (hm : i.wmin[j]? = some m) : m / 3 ≤ x := by
  apply C06_lower_bound_step i hv _ j x m hx hm
  intro j x m hx hm
  unfold phaseUptake at hx
  simp only [hfirst, if_true] at hx
  obtain ⟨g, t, hg, ht, rfl⟩ := water0_get _ _ _ _ j x hx
  obtain ⟨t0, g', m', _, hg', hm', rfl⟩ := limitTp_get _ _ _ _ j t ht
  rw [hg] at hg'; cases hg'
  rw [hm] at hm'; cases hm'
  have hs := hstart j g m hg hm
  have hm0 : 0 ≤ m := hv.wmin m (List.mem_of_getElem? hm)
  have hdz := hv.dz
  have h1 := hv.wdt0
  have h2 := hv.wdt1
  have hL : m / 3 * i.dz ≤ g * i.dz := mul_le_mul_of_nonneg_right hs hdz.le
  have hM : m / 3 * i.dz ≤ m * i.dz := mul_le_mul_of_nonneg_right (by linarith) hdz.le
  split_ifs with ha hb
  · linarith
  · have hgm : 0 ≤ (g - m) * i.dz := mul_nonneg (by linarith [not_lt.mp hb]) hdz.le
    nlinarith
  · have hle := not_lt.mp ha
    by_cases ht0 : 0 ≤ t0
    · nlinarith
    · have : t0 * i.wdt ≤ 0 := mul_nonpos_of_nonpos_of_nonneg (by linarith) h1
      linarith

/-! ### whole days -/

/-- water contents after the sub-steps of a day (each call starts from the result of the previous one) -/
noncomputable def dayEnd : List (In ℚ) → List ℚ → List ℚ
  | [], wg => wg
  | i :: rest, wg => dayEnd rest (step { i with wg := wg }).wg1

/-- The hypothesis the proof forces on the later sub-steps of a day: the uptake of the sub-step
(TP·wdt, limited only once per day against the day-start water, water.go:823-833) does not take
any layer below a third of its wilting point, evaluated on the states the day actually runs through. -/
def UptakeOk : List (In ℚ) → List ℚ → Prop
  | [], _ => True
  | i :: rest, wg =>
    (∀ (j : ℕ) (x m : ℚ), (phaseUptake { i with wg := wg }).2[j]? = some x → i.wmin[j]? = some m → m / 3 * i.dz ≤ x) ∧
      UptakeOk rest (step { i with wg := wg }).wg1

theorem Valid.withWg {i : In ℚ} (h : Valid i) (wg : List ℚ) : Valid { i with wg := wg } :=
  ⟨h.dz, h.wdt0, h.wdt1, h.df0, h.df1, h.caps, h.cap, h.wmin⟩

theorem lower_bound_rest (wm : List ℚ) : ∀ (subs : List (In ℚ)) (wg : List ℚ),
    (∀ i ∈ subs, Valid i ∧ i.wmin = wm) → UptakeOk subs wg →
    (∀ (j : ℕ) (g m : ℚ), wg[j]? = some g → wm[j]? = some m → m / 3 ≤ g) →
    ∀ (j : ℕ) (x m : ℚ), (dayEnd subs wg)[j]? = some x → wm[j]? = some m → m / 3 ≤ x := by
  intro subs
  induction subs with
  | nil => intro wg _ _ hs j x m hx hm; exact hs j x m hx hm
  | cons i rest ih =>
    intro wg hall hok hs j x m hx hm
    obtain ⟨hv, hwm⟩ := hall i (by simp)
    simp only [dayEnd] at hx
    apply ih (step { i with wg := wg }).wg1 (fun k hk => hall k (List.mem_cons_of_mem _ hk)) hok.2 _ j x m hx hm
    intro j' g' m' hg' hm'
    exact C06_lower_bound_step { i with wg := wg } (hv.withWg wg) hok.1 j' g' m' hg' (by simpa [hwm] using hm')

/-- **Day-level lower bound — partial.** If the day starts with every layer at or above a third
of its wilting point, it ends so, for any number of sub-steps, provided the later sub-steps
satisfy `UptakeOk` (the first one always does: `C06_lower_bound_first_step`). What is missing:
the code applies the uptake limit only in the first sub-step, against the day-start water, so
`UptakeOk` can fail when a layer loses water between sub-steps (overflow pass of a layer that
started above field capacity) — see `C06_lower_bound_day_fails_at`. -/
theorem C06_lower_bound_day_partial (i1 : In ℚ) (rest : List (In ℚ)) (wg : List ℚ)
    (h1 : Valid i1) (hfirst : i1.first = true) (hall : ∀ i ∈ rest, Valid i ∧ i.wmin = i1.wmin)
    (hok : UptakeOk rest (step { i1 with wg := wg }).wg1)
    (hstart : ∀ (j : ℕ) (g m : ℚ), wg[j]? = some g → i1.wmin[j]? = some m → m / 3 ≤ g) :
    ∀ (j : ℕ) (x m : ℚ), (dayEnd (i1 :: rest) wg)[j]? = some x → i1.wmin[j]? = some m → m / 3 ≤ x := by
  intro j x m hx hm
  simp only [dayEnd] at hx
  apply lower_bound_rest i1.wmin rest _ hall hok _ j x m hx hm
  intro j' g' m' hg' hm'
  exact C06_lower_bound_first_step { i1 with wg := wg } (h1.withWg wg) hfirst hstart j' g' m' hg' hm'

/-- **Upper bound at day end**: the last sub-step's bound (field capacity + the capillary
increment of that call, which is at most the day's increment when the table is non-negative). -/
theorem C06_upper_bound_day (i : In ℚ) (before : List (In ℚ)) (wg : List ℚ) (hdz : 0 < i.dz) (j : ℕ) (x w : ℚ)
    (hx : (dayEnd (before ++ [i]) wg)[j]? = some x) (hw : i.w[j]? = some w) :
    ∃ wg', x ≤ w + capInc { i with wg := wg' } j / i.dz := by
  induction before generalizing wg with
  | nil =>
    simp only [List.nil_append, dayEnd] at hx
    exact ⟨wg, C06_upper_bound_step { i with wg := wg } hdz j x w hx hw⟩
  | cons b bs ih =>
    simp only [List.cons_append, dayEnd] at hx
    exact ih _ hx

/-! ### the violation: a layer that starts above field capacity, three sub-steps -/

/-- one sub-step of the witness day: one stony layer (field capacity 5 %, wilting point 3 %) that
starts at 10 % (left above field capacity by a fallen groundwater table), uptake 6.6 mm/d, no
flux through the surface reaches it, no groundwater influence. -/
noncomputable def wStep (first : Bool) : In ℚ :=
  { dz := 10, wdt := 1 / 3, first := first, fluss0 := 0, wg := [], tp := [0.66], w := [0.05], wmin := [0.03],
    ev := [0], evTail := 0, nfk := [1], caps := List.replicate 21 0, grw := 99, draidep := 0, draifak := 0,
    outn := 1, gwauf := 0, q0prev := 0 }

theorem wStep_valid (b : Bool) : Valid (wStep b) := by
  refine ⟨by norm_num [wStep], by norm_num [wStep], by norm_num [wStep], by norm_num [wStep], by norm_num [wStep], ?_, ?_, ?_⟩
  · intro c hc; simp [wStep] at hc; rw [hc]
  · intro j w m hw hm
    cases j with
    | zero => simp [wStep] at hw hm; rw [← hw, ← hm]; norm_num
    | succ j => simp [wStep] at hw
  · intro m hm; simp [wStep] at hm; rw [hm]; norm_num

theorem capLayer_one : capLayer ([1] : List ℚ) = 0 := by
  simp [capLayer, List.zipIdx]
  norm_num

/-- first sub-step of the witness day: the limit admits the uptake, the overflow pass cuts to field capacity -/
theorem wStep_first : (step { wStep true with wg := [0.1] }).wg1 = [0.05] := by
  have hlim : limitTp (10 : ℚ) [0.66] [0.1] [0.03] = [0.66] := by
    simp only [limitTp]
    rw [if_neg (by norm_num)]
  simp only [step, phaseUptake, wStep, if_true, hlim, water0, phaseSurface, lt_irrefl, if_false, phaseOverflow,
    zip3, List.map_cons, List.map_nil, overflow, phaseCapillary, capLayer_one, capRise]
  norm_num [overflow]

/-- a later sub-step below field capacity: the layer just loses TP·wdt -/
theorem wStep_later (g : ℚ) (hg : g ≤ 0.05) :
    (step { wStep false with wg := [g] }).wg1 = [(g * 10 - 0.66 * (1 / 3)) / 10] := by
  have hno : ¬ (0.05 : ℚ) < (g * 10 - 0.66 * (1 / 3)) / 10 := by
    rw [not_lt, div_le_iff₀ (by norm_num)]; linarith
  simp only [step, phaseUptake, wStep, Bool.false_eq_true, if_false, water0, phaseSurface, lt_irrefl, phaseOverflow,
    zip3, List.map_cons, List.map_nil, overflow, phaseCapillary, capLayer_one, capRise, if_true, hno]

/-- **Day-level lower bound fails** on the current code (finding F20): the layer starts the day at 10 % — above
a third of its wilting point (1 %) — and ends the third sub-step at 0.6 %, below it: the uptake
limit of the first sub-step admits 6.6 mm (7 mm are available above the wilting point), the
overflow pass of the same call cuts the layer to field capacity (5 mm of water), and the two
later sub-steps take their 2.2 mm each without any limit. -/
theorem C06_lower_bound_day_fails_at :
    (∀ b, Valid (wStep b)) ∧ (0.03 : ℚ) / 3 ≤ 0.1 ∧
    dayEnd [wStep true, wStep false, wStep false] [0.1] = [0.006] ∧ (0.006 : ℚ) < 0.03 / 3 := by
  refine ⟨wStep_valid, by norm_num, ?_, by norm_num⟩
  simp only [dayEnd]
  rw [wStep_first, wStep_later 0.05 (le_refl _), wStep_later _ (by norm_num)]
  norm_num

/-! ### no zero denominator -/

/-- **No zero denominator.** Under the ordering 0 < WMIN < WNOR and WMIN < W (C15) with a positive
layer thickness, every unguarded division of the water and evapotranspiration kernels has a
non-zero denominator: the layer thickness (`/DZ`), the evaporable range of the top layer
(`W₀ − WMIN₀/3`), the usable range of every layer (`WNOR − WMIN`); the remaining divisions
(`/SUMVAR`, `/WEFF`, `/WEFFREST`, `/ETCP`, `/TRAMAX`, `/LUKRIT`) are guarded by a positivity test in
the code, and a positive share implies a positive total activity. -/
theorem C06_no_zero_denominator (dz w0 wmin0 : ℚ) (hdz : 0 < dz) (h0 : 0 < wmin0) (hw : wmin0 < w0) :
    dz ≠ 0 ∧ w0 - wmin0 / 3 ≠ 0 ∧
    (∀ wnor wmin : ℚ, wmin < wnor → wnor - wmin ≠ 0) ∧
    (∀ (wurz : ℕ) (lays : List (Evatra.Lay ℚ)), Evatra.ActOk lays →
      ∀ l ∈ lays.take wurz, 0 < l.wueff * l.wudich → 0 < Evatra.weffSum wurz lays) := by
  refine ⟨hdz.ne', by linarith, fun a b h => by linarith, ?_⟩
  intro wurz lays hact l hl hpos
  rw [Evatra.weffSum_eq]
  have hnn : ∀ x ∈ (lays.take wurz).map Evatra.wq, 0 ≤ x := by
    intro x hx
    obtain ⟨y, hy, rfl⟩ := List.mem_map.mp hx
    obtain ⟨a, b⟩ := hact y (List.mem_of_mem_take hy)
    exact mul_nonneg a b
  have := List.single_le_sum hnn (Evatra.wq l) (List.mem_map.mpr ⟨l, hl, rfl⟩)
  exact lt_of_lt_of_le hpos this

/-! ### non-vacuity -/

/-- a two-layer evaporation call satisfying `Valid` and the premise of `C06_lower_bound_first_step` -/
noncomputable def exIn : In ℚ :=
  { dz := 10, wdt := 1, first := true, fluss0 := -0.3, wg := [0.12, 0.25], tp := [0.05, 0.02], w := [0.3, 0.3],
    wmin := [0.1, 0.12], ev := [0.25, 0.05], evTail := 0, nfk := [0.1, 0.7], caps := List.replicate 21 0.1, grw := 4,
    draidep := 0, draifak := 0, outn := 2, gwauf := 0, q0prev := 0 }

example : Valid exIn ∧ exIn.first = true ∧
    (∀ (j : ℕ) (g m : ℚ), exIn.wg[j]? = some g → exIn.wmin[j]? = some m → m / 3 ≤ g) := by
  refine ⟨⟨by norm_num [exIn], by norm_num [exIn], by norm_num [exIn], by norm_num [exIn], by norm_num [exIn], ?_, ?_, ?_⟩, rfl, ?_⟩
  · intro c hc; simp [exIn] at hc; rw [hc]; norm_num
  · intro j w m hw hm
    match j with
    | 0 => simp [exIn] at hw hm; rw [← hw, ← hm]; norm_num
    | 1 => simp [exIn] at hw hm; rw [← hw, ← hm]; norm_num
    | j + 2 => simp [exIn] at hw
  · intro m hm; simp [exIn] at hm; rcases hm with rfl | rfl <;> norm_num
  · intro j g m hg hm
    match j with
    | 0 => simp [exIn] at hg hm; rw [← hg, ← hm]; norm_num
    | 1 => simp [exIn] at hg hm; rw [← hg, ← hm]; norm_num
    | j + 2 => simp [exIn] at hg

/-- `UptakeOk` is satisfiable on a non-trivial second sub-step (uptake small against the store) -/
example : UptakeOk [{ exIn with first := false, tp := [0.01, 0.01] }] [0.12, 0.25] := by
  refine ⟨?_, trivial⟩
  intro j x m hx hm
  match j with
  | 0 => simp [phaseUptake, water0, exIn] at hx hm; rw [← hx, ← hm]; norm_num [exIn]
  | 1 => simp [phaseUptake, water0, exIn] at hx hm; rw [← hx, ← hm]; norm_num [exIn]
  | j + 2 => simp [phaseUptake, water0, exIn] at hx

end Hermes.Water
