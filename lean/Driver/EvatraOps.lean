import HermesModel.Proto
import HermesModel.Evatra
import Driver.PetOps
open Hermes Hermes.Proto

namespace Hermes.Driver

/-- `evatra.part N crop dtIdx wurz lumday  dz dt verdu0 elai regen w0 grw p0 p1 p2 g0 g1 g2 lukrit
trrelPrev etrelPrev  wg[N] wmin[N] wnor[N] expc[N] wudich[N]`
answers `verdu eta eva fluss0 ev[N] nfk[N] tp[N] gwauf lured etrel trrel lumday wurz` -/
def evatraPart (toks : List String) : Option String := do
  let (n, r) ← popNat toks
  let (crop, r) ← popNat r
  let (dtIdx, r) ← popNat r
  let (wurz, r) ← popNat r
  let (lumday, r) ← popNat r
  let (sc, r) ← popFloats 16 r
  let (wg, r) ← popFloats n r
  let (wmin, r) ← popFloats n r
  let (wnor, r) ← popFloats n r
  let (expc, r) ← popFloats n r
  let (wudich, _) ← popFloats n r
  match sc with
  | [dz, dt, verdu0, elai, regen, w0, grw, p0, p1, p2, g0, g1, g2, lukrit, trrelPrev, etrelPrev] =>
    let i : Evatra.In Float := { dz, dt, dtIdx, crop := crop == 1, verdu0, elai, regen, wg, w0, wmin, wnor, expc,
                                 wudich, wurz, grw, p0, p1, p2, g0, g1, g2, lukrit, lumday, trrelPrev, etrelPrev }
    let o := Evatra.partition i
    some (fmtFloats ([o.verdu, o.eta, o.eva, o.fluss0] ++ o.ev ++ o.nfk ++ o.tp ++
      [o.gwauf, o.lured, o.etrel, o.trrel]) ++ s!" {o.lumday} {o.wurz}")
  | _ => none

/-- `evatra.redev p` (the reduction function alone, for a dense scan of its argument) -/
def evatraRedev (toks : List String) : Option String := do
  let (p, _) ← popFloat toks
  some (fmtFloats [Evatra.redev p, Evatra.trred p, Evatra.wueffRaw p])

def evatraOps (toks : List String) : String :=
  match toks with
  | "evatra.part" :: rest => (evatraPart rest).getD "bad-op"
  | "evatra.redev" :: rest => (evatraRedev rest).getD "bad-op"
  | "evatra.full" :: rest => (fullDay rest).getD "bad-op"            -- Driver/PetOps.lean
  | "evatra.fullsites" :: rest => (fullSites rest).getD "bad-op"
  | _ => "bad-op"

end Hermes.Driver
