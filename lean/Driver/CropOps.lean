import HermesModel.Proto
import HermesModel.Crop
open Hermes Hermes.Proto

namespace Hermes.Driver

def popNats_Crop : Nat → Toks → Option (List Nat × Toks)
  | 0, r => some ([], r)
  | n + 1, r => do
    let (x, r) ← popNat r
    let (xs, r) ← popNats_Crop n r
    pure (x :: xs, r)

def fmtNats_Crop (xs : List Nat) : String := " ".intercalate (xs.map toString)

/-- `crop.stage nrentw intwick doy noNAccel  temp dt wg0 w0 wmin0 dlp reduk trrel lured verntage fvOld fpOld
phyllo  sum[10] tsum[10] bas[10] vschwell[10] dayl[10] dlbas[10] dryswell[10]  dev[10]`
answer: `intwick' advanced sum'[10] phyllo' verntage' fv fp dev'[10]` -/
def cropStage (toks : List String) : Option String := do
  let (nrentw, r) ← popNat toks
  let (intwick, r) ← popNat r
  let (doy, r) ← popNat r
  let (nona, r) ← popNat r
  let (sc, r) ← popFloats 13 r
  let (sum, r) ← popFloats 10 r
  let (tsum, r) ← popFloats 10 r
  let (bas, r) ← popFloats 10 r
  let (vschwell, r) ← popFloats 10 r
  let (dayl, r) ← popFloats 10 r
  let (dlbas, r) ← popFloats 10 r
  let (dryswell, r) ← popFloats 10 r
  let (dev, _) ← popNats_Crop 10 r
  match sc with
  | [temp, dt, wg0, w0, wmin0, dlp, reduk, trrel, lured, verntage, fvOld, fpOld, phyllo] =>
    let i : Crop.DayIn Float := { nrentw, doy, noNAccel := nona == 1, temp, dt, wg0, w0, wmin0, dlp, reduk, trrel, lured,
                                  verntage, fvOld, fpOld, phyllo, tsum, bas, vschwell, dayl, dlbas, dryswell }
    let o := Crop.stageDay i { intwick, sum, dev }
    some (s!"{o.st.intwick} {if o.advanced then 1 else 0} {fmtFloats o.st.sum} {fmtFloats [o.phyllo, o.verntage, o.fv, o.fp]} {fmtNats_Crop o.st.dev}")
  | _ => none

def popOrgans : Nat → Toks → Option (List (Crop.OrganPar Float × Float × Float) × Toks)
  | 0, r => some ([], r)
  | n + 1, r => do
    let (v, r) ← popFloats 7 r
    let (xs, r) ← popOrgans n r
    match v with
    | [mant, proPrev, proCur, deadPrev, deadCur, w, d] => pure (({ mant, proPrev, proCur, deadPrev, deadCur }, w, d) :: xs, r)
    | _ => none

/-- `crop.organs nrkom lastStage nAbove above[nAbove]  dt gtw maint reduk sumI tsumI laifktPrev laifktCur laifkt0
gehalt lai laimax pesum  (mant proPrev proCur deadPrev deadCur worg dgorgOld)[nrkom]`
answer: `worg'[nrkom] gorg'[nrkom] dgorg'[nrkom] lai' laimax' pesum' aspoo' obmas'` -/
def cropOrgans (toks : List String) : Option String := do
  let (nrkom, r) ← popNat toks
  let (last, r) ← popNat r
  let (na, r) ← popNat r
  let (above, r) ← popNats_Crop na r
  let (sc, r) ← popFloats 13 r
  let (orgs, _) ← popOrgans nrkom r
  match sc with
  | [dt, gtw, maint, reduk, sumI, tsumI, laifktPrev, laifktCur, laifkt0, gehalt, lai, laimax, pesum] =>
    let e : Crop.OrganEnv Float := { dt, gtw, maint, reduk, sumI, tsumI, lastStage := last == 1, laifktPrev, laifktCur, laifkt0 }
    let o := Crop.organs e gehalt lai laimax pesum above orgs
    some (fmtFloats (o.worg ++ o.gorg ++ o.dgorg ++ [o.lai, o.laimax, o.pesum, o.aspoo, o.obmas]))
  | _ => none

/-- `crop.reduk ngefkt gehob gehmin e` → `reduk` -/
def cropReduk (toks : List String) : Option String := do
  let (ngefkt, r) ← popNat toks
  let (v, _) ← popFloats 3 r
  match v with
  | [gehob, gehmin, e] => some (fmtFloats [Crop.reduk ngefkt gehob gehmin e])
  | _ => none

/-- `crop.root wurzmax n wumaxpf dz qrez` → `wurz wurm` -/
def cropRoot (toks : List String) : Option String := do
  let (wurzmax, r) ← popNat toks
  let (n, r) ← popNat r
  let (v, _) ← popFloats 3 r
  match v with
  | [wumaxpf, dz, qrez] =>
    some (s!"{Crop.rootDepth wurzmax n wumaxpf dz qrez} {fmtFloat (Crop.rootLimit wurzmax n wumaxpf)}")
  | _ => none

/-- `crop.ncont beet  wumalt wumas obalt obmas wugeh sumpe nfix wgmax pesum worg3 gehalt` → `wugeh' gehob'`
(beet = 1 for ZR / K: `obalt` includes WORG[3], `nfix` is ignored) -/
def cropNcont (toks : List String) : Option String := do
  let (beet, r) ← popNat toks
  let (v, _) ← popFloats 11 r
  match v with
  | [wumalt, wumas, obalt, obmas, wugeh, sumpe, nfix, wgmax, pesum, worg3, gehalt] =>
    if beet == 1 then
      let w := Crop.wugehBeet wumalt wumas obalt obmas worg3 wugeh sumpe wgmax
      let gh := Crop.gehobBeet pesum sumpe wumas w obmas worg3
      some (fmtFloats [Crop.wugehBeetFinal pesum sumpe wumas w obmas worg3 obalt gehalt gh, gh])
    else
      let w := Crop.wugehUpdate wumalt wumas obalt obmas wugeh sumpe nfix wgmax
      some (fmtFloats [w, Crop.gehobUpdate pesum sumpe nfix wumas w obmas])
  | _ => none

def cropOps (toks : List String) : String :=
  match toks with
  | "crop.stage" :: rest => (cropStage rest).getD "bad-op"
  | "crop.organs" :: rest => (cropOrgans rest).getD "bad-op"
  | "crop.reduk" :: rest => (cropReduk rest).getD "bad-op"
  | "crop.root" :: rest => (cropRoot rest).getD "bad-op"
  | "crop.ncont" :: rest => (cropNcont rest).getD "bad-op"
  | _ => "bad-op"

end Hermes.Driver
