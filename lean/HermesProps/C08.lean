/-
C08 — Actual ET never exceeds potential ET, which never exceeds the daily cap; root uptake only
from rooted layers above the groundwater table, never negative; stress ratios in [0,1].
Model: HermesModel/Evatra.lean (the partition part of `Evatra`, hermes/water.go:17-656 including
the floor of the potential ET at zero; the raw value of the chosen method and every
transcendental coefficient are inputs) and, for the
availability limit, HermesModel/Water.lean (`limitTp`, first loop of `Water`).  Exact-arithmetic
statements over ℚ for every number of layers and every state; round-off is measured by the search
stage.  The model is tied to the code by bit-exact differential correspondence (`evatra.part`).
-/
import HermesProofs.Evatra
import HermesProofs.Water
import HermesProofs.EvatraPet
namespace Hermes.Evatra

/-- Admissible input of the partition: positive layer thickness, `elai = exp(-.5·LAI) ∈ [0,1]`,
non-negative root length densities, and a third of the top layer's wilting point below its field
capacity (C15's ordering gives much more). No condition on lengths, water contents or weather. -/
structure WF (i : In ℚ) : Prop where
  dz : 0 < i.dz
  elai0 : 0 ≤ i.elai
  elai1 : i.elai ≤ 1
  wudich : ∀ d ∈ i.wudich, 0 ≤ d
  top : i.wmin.headD 0 / 3 < i.w0

/-- **Cap.** Whatever the potential ET of the chosen method is, the value used for the day is at
most 6.5 mm under a crop and 6 mm on bare soil (no hypothesis at all). -/
theorem C08_pet_le_cap (i : In ℚ) :
    (partition i).verdu ≤ (if i.crop then 0.65 else 0.6) := by
  unfold partition
  cases hc : i.crop <;> simp only [Bool.false_eq_true, if_false, if_true] <;>
    simpa [hc] using capSplit_le i.crop i.verdu0 i.elai

/-- **Split.** Maximum evaporation and maximum transpiration add up to the potential ET. -/
theorem C08_ev_plus_tr_eq_pet (i : In ℚ) (h : WF i) :
    (partition i).evmax + (partition i).tramax = (partition i).verdu := by
  unfold partition
  cases hc : i.crop <;> simp only [Bool.false_eq_true, if_false, if_true] <;>
    exact capSplit_sum _ i.verdu0 i.elai h.elai0 h.elai1

/-- **Reduction factor.** The soil-dryness factor of evaporation lies in [0,1]. -/
theorem C08_redev_in_unit (i : In ℚ) (h : WF i) :
    0 ≤ (partition i).redev ∧ (partition i).redev ≤ 1 := by
  have hp := proz_unit (i.wg.headD 0) i.regen i.dz (i.wmin.headD 0) i.w0 h.top
  have := redev_unit _ hp.1 hp.2
  unfold partition
  cases hc : i.crop <;> simp only [Bool.false_eq_true, if_false, if_true] <;> exact this

/-- **Potential ET non-negative.** Whatever the formula of the chosen method returns (negative
for Turc-Wendling below −22 °C, negative with a missing-value sentinel in the ET0 column), the
potential ET of the day, its evaporation share and its transpiration share are non-negative:
the value is floored at zero before the cap. No hypothesis on the method's value. -/
theorem C08_pet_nonneg (i : In ℚ) (h : WF i) :
    0 ≤ (partition i).verdu ∧ 0 ≤ (partition i).evmax ∧ 0 ≤ (partition i).tramax := by
  have := capSplit_nonneg i.crop i.verdu0 i.elai h.elai0 h.elai1
  unfold partition
  cases hc : i.crop <;> simp only [Bool.false_eq_true, if_false, if_true] <;>
    exact ⟨by simpa [hc] using this.1, by simpa [hc] using this.2.1, by simpa [hc] using this.2.2.1⟩

/-- **Actual evaporation** is non-negative and at most its maximum, which is at most the potential ET. -/
theorem C08_eta_le_evmax (i : In ℚ) (h : WF i) :
    0 ≤ (partition i).eta ∧ (partition i).eta ≤ (partition i).evmax ∧
      (partition i).evmax ≤ (partition i).verdu := by
  have hc := capSplit_nonneg i.crop i.verdu0 i.elai h.elai0 h.elai1
  have hp := proz_unit (i.wg.headD 0) i.regen i.dz (i.wmin.headD 0) i.w0 h.top
  have hr := redev_unit _ hp.1 hp.2
  unfold partition
  cases hcr : i.crop <;> simp only [Bool.false_eq_true, if_false, if_true] <;> rw [hcr] at hc <;>
    exact ⟨mul_nonneg hc.2.1 hr.1, by nlinarith [hc.2.1, hr.2], hc.2.2.2⟩

/-- **Redistribution.** Under a crop: the deficit loop does not increase the total uptake, the
first distribution hands out at most TRAMAX·LURED ≤ TRAMAX (the shares of the remaining root
activity sum to at most one; what cannot be placed is dropped). -/
theorem C08_redistribution_total_le (i : In ℚ) (h : WF i) (hc : i.crop = true) :
    (partition i).tp.sum ≤ (partition i).tp0.sum ∧
    (partition i).tp0.sum ≤ (partition i).tramax * (partition i).lured ∧
    (partition i).tramax * (partition i).lured ≤ (partition i).tramax := by
  have hcs := capSplit_nonneg true i.verdu0 i.elai h.elai0 h.elai1
  have hl := lured_unit i
  have hact := mkLays_ok i.wurz i.grw i.wg i.wmin (nfk i.regen i.dz i.wg i.wmin i.wnor) i.wudich 1 h.wudich
  have hu := uptake_spec i.dz i.grw (capSplit true i.verdu0 i.elai).2.2 (lured i).1 i.wurz _ hact h.dz hcs.2.2.1 hl.1
  unfold partition
  simp only [hc, if_true]
  exact ⟨hu.2.1, hu.2.2.1, by nlinarith [hcs.2.2.1, hl.2]⟩

/-- **Uptake non-negative** in every layer (crop or bare soil). -/
theorem C08_tp_nonneg (i : In ℚ) (h : WF i) : ∀ t ∈ (partition i).tp, 0 ≤ t := by
  cases hc : i.crop
  · unfold partition
    simp only [hc, Bool.false_eq_true, if_false]
    intro t ht
    rw [List.eq_of_mem_replicate ht]
  · have hcs := capSplit_nonneg true i.verdu0 i.elai h.elai0 h.elai1
    have hl := lured_unit i
    have hact := mkLays_ok i.wurz i.grw i.wg i.wmin (nfk i.regen i.dz i.wg i.wmin i.wnor) i.wudich 1 h.wudich
    have hu := uptake_spec i.dz i.grw (capSplit true i.verdu0 i.elai).2.2 (lured i).1 i.wurz _ hact h.dz hcs.2.2.1 hl.1
    unfold partition
    simp only [hc, if_true]
    exact hu.1

/-- **Uptake only from rooted layers above groundwater.** Layer `j+1` (1-based) with
`j+1 > min(WURZ, GRW)` takes up nothing; on bare soil no layer does. No hypothesis on signs. -/
theorem C08_tp_zero_outside (i : In ℚ) (j : ℕ) (t : ℚ) (ht : (partition i).tp[j]? = some t)
    (hout : i.crop = false ∨ minRootGw i.wurz i.grw < (((j + 1 : ℕ)) : ℚ)) : t = 0 := by
  cases hc : i.crop
  · unfold partition at ht
    simp only [hc, Bool.false_eq_true, if_false] at ht
    have : t ∈ List.replicate i.wg.length (0 : ℚ) := List.mem_of_getElem? ht
    exact List.eq_of_mem_replicate this
  · rcases hout with hb | hout
    · rw [hc] at hb; cases hb
    · unfold partition at ht
      simp only [hc, if_true] at ht
      rw [redist_get _ _ _ _ _ _ _ _ _ j (truncNat_le_of_lt _ j hout)] at ht
      cases hx : (tpInit (capSplit true i.verdu0 i.elai).2.2
          (weffSum i.wurz (mkLays i.wurz i.grw 1 i.wg i.wmin (nfk i.regen i.dz i.wg i.wmin i.wnor) i.wudich))
          (lured i).1 (minRootGw i.wurz i.grw) 1
          (mkLays i.wurz i.grw 1 i.wg i.wmin (nfk i.regen i.dz i.wg i.wmin i.wnor) i.wudich))[j]? with
      | none => rw [hx] at ht; simp at ht
      | some x =>
        rw [hx] at ht
        simp only [Option.map_some, Option.some.injEq] at ht
        rw [← ht]
        exact tpInit_zero _ _ _ _ _ 1 j x hx (by rw [Nat.add_comm]; exact hout)

/-- **Actual ≤ potential.** Actual evaporation plus the uptake of all layers (and the uptake
total TPAKT handed to the ratios) is at most the potential ET of the day. -/
theorem C08_actual_le_potential (i : In ℚ) (h : WF i) :
    (partition i).eta + (partition i).tp.sum ≤ (partition i).verdu ∧
    0 ≤ (partition i).tpakt ∧ (partition i).tpakt ≤ (partition i).tp.sum := by
  have hsplit := C08_ev_plus_tr_eq_pet i h
  have heta := C08_eta_le_evmax i h
  cases hc : i.crop
  · have h0 : (partition i).tp.sum = 0 ∧ (partition i).tpakt = 0 := by
      unfold partition
      simp only [hc, Bool.false_eq_true, if_false]
      exact ⟨by simp, trivial⟩
    have hpn := C08_pet_nonneg i h
    rw [h0.1, h0.2]
    exact ⟨by linarith [heta.2.1, heta.2.2], le_refl _, le_refl _⟩
  · have htot := C08_redistribution_total_le i h hc
    have hcs := capSplit_nonneg true i.verdu0 i.elai h.elai0 h.elai1
    have hl := lured_unit i
    have hact := mkLays_ok i.wurz i.grw i.wg i.wmin (nfk i.regen i.dz i.wg i.wmin i.wnor) i.wudich 1 h.wudich
    have hu := uptake_spec i.dz i.grw (capSplit true i.verdu0 i.elai).2.2 (lured i).1 i.wurz _ hact h.dz hcs.2.2.1 hl.1
    have hak : 0 ≤ (partition i).tpakt ∧ (partition i).tpakt ≤ (partition i).tp.sum := by
      unfold partition
      simp only [hc, if_true]
      exact ⟨hu.2.2.2.1, hu.2.2.2.2⟩
    exact ⟨by linarith [htot.1, htot.2.1, htot.2.2, heta.2.1], hak.1, hak.2⟩

/-- **Stress ratios in [0,1].** TRREL and ETREL handed to the crop model lie in [0,1] (where the
code keeps the previous value, provided that one did). -/
theorem C08_trrel_etrel_unit (i : In ℚ) (h : WF i)
    (ht : 0 ≤ i.trrelPrev ∧ i.trrelPrev ≤ 1) (he : 0 ≤ i.etrelPrev ∧ i.etrelPrev ≤ 1) :
    (0 ≤ (partition i).trrel ∧ (partition i).trrel ≤ 1) ∧
    (0 ≤ (partition i).etrel ∧ (partition i).etrel ≤ 1) := by
  have hact := C08_actual_le_potential i h
  have htot := C08_redistribution_total_le i h
  have heta := C08_eta_le_evmax i h
  have hpn := C08_pet_nonneg i h
  cases hc : i.crop
  · unfold partition
    simp only [hc, Bool.false_eq_true, if_false]
    exact ⟨⟨by norm_num, le_refl _⟩, he⟩
  · have htot' := htot hc
    -- name the quantities, then unfold the two ratio definitions
    have e1 : (partition i).trrel = if 0 < (partition i).tramax then (partition i).tpakt / (partition i).tramax else i.trrelPrev := by
      unfold partition; simp only [hc, if_true]
    have e2 : (partition i).etrel =
        if 1 < (if 0 < (partition i).verdu then ((partition i).tpakt + (partition i).eta) / (partition i).verdu else 1) then 1
        else (if 0 < (partition i).verdu then ((partition i).tpakt + (partition i).eta) / (partition i).verdu else 1) := by
      unfold partition; simp only [hc, if_true]
    rw [e1, e2]
    constructor
    · split_ifs with hp
      · refine ⟨div_nonneg hact.2.1 hp.le, ?_⟩
        rw [div_le_one hp]
        linarith [hact.2.2, htot'.1, htot'.2.1, htot'.2.2]
      · exact ht
    · have hx : 0 ≤ (if 0 < (partition i).verdu then ((partition i).tpakt + (partition i).eta) / (partition i).verdu else 1) := by
        split_ifs with hp
        · exact div_nonneg (by linarith [hact.2.1, heta.1]) hp.le
        · norm_num
      generalize (if 0 < (partition i).verdu then ((partition i).tpakt + (partition i).eta) / (partition i).verdu else 1) = x at hx
      split_ifs with h1
      · exact ⟨by norm_num, le_refl _⟩
      · exact ⟨hx, not_lt.mp h1⟩

/-- **Uptake ≤ plant-available water.** After the limit applied by the water routine in the first
sub-step of the day (water.go:815-825) the uptake of a layer is at most the water above the
wilting point, and zero when the layer is drier than that. -/
theorem C08_tp_le_available (dz : ℚ) : ∀ (tp wg wmin : List ℚ) (j : ℕ) (t g m : ℚ),
    (Water.limitTp dz tp wg wmin)[j]? = some t → wg[j]? = some g → wmin[j]? = some m →
    t ≤ max 0 ((g - m) * dz) := by
  intro tp
  induction tp with
  | nil => intro wg wmin j t g m h; simp [Water.limitTp] at h
  | cons x xs ih =>
    intro wg wmin j t g m h hg hm
    cases wg with
    | nil => simp [Water.limitTp] at h
    | cons g0 gs =>
      cases wmin with
      | nil => simp [Water.limitTp] at h
      | cons m0 ms =>
        cases j with
        | zero =>
          simp only [Water.limitTp, List.getElem?_cons_zero, Option.some.injEq] at h hg hm
          subst hg hm
          rw [← h]
          split_ifs with h1 h2
          · exact le_max_left _ _
          · exact le_max_right _ _
          · exact le_trans (not_lt.mp h1) (le_max_right _ _)
        | succ j =>
          simp only [Water.limitTp, List.getElem?_cons_succ] at h hg hm
          exact ih gs ms j t g m h hg hm

/-! ### the floor engaged: a bare-soil day on which the method's formula is negative -/

/-- A bare-soil day on which the formula of the chosen method returns −0.1 mm (Turc-Wendling at
an air temperature below −22 °C, or an ET0 column carrying a negative sentinel). Before the
repair (no floor) this day had a negative potential ET, a negative actual evaporation and a
positive surface flux. -/
def frostDay : In ℚ :=
  { dz := 10, dt := 1, dtIdx := 1, crop := false, verdu0 := -1 / 100, elai := 1, regen := 0,
    wg := [0.25, 0.25], w0 := 0.3, wmin := [0.1, 0.1], wnor := [0.3, 0.3], expc := [0.7, 0.4],
    wudich := [0, 0], wurz := 0, grw := 99, p0 := 0.4, p1 := 0.4, p2 := 0, g0 := 0.25, g1 := 0.25, g2 := 0,
    lukrit := 0, lumday := 0, trrelPrev := 1, etrelPrev := 1 }

example : WF frostDay ∧ frostDay.verdu0 < 0 ∧ (partition frostDay).verdu = 0 ∧ (partition frostDay).eta = 0 ∧
    (partition frostDay).fluss0 = 0 := by
  refine ⟨⟨by norm_num [frostDay], by norm_num [frostDay], by norm_num [frostDay], ?_, by norm_num [frostDay]⟩,
    by norm_num [frostDay], ?_, ?_, ?_⟩
  · intro d hd; simp [frostDay] at hd; rcases hd with rfl | rfl <;> norm_num
  all_goals
    simp only [partition, frostDay, capSplit, proz, redev, List.headD_cons, Bool.false_eq_true, if_false]
    norm_num

/-! ### non-vacuity: a concrete day under a crop satisfying every hypothesis used above -/

def cropDay : In ℚ :=
  { dz := 10, dt := 1, dtIdx := 1, crop := true, verdu0 := 0.5, elai := 0.4, regen := 0,
    wg := [0.12, 0.25, 0.28], w0 := 0.3, wmin := [0.1, 0.1, 0.1], wnor := [0.3, 0.3, 0.3], expc := [0.7, 0.4, 0.2],
    wudich := [2, 1, 0.5], wurz := 3, grw := 2, p0 := 0.4, p1 := 0.4, p2 := 0.4, g0 := 0.12, g1 := 0.25, g2 := 0.28,
    lukrit := 0.08, lumday := 1, trrelPrev := 1, etrelPrev := 1 }

example : WF cropDay ∧ cropDay.crop = true ∧
    (0 ≤ cropDay.trrelPrev ∧ cropDay.trrelPrev ≤ 1) ∧ (0 ≤ cropDay.etrelPrev ∧ cropDay.etrelPrev ≤ 1) := by
  refine ⟨⟨by norm_num [cropDay], by norm_num [cropDay], by norm_num [cropDay], ?_, by norm_num [cropDay]⟩,
    rfl, by norm_num [cropDay], by norm_num [cropDay]⟩
  intro d hd; simp [cropDay] at hd; rcases hd with rfl | rfl | rfl <;> norm_num

/-- the third layer of `cropDay` lies below the groundwater table (GRW = 2 < 3 = WURZ) -/
example : minRootGw cropDay.wurz cropDay.grw < (((2 + 1 : ℕ)) : ℚ) := by
  have h3 : (Conv.ofNat cropDay.wurz : ℚ) = 3 := by show ((3 : ℕ) : ℚ) = 3; norm_num
  have hg : cropDay.grw = 2 := rfl
  unfold minRootGw
  rw [h3, hg]
  norm_num

/-- hypotheses of `C08_tp_le_available` are satisfiable with the limiter engaged -/
example : (Water.limitTp (10 : ℚ) [0.5] [0.12] [0.1])[0]? = some (((0.12 : ℚ) - 0.1) * 10) := by
  simp only [Water.limitTp]; norm_num

end Hermes.Evatra

/-! ## The potential-ET part: five methods, `stomat`, day length (HermesModel/EvatraPet.lean)

The value of every transcendental call is a free variable (`Tr ℚ`); what a theorem assumes about
one of them is a named hypothesis (`exp > 0`, `pow(x, 2) = x²`, `log x ≥ 0` for `x ≥ 1`, the range of
the arc sine, …).  The model is tied to `hermes.Evatra` bit for bit by the kernels `pet.day` and
`evatra.full` (harness/cmd/check/c08_pet.go), with Go's own `math` functions as the oracle. -/
namespace Hermes.EvatraPet
open Hermes.Evatra

/-- the daily cap -/
def cap (crop : Bool) : ℚ := if crop then 0.65 else 0.6

/-- **Every method, every input.** The crop coefficient is applied to the method's value first,
then the floor at zero, then the cap (water.go:289-298, 462-470): whatever the method number, the
weather, the site, the coefficients and the values of the transcendental calls are, the potential
ET handed to the partition is `min cap (max 0 raw)` and lies in [0, cap]. No hypothesis. -/
theorem C08_pet_method_bounds (i : PIn ℚ) (t : Tr ℚ) (elai : ℚ) :
    verdunst i t elai = min (cap i.crop) (max 0 (petRaw i t).verdu0) ∧
    0 ≤ verdunst i t elai ∧ verdunst i t elai ≤ cap i.crop := by
  unfold verdunst cap
  exact ⟨capSplit_fst_eq _ _ _, capSplit_fst_nonneg _ _ _, capSplit_le _ _ _⟩

/-- **Haude** (method 1): the raw value is VERD · (Haude factor of the month, crop or bare) · 0.1;
the month index is always one of 1…12 (so with twelve factors one of them is taken). -/
theorem C08_haude_bounds (i : PIn ℚ) (t : Tr ℚ) (elai : ℚ) (h : i.meth = 1) :
    (petRaw i t).verdu0 = i.verd * monthFactor (if i.crop then i.fkf else i.fku) i.tagN * 0.1 ∧
    (1 ≤ fkm i.tagN ∧ fkm i.tagN ≤ 12) ∧
    0 ≤ verdunst i t elai ∧ verdunst i t elai ≤ cap i.crop := by
  refine ⟨?_, fkm_range _, (C08_pet_method_bounds i t elai).2⟩
  unfold petRaw
  cases hc : i.crop <;> simp [h, keep]

/-- **Turc-Wendling** (method 2): the crop coefficient (FKC under a crop, FKB on bare soil) is the
last-but-one factor of the raw value, before floor and cap. -/
theorem C08_turc_bounds (i : PIn ℚ) (t : Tr ℚ) (elai : ℚ) (h : i.meth = 2) :
    (petRaw i t).verdu0 =
      turc i.crop i.rad i.sund i.temp i.kcoa 1 (dayLength t) * (if i.crop then i.fkc else i.fkb) ∧
    0 ≤ verdunst i t elai ∧ verdunst i t elai ≤ cap i.crop := by
  refine ⟨?_, (C08_pet_method_bounds i t elai).2⟩
  have hraw : (petRaw i t).verdu0 =
      turc i.crop i.rad i.sund i.temp i.kcoa (if i.crop then i.fkc else i.fkb) (dayLength t) := by
    unfold petRaw
    cases hc : i.crop <;> simp [h, keep]
  rw [hraw, turc_linear]

/-- **ET0 column** (method 5): raw = ETNULL · kc · 0.1; a negative sentinel in the column gives a
negative raw value, which the floor removes. -/
theorem C08_et0column_bounds (i : PIn ℚ) (t : Tr ℚ) (elai : ℚ) (h : i.meth = 5) :
    (petRaw i t).verdu0 = i.etnull * (if i.crop then i.fkc else i.fkb) * 0.1 ∧
    (i.etnull < 0 → 0 < (if i.crop then i.fkc else i.fkb) → verdunst i t elai = 0) ∧
    0 ≤ verdunst i t elai ∧ verdunst i t elai ≤ cap i.crop := by
  have hraw : (petRaw i t).verdu0 = i.etnull * (if i.crop then i.fkc else i.fkb) * 0.1 := by
    unfold petRaw
    cases hc : i.crop <;> simp [h, keep]
  refine ⟨hraw, ?_, (C08_pet_method_bounds i t elai).2⟩
  intro hn hk
  rw [(C08_pet_method_bounds i t elai).1, hraw]
  have : i.etnull * (if i.crop then i.fkc else i.fkb) * 0.1 ≤ 0 := by nlinarith
  rw [max_eq_left this]
  unfold cap
  split_ifs <;> norm_num

/-- **Priestley-Taylor and Penman-Monteith** (methods 4 and 3): the reference ET is floored at zero
by the method itself (water.go:201-203, 286-288, 381-383, 459-461) for every input, the raw value
is ET0 · kc · 0.1 with the coefficient the call leaves in FKC (FKB on bare soil), so with a
non-negative coefficient the raw value is already non-negative. -/
theorem C08_reference_et_bounds (i : PIn ℚ) (t : Tr ℚ) (elai : ℚ) (h : i.meth = 3 ∨ i.meth = 4) :
    0 ≤ (petRaw i t).et0 ∧
    (petRaw i t).verdu0 = (petRaw i t).et0 * (petRaw i t).fkc * 0.1 ∧
    (petRaw i t).fkc = (if i.crop then i.fkc else i.fkb) ∧
    (0 ≤ (petRaw i t).fkc → 0 ≤ (petRaw i t).verdu0) ∧
    0 ≤ verdunst i t elai ∧ verdunst i t elai ≤ cap i.crop := by
  have key : 0 ≤ (petRaw i t).et0 ∧ (petRaw i t).verdu0 = (petRaw i t).et0 * (petRaw i t).fkc * 0.1 ∧
      (petRaw i t).fkc = (if i.crop then i.fkc else i.fkb) := by
    unfold petRaw
    rcases h with h | h
    · cases hc : i.crop <;> simp [h, penman, floor0_nonneg]
    · cases hc : i.crop <;> simp [h, keep, priestleyEt0, floor0_nonneg]
  refine ⟨key.1, key.2.1, key.2.2, ?_, (C08_pet_method_bounds i t elai).2⟩
  intro hk
  rw [key.2.1]
  have := mul_nonneg key.1 hk
  linarith

/-- **Wind floor.** The wind speed the Penman-Monteith formula uses (and leaves in the weather
record of the day) is at least 0.5 m/s, whatever was measured at whatever height. -/
theorem C08_wind_floor (i : PIn ℚ) (t : Tr ℚ) (h : i.meth = 3) : 0.5 ≤ (petRaw i t).wind := by
  unfold petRaw
  cases hc : i.crop <;> simp [h, penman, penmanParts] <;> exact wind2m_ge _ _ _

/-- **Day length clamps.** With the arc sine in its range [−π/2, π/2] (its argument is clamped to
[−1, 1] by `Limit`, polar day and polar night included) the astronomical and the effective day
length lie in [0, 24] h, and the effective one is the shorter when the arc sines are ordered. -/
theorem C08_daylength_range (t : Tr ℚ)
    (h1 : -(pi / 2) ≤ t.asDL ∧ t.asDL ≤ pi / 2) (h2 : -(pi / 2) ≤ t.asDLE ∧ t.asDLE ≤ pi / 2) :
    (0 ≤ (dayLength t).dl ∧ (dayLength t).dl ≤ 24) ∧ (0 ≤ (dayLength t).dle ∧ (dayLength t).dle ≤ 24) ∧
    (t.asDLE ≤ t.asDL → (dayLength t).dle ≤ (dayLength t).dl) ∧
    (∀ v : ℚ, -1 ≤ limit v 1 (-1) ∧ limit v 1 (-1) ≤ 1) := by
  refine ⟨?_, ?_, dle_le_dl t, limit_range⟩
  · rw [dayLength_dl]; exact hours_range _ h1.1 h1.2
  · rw [dayLength_dle]; exact hours_range _ h2.1 h2.2

/-- **Denominators of Turc-Wendling**: 150·(TEMP + 123) (radiation given; bare soil) and
150·(TEMP − 1 + 123) (sunshine hours under a crop) are positive above −122 °C; the third division,
by the day length, is guarded by `DL > 0` in the code. -/
theorem C08_turc_denominators_pos (temp : ℚ) (h : -122 < temp) :
    0 < turcDen temp ∧ 0 < turcDenSunCrop temp :=
  ⟨turcDen_pos temp (by linarith), turcDenSunCrop_pos temp h⟩

/-- Assumptions on the transcendental values used by the denominators of the two radiation
methods: `exp` is positive, `pow(x, 2)` is the square, `pow(x, 5.26)` of a positive base is positive. -/
structure RadOk (i : PIn ℚ) (t : Tr ℚ) : Prop where
  temp : -237.3 < i.temp
  tmin : -237.3 < i.tmin
  tmax : -237.3 < i.tmax
  alti : i.alti < 45000          -- base of the pressure power (293 − 0.0065·ALTI)/293 positive
  eT : 0 < t.eT
  eTmin : 0 < t.eTmin
  eTmax : 0 < t.eTmax
  pT2 : t.pT2 = (i.temp + 237.3) * (i.temp + 237.3)
  pAtm : 0 < t.pAtm

/-- **Denominators of Priestley-Taylor**: TEMP + 237.3 and TMIN + 237.3 (inside the exponents),
pow(TEMP + 237.3, 2) (slope Δ), and Δ + γ (crop branch) are positive; RS0 is positive whenever
the extraterrestrial radiation is (it is 0 in the polar night: the unguarded RAD·2/RS0 of
water.go:179, 258, 358 is then +Inf in IEEE arithmetic and clipped to 1 by the next line). -/
theorem C08_priestley_denominators_pos (i : PIn ℚ) (t : Tr ℚ) (h : RadOk i t) :
    0 < i.temp + 237.3 ∧ 0 < i.tmin + 237.3 ∧ 0 < t.pT2 ∧ 0 < deltsat t.eT t.pT2 ∧
    0 < deltsat t.eT t.pT2 + psych t.pAtm ∧
    (∀ ext : ℚ, 0 < ext → -37500 < i.alti → 0 < rs0 i.alti ext) := by
  have h1 : 0 < i.temp + 237.3 := by have := h.temp; linarith
  have h2 : 0 < t.pT2 := by rw [h.pT2]; exact mul_pos h1 h1
  have h3 := deltsat_pos t.eT t.pT2 h.eT h2
  have h4 := psych_pos t.pAtm h.pAtm
  exact ⟨h1, by have := h.tmin; linarith, h2, h3, by linarith, fun ext he ha => rs0_pos _ _ ha he⟩

/-- **Denominators of Penman-Monteith** for the state `st` = (RSTOM, SUND, RADSUM) left by `stomat`
with a non-negative canopy resistance: the exponents' TEMP/TMIN/TMAX + 237.3, pow(TEMP + 237.3, 2),
TEMP + 273, the logarithm of the wind-height conversion (measuring height above 0.0947 m, i.e.
67.8·WINDHI − 5.42 > 1, assumed: log of a number above 1 is positive), and the denominator
Δ + γ·(1 + rs/208·u₂) of the formula itself (u₂ ≥ 0.5 by the wind floor). -/
theorem C08_penman_denominators_pos (crop : Bool) (i : PIn ℚ) (t : Tr ℚ) (s : Sol ℚ) (st : ℚ × ℚ × ℚ)
    (h : RadOk i t) (hst : 0 ≤ st.1)
    (hlog : 1 < 67.8 * i.windhi - 5.42 → 0 < t.logW) (hwh : 0.0947 < i.windhi) :
    0 < i.temp + 237.3 ∧ 0 < 237.3 + i.tmin ∧ 0 < 237.3 + i.tmax ∧ 0 < t.pT2 ∧ 0 < i.temp + 273.0 ∧
    t.logW ≠ 0 ∧ 0.5 ≤ (penmanParts crop i t s st).wind ∧ 0 ≤ (penmanParts crop i t s st).rsurf ∧
    0 < (penmanParts crop i t s st).den := by
  have p := C08_priestley_denominators_pos i t h
  have hw : 0.5 ≤ wind2m i.wind i.windhi t.logW := wind2m_ge _ _ _
  have hl : 0 < t.logW := hlog (by linarith)
  have hr : 0 ≤ (penmanParts crop i t s st).rsurf := by
    unfold penmanParts
    simp only
    split_ifs
    · norm_num
    · exact div_nonneg hst (by norm_num)
  refine ⟨p.1, by have := h.tmin; linarith, by have := h.tmax; linarith, p.2.2.1, by norm_num; linarith,
    hl.ne', hw, hr, ?_⟩
  have : (penmanParts crop i t s st).den =
      penmanDen (deltsat t.eT t.pT2) (psych t.pAtm) (penmanParts crop i t s st).rsurf (wind2m i.wind i.windhi t.logW) := by
    unfold penmanParts; rfl
  rw [this]
  exact penmanDen_pos _ _ _ _ p.2.2.2.1 (psych_pos _ h.pAtm) hr (by linarith)

/-- **CO2 response of method 2** (`stomat`, water.go:711-729): with a non-negative radiation term
(RAD·20 or the sunshine estimate) the three denominators of KCO2 are positive above 80 ppm CO2. -/
theorem C08_kco2_denominators_pos (co2 g : ℚ) (hg : 0 ≤ g) (h : 80 < co2) :
    0 < (220.0 + 0.158 * g) + co2 - (80.0 - 0.0036 * g) ∧ 0 < 350.0 - (80.0 - 0.0036 * g) ∧
    0 < (220.0 + 0.158 * g) + 350.0 - (80.0 - 0.0036 * g) := by
  have := kco2_denominators_pos co2 (220.0 + 0.158 * g) (80.0 - 0.0036 * g) (by norm_num; linarith) (by norm_num; linarith) h
  exact ⟨this.1, this.2.1, this.2.2.1⟩

/-- What the positivity of the canopy resistance rests on: positive crop constants and CO2, a
non-negative saturation deficit and sunshine duration, a day on which the effective day is not
longer than the astronomical one, the clear-day radiation and the sine of the noon elevation are
positive when the sun rises above 8°, **CO2 above the compensation point 17.5·2^((T−10)/10) in the
first CO2 method**, `log x ≥ 0` for `x ≥ 1`, `0 < exp(−1.152) < 1`, `0 ≤ exp x < 1` for `x < 0`. -/
structure StomatOk (i : PIn ℚ) (t : Tr ℚ) (s : Sol ℚ) (satdef : ℚ) : Prop where
  alph : 0 < i.alph
  co2 : 0 < i.co2
  satbeta : 0 < i.satbeta
  satdef : 0 ≤ satdef
  sund : 0 ≤ i.sund
  dl : s.dle ≤ s.dl
  drc : 0 < s.dle → 0 < s.drc
  ssl : 0 < s.dle → 0 < t.sSsl ∧ t.sSsl ≤ 1
  comp : i.co2meth = 1 → 0 < t.p2T ∧ 17.5 * t.p2T < i.co2
  logX : 1 ≤ (photo i t s).xArg → 0 ≤ t.logX
  logY : 1 ≤ (photo i t s).yArg → 0 ≤ t.logY
  eGrass : 0 < t.eGrass ∧ t.eGrass < 1
  eC : saturArg (photo i t s).phc3 (photo i t s).phc4 < 0 → t.eC < 1
  eO : saturArg (photo i t s).pho3 (photo i t s).phc4 < 0 → t.eO < 1

/-- **Canopy resistance positive** (partial: for the first CO2 method only above the CO2
compensation point, see `C08_stomat_log_argument_fails_at`). `stomat` leaves RSTOM at the 100 s/m set
by the caller when the sun stays below 8° (DLE ≤ 0); otherwise AMAX ≥ 0.1 by the coded floor, the
arguments of both logarithms are ≥ 1, both assimilation closures and the daily gross assimilation
are positive, so RSTOM = CO2·(1 + SATDEF/SATBETA)/(ALPH·Agross) > 0. The sunshine hours are never
raised. -/
theorem C08_stomat_resistance_pos_partial (i : PIn ℚ) (t : Tr ℚ) (s : Sol ℚ) (satdef : ℚ)
    (h : StomatOk i t s satdef) :
    0 < (stomat i t s satdef 100.0).1 ∧ (s.dle ≤ 0 → (stomat i t s satdef 100.0).1 = 100) ∧
    (stomat i t s satdef 100.0).2.1 ≤ i.sund ∧
    (0 < s.dle → 0.1 ≤ (photo i t s).amax ∧ 1 ≤ (photo i t s).xArg ∧ 1 ≤ (photo i t s).yArg) := by
  by_cases hd : s.dle ≤ 0
  · have e : stomat i t s satdef 100.0 = (100.0, i.sund, i.radsumPrev) := by unfold stomat; rw [if_pos hd]
    rw [e]
    exact ⟨by norm_num, fun _ => by norm_num, le_refl _, fun h0 => absurd hd (not_le.mpr h0)⟩
  · have hd' : 0 < s.dle := not_le.mp hd
    have hok : PhotoOk i t s :=
      { dle := hd', dl := lt_of_lt_of_le hd' h.dl, drc := h.drc hd', ssl0 := (h.ssl hd').1, ssl1 := (h.ssl hd').2,
        comp := h.comp, logX := h.logX, logY := h.logY, eGrass0 := h.eGrass.1, eGrass1 := h.eGrass.2 }
    have hp := photo_pos i t s hok
    have hx := photo_xArg_ge i t s hok
    have hc := satur_pos _ _ t.eC hp.1 hp.2.1 (h.eC (saturArg_neg _ _ hp.1 hp.2.1))
    have ho := satur_pos _ _ t.eO hp.2.2 hp.2.1 (h.eO (saturArg_neg _ _ hp.2.2 hp.2.1))
    have hg := dtga_pos i s _ _ hc ho hd' h.sund
    have e : stomat i t s satdef 100.0 =
        (rstomOf i.alph i.co2 satdef i.satbeta
          (dtga i s (satur (photo i t s).phc3 (photo i t s).phc4 t.eC) (satur (photo i t s).pho3 (photo i t s).phc4 t.eO)).1,
         (dtga i s (satur (photo i t s).phc3 (photo i t s).phc4 t.eC) (satur (photo i t s).pho3 (photo i t s).phc4 t.eO)).2.1,
         (dtga i s (satur (photo i t s).phc3 (photo i t s).phc4 t.eC) (satur (photo i t s).pho3 (photo i t s).phc4 t.eO)).2.2) := by
      unfold stomat; rw [if_neg hd]
    rw [e]
    refine ⟨rstomOf_pos _ _ _ _ _ h.alph h.co2 h.satdef h.satbeta hg, fun h0 => absurd h0 hd, dtga_sund_le _ _ _ _,
      fun _ => ⟨?_, hx.1, hx.2⟩⟩
    rw [photo_amax]; exact stoAmax_ge i t s

/-- **Denominators of `stomat`** on a day with DLE > 0 (water.go:689, 741-745, 761-763, 776, 785, 790,
800-801), under the same assumptions: every one of them is positive. -/
theorem C08_stomat_denominators_pos (i : PIn ℚ) (t : Tr ℚ) (s : Sol ℚ) (satdef : ℚ)
    (h : StomatOk i t s satdef) (hd : 0 < s.dle) :
    0 < s.dle * 3600.0 ∧ 0 < t.sSsl * (photo i t s).amax ∧ 0 < (5.0 - t.sSsl) * (photo i t s).amax ∧
    0 < 1 + t.logX ∧ 0 < 1 + t.logY ∧ 0 < 5.0 * (photo i t s).amax ∧ 0 < 1 + (photo i t s).z ∧
    0 < (if (photo i t s).phc3 < (photo i t s).phc4 then (photo i t s).phc3 else (photo i t s).phc4) ∧
    0 < (if (photo i t s).pho3 < (photo i t s).phc4 then (photo i t s).pho3 else (photo i t s).phc4) ∧
    0 < 0.8 * s.drc ∧ 0 < i.co2 * (1 + satdef / i.satbeta) ∧
    (i.co2meth = 1 → 0 < i.co2 + 2.0 * (17.5 * t.p2T)) := by
  have hok : PhotoOk i t s :=
    { dle := hd, dl := lt_of_lt_of_le hd h.dl, drc := h.drc hd, ssl0 := (h.ssl hd).1, ssl1 := (h.ssl hd).2,
      comp := h.comp, logX := h.logX, logY := h.logY, eGrass0 := h.eGrass.1, eGrass1 := h.eGrass.2 }
  have hp := photo_pos i t s hok
  have hx := photo_xArg_ge i t s hok
  have hz := photo_z_nonneg i t s hok
  have ha : 0 < (photo i t s).amax := by rw [photo_amax]; have := stoAmax_ge i t s; linarith
  have hs5 : 0 < 5.0 - t.sSsl := by have := (h.ssl hd).2; norm_num; linarith
  have hsd : 0 ≤ satdef / i.satbeta := div_nonneg h.satdef h.satbeta.le
  refine ⟨by positivity, mul_pos (h.ssl hd).1 ha, mul_pos hs5 ha, by have := h.logX hx.1; linarith,
    by have := h.logY hx.2; linarith, by positivity, by linarith, ?_, ?_, by have := h.drc hd; positivity,
    mul_pos h.co2 (by linarith), ?_⟩
  · split_ifs
    · exact hp.1
    · exact hp.2.1
  · split_ifs
    · exact hp.2.2
    · exact hp.2.1
  · intro h1
    have := (h.comp h1).1
    have := h.co2
    nlinarith

/-- the same for the state the Penman-Monteith day under a crop leaves in RSTOM, with the
saturation deficit of the day (non-negative for a relative humidity of at most 100 %) -/
theorem C08_penman_rstom_pos_partial (i : PIn ℚ) (t : Tr ℚ) (h3 : i.meth = 3) (hc : i.crop = true)
    (hmin : 0 < t.eTmin) (hmax : 0 < t.eTmax) (hrh : i.rh ≤ 100)
    (h : ∀ sd : ℚ, 0 ≤ sd → StomatOk i t (dayLength t) sd) :
    0 < (petRaw i t).rstom ∧ (petRaw i t).sund ≤ i.sund := by
  have hs := satdefOf_nonneg i t hmin hmax hrh
  have := C08_stomat_resistance_pos_partial i t (dayLength t) (satdefOf i t) (h _ hs)
  have e : (petRaw i t).rstom = (stomat i t (dayLength t) (satdefOf i t) 100.0).1 ∧
      (petRaw i t).sund = (stomat i t (dayLength t) (satdefOf i t) 100.0).2.1 := by
    unfold petRaw
    simp [h3, hc, penman, stomatOf]
  rw [e.1, e.2]
  exact ⟨this.1, this.2.2.1⟩

/-! ### the excluded region: CO2 at or below the compensation point (first CO2 method) -/

/-- a hot day: daily mean 50 °C (2^((50−10)/10) = 16, compensation point 280 ppm) at 250 ppm CO2 -/
def hotDay : PIn ℚ :=
  { meth := 3, crop := true, tagN := 190, ctrans := true, co2meth := 1, verd := 0, temp := 50, tmin := 47, tmax := 53,
    rad := 12, sund := 10, rh := 30, wind := 2, etnull := 0, lat := 30, alti := 100, windhi := 2, kcoa := 1, fkc := 1,
    fkb := 0.4, co2 := 250, mintmp := 2, alph := 40, satbeta := 2.5, dt := 1, et0Prev := 0, rstomPrev := 100,
    satdefPrev := 0, radsumPrev := 0, fkf := [], fku := [] }

def hotTr : Tr ℚ :=
  { (Tr.ofList ([] : List ℚ)) with p2T := 16, sSsl := 0.9, logX := 0, logY := 0, eGrass := 0.316 }

def hotSol : Sol ℚ :=
  { dl := 14.5, dle := 13.2, ext := 40, rdn := 50000000, drc := 20000000, dec := 22, sinld := 0.2, cosld := 0.8,
    rdnRaw := 50000000 }

/-- **Outside the hypothesis the property fails**: at 50 °C and 250 ppm (first CO2 method) the
light-use efficiency is negative and the argument of the first logarithm of `stomat`
(water.go:741) is negative — `math.Log` returns NaN there, RSTOM becomes NaN and, with the CO2
influence on the stomata switched on, so do ET0 and the potential ET of the day, which neither
the floor nor the cap catches (replayed on the real code by the harness). -/
theorem C08_stomat_log_argument_fails_at :
    ¬ (17.5 * hotTr.p2T < hotDay.co2) ∧ (photo hotDay hotTr hotSol).effe < 0 ∧
    (photo hotDay hotTr hotSol).xArg < 0 := by
  refine ⟨by norm_num [hotTr, hotDay, Tr.ofList], ?_, ?_⟩ <;>
    simp only [photo, stoEff, stoAmax, amaxT, hotDay, hotTr, hotSol, Tr.ofList] <;> norm_num

/-! ### end to end -/

/-- admissible state for the whole of `Evatra`: as `WF` for the partition part, with
`elai = exp(−.5·LAI) ∈ [0, 1]` supplied from outside -/
structure FullWF (f : FIn ℚ) (elai : ℚ) : Prop where
  dz : 0 < f.part.dz
  elai0 : 0 ≤ elai
  elai1 : elai ≤ 1
  wudich : ∀ d ∈ f.part.wudich, 0 ≤ d
  top : f.part.wmin.headD 0 / 3 < f.part.w0

theorem partition_verdu (i : In ℚ) : (partition i).verdu = (capSplit i.crop i.verdu0 i.elai).1 := by
  unfold partition
  cases hc : i.crop <;> simp only [Bool.false_eq_true, if_false, if_true]

/-- **End to end.** For the whole model of `Evatra` (potential ET of the chosen method composed
with the partition): the potential ET the partition works with is the floored and capped value of
the method, it lies in [0, cap], and actual evaporation plus the uptake of all layers does not
exceed it — for all five methods (and unknown method numbers), all weather, all values of the
transcendental calls, all soil states. -/
theorem C08_full_actual_le_potential_le_cap (f : FIn ℚ) (t : Tr ℚ) (elai : ℚ) (expc : List ℚ)
    (h : FullWF f elai) :
    (full f t elai expc).2.verdu = verdunst f.p t elai ∧
    0 ≤ (full f t elai expc).2.verdu ∧ (full f t elai expc).2.verdu ≤ cap f.p.crop ∧
    0 ≤ (full f t elai expc).2.eta ∧
    (∀ x ∈ (full f t elai expc).2.tp, 0 ≤ x) ∧
    (full f t elai expc).2.eta + (full f t elai expc).2.tp.sum ≤ (full f t elai expc).2.verdu := by
  have hwf : WF { f.part with crop := f.p.crop, verdu0 := (petRaw f.p t).verdu0, elai := elai, expc := expc } :=
    { dz := h.dz, elai0 := h.elai0, elai1 := h.elai1, wudich := h.wudich, top := h.top }
  have e : (full f t elai expc).2 =
      partition { f.part with crop := f.p.crop, verdu0 := (petRaw f.p t).verdu0, elai := elai, expc := expc } := rfl
  have hv : (full f t elai expc).2.verdu = verdunst f.p t elai := by
    rw [e, partition_verdu]; rfl
  have hb := C08_pet_method_bounds f.p t elai
  refine ⟨hv, by rw [hv]; exact hb.2.1, by rw [hv]; exact hb.2.2, ?_, ?_, ?_⟩
  · rw [e]; exact (C08_eta_le_evmax _ hwf).1
  · rw [e]; exact C08_tp_nonneg _ hwf
  · rw [e]; exact (C08_actual_le_potential _ hwf).1

/-! ### non-vacuity: an ordinary midsummer day satisfies every hypothesis used above -/

def ordinaryDay : PIn ℚ :=
  { meth := 3, crop := true, tagN := 180, ctrans := true, co2meth := 1, verd := 8, temp := 20, tmin := 14, tmax := 26,
    rad := 0, sund := 8, rh := 60, wind := 3, etnull := 4, lat := 52, alti := 50, windhi := 10, kcoa := 1, fkc := 1.1,
    fkb := 0.4, co2 := 400, mintmp := 2, alph := 40, satbeta := 2.5, dt := 1, et0Prev := 3, rstomPrev := 100,
    satdefPrev := 0.9, radsumPrev := 500,
    fkf := [0.1, 0.1, 0.2, 0.3, 0.4, 0.4, 0.4, 0.3, 0.2, 0.1, 0.1, 0.1],
    fku := [0.1, 0.1, 0.1, 0.2, 0.2, 0.2, 0.2, 0.2, 0.1, 0.1, 0.1, 0.1] }

/-- rational stand-ins for the transcendental values of that day (2^((20−10)/10) = 2 exactly,
pow(257.3, 2) = 66203.29 exactly) -/
def ordinaryTr : Tr ℚ :=
  { sDec := 0.99, sinDec := 0.39, sinLat := 0.79, cosDec := 0.92, cosLat := 0.62, asDL := 0.55, sin8 := 0.139,
    asDLE := 0.27, cosYear := -0.99, tanLat := 1.28, tanDec := 0.43, sha := 2.15, sinSha := 0.84, pw2 := 0.29,
    sq := 0.84, eDrc := 0.99, pAtm := 0.994, eTmax := 5.5, eTmin := 2.6, eTminPT := 2.6, eT := 3.83,
    pT2 := 66203.29, p4min := 6797000000, p4max := 8010000000, sqVap := 1.22, sqVapPT := 1.26, logW := 6.51,
    p2T := 2, cosTag := -0.99, sSsl := 0.88, logX := 5.1, logY := 3.6, eGrass := 0.316, eC := 0.02, eO := 0.3 }

example : RadOk ordinaryDay ordinaryTr ∧ (0.0947 : ℚ) < ordinaryDay.windhi ∧
    (1 < 67.8 * ordinaryDay.windhi - 5.42 → 0 < ordinaryTr.logW) ∧ (-122 : ℚ) < ordinaryDay.temp := by
  refine ⟨⟨?_, ?_, ?_, ?_, ?_, ?_, ?_, ?_, ?_⟩, ?_, ?_, ?_⟩ <;> norm_num [ordinaryDay, ordinaryTr]

example : (-(pi / 2) ≤ ordinaryTr.asDL ∧ ordinaryTr.asDL ≤ pi / 2) ∧
    (-(pi / 2) ≤ ordinaryTr.asDLE ∧ ordinaryTr.asDLE ≤ pi / 2) ∧ ordinaryTr.asDLE ≤ ordinaryTr.asDL := by
  norm_num [ordinaryTr, pi]

/-- the hypotheses of the canopy-resistance theorems hold on that day (sun above 8° for 14 h) -/
example : ∀ sd : ℚ, 0 ≤ sd → StomatOk ordinaryDay ordinaryTr (dayLength ordinaryTr) sd := by
  intro sd hsd
  have hdle : (dayLength ordinaryTr).dle = 12.0 * (pi + 2.0 * 0.27) / pi := dayLength_dle _
  have hdl : (dayLength ordinaryTr).dl = 12.0 * (pi + 2.0 * 0.55) / pi := dayLength_dl _
  have hdl0 : 0 < (dayLength ordinaryTr).dl := by rw [hdl]; norm_num [pi]
  have hdrc : 0 < (dayLength ordinaryTr).drc := by
    unfold dayLength
    simp only
    rw [if_pos (by norm_num [ordinaryTr, pi])]
    norm_num [ordinaryTr, pi]
  exact
    { alph := by norm_num [ordinaryDay], co2 := by norm_num [ordinaryDay], satbeta := by norm_num [ordinaryDay],
      satdef := hsd, sund := by norm_num [ordinaryDay],
      dl := by rw [hdle, hdl]; norm_num [pi],
      drc := fun _ => hdrc,
      ssl := fun _ => by norm_num [ordinaryTr],
      comp := fun _ => by norm_num [ordinaryTr, ordinaryDay],
      logX := fun _ => by norm_num [ordinaryTr], logY := fun _ => by norm_num [ordinaryTr],
      eGrass := by norm_num [ordinaryTr],
      eC := fun _ => by norm_num [ordinaryTr], eO := fun _ => by norm_num [ordinaryTr] }

/-- a composed state satisfying `FullWF` (the `cropDay` of the partition part under `ordinaryDay`) -/
example : FullWF { p := ordinaryDay, part := cropDay, lai := 1.8, prop := 0.3 } 0.4 := by
  refine ⟨by norm_num [cropDay], by norm_num, by norm_num, ?_, by norm_num [cropDay]⟩
  intro d hd; simp [cropDay] at hd; rcases hd with rfl | rfl | rfl <;> norm_num

end Hermes.EvatraPet
