/-
Post-tokenisation models of the remaining paired readers of property C13:
soil profile text vs CSV (soil.go:97-305), crop rotation text vs CSV (input.go:354-432,568-571),
the value mapping of the three weather layouts (weather_input.go:104-583, 585-606).
Core Lean only.
-/
namespace Hermes.InputFormats

/-! ### soil horizons -/
section
variable {α : Type} [Mul α] [Div α] [BEq α] [OfNat α 0] [OfNat α 10] [OfNat α 100] [OfScientific α]

/-- tokens of one horizon line (either encoding) -/
structure HorizonTok (α : Type) where
  corg : α
  cn : α
  stone : α          -- percent
  ld : Nat           -- bulk density class
  bulk : Option α    -- CSV only: column BulkDensity present and not empty
  fc : Option α      -- TryValAsFloat results (blank = none)
  wp : Option α
  pv : Option α
  sand : Option α
  silt : Option α
  clay : Option α

structure Horizon (α : Type) where
  ld : Nat
  bulk : α
  cgehalt : α
  cnratio : α
  ngehalt : α
  humus : α
  stein : α
  fka : α
  wp : α
  gpv : α
  ssand : α
  sluf : α
  ton : α

/-- BulkDensityClassToDensity (soil.go:308-321); other classes leave the zero of a new record -/
def classDensity (ld : Nat) : α :=
  if ld = 1 then 1.1 else if ld = 2 then 1.3 else if ld = 3 then 1.5 else if ld = 4 then 1.7
  else if ld = 5 then 1.85 else 0

/-- cNSetup (soil.go:615-625) -/
def cnOf (cn : α) : α := if cn == 0 then 10 else cn

/-- LoadSoil, one horizon (soil.go:131-177) -/
def horizonTxt (h : HorizonTok α) : Horizon α :=
  { ld := h.ld, bulk := classDensity h.ld, cgehalt := h.corg, cnratio := cnOf h.cn,
    ngehalt := h.corg / cnOf h.cn, humus := h.corg * 1.72 / 100, stein := h.stone / 100,
    fka := h.fc.getD 0, wp := h.wp.getD 0, gpv := h.pv.getD 0,
    ssand := h.sand.getD 0, sluf := h.silt.getD 0, ton := h.clay.getD 0 }

/-- LoadSoilCSV, one horizon (soil.go:236-287) -/
def horizonCsv (h : HorizonTok α) : Horizon α :=
  { ld := h.ld,
    bulk := match h.bulk with
      | some b => b
      | none => classDensity h.ld,
    cgehalt := h.corg, cnratio := cnOf h.cn,
    ngehalt := h.corg / cnOf h.cn, humus := h.corg * 1.72 / 100, stein := h.stone / 100,
    fka := h.fc.getD 0, wp := h.wp.getD 0, gpv := h.pv.getD 0,
    ssand := h.sand.getD 0, sluf := h.silt.getD 0, ton := h.clay.getD 0 }

end

/-! ### rotation lines -/

/-- what one rotation line assigns (texts; number parsing is the same `ValAsFloat` in both) -/
structure RotLine where
  field : String
  crop : String
  sow : String
  harvest : String
  rex : String
  yld : String
  autorg : Option String     -- `len(tokens) > hOrgDung`
  variety : Option String    -- `len(tokens) > hVariety`
  deriving DecidableEq, Repr

structure RotIdx where
  field : Nat := 0
  crop : Nat := 1
  sow : Nat := 2
  harvest : Nat := 3
  rex : Nat := 4
  yld : Nat := 5
  autorg : Nat := 6
  variety : Nat := 7
  deriving DecidableEq, Repr

def pick (ix : RotIdx) (toks : List String) : RotLine :=
  { field := toks.getD ix.field "", crop := toks.getD ix.crop "", sow := toks.getD ix.sow "",
    harvest := toks.getD ix.harvest "", rex := toks.getD ix.rex "", yld := toks.getD ix.yld "",
    autorg := if toks.length > ix.autorg then some (toks.getD ix.autorg "") else none,
    variety := if toks.length > ix.variety then some (toks.getD ix.variety "") else none }

/-- text file: `strings.Fields`, default positions (input.go:358-368) -/
def rotTxt (toks : List String) : RotLine := pick {} toks

/-- header scan of the CSV reader (input.go:373-392): recognised names move the index -/
def headerIdx : List String → Nat → RotIdx → RotIdx
  | [], _, ix => ix
  | t :: rest, i, ix =>
    headerIdx rest (i + 1)
      (if t = "Field_ID" then { ix with field := i }
       else if t = "crop" then { ix with crop := i }
       else if t = "sowing" then { ix with sow := i }
       else if t = "harvest" then { ix with harvest := i }
       else if t = "Rex" then { ix with rex := i }
       else if t = "yld" then { ix with yld := i }
       else if t = "autorg" then { ix with autorg := i }
       else if t = "variety" then { ix with variety := i }
       else ix)

/-- CSV file: `strings.Split(line, ",")`, positions from the header -/
def rotCsv (header toks : List String) : RotLine := pick (headerIdx header 0 {}) toks

/-- the two headers in use: the shipped examples ("crp", "harvst": not recognised, defaults stay)
and the recognised names -/
def shippedHeader : List String := ["Field_ID", "crp", "sowing", "harvst", "Rex", "yld", "autorg", "variety", "comment"]
def recognisedHeader : List String := ["Field_ID", "crop", "sowing", "harvest", "Rex", "yld", "autorg", "variety", "comment"]

/-! ### weather: value mapping of one day -/
section
variable {α : Type} [Add α] [Mul α] [Div α] [LT α] [DecidableLT α] [OfNat α 2] [OfNat α 10] [OfScientific α]

structure WDay (α : Type) where
  tmin : α
  tavg : α
  tmax : α
  precip : α
  rad : α
  wind : α
  rh : α

/-- stored values after transformWeatherData (precipitation mm → cm × correction, PAR = rad/2,
wind floored at 0.5 m/s on every loaded day, weather_input.go:590-606) -/
structure WStored (α : Type) where
  tmp : α
  tmi : α
  tma : α
  reg : α
  radi : α
  relf : α
  win : α

def store (cor : α) (tavg : α) (d : WDay α) : WStored α :=
  { tmp := tavg, tmi := d.tmin, tma := d.tmax, reg := d.precip / 10 * cor, radi := d.rad / 2,
    relf := d.rh, win := if d.wind < 0.5 then 0.5 else d.wind }

/-- one file per year (WetterK, weather_input.go:149-171): columns 0,1,2,4,6,8,9 -/
def dayYearFile (cor : α) (d : WDay α) : WStored α := store cor d.tavg d
/-- multi-year CSV (ReadWeatherCSV, 375-391) -/
def dayCsv (cor : α) (d : WDay α) : WStored α := store cor d.tavg d
/-- day-of-year layout (ReadWeatherCZ, 521-547): the mean is derived -/
def dayCz (cor : α) (d : WDay α) : WStored α := store cor ((d.tmax + d.tmin) / 2) d

end
end Hermes.InputFormats
