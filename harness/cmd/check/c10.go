package main

// C10 — scheduled management actions take effect exactly once, on time, in full.
//
// Whole generated simulations with steered fertiliser / tillage / irrigation schedules (several
// fields per file, four date formats, events before the start and after the end, same-day pairs,
// consecutive days, every fertiliser of FERTILIZ.TXT) are run in-process; the probes give the
// cursors and the affected state before and after the first sub-step of every day.
//   correspondence: event arrays after hermes.Input (ZTDG/ZTBR/EINTE, payload, fertiliser split) and
//     the executions of the three cursors against the Lean model (HermesModel/Schedule.lean);
//   search: the property predicate on the implementation (executions = in-period events, in order,
//     once, on time; state jumps = table split; irrigation in the rain of the day before Evatra;
//     the management event file shows the same executions; fixed sowing / harvest dates).

import (
	"fmt"
	"math"
	"os"
	"path/filepath"
	"strconv"
	"strings"

	"verifharness/proj"
	"verifharness/vh"
)

func init() { register("C10", checkC10) }

type c10acc struct {
	fertCases, fertImpl     []string
	tilCases, tilImpl       []string
	irrCases, irrImpl       []string
	runCases, runImpl       []string
	waterCases, waterImpl   []string
	tillogCases, tillogImpl []string
	inputs                  map[string]interface{}
}

func (a *c10acc) add(cases, impl *[]string, key, cs, im string, payload interface{}) {
	*cases = append(*cases, cs)
	*impl = append(*impl, im)
	a.inputs[cs] = payload
}

func firedStr(x []execRec) string {
	if len(x) == 0 {
		return "(none)"
	}
	p := make([]string, len(x))
	for i, e := range x {
		p[i] = fmt.Sprintf("%d:%d", e.Zeit, e.Slot)
	}
	return strings.Join(p, " ")
}

func checkC10(c *vh.Ctx) {
	table, err := loadFertTable(c.Repo)
	if err != nil {
		c.Violate("correspondence", "c10:fertiliser-table", err.Error(), nil)
		return
	}
	root := filepath.Join(c.Scratch, "runs")
	os.MkdirAll(root, 0o755)
	nRuns := c.N(400, 6000)
	c.Res.Rule = fmt.Sprintf("%d generated whole simulations (1-2 years, bare soil or rotations, four date formats, schedules with pre-start / post-end events, same-day pairs, consecutive days, lines of other fields, all %d fertilisers of FERTILIZ.TXT, global factor 33-120 %%); evaluations = scheduled events and simulated days judged; schedule lines with amount 0 / 0 mm / depth 0, files laid out with random other-field lines, as a chronological merge of several fields or grouped, rendered with blanks / tabs / trailing comment; plus triples of projects in one session (sequential in two orders and overlapping) compared with their solo runs; non-trivial = distinct (run, action kind) with at least one in-period event", nRuns, len(table))
	acc := &c10acc{inputs: map[string]interface{}{}}
	for k := 0; k < nRuns; k++ {
		c10Run(c, c.Rng.Fork(), k, table, root, acc)
	}
	desc := func(cases []string) func(i int) interface{} {
		return func(i int) interface{} { return acc.inputs[cases[i]] }
	}
	c.Correspond("schedule.fert", acc.fertCases, acc.fertImpl, 1e-9, 1e-12, desc(acc.fertCases))
	c.Correspond("schedule.til", acc.tilCases, acc.tilImpl, 0, 0, desc(acc.tilCases))
	c.Correspond("schedule.irr", acc.irrCases, acc.irrImpl, 0, 0, desc(acc.irrCases))
	c.Correspond("schedule.run", acc.runCases, acc.runImpl, 0, 0, desc(acc.runCases))
	c10SessionStage(c, table)
	c.Correspond("schedule.tillog", acc.tillogCases, acc.tillogImpl, 0, 0, desc(acc.tillogCases))
	c.Correspond("schedule.irrigate", acc.waterCases, acc.waterImpl, 1e-9, 1e-12, desc(acc.waterCases))
}

func c10Run(c *vh.Ctx, r *vh.Rng, k int, table []fertRow, root string, acc *c10acc) {
	name := fmt.Sprintf("s%d", k)
	noCrop := r.Chance(0.35) || k < 9
	p := proj.Gen(r, name, proj.Opt{Management: true, Years: r.Range(1, 2), NoCrop: noCrop, MaxLayers: 10})
	start, end := p.Start(), p.End()
	annD, annM := r.Range(1, 28), r.Range(1, 12)
	format := k % 4
	last := end.Z()
	if az := (proj.Date{Y: end.Y, M: annM, D: annD}).Z(); az >= last {
		last = az + 1 // run.go:137-139: the run is extended to the day after the annual output date
	}
	s0 := start.Z()
	pct := []int{100, 100, 50, 75, 120, 33, 0, 0, 1, 250}[r.Intn(10)] // 0 = the unfertilised control scenario
	p.Cfg["Fertilization"] = strconv.Itoa(pct)
	factor := float64(pct) / 100
	p.SetFormat(format, end, annD, annM)
	sch := genC10Schedules(r, p, k, table, s0, last, false)
	fertAll, irrAll, tilAll, fertOwn, irrOwn, tilOwn := sch.FertAll, sch.IrrAll, sch.TilAll, sch.FertOwn, sch.IrrOwn, sch.TilOwn

	replay := map[string]interface{}{"project": p, "date_format": format, "start_day": s0, "expected_last_day": last,
		"fertiliser_lines": fertAll, "irrigation_lines": irrAll, "tillage_lines": tilAll, "fertilisation_factor_pct": pct, "file_layout": sch.Layout, "file_style": sch.Style,
		"how": "proj.Project JSON: write with Project.Write + WriteManagementConf, run with proj.Run (harness/cmd/check/c10.go c10Run); day numbers are days since 31.12.1900"}
	slots := len(fertOwn) + len(irrOwn) + len(tilOwn) + len(p.Rot) + 6
	tr, err := runTraced(c, root, p, slots, func(root string) error {
		if err := p.WriteScheduleStyle(root, sch.Style); err != nil {
			return err
		}
		if k%7 == 3 {
			c.Count("files:without-end-line")
			if err := p.StripScheduleEnd(root); err != nil { // schedule files that stop without the "end" line
				return err
			}
		}
		if len(tilAll) == 0 && k%2 == 1 {
			c.Count("files:no-tillage-file")
			return p.RemoveTillageFile(root) // no tillage schedule at all (the file is optional)
		}
		return nil
	})
	if err != nil {
		c.Violate("search", "harness:write", err.Error(), replay)
		return
	}
	if tr.Res.Panic != "" || tr.Res.Err != nil || tr.Snap == nil || len(tr.Days) == 0 {
		c.Violate("search", "run:failed", fmt.Sprintf("generated run did not complete: err=%v panic=%q", tr.Res.Err, tr.Res.Panic), replay)
		return
	}
	days, snap := tr.Days, tr.Snap
	lastDay := days[len(days)-1].Zeit
	if days[0].Zeit != s0 {
		c.Violate("search", "run:start-day", fmt.Sprintf("first simulated day %d, harvest date of the pre-crop is day %d", days[0].Zeit, s0), replay)
		return
	}
	if lastDay != last {
		c.Note("run %s: last simulated day %d, expected %d (end date / annual output rule)", name, lastDay, last)
	}
	c.Count(fmt.Sprintf("format:%d", format))
	if noCrop {
		c.Count("rotation:bare")
	} else {
		c.Count("rotation:crops")
	}

	inPeriod := func(all []schedEv) (evs []schedEv, dates []int, pre int) {
		for _, e := range all {
			if !e.Own {
				continue
			}
			if e.Z < s0 {
				pre++
				continue
			}
			evs = append(evs, e)
			dates = append(dates, e.Z)
		}
		return
	}

	// ================================================= correspondence: arrays after Input
	{
		var sb strings.Builder
		fmt.Fprintf(&sb, "schedule.fert %d %s %d", s0, vh.FHex(factor), len(fertAll))
		rowOf := map[string]fertRow{}
		for _, t := range table {
			rowOf[t.Code] = t
		}
		for _, e := range fertAll {
			t := rowOf[e.Kind]
			fmt.Fprintf(&sb, " %d %d %s %s", b2iSch(e.Own), e.Z, vh.FHex(float64(e.A)), vh.FVals(t.Ntot, t.Ndir, t.Nfst, t.Nslo, t.NH4, t.Loss))
		}
		own := len(fertOwn)
		im := intsStr(snap.ZTDG[:own+2])
		for i := 1; i <= own; i++ {
			im += " " + vh.FVals(snap.NDIR[i], snap.NH4N[i], snap.NSAS[i], snap.NLAS[i])
		}
		acc.add(&acc.fertCases, &acc.fertImpl, "fert", sb.String(), im, map[string]interface{}{"run": name, "lines": fertAll, "start_day": s0, "factor": factor})
		acc.add(&acc.runCases, &acc.runImpl, "run", fmt.Sprintf("schedule.run 0 %d %d %d %s", s0, len(days), own+2, intsStr(snap.ZTDG[:own+2])), "", nil)
	}
	{
		var sb strings.Builder
		fmt.Fprintf(&sb, "schedule.til %d %d", s0, len(tilAll))
		for _, e := range tilAll {
			fmt.Fprintf(&sb, " %d %d %d %d", b2iSch(e.Own), e.Z, e.A, e.B)
		}
		own := len(tilOwn)
		xs := append([]int(nil), snap.EINTE[1:own+2]...)
		for i := 0; i < own; i++ {
			xs = append(xs, int(snap.EINT[i]))
		}
		xs = append(xs, snap.TILART[:own]...)
		acc.add(&acc.tilCases, &acc.tilImpl, "til", sb.String(), intsStr(xs), map[string]interface{}{"run": name, "lines": tilAll, "start_day": s0})
		acc.add(&acc.runCases, &acc.runImpl, "run", fmt.Sprintf("schedule.run 2 %d %d %d %s 0", s0, len(days), own+1, intsStr(snap.EINTE[1:own+2])), "", nil)
	}
	{
		var sb strings.Builder
		fmt.Fprintf(&sb, "schedule.irr %d %d", s0, len(irrAll))
		for _, e := range irrAll {
			fmt.Fprintf(&sb, " %d %d %d %d", b2iSch(e.Own), e.Z, e.A, e.B)
		}
		own := len(irrOwn)
		xs := append([]int(nil), snap.ZTBR[:own]...)
		for i := 0; i < own; i++ {
			xs = append(xs, int(snap.BREG[i]))
		}
		for i := 0; i < own; i++ {
			xs = append(xs, int(snap.BRKZ[i]))
		}
		im := intsStr(xs)
		if own == 0 {
			im = "(none)"
		}
		acc.add(&acc.irrCases, &acc.irrImpl, "irr", sb.String(), im, map[string]interface{}{"run": name, "lines": irrAll, "start_day": s0})
		acc.add(&acc.runCases, &acc.runImpl, "run", fmt.Sprintf("schedule.run 1 %d %d %d %s", s0, len(days), own+1, intsStr(snap.ZTBR[:own+1])), "", nil)
	}
	nRun := len(acc.runCases)

	// ================================================= executions seen by the probes
	var fertEx, tilEx, irrEx, harEx []execRec
	prevNBR := 1
	for i, d := range days {
		c.Eval()
		// cursors only move in the first sub-step / in the irrigation block
		if i > 0 && (d.NDG != days[i-1].NDG1 || d.NTIL != days[i-1].NTIL1) {
			c.Violate("search", "run:cursor:moved-outside-substep1", fmt.Sprintf("day %d: fertiliser/tillage cursor changed between two days outside the first sub-step", d.Zeit), replay)
		}
		harvestToday := d.AKF1 != d.AKF
		// while a crop stands PhytoOut feeds dead plant material into NFOS/NAOS in the same sub-step
		// (crop.go:495,530,659): the organic pools are then only judged through DSUMM / NH4Sum
		growing := d.AKF >= 1 && d.Saat > 0 && d.Zeit >= d.Saat && d.Zeit <= d.Ernte2
		if math.IsNaN(d.SF) || math.IsNaN(d.SA) || math.IsNaN(d.SF1) || math.IsNaN(d.SA1) {
			growing = true // organic pools already not-a-number (residues of a failed crop; C06/C07 territory): not judged here
			c.Count("days:organic-pools-nan")
		}
		switch {
		case d.NDG1 == d.NDG+1:
			fertEx = append(fertEx, execRec{d.Zeit, d.NDG})
		case d.NDG1 != d.NDG:
			c.Violate("search", "run:fertilization:cursor-jump", fmt.Sprintf("day %d: fertiliser cursor went from %d to %d in one day", d.Zeit, d.NDG, d.NDG1), replay)
		default:
			if !harvestToday && (d.DSUMM1 != d.DSUMM || d.NH4Sum1 != d.NH4Sum || (!growing && (!nearSch(d.SF1, d.SF, d.SF) || !nearSch(d.SA1, d.SA, d.SA)))) {
				c.Violate("search", "run:fertilization:unscheduled-jump", fmt.Sprintf("day %d: fertiliser pools changed without a fertiliser execution: dDSUMM=%g dNH4Sum=%g d(NFOS+MINFOS)=%g d(NAOS+MINAOS)=%g", d.Zeit, d.DSUMM1-d.DSUMM, d.NH4Sum1-d.NH4Sum, d.SF1-d.SF, d.SA1-d.SA), replay)
			}
		}
		switch {
		case d.NTIL1 == d.NTIL+1:
			tilEx = append(tilEx, execRec{d.Zeit, d.NTIL})
		case d.NTIL1 != d.NTIL:
			c.Violate("search", "run:tillage:cursor-jump", fmt.Sprintf("day %d: tillage cursor went from %d to %d in one day", d.Zeit, d.NTIL, d.NTIL1), replay)
		}
		if harvestToday {
			harEx = append(harEx, execRec{d.Zeit, d.AKF})
		}
		switch {
		case d.NBR == prevNBR+1:
			irrEx = append(irrEx, execRec{d.Zeit, prevNBR - 1})
			breg := snap.BREG[prevNBR-1]
			// irrigation enters the rain of the day before Evatra computes the surface flux
			if d.EffIrr != breg/10 || !nearSch(d.Regen, d.RegenDaily+d.EffIrr, d.Regen) {
				c.Violate("search", "run:irrigation:amount", fmt.Sprintf("day %d: irrigation of %g mm: EffectiveIRRIG=%g cm, rain of the day %g -> %g cm", d.Zeit, breg, d.EffIrr, d.RegenDaily, d.Regen), replay)
			}
			if !nearSch(d.Fluss0, -(d.ETA - d.Regen), d.Regen) {
				c.Violate("search", "run:irrigation:not-in-infiltration", fmt.Sprintf("day %d: surface flux %g cm/d does not contain the irrigation: rain+irrigation %g cm, evaporation %g cm", d.Zeit, d.Fluss0, d.Regen, d.ETA), replay)
			}
			acc.add(&acc.waterCases, &acc.waterImpl, "water", "schedule.irrigate "+vh.FVals(d.RegenDaily, breg, d.ETA), vh.FVals(d.EffIrr, d.Regen, d.Fluss0), map[string]interface{}{"run": name, "day": d.Zeit})
		case d.NBR != prevNBR:
			c.Violate("search", "run:irrigation:cursor-jump", fmt.Sprintf("day %d: irrigation cursor went from %d to %d", d.Zeit, prevNBR, d.NBR), replay)
		default:
			if d.EffIrr != 0 || d.Regen != d.RegenDaily {
				c.Violate("search", "run:irrigation:unscheduled", fmt.Sprintf("day %d: rain of the day changed (%g -> %g cm, EffectiveIRRIG %g) without an irrigation execution", d.Zeit, d.RegenDaily, d.Regen, d.EffIrr), replay)
			}
		}
		prevNBR = d.NBR
	}
	acc.runImpl[nRun-3] = firedStr(fertEx)
	acc.runImpl[nRun-2] = firedStr(tilEx)
	acc.runImpl[nRun-1] = firedStr(irrEx)
	for i := nRun - 3; i < nRun; i++ {
		acc.inputs[acc.runCases[i]] = map[string]interface{}{"run": name, "project": p}
	}

	// ================================================= search: the property predicate
	// fertiliser (slot 0 = residues of the pre-crop, dated BEGINN, not a scheduled action)
	userEx := fertEx
	if len(userEx) > 0 && userEx[0].Slot == 0 {
		userEx = userEx[1:]
	}
	byDay := map[int]*dayRec{}
	for i := range days {
		byDay[days[i].Zeit] = &days[i]
	}
	rowOf := map[string]fertRow{}
	for _, t := range table {
		rowOf[t.Code] = t
	}
	fEvs, fDates, fPre := inPeriod(fertAll)
	fCls := evClass(fDates, s0, true)
	if len(fEvs) > 0 {
		c.Nontrivial(name + "/fert")
	}
	c.Res.Evaluations += len(fEvs)
	c.Res.Distribution["fert:pre-start-events"] += fPre
	evalExactlyOnce(c, "fertilization", fDates, fCls, lastDay, userEx, func(j int, e execRec) string {
		ev := fEvs[j]
		c.Count("fertiliser:" + ev.Kind)
		if e.Slot >= len(snap.DGART) || snap.DGART[e.Slot] != ev.Kind {
			return fmt.Sprintf("slot %d holds fertiliser %q, scheduled %q", e.Slot, snap.DGART[e.Slot], ev.Kind)
		}
		nd, nh, ns, nl := rowOf[ev.Kind].split(float64(ev.A), factor)
		d := byDay[e.Zeit]
		if d.AKF1 != d.AKF {
			c.Count("fert:jump-check-skipped-harvest-day")
			return ""
		}
		growing := d.AKF >= 1 && d.Saat > 0 && d.Zeit >= d.Saat && d.Zeit <= d.Ernte2
		if math.IsNaN(d.SF) || math.IsNaN(d.SA) || math.IsNaN(d.SF1) || math.IsNaN(d.SA1) {
			growing = true
		}
		if growing {
			c.Count("fert:organic-jump-check-skipped-crop-standing")
		} else {
			c.Count("fert:organic-jump-checked")
		}
		if !nearSch(d.DSUMM1-d.DSUMM, nd, d.DSUMM1) || !nearSch(d.NH4Sum1-d.NH4Sum, nh, d.NH4Sum1) || (!growing && (!nearSch(d.SF1-d.SF, ns, d.SF1) || !nearSch(d.SA1-d.SA, nl, d.SA1))) {
			c.Violate("search", "run:fertilization:amount", fmt.Sprintf("%d %s x %d %% on day %d: pools changed by dDSUMM=%g dNH4Sum=%g dNFOS=%g dNAOS=%g, the table gives %g %g %g %g",
				ev.A, ev.Kind, pct, e.Zeit, d.DSUMM1-d.DSUMM, d.NH4Sum1-d.NH4Sum, d.SF1-d.SF, d.SA1-d.SA, nd, nh, ns, nl), replay)
		}
		return ""
	}, replay)

	tEvs, tDates, tPre := inPeriod(tilAll)
	if len(tEvs) > 0 {
		c.Nontrivial(name + "/til")
	}
	c.Res.Evaluations += len(tEvs)
	evalExactlyOnce(c, "tillage", tDates, evClass(tDates, s0, false), lastDay, tilEx, func(j int, e execRec) string {
		if int(snap.EINT[e.Slot]) != tEvs[j].A || snap.TILART[e.Slot] != tEvs[j].B {
			return fmt.Sprintf("slot %d holds depth %g type %d, scheduled depth %d type %d", e.Slot, snap.EINT[e.Slot], snap.TILART[e.Slot], tEvs[j].A, tEvs[j].B)
		}
		return ""
	}, replay, func(e execRec) string {
		// the only tillage lines of the field are dated before the start, the last one on the eve of it
		if len(tEvs) == 0 && tPre > 0 && e.Zeit == s0 {
			return "prestart-event-on-eve-of-start"
		}
		return "unscheduled"
	})

	iEvs, iDates, iPre := inPeriod(irrAll)
	iCls := make([]string, len(iDates))
	for j := range iCls {
		iCls[j] = "plain"
		if iPre > 0 {
			iCls[j] = "prestart-in-file"
		}
	}
	if len(iEvs) > 0 {
		c.Nontrivial(name + "/irr")
	}
	c.Res.Evaluations += len(iEvs)
	c.Res.Distribution["irr:pre-start-events"] += iPre
	evalExactlyOnce(c, "irrigation", iDates, iCls, lastDay, irrEx, func(j int, e execRec) string {
		if e.Slot >= len(snap.BREG) || int(snap.BREG[e.Slot]) != iEvs[j].A {
			return fmt.Sprintf("slot %d holds %g mm, scheduled %d mm", e.Slot, snap.BREG[e.Slot], iEvs[j].A)
		}
		return ""
	}, replay)

	// sowing and harvest on the dates of the rotation file (fixed dates)
	var sowDates, harDates []int
	for i := 1; i < len(p.Rot); i++ {
		sowDates = append(sowDates, p.Rot[i].Sow.Z())
		harDates = append(harDates, p.Rot[i].Harvest.Z())
	}
	plain := func(n int) []string {
		x := make([]string, n)
		for i := range x {
			x[i] = "plain"
		}
		return x
	}
	realHar := harEx
	if len(realHar) > 0 && realHar[0].Slot == 0 {
		realHar = realHar[1:] // the pre-crop's harvest date is the start day
	}
	evalExactlyOnce(c, "harvest", harDates, plain(len(harDates)), lastDay, realHar, func(j int, e execRec) string {
		if e.Slot != j+1 {
			return fmt.Sprintf("rotation entry %d harvested, expected entry %d", e.Slot, j+1)
		}
		return ""
	}, replay)

	// ================================================= management event file
	zOf := map[string]int{}
	for z := s0; z <= lastDay; z++ {
		zOf[dotted(z, format)] = z
	}
	mev := proj.ParseMEvents(tr.Res.Out.File("M"))
	byKind := map[string][]proj.MEvent{}
	for _, e := range mev {
		byKind[e.Kind] = append(byKind[e.Kind], e)
	}
	cmp := func(kind string, ex []execRec) {
		got := byKind[kind]
		ok := len(got) == len(ex)
		for i := 0; ok && i < len(ex); i++ {
			ok = got[i].Date == dotted(ex[i].Zeit, format)
		}
		if !ok {
			var gd []string
			for _, g := range got {
				gd = append(gd, g.Date)
			}
			c.Violate("search", "run:event-file:"+kind, fmt.Sprintf("management event file lists %d %s events %v, the run executed %d: %s", len(got), kind, gd, len(ex), firedStr(ex)), replay)
		}
	}
	cmp("fertilization", fertEx)
	// a tillage of depth 0 moves the cursor but is not an event of the file (nitro.go: `if g.EINT[NTIL] > 0`)
	var tilLogged []execRec
	tilDay := map[string]bool{}
	for _, e := range byKind["tillage"] {
		tilDay[e.Date] = true
	}
	for _, e := range tilEx {
		if e.Slot < len(snap.EINT) {
			if snap.EINT[e.Slot] > 0 {
				tilLogged = append(tilLogged, e)
			} else {
				c.Count("tillage:executed:depth-0")
			}
			cs := fmt.Sprintf("schedule.tillog %d", int(snap.EINT[e.Slot]))
			acc.tillogCases = append(acc.tillogCases, cs)
			acc.tillogImpl = append(acc.tillogImpl, strconv.Itoa(b2iSch(tilDay[dotted(e.Zeit, format)])))
			acc.inputs[cs] = map[string]interface{}{"run": name, "day": e.Zeit}
		}
	}
	cmp("tillage", tilLogged)
	cmp("irrigation", irrEx)
	cmp("harvest", realHar)
	var sowEx []execRec
	for i, e := range byKind["sowing"] {
		z, ok := zOf[e.Date]
		if !ok {
			c.Violate("search", "run:event-file:sowing-date", fmt.Sprintf("sowing event with a date outside the simulated period: %s", e.Date), replay)
		}
		sowEx = append(sowEx, execRec{z, i + 1})
	}
	evalExactlyOnce(c, "sowing", sowDates, plain(len(sowDates)), lastDay, sowEx, func(j int, e execRec) string {
		want := p.Rot[j+1].Crop
		if got := strings.TrimSpace(byKind["sowing"][j].Attrs["Crop"]); got != want {
			return fmt.Sprintf("crop %q sown, rotation entry %d is %q", got, j+1, want)
		}
		return ""
	}, replay)
	if k < 2 {
		c.Sample(map[string]interface{}{"run": name, "days": len(days), "fertiliser_events": len(fEvs), "fertiliser_executed": firedStr(userEx), "irrigation_executed": firedStr(irrEx), "tillage_executed": firedStr(tilEx), "event_file_lines": len(mev)})
	}
}

func b2iSch(b bool) int {
	if b {
		return 1
	}
	return 0
}
