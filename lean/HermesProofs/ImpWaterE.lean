/-
Refinement of the regenerated translation of `hermes.Water` — part E: the surface-flux stage of `run` (top4: infiltration /
evaporation / no flux) is the model's `phaseSurface`.
-/
import HermesProofs.ImpWaterD

namespace Hermes.ImpWater
open Hermes.Imp Hermes.Water
open Hermes.ImpSoiltemp (vw vw_length vw_getElem rd_wr_nat getD_of_lt vw_getD)
open Hermes.Generated.Imp.Water

/-- `Q1[1..N]` -/
def qsOf (Q : List ℚ) (N : Nat) : List ℚ := (List.range N).map (fun (d : Nat) => rd Q ((d + 1 : Nat) : Int))

@[simp] theorem qsOf_length (Q : List ℚ) (N : Nat) : (qsOf Q N).length = N := by simp [qsOf]

theorem qsOf_getElem (Q : List ℚ) (N j : Nat) (h : j < (qsOf Q N).length) : (qsOf Q N)[j] = rd Q ((j + 1 : Nat) : Int) := by
  simp [qsOf]

theorem infil_qdrain_zero (dz : ℚ) (dd : Nat) (df : ℚ) : ∀ (rest : List (ℚ × ℚ)) (a : ℚ) (k : Nat), dd < k →
    (infil dz dd df a k rest).2.2 = 0 := by
  intro rest
  induction rest with
  | nil => intro a k _; simp [infil]
  | cons x rest ih =>
    intro a k hk
    obtain ⟨wa, w⟩ := x
    simp only [infil]
    have hne : ¬ (k = dd) := by omega
    split
    · rfl
    · simp only [hne, if_false]
      exact ih _ (k + 1) (by omega)

theorem brk_false_eta (t : St ℚ) (hb : t.brk = false) : t = { t with brk := false } := by
  cases t; simp_all

theorem stage2 (m : MathFns ℚ) (hm : MathOK m) (t : St ℚ) (N : Nat) (hN : t.g_N = (N : Int)) (hpos : 1 ≤ N)
    (hb : t.brk = false) (hq : t.g_QDRAIN = 0)
    (lW1 : N + 1 ≤ t.v_WATER_1.length) (lQ : N + 1 ≤ t.g_Q1.length) (lE : N + 1 ≤ t.l_EV.length) (lL : N ≤ t.l_LIMIT.length) :
    ∃ A Q E L qd a a1 wl, top4 m t = { t with v_WATER_1 := A, g_Q1 := Q, l_EV := E, l_LIMIT := L, g_QDRAIN := qd, v_a := a, v_a1 := a1, v_wlost := wl, brk := false } ∧
      A.length = t.v_WATER_1.length ∧ Q.length = t.g_Q1.length ∧ E.length = t.l_EV.length ∧ L.length = t.l_LIMIT.length ∧
      vw A N = (phaseSurface (inOf t N) (vw t.v_WATER_0 N)).wa1 ∧ rd A (N : Int) = rd t.v_WATER_1 (N : Int) ∧
      rd Q 0 = (phaseSurface (inOf t N) (vw t.v_WATER_0 N)).qTop ∧
      qsOf Q N = (phaseSurface (inOf t N) (vw t.v_WATER_0 N)).qs ∧
      qd = (phaseSurface (inOf t N) (vw t.v_WATER_0 N)).qdrain ∧
      vw E N = (phaseSurface (inOf t N) (vw t.v_WATER_0 N)).ev ∧
      rd E (N : Int) = (phaseSurface (inOf t N) (vw t.v_WATER_0 N)).evTail := by
  have h0 : (0.0 : ℚ) = 0 := by norm_num
  have lq0 : 0 < t.g_Q1.length := by omega
  by_cases hpos' : 0 < t.g_FLUSS0
  · -- infiltration
    have hst : ∃ t1 : St ℚ, t1 = { t with v_a := t.g_FLUSS0 * t.p_wdt, g_Q1 := wr t.g_Q1 0 (t.g_FLUSS0 * t.p_wdt) } := ⟨_, rfl⟩
    obtain ⟨t1, ht1⟩ := hst
    have f1 : t1.g_N = (N : Int) := by rw [ht1]; exact hN
    have f2 : t1.brk = false := by rw [ht1]; exact hb
    have f3 : t1.v_WATER_1 = t.v_WATER_1 := by rw [ht1]
    have f4 : t1.g_Q1 = wr t.g_Q1 0 (t.g_FLUSS0 * t.p_wdt) := by rw [ht1]
    have f5 : t1.g_QDRAIN = 0 := by rw [ht1]; exact hq
    have f6 : t1.v_a = t.g_FLUSS0 * t.p_wdt := by rw [ht1]
    have f7 : infRest t1 0 N = (vw t.v_WATER_0 N).zip (vw t.g_W N) := by rw [infRest_zero, ht1]
    have f8 : t1.g_DZ_Num = t.g_DZ_Num ∧ t1.g_DRAIDEP = t.g_DRAIDEP ∧ t1.g_DRAIFAK = t.g_DRAIFAK := by rw [ht1]; exact ⟨rfl, rfl, rfl⟩
    obtain ⟨A, Q, a', b, qd, e, lA, lQ', p1, p2, pq⟩ := infil_loop m N N 0 t1 (by omega) f1 f2
      (by rw [f3]; omega) (by rw [f4]; simp only [length_wr]; exact lQ) (fun _ => f5)
    rw [f8.1, f8.2.1, f8.2.2, f6, f7] at p1 p2 pq
    rw [f3] at lA p1
    rw [f4] at lQ' p2
    have hloop : loopUp (fun s => s.brk) 1 (t.g_N + 1) (loop3 m) t1
        = loopUpN (fun s => s.brk) (loop3 m) N (((0 : Nat) + 1 : Nat) : Int) t1 := by
      unfold loopUp
      rw [hN]
      have : ((N : Int) + 1 - 1).toNat = N := by omega
      rw [this]
      rfl
    have hS : phaseSurface (inOf t N) (vw t.v_WATER_0 N)
        = { wa1 := (infil t.g_DZ_Num t.g_DRAIDEP.toNat t.g_DRAIFAK (t.g_FLUSS0 * t.p_wdt) (0 + 1) ((vw t.v_WATER_0 N).zip (vw t.g_W N))).1,
            qTop := t.g_FLUSS0 * t.p_wdt,
            qs := (infil t.g_DZ_Num t.g_DRAIDEP.toNat t.g_DRAIFAK (t.g_FLUSS0 * t.p_wdt) (0 + 1) ((vw t.v_WATER_0 N).zip (vw t.g_W N))).2.1,
            qdrain := (infil t.g_DZ_Num t.g_DRAIDEP.toNat t.g_DRAIFAK (t.g_FLUSS0 * t.p_wdt) (0 + 1) ((vw t.v_WATER_0 N).zip (vw t.g_W N))).2.2,
            ev := vw t.l_EV N, evTail := rd t.l_EV (N : Int) } := by
      simp only [phaseSurface, inOf, hpos', ↓reduceIte]
    rw [hS]
    obtain ⟨hl1, hl2⟩ := infil_lengths t.g_DZ_Num t.g_DRAIDEP.toNat t.g_DRAIFAK ((vw t.v_WATER_0 N).zip (vw t.g_W N)) (t.g_FLUSS0 * t.p_wdt) (0 + 1)
    have hzl : ((vw t.v_WATER_0 N).zip (vw t.g_W N)).length = N := by simp
    refine ⟨A, Q, t.l_EV, t.l_LIMIT, qd, a', t.v_a1, t.v_wlost, ?_, lA, by rw [lQ']; simp, rfl, rfl, ?_, ?_, ?_, ?_, ?_, rfl, rfl⟩
    · simp only [top4, h0, hpos', ↓reduceIte]
      rw [← ht1, hloop, e, ht1]
    · apply List.ext_getElem
      · rw [vw_length, hl1, hzl]
      · intro j h1 h2
        have hj : j < N := by simpa using h1
        rw [vw_getElem, p1 j]
        have : 0 ≤ j ∧ j < N := by omega
        simp only [this, and_self, if_true, Nat.sub_zero]
        rw [getD_of_lt _ _ h2]
    · rw [p1 N]
      have : ¬ (0 ≤ N ∧ N < N) := by omega
      simp [this]
    · have := p2 0
      simp only [Nat.cast_zero] at this
      rw [this]
      have hc : ¬ (0 + 1 ≤ 0 ∧ 0 ≤ N) := by omega
      simp only [hc, if_false]
      have := rd_wr_nat t.g_Q1 0 0 (t.g_FLUSS0 * t.p_wdt) lq0
      simpa using this
    · apply List.ext_getElem
      · rw [qsOf_length, hl2, hzl]
      · intro j h1 h2
        have hj : j < N := by simpa using h1
        rw [qsOf_getElem, p2 (j + 1)]
        have : 0 + 1 ≤ j + 1 ∧ j + 1 ≤ N := by omega
        simp only [this, and_self, if_true]
        have e : j + 1 - (0 + 1) = j := by omega
        rw [e, getD_of_lt _ _ h2]
    · rw [pq]
      by_cases hd : t.g_DRAIDEP.toNat < 0 + 1
      · simp only [hd, if_true]
        rw [f5, infil_qdrain_zero _ _ _ _ _ _ hd]
      · simp only [hd, if_false]
  · by_cases hneg : t.g_FLUSS0 < 0
    · -- evaporation
      have habs : m.abs t.g_FLUSS0 = -t.g_FLUSS0 := hm.abs_neg _ hneg
      have hst : ∃ t1 : St ℚ, t1 = { t with v_a1 := -t.g_FLUSS0 * t.p_wdt, g_Q1 := wr t.g_Q1 0 0 } := ⟨_, rfl⟩
      obtain ⟨t1, ht1⟩ := hst
      have f1 : t1.g_N = (N : Int) := by rw [ht1]; exact hN
      have f2 : t1.brk = false := by rw [ht1]; exact hb
      have f3 : t1.v_WATER_1 = t.v_WATER_1 := by rw [ht1]
      have f4 : t1.g_Q1 = wr t.g_Q1 0 0 := by rw [ht1]
      have f5 : t1.l_EV = t.l_EV := by rw [ht1]
      have f6 : t1.v_a1 = -t.g_FLUSS0 * t.p_wdt := by rw [ht1]
      have f7 : evRest t1 0 N = zip3 (vw t.v_WATER_0 N) (vw t.g_WMIN N) (vw t.l_EV N) := by rw [evRest_zero, ht1]
      have f8 : t1.g_DZ_Num = t.g_DZ_Num ∧ t1.p_wdt = t.p_wdt ∧ t1.l_LIMIT = t.l_LIMIT := by rw [ht1]; exact ⟨rfl, rfl, rfl⟩
      obtain ⟨A, Q, E, L, a1f, wlf, bf, e, lA, lQ', lE', lL', p1, p2, p3⟩ := evap_loop m N N 0 t1 (by omega) f1 f2
        (by rw [f3]; omega) (by rw [f4]; simp only [length_wr]; exact lQ) (by rw [f5]; exact lE) (by rw [f8.2.2]; exact lL)
      rw [f8.1, f8.2.1, f6, f7] at p1 p2 p3
      rw [f3] at lA p1
      rw [f4] at lQ' p2
      rw [f5] at lE' p3
      rw [f8.2.2] at lL'
      have hloop : loopUp (fun s => s.brk) 0 t.g_N (loop5 m) t1
          = loopUpN (fun s => s.brk) (loop5 m) N ((0 : Nat) : Int) t1 := by
        unfold loopUp
        rw [hN]
        have : ((N : Int) - 0).toNat = N := by omega
        rw [this]
        rfl
      have hS : phaseSurface (inOf t N) (vw t.v_WATER_0 N)
          = { wa1 := (evap t.g_DZ_Num t.p_wdt (-t.g_FLUSS0 * t.p_wdt) none (zip3 (vw t.v_WATER_0 N) (vw t.g_WMIN N) (vw t.l_EV N))).1,
              qTop := 0,
              qs := (evap t.g_DZ_Num t.p_wdt (-t.g_FLUSS0 * t.p_wdt) none (zip3 (vw t.v_WATER_0 N) (vw t.g_WMIN N) (vw t.l_EV N))).2.1,
              qdrain := 0,
              ev := (evap t.g_DZ_Num t.p_wdt (-t.g_FLUSS0 * t.p_wdt) none (zip3 (vw t.v_WATER_0 N) (vw t.g_WMIN N) (vw t.l_EV N))).2.2.1,
              evTail := addOpt (rd t.l_EV (N : Int)) (evap t.g_DZ_Num t.p_wdt (-t.g_FLUSS0 * t.p_wdt) none (zip3 (vw t.v_WATER_0 N) (vw t.g_WMIN N) (vw t.l_EV N))).2.2.2 } := by
        simp only [phaseSurface, inOf, hpos', hneg, ↓reduceIte]
        congr 1
        cases (evap t.g_DZ_Num t.p_wdt (-t.g_FLUSS0 * t.p_wdt) none (zip3 (vw t.v_WATER_0 N) (vw t.g_WMIN N) (vw t.l_EV N))).2.2.2 <;> rfl
      rw [hS]
      obtain ⟨hl1, hl2, hl3⟩ := evap_lengths t.g_DZ_Num t.p_wdt (zip3 (vw t.v_WATER_0 N) (vw t.g_WMIN N) (vw t.l_EV N)) (-t.g_FLUSS0 * t.p_wdt) none
      have hzl : (zip3 (vw t.v_WATER_0 N) (vw t.g_WMIN N) (vw t.l_EV N)).length = N := by simp [zip3_length]
      refine ⟨A, Q, E, L, t.g_QDRAIN, t.v_a, a1f, wlf, ?_, lA, by rw [lQ']; simp, lE', lL', ?_, ?_, ?_, ?_, hq, ?_, ?_⟩
      · simp only [top4, h0, hpos', hneg, ↓reduceIte, habs]
        rw [← ht1, hloop, e, ht1]
      · apply List.ext_getElem
        · rw [vw_length, hl1, hzl]
        · intro j h1 h2
          have hj : j < N := by simpa using h1
          rw [vw_getElem, p1 j]
          have : 0 ≤ j ∧ j < N := by omega
          simp only [this, and_self, if_true, Nat.sub_zero]
          rw [getD_of_lt _ _ h2]
      · rw [p1 N]
        have : ¬ (0 ≤ N ∧ N < N) := by omega
        simp [this]
      · have := p2 0
        simp only [Nat.cast_zero] at this
        rw [this]
        have hc : ¬ (0 + 1 ≤ 0 ∧ 0 ≤ N) := by omega
        simp only [hc, if_false]
        have := rd_wr_nat t.g_Q1 0 0 0 lq0
        simpa using this
      · apply List.ext_getElem
        · rw [qsOf_length, hl2, hzl]
        · intro j h1 h2
          have hj : j < N := by simpa using h1
          rw [qsOf_getElem, p2 (j + 1)]
          have : 0 + 1 ≤ j + 1 ∧ j + 1 ≤ N := by omega
          simp only [this, and_self, if_true]
          have e : j + 1 - (0 + 1) = j := by omega
          rw [e, getD_of_lt _ _ h2]
      · apply List.ext_getElem
        · rw [vw_length, hl3, hzl]
        · intro j h1 h2
          have hj : j < N := by simpa using h1
          rw [vw_getElem, p3 j]
          have : 0 ≤ j ∧ j < N := by omega
          simp only [this, and_self, if_true, Nat.sub_zero]
          rw [getD_of_lt _ _ h2]
      · rw [p3 N]
        have : ¬ (0 ≤ N ∧ N < N) := by omega
        simp [this]
    · -- no flux through the surface: the profile is copied, Q1[0] keeps its value
      obtain ⟨A, Q, e, lA, lQ', p1, p2⟩ := loop7_spec m t N hN (by omega) lQ
      have hS : phaseSurface (inOf t N) (vw t.v_WATER_0 N)
          = { wa1 := vw t.v_WATER_0 N, qTop := rd t.g_Q1 0, qs := (vw t.v_WATER_0 N).map (fun _ => (0 : ℚ)), qdrain := 0,
              ev := vw t.l_EV N, evTail := rd t.l_EV (N : Int) } := by
        simp only [phaseSurface, inOf, hpos', hneg, ↓reduceIte]
      rw [hS]
      refine ⟨A, Q, t.l_EV, t.l_LIMIT, t.g_QDRAIN, t.v_a, t.v_a1, t.v_wlost, ?_, lA, lQ', rfl, rfl, ?_, ?_, ?_, ?_, hq, rfl, rfl⟩
      · simp only [top4, h0, hpos', hneg, ↓reduceIte]
        rw [e]
        cases t; simp_all
      · apply List.ext_getElem
        · simp
        · intro j h1 h2
          have hj : j < N := by simpa using h1
          rw [vw_getElem, p1 j, vw_getElem]
          simp [hj]
      · rw [p1 N]; simp
      · have := p2 0
        simp only [Nat.cast_zero] at this
        rw [this]; simp
      · apply List.ext_getElem
        · simp
        · intro j h1 h2
          have hj : j < N := by simpa using h1
          rw [qsOf_getElem, p2 (j + 1)]
          have : 1 ≤ j + 1 ∧ j + 1 ≤ N := by omega
          simp [this]

end Hermes.ImpWater
