import HermesModel.Proto
import HermesModel.Nitro
import HermesModel.Mineral
open Hermes Hermes.Proto

namespace Hermes.Driver

def b2s_Nitro (b : Bool) : String := if b then "1" else "0"

/-- `nitro.nmove N first draidep outn inSeason afterSow  dz wdt dv fluss0 qdrain stab schnorr pesum
aufnasum outsum nleag drainloss  q[N] wg[N+1] w[N+1] d[N] c1[N] pe[N] dn[N]` -/
def nitroNmove (toks : List String) : Option String := do
  let (n, r) ← popNat toks
  let (first, r) ← popNat r
  let (draidep, r) ← popNat r
  let (outn, r) ← popNat r
  let (inSeason, r) ← popNat r
  let (afterSow, r) ← popNat r
  let (sc, r) ← popFloats 12 r
  let (q, r) ← popFloats n r
  let (wg, r) ← popFloats (n + 1) r
  let (w, r) ← popFloats (n + 1) r
  let (d, r) ← popFloats n r
  let (c1, r) ← popFloats n r
  let (pe, r) ← popFloats n r
  let (dn, _) ← popFloats n r
  match sc with
  | [dz, wdt, dv, fluss0, qdrain, stab, schnorr, pesum, aufnasum, outsum, nleag, drainloss] =>
    let i : Nitro.In Float :=
      { dz := dz, wdt := wdt, dv := dv, first := first == 1, fluss0 := fluss0, q := q, qdrain := qdrain,
        draidep := draidep, outn := outn, wg := wg, w := w, d := d, c1 := c1, pe := pe, dn := dn, stab := stab,
        inSeason := inSeason == 1, afterSow := afterSow == 1, schnorr := schnorr, pesum := pesum,
        aufnasum := aufnasum, outsum := outsum, nleag := nleag, drainloss := drainloss }
    let o := Nitro.step i
    some (fmtFloats (o.c1 ++ o.pe ++ o.carr ++ o.v ++ o.db ++ o.disp ++ o.konv ++
      [o.pesum, o.aufnasum, o.outsum, o.nleag, o.drainloss]) ++ " " ++ b2s_Nitro o.unstable)
  | _ => none

def popLayers : Nat → Toks → Option (List (Mineral.Layer Float) × Toks)
  | 0, r => some ([], r)
  | k + 1, r => do
    let (x, r) ← popFloats 13 r
    let (ls, r) ← popLayers k r
    match x with
    | [tdUp, tdLo, kt0, kt1, wg, wnor, wmin, porges, w, naos, nfos, minaos, minfos] =>
      pure ({ tdUp, tdLo, kt0, kt1, wg, wnor, wmin, porges, w, naos, nfos, minaos, minfos } :: ls, r)
    | _ => none

/-- `nitro.mineral num  dsumm nh4sum wred ums nh4ums n2onitsum minsum  (13 floats per layer)` -/
def nitroMineral (toks : List String) : Option String := do
  let (num, r) ← popNat toks
  let (sc, r) ← popFloats 7 r
  let (ls, _) ← popLayers num r
  match sc with
  | [dsumm, nh4sum, wred, ums, nh4ums, n2onitsum, minsum] =>
    let res := Mineral.run dsumm nh4sum wred ls { ums, nh4ums, n2onitsum, minsum }
    let per := res.1.foldr (fun (o : Mineral.LayerOut Float) acc =>
      [o.naos, o.nfos, o.minaos, o.minfos, o.dn, o.dums, o.dnh4] ++ acc) []
    some (fmtFloats (per ++ [res.2.ums, res.2.nh4ums, res.2.n2onitsum, res.2.minsum]))
  | _ => none

/-- `nitro.tillage nN nM mix  eint dz  nfos[nN] naos[nN] c1[nN] minfos[nM] minaos[nM]` -/
def nitroTillage (toks : List String) : Option String := do
  let (nN, r) ← popNat toks
  let (nM, r) ← popNat r
  let (mix, r) ← popNat r
  let (sc, r) ← popFloats 2 r
  let (nfos, r) ← popFloats nN r
  let (naos, r) ← popFloats nN r
  let (c1, r) ← popFloats nN r
  let (minfos, r) ← popFloats nM r
  let (minaos, _) ← popFloats nM r
  match sc with
  | [eint, dz] =>
    let m := Mineral.mixLayers eint dz
    let mc := min m nM
    let o := Mineral.tillage m (Conv.ofNat m : Float) (Conv.ofNat mc : Float) (mix == 1) nfos naos minfos minaos c1
    some ("ok " ++ toString m ++ " " ++ fmtFloats (o.nfos ++ o.naos ++ o.c1 ++ o.minfos ++ o.minaos))
  | _ => none

/-- `nitro.denitr c0 c1 c2 ftheta ftemp cumdenit` -/
def nitroDenitr (toks : List String) : Option String := do
  let (sc, _) ← popFloats 6 toks
  match sc with
  | [c0, c1, c2, ftheta, ftemp, cum] =>
    let o := Mineral.denitr c0 c1 c2 ftheta ftemp cum
    some (fmtFloats (o.c ++ [o.cumdenit]))
  | _ => none

/-- `nitro.denitmo c[9] ftheta[3] ftemp[3] cumdenit` -/
def nitroDenitmo (toks : List String) : Option String := do
  let (sc, _) ← popFloats 16 toks
  match sc with
  | [a0, a1, a2, b0, b1, b2, e0, e1, e2, ft1, ft2, ft3, fm1, fm2, fm3, cum] =>
    let r1 := Mineral.denitmoBlock false a0 a1 a2 ft1 fm1
    let r2 := Mineral.denitmoBlock false b0 b1 b2 ft2 fm2
    let r3 := Mineral.denitmoBlock true e0 e1 e2 ft3 fm3
    some (fmtFloats (r1.1 ++ r2.1 ++ r3.1 ++ [cum + r1.2 + r2.2 + r3.2]))
  | _ => none

def nitroOps (toks : List String) : String :=
  match toks with
  | "nitro.nmove" :: rest => (nitroNmove rest).getD "bad-op"
  | "nitro.mineral" :: rest => (nitroMineral rest).getD "bad-op"
  | "nitro.tillage" :: rest => (nitroTillage rest).getD "bad-op"
  | "nitro.denitr" :: rest => (nitroDenitr rest).getD "bad-op"
  | "nitro.denitmo" :: rest => (nitroDenitmo rest).getD "bad-op"
  | _ => "bad-op"

end Hermes.Driver
