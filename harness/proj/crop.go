package proj

import (
	"fmt"
	"os"
	"path/filepath"
	"strings"

	"verifharness/vh"
)

// Crop-focused project generator (property C09): one shipped parameter set of an annual main crop is
// grown first (optionally followed by further random annual crops) under a chosen weather scenario,
// CO2 method, crop-parameter format and N supply level.

// ParamSet is one shipped parameter set of an annual main crop: crop code + variety ("" = PARAM.<code>).
type ParamSet struct {
	Code    string
	Variety string
}

func (s ParamSet) String() string {
	if s.Variety == "" {
		return s.Code
	}
	return s.Code + "_" + s.Variety
}

// AnnualParamSets lists PARAM.<code> / PARAM_<variety>.<code> of examples/parameter for the crops of
// `Crops` (the annual main crops). Permanent crops (AA, GR), catch crops (OEL, PH, SE, WRC, ORH) and
// CCM are not in `Crops` and therefore not listed.
func AnnualParamSets(repo string) []ParamSet {
	var out []ParamSet
	dir := filepath.Join(repo, "examples", "parameter")
	ents, err := os.ReadDir(dir)
	if err != nil {
		return nil
	}
	have := map[string]bool{}
	for _, c := range Crops {
		have[c.Code] = true
	}
	for _, e := range ents {
		n := e.Name()
		if !strings.HasPrefix(n, "PARAM") || strings.HasSuffix(n, ".yml") {
			continue
		}
		dot := strings.LastIndex(n, ".")
		code := n[dot+1:]
		if !have[code] {
			continue
		}
		head := n[:dot] // PARAM or PARAM_<variety>
		variety := ""
		if strings.HasPrefix(head, "PARAM_") {
			variety = head[len("PARAM_"):]
		} else if head != "PARAM" {
			continue
		}
		// both formats must be shipped
		if _, err := os.Stat(filepath.Join(dir, n+".yml")); err != nil {
			continue
		}
		out = append(out, ParamSet{code, variety})
	}
	return out
}

func CalOf(code string) CropCal {
	for _, c := range Crops {
		if c.Code == code {
			return c
		}
	}
	return Crops[0]
}

// CropOpt steers GenCrop.
type CropOpt struct {
	Set         ParamSet
	Yml         bool
	CO2         int    // 1..3
	NLevel      int    // 0 none, 1 low, 2 normal, 3 excess
	Scenario    string // normal | drought | frost | wet | heat
	AutoHarvest bool
	Followers   int // further random annual crops after the target crop
	AfterLey    string // "" | "GR" | "AA": a ley (one rotation line of a permanent crop) is grown before the target crop
	EarlyCut    bool   // the target crop is cut green, long before it ripens
	SunOutage   bool   // weather with a sunshine column and two-/three-day outages of sunshine and radiation in the growing season
}

// GenCrop draws a project whose first grown crop is o.Set.
func GenCrop(r *vh.Rng, name string, o CropOpt) *Project {
	years := 3
	if o.AfterLey != "" {
		years = 4
	}
	p := Gen(r, name, Opt{Years: years, NoCrop: true, ShallowGW: o.Scenario == "wet", MinLayers: 3})
	// ---- rotation: target crop, then followers
	start := p.Rot[0].Harvest
	end := p.End()
	cur := start
	add := func(c CropCal, variety string) bool {
		sowY := cur.Y
		sow := Date{sowY, c.SowM, c.SowD}.AddDays(r.Range(-12, 12))
		for sow.Z() <= cur.Z()+5 {
			sowY++
			sow = Date{sowY, c.SowM, c.SowD}.AddDays(r.Range(-12, 12))
		}
		hy := sow.Y
		if c.Winter {
			hy++
		}
		har := Date{hy, c.HarM, c.HarD}.AddDays(r.Range(-12, 20))
		if har.Z() > end.Z()-20 {
			return false
		}
		p.Rot = append(p.Rot, RotEntry{Crop: c.Code, Sow: sow, Harvest: har, Rex: r.Intn(100), Variety: variety})
		cur = har
		return true
	}
	if o.AfterLey != "" {
		// the ley: sown shortly after the start, ploughed in after one or two seasons (a single rotation line; stands that are
		// cut several times are entered as several lines and are not generated here)
		sow := start.AddDays(r.Range(8, 30))
		har := sow.AddDays(r.Range(150, 420))
		p.Rot = append(p.Rot, RotEntry{Crop: o.AfterLey, Sow: sow, Harvest: har, Rex: r.Intn(100)})
		cur = har
	}
	add(CalOf(o.Set.Code), o.Set.Variety)
	if o.EarlyCut && len(p.Rot) > 1 {
		t := &p.Rot[len(p.Rot)-1]
		if t.Crop == o.Set.Code {
			cut := t.Sow.AddDays(r.Range(45, 110))
			if CalOf(t.Crop).Winter {
				cut = Date{t.Sow.Y + 1, r.Range(4, 6), r.Range(1, 28)}
			}
			if cut.Z() < t.Harvest.Z() {
				t.Harvest = cut
				cur = cut
			}
		}
	}
	for k := 0; k < o.Followers; k++ {
		if !add(Crops[r.Intn(len(Crops))], "") {
			break
		}
	}
	// ---- configuration
	p.Cfg["CO2method"] = fmt.Sprint(o.CO2)
	p.Cfg["CO2concentration"] = fmt.Sprint([]int{280, 360, 420, 550, 800}[r.Intn(5)])
	if o.Yml {
		p.Cfg["CropParameterFormat"] = "yml"
	}
	// ---- N supply
	p.Fert = nil
	setN := func(v int) {
		for k := range p.Meas {
			for i := range p.Meas[k].Nmin {
				p.Meas[k].Nmin[i] = v
			}
		}
	}
	mineral := []string{"KAS", "AHL", "HAS"}
	switch o.NLevel {
	case 0:
		setN(1)
		p.Cfg["NDeposition"] = "0"
	case 1:
		setN(r.Range(2, 10))
		if len(p.Rot) > 1 {
			p.Fert = append(p.Fert, FertEv{Amount: r.Range(10, 40), Kind: mineral[r.Intn(3)], Date: p.Rot[1].Sow.AddDays(r.Range(20, 60))})
		}
	case 2:
		for i := 1; i < len(p.Rot); i++ {
			d := p.Rot[i].Sow.AddDays(r.Range(5, 30))
			if CalOf(p.Rot[i].Crop).Winter {
				d = Date{p.Rot[i].Harvest.Y, 3, r.Range(1, 28)}
			}
			for k := 0; k < r.Range(1, 3); k++ {
				p.Fert = append(p.Fert, FertEv{Amount: r.Range(40, 90), Kind: mineral[r.Intn(3)], Date: d})
				d = d.AddDays(r.Range(15, 45))
			}
		}
	case 3:
		setN(r.Range(60, 99))
		org := []string{"RM", "RG", "SM", "SG"}
		for i := 1; i < len(p.Rot); i++ {
			d := p.Rot[i].Sow.AddDays(r.Range(-3, 10))
			for k := 0; k < r.Range(3, 6); k++ {
				kind := mineral[r.Intn(3)]
				if r.Chance(0.25) {
					kind = org[r.Intn(4)]
				}
				p.Fert = append(p.Fert, FertEv{Amount: r.Range(150, 400), Kind: kind, Date: d})
				d = d.AddDays(r.Range(10, 60))
			}
		}
	}
	// ---- weather scenario
	c := &p.Climate
	switch o.Scenario {
	case "drought":
		c.RainProb = r.Uni(0.02, 0.10)
		c.RainMean = r.Uni(1, 4)
		c.DrySpell = r.Range(60, 120)
		c.MeanT = r.Uni(9, 15)
		p.GW = 99
		p.Irr = nil
	case "frost":
		c.MeanT = r.Uni(2, 7)
		c.AmpT = r.Uni(10, 16)
		c.Frost = r.Uni(10, 22)
	case "wet":
		c.RainProb = r.Uni(0.55, 0.85)
		c.RainMean = r.Uni(6, 14)
		c.ExtremeProb = r.Uni(0.02, 0.10)
		c.ExtremeMM = r.Uni(60, 250)
		p.GW = r.Range(1, 6)
	case "heat":
		c.MeanT = r.Uni(15, 22)
		c.AmpT = r.Uni(9, 14)
		c.NoiseT = r.Uni(3, 7)
	}
	p.WeatherSeed = r.U64()
	if o.SunOutage {
		p.SunOutage = 2
	}
	p.GenWeather()
	// ---- automatic harvest (crop.go:182-204): AutoHarvest with a generated automan table
	if o.AutoHarvest {
		p.Cfg["AutoHarvest"] = "1"
		p.Til = nil
	}
	return p
}

// AutomanTable renders an automan.txt (fixed columns, see input.go:452-536) with one line per crop
// code: sowing window 0 (= rotation date), latest harvest DDMM (for the DE date formats) or MMDD (EN).
func (p *Project) AutomanTable() string {
	tmpl := "SM  0315 0515 1031 9.1    0.0   97.0   0.0    99.0   5.0    0.5     380   0     3      6      120   120   0     S0     S3      0       5       RM    200    H1     60     60     50 "
	var b strings.Builder
	b.WriteString("crp Sow1 Sow2 har2 TSmin Smomin Smomax Hmomin Hmomax Rainav Rainact TACCU Tbase Irrdv1 Irrdv2 Ndem1 Ndem2 Ndem3 stage1 stage 2 stage 3 Twindow orgF  amount appdat Irrlow irrdep irrmax    \n")
	seen := map[string]bool{}
	for i, r := range p.Rot {
		if i == 0 || seen[r.Crop] {
			continue
		}
		seen[r.Crop] = true
		line := []byte(tmpl)
		copy(line[0:3], fmt.Sprintf("%-3s", r.Crop))
		copy(line[4:8], "0000")
		copy(line[9:13], "0000")
		var har string
		if p.DateFmt >= 2 {
			har = fmt.Sprintf("%02d%02d", r.Harvest.M, r.Harvest.D)
		} else {
			har = fmt.Sprintf("%02d%02d", r.Harvest.D, r.Harvest.M)
		}
		copy(line[14:18], har)
		b.Write(line)
		b.WriteByte('\n')
	}
	return b.String()
}

// WriteCropAutoman puts the generated automan table into the project directory (before Write, which
// keeps an existing file).
func (p *Project) WriteCropAutoman(root string) error {
	dir := filepath.Join(root, "project", p.Name)
	if err := os.MkdirAll(dir, 0o755); err != nil {
		return err
	}
	return os.WriteFile(filepath.Join(dir, "automan.txt"), []byte(p.AutomanTable()), 0o644)
}
