import HermesProofs.Calendar
import HermesProofs.Partition
import HermesProofs.RatInst
import HermesProofs.Water
