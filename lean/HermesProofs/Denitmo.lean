/-
Lemmas over ℚ about the model of `Denitmo` (HermesModel/Denitmo.lean) for the `C02_denitmo_…`
theorems: one 30 cm block (rate between 0 and the nitrate of the block, every entry ends between 0
and its old value, the clamp can only add, without clamp the block loses exactly its rate, the
un-swapped blocks never clamp), and the whole array for every number of layers ≥ 9.
-/
import HermesProofs.Mineral
import HermesModel.Denitmo
namespace Hermes.Mineral
open Hermes.Nitro

theorem denitLayer_bounds (c f d : ℚ) (hc : 0 ≤ c) (hf : 0 ≤ f) (hd : 0 ≤ d) :
    0 ≤ denitLayer c f d ∧ denitLayer c f d ≤ c ∧ c - d * f ≤ denitLayer c f d ∧
    (0 ≤ c - d * f → denitLayer c f d = c - d * f) := by
  unfold denitLayer
  by_cases h : 0 < f
  · simp only [h, if_true]
    have := mul_nonneg hd hf
    refine ⟨clamp0_nonneg _, ?_, clamp0_ge _, fun h0 => clamp0_of_nonneg _ (not_lt.mpr h0)⟩
    unfold clamp0; split <;> linarith
  · have : f = 0 := le_antisymm (not_lt.mp h) hf
    subst this
    simp [hc]

/-- what one entry of a block satisfies: new value `x`, value before the clamp `p`, old value `c` -/
def EntryOk (c p x : ℚ) : Prop := 0 ≤ x ∧ x ≤ c ∧ p ≤ x ∧ (0 ≤ p → x = p)

/-- one 30 cm block of `Denitmo` -/
theorem denitmoBlock_spec (swap : Bool) (c0 c1 c2 ft fm : ℚ) (h0 : 0 ≤ c0) (h1 : 0 ≤ c1) (h2 : 0 ≤ c2)
    (hft0 : 0 ≤ ft) (hft : ft ≤ 1) (hfm0 : 0 ≤ fm) (hfm : fm ≤ 1) :
    ∃ x0 x1 x2 p0 p1 p2 d, denitmoBlock swap c0 c1 c2 ft fm = ([x0, x1, x2], d) ∧
      denitmoBlockPre swap c0 c1 c2 ft fm = [p0, p1, p2] ∧ 0 ≤ d ∧ d ≤ c0 + c1 + c2 ∧
      p0 + p1 + p2 = c0 + c1 + c2 - d ∧ EntryOk c0 p0 x0 ∧ EntryOk c1 p1 x1 ∧ EntryOk c2 p2 x2 ∧
      0 ≤ p0 ∧ (swap = false → 0 ≤ p1 ∧ 0 ≤ p2) := by
  by_cases hn : 0 < c0 + c1 + c2
  · obtain ⟨hd, hd0⟩ := denitRate_le 4242 (c0 + c1 + c2) ft fm hn (by norm_num) (by norm_num) hft0 hft hfm0 hfm
    have hne : c0 + c1 + c2 ≠ 0 := ne_of_gt hn
    have q0 : 0 ≤ c0 / (c0 + c1 + c2) := div_nonneg h0 (le_of_lt hn)
    have q1 : 0 ≤ c1 / (c0 + c1 + c2) := div_nonneg h1 (le_of_lt hn)
    have q2 : 0 ≤ c2 / (c0 + c1 + c2) := div_nonneg h2 (le_of_lt hn)
    -- an un-swapped share never drives its entry below 0: d·c/n ≤ c
    have own : ∀ c : ℚ, 0 ≤ c → 0 ≤ c - denitRate 4242 (c0 + c1 + c2) ft fm * (c / (c0 + c1 + c2)) := by
      intro c hc
      have e : denitRate 4242 (c0 + c1 + c2) ft fm * (c / (c0 + c1 + c2))
          = c * (denitRate 4242 (c0 + c1 + c2) ft fm / (c0 + c1 + c2)) := by ring
      have : denitRate 4242 (c0 + c1 + c2) ft fm / (c0 + c1 + c2) ≤ 1 := by rw [div_le_one hn]; exact hd
      rw [e]; nlinarith
    cases swap
    · refine ⟨_, _, _, _, _, _, _, by simp only [denitmoBlock, hn, if_true]; rfl,
        by simp only [denitmoBlockPre, hn, if_true]; rfl, hd0, hd, ?_, ?_, ?_, ?_, own c0 h0, fun _ => ⟨own c1 h1, own c2 h2⟩⟩
      · field_simp
      · exact denitLayer_bounds c0 _ _ h0 q0 hd0
      · exact denitLayer_bounds c1 _ _ h1 q1 hd0
      · exact denitLayer_bounds c2 _ _ h2 q2 hd0
    · refine ⟨_, _, _, _, _, _, _, by simp only [denitmoBlock, hn, if_true]; rfl,
        by simp only [denitmoBlockPre, hn, if_true]; rfl, hd0, hd, ?_, ?_, ?_, ?_, own c0 h0, fun h => by simp at h⟩
      · field_simp; ring
      · exact denitLayer_bounds c0 _ _ h0 q0 hd0
      · exact denitLayer_bounds c1 _ _ h1 q2 hd0
      · exact denitLayer_bounds c2 _ _ h2 q1 hd0
  · have e0 : ∀ c : ℚ, denitLayer c 0 0 = c := by intro c; simp [denitLayer]
    refine ⟨c0, c1, c2, c0, c1, c2, 0, ?_, ?_, le_refl _, by linarith, by ring, ?_, ?_, ?_, h0, fun _ => ⟨h1, h2⟩⟩
    · simp only [denitmoBlock, hn, if_false, e0]
    · simp [denitmoBlockPre, hn]
    · exact ⟨h0, le_refl _, le_refl _, fun _ => rfl⟩
    · exact ⟨h1, le_refl _, le_refl _, fun _ => rfl⟩
    · exact ⟨h2, le_refl _, le_refl _, fun _ => rfl⟩

theorem list_nine (c : List ℚ) (h : 9 ≤ c.length) :
    ∃ a0 a1 a2 a3 a4 a5 a6 a7 a8 rest, c = a0 :: a1 :: a2 :: a3 :: a4 :: a5 :: a6 :: a7 :: a8 :: rest := by
  match c, h with
  | a0 :: a1 :: a2 :: a3 :: a4 :: a5 :: a6 :: a7 :: a8 :: rest, _ => exact ⟨a0, a1, a2, a3, a4, a5, a6, a7, a8, rest, rfl⟩

/-- sums over the first `9 + k` entries of two arrays that agree from entry 9 on differ by the
difference of the sums over the first nine -/
theorem take_sum_shift (c c' : List ℚ) (h : c'.drop 9 = c.drop 9) (k : ℕ) :
    (c'.take (9 + k)).sum - (c.take (9 + k)).sum = (c'.take 9).sum - (c.take 9).sum := by
  rw [List.take_add, List.take_add, List.sum_append, List.sum_append, h]
  ring

/-- the inputs the `C02_denitmo_…` theorems quantify over: the array has its nine block entries,
they hold non-negative nitrate, the moisture and temperature factors of the three blocks are in
[0,1] (they are `1 − exp(−x)` with `x ≥ 0`) -/
structure DenitmoIn (c : List ℚ) (ft1 ft2 ft3 fm1 fm2 fm3 : ℚ) : Prop where
  len : 9 ≤ c.length
  nonneg : ∀ x ∈ c.take 9, 0 ≤ x
  ft1 : 0 ≤ ft1 ∧ ft1 ≤ 1
  ft2 : 0 ≤ ft2 ∧ ft2 ≤ 1
  ft3 : 0 ≤ ft3 ∧ ft3 ≤ 1
  fm1 : 0 ≤ fm1 ∧ fm1 ≤ 1
  fm2 : 0 ≤ fm2 ∧ fm2 ≤ 1
  fm3 : 0 ≤ fm3 ∧ fm3 ≤ 1

/-- **`Denitmo` on the whole array.** Non-negative nitrate in the nine entries of the three blocks,
factors in [0,1]. -/
theorem denitmo_spec' {c : List ℚ} {ft1 ft2 ft3 fm1 fm2 fm3 : ℚ} (h : DenitmoIn c ft1 ft2 ft3 fm1 fm2 fm3) (cum : ℚ) :
    let o := denitmo c ft1 ft2 ft3 fm1 fm2 fm3 cum
    o.c.length = c.length ∧ o.c.drop 9 = c.drop 9 ∧ cum ≤ o.cumdenit ∧ o.cumdenit - cum ≤ (c.take 9).sum ∧
    (c.take 9).sum - (o.cumdenit - cum) ≤ (o.c.take 9).sum ∧
    ((∀ p ∈ denitmoPre c ft1 ft2 ft3 fm1 fm2 fm3, 0 ≤ p) → (o.c.take 9).sum = (c.take 9).sum - (o.cumdenit - cum)) ∧
    (∀ i, i < 9 → 0 ≤ o.c.getD i 0 ∧ o.c.getD i 0 ≤ c.getD i 0) ∧
    (∀ n, n < 9 → (c.take n).sum - (o.cumdenit - cum) ≤ (o.c.take n).sum) ∧
    (o.c.take 6).sum = (c.take 6).sum - ((denitmoBlock false (c.getD 0 0) (c.getD 1 0) (c.getD 2 0) ft1 fm1).2
        + (denitmoBlock false (c.getD 3 0) (c.getD 4 0) (c.getD 5 0) ft2 fm2).2) := by
  obtain ⟨h9, hc, ⟨a1, b1⟩, ⟨a2, b2⟩, ⟨a3, b3⟩, ⟨d1, e1⟩, ⟨d2, e2⟩, ⟨d3, e3⟩⟩ := h
  obtain ⟨v0, v1, v2, v3, v4, v5, v6, v7, v8, rest, rfl⟩ := list_nine c h9
  simp only [List.take_succ_cons, List.take_zero, List.mem_cons, List.mem_nil_iff, or_false] at hc
  have g0 := hc v0 (by simp); have g1 := hc v1 (by simp); have g2 := hc v2 (by simp)
  have g3 := hc v3 (by simp); have g4 := hc v4 (by simp); have g5 := hc v5 (by simp)
  have g6 := hc v6 (by simp); have g7 := hc v7 (by simp); have g8 := hc v8 (by simp)
  obtain ⟨x0, x1, x2, p0, p1, p2, r1, hb1, hp1, r1a, r1b, s1, ⟨k0a, k0b, k0c, k0d⟩, ⟨k1a, k1b, k1c, k1d⟩, ⟨k2a, k2b, k2c, k2d⟩, n0, n12⟩ :=
    denitmoBlock_spec false v0 v1 v2 ft1 fm1 g0 g1 g2 a1 b1 d1 e1
  obtain ⟨x3, x4, x5, p3, p4, p5, r2, hb2, hp2, r2a, r2b, s2, ⟨k3a, k3b, k3c, k3d⟩, ⟨k4a, k4b, k4c, k4d⟩, ⟨k5a, k5b, k5c, k5d⟩, n3, n45⟩ :=
    denitmoBlock_spec false v3 v4 v5 ft2 fm2 g3 g4 g5 a2 b2 d2 e2
  obtain ⟨x6, x7, x8, p6, p7, p8, r3, hb3, hp3, r3a, r3b, s3, ⟨k6a, k6b, k6c, k6d⟩, ⟨k7a, k7b, k7c, k7d⟩, ⟨k8a, k8b, k8c, k8d⟩, n6, _⟩ :=
    denitmoBlock_spec true v6 v7 v8 ft3 fm3 g6 g7 g8 a3 b3 d3 e3
  obtain ⟨n1, n2⟩ := n12 rfl
  obtain ⟨n4, n5⟩ := n45 rfl
  simp only [denitmo, denitmoPre, List.getD_cons_zero, List.getD_cons_succ, hb1, hb2, hb3, hp1, hp2, hp3,
    List.drop_succ_cons, List.drop_zero, List.cons_append, List.nil_append, List.take_succ_cons, List.take_zero,
    List.sum_cons, List.sum_nil, List.length_cons, List.mem_cons, List.mem_nil_iff, or_false]
  refine ⟨trivial, trivial, by linarith, by linarith, by linarith, ?_, ?_, ?_, ?_⟩
  · intro hp
    have q0 := hp p0 (by simp); have q1 := hp p1 (by simp); have q2 := hp p2 (by simp)
    have q3 := hp p3 (by simp); have q4 := hp p4 (by simp); have q5 := hp p5 (by simp)
    have q6 := hp p6 (by simp); have q7 := hp p7 (by simp); have q8 := hp p8 (by simp)
    rw [k0d q0, k1d q1, k2d q2, k3d q3, k4d q4, k5d q5, k6d q6, k7d q7, k8d q8]
    linarith
  · intro i hi
    match i with
    | 0 => exact ⟨k0a, k0b⟩
    | 1 => exact ⟨k1a, k1b⟩
    | 2 => exact ⟨k2a, k2b⟩
    | 3 => exact ⟨k3a, k3b⟩
    | 4 => exact ⟨k4a, k4b⟩
    | 5 => exact ⟨k5a, k5b⟩
    | 6 => exact ⟨k6a, k6b⟩
    | 7 => exact ⟨k7a, k7b⟩
    | 8 => exact ⟨k8a, k8b⟩
    | j + 9 => omega
  · intro n hn
    match n, hn with
    | 0, _ | 1, _ | 2, _ | 3, _ | 4, _ | 5, _ | 6, _ | 7, _ | 8, _ =>
      simp only [List.take_succ_cons, List.take_zero, List.sum_cons, List.sum_nil]; linarith
    | j + 9, h => omega
  · rw [k0d n0, k1d n1, k2d n2, k3d n3, k4d n4, k5d n5]
    linarith

end Hermes.Mineral
