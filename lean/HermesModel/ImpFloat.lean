/-
`MathFns Float`: Go's package `math` for the translated kernels when the driver executes them (C library behind Lean's
`Float`; `Max`/`Min` with Go's special cases for NaN, infinities and signed zeros; `int(x)` truncates towards zero).
Used by the driver only — never by a theorem.
-/
import HermesModel.Imp
namespace Hermes.Imp

def goMax (x y : Float) : Float :=
  if x.isInf && x > 0 then x
  else if y.isInf && y > 0 then y
  else if x.isNaN then x
  else if y.isNaN then y
  else if x == 0 && y == 0 then (if x.toBits == 0 then x else y)   -- +0 wins over -0
  else if x > y then x else y

def goMin (x y : Float) : Float :=
  if x.isInf && x < 0 then x
  else if y.isInf && y < 0 then y
  else if x.isNaN then x
  else if y.isNaN then y
  else if x == 0 && y == 0 then (if x.toBits == 0 then y else x)   -- -0 wins over +0
  else if x < y then x else y

def floatMath : MathFns Float where
  exp := Float.exp
  log := Float.log
  pow := Float.pow
  mod := fun x y => x - y * (Float.ofInt (x / y).toInt64.toInt)   -- Go math.Mod: result has the sign of x (C fmod) for the magnitudes the kernels use
  sqrt := Float.sqrt
  sin := Float.sin
  cos := Float.cos
  tan := Float.tan
  asin := Float.asin
  acos := Float.acos
  atan := Float.atan
  abs := Float.abs
  max := goMax
  min := goMin
  round := Float.round
  floor := Float.floor
  ceil := Float.ceil
  ofInt := Float.ofInt
  toInt := fun x => x.toInt64.toInt

end Hermes.Imp
