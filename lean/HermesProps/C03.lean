/-
C03 — Results are deterministic and independent of scheduling.

Models: HermesModel/Dispatch.lean (dispatcher of src/hermes2go/hermes_main.go:192-263 as a
nondeterministic transition system over a run *function*; `FilePool.Get` of hermes/path.go:198-233
over an immutable file system).

What is proved here: the protocol logic (every maximal execution of the dispatcher, for every
concurrency ≥ 1, every order of the lines and every interleaving of the transitions, delivers the
same multiset of (line id, result), each selected line exactly once; no deadlock) and the
transparency of the file pool (any interleaving of `Get` calls from any warm cache state returns
the file contents).

What is NOT provable in Lean and is a hypothesis: `runs_share_only_pool` — a run is a function
`Cfg.run` of its batch line (and the immutable file system).  It is discharged by the regenerated
concurrency facts (HermesModel/Generated/ConcurrencyFacts.lean, compared with
harness/cmd/check/c03_expect.go: no write to a package-level variable of package hermes outside
`init`, every access to `FilePool.list` inside the mutex span, per-run state allocated inside
`Run`) and observed at run time (byte-identical result files over generated batches, race detector).
Data-race freedom under the Go memory model and the scheduler's real interleavings are observed only.
-/
import HermesProofs.Dispatch

namespace Hermes.FilePool

variable {Path Content : Type} [DecidableEq Path]

/-- `pool_transparent`: for every sequence of `Get` calls (= every interleaving of the calls of all
runs of the session) and every prior cache state satisfying the cache invariant (cold, warm, or
after `Close`), every `Get p` returns `fs p`, and the invariant is preserved. -/
theorem C03_pool_transparent (fs : Path → Content) (pool : Pool Path Content) (h : Inv fs pool)
    (calls : List (Nat × Path)) :
    (getAll fs pool calls).2 = calls.map (fun x => (x.1, fs x.2)) ∧ Inv fs (getAll fs pool calls).1 :=
  getAll_spec fs calls pool h

/-- What one run reads through the pool does not depend on the other runs' calls, on their
interleaving with its own, or on what earlier runs of the session left in the cache: it equals what
the run reads alone from a cold pool. -/
theorem C03_pool_interleaving_invisible (fs : Path → Content) (pool : Pool Path Content)
    (h : Inv fs pool) (calls : List (Nat × Path)) (r : Nat) :
    view r (getAll fs pool calls).2 =
      view r (getAll fs ⟨none⟩ ((callsOf r calls).map fun p => (r, p))).2 := by
  rw [(getAll_spec fs calls pool h).1, (getAll_spec fs _ ⟨none⟩ (inv_empty fs)).1, view_map, view_map,
    callsOf_tag]

/-- The cold pool and the closed pool satisfy the cache invariant. -/
theorem C03_pool_cold_and_closed_ok (fs : Path → Content) (pool : Pool Path Content) :
    Inv fs (⟨none⟩ : Pool Path Content) ∧ Inv fs (close pool) :=
  ⟨inv_empty fs, inv_close fs pool⟩

example : (getAll (fun p : Nat => p * 10) ⟨some [(2, 20)]⟩ [(0, 1), (1, 2), (0, 1), (1, 3)]).2
    = [(0, 10), (1, 20), (0, 10), (1, 30)] := by decide

end Hermes.FilePool

namespace Hermes.Dispatch

variable {Line Result : Type}

/-- `dispatch_no_deadlock`: in every reachable state in which not all results have been collected
some transition is enabled (concurrency ≥ 1, no selected line ends in log.Fatal/panic). The run's
two sends on the unbuffered channels are always eventually received: the dispatcher is in one of
its `select` statements whenever all slots are taken or no line is left. -/
theorem C03_dispatch_no_deadlock (M : Cfg Line Result) (sel : List (Nat × Line))
    (hc : 1 ≤ M.conc) (hok : NoFatal M sel) (n : Nat) (s : State Line Result)
    (he : Exec M (init sel) n s) (hnf : ¬ Final s) : ∃ s', Step M s s' :=
  progress hc hok (exec_inv hok he (inv_init M sel)) hnf

/-- Every maximal execution ends with the multiset of (line id, result) being that of the selected
lines under the run function — whatever the interleaving. -/
theorem C03_dispatch_maximal_execution_result (M : Cfg Line Result) (sel : List (Nat × Line))
    (hc : 1 ≤ M.conc) (hok : NoFatal M sel) (n : Nat) (s : State Line Result)
    (he : Exec M (init sel) n s) (hst : Stuck M s) :
    Final s ∧ List.Perm (s.finished.map finTag) (sel.map (lineTag M)) := by
  have hinv := exec_inv hok he (inv_init M sel)
  have hf := stuck_final hc hok hinv hst
  exact ⟨hf, final_finished hinv hf⟩

/-- `dispatch_schedule_independent`: two maximal executions — with different concurrency levels
(both ≥ 1), different orders of the same lines and different interleavings — end with the same
multiset of (line id, result). -/
theorem C03_dispatch_schedule_independent (M₁ M₂ : Cfg Line Result)
    (hrun : M₁.run = M₂.run) (sel₁ sel₂ : List (Nat × Line)) (hperm : List.Perm sel₁ sel₂)
    (hc₁ : 1 ≤ M₁.conc) (hc₂ : 1 ≤ M₂.conc) (hok : NoFatal M₁ sel₁)
    (n₁ n₂ : Nat) (s₁ s₂ : State Line Result)
    (he₁ : Exec M₁ (init sel₁) n₁ s₁) (hst₁ : Stuck M₁ s₁)
    (he₂ : Exec M₂ (init sel₂) n₂ s₂) (hst₂ : Stuck M₂ s₂) :
    List.Perm s₁.finished s₂.finished := by
  have hok₂ : NoFatal M₂ sel₂ := by
    intro p hp
    have := hok p ((hperm.mem_iff).mpr hp)
    rw [hrun] at this; exact this
  have h₁ := (C03_dispatch_maximal_execution_result M₁ sel₁ hc₁ hok n₁ s₁ he₁ hst₁).2
  have h₂ := (C03_dispatch_maximal_execution_result M₂ sel₂ hc₂ hok₂ n₂ s₂ he₂ hst₂).2
  have hl : lineTag M₁ = lineTag M₂ := by funext p; simp [lineTag, hrun]
  have hm : List.Perm (sel₁.map (lineTag M₁)) (sel₂.map (lineTag M₂)) := by
    rw [hl]; exact hperm.map _
  have : List.Perm (s₁.finished.map finTag) (s₂.finished.map finTag) := h₁.trans (hm.trans h₂.symm)
  exact perm_of_perm_finTag this

/-- Each selected line is finished exactly once: the finished ids are a permutation of the
selected ids (which are pairwise distinct for `selectLines`). -/
theorem C03_dispatch_each_line_exactly_once (M : Cfg Line Result) (sel : List (Nat × Line))
    (hc : 1 ≤ M.conc) (hok : NoFatal M sel) (n : Nat) (s : State Line Result)
    (he : Exec M (init sel) n s) (hst : Stuck M s) :
    List.Perm (s.finished.map Prod.fst) (sel.map Prod.fst) := by
  have h := (C03_dispatch_maximal_execution_result M sel hc hok n s he hst).2
  have := h.map Prod.fst
  simpa [List.map_map, Function.comp_def, finTag, lineTag] using this

/-- The executable dispatcher of the model driver (`dispatch.run`) performs only transitions of the
transition system, and a state without enabled successor is stuck. -/
theorem C03_driver_schedule_is_execution (M : Cfg Line Result) (cs : List Nat) (s : State Line Result) :
    (∃ n, Exec M s n (runSchedule M s cs)) ∧ (successors M s = [] → Stuck M s) := by
  refine ⟨runSchedule_exec M cs s, ?_⟩
  intro h s' hs
  have := (mem_successors_iff M s s').mpr hs
  rw [h] at this; cases this

/-! ### non-vacuity: three lines, one failing, concurrency 2 — a complete execution exists -/
example : NoFatal exCfg [(0, 10), (1, 11), (2, 12)] := by
  intro p _; exact ⟨_, rfl⟩
example : (runSchedule exCfg (init [(0, 10), (1, 11), (2, 12)]) (List.replicate 14 0)).finished
    = [(0, true), (1, false), (2, true)] := by decide
example : (runSchedule exCfg (init [(0, 10), (1, 11), (2, 12)]) [0, 0, 2, 1, 1, 1, 0, 0, 0, 0, 0, 0, 0]).finished
    = [(1, false), (0, true), (2, true)] := by decide

end Hermes.Dispatch
