import HermesModel.Proto
import HermesModel.Dispatch
import HermesModel.Generated.ConcurrencyFacts
open Hermes Hermes.Proto

/-!
Driver operations `dispatch.*` (C03 / C11):

* `dispatch.run n conc start end k f₁…f_k m c₁…c_m` — the model dispatcher over the batch lines
  0…n−1 (`-lines` window: start index, end line, 0 0 = all), the lines f₁…f_k fail, run under the
  schedule c₁…c_m (each choice picks one enabled transition). Answer:
  `finished <number of results> errors [<sorted failed ids>] count <number printed>` or `not-final`.
* `dispatch.pool n v₀…v_{n−1} p q₁…q_p m s₁…s_m` — the pool model over the file system
  `path i ↦ vᵢ`, cache pre-filled with the paths q (warm), then `Get s₁ … Get s_m`; answer: the
  returned contents.
* `dispatch.facts` — verdict over the regenerated concurrency facts.
-/
namespace Hermes.Driver

def insertSorted (x : Nat) : List Nat → List Nat
  | [] => [x]
  | y :: r => if x ≤ y then x :: y :: r else y :: insertSorted x r

def sortNats (l : List Nat) : List Nat := l.foldr insertSorted []

def popNats_Dispatch : Nat → Toks → Option (List Nat × Toks)
  | 0, r => some ([], r)
  | n + 1, r => do
    let (x, r) ← popNat r
    let (xs, r) ← popNats_Dispatch n r
    pure (x :: xs, r)

def dispatchRun (toks : Toks) : Option String := do
  let (n, r) ← popNat toks
  let (conc, r) ← popNat r
  let (start, r) ← popNat r
  let (end_, r) ← popNat r
  let (k, r) ← popNat r
  let (failing, r) ← popNats_Dispatch k r
  let (m, r) ← popNat r
  let (choices, _) ← popNats_Dispatch m r
  let M : Dispatch.Cfg Nat Bool :=
    { run := fun l => some (!failing.contains l), failed := fun ok => !ok, conc := conc }
  let sel := Dispatch.selectLines start end_ (List.range n)
  let s := Dispatch.runSchedule M (Dispatch.init sel) choices
  if !(Dispatch.successors M s).isEmpty || !s.pending.isEmpty || !s.active.isEmpty then
    pure "not-final"
  else
    let ids := sortNats (match s.summaryResult with | some es => es.map (·.1) | none => [])
    pure s!"finished {s.finished.length} errors [{",".intercalate (ids.map toString)}] count {Dispatch.printedCount s}"

def dispatchPool (toks : Toks) : Option String := do
  let (n, r) ← popNat toks
  let (vals, r) ← popNats_Dispatch n r
  let (p, r) ← popNat r
  let (pre, r) ← popNats_Dispatch p r
  let (m, r) ← popNat r
  let (seq, _) ← popNats_Dispatch m r
  let fs : Nat → Nat := fun i => vals.getD i 0
  let pool : FilePool.Pool Nat Nat := ⟨some (pre.map fun i => (i, fs i))⟩
  let res := (FilePool.getAll fs pool (seq.map fun i => (0, i))).2
  pure (" ".intercalate (res.map fun x => toString x.2))

def dispatchFacts : String :=
  open Hermes.Generated.Concurrency in
  s!"writes {packageVarWrites.length} unlocked {poolListUnlocked.length} poolaccesses {poolListAccesses.length} maprange-output {mapRangesWritingOutput.length} fatal {fatalSites.length} perrun {runStateAllocations.length}"

def dispatchOps (toks : List String) : String :=
  match toks with
  | "dispatch.run" :: rest => (dispatchRun rest).getD "bad-op"
  | "dispatch.pool" :: rest => (dispatchPool rest).getD "bad-op"
  | ["dispatch.facts"] => dispatchFacts
  | _ => "bad-op"

end Hermes.Driver
