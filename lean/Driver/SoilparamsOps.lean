import HermesModel.Proto
import HermesModel.SoilParams
open Hermes Hermes.Proto

namespace Hermes.Driver
open Hermes.SoilParams

/-- `soilparams.ptf k c ton sluf ssand` → fc wmin -/
def spPtf (toks : List String) : Option String := do
  let (k, r) ← popNat toks
  let (xs, _) ← popFloats 4 r
  match xs with
  | [c, ton, sluf, ssand] =>
    let o := ptf k c ton sluf ssand
    some (fmtFloats [o.1, o.2])
  | _ => none

/-- `soilparams.wred sand wp fc` → WRED -/
def spWred (toks : List String) : Option String := do
  let (s, r) ← popNat toks
  let (xs, _) ← popFloats 2 r
  match xs with
  | [wp, fc] => some (fmtFloats [calcWRed (s == 1) wp fc])
  | _ => none

/-- `soilparams.hydro c0 c1 c2 ld corg stein grw` → FK FELDW LIM PRGES NORMFK WRED AD -/
def spHydro (toks : List String) : Option String := do
  let (c0, r) ← popNat toks
  let (c1, r) ← popNat r
  let (c2, r) ← popNat r
  let (ld, r) ← popNat r
  let (xs, _) ← popFloats 3 r
  match xs with
  | [corg, stein, grw] =>
    let codes := [c0, c1, c2]
    let cell : Cell Float := hydro codes ld corg grw
    some (fmtFloats [cell.fk, cell.feldw, cell.lim, cell.prges, cell.normfk, hydroWRed codes cell stein,
      (adOf (texClass codes) : Float)])
  | _ => none

def mkLayers_Soilparams : List Float → List Float → List (Layer Float)
  | w :: ws, p :: ps => { w := w, wmin := 0.0, porges := p, wnor := 0.0 } :: mkLayers_Soilparams ws ps
  | _, _ => []

/-- `soilparams.setfc n grw w[n] porges[n]` → W[n] after setFieldCapacityWithGW -/
def spSetFc (toks : List String) : Option String := do
  let (n, r) ← popNat toks
  let (g, r) ← popFloats 1 r
  let (w, r) ← popFloats n r
  let (p, _) ← popFloats n r
  match g with
  | [grw] => some (fmtFloats ((setFieldCapacityWithGW grw (mkLayers_Soilparams w p)).map (·.w)))
  | _ => none

def popHorizons_Soilparams : Nat → Toks → Option (List (Horizon Float) × Toks)
  | 0, r => some ([], r)
  | n + 1, r => do
    let (c0, r) ← popNat r
    let (c1, r) ← popNat r
    let (c2, r) ← popNat r
    let (ld, r) ← popNat r
    let (lower, r) ← popNat r
    let (xs, r) ← popFloats 8 r
    let (hs, r) ← popHorizons_Soilparams n r
    match xs with
    | [corg, stein, fka, wp, gpv, sand, silt, clay] =>
      pure ({ codes := [c0, c1, c2], ld, lower, corg, stein, fka, wp, gpv, sand, silt, clay } :: hs, r)
    | _ => none

/-- `soilparams.day ptf changed n nh gw grwInit grw {c0 c1 c2 ld lower corg stein fka wp gpv sand silt clay}*nh`
→ W[n] WMIN[n] PORGES[n] WNOR[n] WRED of the state the day loop works with -/
def spDay (toks : List String) : Option String := do
  let (k, r) ← popNat toks
  let (changed, r) ← popNat r
  let (n, r) ← popNat r
  let (nh, r) ← popNat r
  let (g, r) ← popFloats 3 r
  let (hs, _) ← popHorizons_Soilparams nh r
  match g with
  | [gw, grwInit, grw] =>
    let s := dayState k hs n gw grwInit (changed == 1) grw
    let ls := s.cur.take n
    some (fmtFloats (ls.map (·.w) ++ ls.map (·.wmin) ++ ls.map (·.porges) ++ ls.map (·.wnor) ++ [s.wred]))
  | _ => none

def soilparamsOps (toks : List String) : String :=
  match toks with
  | "soilparams.ptf" :: rest => (spPtf rest).getD "bad-op"
  | "soilparams.wred" :: rest => (spWred rest).getD "bad-op"
  | "soilparams.hydro" :: rest => (spHydro rest).getD "bad-op"
  | "soilparams.setfc" :: rest => (spSetFc rest).getD "bad-op"
  | "soilparams.day" :: rest => (spDay rest).getD "bad-op"
  | _ => "bad-op"

end Hermes.Driver
